(* Registry/Proofs.v — lemmas behind Props_C20.v *)
From HostdBase Require Import Base.
From HostdRegistry Require Import Model.

(* the trace of a run: every op with the observation the model makes *)
Fixpoint trace (s : state) (l : list op) : list (op * obs) :=
  match l with
  | [] => []
  | o :: t => let '(s', m) := step s o in (o, m) :: trace s' t
  end.

Definition runs (s : state) (l : list op) : state := fold_left (fun s o => fst (step s o)) l s.

(* the abstract specification: the entry of the last accepted update of key k *)
Definition acc_upd (k : N) (cur : option entry) (x : op * obs) : option entry :=
  match x with
  | (Put k' e _ _ _, OPut true _) => if (k =? k')%N then Some e else cur
  | _ => cur
  end.
Definition last_accepted (k : N) (cur : option entry) (t : list (op * obs)) : option entry :=
  fold_left (acc_upd k) t cur.

Lemma alookup_aset_same V k (v : V) l : alookup k (aset k v l) = Some v.
Proof.
  induction l as [|[k' v'] t IH]; cbn; [now rewrite N.eqb_refl|].
  destruct (k =? k')%N eqn:E; cbn; [now rewrite N.eqb_refl| now rewrite E].
Qed.

Lemma alookup_aset_other V k k' (v : V) l : k <> k' -> alookup k (aset k' v l) = alookup k l.
Proof.
  intros Hne; induction l as [|[k2 v2] t IH]; cbn.
  - destruct (k =? k')%N eqn:E; [apply N.eqb_eq in E; contradiction|reflexivity].
  - destruct (k' =? k2)%N eqn:E2; cbn.
    + apply N.eqb_eq in E2; subst k2.
      destruct (k =? k')%N eqn:E; [apply N.eqb_eq in E; contradiction|reflexivity].
    + destruct (k =? k2)%N; [reflexivity|exact IH].
Qed.

Lemma length_aset V k (v : V) l :
  length (aset k v l) = match alookup k l with Some _ => length l | None => S (length l) end.
Proof.
  induction l as [|[k' v'] t IH]; cbn; [reflexivity|].
  destruct (k =? k')%N eqn:E; cbn; [reflexivity|].
  rewrite IH; destruct (alookup k t); reflexivity.
Qed.

(* one step against the spec *)
Lemma step_lookup s o k :
  alookup k (entries (fst (step s o))) =
  acc_upd k (alookup k (entries s)) (o, snd (step s o)).
Proof.
  destruct o as [n|k' e exp valid tie|k'| |h|k']; cbn; try reflexivity.
  destruct valid; cbn; [|reflexivity].
  destruct (alookup k' (entries s)) as [old|] eqn:L.
  - destruct (supersedes old e tie); cbn; [|reflexivity].
    destruct (k =? k')%N eqn:E.
    + apply N.eqb_eq in E; subst; apply alookup_aset_same.
    + apply alookup_aset_other; intros ->; now rewrite N.eqb_refl in E.
  - destruct (limit s <=? count s)%N; cbn; [reflexivity|].
    destruct (k =? k')%N eqn:E.
    + apply N.eqb_eq in E; subst; apply alookup_aset_same.
    + apply alookup_aset_other; intros ->; now rewrite N.eqb_refl in E.
Qed.

Lemma read_last_accepted_from s l k :
  alookup k (entries (runs s l)) = last_accepted k (alookup k (entries s)) (trace s l).
Proof.
  revert s; induction l as [|o t IH]; intros s; [reflexivity|].
  change (runs s (o :: t)) with (runs (fst (step s o)) t).
  pose proof (step_lookup s o k) as H.
  cbn [trace]. destruct (step s o) as [s' m]; cbn [fst snd] in *.
  rewrite IH, H. reflexivity.
Qed.

Lemma read_last_accepted l k :
  alookup k (entries (runs init l)) = last_accepted k None (trace init l).
Proof. apply (read_last_accepted_from init l k). Qed.

(* a Get issued after any history returns exactly that *)
Lemma get_returns_last_accepted l k :
  snd (step (runs init l) (Get k)) = OGet (last_accepted k None (trace init l)).
Proof. cbn; now rewrite read_last_accepted. Qed.

(* acceptance: only if valid and (new key with room, or supersedes); effect exact *)
Lemma put_accept_only_if s k e exp valid tie s' r :
  step s (Put k e exp valid tie) = (s', OPut true r) ->
  valid = true /\ r = Some e /\
  (  (alookup k (entries s) = None /\ (count s < limit s)%N)
  \/ (exists old, alookup k (entries s) = Some old /\ supersedes old e tie = true)) /\
  alookup k (entries s') = Some e /\
  (forall k', k' <> k -> alookup k' (entries s') = alookup k' (entries s)) /\
  limit s' = limit s.
Proof.
  cbn; destruct valid; cbn; [|discriminate].
  destruct (alookup k (entries s)) as [old|] eqn:L.
  - destruct (supersedes old e tie) eqn:S; [|discriminate].
    intros H; inversion H; subst; cbn.
    repeat split; try reflexivity.
    + right; now exists old.
    + apply alookup_aset_same.
    + intros k' Hne; now apply alookup_aset_other.
  - destruct (limit s <=? count s)%N eqn:C; [discriminate|].
    intros H; inversion H; subst; cbn.
    repeat split; try reflexivity.
    + left; split; [reflexivity|]. apply N.leb_gt in C; exact C.
    + apply alookup_aset_same.
    + intros k' Hne; now apply alookup_aset_other.
Qed.

(* and conversely every valid superseding / fitting update is accepted *)
Lemma put_accept_if s k e exp tie :
  (  (alookup k (entries s) = None /\ (count s < limit s)%N)
  \/ (exists old, alookup k (entries s) = Some old /\ supersedes old e tie = true)) ->
  snd (step s (Put k e exp true tie)) = OPut true (Some e).
Proof.
  cbn; intros [[L C]|[old [L S]]]; rewrite L.
  - apply N.leb_gt in C; now rewrite C.
  - now rewrite S.
Qed.

(* rejection: nothing changes; the stored entry is handed back for a valid entry that
   does not supersede it *)
Lemma put_reject_unchanged s k e exp valid tie s' r :
  step s (Put k e exp valid tie) = (s', OPut false r) ->
  s' = s /\
  (valid = true -> forall old, alookup k (entries s) = Some old -> r = Some old).
Proof.
  cbn; destruct valid; cbn.
  - destruct (alookup k (entries s)) as [old|] eqn:L.
    + destruct (supersedes old e tie); [discriminate|].
      intros H; inversion H; subst; split; [reflexivity|].
      intros _ old' Ho; now inversion Ho.
    + destruct (limit s <=? count s)%N; [|discriminate].
      intros H; inversion H; subst; split; [reflexivity|]. intros _ old' Ho; discriminate.
  - intros H; inversion H; subst; split; [reflexivity|discriminate].
Qed.

(* count = metric on every reachable state *)
Definition MetricInv (s : state) : Prop := metric s = Z.of_N (count s).

Lemma step_metric s o : MetricInv s -> MetricInv (fst (step s o)).
Proof.
  unfold MetricInv; destruct o as [n|k e exp valid tie|k| |h|k]; cbn; try (intros H; exact H).
  destruct valid; cbn; [|intros H; exact H].
  destruct (alookup k (entries s)) as [old|] eqn:L.
  - destruct (supersedes old e tie); cbn; [|intros H; exact H].
    unfold count; cbn. rewrite length_aset, L; intros H; rewrite H; lia.
  - destruct (limit s <=? count s)%N; cbn; [intros H; exact H|].
    unfold count; cbn. rewrite length_aset, L; intros H; rewrite H. lia.
Qed.

Lemma metric_inv_from s l : MetricInv s -> MetricInv (runs s l).
Proof.
  revert s; induction l as [|o t IH]; intros s H; cbn; [exact H|].
  apply IH, step_metric, H.
Qed.

Lemma metric_inv l : MetricInv (runs init l).
Proof. apply metric_inv_from; reflexivity. Qed.

(* capacity *)
Definition CapInv (s : state) : Prop := (count s <= limit s)%N.

(* an operator never lowers the limit below the current count *)
Definition lowers (s : state) (o : op) : bool :=
  match o with SetLimit n => (n <? count s)%N | _ => false end.

Lemma step_cap s o : lowers s o = false -> CapInv s -> CapInv (fst (step s o)).
Proof.
  unfold CapInv; destruct o as [n|k e exp valid tie|k| |h|k]; cbn; try (intros _ H; exact H).
  - intros Hl _. apply N.ltb_ge in Hl. exact Hl.
  - intros _; destruct valid; cbn; [|intros H; exact H].
    destruct (alookup k (entries s)) as [old|] eqn:L.
    + destruct (supersedes old e tie); cbn; [|intros H; exact H].
      unfold count; cbn. rewrite length_aset, L; intros H; exact H.
    + destruct (limit s <=? count s)%N eqn:C; cbn; [intros H; exact H|].
      apply N.leb_gt in C. unfold count in *; cbn. rewrite length_aset, L; intros _. lia.
Qed.

Fixpoint never_lowers (s : state) (l : list op) : bool :=
  match l with
  | [] => true
  | o :: t => negb (lowers s o) && never_lowers (fst (step s o)) t
  end.

Lemma cap_inv_from s l : never_lowers s l = true -> CapInv s -> CapInv (runs s l).
Proof.
  revert s; induction l as [|o t IH]; intros s Hn H; cbn; [exact H|].
  cbn in Hn; apply andb_prop in Hn; destruct Hn as [Hl Ht].
  apply IH; [exact Ht|]. apply step_cap; [|exact H].
  now destruct (lowers s o).
Qed.

Lemma cap_inv_partial l : never_lowers init l = true -> CapInv (runs init l).
Proof. intros H; apply cap_inv_from; [exact H|]. unfold CapInv; cbn; lia. Qed.

(* the count only ever grows through an insert that had room *)
Lemma insert_respects_limit s o :
  (count s < count (fst (step s o)))%N -> (count s < limit s)%N.
Proof.
  destruct o as [n|k e exp valid tie|k| |h|k]; cbn; try lia; try (unfold count; cbn; lia).
  destruct valid; cbn; [|lia].
  destruct (alookup k (entries s)) as [old|] eqn:L.
  - destruct (supersedes old e tie); cbn; [|lia].
    unfold count; cbn. rewrite length_aset, L; lia.
  - destruct (limit s <=? count s)%N eqn:C; cbn; [lia|].
    apply N.leb_gt in C; intros _; exact C.
Qed.

(* the literal bound fails once the operator lowers the limit: no eviction exists *)
Definition e1 : entry := {| rev := 1; ety := 1; vid := 1 |}.
Definition cap_witness : list op :=
  [SetLimit 2; Put 1 e1 100 true false; Put 2 e1 100 true false; SetLimit 1].

Lemma cap_inv_refuted : exists l, ~ CapInv (runs init l).
Proof. exists cap_witness; unfold CapInv; vm_compute; intros H; now apply H. Qed.

(* Chain progress is invisible to the registry.  The tip is part of the state (Model.v) and no
   operation reads it: two states that differ only in the tip make the same observations and
   stay that way, so dropping every [Tip] from a history changes no other observation and
   nothing of the final state but the tip itself. *)
Definition is_tip (o : op) : bool := match o with Tip _ => true | _ => false end.

Definition eq_but_tip (a b : state) : Prop :=
  entries a = entries b /\ exps a = exps b /\ limit a = limit b /\ metric a = metric b.

Lemma eq_but_tip_refl a : eq_but_tip a a.
Proof. repeat split. Qed.

Lemma step_eq_but_tip a b o :
  eq_but_tip a b ->
  eq_but_tip (fst (step a o)) (fst (step b o)) /\ snd (step a o) = snd (step b o).
Proof.
  intros (He & Hx & Hl & Hm).
  destruct o as [n|k e exp valid tie|k| |h|k]; cbn;
    try (unfold count; rewrite ?He, ?Hx, ?Hl, ?Hm; repeat split; assumption).
  destruct valid; cbn; [|repeat split; assumption].
  unfold count; rewrite He, Hl.
  destruct (alookup k (entries b)) as [old|].
  - destruct (supersedes old e tie); cbn; [|repeat split; assumption].
    unfold eq_but_tip, write; cbn. rewrite He, Hx, Hl, Hm. repeat split.
  - destruct (limit b <=? N.of_nat (length (entries b)))%N; cbn; [repeat split; assumption|].
    unfold eq_but_tip, write; cbn. rewrite He, Hx, Hl, Hm. repeat split.
Qed.

Lemma tip_eq_but_tip a b h : eq_but_tip a b -> eq_but_tip (fst (step a (Tip h))) b.
Proof. intros (He & Hx & Hl & Hm); repeat split; assumption. Qed.

Lemma without_tips_from a b l :
  eq_but_tip a b ->
  eq_but_tip (runs a (filter (fun o => negb (is_tip o)) l)) (runs b l) /\
  trace a (filter (fun o => negb (is_tip o)) l) = filter (fun x => negb (is_tip (fst x))) (trace b l).
Proof.
  revert a b; induction l as [|o t IH]; intros a b E; [split; [exact E|reflexivity]|].
  destruct (is_tip o) eqn:T.
  - destruct o; try discriminate. cbn [filter is_tip negb trace step fst].
    change (runs b (Tip h :: t)) with (runs (fst (step b (Tip h))) t).
    cbn [filter fst is_tip negb].
    apply IH. destruct E as (He & Hx & Hl & Hm); repeat split; assumption.
  - assert (F : filter (fun o => negb (is_tip o)) (o :: t) = o :: filter (fun o => negb (is_tip o)) t)
      by (cbn [filter]; now rewrite T).
    rewrite F.
    change (runs a (o :: filter (fun o => negb (is_tip o)) t))
      with (runs (fst (step a o)) (filter (fun o => negb (is_tip o)) t)).
    change (runs b (o :: t)) with (runs (fst (step b o)) t).
    destruct (step_eq_but_tip a b o E) as [E' Ho].
    destruct (IH _ _ E') as [R Tq]. split; [exact R|].
    cbn [trace]. destruct (step a o) as [a' ma]; destruct (step b o) as [b' mb]; cbn [fst snd] in *.
    cbn [filter fst]. rewrite T; cbn [negb]. now rewrite Ho, Tq.
Qed.

Lemma without_tips l :
  eq_but_tip (runs init (filter (fun o => negb (is_tip o)) l)) (runs init l) /\
  trace init (filter (fun o => negb (is_tip o)) l) = filter (fun x => negb (is_tip (fst x))) (trace init l).
Proof. apply without_tips_from, eq_but_tip_refl. Qed.

(* The expiration height stored for a key is the one passed with its last accepted update. *)
Definition acc_exp (k : N) (cur : option N) (x : op * obs) : option N :=
  match x with
  | (Put k' _ exp _ _, OPut true _) => if (k =? k')%N then Some exp else cur
  | _ => cur
  end.
Definition last_accepted_exp (k : N) (cur : option N) (t : list (op * obs)) : option N :=
  fold_left (acc_exp k) t cur.

Lemma step_lookup_exp s o k :
  alookup k (exps (fst (step s o))) = acc_exp k (alookup k (exps s)) (o, snd (step s o)).
Proof.
  destruct o as [n|k' e exp valid tie|k'| |h|k']; cbn; try reflexivity.
  destruct valid; cbn; [|reflexivity].
  destruct (alookup k' (entries s)) as [old|] eqn:L.
  - destruct (supersedes old e tie); cbn; [|reflexivity].
    destruct (k =? k')%N eqn:E.
    + apply N.eqb_eq in E; subst; apply alookup_aset_same.
    + apply alookup_aset_other; intros ->; now rewrite N.eqb_refl in E.
  - destruct (limit s <=? count s)%N; cbn; [reflexivity|].
    destruct (k =? k')%N eqn:E.
    + apply N.eqb_eq in E; subst; apply alookup_aset_same.
    + apply alookup_aset_other; intros ->; now rewrite N.eqb_refl in E.
Qed.

Lemma exp_last_accepted_from s l k :
  alookup k (exps (runs s l)) = last_accepted_exp k (alookup k (exps s)) (trace s l).
Proof.
  revert s; induction l as [|o t IH]; intros s; [reflexivity|].
  change (runs s (o :: t)) with (runs (fst (step s o)) t).
  pose proof (step_lookup_exp s o k) as H.
  cbn [trace]. destruct (step s o) as [s' m]; cbn [fst snd] in *.
  rewrite IH, H. reflexivity.
Qed.

Lemma exp_last_accepted l k :
  snd (step (runs init l) (Exp k)) = OExp (last_accepted_exp k None (trace init l)).
Proof. cbn; now rewrite (exp_last_accepted_from init l k). Qed.

(* Keys and expiration heights go together: a key has an entry iff it has an expiration height. *)
Definition ExpInv (s : state) : Prop :=
  forall k, alookup k (entries s) = None <-> alookup k (exps s) = None.

Lemma step_exp_inv s o : ExpInv s -> ExpInv (fst (step s o)).
Proof.
  intros I; destruct o as [n|k' e exp valid tie|k'| |h|k']; cbn; try exact I.
  destruct valid; cbn; [|exact I].
  assert (W : forall dm, ExpInv (write s k' e exp dm)).
  { intros dm k; unfold write; cbn.
    destruct (N.eq_dec k k') as [->|Hne].
    - rewrite !alookup_aset_same; split; discriminate.
    - rewrite !alookup_aset_other by exact Hne. apply I. }
  destruct (alookup k' (entries s)) as [old|].
  - destruct (supersedes old e tie); cbn; [apply W|exact I].
  - destruct (limit s <=? count s)%N; cbn; [exact I|apply W].
Qed.

Lemma exp_inv l : ExpInv (runs init l).
Proof.
  assert (G : forall s, ExpInv s -> ExpInv (runs s l)).
  { induction l as [|o t IH]; intros s H; cbn; [exact H|]. apply IH, step_exp_inv, H. }
  apply G. intros k; cbn; split; reflexivity.
Qed.

(* An entry whose expiration height lies below the tip is still returned and still counted:
   the instance of the statements above that the brief asks for. *)
Definition expired (s : state) (k : N) : Prop :=
  exists h, alookup k (exps s) = Some h /\ (h < tip s)%N.

Lemma expired_entry_is_served l k :
  expired (runs init l) k ->
  exists e, snd (step (runs init l) (Get k)) = OGet (Some e) /\
            last_accepted k None (trace init l) = Some e.
Proof.
  intros (h & Hh & _).
  destruct (alookup k (entries (runs init l))) as [e|] eqn:L.
  - exists e; split; [cbn; now rewrite L|]. now rewrite <- read_last_accepted.
  - apply (exp_inv l k) in L. rewrite L in Hh; discriminate.
Qed.

Lemma expired_witness :
  expired (runs init [SetLimit 1; Put 1 e1 100 true false; Tip 200]) 1 /\
  snd (step (runs init [SetLimit 1; Put 1 e1 100 true false; Tip 200]) Info) = OInfo 1 1 1.
Proof. split; [exists 100%N; vm_compute; split; reflexivity|vm_compute; reflexivity]. Qed.
