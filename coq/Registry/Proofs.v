(* Registry/Proofs.v — lemmas behind Props_C20.v *)
From HostdBase Require Import Base.
From HostdRegistry Require Import Model.

(* the trace of a run: every op with the observation the model makes *)
Fixpoint trace (s : state) (l : list op) : list (op * obs) :=
  match l with
  | [] => []
  | o :: t => let '(s', m) := step s o in (o, m) :: trace s' t
  end.

Definition runs (s : state) (l : list op) : state := fold_left (fun s o => fst (step s o)) l s.

(* the abstract specification: the entry of the last accepted update of key k *)
Definition acc_upd (k : N) (cur : option entry) (x : op * obs) : option entry :=
  match x with
  | (Put k' e _ _, OPut true _) => if (k =? k')%N then Some e else cur
  | _ => cur
  end.
Definition last_accepted (k : N) (cur : option entry) (t : list (op * obs)) : option entry :=
  fold_left (acc_upd k) t cur.

Lemma alookup_aset_same V k (v : V) l : alookup k (aset k v l) = Some v.
Proof.
  induction l as [|[k' v'] t IH]; cbn; [now rewrite N.eqb_refl|].
  destruct (k =? k')%N eqn:E; cbn; [now rewrite N.eqb_refl| now rewrite E].
Qed.

Lemma alookup_aset_other V k k' (v : V) l : k <> k' -> alookup k (aset k' v l) = alookup k l.
Proof.
  intros Hne; induction l as [|[k2 v2] t IH]; cbn.
  - destruct (k =? k')%N eqn:E; [apply N.eqb_eq in E; contradiction|reflexivity].
  - destruct (k' =? k2)%N eqn:E2; cbn.
    + apply N.eqb_eq in E2; subst k2.
      destruct (k =? k')%N eqn:E; [apply N.eqb_eq in E; contradiction|reflexivity].
    + destruct (k =? k2)%N; [reflexivity|exact IH].
Qed.

Lemma length_aset V k (v : V) l :
  length (aset k v l) = match alookup k l with Some _ => length l | None => S (length l) end.
Proof.
  induction l as [|[k' v'] t IH]; cbn; [reflexivity|].
  destruct (k =? k')%N eqn:E; cbn; [reflexivity|].
  rewrite IH; destruct (alookup k t); reflexivity.
Qed.

(* one step against the spec *)
Lemma step_lookup s o k :
  alookup k (entries (fst (step s o))) =
  acc_upd k (alookup k (entries s)) (o, snd (step s o)).
Proof.
  destruct o as [n|k' e valid tie|k'| |h]; cbn; try reflexivity.
  destruct valid; cbn; [|reflexivity].
  destruct (alookup k' (entries s)) as [old|] eqn:L.
  - destruct (supersedes old e tie); cbn; [|reflexivity].
    destruct (k =? k')%N eqn:E.
    + apply N.eqb_eq in E; subst; apply alookup_aset_same.
    + apply alookup_aset_other; intros ->; now rewrite N.eqb_refl in E.
  - destruct (limit s <=? count s)%N; cbn; [reflexivity|].
    destruct (k =? k')%N eqn:E.
    + apply N.eqb_eq in E; subst; apply alookup_aset_same.
    + apply alookup_aset_other; intros ->; now rewrite N.eqb_refl in E.
Qed.

Lemma read_last_accepted_from s l k :
  alookup k (entries (runs s l)) = last_accepted k (alookup k (entries s)) (trace s l).
Proof.
  revert s; induction l as [|o t IH]; intros s; [reflexivity|].
  change (runs s (o :: t)) with (runs (fst (step s o)) t).
  pose proof (step_lookup s o k) as H.
  cbn [trace]. destruct (step s o) as [s' m]; cbn [fst snd] in *.
  rewrite IH, H. reflexivity.
Qed.

Lemma read_last_accepted l k :
  alookup k (entries (runs init l)) = last_accepted k None (trace init l).
Proof. apply (read_last_accepted_from init l k). Qed.

(* a Get issued after any history returns exactly that *)
Lemma get_returns_last_accepted l k :
  snd (step (runs init l) (Get k)) = OGet (last_accepted k None (trace init l)).
Proof. cbn; now rewrite read_last_accepted. Qed.

(* acceptance: only if valid and (new key with room, or supersedes); effect exact *)
Lemma put_accept_only_if s k e valid tie s' r :
  step s (Put k e valid tie) = (s', OPut true r) ->
  valid = true /\ r = Some e /\
  (  (alookup k (entries s) = None /\ (count s < limit s)%N)
  \/ (exists old, alookup k (entries s) = Some old /\ supersedes old e tie = true)) /\
  alookup k (entries s') = Some e /\
  (forall k', k' <> k -> alookup k' (entries s') = alookup k' (entries s)) /\
  limit s' = limit s.
Proof.
  cbn; destruct valid; cbn; [|discriminate].
  destruct (alookup k (entries s)) as [old|] eqn:L.
  - destruct (supersedes old e tie) eqn:S; [|discriminate].
    intros H; inversion H; subst; cbn.
    repeat split; try reflexivity.
    + right; now exists old.
    + apply alookup_aset_same.
    + intros k' Hne; now apply alookup_aset_other.
  - destruct (limit s <=? count s)%N eqn:C; [discriminate|].
    intros H; inversion H; subst; cbn.
    repeat split; try reflexivity.
    + left; split; [reflexivity|]. apply N.leb_gt in C; exact C.
    + apply alookup_aset_same.
    + intros k' Hne; now apply alookup_aset_other.
Qed.

(* and conversely every valid superseding / fitting update is accepted *)
Lemma put_accept_if s k e tie :
  (  (alookup k (entries s) = None /\ (count s < limit s)%N)
  \/ (exists old, alookup k (entries s) = Some old /\ supersedes old e tie = true)) ->
  snd (step s (Put k e true tie)) = OPut true (Some e).
Proof.
  cbn; intros [[L C]|[old [L S]]]; rewrite L.
  - apply N.leb_gt in C; now rewrite C.
  - now rewrite S.
Qed.

(* rejection: nothing changes; the stored entry is handed back for a valid entry that
   does not supersede it *)
Lemma put_reject_unchanged s k e valid tie s' r :
  step s (Put k e valid tie) = (s', OPut false r) ->
  s' = s /\
  (valid = true -> forall old, alookup k (entries s) = Some old -> r = Some old).
Proof.
  cbn; destruct valid; cbn.
  - destruct (alookup k (entries s)) as [old|] eqn:L.
    + destruct (supersedes old e tie); [discriminate|].
      intros H; inversion H; subst; split; [reflexivity|].
      intros _ old' Ho; now inversion Ho.
    + destruct (limit s <=? count s)%N; [|discriminate].
      intros H; inversion H; subst; split; [reflexivity|]. intros _ old' Ho; discriminate.
  - intros H; inversion H; subst; split; [reflexivity|discriminate].
Qed.

(* count = metric on every reachable state *)
Definition MetricInv (s : state) : Prop := metric s = Z.of_N (count s).

Lemma step_metric s o : MetricInv s -> MetricInv (fst (step s o)).
Proof.
  unfold MetricInv; destruct o as [n|k e valid tie|k| |h]; cbn; try (intros H; exact H).
  destruct valid; cbn; [|intros H; exact H].
  destruct (alookup k (entries s)) as [old|] eqn:L.
  - destruct (supersedes old e tie); cbn; [|intros H; exact H].
    unfold count; cbn. rewrite length_aset, L; intros H; exact H.
  - destruct (limit s <=? count s)%N; cbn; [intros H; exact H|].
    unfold count; cbn. rewrite length_aset, L; intros H; rewrite H. lia.
Qed.

Lemma metric_inv_from s l : MetricInv s -> MetricInv (runs s l).
Proof.
  revert s; induction l as [|o t IH]; intros s H; cbn; [exact H|].
  apply IH, step_metric, H.
Qed.

Lemma metric_inv l : MetricInv (runs init l).
Proof. apply metric_inv_from; reflexivity. Qed.

(* capacity *)
Definition CapInv (s : state) : Prop := (count s <= limit s)%N.

(* an operator never lowers the limit below the current count *)
Definition lowers (s : state) (o : op) : bool :=
  match o with SetLimit n => (n <? count s)%N | _ => false end.

Lemma step_cap s o : lowers s o = false -> CapInv s -> CapInv (fst (step s o)).
Proof.
  unfold CapInv; destruct o as [n|k e valid tie|k| |h]; cbn; try (intros _ H; exact H).
  - intros Hl _. apply N.ltb_ge in Hl. exact Hl.
  - intros _; destruct valid; cbn; [|intros H; exact H].
    destruct (alookup k (entries s)) as [old|] eqn:L.
    + destruct (supersedes old e tie); cbn; [|intros H; exact H].
      unfold count; cbn. rewrite length_aset, L; intros H; exact H.
    + destruct (limit s <=? count s)%N eqn:C; cbn; [intros H; exact H|].
      apply N.leb_gt in C. unfold count in *; cbn. rewrite length_aset, L; intros _. lia.
Qed.

Fixpoint never_lowers (s : state) (l : list op) : bool :=
  match l with
  | [] => true
  | o :: t => negb (lowers s o) && never_lowers (fst (step s o)) t
  end.

Lemma cap_inv_from s l : never_lowers s l = true -> CapInv s -> CapInv (runs s l).
Proof.
  revert s; induction l as [|o t IH]; intros s Hn H; cbn; [exact H|].
  cbn in Hn; apply andb_prop in Hn; destruct Hn as [Hl Ht].
  apply IH; [exact Ht|]. apply step_cap; [|exact H].
  now destruct (lowers s o).
Qed.

Lemma cap_inv_partial l : never_lowers init l = true -> CapInv (runs init l).
Proof. intros H; apply cap_inv_from; [exact H|]. unfold CapInv; cbn; lia. Qed.

(* the count only ever grows through an insert that had room *)
Lemma insert_respects_limit s o :
  (count s < count (fst (step s o)))%N -> (count s < limit s)%N.
Proof.
  destruct o as [n|k e valid tie|k| |h]; cbn; try lia; [unfold count; cbn; lia|].
  destruct valid; cbn; [|lia].
  destruct (alookup k (entries s)) as [old|] eqn:L.
  - destruct (supersedes old e tie); cbn; [|lia].
    unfold count; cbn. rewrite length_aset, L; lia.
  - destruct (limit s <=? count s)%N eqn:C; cbn; [lia|].
    apply N.leb_gt in C; intros _; exact C.
Qed.

(* the literal bound fails once the operator lowers the limit: no eviction exists *)
Definition e1 : entry := {| rev := 1; ety := 1; vid := 1 |}.
Definition cap_witness : list op :=
  [SetLimit 2; Put 1 e1 true false; Put 2 e1 true false; SetLimit 1].

Lemma cap_inv_refuted : exists l, ~ CapInv (runs init l).
Proof. exists cap_witness; unfold CapInv; vm_compute; intros H; now apply H. Qed.

(* Chain progress is invisible to the registry: dropping every [Tip] from a history changes
   neither the final state nor any other observation. *)
Definition is_tip (o : op) : bool := match o with Tip _ => true | _ => false end.

Lemma runs_without_tips s l : runs s (filter (fun o => negb (is_tip o)) l) = runs s l.
Proof.
  revert s; induction l as [|o t IH]; intros s; [reflexivity|].
  destruct o as [n|k e valid tie|k| |h]; cbn [filter is_tip negb]; unfold runs in *; cbn [fold_left]; try apply IH.
Qed.

Lemma trace_without_tips s l :
  trace s (filter (fun o => negb (is_tip o)) l) = filter (fun x => negb (is_tip (fst x))) (trace s l).
Proof.
  revert s; induction l as [|o t IH]; intros s; [reflexivity|].
  destruct o as [n|k e valid tie|k| |h]; cbn [filter is_tip negb trace].
  all: try (destruct (step s _) as [s' m] eqn:E; cbn [filter fst is_tip negb]; rewrite IH; reflexivity).
  cbn [step]. cbn [filter fst is_tip negb]. apply IH.
Qed.
