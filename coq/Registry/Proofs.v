(* Registry/Proofs.v — lemmas behind Props_C20.v *)
From HostdBase Require Import Base.
From HostdRegistry Require Import Model.

(* case splits of the Get and PutF branches of [step] *)
Ltac t_get s k := destruct (alookup k (entries s)); cbn.
Ltac t_putf s k vf f := destruct vf; cbn; [destruct f; [|destruct (alookup k (entries s))]|]; cbn.

(* the trace of a run: every op with the observation the model makes *)
Fixpoint trace (s : state) (l : list op) : list (op * obs) :=
  match l with
  | [] => []
  | o :: t => let '(s', m) := step s o in (o, m) :: trace s' t
  end.

Definition runs (s : state) (l : list op) : state := fold_left (fun s o => fst (step s o)) l s.

(* the abstract specification: the entry of the last accepted update of key k *)
Definition acc_upd (k : N) (cur : option entry) (x : op * obs) : option entry :=
  match x with
  | (Put k' e _ _ _, OPut true _) => if (k =? k')%N then Some e else cur
  | _ => cur
  end.
Definition last_accepted (k : N) (cur : option entry) (t : list (op * obs)) : option entry :=
  fold_left (acc_upd k) t cur.

Lemma alookup_aset_same V k (v : V) l : alookup k (aset k v l) = Some v.
Proof.
  induction l as [|[k' v'] t IH]; cbn; [now rewrite N.eqb_refl|].
  destruct (k =? k')%N eqn:E; cbn; [now rewrite N.eqb_refl| now rewrite E].
Qed.

Lemma alookup_aset_other V k k' (v : V) l : k <> k' -> alookup k (aset k' v l) = alookup k l.
Proof.
  intros Hne; induction l as [|[k2 v2] t IH]; cbn.
  - destruct (k =? k')%N eqn:E; [apply N.eqb_eq in E; contradiction|reflexivity].
  - destruct (k' =? k2)%N eqn:E2; cbn.
    + apply N.eqb_eq in E2; subst k2.
      destruct (k =? k')%N eqn:E; [apply N.eqb_eq in E; contradiction|reflexivity].
    + destruct (k =? k2)%N; [reflexivity|exact IH].
Qed.

Lemma length_aset V k (v : V) l :
  length (aset k v l) = match alookup k l with Some _ => length l | None => S (length l) end.
Proof.
  induction l as [|[k' v'] t IH]; cbn; [reflexivity|].
  destruct (k =? k')%N eqn:E; cbn; [reflexivity|].
  rewrite IH; destruct (alookup k t); reflexivity.
Qed.

(* one step against the spec *)
Lemma step_lookup s o k :
  alookup k (entries (fst (step s o))) =
  acc_upd k (alookup k (entries s)) (o, snd (step s o)).
Proof.
  destruct o as [n|k' e exp valid tie|k'| |h|k'|fok| |k' e vf f|k'| ]; cbn; try reflexivity.
  2: { t_get s k'; reflexivity. }
  2: { t_putf s k' vf f; reflexivity. }
  destruct valid; cbn; [|reflexivity].
  destruct (alookup k' (entries s)) as [old|] eqn:L.
  - destruct (supersedes old e tie); cbn; [|reflexivity].
    destruct (k =? k')%N eqn:E.
    + apply N.eqb_eq in E; subst; apply alookup_aset_same.
    + apply alookup_aset_other; intros ->; now rewrite N.eqb_refl in E.
  - destruct (limit s <=? count s)%N; cbn; [reflexivity|].
    destruct (k =? k')%N eqn:E.
    + apply N.eqb_eq in E; subst; apply alookup_aset_same.
    + apply alookup_aset_other; intros ->; now rewrite N.eqb_refl in E.
Qed.

Lemma read_last_accepted_from s l k :
  alookup k (entries (runs s l)) = last_accepted k (alookup k (entries s)) (trace s l).
Proof.
  revert s; induction l as [|o t IH]; intros s; [reflexivity|].
  change (runs s (o :: t)) with (runs (fst (step s o)) t).
  pose proof (step_lookup s o k) as H.
  cbn [trace]. destruct (step s o) as [s' m]; cbn [fst snd] in *.
  rewrite IH, H. reflexivity.
Qed.

Lemma read_last_accepted l k :
  alookup k (entries (runs init l)) = last_accepted k None (trace init l).
Proof. apply (read_last_accepted_from init l k). Qed.

(* a Get issued after any history returns exactly that *)
Lemma get_returns_last_accepted l k :
  snd (step (runs init l) (Get k)) = OGet (last_accepted k None (trace init l)).
Proof. cbn [step]; rewrite <- read_last_accepted. now destruct (alookup k (entries (runs init l))). Qed.

(* acceptance: only if valid and (new key with room, or supersedes); effect exact *)
Lemma put_accept_only_if s k e exp valid tie s' r :
  step s (Put k e exp valid tie) = (s', OPut true r) ->
  valid = true /\ r = Some e /\
  (  (alookup k (entries s) = None /\ (count s < limit s)%N)
  \/ (exists old, alookup k (entries s) = Some old /\ supersedes old e tie = true)) /\
  alookup k (entries s') = Some e /\
  (forall k', k' <> k -> alookup k' (entries s') = alookup k' (entries s)) /\
  limit s' = limit s.
Proof.
  cbn; destruct valid; cbn; [|discriminate].
  destruct (alookup k (entries s)) as [old|] eqn:L.
  - destruct (supersedes old e tie) eqn:S; [|discriminate].
    intros H; inversion H; subst; cbn.
    repeat split; try reflexivity.
    + right; now exists old.
    + apply alookup_aset_same.
    + intros k' Hne; now apply alookup_aset_other.
  - destruct (limit s <=? count s)%N eqn:C; [discriminate|].
    intros H; inversion H; subst; cbn.
    repeat split; try reflexivity.
    + left; split; [reflexivity|]. apply N.leb_gt in C; exact C.
    + apply alookup_aset_same.
    + intros k' Hne; now apply alookup_aset_other.
Qed.

(* and conversely every valid superseding / fitting update is accepted *)
Lemma put_accept_if s k e exp tie :
  (  (alookup k (entries s) = None /\ (count s < limit s)%N)
  \/ (exists old, alookup k (entries s) = Some old /\ supersedes old e tie = true)) ->
  snd (step s (Put k e exp true tie)) = OPut true (Some e).
Proof.
  cbn; intros [[L C]|[old [L S]]]; rewrite L.
  - apply N.leb_gt in C; now rewrite C.
  - now rewrite S.
Qed.

(* rejection: nothing changes; the stored entry is handed back for a valid entry that
   does not supersede it *)
Lemma put_reject_unchanged s k e exp valid tie s' r :
  step s (Put k e exp valid tie) = (s', OPut false r) ->
  s' = s /\
  (valid = true -> forall old, alookup k (entries s) = Some old -> r = Some old).
Proof.
  cbn; destruct valid; cbn.
  - destruct (alookup k (entries s)) as [old|] eqn:L.
    + destruct (supersedes old e tie); [discriminate|].
      intros H; inversion H; subst; split; [reflexivity|].
      intros _ old' Ho; now inversion Ho.
    + destruct (limit s <=? count s)%N; [|discriminate].
      intros H; inversion H; subst; split; [reflexivity|]. intros _ old' Ho; discriminate.
  - intros H; inversion H; subst; split; [reflexivity|discriminate].
Qed.

(* count = metric on every reachable state *)
Definition MetricInv (s : state) : Prop := metric s = Z.of_N (count s).

Lemma step_metric s o : MetricInv s -> MetricInv (fst (step s o)).
Proof.
  unfold MetricInv; destruct o as [n|k e exp valid tie|k| |h|k|fok| |k e vf f|k| ]; cbn; try (intros H; exact H).
  all: try (t_get s k; intros H; exact H). all: try (t_putf s k vf f; intros H; exact H).
  destruct valid; cbn; [|intros H; exact H].
  destruct (alookup k (entries s)) as [old|] eqn:L.
  - destruct (supersedes old e tie); cbn; [|intros H; exact H].
    unfold count; cbn. rewrite length_aset, L; intros H; rewrite H; lia.
  - destruct (limit s <=? count s)%N; cbn; [intros H; exact H|].
    unfold count; cbn. rewrite length_aset, L; intros H; rewrite H. lia.
Qed.

Lemma metric_inv_from s l : MetricInv s -> MetricInv (runs s l).
Proof.
  revert s; induction l as [|o t IH]; intros s H; cbn; [exact H|].
  apply IH, step_metric, H.
Qed.

Lemma metric_inv l : MetricInv (runs init l).
Proof. apply metric_inv_from; reflexivity. Qed.

(* capacity *)
Definition CapInv (s : state) : Prop := (count s <= limit s)%N.

(* an operator never lowers the limit below the current count *)
Definition lowers (s : state) (o : op) : bool :=
  match o with SetLimit n => (n <? count s)%N | _ => false end.

Lemma step_cap s o : lowers s o = false -> CapInv s -> CapInv (fst (step s o)).
Proof.
  unfold CapInv; destruct o as [n|k e exp valid tie|k| |h|k|fok| |k e vf f|k| ]; cbn; try (intros _ H; exact H).
  all: try (t_get s k; intros _ H; exact H). all: try (t_putf s k vf f; intros _ H; exact H).
  - intros Hl _. apply N.ltb_ge in Hl. exact Hl.
  - intros _; destruct valid; cbn; [|intros H; exact H].
    destruct (alookup k (entries s)) as [old|] eqn:L.
    + destruct (supersedes old e tie); cbn; [|intros H; exact H].
      unfold count; cbn. rewrite length_aset, L; intros H; exact H.
    + destruct (limit s <=? count s)%N eqn:C; cbn; [intros H; exact H|].
      apply N.leb_gt in C. unfold count in *; cbn. rewrite length_aset, L; intros _. lia.
Qed.

Fixpoint never_lowers (s : state) (l : list op) : bool :=
  match l with
  | [] => true
  | o :: t => negb (lowers s o) && never_lowers (fst (step s o)) t
  end.

Lemma cap_inv_from s l : never_lowers s l = true -> CapInv s -> CapInv (runs s l).
Proof.
  revert s; induction l as [|o t IH]; intros s Hn H; cbn; [exact H|].
  cbn in Hn; apply andb_prop in Hn; destruct Hn as [Hl Ht].
  apply IH; [exact Ht|]. apply step_cap; [|exact H].
  now destruct (lowers s o).
Qed.

Lemma cap_inv_partial l : never_lowers init l = true -> CapInv (runs init l).
Proof. intros H; apply cap_inv_from; [exact H|]. unfold CapInv; cbn; lia. Qed.

(* the count only ever grows through an insert that had room *)
Lemma insert_respects_limit s o :
  (count s < count (fst (step s o)))%N -> (count s < limit s)%N.
Proof.
  destruct o as [n|k e exp valid tie|k| |h|k|fok| |k e vf f|k| ]; cbn; try lia; try (unfold count; cbn; lia).
  all: try (t_get s k; unfold count; cbn; lia). all: try (t_putf s k vf f; lia).
  destruct valid; cbn; [|lia].
  destruct (alookup k (entries s)) as [old|] eqn:L.
  - destruct (supersedes old e tie); cbn; [|lia].
    unfold count; cbn. rewrite length_aset, L; lia.
  - destruct (limit s <=? count s)%N eqn:C; cbn; [lia|].
    apply N.leb_gt in C; intros _; exact C.
Qed.

(* the literal bound fails once the operator lowers the limit: no eviction exists *)
Definition e1 : entry := {| rev := 1; ety := 1; vid := 1 |}.
Definition cap_witness : list op :=
  [SetLimit 2; Put 1 e1 100 true false; Put 2 e1 100 true false; SetLimit 1].

Lemma cap_inv_refuted : exists l, ~ CapInv (runs init l).
Proof. exists cap_witness; unfold CapInv; vm_compute; intros H; now apply H. Qed.

(* Chain progress is invisible to the registry.  The tip is part of the state (Model.v) and no
   operation reads it: two states that differ only in the tip make the same observations and
   stay that way, so dropping every [Tip] from a history changes no other observation and
   nothing of the final state but the tip itself. *)
Definition is_tip (o : op) : bool := match o with Tip _ => true | _ => false end.

Definition eq_but_tip (a b : state) : Prop :=
  entries a = entries b /\ exps a = exps b /\ limit a = limit b /\ metric a = metric b /\
  pend_r a = pend_r b /\ pend_w a = pend_w b /\ mreads a = mreads b /\ mwrites a = mwrites b.

Lemma eq_but_tip_refl a : eq_but_tip a a.
Proof. repeat split. Qed.

Lemma step_eq_but_tip a b o :
  eq_but_tip a b ->
  eq_but_tip (fst (step a o)) (fst (step b o)) /\ snd (step a o) = snd (step b o).
Proof.
  intros (He & Hx & Hl & Hm & H1 & H2 & H3 & H4).
  assert (E : eq_but_tip a b) by (repeat split; assumption).
  destruct o as [n|k e exp valid tie|k| |h|k|fok| |k e vf f|k| ]; cbn;
    try (unfold count; rewrite ?He, ?Hx, ?Hl, ?Hm, ?H1, ?H2, ?H3, ?H4; repeat split; assumption).
  - destruct valid; cbn; [|split; [exact E|reflexivity]].
    unfold count; rewrite He, Hl.
    destruct (alookup k (entries b)) as [old|].
    + destruct (supersedes old e tie); cbn; [|split; [exact E|reflexivity]].
      unfold eq_but_tip, write; cbn. rewrite He, Hx, Hl, Hm, H1, H2, H3, H4. repeat split.
    + destruct (limit b <=? N.of_nat (length (entries b)))%N; cbn; [split; [exact E|reflexivity]|].
      unfold eq_but_tip, write; cbn. rewrite He, Hx, Hl, Hm, H1, H2, H3, H4. repeat split.
  - rewrite He. destruct (alookup k (entries b)); cbn; [|split; [exact E|reflexivity]].
    unfold eq_but_tip; cbn. rewrite He, Hx, Hl, Hm, H1, H2, H3, H4. repeat split.
  - unfold eq_but_tip, flush; cbn. rewrite He, Hx, Hl, Hm, H1, H2, H3, H4. repeat split.
  - destruct vf; cbn; [|split; [exact E|reflexivity]].
    destruct f; [split; [exact E|reflexivity]|].
    rewrite He. destruct (alookup k (entries b)); split; try exact E; reflexivity.
Qed.

Lemma tip_eq_but_tip a b h : eq_but_tip a b -> eq_but_tip (fst (step a (Tip h))) b.
Proof. intros (He & Hx & Hl & Hm & H1 & H2 & H3 & H4); repeat split; assumption. Qed.

Lemma without_tips_from a b l :
  eq_but_tip a b ->
  eq_but_tip (runs a (filter (fun o => negb (is_tip o)) l)) (runs b l) /\
  trace a (filter (fun o => negb (is_tip o)) l) = filter (fun x => negb (is_tip (fst x))) (trace b l).
Proof.
  revert a b; induction l as [|o t IH]; intros a b E; [split; [exact E|reflexivity]|].
  destruct (is_tip o) eqn:T.
  - destruct o; try discriminate. cbn [filter is_tip negb trace step fst].
    change (runs b (Tip h :: t)) with (runs (fst (step b (Tip h))) t).
    cbn [filter fst is_tip negb].
    apply IH. destruct E as (He & Hx & Hl & Hm & H1 & H2 & H3 & H4); repeat split; assumption.
  - assert (F : filter (fun o => negb (is_tip o)) (o :: t) = o :: filter (fun o => negb (is_tip o)) t)
      by (cbn [filter]; now rewrite T).
    rewrite F.
    change (runs a (o :: filter (fun o => negb (is_tip o)) t))
      with (runs (fst (step a o)) (filter (fun o => negb (is_tip o)) t)).
    change (runs b (o :: t)) with (runs (fst (step b o)) t).
    destruct (step_eq_but_tip a b o E) as [E' Ho].
    destruct (IH _ _ E') as [R Tq]. split; [exact R|].
    cbn [trace]. destruct (step a o) as [a' ma]; destruct (step b o) as [b' mb]; cbn [fst snd] in *.
    cbn [filter fst]. rewrite T; cbn [negb]. now rewrite Ho, Tq.
Qed.

Lemma without_tips l :
  eq_but_tip (runs init (filter (fun o => negb (is_tip o)) l)) (runs init l) /\
  trace init (filter (fun o => negb (is_tip o)) l) = filter (fun x => negb (is_tip (fst x))) (trace init l).
Proof. apply without_tips_from, eq_but_tip_refl. Qed.

(* The expiration height stored for a key is the one passed with its last accepted update. *)
Definition acc_exp (k : N) (cur : option N) (x : op * obs) : option N :=
  match x with
  | (Put k' _ exp _ _, OPut true _) => if (k =? k')%N then Some exp else cur
  | _ => cur
  end.
Definition last_accepted_exp (k : N) (cur : option N) (t : list (op * obs)) : option N :=
  fold_left (acc_exp k) t cur.

Lemma step_lookup_exp s o k :
  alookup k (exps (fst (step s o))) = acc_exp k (alookup k (exps s)) (o, snd (step s o)).
Proof.
  destruct o as [n|k' e exp valid tie|k'| |h|k'|fok| |k' e vf f|k'| ]; cbn; try reflexivity.
  2: { t_get s k'; reflexivity. }
  2: { t_putf s k' vf f; reflexivity. }
  destruct valid; cbn; [|reflexivity].
  destruct (alookup k' (entries s)) as [old|] eqn:L.
  - destruct (supersedes old e tie); cbn; [|reflexivity].
    destruct (k =? k')%N eqn:E.
    + apply N.eqb_eq in E; subst; apply alookup_aset_same.
    + apply alookup_aset_other; intros ->; now rewrite N.eqb_refl in E.
  - destruct (limit s <=? count s)%N; cbn; [reflexivity|].
    destruct (k =? k')%N eqn:E.
    + apply N.eqb_eq in E; subst; apply alookup_aset_same.
    + apply alookup_aset_other; intros ->; now rewrite N.eqb_refl in E.
Qed.

Lemma exp_last_accepted_from s l k :
  alookup k (exps (runs s l)) = last_accepted_exp k (alookup k (exps s)) (trace s l).
Proof.
  revert s; induction l as [|o t IH]; intros s; [reflexivity|].
  change (runs s (o :: t)) with (runs (fst (step s o)) t).
  pose proof (step_lookup_exp s o k) as H.
  cbn [trace]. destruct (step s o) as [s' m]; cbn [fst snd] in *.
  rewrite IH, H. reflexivity.
Qed.

Lemma exp_last_accepted l k :
  snd (step (runs init l) (Exp k)) = OExp (last_accepted_exp k None (trace init l)).
Proof. cbn; now rewrite (exp_last_accepted_from init l k). Qed.

(* Keys and expiration heights go together: a key has an entry iff it has an expiration height. *)
Definition ExpInv (s : state) : Prop :=
  forall k, alookup k (entries s) = None <-> alookup k (exps s) = None.

Lemma step_exp_inv s o : ExpInv s -> ExpInv (fst (step s o)).
Proof.
  intros I; destruct o as [n|k' e exp valid tie|k'| |h|k'|fok| |k' e vf f|k'| ]; cbn; try exact I.
  all: try (t_get s k'; exact I). all: try (t_putf s k' vf f; exact I).
  destruct valid; cbn; [|exact I].
  assert (W : forall dm, ExpInv (write s k' e exp dm)).
  { intros dm k; unfold write; cbn.
    destruct (N.eq_dec k k') as [->|Hne].
    - rewrite !alookup_aset_same; split; discriminate.
    - rewrite !alookup_aset_other by exact Hne. apply I. }
  destruct (alookup k' (entries s)) as [old|].
  - destruct (supersedes old e tie); cbn; [apply (W 0%Z)|exact I].
  - destruct (limit s <=? count s)%N; cbn; [exact I|apply W].
Qed.

Lemma exp_inv l : ExpInv (runs init l).
Proof.
  assert (G : forall s, ExpInv s -> ExpInv (runs s l)).
  { induction l as [|o t IH]; intros s H; cbn; [exact H|]. apply IH, step_exp_inv, H. }
  apply G. intros k; cbn; split; reflexivity.
Qed.

(* An entry whose expiration height lies below the tip is still returned and still counted:
   the instance of the statements above that the brief asks for. *)
Definition expired (s : state) (k : N) : Prop :=
  exists h, alookup k (exps s) = Some h /\ (h < tip s)%N.

Lemma expired_entry_is_served l k :
  expired (runs init l) k ->
  exists e, snd (step (runs init l) (Get k)) = OGet (Some e) /\
            last_accepted k None (trace init l) = Some e.
Proof.
  intros (h & Hh & _).
  destruct (alookup k (entries (runs init l))) as [e|] eqn:L.
  - exists e; split; [cbn; now rewrite L|]. now rewrite <- read_last_accepted.
  - apply (exp_inv l k) in L. rewrite L in Hh; discriminate.
Qed.

Lemma expired_witness :
  expired (runs init [SetLimit 1; Put 1 e1 100 true false; Tip 200]) 1 /\
  snd (step (runs init [SetLimit 1; Put 1 e1 100 true false; Tip 200]) Info) = OInfo 1 1 1.
Proof. split; [exists 100%N; vm_compute; split; reflexivity|vm_compute; reflexivity]. Qed.

(* ---- failing store calls and the access recorder *)

(* Manager.Put while the lookup of the stored entry (or the write) fails with an error other than
   "not found": refused, nothing changes *)
Lemma put_fault_changes_nothing s k e valid f :
  fst (step s (PutF k e valid f)) = s /\
  exists r, snd (step s (PutF k e valid f)) = OPut false r.
Proof.
  cbn. destruct valid; cbn; [|split; [reflexivity|now exists None]].
  destruct f; [split; [reflexivity|now exists None]|].
  destruct (alookup k (entries s)) as [old|]; split; try reflexivity; eexists; reflexivity.
Qed.

(* a FWrite fault on a stored key hands the stored entry back with the error *)
Lemma put_write_fault_returns_stored s k e old :
  alookup k (entries s) = Some old -> snd (step s (PutF k e true FWrite)) = OPut false (Some old).
Proof. intros L; cbn; now rewrite L. Qed.

Definition is_fault (o : op) : bool :=
  match o with PutF _ _ _ _ | GetF _ | InfoF => true | _ => false end.

Lemma fault_step_changes_nothing s o : is_fault o = true -> fst (step s o) = s.
Proof.
  destruct o; try discriminate; intros _; cbn; try reflexivity.
  apply put_fault_changes_nothing.
Qed.

(* so a history with failing store calls leaves the registry exactly where the same history
   without them does, with the same observations for every other operation *)
Lemma without_faults s l :
  runs s (filter (fun o => negb (is_fault o)) l) = runs s l /\
  trace s (filter (fun o => negb (is_fault o)) l) = filter (fun x => negb (is_fault (fst x))) (trace s l).
Proof.
  revert s; induction l as [|o t IH]; intros s; [split; reflexivity|].
  destruct (is_fault o) eqn:F.
  - assert (Fl : filter (fun o => negb (is_fault o)) (o :: t) = filter (fun o => negb (is_fault o)) t)
      by (cbn [filter]; now rewrite F).
    rewrite Fl. change (runs s (o :: t)) with (runs (fst (step s o)) t).
    pose proof (fault_step_changes_nothing s o F) as E.
    cbn [trace]. destruct (step s o) as [s' m]; cbn [fst] in *; subst s'.
    cbn [filter fst]. rewrite F; cbn [negb]. apply IH.
  - assert (Fl : filter (fun o => negb (is_fault o)) (o :: t) = o :: filter (fun o => negb (is_fault o)) t)
      by (cbn [filter]; now rewrite F).
    rewrite Fl.
    change (runs s (o :: filter (fun o => negb (is_fault o)) t))
      with (runs (fst (step s o)) (filter (fun o => negb (is_fault o)) t)).
    change (runs s (o :: t)) with (runs (fst (step s o)) t).
    cbn [trace]. destruct (step s o) as [s' m]; cbn [fst].
    destruct (IH s') as [R T]. split; [exact R|].
    cbn [filter fst]. rewrite F; cbn [negb]. now rewrite T.
Qed.

(* recorder.Flush — successful or not — touches only the access counters: entries, expiration
   heights, limit, the registry-entries metric and the tip stay as they are *)
Definition eq_but_access (a b : state) : Prop :=
  entries a = entries b /\ exps a = exps b /\ limit a = limit b /\ metric a = metric b /\ tip a = tip b.

Lemma flush_keeps_registry s ok : eq_but_access (fst (step s (Flush ok))) s.
Proof. repeat split. Qed.

Lemma flush_keeps_entries_metric l ok :
  let s := runs init l in
  let s' := fst (step s (Flush ok)) in
  metric s' = metric s /\ count s' = count s /\ metric s' = Z.of_N (count s').
Proof.
  cbn zeta. split; [reflexivity|]. split; [reflexivity|].
  change (MetricInv (fst (step (runs init l) (Flush ok)))). apply step_metric, metric_inv.
Qed.

(* what a flush does persist: the pending counts, which are then zero *)
Lemma flush_persists_pending s :
  let s' := fst (step s (Flush true)) in
  mreads s' = (mreads s + Z.of_N (pend_r s))%Z /\ mwrites s' = (mwrites s + Z.of_N (pend_w s))%Z /\
  pend_r s' = 0%N /\ pend_w s' = 0%N.
Proof. repeat split. Qed.

Lemma fault_witness :
  trace init [SetLimit 1; Put 1 e1 100 true false; PutF 1 {| rev := 0; ety := 1; vid := 2 |} true FLookup;
              Get 1; Put 1 {| rev := 2; ety := 1; vid := 3 |} 100 true false; Flush true; Access; Info] =
  [(SetLimit 1, ODone); (Put 1 e1 100 true false, OPut true (Some e1));
   (PutF 1 {| rev := 0; ety := 1; vid := 2 |} true FLookup, OPut false None);
   (Get 1, OGet (Some e1));
   (Put 1 {| rev := 2; ety := 1; vid := 3 |} 100 true false, OPut true (Some {| rev := 2; ety := 1; vid := 3 |}));
   (Flush true, ODone); (Access, OAccess 1 1); (Info, OInfo 1 1 1)].
Proof. vm_compute. reflexivity. Qed.
