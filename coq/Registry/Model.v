(* Registry/Model.v — host/registry/registry.go (Manager.Get/Put/Entries) over
   persist/sqlite/registry.go (Get/SetRegistryValue, registryLimits) and the
   registry_limit setting.  No proofs here. *)
From HostdBase Require Import Base.

(* A registry value.  [vid] identifies (data, signature) — the harness numbers the
   distinct values it creates, 0 is Go's zero value. *)
Record entry := { rev : N; ety : N; vid : N }.
Definition entry_eqb (a b : entry) : bool :=
  ((rev a =? rev b) && (ety a =? ety b) && (vid a =? vid b))%N.

(* [exps]: the expiration_height column of registry_entries, per key (written by both
   the INSERT and the UPDATE of SetRegistryValue, an 8-byte little-endian blob: every
   uint64 fits).  [tip]: the height of the store's processed chain tip
   (global_settings.last_scanned_index).  Nothing in /repo reads either of them for the
   registry: persist/sqlite/registry.go is the only code that names registry_entries, and it
   has no DELETE and no WHERE on expiration_height. *)
Record state := { entries : list (N * entry); exps : list (N * N); limit : N; metric : Z; tip : N }.
Definition init : state := {| entries := []; exps := []; limit := 0; metric := 0; tip := 0 |}.

Definition count (s : state) : N := N.of_nat (length (entries s)).

Inductive op :=
| SetLimit (n : N)
  (* Put key e exp valid tie: [exp] = the expirationHeight argument;
     [valid] = core's ValidateRegistryEntry accepted it;
     [tie] = core's ValidateRegistryUpdate verdict, consulted only at equal revisions *)
| Put (k : N) (e : entry) (exp : N) (valid tie : bool)
| Get (k : N)
| Info
  (* the store's processed chain tip moves to height h *)
| Tip (h : N)
  (* the expiration_height column of key k, read by the harness with its own SQL connection *)
| Exp (k : N).

Inductive obs :=
| ODone
| OPut (accepted : bool) (ret : option entry)   (* None = zero RegistryValue *)
| OGet (v : option entry)
| OInfo (cnt lim : N) (m : Z)
| OExp (h : option N).

(* rhp3.ValidateRegistryUpdate: revision order first, core's tie-break otherwise *)
Definition supersedes (old new : entry) (tie : bool) : bool :=
  if (rev old <? rev new)%N then true
  else if (rev new <? rev old)%N then false
  else tie.

(* SetRegistryValue once the manager decided to write: the row of k holds e and exp *)
Definition write (s : state) (k : N) (e : entry) (exp : N) (dm : Z) : state :=
  {| entries := aset k e (entries s); exps := aset k exp (exps s); limit := limit s;
     metric := metric s + dm; tip := tip s |}.

Definition step (s : state) (o : op) : state * obs :=
  match o with
  | SetLimit n => ({| entries := entries s; exps := exps s; limit := n; metric := metric s; tip := tip s |}, ODone)
  | Get k => (s, OGet (alookup k (entries s)))
  | Info => (s, OInfo (count s) (limit s) (metric s))
  | Tip h => ({| entries := entries s; exps := exps s; limit := limit s; metric := metric s; tip := h |}, ODone)
  | Exp k => (s, OExp (alookup k (exps s)))
  | Put k e exp valid tie =>
      if negb valid then (s, OPut false None)
      else match alookup k (entries s) with
           | None =>
               (* SetRegistryValue: insert path checks count >= limit *)
               if (limit s <=? count s)%N then (s, OPut false (Some e))
               else (write s k e exp 1, OPut true (Some e))
           | Some old =>
               if supersedes old e tie
               then (write s k e exp 0, OPut true (Some e))
               else (s, OPut false (Some old))
           end
  end.

Definition obs_eqb (a b : obs) : bool :=
  match a, b with
  | ODone, ODone => true
  | OPut x r, OPut y q => Bool.eqb x y && option_eqb entry_eqb r q
  | OGet v, OGet w => option_eqb entry_eqb v w
  | OInfo c l m, OInfo c' l' m' => ((c =? c') && (l =? l'))%N && (m =? m')%Z
  | OExp h, OExp h' => option_eqb N.eqb h h'
  | _, _ => false
  end.

Definition case := (N * list (op * obs))%type.
Definition check (cs : list case) := mismatches init step obs_eqb cs.
