(* Registry/Model.v — host/registry/registry.go (Manager.Get/Put/Entries) over
   persist/sqlite/registry.go (Get/SetRegistryValue, registryLimits) and the
   registry_limit setting.  No proofs here. *)
From HostdBase Require Import Base.

(* A registry value.  [vid] identifies (data, signature) — the harness numbers the
   distinct values it creates, 0 is Go's zero value. *)
Record entry := { rev : N; ety : N; vid : N }.
Definition entry_eqb (a b : entry) : bool :=
  ((rev a =? rev b) && (ety a =? ety b) && (vid a =? vid b))%N.

(* [exps]: the expiration_height column of registry_entries, per key (written by both
   the INSERT and the UPDATE of SetRegistryValue, an 8-byte little-endian blob: every
   uint64 fits).  [tip]: the height of the store's processed chain tip
   (global_settings.last_scanned_index).  Nothing in /repo reads either of them for the
   registry: persist/sqlite/registry.go is the only code that names registry_entries, and it
   has no DELETE and no WHERE on expiration_height. *)
(* [pend_r]/[pend_w]: the manager's access recorder (host/registry/recorder.go), in memory:
   Manager.Get counts a read when it succeeds, Manager.Put a write when it UPDATES a stored key
   (not when it inserts).  [mreads]/[mwrites]: host_stats registryReads / registryWrites, to
   which recorder.Flush (10 s timer, Manager.Close) adds the pending counts through
   IncrementRegistryAccess.  None of the four touches registryEntries ([metric]). *)
Record state := { entries : list (N * entry); exps : list (N * N); limit : N; metric : Z; tip : N;
                  pend_r : N; pend_w : N; mreads : Z; mwrites : Z }.
Definition init : state := {| entries := []; exps := []; limit := 0; metric := 0; tip := 0;
                              pend_r := 0; pend_w := 0; mreads := 0; mwrites := 0 |}.

Definition count (s : state) : N := N.of_nat (length (entries s)).

(* a store call that fails with an error other than "not found" *)
Inductive fault := FLookup | FWrite.

Inductive op :=
| SetLimit (n : N)
  (* Put key e exp valid tie: [exp] = the expirationHeight argument;
     [valid] = core's ValidateRegistryEntry accepted it;
     [tie] = core's ValidateRegistryUpdate verdict, consulted only at equal revisions *)
| Put (k : N) (e : entry) (exp : N) (valid tie : bool)
| Get (k : N)
| Info
  (* the store's processed chain tip moves to height h *)
| Tip (h : N)
  (* the expiration_height column of key k, read by the harness with its own SQL connection *)
| Exp (k : N)
  (* recorder.Flush; [ok] = IncrementRegistryAccess succeeded *)
| Flush (ok : bool)
  (* host_stats registryReads / registryWrites *)
| Access
  (* Manager.Put while store.GetRegistryValue (FLookup) resp. store.SetRegistryValue (FWrite) fails
     with an error that is not ErrEntryNotFound / ErrNotEnoughSpace *)
| PutF (k : N) (e : entry) (valid : bool) (f : fault)
  (* Manager.Get while store.GetRegistryValue fails; Manager.Entries while RegistryEntries fails *)
| GetF (k : N)
| InfoF.

Inductive obs :=
| ODone
| OPut (accepted : bool) (ret : option entry)   (* None = zero RegistryValue *)
| OGet (v : option entry)
| OInfo (cnt lim : N) (m : Z)
| OExp (h : option N)
| OAccess (r w : Z)
| OFail.

(* rhp3.ValidateRegistryUpdate: revision order first, core's tie-break otherwise *)
Definition supersedes (old new : entry) (tie : bool) : bool :=
  if (rev old <? rev new)%N then true
  else if (rev new <? rev old)%N then false
  else tie.

(* SetRegistryValue once the manager decided to write: the row of k holds e and exp *)
Definition write (s : state) (k : N) (e : entry) (exp : N) (dm : Z) : state :=
  {| entries := aset k e (entries s); exps := aset k exp (exps s); limit := limit s;
     metric := metric s + dm; tip := tip s;
     pend_r := pend_r s; pend_w := pend_w s; mreads := mreads s; mwrites := mwrites s |}.

(* recorder.AddRead / AddWrite *)
Definition add_r (s : state) : state :=
  {| entries := entries s; exps := exps s; limit := limit s; metric := metric s; tip := tip s;
     pend_r := pend_r s + 1; pend_w := pend_w s; mreads := mreads s; mwrites := mwrites s |}.
Definition add_w (s : state) : state :=
  {| entries := entries s; exps := exps s; limit := limit s; metric := metric s; tip := tip s;
     pend_r := pend_r s; pend_w := pend_w s + 1; mreads := mreads s; mwrites := mwrites s |}.

(* recorder.Flush: the pending counts are taken (and zeroed) first, then persisted; a failing
   IncrementRegistryAccess loses them *)
Definition flush (s : state) (ok : bool) : state :=
  {| entries := entries s; exps := exps s; limit := limit s; metric := metric s; tip := tip s;
     pend_r := 0; pend_w := 0;
     mreads := if ok then mreads s + Z.of_N (pend_r s) else mreads s;
     mwrites := if ok then mwrites s + Z.of_N (pend_w s) else mwrites s |}.

Definition step (s : state) (o : op) : state * obs :=
  match o with
  | SetLimit n => ({| entries := entries s; exps := exps s; limit := n; metric := metric s; tip := tip s;
                      pend_r := pend_r s; pend_w := pend_w s; mreads := mreads s; mwrites := mwrites s |}, ODone)
  | Get k => match alookup k (entries s) with
             | Some e => (add_r s, OGet (Some e))
             | None => (s, OGet None)
             end
  | Info => (s, OInfo (count s) (limit s) (metric s))
  | Tip h => ({| entries := entries s; exps := exps s; limit := limit s; metric := metric s; tip := h;
                 pend_r := pend_r s; pend_w := pend_w s; mreads := mreads s; mwrites := mwrites s |}, ODone)
  | Exp k => (s, OExp (alookup k (exps s)))
  | Flush ok => (flush s ok, ODone)
  | Access => (s, OAccess (mreads s) (mwrites s))
  | PutF k e valid f =>
      (* invalid: refused before any store call.  FLookup: "failed to get registry value", the
         zero value.  FWrite: a new key returns the offered value, a stored key the stored one
         (whether the update supersedes it — then SetRegistryValue fails — or not) *)
      if negb valid then (s, OPut false None)
      else match f with
           | FLookup => (s, OPut false None)
           | FWrite => match alookup k (entries s) with
                       | None => (s, OPut false (Some e))
                       | Some old => (s, OPut false (Some old))
                       end
           end
  | GetF k => (s, OGet None)
  | InfoF => (s, OFail)
  | Put k e exp valid tie =>
      if negb valid then (s, OPut false None)
      else match alookup k (entries s) with
           | None =>
               (* SetRegistryValue: insert path checks count >= limit *)
               if (limit s <=? count s)%N then (s, OPut false (Some e))
               else (write s k e exp 1, OPut true (Some e))
           | Some old =>
               if supersedes old e tie
               then (add_w (write s k e exp 0), OPut true (Some e))
               else (s, OPut false (Some old))
           end
  end.

Definition obs_eqb (a b : obs) : bool :=
  match a, b with
  | ODone, ODone => true
  | OFail, OFail => true
  | OPut x r, OPut y q => Bool.eqb x y && option_eqb entry_eqb r q
  | OGet v, OGet w => option_eqb entry_eqb v w
  | OInfo c l m, OInfo c' l' m' => ((c =? c') && (l =? l'))%N && (m =? m')%Z
  | OExp h, OExp h' => option_eqb N.eqb h h'
  | OAccess r w, OAccess r' w' => ((r =? r') && (w =? w'))%Z
  | _, _ => false
  end.

Definition case := (N * list (op * obs))%type.
Definition check (cs : list case) := mismatches init step obs_eqb cs.
