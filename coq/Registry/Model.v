(* Registry/Model.v — host/registry/registry.go (Manager.Get/Put/Entries) over
   persist/sqlite/registry.go (Get/SetRegistryValue, registryLimits) and the
   registry_limit setting.  No proofs here. *)
From HostdBase Require Import Base.

(* A registry value.  [vid] identifies (data, signature) — the harness numbers the
   distinct values it creates, 0 is Go's zero value. *)
Record entry := { rev : N; ety : N; vid : N }.
Definition entry_eqb (a b : entry) : bool :=
  ((rev a =? rev b) && (ety a =? ety b) && (vid a =? vid b))%N.

Record state := { entries : list (N * entry); limit : N; metric : Z }.
Definition init : state := {| entries := []; limit := 0; metric := 0 |}.

Definition count (s : state) : N := N.of_nat (length (entries s)).

Inductive op :=
| SetLimit (n : N)
  (* Put key e valid tie: [valid] = core's ValidateRegistryEntry accepted it;
     [tie] = core's ValidateRegistryUpdate verdict, consulted only at equal revisions *)
| Put (k : N) (e : entry) (valid tie : bool)
| Get (k : N)
| Info
  (* the store's processed chain tip moves to height h (global_settings.last_scanned_index):
     entries carry an expiration height, but nothing in the registry reads the tip — no entry is
     dropped, hidden or uncounted when its expiration height passes *)
| Tip (h : N).

Inductive obs :=
| ODone
| OPut (accepted : bool) (ret : option entry)   (* None = zero RegistryValue *)
| OGet (v : option entry)
| OInfo (cnt lim : N) (m : Z).

(* rhp3.ValidateRegistryUpdate: revision order first, core's tie-break otherwise *)
Definition supersedes (old new : entry) (tie : bool) : bool :=
  if (rev old <? rev new)%N then true
  else if (rev new <? rev old)%N then false
  else tie.

Definition step (s : state) (o : op) : state * obs :=
  match o with
  | SetLimit n => ({| entries := entries s; limit := n; metric := metric s |}, ODone)
  | Get k => (s, OGet (alookup k (entries s)))
  | Info => (s, OInfo (count s) (limit s) (metric s))
  | Tip _ => (s, ODone)
  | Put k e valid tie =>
      if negb valid then (s, OPut false None)
      else match alookup k (entries s) with
           | None =>
               (* SetRegistryValue: insert path checks count >= limit *)
               if (limit s <=? count s)%N then (s, OPut false (Some e))
               else ({| entries := aset k e (entries s); limit := limit s;
                        metric := metric s + 1 |}, OPut true (Some e))
           | Some old =>
               if supersedes old e tie
               then ({| entries := aset k e (entries s); limit := limit s;
                        metric := metric s |}, OPut true (Some e))
               else (s, OPut false (Some old))
           end
  end.

Definition obs_eqb (a b : obs) : bool :=
  match a, b with
  | ODone, ODone => true
  | OPut x r, OPut y q => Bool.eqb x y && option_eqb entry_eqb r q
  | OGet v, OGet w => option_eqb entry_eqb v w
  | OInfo c l m, OInfo c' l' m' => ((c =? c') && (l =? l'))%N && (m =? m')%Z
  | _, _ => false
  end.

Definition case := (N * list (op * obs))%type.
Definition check (cs : list case) := mismatches init step obs_eqb cs.
