(* Registry/Conc.v — registry.Manager under concurrent callers: Put and Get as their real steps
   (host/registry/registry.go) under the manager's mutex, next to callers that do not take it
   (Entries = RegistryEntries, the operator's UpdateSettings: one SQL transaction each).

   Steps of Manager.Put:  mu.Lock | ValidateRegistryEntry (invalid: return, Unlock) and
   store.GetRegistryValue (one transaction) | ValidateRegistryUpdate and store.SetRegistryValue
   (one transaction, which selects the key AGAIN and takes its insert path — limit check,
   INSERT, metric — or its update path on what it finds, not on what the manager read) | Unlock.
   Steps of Manager.Get: mu.Lock | GetRegistryValue, Unlock.

   Theorem: for any number of threads, any assignment of operations, any schedule, the
   outcome is that of the sequential model (Model.step) run in the order in which the threads
   passed their linearisation points; without the mutex it is not (witness). *)
From HostdBase Require Import Base.
From HostdRegistry Require Import Model Proofs.
From Coq Require Import Arith.PeanoNat.

Inductive top :=
| TPut (k : N) (e : entry) (exp : N) (valid : bool) (tie : entry -> bool)  (* tie: core's verdict against a stored entry *)
| TGet (k : N)
| TSetLimit (n : N)
| TInfo.

(* the operation as the sequential model sees it when it takes effect in state s *)
Definition lin_op (t : top) (s : state) : op :=
  match t with
  | TPut k e exp valid tie =>
      Put k e exp valid (match alookup k (entries s) with Some old => tie old | None => false end)
  | TGet k => Get k
  | TSetLimit n => SetLimit n
  | TInfo => Info
  end.
Definition sstep (s : state) (t : top) : state * obs := step s (lin_op t s).

Fixpoint ttrace (s : state) (l : list top) : list (top * obs) :=
  match l with
  | [] => []
  | t :: r => let '(s', m) := sstep s t in (t, m) :: ttrace s' r
  end.
Definition truns (s : state) (l : list top) : state := fold_left (fun s t => fst (sstep s t)) l s.

Inductive pc := Idle | Locked | HaveOld (old : option entry) | Done (r : obs).

Record gstate := { st : state; mu : option nat; thr : nat -> pc; lin : list (nat * top * obs) }.

Definition upd (f : nat -> pc) (i : nat) (v : pc) : nat -> pc := fun j => if Nat.eqb j i then v else f j.

(* persist/sqlite SetRegistryValue: its own SELECT decides between insert and update *)
Definition set_value (s : state) (k : N) (e : entry) (exp : N) : state * bool :=
  match alookup k (entries s) with
  | None => if (limit s <=? count s)%N then (s, false) else (write s k e exp 1, true)
  | Some _ => (write s k e exp 0, true)
  end.

Section Sched.
  Variable use_mu : bool.          (* true = the code; false = the same steps without mu *)
  Variable ops : nat -> top.       (* thread i performs ops i; any number of threads *)

  Definition finish (g : gstate) (i : nat) (s' : state) (r : obs) (unlock : bool) : gstate :=
    {| st := s'; mu := if unlock && use_mu then None else mu g;
       thr := upd (thr g) i (Done r); lin := lin g ++ [(i, ops i, r)] |}.

  Definition acquire (g : gstate) (i : nat) : gstate :=
    if use_mu then
      match mu g with
      | Some _ => g     (* blocked *)
      | None => {| st := st g; mu := Some i; thr := upd (thr g) i Locked; lin := lin g |}
      end
    else {| st := st g; mu := mu g; thr := upd (thr g) i Locked; lin := lin g |}.

  Definition cstep (g : gstate) (i : nat) : gstate :=
    match ops i, thr g i with
    | TSetLimit n, Idle => let '(s', r) := step (st g) (SetLimit n) in finish g i s' r false
    | TInfo, Idle => let '(s', r) := step (st g) Info in finish g i s' r false
    | TGet _, Idle => acquire g i
    | TPut _ _ _ _ _, Idle => acquire g i
    | TGet k, Locked => let '(s', r) := step (st g) (Get k) in finish g i s' r true
    | TPut k e exp valid tie, Locked =>
        if negb valid then finish g i (st g) (OPut false None) true
        else {| st := st g; mu := mu g; thr := upd (thr g) i (HaveOld (alookup k (entries (st g)))); lin := lin g |}
    | TPut k e exp valid tie, HaveOld None =>
        let '(s', ok) := set_value (st g) k e exp in finish g i s' (OPut ok (Some e)) true
    | TPut k e exp valid tie, HaveOld (Some old) =>
        if supersedes old e (tie old)
        then let '(s', ok) := set_value (st g) k e exp in
             (* recorder.AddWrite: only on this path, after a successful SetRegistryValue *)
             finish g i (if ok then add_w s' else s') (if ok then OPut true (Some e) else OPut false (Some old)) true
        else finish g i (st g) (OPut false (Some old)) true
    | _, _ => g
    end.

  Definition crun (g : gstate) (sch : list nat) : gstate := fold_left cstep sch g.
  Definition cinit (s0 : state) : gstate := {| st := s0; mu := None; thr := fun _ => Idle; lin := [] |}.
End Sched.

Definition holds (p : pc) : bool := match p with Locked | HaveOld _ => true | _ => false end.
Definition lin_tops (l : list (nat * top * obs)) : list top := map (fun x => snd (fst x)) l.
Definition lin_obs (l : list (nat * top * obs)) : list (top * obs) := map (fun x => (snd (fst x), snd x)) l.

Lemma ttrace_app s a b : ttrace s (a ++ b) = ttrace s a ++ ttrace (truns s a) b.
Proof.
  revert s; induction a as [|t r IH]; intros s; [reflexivity|].
  cbn [app ttrace]. change (truns s (t :: r)) with (truns (fst (sstep s t)) r).
  destruct (sstep s t) as [s' m]; cbn [fst]. now rewrite IH.
Qed.

Lemma truns_app s a b : truns s (a ++ b) = truns (truns s a) b.
Proof. unfold truns; apply fold_left_app. Qed.

Lemma NoDup_app_one {A} (l : list A) x : NoDup l -> ~ In x l -> NoDup (l ++ [x]).
Proof.
  induction l as [|a t IH]; intros Hn Hx; cbn; [constructor; [intros []|constructor]|].
  inversion Hn; subst. constructor.
  - intros Hin. apply in_app_or in Hin. destruct Hin as [Hin|[->|[]]]; [contradiction|].
    apply Hx; left; reflexivity.
  - apply IH; [assumption|]. intros Hin; apply Hx; right; exact Hin.
Qed.

Section Lin.
  Variable ops : nat -> top.
  Variable s0 : state.

  (* the invariant of the code (use_mu = true) *)
  Record Inv (g : gstate) : Prop := {
    inv_trace : lin_obs (lin g) = ttrace s0 (lin_tops (lin g));
    inv_state : st g = truns s0 (lin_tops (lin g));
    inv_done : forall i r, thr g i = Done r -> In (i, ops i, r) (lin g);
    inv_once : forall i t r, In (i, t, r) (lin g) -> t = ops i /\ thr g i = Done r;
    inv_nodup : NoDup (map (fun x => fst (fst x)) (lin g));
    inv_holder : forall i, holds (thr g i) = true -> mu g = Some i;
    inv_held : forall i, mu g = Some i -> holds (thr g i) = true;
    inv_old : forall i k e exp valid tie old,
        ops i = TPut k e exp valid tie -> thr g i = HaveOld old ->
        valid = true /\ old = alookup k (entries (st g))
  }.

  Lemma inv_init : Inv (cinit s0).
  Proof.
    split; cbn; try reflexivity; try (intros; discriminate); try (intros; contradiction).
    constructor.
  Qed.

  Lemma upd_same f i v : upd f i v i = v.
  Proof. unfold upd; now rewrite Nat.eqb_refl. Qed.
  Lemma upd_other f i v j : j <> i -> upd f i v j = f j.
  Proof. unfold upd; intros H; apply Nat.eqb_neq in H; now rewrite H. Qed.

  (* a thread passes its linearisation point with exactly the sequential model's step *)
  Lemma inv_finish g i s' r unlock :
    Inv g ->
    (forall r', thr g i <> Done r') ->
    sstep (st g) (ops i) = (s', r) ->
    (unlock = true -> mu g = Some i) ->
    (unlock = false -> holds (thr g i) = false) ->
    (forall j, j <> i -> holds (thr g j) = true -> unlock = true -> False) ->
    (unlock = false -> entries s' = entries (st g)) ->
    Inv (finish true ops g i s' r unlock).
  Proof.
    intros I Hnd Hs Hun Hno Hexcl Hent.
    assert (Hfresh : ~ In i (map (fun x => fst (fst x)) (lin g))).
    { intros Hin. apply in_map_iff in Hin. destruct Hin as ([[j t] r'] & Hj & Hin); cbn in Hj; subst j.
      destruct (inv_once g I _ _ _ Hin) as [_ Hd]. exact (Hnd _ Hd). }
    split; unfold finish; cbn [st mu thr lin].
    - unfold lin_obs, lin_tops. rewrite !map_app. cbn [map fst snd].
      rewrite ttrace_app. fold (lin_obs (lin g)) (lin_tops (lin g)).
      rewrite <- (inv_trace g I), <- (inv_state g I). cbn [ttrace]. now rewrite Hs.
    - unfold lin_tops. rewrite map_app, truns_app. fold (lin_tops (lin g)).
      rewrite <- (inv_state g I). cbn. now rewrite Hs.
    - intros j r'. destruct (Nat.eq_dec j i) as [->|Hne].
      + rewrite upd_same. intros H; inversion H; subst. apply in_or_app; right; left; reflexivity.
      + rewrite upd_other by exact Hne. intros H. apply in_or_app; left. now apply (inv_done g I).
    - intros j t r' Hin. apply in_app_or in Hin. destruct Hin as [Hin|[Heq|[]]].
      + destruct (inv_once g I _ _ _ Hin) as [Ht Hd]. split; [exact Ht|].
        destruct (Nat.eq_dec j i) as [->|Hne]; [exfalso; exact (Hnd _ Hd)|].
        now rewrite upd_other.
      + inversion Heq; subst. split; [reflexivity|apply upd_same].
    - rewrite map_app. cbn [map fst]. apply NoDup_app_one; [exact (inv_nodup g I)|exact Hfresh].
    - intros j Hh. destruct (Nat.eq_dec j i) as [->|Hne]; [rewrite upd_same in Hh; discriminate|].
      rewrite upd_other in Hh by exact Hne.
      destruct unlock; cbn [andb].
      + exfalso; exact (Hexcl j Hne Hh eq_refl).
      + now apply (inv_holder g I).
    - intros j Hm. destruct unlock; cbn [andb] in Hm; [discriminate|].
      destruct (Nat.eq_dec j i) as [->|Hne].
      + pose proof (inv_held g I _ Hm) as Hh. rewrite (Hno eq_refl) in Hh; discriminate.
      + rewrite upd_other by exact Hne. now apply (inv_held g I).
    - intros j k e exp valid tie old Hop Hpc.
      destruct (Nat.eq_dec j i) as [->|Hne]; [rewrite upd_same in Hpc; discriminate|].
      rewrite upd_other in Hpc by exact Hne.
      destruct (inv_old g I _ _ _ _ _ _ _ Hop Hpc) as [Hv Ho]. split; [exact Hv|].
      destruct unlock.
      + exfalso. apply (Hexcl j Hne); [now rewrite Hpc|reflexivity].
      + now rewrite (Hent eq_refl).
  Qed.
End Lin.

Section Lin2.
  Variable ops : nat -> top.
  Variable s0 : state.

  (* a step that only moves thread i's program counter (and possibly takes the lock) *)
  Lemma inv_move g i p m' :
    Inv ops s0 g ->
    (forall r, thr g i <> Done r) -> (forall r, p <> Done r) ->
    (holds p = true -> m' = Some i) ->
    (forall j, j <> i -> holds (thr g j) = true -> m' = Some j) ->
    (forall j, m' = Some j -> (j = i /\ holds p = true) \/ (j <> i /\ holds (thr g j) = true)) ->
    (forall k e exp valid tie old, ops i = TPut k e exp valid tie -> p = HaveOld old ->
       valid = true /\ old = alookup k (entries (st g))) ->
    Inv ops s0 {| st := st g; mu := m'; thr := upd (thr g) i p; lin := lin g |}.
  Proof.
    intros I Hnd Hp Hh Hoth Hheld Hold.
    split; cbn [st mu thr lin].
    - exact (inv_trace _ _ g I).
    - exact (inv_state _ _ g I).
    - intros j r. destruct (Nat.eq_dec j i) as [->|Hne].
      + rewrite upd_same. intros H; exfalso; exact (Hp _ H).
      + rewrite upd_other by exact Hne. apply (inv_done _ _ g I).
    - intros j t r Hin. destruct (inv_once _ _ g I _ _ _ Hin) as [Ht Hd]. split; [exact Ht|].
      destruct (Nat.eq_dec j i) as [->|Hne]; [exfalso; exact (Hnd _ Hd)|]. now rewrite upd_other.
    - exact (inv_nodup _ _ g I).
    - intros j Hj. destruct (Nat.eq_dec j i) as [->|Hne].
      + rewrite upd_same in Hj. exact (Hh Hj).
      + rewrite upd_other in Hj by exact Hne. exact (Hoth j Hne Hj).
    - intros j Hm. destruct (Hheld j Hm) as [[-> Hq]|[Hne Hq]].
      + now rewrite upd_same.
      + now rewrite upd_other.
    - intros j k e exp valid tie old Hop Hpc. destruct (Nat.eq_dec j i) as [->|Hne].
      + rewrite upd_same in Hpc. exact (Hold _ _ _ _ _ _ Hop Hpc).
      + rewrite upd_other in Hpc by exact Hne. exact (inv_old _ _ g I _ _ _ _ _ _ _ Hop Hpc).
  Qed.

  Lemma inv_acquire g i :
    Inv ops s0 g -> thr g i = Idle -> Inv ops s0 (acquire true g i).
  Proof.
    intros I Hi. unfold acquire. destruct (mu g) as [h|] eqn:M; [exact I|].
    apply inv_move; try exact I.
    - intros r; rewrite Hi; discriminate.
    - intros r; discriminate.
    - reflexivity.
    - intros j _ Hj. pose proof (inv_holder _ _ g I j Hj) as H. rewrite M in H; discriminate.
    - intros j Hj; inversion Hj; subst. left; split; reflexivity.
    - intros; discriminate.
  Qed.

  (* only the holder is inside: any other thread that holds contradicts the invariant *)
  Lemma sole_holder g i j :
    Inv ops s0 g -> holds (thr g i) = true -> j <> i -> holds (thr g j) = true -> False.
  Proof.
    intros I Hi Hne Hj. pose proof (inv_holder _ _ g I i Hi) as A. pose proof (inv_holder _ _ g I j Hj) as B.
    rewrite A in B; inversion B; congruence.
  Qed.

  Lemma inv_step g i : Inv ops s0 g -> Inv ops s0 (cstep true ops g i).
  Proof.
    intros I. unfold cstep.
    destruct (ops i) as [k e exp valid tie|k|n|] eqn:Op; destruct (thr g i) as [| |old|r] eqn:Pc; try exact I.
    - (* Put, Idle *) apply inv_acquire; assumption.
    - (* Put, Locked *)
      assert (Hh : holds (thr g i) = true) by now rewrite Pc.
      destruct valid; cbn [negb].
      + apply inv_move; try exact I.
        * intros r; rewrite Pc; discriminate.
        * intros r; discriminate.
        * intros _. exact (inv_holder _ _ g I i Hh).
        * intros j Hne Hj. exfalso. exact (sole_holder g i j I Hh Hne Hj).
        * intros j Hm. rewrite (inv_holder _ _ g I i Hh) in Hm; inversion Hm; subst. left; split; reflexivity.
        * intros k' e' exp' valid' tie' old Hop Hp. rewrite Op in Hop. inversion Hop; subst. inversion Hp; subst.
          split; reflexivity.
      + apply inv_finish; try exact I.
        * intros r; rewrite Pc; discriminate.
        * unfold sstep; rewrite Op; reflexivity.
        * intros _. exact (inv_holder _ _ g I i Hh).
        * discriminate.
        * intros j Hne Hj _. exact (sole_holder g i j I Hh Hne Hj).
        * discriminate.
    - (* Put, HaveOld *)
      assert (Hh : holds (thr g i) = true) by now rewrite Pc.
      destruct (inv_old _ _ g I _ _ _ _ _ _ _ Op Pc) as [-> Hold].
      destruct old as [old|].
      + destruct (supersedes old e (tie old)) eqn:S.
        * unfold set_value. rewrite <- Hold.
          apply inv_finish; try exact I.
          -- intros r; rewrite Pc; discriminate.
          -- unfold sstep; rewrite Op; cbn. rewrite <- Hold, S. reflexivity.
          -- intros _. exact (inv_holder _ _ g I i Hh).
          -- discriminate.
          -- intros j Hne Hj _. exact (sole_holder g i j I Hh Hne Hj).
          -- discriminate.
        * apply inv_finish; try exact I.
          -- intros r; rewrite Pc; discriminate.
          -- unfold sstep; rewrite Op; cbn. rewrite <- Hold, S. reflexivity.
          -- intros _. exact (inv_holder _ _ g I i Hh).
          -- discriminate.
          -- intros j Hne Hj _. exact (sole_holder g i j I Hh Hne Hj).
          -- discriminate.
      + unfold set_value. rewrite <- Hold.
        destruct (limit (st g) <=? count (st g))%N eqn:C.
        * apply inv_finish; try exact I.
          -- intros r; rewrite Pc; discriminate.
          -- unfold sstep; rewrite Op; cbn. rewrite <- Hold, C. reflexivity.
          -- intros _. exact (inv_holder _ _ g I i Hh).
          -- discriminate.
          -- intros j Hne Hj _. exact (sole_holder g i j I Hh Hne Hj).
          -- discriminate.
        * apply inv_finish; try exact I.
          -- intros r; rewrite Pc; discriminate.
          -- unfold sstep; rewrite Op; cbn. rewrite <- Hold, C. reflexivity.
          -- intros _. exact (inv_holder _ _ g I i Hh).
          -- discriminate.
          -- intros j Hne Hj _. exact (sole_holder g i j I Hh Hne Hj).
          -- discriminate.
    - (* Get, Idle *) apply inv_acquire; assumption.
    - (* Get, Locked *)
      assert (Hh : holds (thr g i) = true) by now rewrite Pc.
      destruct (step (st g) (Get k)) as [s' r'] eqn:SG. apply inv_finish; try exact I.
      + intros r; rewrite Pc; discriminate.
      + unfold sstep; rewrite Op; exact SG.
      + intros _. exact (inv_holder _ _ g I i Hh).
      + discriminate.
      + intros j Hne Hj _. exact (sole_holder g i j I Hh Hne Hj).
      + discriminate.
    - (* SetLimit, Idle *)
      cbn [step]. apply inv_finish; try exact I.
      + intros r; rewrite Pc; discriminate.
      + unfold sstep; rewrite Op; reflexivity.
      + discriminate.
      + intros _; now rewrite Pc.
      + intros j _ _ H; discriminate.
      + reflexivity.
    - (* Info, Idle *)
      cbn [step]. apply inv_finish; try exact I.
      + intros r; rewrite Pc; discriminate.
      + unfold sstep; rewrite Op; reflexivity.
      + discriminate.
      + intros _; now rewrite Pc.
      + intros j _ _ H; discriminate.
      + reflexivity.
  Qed.

  Lemma inv_run sch : forall g, Inv ops s0 g -> Inv ops s0 (crun true ops g sch).
  Proof. induction sch as [|i t IH]; intros g I; [exact I|]. cbn. apply IH, inv_step, I. Qed.

  (* Linearisability, for any number of threads and any schedule: the threads that returned are
     exactly the entries of a sequence (each thread once, with its own operation and the result it
     returned) that is a run of the sequential model, and the registry is in that run's final state *)
  Theorem linearisable sch :
    let g := crun true ops (cinit s0) sch in
    lin_obs (lin g) = ttrace s0 (lin_tops (lin g)) /\
    st g = truns s0 (lin_tops (lin g)) /\
    NoDup (map (fun x => fst (fst x)) (lin g)) /\
    (forall i r, thr g i = Done r <-> In (i, ops i, r) (lin g)) /\
    (forall i t r, In (i, t, r) (lin g) -> t = ops i).
  Proof.
    pose proof (inv_run sch (cinit s0) (inv_init ops s0)) as I. cbn zeta.
    split; [exact (inv_trace _ _ _ I)|].
    split; [exact (inv_state _ _ _ I)|].
    split; [exact (inv_nodup _ _ _ I)|].
    split.
    - intros i r; split; [apply (inv_done _ _ _ I)|].
      intros H. exact (proj2 (inv_once _ _ _ I _ _ _ H)).
    - intros i t r H. exact (proj1 (inv_once _ _ _ I _ _ _ H)).
  Qed.

  (* mutual exclusion along the way *)
  Theorem mutual_exclusion sch i j :
    let g := crun true ops (cinit s0) sch in
    holds (thr g i) = true -> holds (thr g j) = true -> i = j.
  Proof.
    pose proof (inv_run sch (cinit s0) (inv_init ops s0)) as I. cbn zeta. intros Hi Hj.
    destruct (Nat.eq_dec i j) as [E|Hne]; [exact E|].
    exfalso. apply (sole_holder _ i j I Hi); [congruence|exact Hj].
  Qed.
End Lin2.

(* Without the mutex the same steps are not linearisable: two Puts on one key, the higher
   revision written between the other's read and write, end with the LOWER revision stored
   although the higher one was accepted — no order of the two explains it. *)
Definition ce (r v : N) : entry := {| rev := r; ety := 0; vid := v |}.
Definition race_ops (i : nat) : top :=
  match i with
  | 0 => TSetLimit 1
  | 1 => TPut 1 (ce 1 1) 100 true (fun _ => false)
  | 2 => TPut 1 (ce 2 2) 100 true (fun _ => false)
  | _ => TPut 1 (ce 3 3) 100 true (fun _ => false)
  end.
(* thread 1 writes rev 1; thread 2 reads it; thread 3 runs completely (rev 3 stored); thread 2
   writes rev 2 over it *)
Definition race_sched : list nat := [0; 1; 1; 1; 2; 2; 3; 3; 3; 2].

Lemma unlocked_race :
  let g := crun false race_ops (cinit init) race_sched in
  alookup 1 (entries (st g)) = Some (ce 2 2) /\
  thr g 3%nat = Done (OPut true (Some (ce 3 3))) /\ thr g 2%nat = Done (OPut true (Some (ce 2 2))).
Proof. vm_compute. repeat split. Qed.

Lemma locked_race_blocks :
  let g := crun true race_ops (cinit init) race_sched in
  alookup 1 (entries (st g)) = Some (ce 2 2) /\ thr g 3%nat = Idle.
Proof. vm_compute. repeat split. Qed.

(* the linearised run is a run of Model.step: the C20 theorems about [runs init _] carry over *)
Lemma truns_is_runs l : forall s, exists lo, truns s l = runs s lo /\ map snd (ttrace s l) = map snd (trace s lo).
Proof.
  induction l as [|t r IH]; intros s; [exists []; split; reflexivity|].
  change (truns s (t :: r)) with (truns (fst (sstep s t)) r). cbn [ttrace].
  destruct (IH (fst (sstep s t))) as (lo & A & B).
  exists (lin_op t s :: lo). unfold sstep in *.
  change (runs s (lin_op t s :: lo)) with (runs (fst (step s (lin_op t s))) lo). cbn [trace].
  destruct (step s (lin_op t s)) as [s' m]; cbn [fst map snd] in *. split; [exact A|now rewrite B].
Qed.

Theorem conc_count_is_metric ops sch :
  let g := crun true ops (cinit init) sch in metric (st g) = Z.of_N (count (st g)).
Proof.
  cbn zeta. destruct (linearisable ops init sch) as (_ & Hs & _). rewrite Hs.
  destruct (truns_is_runs (lin_tops (lin (crun true ops (cinit init) sch))) init) as (lo & -> & _).
  apply metric_inv.
Qed.
