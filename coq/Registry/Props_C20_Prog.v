(* C20 through RHP3 programs (rhp/v3/execute.go): what a renter observes.  Statements only.

   [fwd] = does executeProgram pass on the output an instruction returned with its error:
   false = /repo HEAD 8fe98f6, true = with fixes/C20-rhp3-refused-update-returns-stored-entry.patch.
   Every theorem quantified over [fwd] holds of both; c20_rhp3_refused_update_* separate them.

   Reading of "last accepted update" for programs (brief, hole 1): an update instruction is
   accepted when its response carries no error.  Manager.Put has committed its SQL transaction by
   then; executeProgram/commit/rollback never undo it.  So the writes of a program that fails at a
   later instruction, or whose finalisation fails, survive, and reads return them — which is what
   the property text asks ("a read returns the entry of the last accepted update"): the renter WAS
   told the update is accepted.  Not a violation; stated below as theorems. *)
From HostdBase Require Import Base.
From HostdRegistry Require Import Model Proofs Prog ProofsProg.

(* For every history of programs and direct operations the renter-side checker passes: every read
   instruction that answers returns revision, (data, signature) and — version 2 — type of the last
   update of that key seen accepted (by an update instruction of any earlier program, failed or
   not, of this program, or by a direct Put); a read instruction fails only if its version is
   unsupported, its budget is exhausted, or no update of the key was ever accepted; an update
   instruction is accepted only if validly signed, paid for, and its key new or superseded; a
   refused one ends the program and changes nothing; a direct Get agrees with the same record. *)
Theorem c20_rhp3_renter_view : forall (fwd : bool) (l : list pop),
  view_ok fwd [] (ptrace fwd init l) = true.
Proof. exact renter_view_ok. Qed.
Print Assumptions c20_rhp3_renter_view.

(* Refinement: the registry has gone through a genuine run of Model.step — exactly the
   Manager calls the programs made — so every C20 theorem about [runs init _] applies. *)
Theorem c20_rhp3_refines_manager : forall (fwd : bool) (l : list pop),
  pruns fwd init l = runs init (map fst (plog fwd init l)) /\
  plog fwd init l = trace init (map fst (plog fwd init l)).
Proof. exact prog_refines. Qed.
Print Assumptions c20_rhp3_refines_manager.

Theorem c20_rhp3_count_is_metric : forall (fwd : bool) (l : list pop),
  metric (pruns fwd init l) = Z.of_N (count (pruns fwd init l)).
Proof. exact prog_metric. Qed.
Print Assumptions c20_rhp3_count_is_metric.

(* partial for the reason of c20_capacity_partial: no eviction when the operator lowers the limit *)
Theorem c20_rhp3_capacity_partial : forall (fwd : bool) (l : list pop),
  never_lowers init (map fst (plog fwd init l)) = true ->
  (count (pruns fwd init l) <= limit (pruns fwd init l))%N.
Proof. exact prog_capacity_partial. Qed.
Print Assumptions c20_rhp3_capacity_partial.

(* Writes of a failing program.  An instruction that fails leaves the registry as it was; the
   registry after a program that fails at some instruction is the registry after the instructions
   before it (no rollback), whatever follows; the outcome of commit / finalisation is irrelevant;
   an update that was answered "accepted" is stored although the next instruction failed and the
   end of the program failed. *)
Theorem c20_rhp3_failing_instruction_no_effect : forall fwd exp c s rem i s1 rem1 r lg,
  istep fwd exp c s rem i = (s1, rem1, r, false, lg) -> s1 = s.
Proof. exact failing_instr_no_effect. Qed.
Print Assumptions c20_rhp3_failing_instruction_no_effect.

Theorem c20_rhp3_no_rollback : forall fwd exp c b1 b2 s rem,
  st_of (exec fwd exp c s rem (b1 ++ IFail :: b2)) = st_of (exec fwd exp c s rem b1).
Proof. exact writes_survive_later_failure. Qed.
Print Assumptions c20_rhp3_no_rollback.

Theorem c20_rhp3_end_of_program_irrelevant : forall fwd s p f,
  fst (pstep fwd s (Run (with_fin p f))) = fst (pstep fwd s (Run p)).
Proof. exact writes_survive_failed_end. Qed.
Print Assumptions c20_rhp3_end_of_program_irrelevant.

Theorem c20_rhp3_accepted_update_survives : forall fwd s p b1 k e tie b2 f s',
  (initc p <=? budget p)%N = true ->
  body p = b1 ++ IUpdate k e true tie :: IFail :: b2 ->
  nth_error (snd (fst (fst (exec fwd (expiry_of p) (icost p) s (budget p - initc p)%N (body p))))) (length b1)
    = Some RAccepted ->
  s' = fst (pstep fwd s (Run (with_fin p f))) ->
  alookup k (entries s') = Some e.
Proof. exact accepted_update_survives. Qed.
Print Assumptions c20_rhp3_accepted_update_survives.

(* Expiry: every Put a program makes carries HostBlockHeight + 144*365 mod 2^64 of the price
   table it named; with c20_expiration_height_is_last_accepted over the refined run this is the
   stored expiration_height; with c20_expired_entry_is_served nothing ever acts on it. *)
Theorem c20_rhp3_expiry_is_pricetable_height_plus_year : forall fwd s p,
  Forall (exp_is (wadd (hbh p) 52560)) (snd (pstep_log fwd s (Run p))).
Proof. exact program_expiry. Qed.
Print Assumptions c20_rhp3_expiry_is_pricetable_height_plus_year.

(* "otherwise the stored entry is returned unchanged together with an error", at the renter:
   with the patch it is part of c20_rhp3_renter_view (fwd = true: the checker demands the stored
   (data, signature) with the error).  At HEAD the code violates it: the history
   [SetLimit 1; program {update k e}; program {update k e}] answers the second update with an
   error and NO output (monitor refused-update-does-not-return-stored-entry, directed case 0 of
   TestVerifC20RHP3); the same history on the patched model returns the stored entry. *)
Theorem c20_rhp3_refused_update_returns_stored_refuted :
  exists l, view_ok true [] (ptrace false init l) = false.
Proof. exact refused_update_head_refuted. Qed.
Print Assumptions c20_rhp3_refused_update_returns_stored_refuted.

Theorem c20_rhp3_refused_update_returns_stored_patched :
  ptrace true init refused_witness =
  [(Base (SetLimit 1), PBase ODone); (Run prog_upd, PRun true [RAccepted] true);
   (Run prog_upd, PRun true [RError (Some 7%N)] false)].
Proof. exact refused_witness_patched. Qed.
Print Assumptions c20_rhp3_refused_update_returns_stored_patched.

(* non-vacuity: an update accepted inside a program that then fails (and whose end fails) is read
   by the next program in both read versions; a read of a key never written fails; the stored
   expiration height is 10 + 52560; count = metric = 1 *)
Example c20_rhp3_nonvacuous :
  ptrace false init [Base (SetLimit 2); Run prog_fail_later; Run prog_read; Base (Exp 5); Base Info] =
  [(Base (SetLimit 2), PBase ODone);
   (Run prog_fail_later, PRun true [RAccepted; RError None] false);
   (Run prog_read, PRun true [RValue 1 7 (Some 0%N); RValue 1 7 None; RError None] false);
   (Base (Exp 5), PBase (OExp (Some 52570%N)));
   (Base Info, PBase (OInfo 1 2 1))].
Proof. exact prog_witness. Qed.
