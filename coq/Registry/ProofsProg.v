(* Registry/ProofsProg.v — lemmas behind Props_C20_Prog.v: the registry seen through RHP3 programs *)
From HostdBase Require Import Base.
From HostdRegistry Require Import Model Proofs Prog.

(* ---- histories of programs and direct operations *)
Fixpoint ptrace (fwd : bool) (s : state) (l : list pop) : list (pop * pobs) :=
  match l with
  | [] => []
  | o :: t => let '(s', m) := pstep fwd s o in (o, m) :: ptrace fwd s' t
  end.

Definition pruns (fwd : bool) (s : state) (l : list pop) : state :=
  fold_left (fun s o => fst (pstep fwd s o)) l s.

(* the calls on registry.Manager that a history makes, in order, with their results *)
Fixpoint plog (fwd : bool) (s : state) (l : list pop) : list (op * obs) :=
  match l with
  | [] => []
  | o :: t => let '(s', _, lg) := pstep_log fwd s o in lg ++ plog fwd s' t
  end.

Lemma trace_app s a b : trace s (a ++ b) = trace s a ++ trace (runs s a) b.
Proof.
  revert s; induction a as [|o t IH]; intros s; [reflexivity|].
  cbn [app trace]. change (runs s (o :: t)) with (runs (fst (step s o)) t).
  destruct (step s o) as [s' m]; cbn [fst]. now rewrite IH.
Qed.

Lemma runs_app s a b : runs s (a ++ b) = runs (runs s a) b.
Proof. unfold runs; apply fold_left_app. Qed.

(* a log is genuine when it is the model's own trace of its operations *)
Definition genuine (s s' : state) (lg : list (op * obs)) : Prop :=
  lg = trace s (map fst lg) /\ s' = runs s (map fst lg).

Lemma genuine_nil s : genuine s s [].
Proof. split; reflexivity. Qed.

Lemma genuine_one s o : genuine s (fst (step s o)) [(o, snd (step s o))].
Proof. split; cbn; destruct (step s o); reflexivity. Qed.

Lemma genuine_app s s1 s2 a b : genuine s s1 a -> genuine s1 s2 b -> genuine s s2 (a ++ b).
Proof.
  intros [Ha Hs1] [Hb Hs2]; split.
  - rewrite map_app, trace_app, <- Hs1, <- Ha, <- Hb. reflexivity.
  - rewrite map_app, runs_app, <- Hs1. exact Hs2.
Qed.

Lemma istep_genuine fwd exp c s rem i :
  let '(s1, _, _, _, lg) := istep fwd exp c s rem i in genuine s s1 lg.
Proof.
  destruct i as [k e valid tie|k ver| | |k e valid|k ver]; cbn [istep]; try apply genuine_nil.
  - destruct (rem <? c)%N; [apply genuine_nil|].
    pose proof (genuine_one s (Put k e exp valid tie)) as G.
    destruct (step s (Put k e exp valid tie)) as [s' o]; cbn [fst snd] in G.
    destruct o as [|[|] r| | | | |]; exact G.
  - destruct (negb ((ver =? 1) || (ver =? 2))%N); [apply genuine_nil|].
    destruct (rem <? c)%N; [apply genuine_nil|].
    pose proof (genuine_one s (Get k)) as G.
    destruct (step s (Get k)) as [s' o]; cbn [fst snd] in G.
    destruct o as [| |[e|]| | | |]; exact G.
  - destruct (rem <? c)%N; [apply genuine_nil|].
    pose proof (genuine_one s (PutF k e valid FLookup)) as G.
    destruct (step s (PutF k e valid FLookup)) as [s' o]; exact G.
  - destruct (negb ((ver =? 1) || (ver =? 2))%N); [apply genuine_nil|].
    destruct (rem <? c)%N; [apply genuine_nil|].
    pose proof (genuine_one s (GetF k)) as G.
    destruct (step s (GetF k)) as [s' o]; exact G.
Qed.

Lemma exec_genuine fwd exp c s rem b :
  let '(s', _, _, lg) := exec fwd exp c s rem b in genuine s s' lg.
Proof.
  revert s rem; induction b as [|i t IH]; intros s rem; cbn [exec]; [apply genuine_nil|].
  pose proof (istep_genuine fwd exp c s rem i) as G.
  destruct (istep fwd exp c s rem i) as [[[[s1 rem1] r] ok] lg].
  destruct ok; [|exact G].
  specialize (IH s1 rem1).
  destruct (exec fwd exp c s1 rem1 t) as [[[s2 rs] ok2] lg2].
  eapply genuine_app; eassumption.
Qed.

Lemma pstep_log_genuine fwd s o :
  let '(s', _, lg) := pstep_log fwd s o in genuine s s' lg.
Proof.
  destruct o as [b|p]; cbn [pstep_log].
  - pose proof (genuine_one s b) as G. destruct (step s b) as [s' m]; exact G.
  - destruct (budget p <? initc p)%N; [apply genuine_nil|].
    pose proof (exec_genuine fwd (expiry_of p) (icost p) s (budget p - initc p)%N (body p)) as G.
    destruct (exec fwd (expiry_of p) (icost p) s (budget p - initc p)%N (body p)) as [[[s' rs] ok] lg].
    exact G.
Qed.

(* Refinement: whatever programs and direct operations a history mixes, the registry has gone
   through a genuine run of Model.step — the calls the programs made, in order. *)
Lemma plog_genuine fwd s l : genuine s (pruns fwd s l) (plog fwd s l).
Proof.
  revert s; induction l as [|o t IH]; intros s; [apply genuine_nil|].
  cbn [plog]. unfold pruns; cbn [fold_left]. unfold pstep at 2.
  pose proof (pstep_log_genuine fwd s o) as G.
  destruct (pstep_log fwd s o) as [[s' m] lg]; cbn [fst].
  eapply genuine_app; [exact G|apply IH].
Qed.

Lemma prog_refines fwd l :
  pruns fwd init l = runs init (map fst (plog fwd init l)) /\
  plog fwd init l = trace init (map fst (plog fwd init l)).
Proof. destruct (plog_genuine fwd init l) as [A B]; split; assumption. Qed.

Lemma prog_metric fwd l : metric (pruns fwd init l) = Z.of_N (count (pruns fwd init l)).
Proof. destruct (prog_refines fwd l) as [-> _]. apply metric_inv. Qed.

Lemma prog_capacity_partial fwd l :
  never_lowers init (map fst (plog fwd init l)) = true ->
  (count (pruns fwd init l) <= limit (pruns fwd init l))%N.
Proof. destruct (prog_refines fwd l) as [-> _]. apply cap_inv_partial. Qed.

(* ---- the renter's view: a checker that knows only what was sent and what came back *)
Definition spec := list (N * entry).     (* key -> entry of the last update seen accepted *)

Definition is_nil {A} (l : list A) : bool := match l with [] => true | _ => false end.
Definition is_none {A} (o : option A) : bool := match o with None => true | _ => false end.
Definition ver_ok (ver : N) : bool := ((ver =? 1) || (ver =? 2))%N.

(* the responses [rs] to the first instructions of [b], judged against [m]; returns the
   verdict and the spec after the program *)
Fixpoint view_body (fwd : bool) (c : N) (m : spec) (rem : N) (b : list instr) (rs : list ires) : bool * spec :=
  match b, rs with
  | _, [] => (true, m)
  | [], _ :: _ => (false, m)
  | i :: b', r :: rs' =>
      match i, r with
      | ISkip, RSkipped => view_body fwd c m rem b' rs'
      | IFail, RError out => (is_nil rs' && is_none out, m)
      (* a lookup of the stored entry that fails: an error without output, the program ends,
         nothing is accepted *)
      | IUpdateF _ _ _, RError out => (is_nil rs' && is_none out, m)
      | IReadF _ _, RError out => (is_nil rs' && is_none out, m)
      | IRead k ver, RValue rv vd ty =>
          (* a read returns the entry of the last accepted update of its key *)
          match alookup k m with
          | Some e =>
              if ((rv =? rev e) && (vd =? vid e))%N
                 && option_eqb N.eqb ty (if (ver =? 2)%N then Some (ety e) else None)
                 && ver_ok ver && (c <=? rem)%N
              then view_body fwd c m (rem - c)%N b' rs' else (false, m)
          | None => (false, m)
          end
      | IRead k ver, RError out =>
          (* and fails only when the version is unsupported, the budget is exhausted, or no
             update of the key was ever accepted; the program ends *)
          (is_nil rs' && is_none out && (negb (ver_ok ver) || (rem <? c)%N || is_none (alookup k m)), m)
      | IUpdate k e valid tie, RAccepted =>
          (* accepted only if validly signed, paid, and new or superseding *)
          if valid && (c <=? rem)%N
             && match alookup k m with None => true | Some old => supersedes old e tie end
          then view_body fwd c (aset k e m) (rem - c)%N b' rs' else (false, m)
      | IUpdate k e valid tie, RError out =>
          (* refused: the program ends, the spec is unchanged; with [fwd] the stored entry
             comes back with the error (for a valid, paid update of a stored key) *)
          (is_nil rs' &&
           (if fwd && valid && (c <=? rem)%N
            then option_eqb N.eqb out (option_map vid (alookup k m))
            else is_none out), m)
      | _, _ => (false, m)
      end
  end.

Fixpoint view_ok (fwd : bool) (m : spec) (t : list (pop * pobs)) : bool :=
  match t with
  | [] => true
  | (Base (Put k e _ _ _), PBase (OPut true _)) :: t' => view_ok fwd (aset k e m) t'
  | (Base (Get k), PBase (OGet v)) :: t' => option_eqb entry_eqb v (alookup k m) && view_ok fwd m t'
  | (Base _, PBase _) :: t' => view_ok fwd m t'
  | (Run p, PRun false rs d) :: t' =>
      is_nil rs && negb d && (budget p <? initc p)%N && view_ok fwd m t'
  | (Run p, PRun true rs d) :: t' =>
      let '(ok, m') := view_body fwd (icost p) m (budget p - initc p)%N (body p) rs in
      (initc p <=? budget p)%N && ok && (negb d || fin p) && view_ok fwd m' t'
  | _ => false
  end.

Definition agree (m : spec) (s : state) : Prop := forall k, alookup k m = alookup k (entries s).

Lemma entry_eqb_refl e : entry_eqb e e = true.
Proof. unfold entry_eqb; now rewrite !N.eqb_refl. Qed.

Lemma opt_entry_eqb_refl v : option_eqb entry_eqb v v = true.
Proof. destruct v; cbn; [apply entry_eqb_refl|reflexivity]. Qed.

Lemma opt_N_eqb_refl v : option_eqb N.eqb v v = true.
Proof. destruct v; cbn; [apply N.eqb_refl|reflexivity]. Qed.

Lemma agree_write m s k e exp dm : agree m s -> agree (aset k e m) (write s k e exp dm).
Proof.
  intros A k'; unfold write; cbn.
  destruct (N.eq_dec k' k) as [->|Hne].
  - now rewrite !alookup_aset_same.
  - rewrite !alookup_aset_other by exact Hne. apply A.
Qed.

Lemma agree_add_r m s : agree m s -> agree m (add_r s).
Proof. intros A k; apply A. Qed.
Lemma agree_add_w m s : agree m s -> agree m (add_w s).
Proof. intros A k; apply A. Qed.

Lemma ltb_false_leb a b : (a <? b)%N = false -> (b <=? a)%N = true.
Proof. intros H; apply N.ltb_ge in H; now apply N.leb_le. Qed.

(* one program of the model always passes the renter's checker, and the spec follows the state *)
Lemma view_body_exec fwd exp c b : forall s rem m,
  agree m s ->
  exists m', view_body fwd c m rem b (snd (fst (fst (exec fwd exp c s rem b)))) = (true, m')
             /\ agree m' (fst (fst (fst (exec fwd exp c s rem b)))).
Proof.
  induction b as [|i t IH]; intros s rem m A; [exists m; split; [reflexivity|exact A]|].
  cbn [exec].
  destruct i as [k e valid tie|k ver| | |k e valid|k ver].
  - (* IUpdate *)
    cbn [istep]. destruct (rem <? c)%N eqn:P.
    { cbn. exists m; split; [|exact A].
      apply N.ltb_lt in P. assert (Q : (c <=? rem)%N = false) by (apply N.leb_gt; exact P).
      rewrite Q, !Bool.andb_false_r. reflexivity. }
    apply ltb_false_leb in P.
    cbn [step]. destruct valid; cbn [negb].
    2:{ cbn. exists m; split; [|exact A]. rewrite Bool.andb_false_r; reflexivity. }
    destruct (alookup k (entries s)) as [old|] eqn:L.
    + destruct (supersedes old e tie) eqn:S.
      * specialize (IH (add_w (write s k e exp 0)) (rem - c)%N (aset k e m) (agree_add_w _ _ (agree_write m s k e exp 0 A))).
        destruct (exec fwd exp c (add_w (write s k e exp 0)) (rem - c)%N t) as [[[s2 rs] ok2] lg2]; cbn [fst snd] in *.
        destruct IH as (m' & V & A'). exists m'; split; [|exact A'].
        cbn [view_body]. rewrite P, (A k), L, S. cbn [andb]. exact V.
      * cbn. exists m; split; [|exact A].
        rewrite P, (A k), L. cbn. destruct fwd; cbn; [now rewrite N.eqb_refl|reflexivity].
    + destruct (limit s <=? count s)%N.
      * cbn. exists m; split; [|exact A].
        rewrite P, (A k), L. cbn. destruct fwd; reflexivity.
      * specialize (IH (write s k e exp 1) (rem - c)%N (aset k e m) (agree_write m s k e exp 1 A)).
        destruct (exec fwd exp c (write s k e exp 1) (rem - c)%N t) as [[[s2 rs] ok2] lg2]; cbn [fst snd] in *.
        destruct IH as (m' & V & A'). exists m'; split; [|exact A'].
        cbn [view_body]. rewrite P, (A k), L. cbn [andb]. exact V.
  - (* IRead *)
    cbn [istep]. fold (ver_ok ver). destruct (ver_ok ver) eqn:Vk; cbn [negb].
    2:{ cbn. exists m; split; [|exact A]. rewrite Vk; reflexivity. }
    destruct (rem <? c)%N eqn:P.
    { cbn. exists m; split; [|exact A]. rewrite Vk, P; reflexivity. }
    cbn [step]. destruct (alookup k (entries s)) as [e|] eqn:L.
    + specialize (IH (add_r s) (rem - c)%N m (agree_add_r _ _ A)).
      destruct (exec fwd exp c (add_r s) (rem - c)%N t) as [[[s2 rs] ok2] lg2]; cbn [fst snd] in *.
      destruct IH as (m' & V & A'). exists m'; split; [|exact A'].
      cbn [view_body]. rewrite (A k), L, !N.eqb_refl, opt_N_eqb_refl, Vk, (ltb_false_leb _ _ P).
      cbn [andb]. exact V.
    + cbn. exists m; split; [|exact A].
      rewrite Vk, P, (A k), L. reflexivity.
  - (* IFail *)
    cbn. exists m; split; [reflexivity|exact A].
  - (* ISkip *)
    cbn [istep]. specialize (IH s rem m A).
    destruct (exec fwd exp c s rem t) as [[[s2 rs] ok2] lg2]; cbn [fst snd] in *.
    exact IH.
  - (* IUpdateF *)
    cbn [istep]. destruct (rem <? c)%N; [cbn; exists m; split; [reflexivity|exact A]|].
    pose proof (put_fault_changes_nothing s k e valid FLookup) as [E _].
    destruct (step s (PutF k e valid FLookup)) as [s' o]; cbn [fst] in E; subst s'.
    cbn. exists m; split; [reflexivity|exact A].
  - (* IReadF *)
    cbn [istep]. destruct (negb ((ver =? 1) || (ver =? 2))%N); [cbn; exists m; split; [reflexivity|exact A]|].
    destruct (rem <? c)%N; cbn; exists m; split; try reflexivity; exact A.
Qed.

Lemma view_ok_from fwd l : forall s m, agree m s -> view_ok fwd m (ptrace fwd s l) = true.
Proof.
  induction l as [|o t IH]; intros s m A; [reflexivity|].
  cbn [ptrace]. unfold pstep. destruct o as [b|p]; cbn [pstep_log].
  - destruct b as [n|k e exp valid tie|k| |h|k|fok| |k e vf f|k| ].
    + cbn. apply IH. exact A.
    + cbn [step]. destruct valid; cbn [negb fst]; [|cbn; apply IH; exact A].
      destruct (alookup k (entries s)) as [old|].
      * destruct (supersedes old e tie); cbn; apply IH; [apply agree_add_w, agree_write|]; exact A.
      * destruct (limit s <=? count s)%N; cbn; apply IH; [|apply agree_write]; exact A.
    + cbn [step]. destruct (alookup k (entries s)) as [e|] eqn:L; cbn.
      * rewrite (A k), L; cbn. rewrite entry_eqb_refl. apply IH, agree_add_r, A.
      * rewrite (A k), L; cbn. apply IH, A.
    + cbn. apply IH. exact A.
    + cbn. apply IH. exact A.
    + cbn. apply IH. exact A.
    + cbn. apply IH. intros k; apply A.
    + cbn. apply IH. exact A.
    + pose proof (put_fault_changes_nothing s k e vf f) as [E [r R]].
      destruct (step s (PutF k e vf f)) as [s' o]; cbn [fst snd] in *; subst s' o.
      cbn. apply IH. exact A.
    + cbn. apply IH. exact A.
    + cbn. apply IH. exact A.
  - destruct (budget p <? initc p)%N eqn:B.
    + cbn. rewrite B. apply IH. exact A.
    + destruct (view_body_exec fwd (expiry_of p) (icost p) (body p) s (budget p - initc p)%N m A) as (m' & V & A').
      destruct (exec fwd (expiry_of p) (icost p) s (budget p - initc p)%N (body p)) as [[[s' rs] ok] lg].
      cbn [fst snd] in *. cbn [view_ok]. rewrite V, (ltb_false_leb _ _ B). cbn [andb].
      rewrite (IH s' m' A'), Bool.andb_true_r.
      destruct ok, (fin p); reflexivity.
Qed.

Lemma renter_view_ok fwd l : view_ok fwd [] (ptrace fwd init l) = true.
Proof. apply view_ok_from. intros k; reflexivity. Qed.

(* ---- what happens to the writes of a program that fails *)
Definition st_of (r : state * list ires * bool * list (op * obs)) : state := fst (fst (fst r)).

(* an instruction that fails leaves the registry as it was *)
Lemma failing_instr_no_effect fwd exp c s rem i s1 rem1 r lg :
  istep fwd exp c s rem i = (s1, rem1, r, false, lg) -> s1 = s.
Proof.
  destruct i as [k e valid tie|k ver| | |k e valid|k ver]; cbn [istep].
  - destruct (rem <? c)%N; [intros H; now inversion H|].
    cbn [step]. destruct valid; cbn [negb]; [|intros H; now inversion H].
    destruct (alookup k (entries s)) as [old|].
    + destruct (supersedes old e tie); intros H; now inversion H.
    + destruct (limit s <=? count s)%N; intros H; now inversion H.
  - destruct (negb ((ver =? 1) || (ver =? 2))%N); [intros H; now inversion H|].
    destruct (rem <? c)%N; [intros H; now inversion H|].
    cbn [step]. destruct (alookup k (entries s)); intros H; now inversion H.
  - intros H; now inversion H.
  - intros H; inversion H.
  - destruct (rem <? c)%N; [intros H; now inversion H|].
    pose proof (put_fault_changes_nothing s k e valid FLookup) as [E _].
    destruct (step s (PutF k e valid FLookup)) as [s' o]; cbn [fst] in E; subst s'.
    intros H; now inversion H.
  - destruct (negb ((ver =? 1) || (ver =? 2))%N); [intros H; now inversion H|].
    destruct (rem <? c)%N; intros H; now inversion H.
Qed.

(* nothing is rolled back: the registry after a program whose instruction fails is the
   registry after the instructions before it, whatever follows the failing one *)
Lemma writes_survive_later_failure fwd exp c b1 b2 : forall s rem,
  st_of (exec fwd exp c s rem (b1 ++ IFail :: b2)) = st_of (exec fwd exp c s rem b1).
Proof.
  induction b1 as [|i t IH]; intros s rem; [reflexivity|].
  cbn [app exec].
  destruct (istep fwd exp c s rem i) as [[[[s1 rem1] r] ok] lg].
  destruct ok; [|reflexivity].
  specialize (IH s1 rem1). unfold st_of in *.
  destruct (exec fwd exp c s1 rem1 (t ++ IFail :: b2)) as [[[sa rsa] oka] lga].
  destruct (exec fwd exp c s1 rem1 t) as [[[sb rsb] okb] lgb]. exact IH.
Qed.

Definition with_fin (p : program) (f : bool) : program :=
  {| hbh := hbh p; budget := budget p; initc := initc p; icost := icost p; body := body p; fin := f |}.

(* nor does the outcome of the program's end (commit / finalisation) matter *)
Lemma writes_survive_failed_end fwd s p f :
  fst (pstep fwd s (Run (with_fin p f))) = fst (pstep fwd s (Run p)).
Proof.
  destruct p as [h bu ic c b fn]. unfold pstep, with_fin; cbn. unfold expiry_of; cbn [hbh].
  destruct (bu <? ic)%N; [reflexivity|].
  destruct (exec fwd (wadd h blocks_per_year) c s (bu - ic)%N b) as [[[s' rs] ok] lg].
  reflexivity.
Qed.

(* an accepted update instruction is visible to a read that follows a failure of its program *)
Lemma accepted_update_survives fwd s p b1 k e tie b2 f s' :
  (initc p <=? budget p)%N = true ->
  body p = b1 ++ IUpdate k e true tie :: IFail :: b2 ->
  nth_error (snd (fst (fst (exec fwd (expiry_of p) (icost p) s (budget p - initc p)%N (body p))))) (length b1)
    = Some RAccepted ->
  s' = fst (pstep fwd s (Run (with_fin p f))) ->
  alookup k (entries s') = Some e.
Proof.
  intros B Hb Hn ->. rewrite writes_survive_failed_end.
  unfold pstep; cbn [pstep_log]. apply N.leb_le in B.
  assert (B' : (budget p <? initc p)%N = false) by (apply N.ltb_ge; exact B). rewrite B'.
  rewrite Hb in *. clear Hb B B'.
  generalize dependent (budget p - initc p)%N. generalize (expiry_of p) (icost p). revert s.
  induction b1 as [|i t IH]; intros s exp c rem Hn.
  - cbn [app exec length] in *.
    destruct (istep fwd exp c s rem (IUpdate k e true tie)) as [[[[s1 rem1] r] ok] lg] eqn:E.
    cbn [istep] in E. destruct (rem <? c)%N.
    { inversion E; subst. cbn in Hn. discriminate. }
    cbn [step negb] in E.
    destruct (alookup k (entries s)) as [old|].
    + destruct (supersedes old e tie); inversion E; subst; cbn in *; [apply alookup_aset_same|discriminate].
    + destruct (limit s <=? count s)%N; inversion E; subst; cbn in *; [discriminate|apply alookup_aset_same].
  - cbn [app exec length] in *.
    destruct (istep fwd exp c s rem i) as [[[[s1 rem1] r] ok] lg].
    destruct ok.
    + specialize (IH s1 exp c rem1).
      destruct (exec fwd exp c s1 rem1 (t ++ IUpdate k e true tie :: IFail :: b2)) as [[[sa rsa] oka] lga].
      cbn [fst snd nth_error] in *. apply IH. exact Hn.
    + cbn [fst snd nth_error] in Hn. destruct (length t); discriminate.
Qed.

(* ---- expiry through programs: every update instruction passes the price table's height
   plus one year, computed in uint64 *)
Definition exp_is (x : N) (y : op * obs) : Prop :=
  match fst y with Put _ _ exp _ _ => exp = x | _ => True end.

Lemma istep_expiry fwd exp c s rem i :
  Forall (exp_is exp) (snd (istep fwd exp c s rem i)).
Proof.
  destruct i as [k e valid tie|k ver| | |k e valid|k ver]; cbn [istep]; try (constructor).
  - destruct (rem <? c)%N; [constructor|].
    destruct (step s (Put k e exp valid tie)) as [s' o].
    destruct o as [|[|] r| | | | |]; repeat constructor.
  - destruct (negb ((ver =? 1) || (ver =? 2))%N); [constructor|].
    destruct (rem <? c)%N; [constructor|].
    destruct (step s (Get k)) as [s' o].
    destruct o as [| |[e|]| | | |]; repeat constructor.
  - destruct (rem <? c)%N; [constructor|].
    destruct (step s (PutF k e valid FLookup)) as [s' o]. repeat constructor.
  - destruct (negb ((ver =? 1) || (ver =? 2))%N); [constructor|].
    destruct (rem <? c)%N; [constructor|].
    destruct (step s (GetF k)) as [s' o]. repeat constructor.
Qed.

Lemma exec_expiry fwd exp c b : forall s rem,
  Forall (exp_is exp) (snd (exec fwd exp c s rem b)).
Proof.
  induction b as [|i t IH]; intros s rem; cbn [exec]; [constructor|].
  pose proof (istep_expiry fwd exp c s rem i) as G.
  destruct (istep fwd exp c s rem i) as [[[[s1 rem1] r] ok] lg]; cbn [snd] in G.
  destruct ok; [|exact G].
  specialize (IH s1 rem1).
  destruct (exec fwd exp c s1 rem1 t) as [[[s2 rs] ok2] lg2]; cbn [snd] in *.
  apply Forall_app; split; assumption.
Qed.

Lemma program_expiry fwd s p :
  Forall (exp_is (wadd (hbh p) 52560)) (snd (pstep_log fwd s (Run p))).
Proof.
  cbn [pstep_log]. destruct (budget p <? initc p)%N; [constructor|].
  pose proof (exec_expiry fwd (expiry_of p) (icost p) (body p) s (budget p - initc p)%N) as G.
  destruct (exec fwd (expiry_of p) (icost p) s (budget p - initc p)%N (body p)) as [[[s' rs] ok] lg].
  exact G.
Qed.

(* ---- the refused update at HEAD: the stored entry does not reach the renter *)
Definition pe1 : entry := {| rev := 1; ety := 0; vid := 7 |}.
Definition prog_upd : program :=
  {| hbh := 10; budget := 100; initc := 1; icost := 3; body := [IUpdate 5 pe1 true false]; fin := true |}.
Definition refused_witness : list pop := [Base (SetLimit 1); Run prog_upd; Run prog_upd].

Lemma refused_update_head_refuted :
  exists l, view_ok true [] (ptrace false init l) = false.
Proof. exists refused_witness. vm_compute. reflexivity. Qed.

Lemma refused_witness_patched :
  ptrace true init refused_witness =
  [(Base (SetLimit 1), PBase ODone); (Run prog_upd, PRun true [RAccepted] true);
   (Run prog_upd, PRun true [RError (Some 7%N)] false)].
Proof. vm_compute. reflexivity. Qed.

(* non-vacuity: a program whose update is accepted and which then fails; a later program reads it *)
Definition prog_fail_later : program :=
  {| hbh := 10; budget := 100; initc := 1; icost := 3;
     body := [IUpdate 5 pe1 true false; IFail; IUpdate 6 pe1 true false]; fin := false |}.
Definition prog_read : program :=
  {| hbh := 11; budget := 100; initc := 1; icost := 3; body := [IRead 5 2; IRead 5 1; IRead 6 1]; fin := true |}.

Lemma prog_witness :
  ptrace false init [Base (SetLimit 2); Run prog_fail_later; Run prog_read; Base (Exp 5); Base Info] =
  [(Base (SetLimit 2), PBase ODone);
   (Run prog_fail_later, PRun true [RAccepted; RError None] false);
   (Run prog_read, PRun true [RValue 1 7 (Some 0%N); RValue 1 7 None; RError None] false);
   (Base (Exp 5), PBase (OExp (Some 52570%N)));
   (Base Info, PBase (OInfo 1 2 1))].
Proof. vm_compute. reflexivity. Qed.
