(* C20 under concurrent callers of registry.Manager (host/registry/registry.go: the mutex).
   Statements only.  Conc.v models Put and Get as their steps — Lock | validate + GetRegistryValue |
   validate update + SetRegistryValue (which selects the key again) | Unlock — next to callers that
   never take the mutex (Entries, the operator's UpdateSettings: one SQL transaction each). *)
From HostdBase Require Import Base.
From HostdRegistry Require Import Model Proofs Conc.

(* Linearisability for n writers: any number of threads (thread i performs ops i), any schedule.
   The threads that have returned are exactly the entries of [lin] (each once, with its own
   operation and the result it returned); [lin] is a run of the sequential model — each
   operation applied to the state left by the ones before it, core's tie-break evaluated
   against the entry stored at that moment — and the registry is in that run's final state. *)
Theorem c20_conc_linearisable : forall (ops : nat -> top) (s0 : state) (sch : list nat),
  let g := crun true ops (cinit s0) sch in
  lin_obs (lin g) = ttrace s0 (lin_tops (lin g)) /\
  st g = truns s0 (lin_tops (lin g)) /\
  NoDup (map (fun x => fst (fst x)) (lin g)) /\
  (forall i r, thr g i = Done r <-> In (i, ops i, r) (lin g)) /\
  (forall i t r, In (i, t, r) (lin g) -> t = ops i).
Proof. exact linearisable. Qed.
Print Assumptions c20_conc_linearisable.

(* at most one thread is between Lock and Unlock *)
Theorem c20_conc_mutual_exclusion : forall (ops : nat -> top) (s0 : state) (sch : list nat) i j,
  let g := crun true ops (cinit s0) sch in
  holds (thr g i) = true -> holds (thr g j) = true -> i = j.
Proof. exact mutual_exclusion. Qed.
Print Assumptions c20_conc_mutual_exclusion.

(* the sequential run is one of Model.step, so e.g. count = metric under any schedule *)
Theorem c20_conc_sequential_run_is_model_run : forall l s,
  exists lo, truns s l = runs s lo /\ map snd (ttrace s l) = map snd (trace s lo).
Proof. exact truns_is_runs. Qed.
Print Assumptions c20_conc_sequential_run_is_model_run.

Theorem c20_conc_count_is_metric : forall (ops : nat -> top) (sch : list nat),
  let g := crun true ops (cinit init) sch in metric (st g) = Z.of_N (count (st g)).
Proof. exact conc_count_is_metric. Qed.
Print Assumptions c20_conc_count_is_metric.

(* The mutex is what makes it so.  The same steps without it: three Puts on one key, revision 3
   written between the read and the write of the Put with revision 2 — both answered "accepted",
   revision 2 stored: the accepted higher revision is lost (no sequential order gives that). *)
Theorem c20_conc_without_mutex_refuted :
  let g := crun false race_ops (cinit init) race_sched in
  alookup 1 (entries (st g)) = Some (ce 2 2) /\
  thr g 3%nat = Done (OPut true (Some (ce 3 3))) /\ thr g 2%nat = Done (OPut true (Some (ce 2 2))).
Proof. exact unlocked_race. Qed.
Print Assumptions c20_conc_without_mutex_refuted.

(* non-vacuity: under the mutex the same schedule leaves thread 3 waiting at Lock *)
Example c20_conc_nonvacuous :
  let g := crun true race_ops (cinit init) race_sched in
  alookup 1 (entries (st g)) = Some (ce 2 2) /\ thr g 3%nat = Idle.
Proof. exact locked_race_blocks. Qed.
