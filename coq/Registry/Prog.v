(* Registry/Prog.v — the registry as a renter reaches it: rhp/v3/execute.go
   (executeReadRegistry, executeUpdateRegistry, executeProgram, Execute/commit/rollback) and
   the part of rhp/v3/rpc.go handleRPCExecute that decides whether a program starts, as a
   layer over Model.v.  No proofs here.

   What the code does, line by line:
   - handleRPCExecute: budget.Spend(pt.BaseCost) — a program whose budget does not cover the
     init cost gets an error before any instruction runs.
   - executeProgram runs the instructions in order; the first one that returns an error ends
     the program: `outputs <- pe.instructionOutput(nil, nil, err)`.  The output slice that the
     instruction returned together with the error is NOT passed on at HEAD 8fe98f6 ([fwd] =
     false); fixes/C20-rhp3-refused-update-returns-stored-entry.patch passes it on ([fwd] = true).
   - executeUpdateRegistry: operands from the program data (failure before payment = [IFail]),
     payForExecution(ReadRegistryCost) — sic, the read cost — then
     registry.Put(entry, pt.HostBlockHeight + 144*365) (uint64 addition).  On the error text
     "invalid registry update" it returns signature ++ data of the stored value with the error;
     any other error has no output; success has no output.
   - executeReadRegistry: version must be 1 or 2 (InstrReadRegistryNoVersion is version 1),
     operands, payForExecution(ReadRegistryCost), registry.Get; not found = error (the program
     ends); output signature ++ revision ++ data (++ type for version 2).
   - Execute: after the last instruction pe.commit (sync, finalisation exchange when an
     instruction needs it, budget commit); on any failure pe.rollback refunds storage spending.
     Neither touches the registry: Manager.Put has already committed its own SQL transaction
     when the instruction returns, and nothing undoes it.  [fin] records whether the end of the
     program succeeded; the model's state does not depend on it. *)
From HostdBase Require Import Base.
From HostdRegistry Require Import Model.

Inductive instr :=
  (* update whose operands decode to key k and entry e (type from the instruction;
     InstrUpdateRegistryNoType = arbitrary); valid/tie as in Model.Put *)
| IUpdate (k : N) (e : entry) (valid tie : bool)
  (* read of key k with the effective version *)
| IRead (k : N) (ver : N)
  (* an instruction that fails before payment and before the registry: operand outside the
     program data, unsupported key algorithm or length; or any other kind of instruction
     that fails *)
| IFail
  (* any other kind of instruction that succeeds *)
| ISkip
  (* update / read during which the manager's store.GetRegistryValue fails with an error other
     than "not found" (Model.PutF _ _ _ FLookup / Model.GetF) *)
| IUpdateF (k : N) (e : entry) (valid : bool)
| IReadF (k : N) (ver : N).

Record program := {
  hbh : N;        (* HostBlockHeight of the price table the renter named *)
  budget : N;     (* amount paid into the program's budget *)
  initc : N;      (* pt.BaseCost().Total() *)
  icost : N;      (* pt.ReadRegistryCost() total: charged for reads AND updates *)
  body : list instr;
  fin : bool      (* the end of the program (commit / finalisation) succeeds *)
}.

Definition with_body (p : program) (b : list instr) : program :=
  {| hbh := hbh p; budget := budget p; initc := initc p; icost := icost p; body := b; fin := fin p |}.

(* what the renter reads from one RPCExecuteProgramResponse *)
Inductive ires :=
| RAccepted                                   (* update: no error, empty output *)
| RValue (rv vd : N) (ty : option N)          (* read: revision, (data, signature) id, type iff version 2 *)
| RSkipped                                    (* another instruction succeeded *)
| RError (out : option N).                    (* error; the (data, signature) id sent with it, if any *)

Definition blocks_per_year : N := 52560.       (* 144 * 365 *)
Definition expiry_of (p : program) : N := wadd (hbh p) blocks_per_year.

(* one instruction: new state, remaining budget, response, continue?, registry calls made *)
Definition istep (fwd : bool) (exp c : N) (s : state) (rem : N) (i : instr)
  : state * N * ires * bool * list (op * obs) :=
  match i with
  | ISkip => (s, rem, RSkipped, true, [])
  | IFail => (s, rem, RError None, false, [])
  | IRead k ver =>
      if negb ((ver =? 1) || (ver =? 2))%N then (s, rem, RError None, false, [])
      else if (rem <? c)%N then (s, rem, RError None, false, [])
      else let '(s', o) := step s (Get k) in
           match o with
           | OGet (Some e) =>
               (s', (rem - c)%N, RValue (rev e) (vid e) (if (ver =? 2)%N then Some (ety e) else None),
                true, [(Get k, o)])
           | _ => (s', (rem - c)%N, RError None, false, [(Get k, o)])
           end
  | IUpdateF k e valid =>
      if (rem <? c)%N then (s, rem, RError None, false, [])
      else let '(s', o) := step s (PutF k e valid FLookup) in
           (s', (rem - c)%N, RError None, false, [(PutF k e valid FLookup, o)])
  | IReadF k ver =>
      if negb ((ver =? 1) || (ver =? 2))%N then (s, rem, RError None, false, [])
      else if (rem <? c)%N then (s, rem, RError None, false, [])
      else let '(s', o) := step s (GetF k) in
           (s', (rem - c)%N, RError None, false, [(GetF k, o)])
  | IUpdate k e valid tie =>
      if (rem <? c)%N then (s, rem, RError None, false, [])
      else let '(s', o) := step s (Put k e exp valid tie) in
           match o with
           | OPut true _ => (s', (rem - c)%N, RAccepted, true, [(Put k e exp valid tie, o)])
           | _ =>
               (* Put's "invalid registry update": a valid entry that does not supersede the
                  stored one; the stored signature and data travel with the error iff [fwd] *)
               let out := if fwd && valid
                          then match alookup k (entries s) with Some old => Some (vid old) | None => None end
                          else None in
               (s', (rem - c)%N, RError out, false, [(Put k e exp valid tie, o)])
           end
  end.

Fixpoint exec (fwd : bool) (exp c : N) (s : state) (rem : N) (b : list instr)
  : state * list ires * bool * list (op * obs) :=
  match b with
  | [] => (s, [], true, [])
  | i :: t =>
      let '(s1, rem1, r, ok, lg) := istep fwd exp c s rem i in
      if ok then let '(s2, rs, ok2, lg2) := exec fwd exp c s1 rem1 t in (s2, r :: rs, ok2, lg ++ lg2)
      else (s1, [r], false, lg)
  end.

Inductive pop := Base (o : op) | Run (p : program).
Inductive pobs :=
| PBase (o : obs)
  (* started: the init cost was paid; rs: one response per executed instruction, the last one an
     error iff the program failed; done: every instruction succeeded and so did the end *)
| PRun (started : bool) (rs : list ires) (done : bool).

Definition pstep_log (fwd : bool) (s : state) (o : pop) : state * pobs * list (op * obs) :=
  match o with
  | Base b => let '(s', m) := step s b in (s', PBase m, [(b, m)])
  | Run p =>
      if (budget p <? initc p)%N then (s, PRun false [] false, [])
      else let '(s', rs, ok, lg) := exec fwd (expiry_of p) (icost p) s (budget p - initc p)%N (body p) in
           (s', PRun true rs (ok && fin p), lg)
  end.

Definition pstep (fwd : bool) (s : state) (o : pop) : state * pobs := fst (pstep_log fwd s o).

Definition ires_eqb (a b : ires) : bool :=
  match a, b with
  | RAccepted, RAccepted => true
  | RSkipped, RSkipped => true
  | RValue r v t, RValue r' v' t' => ((r =? r') && (v =? v'))%N && option_eqb N.eqb t t'
  | RError o, RError o' => option_eqb N.eqb o o'
  | _, _ => false
  end.

Definition pobs_eqb (a b : pobs) : bool :=
  match a, b with
  | PBase x, PBase y => obs_eqb x y
  | PRun st rs d, PRun st' rs' d' => Bool.eqb st st' && list_eqb ires_eqb rs rs' && Bool.eqb d d'
  | _, _ => false
  end.

Definition pcase := (N * list (pop * pobs))%type.
(* the code as it is at HEAD 8fe98f6: the output of a failing instruction is dropped *)
Definition pcheck_head (cs : list pcase) := mismatches init (pstep false) pobs_eqb cs.
(* the code with fixes/C20-rhp3-refused-update-returns-stored-entry.patch *)
Definition pcheck (cs : list pcase) := mismatches init (pstep true) pobs_eqb cs.
