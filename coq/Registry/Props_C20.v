(* C20 — Registry: last valid write wins and capacity is enforced.
   Statements only; every proof is [exact lemma]. *)
From HostdBase Require Import Base.
From HostdRegistry Require Import Model Proofs.

(* A read after any history returns the entry of the last accepted update for the key. *)
Theorem c20_read_last_accepted : forall (l : list op) (k : N),
  snd (step (runs init l) (Get k)) = OGet (last_accepted k None (trace init l)).
Proof. exact get_returns_last_accepted. Qed.
Print Assumptions c20_read_last_accepted.

(* An update is accepted only if validly signed and (new key with room | supersedes the
   stored entry); it then replaces exactly that key. *)
Theorem c20_put_accept_only_if : forall s k e exp valid tie s' r,
  step s (Put k e exp valid tie) = (s', OPut true r) ->
  valid = true /\ r = Some e /\
  (  (alookup k (entries s) = None /\ (count s < limit s)%N)
  \/ (exists old, alookup k (entries s) = Some old /\ supersedes old e tie = true)) /\
  alookup k (entries s') = Some e /\
  (forall k', k' <> k -> alookup k' (entries s') = alookup k' (entries s)) /\
  limit s' = limit s.
Proof. exact put_accept_only_if. Qed.
Print Assumptions c20_put_accept_only_if.

Theorem c20_put_accept_if : forall s k e exp tie,
  (  (alookup k (entries s) = None /\ (count s < limit s)%N)
  \/ (exists old, alookup k (entries s) = Some old /\ supersedes old e tie = true)) ->
  snd (step s (Put k e exp true tie)) = OPut true (Some e).
Proof. exact put_accept_if. Qed.
Print Assumptions c20_put_accept_if.

(* Otherwise the state is unchanged and the stored entry is returned with the error. *)
Theorem c20_put_reject_unchanged : forall s k e exp valid tie s' r,
  step s (Put k e exp valid tie) = (s', OPut false r) ->
  s' = s /\ (valid = true -> forall old, alookup k (entries s) = Some old -> r = Some old).
Proof. exact put_reject_unchanged. Qed.
Print Assumptions c20_put_reject_unchanged.

(* The number of entries always equals the metric. *)
Theorem c20_count_is_metric : forall l, metric (runs init l) = Z.of_N (count (runs init l)).
Proof. exact metric_inv. Qed.
Print Assumptions c20_count_is_metric.

(* Capacity.  Full statement: forall l, count (runs init l) <= limit (runs init l).
   It is FALSE of the faithful model (c20_capacity_refuted); what holds is the bound for
   every history in which the operator does not lower the limit below the count, and
   that the count never grows without room. *)
Theorem c20_capacity_partial : forall l,
  never_lowers init l = true -> (count (runs init l) <= limit (runs init l))%N.
Proof. exact cap_inv_partial. Qed.
Print Assumptions c20_capacity_partial.

Theorem c20_insert_respects_limit : forall s o,
  (count s < count (fst (step s o)))%N -> (count s < limit s)%N.
Proof. exact insert_respects_limit. Qed.
Print Assumptions c20_insert_respects_limit.

Theorem c20_capacity_refuted : exists l, ~ (count (runs init l) <= limit (runs init l))%N.
Proof. exact cap_inv_refuted. Qed.
Print Assumptions c20_capacity_refuted.

(* Expiry.  The model carries what the code has: the expiration_height column ([exps]) and the
   store's processed tip ([tip]); no operation reads either.  (a) Dropping every [Tip] from a
   history changes no other observation and nothing of the final state but the tip itself.
   (b) The stored expiration height of a key is the one passed with its last accepted update.
   (c) An entry whose expiration height lies below the tip is still served (and, by
   c20_count_is_metric / c20_read_last_accepted which quantify over histories with Tip
   operations, still counted): the host never expires a registry entry. *)
Theorem c20_chain_tip_is_irrelevant : forall (l : list op),
  eq_but_tip (runs init (filter (fun o => negb (is_tip o)) l)) (runs init l) /\
  trace init (filter (fun o => negb (is_tip o)) l) = filter (fun x => negb (is_tip (fst x))) (trace init l).
Proof. exact without_tips. Qed.
Print Assumptions c20_chain_tip_is_irrelevant.

Theorem c20_expiration_height_is_last_accepted : forall (l : list op) (k : N),
  snd (step (runs init l) (Exp k)) = OExp (last_accepted_exp k None (trace init l)).
Proof. exact exp_last_accepted. Qed.
Print Assumptions c20_expiration_height_is_last_accepted.

Theorem c20_expired_entry_is_served : forall (l : list op) (k : N),
  expired (runs init l) k ->
  exists e, snd (step (runs init l) (Get k)) = OGet (Some e) /\
            last_accepted k None (trace init l) = Some e.
Proof. exact expired_entry_is_served. Qed.
Print Assumptions c20_expired_entry_is_served.

(* Failing store calls.  Manager.Put while store.GetRegistryValue fails with an error other than
   "not found" (or while store.SetRegistryValue fails) is refused and changes nothing — in
   particular a failed lookup is NOT "key not stored" (seeded C20-mut9); with
   c20_read_last_accepted, which quantifies over histories containing such operations, a read still
   returns the last accepted update.  A write fault on a stored key hands the stored entry back.
   A history with failing Put / Get / Entries calls is the same history without them. *)
Theorem c20_put_lookup_fault_changes_nothing : forall s k e valid f,
  fst (step s (PutF k e valid f)) = s /\
  exists r, snd (step s (PutF k e valid f)) = OPut false r.
Proof. exact put_fault_changes_nothing. Qed.
Print Assumptions c20_put_lookup_fault_changes_nothing.

Theorem c20_put_write_fault_returns_stored : forall s k e old,
  alookup k (entries s) = Some old -> snd (step s (PutF k e true FWrite)) = OPut false (Some old).
Proof. exact put_write_fault_returns_stored. Qed.
Print Assumptions c20_put_write_fault_returns_stored.

Theorem c20_store_faults_are_invisible : forall s l,
  runs s (filter (fun o => negb (is_fault o)) l) = runs s l /\
  trace s (filter (fun o => negb (is_fault o)) l) = filter (fun x => negb (is_fault (fst x))) (trace s l).
Proof. exact without_faults. Qed.
Print Assumptions c20_store_faults_are_invisible.

(* The access recorder.  Its flush (10 s timer, Manager.Close), successful or not, never changes
   the registry-entries metric, the count or anything else but the access counters (seeded
   C20-mut10 added the write count to registryEntries); a successful flush adds the pending counts
   to registryReads / registryWrites. *)
Theorem c20_flush_never_changes_entries_metric : forall l ok,
  let s := runs init l in
  let s' := fst (step s (Flush ok)) in
  metric s' = metric s /\ count s' = count s /\ metric s' = Z.of_N (count s').
Proof. exact flush_keeps_entries_metric. Qed.
Print Assumptions c20_flush_never_changes_entries_metric.

Theorem c20_flush_keeps_registry : forall s ok, eq_but_access (fst (step s (Flush ok))) s.
Proof. exact flush_keeps_registry. Qed.
Print Assumptions c20_flush_keeps_registry.

Theorem c20_flush_persists_pending_counts : forall s,
  let s' := fst (step s (Flush true)) in
  mreads s' = (mreads s + Z.of_N (pend_r s))%Z /\ mwrites s' = (mwrites s + Z.of_N (pend_w s))%Z /\
  pend_r s' = 0%N /\ pend_w s' = 0%N.
Proof. exact flush_persists_pending. Qed.
Print Assumptions c20_flush_persists_pending_counts.

(* non-vacuity: an accepted and a rejected update exist *)
Example c20_nonvacuous :
  snd (step (runs init [SetLimit 2; Put 1 e1 100 true false]) (Put 1 e1 100 true false))
    = OPut false (Some e1)
  /\ never_lowers init [SetLimit 2; Put 1 e1 100 true false; Put 2 e1 100 true false] = true.
Proof. vm_compute; split; reflexivity. Qed.

(* non-vacuity of the expiry statements: the tip beyond the entry's expiration height *)
Example c20_expired_nonvacuous :
  expired (runs init [SetLimit 1; Put 1 e1 100 true false; Tip 200]) 1 /\
  snd (step (runs init [SetLimit 1; Put 1 e1 100 true false; Tip 200]) Info) = OInfo 1 1 1.
Proof. exact expired_witness. Qed.

(* non-vacuity of the fault / flush statements: a stale update under a failing lookup is refused,
   the read still returns revision 1; after an update of the stored key and a flush the access
   counters are 1 / 1 and the entries metric is still the count *)
Example c20_fault_nonvacuous :
  trace init [SetLimit 1; Put 1 e1 100 true false; PutF 1 {| rev := 0; ety := 1; vid := 2 |} true FLookup;
              Get 1; Put 1 {| rev := 2; ety := 1; vid := 3 |} 100 true false; Flush true; Access; Info] =
  [(SetLimit 1, ODone); (Put 1 e1 100 true false, OPut true (Some e1));
   (PutF 1 {| rev := 0; ety := 1; vid := 2 |} true FLookup, OPut false None);
   (Get 1, OGet (Some e1));
   (Put 1 {| rev := 2; ety := 1; vid := 3 |} 100 true false, OPut true (Some {| rev := 2; ety := 1; vid := 3 |}));
   (Flush true, ODone); (Access, OAccess 1 1); (Info, OInfo 1 1 1)].
Proof. exact fault_witness. Qed.
