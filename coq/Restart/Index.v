(* Restart/Index.v — the processed chain tip, batch by batch.

     index/update.go    Manager.syncDB: UpdatesSince(tip, batch size) -> one transaction per
                        batch (wallet, contracts, settings UpdateChainState; tx.SetLastIndex) ->
                        m.index := the index the batch leaves -> ProcessActions
     index/manager.go   NewManager: m.index := Store.Tip()
     persist/sqlite/consensus.go   Store.Tip / updateTx.SetLastIndex (global_settings.last_scanned_index)

   A batch is what chain.Manager.UpdatesSince returned: blocks to revert (newest first), then
   blocks to apply (oldest first); it may revert only, apply only, or do both.  The harness
   numbers the blocks; a chain index is (level, block) with level = height + 1 and (0, 0) for
   "no block yet" (types.ChainIndex{}), so that a block's level is its parent's plus one even
   for the genesis block.  Every block of a batch is carried with its parent's index (for a
   reverted block that is the RevertUpdate's State.Index, the tip after the revert).

   What the tables hold (wallet events and elements, contract states, ...) is abstracted to the
   list of blocks whose effects they hold, newest first: applying a block adds it, reverting a
   block removes it (the SQL of a revert deletes / restores by block index, so reverting a block
   that is not there changes nothing).  No proofs here. *)
From HostdBase Require Import Base.
Set Implicit Arguments.

Definition cidx := (N * N)%type.               (* level (height + 1), block number *)
Definition none_idx : cidx := (0%N, 0%N).
Definition cidx_eqb (a b : cidx) : bool := (fst a =? fst b)%N && (snd a =? snd b)%N.

Definition blk := (cidx * cidx)%type.          (* a block's index, its parent's index *)

Record istate := {
  i_marker : cidx;            (* global_settings.last_scanned_index *)
  i_blocks : list blk;        (* the blocks whose effects the tables hold, newest first *)
  i_tip : cidx                (* index.Manager.index *)
}.

Definition iinit : istate := {| i_marker := none_idx; i_blocks := []; i_tip := none_idx |}.

(* the index a batch leaves: the last applied block, or — nothing applied — the parent of
   the last reverted block; [cur] for an empty batch (syncDB returns before it gets here) *)
Definition batch_index (cur : cidx) (revs apps : list blk) : cidx :=
  match rev apps with
  | a :: _ => fst a
  | [] => match rev revs with r :: _ => snd r | [] => cur end
  end.

Definition revert_block (bs : list blk) (b : blk) : list blk :=
  filter (fun x => negb (cidx_eqb (fst x) (fst b))) bs.
Definition apply_block (bs : list blk) (b : blk) : list blk := b :: bs.

Definition batch_blocks (bs : list blk) (revs apps : list blk) : list blk :=
  fold_left apply_block apps (fold_left revert_block revs bs).

Inductive iop :=
| IBatch (reverted applied : list blk)   (* one committed batch of syncDB *)
| IObserve
| IRestart.                              (* index.NewManager on the same store *)

Inductive iobs :=
| OBatch (index : cidx)                  (* what ProcessActions is called with *)
| OIdx (tip marker : cidx)               (* Manager.Tip(), Store.Tip() *)
| ODone (ok : bool).

Definition irestart (s : istate) : istate :=
  {| i_marker := i_marker s; i_blocks := i_blocks s; i_tip := i_marker s |}.

(* [store_marker revs apps]: does the transaction of this batch write the marker? *)
Definition istep_gen (store_marker : list blk -> list blk -> bool) (s : istate) (o : iop) : istate * iobs :=
  match o with
  | IBatch revs apps =>
      let i := batch_index (i_tip s) revs apps in
      ({| i_marker := if store_marker revs apps then i else i_marker s;
          i_blocks := batch_blocks (i_blocks s) revs apps;
          i_tip := i |}, OBatch i)
  | IObserve => (s, OIdx (i_tip s) (i_marker s))
  | IRestart => (irestart s, ODone true)
  end.

(* the code: tx.SetLastIndex(index) in every batch *)
Definition istep := istep_gen (fun _ _ => true).

Definition iruns (s : istate) (l : list iop) : istate := fold_left (fun s o => fst (istep s o)) l s.

Fixpoint iobservations (s : istate) (l : list iop) : list iobs :=
  match l with
  | [] => []
  | o :: t => snd (istep s o) :: iobservations (fst (istep s o)) t
  end.

(* the three kinds of batch *)
Definition applies_only (revs apps : list blk) : Prop := revs = [] /\ apps <> [].
Definition reverts_only (revs apps : list blk) : Prop := revs <> [] /\ apps = [].
Definition reverts_and_applies (revs apps : list blk) : Prop := revs <> [] /\ apps <> [].

(* a batch as UpdatesSince builds it from the processed tip [cur]: it reverts the block at
   [cur] (there is one), then that block's parent, ...; then applies a block whose parent is where it got to,
   a block on top of that one, ... *)
Fixpoint continues_reverts (cur : cidx) (revs : list blk) : option cidx :=
  match revs with
  | [] => Some cur
  | r :: t => if cidx_eqb (fst r) cur && negb (cidx_eqb cur none_idx) then continues_reverts (snd r) t else None
  end.

Fixpoint continues_applies (cur : cidx) (apps : list blk) : bool :=
  match apps with
  | [] => true
  | a :: t => cidx_eqb (snd a) cur && (fst (fst a) =? fst cur + 1)%N && continues_applies (fst a) t
  end.

Definition continues (cur : cidx) (revs apps : list blk) : bool :=
  match continues_reverts cur revs with
  | Some c => continues_applies c apps
  | None => false
  end.

(* a history in which every batch continues from the processed tip of its time *)
Fixpoint chain_run (s : istate) (l : list iop) : bool :=
  match l with
  | [] => true
  | o :: t =>
      match o with IBatch revs apps => continues (i_tip s) revs apps | _ => true end
      && chain_run (fst (istep s o)) t
  end.

(* the tables hold exactly the chain that ends in [cur]: newest first, linked by parents,
   levels going down by one, down to "no block" *)
Fixpoint stack_ok (cur : cidx) (bs : list blk) : Prop :=
  match bs with
  | [] => cur = none_idx
  | b :: t => fst b = cur /\ fst (fst b) = (fst (snd b) + 1)%N /\ stack_ok (snd b) t
  end.

(* every block a batch reverts is, at that moment, the newest block the tables hold *)
Fixpoint reverts_newest (bs : list blk) (revs : list blk) {struct revs} : Prop :=
  match revs with
  | [] => True
  | r :: t => match bs with
              | b :: bt => fst b = fst r /\ reverts_newest bt t
              | [] => False
              end
  end.

(** Seeded change C18-mut7: a batch that applies nothing leaves the stored marker alone *)
Module Legacy.
  Definition istep := istep_gen (fun _ apps => match apps with [] => false | _ => true end).
  Definition iruns (s : istate) (l : list iop) : istate := fold_left (fun s o => fst (istep s o)) l s.
End Legacy.

(** * Correspondence entry point *)
Definition iobs_eqb (a b : iobs) : bool :=
  match a, b with
  | OBatch x, OBatch y => cidx_eqb x y
  | OIdx t m, OIdx t' m' => cidx_eqb t t' && cidx_eqb m m'
  | ODone x, ODone y => Bool.eqb x y
  | _, _ => false
  end.

Definition icase := (N * list (iop * iobs))%type.
Definition icheck (cs : list icase) := mismatches iinit istep iobs_eqb cs.
