(* Restart/AccountProofs.v — the account manager's balance map holds an account exactly while
   a budget of that account is open (per key, for EVERY history: no benign proviso), so an idle
   account reads from the accounts table — the row RHP4 credits and debits write directly. *)
From HostdBase Require Import Base.
From HostdRestart Require Import Model Proofs.
From Coq Require Import Lia ZifyBool ZifyN ZifyNat.

Definition acct_inv (s : state) : Prop :=
  NoDup (map fst (m_bal (mem s))) /\
  forall a, match alookup a (m_bal (mem s)) with
            | Some (_, n) => (1 <= n)%N /\ N.to_nat n = budgets_on (budgets s) a
            | None => budgets_on (budgets s) a = O
            end.

Lemma acct_inv_same : forall s s',
  m_bal (mem s') = m_bal (mem s) -> budgets s' = budgets s -> acct_inv s -> acct_inv s'.
Proof. intros s s' E1 E2 H. unfold acct_inv in *. rewrite E1, E2. exact H. Qed.

Lemma budgets_on_aset_fresh : forall bs b a mx x,
  alookup b bs = None ->
  budgets_on (aset b (a, mx) bs) x = (budgets_on bs x + if (a =? x)%N then 1 else 0)%nat.
Proof.
  intros bs b a mx x H. apply alookup_none in H. rewrite aset_fresh by exact H.
  unfold budgets_on. rewrite filter_app, app_length. cbn. destruct (a =? x)%N; reflexivity.
Qed.

Lemma budgets_on_aremove : forall bs b a mx x,
  alookup b bs = Some (a, mx) ->
  (budgets_on (aremove b bs) x + (if (a =? x)%N then 1 else 0) = budgets_on bs x)%nat.
Proof.
  intros bs b a mx x. unfold budgets_on. induction bs as [|[b' [a' mx']] t IH]; cbn; [discriminate|].
  destruct (b =? b')%N eqn:E.
  - intros H. inversion H; subst. destruct (a =? x)%N; cbn; lia.
  - intros H. specialize (IH H). cbn. destruct (a' =? x)%N; cbn; lia.
Qed.

(* Budget.Commit / Rollback on account [a], one of whose budgets [b] is being closed *)
Lemma close_keeps_inv : forall d d' m bs g b a mx back mb,
  acct_inv (mk d m bs g) ->
  alookup b bs = Some (a, mx) ->
  close_budget (m_bal m) a back = Ok mb ->
  acct_inv (mk d' (set_m_bal m mb) (aremove b bs) g).
Proof.
  intros d d' m bs g b a mx back mb [ND H] Eb Ec. unfold acct_inv in *.
  cbn [mk mem budgets db gone m_bal set_m_bal] in *.
  unfold close_budget in Ec. pose proof (H a) as Ha.
  destruct (alookup a (m_bal m)) as [[bal n]|] eqn:E; [|discriminate].
  destruct Ha as [Hn Hc].
  destruct (n <=? 1)%N eqn:E1; inversion Ec; subst; clear Ec.
  - split; [apply aremove_nodup; exact ND|]. intros x.
    pose proof (budgets_on_aremove _ _ _ _ x Eb) as Hr.
    destruct (N.eq_dec x a) as [->|Hne].
    + rewrite aremove_eq by exact ND. rewrite N.eqb_refl in Hr. lia.
    + rewrite aremove_neq by exact Hne. specialize (H x).
      assert ((a =? x)%N = false) as F by (apply N.eqb_neq; congruence). rewrite F in Hr.
      destruct (alookup x (m_bal m)) as [[? ?]|]; [destruct H; split; [assumption | lia] | lia].
  - split; [apply aset_nodup; exact ND|]. intros x.
    pose proof (budgets_on_aremove _ _ _ _ x Eb) as Hr.
    destruct (N.eq_dec x a) as [->|Hne].
    + rewrite alookup_aset_eq. rewrite N.eqb_refl in Hr. split; lia.
    + rewrite alookup_aset_neq by exact Hne. specialize (H x).
      assert ((a =? x)%N = false) as F by (apply N.eqb_neq; congruence). rewrite F in Hr.
      destruct (alookup x (m_bal m)) as [[? ?]|]; [destruct H; split; [assumption | lia] | lia].
Qed.

Lemma step_acct_inv : forall s o, acct_inv s -> acct_inv (fst (step s o)).
Proof.
  intros [d m bs g] o Hinv.
  destruct o; cbn [step db mem budgets gone];
    try (apply (acct_inv_same (mk d m bs g)); [reflexivity | reflexivity | exact Hinv]).
  - (* UpdateHook *)
    destruct (alookup id (d_hooks d)); [destruct (alookup id (m_hooks m))|];
      (apply (acct_inv_same (mk d m bs g)); [reflexivity | reflexivity | exact Hinv]).
  - (* Credit *)
    destruct Hinv as [ND H]. cbn [mk mem budgets db gone m_bal set_m_bal fst] in ND, H.
    destruct (alookup a (m_bal m)) as [[b0 n0]|] eqn:E.
    + unfold acct_inv. cbn [mk mem budgets db gone m_bal set_m_bal fst]. split; [apply aset_nodup; exact ND|]. intros x.
      destruct (N.eq_dec x a) as [->|Hne].
      * rewrite alookup_aset_eq. specialize (H a). rewrite E in H. exact H.
      * rewrite alookup_aset_neq by exact Hne. apply H.
    + unfold acct_inv. cbn [mk mem budgets db gone m_bal set_m_bal fst]. split; [exact ND | exact H].
  - (* OpenBudget *)
    destruct (alookup b bs) as [x|] eqn:Eb; [exact Hinv|].
    destruct Hinv as [ND H]. cbn [mk mem budgets db gone m_bal set_m_bal fst] in ND, H.
    assert (forall bal n, alookup a (m_bal m) = Some (bal, n) \/ (alookup a (m_bal m) = None /\ n = 0%N) ->
            acct_inv (mk d (set_m_bal m (aset a ((bal - amt)%N, (n + 1)%N) (m_bal m))) (aset b (a, amt) bs) g)) as G.
    { intros bal n Hc. unfold acct_inv. cbn [mk mem budgets db gone m_bal set_m_bal fst]. split; [apply aset_nodup; exact ND|]. intros x.
      rewrite budgets_on_aset_fresh by exact Eb.
      destruct (N.eq_dec x a) as [->|Hne].
      - rewrite alookup_aset_eq, N.eqb_refl. specialize (H a).
        destruct Hc as [Hc|[Hc ->]]; rewrite Hc in H; [destruct H; split; lia | split; lia].
      - rewrite alookup_aset_neq by exact Hne.
        assert ((a =? x)%N = false) as F by (apply N.eqb_neq; congruence). rewrite F.
        specialize (H x). destruct (alookup x (m_bal m)) as [[? ?]|]; [destruct H; split; [assumption | lia] | lia]. }
    destruct (alookup a (m_bal m)) as [[b0 n0]|] eqn:E.
    + destruct (b0 <? amt)%N; [split; assumption|]. apply G. left. reflexivity.
    + destruct (bal_of (d_bal d) a <? amt)%N; [split; assumption|]. apply (G (bal_of (d_bal d) a) 0%N). right. split; reflexivity.
  - (* CommitBudget *)
    destruct (alookup b bs) as [[a mx]|] eqn:Eb; [|exact Hinv].
    destruct (bal_of (d_bal d) a <? spend)%N.
    + destruct (close_budget (m_bal m) a mx) as [mb| |] eqn:Ec; [|exact Hinv|exact Hinv].
      eapply close_keeps_inv; eauto.
    + destruct (close_budget (m_bal m) a (mx - spend)%N) as [mb| |] eqn:Ec; [|exact Hinv|exact Hinv].
      eapply close_keeps_inv; eauto.
  - (* RollbackBudget *)
    destruct (alookup b bs) as [[a mx]|] eqn:Eb; [|exact Hinv].
    destruct (close_budget (m_bal m) a mx) as [mb| |] eqn:Ec; [|exact Hinv|exact Hinv].
    eapply close_keeps_inv; eauto.
  - (* AddVol *)
    destruct (alookup id (d_vols d)); (apply (acct_inv_same (mk d m bs g)); [reflexivity | reflexivity | exact Hinv]).
  - (* SetRO *)
    destruct (alookup id (d_vols d)) as [[[? ?] ?]|]; [destruct (vol_ready m id)|];
      (apply (acct_inv_same (mk d m bs g)); [reflexivity | reflexivity | exact Hinv]).
  - (* GrowVol *)
    destruct (alookup id (d_vols d)) as [[[? ?] ?]|]; [destruct (vol_ready m id)|];
      (apply (acct_inv_same (mk d m bs g)); [reflexivity | reflexivity | exact Hinv]).
  - (* Restart *)
    unfold acct_inv, restart, load. cbn. split; [constructor | reflexivity].
  - (* Debit4 *)
    destruct (bal_of (d_bal d) a <? amt)%N; (apply (acct_inv_same (mk d m bs g)); [reflexivity | reflexivity | exact Hinv]).
Qed.

Lemma acct_inv_init : acct_inv init.
Proof. unfold acct_inv, init, load. cbn. split; [constructor | reflexivity]. Qed.

Lemma runs_acct_inv : forall l s, acct_inv s -> acct_inv (runs s l).
Proof.
  unfold runs. induction l as [|o t IH]; intros s H; cbn; [exact H|].
  apply IH. apply step_acct_inv. exact H.
Qed.

(* an account with no open budget is not in the map: what the manager reports for it is the
   row of the accounts table *)
Lemma idle_not_cached_state : forall s a,
  acct_inv s -> budgets_on (budgets s) a = O ->
  cached s a = false /\ mem_balance s a = bal_of (d_bal (db s)) a.
Proof.
  intros s a [_ H] Hz. unfold cached, mem_balance. specialize (H a).
  destruct (alookup a (m_bal (mem s))) as [[b n]|]; [|split; reflexivity].
  destruct H as [H1 H2]. lia.
Qed.

Lemma idle_account_not_cached : forall l a,
  budgets_on (budgets (runs init l)) a = O ->
  cached (runs init l) a = false /\
  mem_balance (runs init l) a = bal_of (d_bal (db (runs init l))) a.
Proof. intros l a. apply idle_not_cached_state. apply runs_acct_inv. apply acct_inv_init. Qed.

(* ... and the other way round: an account with an open budget is in the map *)
Lemma busy_account_cached : forall l a,
  budgets_on (budgets (runs init l)) a <> O -> cached (runs init l) a = true.
Proof.
  intros l a Hz. pose proof (runs_acct_inv l init acct_inv_init) as [_ H]. unfold cached. specialize (H a).
  destruct (alookup a (m_bal (mem (runs init l)))) as [[b n]|]; [reflexivity | contradiction].
Qed.

(* hence RHP4 credits and debits of an idle account are reported at once: the manager's
   balance moves with the table *)
Lemma rhp4_visible_when_idle : forall l a amt,
  budgets_on (budgets (runs init l)) a = O ->
  mem_balance (fst (step (runs init l) (Credit4 a amt))) a = (mem_balance (runs init l) a + amt)%N /\
  (amt <= mem_balance (runs init l) a ->
   mem_balance (fst (step (runs init l) (Debit4 a amt))) a = mem_balance (runs init l) a - amt)%N.
Proof.
  intros l a amt Hz. destruct (idle_account_not_cached l a Hz) as [Hc Hm].
  set (s := runs init l) in *. unfold cached in Hc. rewrite Hm.
  unfold mem_balance. cbn [step].
  destruct (alookup a (m_bal (mem s))) eqn:E; [discriminate|]. split.
  - cbn. rewrite E. unfold bal_of. rewrite alookup_aset_eq. reflexivity.
  - intros Hle. destruct (bal_of (d_bal (db s)) a <? amt)%N eqn:El; [lia|].
    cbn. rewrite E. unfold bal_of at 1. rewrite alookup_aset_eq. reflexivity.
Qed.

(** * The seeded change, as a witness *)
Definition shared_key_witness : list op :=
  [Credit 0 5000; OpenBudget 0 0 2000; CommitBudget 0 1000; Debit4 0 3000].

Lemma idle_account_cached_legacy :
  budgets (Legacy.runs init shared_key_witness) = [] /\
  cached (Legacy.runs init shared_key_witness) 0 = true /\
  observe (restart (Legacy.runs init shared_key_witness)) <> observe (Legacy.runs init shared_key_witness) /\
  observe (restart (runs init shared_key_witness)) = observe (runs init shared_key_witness).
Proof. repeat split; try reflexivity. vm_compute. discriminate. Qed.
