(* Restart/SettingsProofs.v — the value a manager caches after an accepted update is the value
   the store loads at the next start (settings and pinned settings), for every input. *)
From HostdBase Require Import Base.
From HostdRestart Require Import Settings.
From Coq Require Import Lia ZifyBool ZifyN ZifyNat String Ascii.
Local Open Scope N_scope.

(** * small facts *)
Lemma bind_ok {A B} (r : res A) (f : A -> res B) b :
  bind r f = Ok b -> exists a, r = Ok a /\ f a = Ok b.
Proof. destruct r; cbn; intros H; try discriminate. eauto. Qed.

Lemma str_eqb_refl (l : str) : str_eqb l l = true.
Proof. unfold str_eqb. induction l as [|x t IH]; cbn; [reflexivity|]. now rewrite N.eqb_refl, IH. Qed.

Lemma str_eqb_eq (a b : str) : str_eqb a b = true -> a = b.
Proof.
  unfold str_eqb. revert b. induction a as [|x t IH]; intros [|y u]; cbn; intros H; try discriminate; auto.
  apply andb_true_iff in H as [H1 H2]. apply N.eqb_eq in H1. f_equal; auto.
Qed.

Lemma is_nil_true {A} (l : list A) : is_nil l = true -> l = [].
Proof. destruct l; cbn; congruence. Qed.
Lemma is_nil_false {A} (l : list A) : is_nil l = false -> l <> [].
Proof. destruct l; cbn; congruence. Qed.

Lemma two64_val : two64 = 18446744073709551616. Proof. reflexivity. Qed.
Lemma two63_val : two63 = 9223372036854775808. Proof. reflexivity. Qed.

Lemma dec_enc_cur c : dec_cur (enc_cur c) = c.
Proof.
  unfold dec_cur, enc_cur; cbn [fst snd]. rewrite N.mul_comm.
  symmetry. apply N.div_mod. unfold two64. discriminate.
Qed.

Lemma bind_scan_u64 v z : bind_u64 v = Ok z -> scan_u64 z = Ok v.
Proof.
  unfold bind_u64, scan_u64. destruct (v <? two63) eqn:E; intros H; inversion H; subst.
  destruct (Z.of_N v <? 0)%Z eqn:E2; [lia|]. now rewrite N2Z.id.
Qed.

Lemma scan_u32_of_N c : c < two32 -> scan_u32 (Z.of_N c) = Ok c.
Proof.
  intros H. unfold scan_u32.
  destruct ((Z.of_N c <? 0)%Z || (Z.of_N two32 <=? Z.of_N c)%Z) eqn:E; [lia|]. now rewrite N2Z.id.
Qed.

Lemma scan_u64_nonneg v : (0 <= v)%Z -> scan_u64 v = Ok (Z.to_N v).
Proof. intros H. unfold scan_u64. destruct (v <? 0)%Z eqn:E; [lia|reflexivity]. Qed.

Lemma real_store_ok b x : real_store b = Ok x -> x = f_canon b.
Proof. unfold real_store. destruct (f_nan b); intros H; inversion H; reflexivity. Qed.

Lemma f_canon_idem b : f_canon (f_canon b) = f_canon b.
Proof. unfold f_canon. destruct (b =? two63) eqn:E; [reflexivity|]. now rewrite E. Qed.

(** * validation leaves the DNS block in a form the store gives back *)
(* either switched off and cleared, or a provider with its re-encoded options *)
Definition dns_fix (d : dns) (o : oracle) : Prop :=
  (d_provider d = [] /\ d_options d = None) \/ (d_provider d <> [] /\ d_options d = Some (o_j_canon o)).

Lemma validate_dns_fix d o d' : validate_dns d o = Ok d' -> dns_fix d' o.
Proof.
  unfold validate_dns. destruct (is_nil (d_provider d)) eqn:En.
  - intros H; inversion H; subst. left; cbn. split; [now apply is_nil_true|reflexivity].
  - destruct (negb (d_ipv4 d) && negb (d_ipv6 d)); [discriminate|].
    destruct (provider_arity (d_provider d)); [|discriminate].
    destruct (o_j_fields o) as [fs| |]; try discriminate.
    destruct ((List.length fs =? n)%nat && forallb (fun f => negb (is_nil f)) fs); [|discriminate].
    intros H; inversion H; subst. right; cbn. split; [now apply is_nil_false|reflexivity].
Qed.

Lemma set_ddns_wf s d : wf_settings s -> wf_settings (set_ddns s d).
Proof. destruct s; unfold wf_settings; cbn; tauto. Qed.

Lemma validate_ok s o s1 : validate s o = Ok s1 ->
  exists d, s1 = set_ddns s d /\ dns_fix d o.
Proof.
  unfold validate. intros H. apply bind_ok in H as (d & Hd & H).
  apply bind_ok in H as (u & _ & H). inversion H; subst. exists d; split; [reflexivity|].
  eapply validate_dns_fix; eauto.
Qed.

(** * what the store writes is read back as the same settings (floats numerically) *)
Lemma store_roundtrip s o cols v :
  wf_settings s -> dns_fix (s_ddns s) o -> oracle_ok o ->
  store_write s o = Ok cols -> (0 <= v)%Z ->
  store_read (with_revision cols v) = Ok (settings_norm (set_revision s (Z.to_N v))).
Proof.
  intros Hwf Hd [Hst Hld] Hw Hv.
  destruct s as [acc na md win cp br sa cm mc sp ep ip ptv mr ae mab il el d ca rev].
  destruct d as [prov v4 v6 opts].
  unfold wf_settings in Hwf; cbn in Hwf.
  destruct Hwf as (W1 & W2 & W3 & W4 & W5 & W6 & W7 & W8 & W9 & W10 & W11 & W12 & W13 & W14 & W15 & W16).
  unfold store_write in Hw; cbn [s_ddns d_provider d_options d_ipv4 d_ipv6 s_maxdur s_window s_ingress_limit
    s_egress_limit s_max_registry s_coll_mult s_accepting s_netaddr s_contract_price s_base_rpc s_sector_access
    s_max_coll s_storage s_egress s_ingress s_max_acct_balance s_acct_expiry s_pt_validity s_cache] in Hw.
  apply bind_ok in Hw as (o1 & Ho & Hw).
  apply bind_ok in Hw as (zmd & Hmd & Hw).
  apply bind_ok in Hw as (zwin & Hwin & Hw).
  apply bind_ok in Hw as (zil & Hil & Hw).
  apply bind_ok in Hw as (zel & Hel & Hw).
  apply bind_ok in Hw as (zmr & Hmr & Hw).
  apply bind_ok in Hw as (xcm & Hcm & Hw).
  inversion Hw; subst cols; clear Hw.
  apply real_store_ok in Hcm. subst xcm.
  unfold store_read, with_revision;
    cbn [c_revision c_accepting c_netaddr c_contract_price c_base_rpc c_sector_access c_coll_mult c_max_coll
         c_storage c_egress c_ingress c_max_acct_balance c_acct_age c_pt_validity c_maxdur c_window
         c_ingress_limit c_egress_limit c_registry_limit c_ddns_provider c_ddns_v4 c_ddns_v6 c_ddns_opts c_cache].
  rewrite (scan_u64_nonneg v Hv); cbn [bind].
  rewrite (bind_scan_u64 _ _ Hmd), (bind_scan_u64 _ _ Hwin), (bind_scan_u64 _ _ Hil), (bind_scan_u64 _ _ Hel),
          (bind_scan_u64 _ _ Hmr); cbn [bind].
  rewrite (scan_u32_of_N ca W7); cbn [bind].
  rewrite !dec_enc_cur.
  (* the options column *)
  assert (Hopts : match o1 with None => Ok None | Some (_, loaded) => do b <- loaded; Ok (Some b) end = Ok opts).
  { unfold dns_fix in Hd; cbn in Hd. destruct Hd as [[Hp Hop]|[Hp Hop]]; subst.
    - cbn in Ho. inversion Ho; reflexivity.
    - destruct (is_nil prov) eqn:En; [apply is_nil_true in En; contradiction|].
      rewrite str_eqb_refl in Ho. rewrite Hst in Ho; cbn in Ho. inversion Ho; subst.
      rewrite Hld; reflexivity. }
  rewrite Hopts; cbn [bind].
  reflexivity.
Qed.

(** * ConfigManager.UpdateSettings *)
Definition rev_ok (row : option srow) : Prop :=
  match row with None => True | Some r => (0 <= c_revision r)%Z end.

Lemma upsert_revision row cols :
  rev_ok row -> exists v, (0 <= v)%Z /\ upsert row cols = with_revision cols v /\
    v = match row with None => 0%Z | Some r => (c_revision r + 1)%Z end.
Proof.
  destruct row as [r|]; cbn; intros H.
  - exists (c_revision r + 1)%Z; repeat split; lia.
  - exists 0%Z; repeat split; lia.
Qed.

Lemma set_revision_norm s r : settings_norm (set_revision s r) = set_revision (settings_norm s) r.
Proof. destruct s; reflexivity. Qed.

Lemma set_revision_twice s a b : set_revision (set_revision s a) b = set_revision s b.
Proof. destruct s; reflexivity. Qed.

Lemma s_revision_set s r : s_revision (set_revision s r) = r.
Proof. destruct s; reflexivity. Qed.

Lemma s_revision_norm s : s_revision (settings_norm s) = s_revision s.
Proof. destruct s; reflexivity. Qed.

Lemma with_revision_rev cols v : c_revision (with_revision cols v) = v.
Proof. reflexivity. Qed.

(* the cached value is what the next start loads; the stored revision went up by one *)
Lemma update_cache_loads row cache s o row' s' :
  wf_settings s -> rev_ok row -> oracle_ok o ->
  update row cache s o = Ok (row', s') ->
  store_read row' = Ok (settings_norm s') /\
  c_revision row' = match row with None => 0%Z | Some r => (c_revision r + 1)%Z end.
Proof.
  intros Hwf Hrow Hor Hu. unfold update in Hu.
  apply bind_ok in Hu as (s1 & Hv & Hu).
  apply bind_ok in Hu as (cols & Hw & Hu).
  destruct (validate_ok _ _ _ Hv) as (d & -> & Hd).
  destruct (upsert_revision row cols Hrow) as (v & Hv0 & Hup & Hvv).
  assert (Hrt := store_roundtrip (set_ddns s d) o cols v (set_ddns_wf s d Hwf)).
  assert (Hdd : s_ddns (set_ddns s d) = d) by (destruct s; reflexivity).
  rewrite Hdd in Hrt. specialize (Hrt Hd Hor Hw Hv0).
  rewrite Hup in Hu. rewrite Hrt in Hu. inversion Hu; subst row' s'; clear Hu.
  split.
  - exact Hrt.
  - rewrite with_revision_rev. exact Hvv.
Qed.

(* an input without a negative zero is loaded bit for bit *)
Lemma norm_id s : s_coll_mult s <> two63 -> settings_norm s = s.
Proof.
  intros H. destruct s; unfold settings_norm, set_coll_mult, f_canon; cbn in *.
  destruct (s_coll_mult =? two63) eqn:E; [apply N.eqb_eq in E; contradiction|reflexivity].
Qed.

Lemma update_keeps_coll_mult row cache s o row' s' :
  update row cache s o = Ok (row', s') -> s_coll_mult s' = s_coll_mult s.
Proof.
  unfold update. intros Hu.
  apply bind_ok in Hu as (s1 & Hv & Hu). apply bind_ok in Hu as (cols & Hw & Hu).
  destruct (validate_ok _ _ _ Hv) as (d & -> & _).
  destruct (store_read (upsert row cols)); inversion Hu; subst; destruct s; reflexivity.
Qed.

Lemma update_cache_loads_exact row cache s o row' s' :
  wf_settings s -> rev_ok row -> oracle_ok o -> s_coll_mult s <> two63 ->
  update row cache s o = Ok (row', s') -> store_read row' = Ok s'.
Proof.
  intros Hwf Hrow Hor Hnz Hu.
  destruct (update_cache_loads _ _ _ _ _ _ Hwf Hrow Hor Hu) as [H _].
  rewrite H. f_equal. apply norm_id. now rewrite (update_keeps_coll_mult _ _ _ _ _ _ Hu).
Qed.

(* what validation does to the input: only the DNS block changes, and only in two ways *)
Lemma update_normalises row cache s o row' s' :
  update row cache s o = Ok (row', s') ->
  exists d r, s' = set_revision (set_ddns s d) r /\
    ((d_provider (s_ddns s) = [] /\ d = mkDns [] false false None) \/
     (d_provider (s_ddns s) <> [] /\
      d = mkDns (d_provider (s_ddns s)) (d_ipv4 (s_ddns s)) (d_ipv6 (s_ddns s)) (Some (o_j_canon o)))).
Proof.
  unfold update. intros Hu.
  apply bind_ok in Hu as (s1 & Hv & Hu). apply bind_ok in Hu as (cols & Hw & Hu).
  unfold validate in Hv. apply bind_ok in Hv as (d & Hd & Hv). apply bind_ok in Hv as (u & _ & Hv).
  inversion Hv; subst s1; clear Hv.
  assert (Hcase : (d_provider (s_ddns s) = [] /\ d = mkDns [] false false None) \/
     (d_provider (s_ddns s) <> [] /\
      d = mkDns (d_provider (s_ddns s)) (d_ipv4 (s_ddns s)) (d_ipv6 (s_ddns s)) (Some (o_j_canon o)))).
  { unfold validate_dns in Hd. destruct (is_nil (d_provider (s_ddns s))) eqn:En.
    - left. apply is_nil_true in En. rewrite En in Hd. inversion Hd; auto.
    - right. apply is_nil_false in En. split; [exact En|].
      destruct (negb (d_ipv4 (s_ddns s)) && negb (d_ipv6 (s_ddns s))); [discriminate|].
      destruct (provider_arity (d_provider (s_ddns s))); [|discriminate].
      destruct (o_j_fields o) as [fs| |]; try discriminate.
      destruct ((List.length fs =? n)%nat && forallb (fun f => negb (is_nil f)) fs); [|discriminate].
      inversion Hd; reflexivity. }
  destruct (store_read (upsert row cols)) as [st| |]; inversion Hu; subst; eauto.
Qed.

(** * pinned settings *)
Lemma pin_col_ok v c : pin_col v = Ok c -> pin_of c = pin_norm v.
Proof.
  unfold pin_col. intros H. apply bind_ok in H as (x & Hx & H). inversion H; subst.
  apply real_store_ok in Hx; subst. reflexivity.
Qed.

Lemma pin_update_cache_loads p r p' :
  pin_update p = Ok (r, p') -> pin_read r = pinned_norm p' /\ p' = p.
Proof.
  unfold pin_update. intros H. apply bind_ok in H as (u & _ & H). apply bind_ok in H as (r0 & Hw & H).
  inversion H; subst r0 p'; clear H. split; [|reflexivity].
  unfold pin_write in Hw.
  apply bind_ok in Hw as (th & Hth & Hw). apply bind_ok in Hw as (a & Ha & Hw).
  apply bind_ok in Hw as (b & Hb & Hw). apply bind_ok in Hw as (c & Hc & Hw).
  apply bind_ok in Hw as (d & Hd & Hw). inversion Hw; subst r; clear Hw.
  apply real_store_ok in Hth; subst th.
  unfold pin_read, pinned_norm; cbn.
  now rewrite (pin_col_ok _ _ Ha), (pin_col_ok _ _ Hb), (pin_col_ok _ _ Hc), (pin_col_ok _ _ Hd).
Qed.

Lemma pin_norm_idem v : pin_norm (pin_norm v) = pin_norm v.
Proof. destruct v; unfold pin_norm; cbn. now rewrite f_canon_idem. Qed.
Lemma pinned_norm_idem p : pinned_norm (pinned_norm p) = pinned_norm p.
Proof. destruct p; unfold pinned_norm; cbn. now rewrite f_canon_idem, !pin_norm_idem. Qed.
Lemma settings_norm_idem s : settings_norm (settings_norm s) = settings_norm s.
Proof. destruct s; unfold settings_norm, set_coll_mult; cbn. now rewrite f_canon_idem. Qed.

(* a pinned value the manager accepts as pinned is positive: never a zero of either sign *)
Lemma f_le0_false_canon b : f_le0 b = false -> f_nan b = false -> f_canon b = b.
Proof.
  unfold f_le0, f_canon, f_neg, f_mag. intros H Hn. rewrite Hn in H; cbn in H.
  destruct (b =? two63) eqn:E; [|reflexivity]. apply N.eqb_eq in E. subst b.
  apply orb_false_iff in H as [H _]. unfold two63 in *. cbn in H. discriminate.
Qed.

(** * the managers across any history of updates and restarts *)
Definition op_ok (op : sop) : Prop :=
  match op with
  | SUpdate s o => wf_settings s /\ oracle_ok o
  | _ => True
  end.

(* memory is what a start would load, and the stored revision counts the accepted updates *)
Definition coh_s (n : nat) (st : sstate) : Prop :=
  load_settings (st_row st) = Ok (settings_norm (st_cache st)) /\
  load_pinned (st_prow st) = pinned_norm (st_pcache st) /\
  match st_row st with None => True | Some r => (0 <= c_revision r <= Z.of_nat n)%Z end.

Lemma default_settings_norm : settings_norm default_settings = default_settings.
Proof. reflexivity. Qed.
Lemma default_pinned_norm : pinned_norm default_pinned = default_pinned.
Proof. reflexivity. Qed.

Lemma coh_init : coh_s 0 sinit.
Proof. unfold coh_s, sinit; cbn. repeat split. Qed.

Lemma sstep_coh n st op : coh_s n st -> op_ok op -> coh_s (S n) (fst (sstep st op)).
Proof.
  intros (Hs & Hp & Hr) Hop. destruct op as [s o|p|]; cbn [sstep].
  - destruct Hop as [Hwf Hor].
    destruct (update (st_row st) (st_cache st) s o) as [[row' s']| |] eqn:Hu; cbn [fst].
    + assert (Hrow : rev_ok (st_row st)) by (unfold rev_ok; destruct (st_row st); [lia|exact I]).
      destruct (update_cache_loads _ _ _ _ _ _ Hwf Hrow Hor Hu) as [H1 H2].
      unfold coh_s; cbn [st_row st_prow st_cache st_pcache load_settings].
      split; [exact H1|]. split; [exact Hp|]. rewrite H2. destruct (st_row st); lia.
    + unfold coh_s. repeat split; auto. destruct (st_row st); [lia|exact I].
    + unfold coh_s. repeat split; auto. destruct (st_row st); [lia|exact I].
  - destruct (pin_update p) as [[r p']| |] eqn:Hu; cbn [fst].
    + destruct (pin_update_cache_loads _ _ _ Hu) as [H1 _].
      unfold coh_s; cbn [st_row st_prow st_cache st_pcache load_pinned].
      split; [exact Hs|]. split; [exact H1|]. destruct (st_row st); [lia|exact I].
    + unfold coh_s. repeat split; auto. destruct (st_row st); [lia|exact I].
    + unfold coh_s. repeat split; auto. destruct (st_row st); [lia|exact I].
  - rewrite Hs; cbn [fst]. unfold coh_s; cbn.
    rewrite Hs, Hp, settings_norm_idem, pinned_norm_idem. repeat split; auto.
    destruct (st_row st); [lia|exact I].
Qed.

Definition sruns (st : sstate) (l : list sop) : sstate := fold_left (fun s o => fst (sstep s o)) l st.

Lemma sruns_coh l : forall n st, coh_s n st -> Forall op_ok l -> coh_s (n + List.length l) (sruns st l).
Proof.
  induction l as [|op t IH]; intros n st Hc Hf; cbn.
  - now rewrite Nat.add_0_r.
  - inversion Hf; subst. replace (n + S (List.length t))%nat with (S n + List.length t)%nat by lia.
    apply IH; [apply sstep_coh|]; assumption.
Qed.

(* a restart after any history: the new managers report the cached values (floats numerically) *)
Lemma reopen_after_history l :
  Forall op_ok l ->
  snd (sstep (sruns sinit l) SReopen) =
    OLoaded (settings_norm (st_cache (sruns sinit l))) (pinned_norm (st_pcache (sruns sinit l))).
Proof.
  intros Hf. destruct (sruns_coh l 0 sinit coh_init Hf) as (Hs & Hp & _).
  cbn [sstep]. rewrite Hs, Hp. reflexivity.
Qed.

(* ... and a second restart changes nothing at all *)
Lemma reopen_idem st :
  fst (sstep (fst (sstep st SReopen)) SReopen) = fst (sstep st SReopen).
Proof.
  cbn [sstep]. destruct (load_settings (st_row st)) as [s| |] eqn:E; cbn [fst]; cbn [st_row st_prow]; rewrite ?E; reflexivity.
Qed.

(** * the variant that keeps the options of a switched-off provider *)
(* dynamic DNS switched off while the options of the former provider are still there *)
Definition legacy_input : settings :=
  set_ddns default_settings (mkDns [] true true (Some (bytes_of "{""token"":""t""}"))).
(* (no provider: encoding/json is not called on the options) *)
Definition legacy_oracle : oracle := mkOracle false true false None (Err EOther) [] (Ok []) (Ok []).

Lemma legacy_refuted :
  wf_settings legacy_input /\ oracle_ok legacy_oracle /\
  (exists row' s', Legacy.update None default_settings legacy_input legacy_oracle = Ok (row', s') /\
                   d_options (s_ddns s') = Some (bytes_of "{""token"":""t""}") /\
                   exists l, store_read row' = Ok l /\ d_options (s_ddns l) = None) /\
  (* the current code on the same input *)
  (exists row2 s2, update None default_settings legacy_input legacy_oracle = Ok (row2, s2) /\
                   store_read row2 = Ok s2 /\ d_options (s_ddns s2) = None).
Proof.
  split; [unfold wf_settings; cbn; repeat split; reflexivity|].
  split; [split; reflexivity|]. split.
  - eexists; eexists. split; [vm_compute; reflexivity|]. split; [reflexivity|].
    eexists. split; vm_compute; reflexivity.
  - eexists; eexists. split; [vm_compute; reflexivity|]. split; vm_compute; reflexivity.
Qed.
