(* C18 — Restart is transparent: the processed chain tip across a stop between two batches of
   one sync (Index.v), and the account layer when RHP3 and RHP4 use one key (Model.v's Credit4 /
   Debit4).  Statements only; every proof is [exact lemma].

   Index.v models index.Manager.syncDB batch by batch (a batch = what chain.Manager.UpdatesSince
   returned for the processed tip and the batch size: blocks to revert, then blocks to apply;
   it reverts only, applies only, or does both) with the stored marker
   (global_settings.last_scanned_index), the in-memory tip and the blocks whose effects the
   tables hold.  The code stores the index a batch leaves in EVERY batch; [Index.Legacy] is the
   seeded change C18-mut7 (a batch that applies nothing leaves the marker alone).  The harness
   TestVerifC18Index replays every committed batch of a real index.Manager (gated between its
   wallet/contract managers, stopped between batches of real reorganisations) through [istep].
   Trusted: that a block's parent is a function of the block ([par], Section variable of the
   lemma behind c18_no_block_reverted_twice), and that UpdatesSince continues from the tip it
   is given ([chain_run], checked on every recorded history by the harness's ledger monitor).

   Accounts: [a] in Credit / OpenBudget / Credit4 / Debit4 is the account's public key; an
   rhp3.Account and a proto4.Account with the same key are one row of the accounts table.
   The invariant behind c18_idle_account_not_cached holds for EVERY history (no benign
   proviso); it is what the seeded change C18-mut8 (Budget.Commit keeps the map entry of an
   account whose last budget was committed) breaks: [Model.Legacy]. *)
From HostdBase Require Import Base.
From HostdRestart Require Import Model Proofs AccountProofs Index IndexProofs.

(** * Processed tip *)
(* from ANY state, for every batch — applies only / reverts only / both —: the in-memory tip is
   the stored marker afterwards, and it is the last applied block, or (nothing applied) the
   parent of the last reverted block *)
Theorem c18_tip_is_marker_after_any_batch : forall s revs apps d,
  let s' := fst (istep s (IBatch revs apps)) in
  i_tip s' = i_marker s' /\
  (applies_only revs apps -> i_marker s' = fst (last apps d)) /\
  (reverts_only revs apps -> i_marker s' = snd (last revs d)) /\
  (reverts_and_applies revs apps -> i_marker s' = fst (last apps d)).
Proof. exact tip_is_marker_after_any_batch. Qed.
Print Assumptions c18_tip_is_marker_after_any_batch.

(* after every history of batches, observations and starts the in-memory tip is what a start loads *)
Theorem c18_tip_is_marker_after_history : forall l, i_tip (iruns iinit l) = i_marker (iruns iinit l).
Proof. exact (fun l => iruns_icoh l iinit icoh_init). Qed.
Print Assumptions c18_tip_is_marker_after_history.

(* a stop between ANY two batches followed by a start is invisible: every continuation is
   observed the same and ends in the state of the host that was never stopped *)
Theorem c18_restart_between_batches_invisible : forall l l',
  iobservations (irestart (iruns iinit l)) l' = iobservations (iruns iinit l) l' /\
  iruns (irestart (iruns iinit l)) l' = iruns iinit (l ++ l').
Proof. exact restart_between_batches_invisible. Qed.
Print Assumptions c18_restart_between_batches_invisible.

(* histories whose batches each continue from the processed tip of their time (with starts
   anywhere in between): the tables hold exactly the chain that ends at the marker, and the
   next batch reverts the newest blocks they hold — no block is reverted a second time *)
Theorem c18_no_block_reverted_twice : forall (par : cidx -> cidx) l revs apps,
  Forall (respects par) (l ++ [IBatch revs apps]) ->
  chain_run iinit (l ++ [IBatch revs apps]) = true ->
  stack_ok (i_marker (iruns iinit l)) (i_blocks (iruns iinit l)) /\
  reverts_newest (i_blocks (iruns iinit l)) revs.
Proof. exact no_block_reverted_twice. Qed.
Print Assumptions c18_no_block_reverted_twice.

(* the seeded change: after a reverts-only batch the start loads the orphaned block as the
   tip, and the next batch — which does continue from that tip — reverts a block the tables
   no longer hold; the code as it is keeps the tip *)
Theorem c18_marker_refuted_legacy :
  reverts_only [b3] [] /\
  i_tip (irestart (Index.Legacy.iruns iinit reorg_witness)) <> i_tip (Index.Legacy.iruns iinit reorg_witness) /\
  continues (i_tip (irestart (Index.Legacy.iruns iinit reorg_witness))) [b3] [] = true /\
  ~ reverts_newest (i_blocks (irestart (Index.Legacy.iruns iinit reorg_witness))) [b3] /\
  i_tip (irestart (iruns iinit reorg_witness)) = i_tip (iruns iinit reorg_witness).
Proof. exact marker_refuted_legacy. Qed.
Print Assumptions c18_marker_refuted_legacy.

(** * Accounts *)
(* after EVERY history: an account with no open budget is not in the account manager's map,
   and the balance the manager reports for it is the row of the accounts table *)
Theorem c18_idle_account_not_cached : forall l a,
  budgets_on (budgets (runs init l)) a = O ->
  cached (runs init l) a = false /\
  mem_balance (runs init l) a = bal_of (d_bal (db (runs init l))) a.
Proof. exact idle_account_not_cached. Qed.
Print Assumptions c18_idle_account_not_cached.

(* ... and an account with an open budget is in the map (the entry exists iff a budget is open) *)
Theorem c18_busy_account_cached : forall l a,
  budgets_on (budgets (runs init l)) a <> O -> cached (runs init l) a = true.
Proof. exact busy_account_cached. Qed.
Print Assumptions c18_busy_account_cached.

(* hence an RHP4 credit or debit of an idle account shows at once in what the account manager reports *)
Theorem c18_rhp4_visible_when_idle : forall l a amt,
  budgets_on (budgets (runs init l)) a = O ->
  mem_balance (fst (step (runs init l) (Credit4 a amt))) a = (mem_balance (runs init l) a + amt)%N /\
  (amt <= mem_balance (runs init l) a ->
   mem_balance (fst (step (runs init l) (Debit4 a amt))) a = mem_balance (runs init l) a - amt)%N.
Proof. exact rhp4_visible_when_idle. Qed.
Print Assumptions c18_rhp4_visible_when_idle.

(* the seeded change: the committed budget leaves the account in the map, the RHP4 debit of
   the same key is not seen, and the restart changes the reported balance; not so in the code as it is *)
Theorem c18_idle_account_cached_refuted_legacy :
  budgets (Model.Legacy.runs init shared_key_witness) = [] /\
  cached (Model.Legacy.runs init shared_key_witness) 0 = true /\
  observe (restart (Model.Legacy.runs init shared_key_witness)) <> observe (Model.Legacy.runs init shared_key_witness) /\
  observe (restart (runs init shared_key_witness)) = observe (runs init shared_key_witness).
Proof. exact idle_account_cached_legacy. Qed.
Print Assumptions c18_idle_account_cached_refuted_legacy.

(* non-vacuity: blocks 1-2-3 processed in batches of one, 3 reverted by a reverts-only batch, a
   start, 4 applied on 2: the history continues from the tip throughout, the marker follows, the
   tables hold 4-2-1; and one key used through both account interfaces *)
Example c18_index_nonvacuous :
  let b4 : blk := ((3, 4), (2, 2))%N in
  let l := [IBatch [] [g1]; IBatch [] [b2]; IBatch [] [b3]; IBatch [b3] []; IRestart; IBatch [] [b4]] in
  chain_run iinit l = true /\ i_marker (iruns iinit l) = (3, 4)%N /\ i_tip (iruns iinit l) = (3, 4)%N /\
  i_blocks (iruns iinit l) = [b4; b2; g1] /\
  (let la := [Credit 0 5000; OpenBudget 0 0 2000; CommitBudget 0 1000; Debit4 0 3000; Credit4 0 500]%N in
   budgets_on (budgets (runs init la)) 0 = O /\ mem_balance (runs init la) 0 = 1500%N).
Proof. vm_compute. repeat split; reflexivity. Qed.
