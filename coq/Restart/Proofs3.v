(* Restart/Proofs3.v — volumes whose data file does not open at a start. *)
From HostdBase Require Import Base.
From Coq Require Import Lia ZifyBool ZifyN ZifyNat Permutation.
From HostdRestart Require Import Model Proofs Proofs2.

Lemma alookup_map_val : forall (V W : Type) (f : N -> V -> W) (l : list (N * V)) id,
  alookup id (map (fun v => (fst v, f (fst v) (snd v))) l) = option_map (f id) (alookup id l).
Proof.
  intros V W f l id. induction l as [|[k v] l IH]; cbn; [reflexivity|].
  destruct (id =? k)%N eqn:E; [apply N.eqb_eq in E; subst k; reflexivity | exact IH].
Qed.

Lemma in_keys_alookup : forall (V : Type) (l : list (N * V)) id, In id (map fst l) -> exists v, alookup id l = Some v.
Proof.
  intros V l id H. destruct (alookup id l) as [v|] eqn:E; [exists v; reflexivity|].
  apply alookup_none in E. contradiction.
Qed.

(* the in-memory status a start gives a stored volume *)
Lemma restart_vol_ready : forall s id, In id (map fst (d_vols (db s))) ->
  vol_ready (mem (restart s)) id = file_present s id.
Proof.
  intros s id H. unfold vol_ready, restart, load, mark_vols, file_present.
  cbn [mem m_vols db d_vols set_db_vols]. rewrite map_map. cbn [fst snd].
  rewrite (alookup_map_val _ _ (fun k (_ : bool * N * bool) => negb (file_gone (gone s) k))).
  destruct (in_keys_alookup _ _ _ H) as [v ->]. reflexivity.
Qed.

(* what Volumes() reports after a start: every stored volume, read-only flag and size as
   stored, flagged available and "ready" iff its file opened at this start *)
Lemma restart_volumes : forall s,
  volumes (restart s) =
  map (fun v => (fst v, ((fst (fst (snd v)), snd (fst (snd v)), file_present s (fst v)), file_present s (fst v))))
      (d_vols (db s)).
Proof.
  intros s. unfold volumes. 
  assert (d_vols (db (restart s)) = mark_vols (gone s) (d_vols (db s))) as -> by reflexivity.
  unfold mark_vols at 1. rewrite map_map. apply map_ext_in. intros [id [[r t] a]] Hv. cbn [fst snd].
  rewrite restart_vol_ready by (apply (in_map fst) in Hv; exact Hv). reflexivity.
Qed.

Lemma restart_vol_flag : forall s id r t a, alookup id (d_vols (db s)) = Some (r, t, a) ->
  alookup id (d_vols (db (restart s))) = Some (r, t, file_present s id).
Proof.
  intros s id r t a H.
  assert (d_vols (db (restart s)) = mark_vols (gone s) (d_vols (db s))) as -> by reflexivity.
  unfold mark_vols.
  rewrite (alookup_map_val _ _ (fun k (x : bool * N * bool) => (fst (fst x), snd (fst x), negb (file_gone (gone s) k)))).
  rewrite H. reflexivity.
Qed.

(* SetReadOnly and ResizeVolume are accepted after a start iff the volume's file opened *)
Lemma restart_setro_accepts : forall s id ro, In id (map fst (d_vols (db s))) ->
  snd (step (restart s) (SetRO id ro)) = ODone (file_present s id).
Proof.
  intros s id ro H. destruct (in_keys_alookup _ _ _ H) as [[[r t] a] E].
  cbn [step]. rewrite (restart_vol_flag _ _ _ _ _ E). rewrite (restart_vol_ready _ _ H).
  destruct (file_present s id); reflexivity.
Qed.

Lemma restart_grow_accepts : forall s id total, In id (map fst (d_vols (db s))) ->
  snd (step (restart s) (GrowVol id total)) = ODone (file_present s id).
Proof.
  intros s id total H. destruct (in_keys_alookup _ _ _ H) as [[[r t] a] E].
  cbn [step]. rewrite (restart_vol_flag _ _ _ _ _ E). rewrite (restart_vol_ready _ _ H).
  destruct (file_present s id); reflexivity.
Qed.

(* a file that is back is opened at the next start: whatever the store said before (e.g.
   unavailable since an earlier start), the volume is reported available and ready *)
Lemma restored_file_available : forall s id r t a,
  In (id, (r, t, a)) (d_vols (db s)) ->
  In (id, ((r, t, true), true)) (volumes (runs s [RestoreVolFile id; Restart])).
Proof.
  intros s id r t a H. unfold runs. cbn [fold_left step fst].
  rewrite restart_volumes. apply in_map_iff. exists (id, (r, t, a)). split; [|exact H].
  unfold file_present. cbn [fst snd gone mk]. rewrite file_gone_unhide, N.eqb_refl, Bool.andb_false_r. reflexivity.
Qed.

(* ... and while it is away the volume is reported unavailable *)
Lemma hidden_file_unavailable : forall s id r t a,
  In (id, (r, t, a)) (d_vols (db s)) ->
  In (id, ((r, t, false), false)) (volumes (runs s [HideVolFile id; Restart])).
Proof.
  intros s id r t a H. unfold runs. cbn [fold_left step fst].
  rewrite restart_volumes. apply in_map_iff. exists (id, (r, t, a)). split; [|exact H].
  unfold file_present. cbn [fst snd gone mk]. rewrite file_gone_hide, N.eqb_refl. reflexivity.
Qed.

(* file away, start, file back, start: the host is observably where it was, and a
   further start changes nothing at all *)
Lemma hide_restore_roundtrip : forall s id,
  coh s -> budgets s = [] -> file_present s id = true ->
  let s2 := runs s [HideVolFile id; Restart; RestoreVolFile id; Restart] in
  observe s2 = observe s /\ (forall e, deliver (mem s2) e = deliver (mem s) e) /\ restart s2 = s2.
Proof.
  intros s id Hc Hq Hp s2.
  assert (s2 = mk (db (restart s)) (mem (restart s)) [] (unhide id (hide id (gone s)))) as E.
  { subst s2. unfold runs. cbn [fold_left step fst]. unfold restart, mk.
    cbn [db mem budgets gone set_db_vols d_vols d_cs d_roots d_hooks d_settings d_bal d_tip].
    rewrite mark_vols_mark.
    assert (mark_vols (unhide id (hide id (gone s))) (d_vols (db s)) = mark_vols (gone s) (d_vols (db s))) as ->.
    { unfold mark_vols. apply map_ext. intros v. rewrite file_gone_unhide, file_gone_hide.
      destruct (fst v =? id)%N eqn:E; cbn; [|rewrite Bool.andb_true_r; reflexivity].
      apply N.eqb_eq in E. rewrite E. unfold file_present in Hp. destruct (file_gone (gone s) id); [discriminate | reflexivity]. }
    reflexivity. }
  destruct (restart_transparent s Hc Hq) as [T1 T2].
  repeat split.
  - rewrite E. rewrite <- T1. reflexivity.
  - intros e. rewrite E. cbn [mem mk]. apply T2.
  - subst s2. unfold runs. cbn [fold_left step fst]. apply restart_idem.
Qed.

(* a restart stays invisible for every continuation when volume files came and went
   during the history, as long as the files that open at the stop are those of the last start *)
Lemma restart_invisible_files : forall l l',
  benign0_run init l = true -> budgets (runs init l) = [] -> files_as_loaded (runs init l) ->
  observations (restart (runs init l)) l' = observations (runs init l) l'.
Proof.
  intros l l' Hb Hq Hf. apply restart_invisible; [|exact Hq].
  split; [apply runs_coh0; [apply coh_init | exact Hb] | exact Hf].
Qed.

(* without the proviso the statement is false, as the property says: a start with a file
   missing changes what is reported *)
Definition missing_file_witness : list op := [AddVol 1 6; HideVolFile 1].

Lemma restart_not_transparent_when_file_missing :
  benign0_run init missing_file_witness = true /\ budgets (runs init missing_file_witness) = [] /\
  observe (restart (runs init missing_file_witness)) <> observe (runs init missing_file_witness).
Proof. split; [reflexivity|]. split; [reflexivity|]. vm_compute. discriminate. Qed.
