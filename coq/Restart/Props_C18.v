From HostdBase Require Import Base.
From HostdRestart Require Import Model Proofs.
Theorem c18_restart_idempotent : forall s, restart (restart s) = restart s.
Proof. exact restart_idem. Qed.
Print Assumptions c18_restart_idempotent.
Example c18_nonvacuous : restart init = init.
Proof. vm_compute. reflexivity. Qed.
