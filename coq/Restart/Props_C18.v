(* C18 — Restart is transparent.  Statements only; every proof is [exact lemma].

   The model (Model.v) is the code with fixes/C18-webhooks-load-on-start.patch,
   fixes/C18-renew-drops-cleared-roots.patch and fixes/C09-settings-cache-after-store.patch
   applied.  Two behaviours of the unchanged code violate the full statement and are kept
   in the model as they are (known findings, reproduced by the harness as cases 0 and 1):
   sector roots of contracts whose proof window has elapsed, and of renewed v2 contracts,
   leave the store but stay in contracts.Manager's cache until the next start.

   Full statement:  forall l, budgets (runs init l) = [] ->
                      observe (restart (runs init l)) = observe (runs init l).
   It is FALSE of the faithful model (c18_restart_refuted_expired, c18_restart_refuted_v2renew);
   what holds is the statement for every history that does not contain one of those two
   steps on a contract that has roots ([benign_run]).

   Partial: only the current schema is modelled; migrations from older versions are an
   abstract function here (the repository's TestMigrationConsistency covers the fixtures).
   The migrations that can be pending on the current table layout (35 to 39), and settings and
   pinned settings field by field instead of the (revision, value) pair used in this file, are
   in Settings.v / Migrations.v with their theorems in Props_C18_Reopen.v.
   Operations that return an error (store call failing after the manager's checks passed,
   injected database fault) are the model's [Failed] step: nothing changes; that the code
   really leaves nothing behind is C09's subject and is checked here by the correspondence
   and the before/after-restart monitors on histories that contain such operations.
   "No open budget/updater": a budget that is open at the stop is lost with the process in
   the code as well (its reservation is in memory only); the theorem is about stops
   between operations.

   Volumes "(available again if their files open)": the state carries the set of volume
   data files that cannot be opened ([gone]; HideVolFile / RestoreVolFile move a file away
   and back).  A start flags every stored volume available in the store and "ready" in
   memory iff its file opened (c18_volumes_after_start), so a restart is transparent exactly
   while the files that open are those that opened at the last start ([files_as_loaded],
   part of [coh]; c18_restart_transparent_files_partial for histories in which files come
   and go; c18_restart_needs_same_files shows the proviso is needed).  [benign] excludes,
   besides the two findings, a step that changes which stored volumes' files open;
   [benign0] does not. *)
From HostdBase Require Import Base.
From HostdRestart Require Import Model Proofs Proofs2 Proofs3.

(* every operation keeps what the managers hold in memory equal to what a start would load:
   sector-root cache, webhook map and scope tree, settings (with the revision), account
   map, volumes, processed tip *)
Theorem c18_coherence_partial : forall l,
  benign_run init l = true -> coh (runs init l).
Proof. exact (fun l H => runs_coh l init coh_init H). Qed.
Print Assumptions c18_coherence_partial.

Theorem c18_step_keeps_coherence : forall s o, coh s -> benign s o = true -> coh (fst (step s o)).
Proof. exact step_coh. Qed.
Print Assumptions c18_step_keeps_coherence.

(* hence a restart between operations changes no observation — contracts' sector lists,
   webhooks, settings and revision, balances, volumes, processed tip — and an event of any
   scope is delivered to exactly the same hooks afterwards *)
Theorem c18_restart_transparent_partial : forall l,
  benign_run init l = true -> budgets (runs init l) = [] ->
  observe (restart (runs init l)) = observe (runs init l) /\
  forall e, deliver (mem (restart (runs init l))) e = deliver (mem (runs init l)) e.
Proof. exact restart_after_history. Qed.
Print Assumptions c18_restart_transparent_partial.

Theorem c18_restart_transparent_state : forall s,
  coh s -> budgets s = [] ->
  observe (restart s) = observe s /\ forall e, deliver (mem (restart s)) e = deliver (mem s) e.
Proof. exact restart_transparent. Qed.
Print Assumptions c18_restart_transparent_state.

(* ... and it stays invisible: whatever operations follow — including events of any scope,
   renewals, further restarts — the host that was restarted and the one that was not
   answer every one of them identically *)
Theorem c18_restart_invisible_partial : forall l l',
  benign_run init l = true -> budgets (runs init l) = [] ->
  observations (restart (runs init l)) l' = observations (runs init l) l'.
Proof. exact (fun l l' Hb Hq => restart_invisible (runs init l) l' (runs_coh l init coh_init Hb) Hq). Qed.
Print Assumptions c18_restart_invisible_partial.

(* the state after a restart is coherent again, whatever happened before *)
Theorem c18_restart_establishes_coherence : forall s,
  NoDup (map fst (d_roots (db s))) -> NoDup (map fst (d_hooks (db s))) -> coh (restart s).
Proof. exact coh_restart. Qed.
Print Assumptions c18_restart_establishes_coherence.

Theorem c18_restart_idempotent : forall s, restart (restart s) = restart s.
Proof. exact restart_idem. Qed.
Print Assumptions c18_restart_idempotent.

(* the scope tree rebuilt at start has exactly one node per (hook, scope) *)
Theorem c18_scope_tree_rebuilt : forall hs, NoDup (map fst hs) -> tree_inv (build_tree hs) hs.
Proof. exact build_tree_inv. Qed.
Print Assumptions c18_scope_tree_rebuilt.

(* opening a database that is at the current version leaves it alone *)
Theorem c18_open_current_identity_partial : forall (data : Type) target init_new migrate v (d : data),
  v = target -> v <> 0%N -> open_store target init_new migrate v d = Ok (v, d).
Proof. exact open_current_identity. Qed.
Print Assumptions c18_open_current_identity_partial.

(* the known findings *)
Theorem c18_restart_refuted_expired :
  budgets (runs init expired_witness) = [] /\
  observe (restart (runs init expired_witness)) <> observe (runs init expired_witness).
Proof. exact restart_refuted_expired. Qed.
Print Assumptions c18_restart_refuted_expired.

Theorem c18_restart_refuted_v2renew :
  budgets (runs init v2renew_witness) = [] /\
  observe (restart (runs init v2renew_witness)) <> observe (runs init v2renew_witness).
Proof. exact restart_refuted_v2renew. Qed.
Print Assumptions c18_restart_refuted_v2renew.

(* ---- the store's rows of a v2 contract ---- *)

(* Store.ReviseV2Contract (updateV2ContractSectors: skip the positions whose root is
   unchanged, upsert the others, delete root_index >= len(new) when the list got shorter),
   applied to rows that are the list the manager has cached, leaves exactly the new list:
   no row of the old tail survives a shrink — to k > 0 roots or to none —, so what the next
   start reads back is what the running manager serves ([Commit] in Model.v computes the
   stored rows with this function; c18_step_keeps_coherence covers it) *)
Theorem c18_v2_rows_after_revision : forall old new,
  v2_rows_update (map Some old) old new = map Some new.
Proof. exact v2_rows_update_dense. Qed.
Print Assumptions c18_v2_rows_after_revision.

(* ---- volumes whose data file does not open ---- *)

(* every operation, including volume files being moved away and back, keeps memory equal
   to what a start would load from the store (a volume is "ready" iff flagged available) *)
Theorem c18_coherence_files_partial : forall l,
  benign0_run init l = true -> coh0 (runs init l).
Proof. exact (fun l H => runs_coh0 l init (proj1 coh_init) H). Qed.
Print Assumptions c18_coherence_files_partial.

(* restart transparency given the same set of openable files: whatever happened to the
   volume files during the history, if at the stop the files that open are those that
   opened at the last start, the restart changes no observation and no delivery *)
Theorem c18_restart_transparent_files_partial : forall l,
  benign0_run init l = true -> budgets (runs init l) = [] -> files_as_loaded (runs init l) ->
  observe (restart (runs init l)) = observe (runs init l) /\
  forall e, deliver (mem (restart (runs init l))) e = deliver (mem (runs init l)) e.
Proof. exact restart_after_history_files. Qed.
Print Assumptions c18_restart_transparent_files_partial.

Theorem c18_restart_invisible_files_partial : forall l l',
  benign0_run init l = true -> budgets (runs init l) = [] -> files_as_loaded (runs init l) ->
  observations (restart (runs init l)) l' = observations (runs init l) l'.
Proof. exact restart_invisible_files. Qed.
Print Assumptions c18_restart_invisible_files_partial.

(* what Volumes() reports after a start, from ANY state: every stored volume with its
   read-only flag and size as stored, flagged available and "ready" iff its file opened at
   this start *)
Theorem c18_volumes_after_start : forall s,
  volumes (restart s) =
  map (fun v => (fst v, ((fst (fst (snd v)), snd (fst (snd v)), file_present s (fst v)), file_present s (fst v))))
      (d_vols (db s)).
Proof. exact restart_volumes. Qed.
Print Assumptions c18_volumes_after_start.

(* SetReadOnly / ResizeVolume are accepted after a start iff the volume's file opened *)
Theorem c18_setreadonly_after_start : forall s id ro, In id (map fst (d_vols (db s))) ->
  snd (step (restart s) (SetRO id ro)) = ODone (file_present s id).
Proof. exact restart_setro_accepts. Qed.
Print Assumptions c18_setreadonly_after_start.

Theorem c18_resize_after_start : forall s id total, In id (map fst (d_vols (db s))) ->
  snd (step (restart s) (GrowVol id total)) = ODone (file_present s id).
Proof. exact restart_grow_accepts. Qed.
Print Assumptions c18_resize_after_start.

(* restoring the file restores availability at the next start, whatever the store said
   before; while the file is away the volume is reported unavailable *)
Theorem c18_restored_file_available : forall s id r t a,
  In (id, (r, t, a)) (d_vols (db s)) ->
  In (id, ((r, t, true), true)) (volumes (runs s [RestoreVolFile id; Restart])).
Proof. exact restored_file_available. Qed.
Print Assumptions c18_restored_file_available.

Theorem c18_hidden_file_unavailable : forall s id r t a,
  In (id, (r, t, a)) (d_vols (db s)) ->
  In (id, ((r, t, false), false)) (volumes (runs s [HideVolFile id; Restart])).
Proof. exact hidden_file_unavailable. Qed.
Print Assumptions c18_hidden_file_unavailable.

(* file away, start, file back, start: every observation and delivery is as before the
   file went away, and a further restart changes nothing at all (not even the state) *)
Theorem c18_hide_restore_roundtrip : forall s id,
  coh s -> budgets s = [] -> file_present s id = true ->
  let s2 := runs s [HideVolFile id; Restart; RestoreVolFile id; Restart] in
  observe s2 = observe s /\ (forall e, deliver (mem s2) e = deliver (mem s) e) /\ restart s2 = s2.
Proof. exact hide_restore_roundtrip. Qed.
Print Assumptions c18_hide_restore_roundtrip.

(* the proviso "if their files open" is needed: with a file missing the restart is visible *)
Theorem c18_restart_needs_same_files :
  benign0_run init missing_file_witness = true /\ budgets (runs init missing_file_witness) = [] /\
  observe (restart (runs init missing_file_witness)) <> observe (runs init missing_file_witness).
Proof. exact restart_not_transparent_when_file_missing. Qed.
Print Assumptions c18_restart_needs_same_files.

(* non-vacuity: a benign history with a v1 renewal, nested webhook scopes, two settings
   revisions and a closed budget; the hook registered for "alerts" and "alerts/info"
   receives an "alerts/info" event twice, before and after the restart *)
Example c18_nonvacuous :
  let l := [FormC 0 false 40; Commit 0 [3; 5]; RenewC 0 1 false 60; RegisterHook 1 [[1]; [1; 2]];
            RegisterHook 2 [[]]; SetSettings 7; SetSettings 8; Credit 0 100; OpenBudget 0 0 40;
            CommitBudget 0 10; Mine 3]%N in
  benign_run init l = true /\ budgets (runs init l) = [] /\
  deliver (mem (restart (runs init l))) [1; 2]%N = [1; 1; 2]%N /\
  observe (runs init l) =
    OState [(0, []); (1, [3; 5])]%N [(1, (1, [[1]; [1; 2]])); (2, (2, [[]]))]%N (1, 8)%N [(0, 90); (1, 0)]%N [] 3%N.
Proof. vm_compute. repeat split; reflexivity. Qed.

(* non-vacuity of the volume statements: two volumes, one read-only; the file of volume 1
   is away at one start (reported unavailable, SetReadOnly refused), back at the next *)
Example c18_volume_files_nonvacuous :
  let l := [AddVol 1 6; AddVol 2 4; SetRO 2 true; FormC 0 true 40; Commit 0 [3; 5]; Commit 0 [3]]%N in
  let s := runs init l in
  benign_run init l = true /\ budgets s = [] /\ file_present s 1 = true /\
  volumes s = [(1, (false, 6, true, true)); (2, (true, 4, true, true))]%N /\
  volumes (runs s [HideVolFile 1; Restart]) = [(1, (false, 6, false, false)); (2, (true, 4, true, true))]%N /\
  snd (step (runs s [HideVolFile 1; Restart]) (SetRO 1 true)) = ODone false /\
  observe (runs s [HideVolFile 1; Restart; RestoreVolFile 1; Restart]) = observe s.
Proof. vm_compute. repeat split; reflexivity. Qed.
