(* Restart/Proofs2.v — a restart is invisible for every continuation (bisimulation). *)
From HostdBase Require Import Base.
From Coq Require Import Lia ZifyBool ZifyN ZifyNat Permutation.
From HostdRestart Require Import Model Proofs.

(** * A restarted host and one that was never stopped stay indistinguishable *)
Lemma perm_filter : forall (A : Type) (f : A -> bool) l l', Permutation l l' -> Permutation (filter f l) (filter f l').
Proof.
  intros A f l l' P. induction P; cbn.
  - constructor.
  - destruct (f x); [constructor|]; exact IHP.
  - destruct (f x), (f y); try apply Permutation_refl. apply perm_swap.
  - eapply Permutation_trans; eauto.
Qed.

Lemma tree_add_perm : forall t1 t2 p id, Permutation t1 t2 -> Permutation (tree_add t1 p id) (tree_add t2 p id).
Proof.
  intros t1 t2 p id P. unfold tree_add.
  destruct (existsb (node_eqb (p, id)) t1) eqn:E1; destruct (existsb (node_eqb (p, id)) t2) eqn:E2.
  - exact P.
  - apply existsb_node in E1. apply (Permutation_in _ P) in E1. apply existsb_node in E1. congruence.
  - apply existsb_node in E2. apply (Permutation_in _ (Permutation_sym P)) in E2. apply existsb_node in E2. congruence.
  - apply Permutation_app_tail. exact P.
Qed.

Lemma add_scopes_perm : forall ss t1 t2 id, Permutation t1 t2 -> Permutation (add_scopes t1 id ss) (add_scopes t2 id ss).
Proof.
  unfold add_scopes. induction ss as [|p ss IH]; intros t1 t2 id P; cbn; [exact P|].
  apply IH. apply tree_add_perm. exact P.
Qed.

Lemma deliver_equiv : forall m1 m2 e, mequiv m1 m2 -> deliver m1 e = deliver m2 e.
Proof.
  intros m1 m2 e (_ & _ & _ & Hh & Pt & _). unfold deliver. rewrite Hh. apply deliver_perm. exact Pt.
Qed.

Lemma observe_equiv : forall s1 s2, sequiv s1 s2 -> observe s1 = observe s2.
Proof.
  intros [d1 m1 b1 g1] [d2 m2 b2 g2] (Hd & _ & Hb & _ & Hr & _ & _ & Hh & _ & Hs & Hbal & Hv & Ht). cbn in *. subst d2 b2.
  unfold observe, volumes, mem_balance, vol_ready. cbn. rewrite Hh, Hs, Hbal, Hv, Ht. f_equal.
  apply map_ext. intros c. f_equal. apply Hr.
Qed.

Ltac eqv := unfold sequiv, mequiv; cbn; repeat split; auto;
  try (apply aset_nodup; assumption); try (apply expire_nodup; assumption);
  try (apply aremove_nodup; apply aset_nodup; assumption).

Lemma step_equiv : forall s1 s2 o,
  sequiv s1 s2 ->
  snd (step s1 o) = snd (step s2 o) /\ sequiv (fst (step s1 o)) (fst (step s2 o)).
Proof.
  intros [d [r1 h1 t1 st1 bl1 v1 tp1] b g] [d2 [r2 h2 t2 st2 bl2 v2' tp2] b2 g2] o
         (Hd & Nd & Hb & Hg & Hr & N1 & N2 & Hh & Pt & Hs & Hbal & Hv & Ht).
  cbn [db mem budgets gone m_roots m_hooks m_tree m_settings m_bal m_vols m_tip] in *. subst.
  destruct o; cbn [step db mem budgets gone m_roots m_hooks m_tree m_settings m_bal m_vols m_tip fst snd].
  - split; [reflexivity | eqv].
  - cbn zeta. rewrite (Hr c). split; [reflexivity|]. eqv; try (apply aset_nodup; assumption).
    intros c'. rewrite !roots_of_aset. destruct (c' =? c)%N; auto.
  - split; [reflexivity|]. rewrite (Hr old).
    assert (NoDup (map fst (aset new (roots_of r2 old) r1))) as A1 by (apply aset_nodup; exact N1).
    assert (NoDup (map fst (aset new (roots_of r2 old) r2))) as A2 by (apply aset_nodup; exact N2).
    destruct v2; eqv; try (apply aremove_nodup; assumption).
    + intros c'. rewrite !roots_of_aset. destruct (c' =? new)%N; auto.
    + intros c'. rewrite !roots_of_aremove by assumption. rewrite !roots_of_aset. destruct (c' =? old)%N; destruct (c' =? new)%N; auto.
  - split; [reflexivity | eqv].
  - split; [reflexivity|]. eqv. apply add_scopes_perm. exact Pt.
  - destruct (alookup id (d_hooks d2)); [|split; [reflexivity | eqv]].
    destruct (alookup id h2).
    + split; [reflexivity|]. eqv. apply add_scopes_perm. unfold remove_scopes. apply perm_filter. exact Pt.
    + split; [reflexivity | eqv].
  - split; [reflexivity|]. eqv. unfold remove_scopes. apply perm_filter. exact Pt.
  - split; [|eqv]. f_equal. apply deliver_equiv. unfold mequiv. cbn. repeat split; auto.
  - split; [reflexivity | eqv].
  - unfold mem_balance. cbn [mem db m_bal]. destruct (alookup a bl2) as [[b0 n0]|]; split; try reflexivity; eqv.
  - destruct (alookup b b2); [split; [reflexivity | eqv]|].
    destruct (alookup a bl2) as [[bb n0]|].
    + destruct (bb <? amt)%N; split; try reflexivity; eqv.
    + destruct (bal_of (d_bal d2) a <? amt)%N; split; try reflexivity; eqv.
  - destruct (alookup b b2) as [[a mx]|]; [|split; [reflexivity | eqv]].
    destruct (bal_of (d_bal d2) a <? spend)%N.
    + destruct (close_budget bl2 a mx); split; try reflexivity; eqv.
    + destruct (close_budget bl2 a (mx - spend)%N); split; try reflexivity; eqv.
  - destruct (alookup b b2) as [[a mx]|]; [|split; [reflexivity | eqv]].
    destruct (close_budget bl2 a mx); split; try reflexivity; eqv.
  - destruct (alookup id (d_vols d2)); split; try reflexivity; eqv.
  - destruct (alookup id (d_vols d2)) as [[[r0 t0] a0]|]; [|split; [reflexivity | eqv]].
    unfold vol_ready. cbn [m_vols]. destruct (alookup id v2') as [[|]|]; split; try reflexivity; eqv.
  - destruct (alookup id (d_vols d2)) as [[[r0 t0] a0]|]; [|split; [reflexivity | eqv]].
    unfold vol_ready. cbn [m_vols]. destruct (alookup id v2') as [[|]|]; split; try reflexivity; eqv.
  - split; [reflexivity | eqv].
  - split; [reflexivity | eqv].
  - split; [|eqv]. apply observe_equiv. eqv.
  - split; [reflexivity|]. unfold restart, load. cbn. eqv.
  - split; [reflexivity | eqv].
  - split; [reflexivity | eqv].
  - destruct (bal_of (d_bal d2) a <? amt)%N; split; try reflexivity; eqv.
Qed.

Lemma observations_equiv : forall l s1 s2, sequiv s1 s2 -> observations s1 l = observations s2 l.
Proof.
  induction l as [|o t IH]; intros s1 s2 H; cbn; [reflexivity|].
  destruct (step_equiv s1 s2 o H) as [E1 E2]. f_equal; auto.
Qed.

Lemma restart_sequiv : forall s, coh s -> budgets s = [] -> sequiv (restart s) s.
Proof.
  intros s [H0 Hfl] Hq. pose proof (restart_db s Hfl) as Hdb.
  destruct s as [d m bs g]. destruct H0 as (Hr & Nd & Nm & Hh & Nh & Ht & Hs & (Hc & Hf) & Hv & Htip).
  cbn [db mem budgets gone] in *. subst bs.
  assert (m_bal m = []) as Hb by (apply no_budget_no_entry; [exact Hc | exact Hf]).
  assert (mem (restart {| db := d; mem := m; budgets := []; gone := g |}) = load d) as Hm.
  { unfold restart in *. cbn [db mem] in *. rewrite Hdb. reflexivity. }
  unfold sequiv. rewrite Hm, Hdb. unfold mequiv, load. cbn. repeat split; auto.
  eapply tree_inv_perm; [apply build_tree_inv; exact Nh | rewrite <- Hh; exact Ht].
Qed.

(* whatever happens after it, a restart between operations is invisible *)
Lemma restart_invisible : forall s l, coh s -> budgets s = [] ->
  observations (restart s) l = observations s l.
Proof. intros s l H Hq. apply observations_equiv. apply restart_sequiv; assumption. Qed.
