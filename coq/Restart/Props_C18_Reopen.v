(* C18 — Restart is transparent: settings and pinned settings field by field, and the schema
   migrations that can be pending when a data directory is opened.  Statements only; every
   proof is [exact lemma].

   Settings (Settings.v).  [update row cache s o] is ConfigManager.UpdateSettings on a store whose
   settings row is [row] (None: no row yet): validation with its normalisations (an empty DDNS
   provider clears IPv4, IPv6 and the options; a known provider gets its options re-encoded; the
   net address is checked, never rewritten), Store.UpdateSettings with its column encoding (uint64
   as INTEGER — a value with the high bit set is refused —, Currency as 16 bytes, float64 as REAL
   NOT NULL — a NaN is refused —, ddns_opts NULL whenever the provider is empty), the reload of the
   stored revision, and the value put into the cache.  The statement "what the manager caches is
   what a start loads" is proved for every accepted input of the Go types' ranges ([wf_settings]).
   Floats compare numerically: SQLite returns 0.0 for a stored -0.0 ([settings_norm] / [pinned_norm]
   replace a negative zero by zero and nothing else); c18_settings_cache_is_what_loads_exact is the
   bit-for-bit statement for inputs without a negative zero.  [o] carries the results of the Go
   standard library on this input (encoding/json on the provider options, net.SplitHostPort /
   ParseIP / strings.TrimSpace on the net address), computed by the harness with the real
   functions; [oracle_ok]: compacting the encoding of a struct gives it back and so does reading
   it as a json.RawMessage (checked on every recorded case by the harness).

   Migrations (Migrations.v) — partial: of "pending schema migrations preserve all of the above"
   the model carries the migrations that can be pending on the current table layout (35 to 39)
   and, of the data, the contract side (contract rows of both versions, the 19 contract metrics,
   accounts, funding sources: the state of the Contracts group) and the settings row; migrations
   of older layouts (2 to 34) rebuild tables that no longer exist and are not modelled.  The
   invariant under which recalcContractMetrics changes nothing is C05's ([Inv]: every metric is
   the sum of the per-contract contributions), proved there for every history of store operations. *)
From HostdBase Require Import Base.
Require HostdContracts.Model HostdContracts.Inv HostdContracts.ProofsC05.
From HostdRestart Require Import Model Settings SettingsProofs Migrations.
From Coq Require Import String.

(* ---- settings: the cached value is the value a start loads ---- *)

Theorem c18_settings_cache_is_what_loads : forall row cache s o row' s',
  wf_settings s -> rev_ok row -> oracle_ok o ->
  update row cache s o = Ok (row', s') ->
  store_read row' = Ok (settings_norm s') /\
  c_revision row' = match row with None => 0%Z | Some r => (c_revision r + 1)%Z end.
Proof. exact update_cache_loads. Qed.
Print Assumptions c18_settings_cache_is_what_loads.

Theorem c18_settings_cache_is_what_loads_exact : forall row cache s o row' s',
  wf_settings s -> rev_ok row -> oracle_ok o -> s_coll_mult s <> two63 ->
  update row cache s o = Ok (row', s') -> store_read row' = Ok s'.
Proof. exact update_cache_loads_exact. Qed.
Print Assumptions c18_settings_cache_is_what_loads_exact.

(* what an accepted update changes in its input: the revision, and the DNS block in one of two
   ways — switched off and cleared, or a provider with its options re-encoded *)
Theorem c18_settings_update_normalises : forall row cache s o row' s',
  update row cache s o = Ok (row', s') ->
  exists d r, s' = set_revision (set_ddns s d) r /\
    ((d_provider (s_ddns s) = [] /\ d = mkDns [] false false None) \/
     (d_provider (s_ddns s) <> [] /\
      d = mkDns (d_provider (s_ddns s)) (d_ipv4 (s_ddns s)) (d_ipv6 (s_ddns s)) (Some (o_j_canon o)))).
Proof. exact update_normalises. Qed.
Print Assumptions c18_settings_update_normalises.

(* the same for pinned settings: pin.Manager.Update caches its argument, and that is what
   Store.PinnedSettings returns at the next start *)
Theorem c18_pinned_cache_is_what_loads : forall p r p',
  pin_update p = Ok (r, p') -> pin_read r = pinned_norm p' /\ p' = p.
Proof. exact pin_update_cache_loads. Qed.
Print Assumptions c18_pinned_cache_is_what_loads.

(* every history of settings updates, pinned-settings updates (accepted or refused) and restarts
   keeps both caches equal to what a start would load ... *)
Theorem c18_settings_coherence : forall l,
  Forall op_ok l -> coh_s (List.length l) (sruns sinit l).
Proof. exact (fun l H => sruns_coh l 0 sinit coh_init H). Qed.
Print Assumptions c18_settings_coherence.

(* ... so the managers constructed by a restart report what the old ones reported *)
Theorem c18_settings_restart_after_history : forall l,
  Forall op_ok l ->
  snd (sstep (sruns sinit l) SReopen) =
    OLoaded (settings_norm (st_cache (sruns sinit l))) (pinned_norm (st_pcache (sruns sinit l))).
Proof. exact reopen_after_history. Qed.
Print Assumptions c18_settings_restart_after_history.

Theorem c18_settings_reopen_idempotent : forall st,
  fst (sstep (fst (sstep st SReopen)) SReopen) = fst (sstep st SReopen).
Proof. exact reopen_idem. Qed.
Print Assumptions c18_settings_reopen_idempotent.

(* a validateDNSSettings that keeps the options of a switched-off provider (Settings.Legacy)
   violates the statement: the cache keeps the options, the store writes NULL *)
Theorem c18_settings_cache_refuted_legacy :
  wf_settings legacy_input /\ oracle_ok legacy_oracle /\
  (exists row' s', Legacy.update None default_settings legacy_input legacy_oracle = Ok (row', s') /\
                   d_options (s_ddns s') = Some (bytes_of "{""token"":""t""}") /\
                   exists l, store_read row' = Ok l /\ d_options (s_ddns l) = None) /\
  (exists row2 s2, update None default_settings legacy_input legacy_oracle = Ok (row2, s2) /\
                   store_read row2 = Ok s2 /\ d_options (s_ddns s2) = None).
Proof. exact legacy_refuted. Qed.
Print Assumptions c18_settings_cache_refuted_legacy.

(* ---- pending migrations ---- *)

(* migrations 36, 37, 38: on every state in which the metrics are what C05 says they always
   are, recalcContractMetrics changes nothing — no contract row, no metric, no account *)
Theorem c18_recalc_migration_preserves_metrics : forall d : cdb,
  HostdContracts.Inv.Inv d -> recalc_migration d = Ok d.
Proof. exact recalc_migration_id. Qed.
Print Assumptions c18_recalc_migration_preserves_metrics.

Theorem c18_recalc_migration_after_history : forall l : list HostdContracts.Model.op,
  recalc_migration (HostdContracts.ProofsC05.after l) = Ok (HostdContracts.ProofsC05.after l).
Proof. exact recalc_after_history. Qed.
Print Assumptions c18_recalc_migration_after_history.

(* Store.init on a data directory left behind at version 34 .. 39 (current layout): every
   pending migration runs and the contract side of the database is as it was *)
Theorem c18_pending_migrations_preserve_contracts_partial : forall init_new v (d : cdb),
  HostdContracts.Inv.Inv d -> (34 <= v <= 39)%N -> open_contracts init_new v d = Ok (target, d).
Proof. exact open_contracts_id. Qed.
Print Assumptions c18_pending_migrations_preserve_contracts_partial.

Theorem c18_pending_migrations_after_history_partial : forall init_new v (l : list HostdContracts.Model.op),
  (34 <= v <= 39)%N ->
  open_contracts init_new v (HostdContracts.ProofsC05.after l) = Ok (target, HostdContracts.ProofsC05.after l).
Proof. exact open_after_history. Qed.
Print Assumptions c18_pending_migrations_after_history_partial.

(* migration 35 trims a port from the stored net address; an address the current validation
   accepts has none, so the settings row stays as it is *)
Theorem c18_migration35_keeps_validated_address : forall a o host r,
  validate_host a o = Ok tt -> migrate35 (if o_na_split_ok o then Some host else None) r = r.
Proof. exact migrate35_id. Qed.
Print Assumptions c18_migration35_keeps_validated_address.

(* a recalculation that leaves renewed v2 contracts out (Migrations.Legacy) rewrites the earned
   revenue of a host that has one: 1/2/3/4 before, 0 after; the current one leaves it alone *)
Theorem c18_recalc_migration_refuted_legacy :
  let d := HostdContracts.ProofsC05.after renewed_witness in
  HostdContracts.Model.mlist (HostdContracts.Model.mets d) =
    [0; 0; 0; 0; 1; 0; 0; 0; 0; 0; 0; 0; 0; 1; 2; 3; 4; 0; 0]%N /\
  recalc_migration d = Ok d /\
  (exists d', Migrations.Legacy.recalc_migration d = Ok d' /\
              HostdContracts.Model.mlist (HostdContracts.Model.mets d') =
                [0; 0; 0; 0; 1; 0; 0; 0; 0; 0; 0; 0; 0; 0; 0; 0; 0; 0; 0]%N).
Proof. exact legacy_recalc_refuted. Qed.
Print Assumptions c18_recalc_migration_refuted_legacy.

(* non-vacuity: dynamic DNS through duckdns with padded options is accepted, cached re-encoded
   and loaded like that; switching it off with the options still there clears them; a data
   directory at version 35 holding a renewed v2 contract with earned revenue opens unchanged *)
Example c18_reopen_nonvacuous :
  let canon := bytes_of "{""token"":""t""}" in
  let raw := bytes_of " { ""token"" : ""t"" } " in
  let o := mkOracle true true false None (Ok [bytes_of "t"]) canon (Ok canon) (Ok canon) in
  let s1 := set_ddns default_settings (mkDns (bytes_of "duckdns") true false (Some raw)) in
  let s2 := set_ddns default_settings (mkDns [] true true (Some canon)) in
  let st := sruns sinit [SUpdate s1 o; SReopen; SUpdate s2 legacy_oracle] in
  s_ddns (st_cache (sruns sinit [SUpdate s1 o])) = mkDns (bytes_of "duckdns") true false (Some canon) /\
  snd (sstep (sruns sinit [SUpdate s1 o]) SReopen) = OLoaded (st_cache (sruns sinit [SUpdate s1 o])) default_pinned /\
  s_ddns (st_cache st) = mkDns [] false false None /\ s_revision (st_cache st) = 1%N /\
  snd (sstep st SReopen) = OLoaded (st_cache st) default_pinned /\
  open_contracts (fun d => Ok d) 35 (HostdContracts.ProofsC05.after renewed_witness) =
    Ok (39%N, HostdContracts.ProofsC05.after renewed_witness).
Proof. vm_compute. repeat split; reflexivity. Qed.
