(* Restart/Proofs.v — lemmas about Restart/Model.v. *)
From HostdBase Require Import Base.
From Coq Require Import Lia ZifyBool ZifyN ZifyNat Permutation.
From HostdRestart Require Import Model.

Lemma NoDup_snoc : forall (A : Type) (l : list A) (k : A), NoDup l -> ~ In k l -> NoDup (l ++ [k]).
Proof.
  induction l as [|x t IH]; intros k ND H; cbn.
  - constructor; [tauto | constructor].
  - inversion ND; subst. constructor.
    + intros H1. apply in_app_or in H1. destruct H1 as [H1|[H1|[]]]; [auto | subst; apply H; cbn; auto].
    + apply IH; auto. intros H1. apply H. cbn. auto.
Qed.

(** * Association lists *)
Section AL.
  Variable V : Type.
  Implicit Types (l : list (N * V)) (k : N) (v : V).

  Lemma alookup_aset_eq : forall k v l, alookup k (aset k v l) = Some v.
  Proof.
    intros k v l. induction l as [|[k' v'] t IH]; cbn.
    - rewrite N.eqb_refl. reflexivity.
    - destruct (k =? k')%N eqn:E; cbn; [rewrite N.eqb_refl | rewrite E]; auto.
  Qed.

  Lemma alookup_aset_neq : forall k k' v l, k' <> k -> alookup k' (aset k v l) = alookup k' l.
  Proof.
    intros k k' v l H. induction l as [|[k2 v2] t IH]; cbn.
    - destruct (k' =? k)%N eqn:E; [apply N.eqb_eq in E; congruence | reflexivity].
    - destruct (k =? k2)%N eqn:E; cbn.
      + apply N.eqb_eq in E. subst k2. destruct (k' =? k)%N eqn:E2; [apply N.eqb_eq in E2; congruence | reflexivity].
      + destruct (k' =? k2)%N; auto.
  Qed.

  Lemma alookup_none : forall k l, alookup k l = None <-> ~ In k (map fst l).
  Proof.
    intros k l. induction l as [|[k' v'] t IH]; cbn.
    - tauto.
    - destruct (k =? k')%N eqn:E.
      + apply N.eqb_eq in E. subst. split; [discriminate | intros H; exfalso; apply H; auto].
      + apply N.eqb_neq in E. rewrite IH. split; [intros H [H1|H1]; [congruence | auto] | intros H H1; apply H; auto].
  Qed.

  Lemma alookup_some_in : forall k v l, alookup k l = Some v -> In (k, v) l.
  Proof.
    intros k v l. induction l as [|[k' v'] t IH]; cbn; [discriminate|].
    destruct (k =? k')%N eqn:E.
    - apply N.eqb_eq in E. subst. intros H. inversion H. auto.
    - auto.
  Qed.

  Lemma alookup_some_key : forall k v l, alookup k l = Some v -> In k (map fst l).
  Proof. intros k v l H. apply alookup_some_in in H. apply (in_map fst) in H. exact H. Qed.

  Lemma in_alookup : forall k v l, NoDup (map fst l) -> In (k, v) l -> alookup k l = Some v.
  Proof.
    intros k v l. induction l as [|[k' v'] t IH]; cbn; [tauto|].
    intros ND [H|H].
    - inversion H; subst. rewrite N.eqb_refl. reflexivity.
    - inversion ND; subst. destruct (k =? k')%N eqn:E.
      + apply N.eqb_eq in E. subst. exfalso. apply H2. apply (in_map fst) in H. exact H.
      + auto.
  Qed.

  Lemma aset_keys_in : forall k v l, In k (map fst l) -> map fst (aset k v l) = map fst l.
  Proof.
    intros k v l. induction l as [|[k' v'] t IH]; cbn; [tauto|].
    intros H. destruct (k =? k')%N eqn:E; cbn.
    - apply N.eqb_eq in E. subst. reflexivity.
    - f_equal. apply IH. destruct H as [H|H]; [apply N.eqb_neq in E; congruence | exact H].
  Qed.

  Lemma aset_fresh : forall k v l, ~ In k (map fst l) -> aset k v l = l ++ [(k, v)].
  Proof.
    intros k v l. induction l as [|[k' v'] t IH]; cbn; [reflexivity|].
    intros H. destruct (k =? k')%N eqn:E.
    - apply N.eqb_eq in E. subst. exfalso. apply H. auto.
    - f_equal. apply IH. intros H1. apply H. auto.
  Qed.

  Lemma aset_nodup : forall k v l, NoDup (map fst l) -> NoDup (map fst (aset k v l)).
  Proof.
    intros k v l ND. destruct (in_dec N.eq_dec k (map fst l)) as [H|H].
    - rewrite aset_keys_in; auto.
    - rewrite aset_fresh; auto. rewrite map_app. cbn.
      apply NoDup_snoc; auto.
  Qed.

  Lemma aremove_neq : forall k k' l, k' <> k -> alookup k' (aremove k l) = alookup k' l.
  Proof.
    intros k k' l H. induction l as [|[k2 v2] t IH]; cbn; [reflexivity|].
    destruct (k =? k2)%N eqn:E.
    - apply N.eqb_eq in E. subst k2. destruct (k' =? k)%N eqn:E2; [apply N.eqb_eq in E2; congruence | reflexivity].
    - cbn. destruct (k' =? k2)%N; auto.
  Qed.

  Lemma aremove_keys_incl : forall k l x, In x (map fst (aremove k l)) -> In x (map fst l).
  Proof.
    intros k l x. induction l as [|[k2 v2] t IH]; cbn; [tauto|].
    destruct (k =? k2)%N; cbn; intuition.
  Qed.

  Lemma aremove_nodup : forall k l, NoDup (map fst l) -> NoDup (map fst (aremove k l)).
  Proof.
    intros k l. induction l as [|[k2 v2] t IH]; cbn; [auto|].
    intros ND. inversion ND; subst. destruct (k =? k2)%N; cbn; [auto|].
    constructor; [|auto]. intros H. apply H1. eapply aremove_keys_incl; eauto.
  Qed.

  Lemma aremove_eq : forall k l, NoDup (map fst l) -> alookup k (aremove k l) = None.
  Proof.
    intros k l. induction l as [|[k2 v2] t IH]; cbn; [reflexivity|].
    intros ND. inversion ND; subst. destruct (k =? k2)%N eqn:E.
    - apply N.eqb_eq in E. subst. apply alookup_none. exact H1.
    - cbn. rewrite E. auto.
  Qed.

  Lemma alookup_app : forall k l l', alookup k (l ++ l') = match alookup k l with Some x => Some x | None => alookup k l' end.
  Proof.
    intros k l l'. induction l as [|[k2 v2] t IH]; cbn; [reflexivity|].
    destruct (k =? k2)%N; auto.
  Qed.
End AL.


(** * Sector-root rows: the store's update of a v2 contract's rows *)
Lemma somes_map_Some : forall l, somes (map Some l) = l.
Proof. induction l as [|x t IH]; cbn; [reflexivity | f_equal; exact IH]. Qed.

Lemma upsert_replace : forall pre r o t,
  upsert_row (List.length pre) r (map Some (pre ++ o :: t)) = map Some (pre ++ r :: t).
Proof. induction pre as [|x pre IH]; intros r o t; cbn; [reflexivity | f_equal; apply IH]. Qed.

Lemma upsert_append : forall pre r,
  upsert_row (List.length pre) r (map Some pre) = map Some (pre ++ [r]).
Proof. induction pre as [|x pre IH]; intros r; cbn; [reflexivity | f_equal; apply IH]. Qed.

(* on rows that are exactly the old list, the loop leaves exactly the new roots followed by
   the old ones past the new end *)
Lemma v2_upserts_dense : forall new old pre,
  v2_upserts (List.length pre) old new (map Some (pre ++ old)) =
  map Some (pre ++ new ++ skipn (List.length new) old).
Proof.
  induction new as [|r new IH]; intros old pre; cbn [v2_upserts]; [reflexivity|].
  destruct old as [|o old]; cbn [tl List.length skipn app].
  - rewrite app_nil_r, upsert_append.
    specialize (IH [] (pre ++ [r])). rewrite app_nil_r, app_length, Nat.add_comm in IH. cbn [List.length plus] in IH.
    rewrite IH. rewrite skipn_nil. rewrite <- app_assoc. reflexivity.
  - assert ((if (o =? r)%N then map Some (pre ++ o :: old) else upsert_row (List.length pre) r (map Some (pre ++ o :: old)))
            = map Some ((pre ++ [r]) ++ old)) as ->.
    { rewrite <- app_assoc. cbn [app]. destruct (o =? r)%N eqn:E; [apply N.eqb_eq in E; subst o; reflexivity | apply upsert_replace]. }
    specialize (IH old (pre ++ [r])). rewrite app_length, Nat.add_comm in IH. cbn [List.length plus] in IH.
    rewrite IH. rewrite <- app_assoc. reflexivity.
Qed.

(* the store's rows after ReviseV2Contract are the new list when they were the cached one:
   nothing of the old tail survives a shrink (to k > 0 roots or to none), nothing is lost
   when the list grows or is rewritten in place *)
Lemma v2_rows_update_dense : forall old new, v2_rows_update (map Some old) old new = map Some new.
Proof.
  intros old new. unfold v2_rows_update.
  pose proof (v2_upserts_dense new old []) as H. cbn [List.length app] in H. rewrite H.
  destruct (List.length new <? List.length old)%nat eqn:E.
  - rewrite firstn_map. rewrite firstn_app, Nat.sub_diag, firstn_all. cbn. rewrite app_nil_r. reflexivity.
  - apply Nat.ltb_ge in E. rewrite skipn_all2 by exact E. rewrite app_nil_r. reflexivity.
Qed.

Lemma v2_store_roots : forall old new, somes (v2_rows_update (map Some old) old new) = new.
Proof. intros. rewrite v2_rows_update_dense. apply somes_map_Some. Qed.

(** * Volume files and the available flags *)
Lemma mark_vols_mark : forall g g' vs, mark_vols g (mark_vols g' vs) = mark_vols g vs.
Proof.
  intros g g' vs. unfold mark_vols. rewrite map_map. apply map_ext. intros [id [[r t] a]]. reflexivity.
Qed.

Lemma files_ok_mark : forall g vs, files_ok g (mark_vols g vs) = true.
Proof.
  intros g vs. unfold files_ok, mark_vols. rewrite forallb_forall. intros v Hv.
  apply in_map_iff in Hv. destruct Hv as [[id [[r t] a]] [<- _]]. cbn. apply Bool.eqb_reflx.
Qed.

Lemma files_ok_fix : forall g vs, files_ok g vs = true -> mark_vols g vs = vs.
Proof.
  intros g vs H. unfold files_ok in H. rewrite forallb_forall in H. unfold mark_vols.
  rewrite <- (map_id vs) at 2. apply map_ext_in. intros [id [[r t] a]] Hv.
  specialize (H _ Hv). cbn in *. apply Bool.eqb_prop in H. subst a. reflexivity.
Qed.

Lemma mark_vols_keys : forall g vs, map fst (mark_vols g vs) = map fst vs.
Proof. intros g vs. unfold mark_vols. rewrite map_map. reflexivity. Qed.

Lemma file_gone_unhide : forall g id x, file_gone (unhide id g) x = file_gone g x && negb (x =? id)%N.
Proof.
  intros g id x. unfold file_gone, unhide. induction g as [|y g IH]; cbn; [reflexivity|].
  destruct (y =? id)%N eqn:E; cbn.
  - rewrite IH. apply N.eqb_eq in E. subst y. destruct (x =? id)%N eqn:E2; cbn; [rewrite Bool.andb_false_r; reflexivity | reflexivity].
  - rewrite IH. destruct (x =? y)%N eqn:E2; cbn; [|reflexivity].
    apply N.eqb_eq in E2. subst y. rewrite E. reflexivity.
Qed.

Lemma file_gone_hide : forall g id x, file_gone (hide id g) x = (x =? id)%N || file_gone g x.
Proof.
  intros g id x. unfold hide. change (file_gone (id :: unhide id g) x) with ((x =? id)%N || file_gone (unhide id g) x).
  rewrite file_gone_unhide. destruct (x =? id)%N; cbn; [reflexivity | apply Bool.andb_true_r].
Qed.

(* files of volumes the store does not know do not matter *)
Lemma files_ok_ext : forall g g' vs,
  (forall v, In v vs -> file_gone g' (fst v) = file_gone g (fst v)) -> files_ok g' vs = files_ok g vs.
Proof.
  intros g g' vs H. unfold files_ok. induction vs as [|v vs IH]; cbn; [reflexivity|].
  rewrite H by (left; reflexivity). f_equal. apply IH. intros x Hx. apply H. right. exact Hx.
Qed.

Lemma files_ok_app : forall g vs vs', files_ok g (vs ++ vs') = files_ok g vs && files_ok g vs'.
Proof. intros. unfold files_ok. apply forallb_app. Qed.

Lemma files_ok_aset : forall g vs id r t r' t' a,
  alookup id vs = Some (r, t, a) -> files_ok g vs = true -> files_ok g (aset id (r', t', a) vs) = true.
Proof.
  intros g vs id r t r' t' a. unfold files_ok. induction vs as [|[k [[r0 t0] a0]] vs IH]; cbn; [discriminate|].
  destruct (id =? k)%N eqn:E; cbn.
  - intros H. inversion H; subst. apply N.eqb_eq in E. subst k. auto.
  - intros H H2. apply Bool.andb_true_iff in H2. destruct H2 as [H2 H3]. rewrite H2. cbn. auto.
Qed.

Lemma vols_mem_aset : forall (vs : list (N * (bool * N * bool))) id r t r' t' a,
  alookup id vs = Some (r, t, a) ->
  map (fun v => (fst v, snd (snd v))) (aset id (r', t', a) vs) = map (fun v => (fst v, snd (snd v))) vs.
Proof.
  intros vs id r t r' t' a. induction vs as [|[k [[r0 t0] a0]] vs IH]; cbn; [discriminate|].
  destruct (id =? k)%N eqn:E; cbn.
  - intros H. inversion H; subst. apply N.eqb_eq in E. subst k. reflexivity.
  - intros H. f_equal. auto.
Qed.

Lemma restart_idem : forall s, restart (restart s) = restart s.
Proof.
  intros s. unfold restart.
  cbn [db gone set_db_vols d_vols d_cs d_roots d_hooks d_settings d_bal d_tip].
  rewrite mark_vols_mark. reflexivity.
Qed.

(* with the same files opening, a start writes nothing *)
Lemma restart_db : forall s, files_as_loaded s -> db (restart s) = db s.
Proof.
  intros [[cs r h st b v t] m bs g] H. unfold files_as_loaded in H. cbn in H.
  unfold restart. cbn [db gone set_db_vols d_vols d_cs d_roots d_hooks d_settings d_bal d_tip].
  rewrite (files_ok_fix _ _ H). reflexivity.
Qed.

(** * Sector roots *)
Lemma roots_of_aset : forall l c r c', roots_of (aset c r l) c' = if (c' =? c)%N then r else roots_of l c'.
Proof.
  intros l c r c'. unfold roots_of. destruct (c' =? c)%N eqn:E.
  - apply N.eqb_eq in E. subst c'. rewrite alookup_aset_eq. reflexivity.
  - apply N.eqb_neq in E. rewrite alookup_aset_neq; auto.
Qed.

Lemma roots_of_aremove : forall l c c', NoDup (map fst l) ->
  roots_of (aremove c l) c' = if (c' =? c)%N then [] else roots_of l c'.
Proof.
  intros l c c' ND. unfold roots_of. destruct (c' =? c)%N eqn:E.
  - apply N.eqb_eq in E. subst c'. rewrite aremove_eq; auto.
  - apply N.eqb_neq in E. rewrite aremove_neq; auto.
Qed.

Lemma expire_nodup : forall h cs r, NoDup (map fst r) -> NoDup (map fst (expire h cs r)).
Proof.
  unfold expire. intros h cs. induction cs as [|c t IH]; intros r ND; cbn; [exact ND|].
  apply IH. destruct (snd (snd c) <? h)%N; [apply aremove_nodup; exact ND | exact ND].
Qed.

(* when every contract past its window has no rows left, expiring changes no list *)
Lemma expire_benign : forall h cs r,
  NoDup (map fst r) ->
  forallb (fun c => negb (snd (snd c) <? h)%N || is_nil (roots_of r (fst c))) cs = true ->
  forall c', roots_of (expire h cs r) c' = roots_of r c'.
Proof.
  unfold expire. intros h cs. induction cs as [|c t IH]; intros r ND Hb c'; cbn; [reflexivity|].
  cbn in Hb. apply Bool.andb_true_iff in Hb. destruct Hb as [Hc Ht].
  destruct (snd (snd c) <? h)%N eqn:E; cbn in Hc.
  - assert (forall x, roots_of (aremove (fst c) r) x = roots_of r x) as Hsame.
    { intros x. rewrite roots_of_aremove by exact ND. destruct (x =? fst c)%N eqn:E2; [|reflexivity].
      apply N.eqb_eq in E2. subst x. destruct (roots_of r (fst c)); [reflexivity | discriminate]. }
    rewrite IH.
    + apply Hsame.
    + apply aremove_nodup. exact ND.
    + rewrite forallb_forall in Ht |- *. intros x Hx. rewrite Hsame. apply Ht. exact Hx.
  - apply IH; auto.
Qed.

(** * The webhook scope tree *)
Lemma path_eqb_eq : forall a b, path_eqb a b = true <-> a = b.
Proof.
  induction a as [|x a IH]; destruct b as [|y b]; cbn; try (split; [discriminate | congruence]); [tauto|].
  rewrite Bool.andb_true_iff, N.eqb_eq, IH. split; [intros [-> ->]; reflexivity | intros H; inversion H; auto].
Qed.

Lemma node_eqb_eq : forall a b, node_eqb a b = true <-> a = b.
Proof.
  intros [p i] [q j]. unfold node_eqb. cbn. rewrite Bool.andb_true_iff, path_eqb_eq, N.eqb_eq.
  split; [intros [-> ->]; reflexivity | intros H; inversion H; auto].
Qed.

Lemma existsb_node : forall x t, existsb (node_eqb x) t = true <-> In x t.
Proof.
  intros x t. rewrite existsb_exists. split.
  - intros [y [Hy E]]. apply node_eqb_eq in E. subst. exact Hy.
  - intros H. exists x. split; [exact H | apply node_eqb_eq; reflexivity].
Qed.

Lemma tree_add_in : forall t p id x, In x (tree_add t p id) <-> x = (p, id) \/ In x t.
Proof.
  intros t p id x. unfold tree_add. destruct (existsb (node_eqb (p, id)) t) eqn:E.
  - apply existsb_node in E. split; [auto | intros [->|H]; auto].
  - rewrite in_app_iff. cbn. split; [intros [H|[H|[]]]; auto | intros [H|H]; auto].
Qed.

Lemma tree_add_nodup : forall t p id, NoDup t -> NoDup (tree_add t p id).
Proof.
  intros t p id ND. unfold tree_add. destruct (existsb (node_eqb (p, id)) t) eqn:E; [exact ND|].
  apply NoDup_snoc; [exact ND|]. intros H. apply existsb_node in H. congruence.
Qed.

Lemma add_scopes_in : forall ss t id x,
  In x (add_scopes t id ss) <-> In x t \/ (snd x = id /\ In (fst x) ss).
Proof.
  unfold add_scopes. induction ss as [|p ss IH]; intros t id x; cbn.
  - tauto.
  - rewrite IH, tree_add_in. destruct x as [q j]. cbn. split.
    + intros [[H|H]|[H1 H2]]; [inversion H; subst; auto | auto | auto].
    + intros [H|[H1 [H2|H2]]]; [auto | subst; auto | auto].
Qed.

Lemma add_scopes_nodup : forall ss t id, NoDup t -> NoDup (add_scopes t id ss).
Proof.
  unfold add_scopes. induction ss as [|p ss IH]; intros t id ND; cbn; [exact ND|].
  apply IH. apply tree_add_nodup. exact ND.
Qed.

Lemma remove_scopes_in : forall t id x, In x (remove_scopes t id) <-> In x t /\ snd x <> id.
Proof.
  intros t id x. unfold remove_scopes. rewrite filter_In. rewrite Bool.negb_true_iff, N.eqb_neq. tauto.
Qed.

Lemma remove_scopes_nodup : forall t id, NoDup t -> NoDup (remove_scopes t id).
Proof. intros t id ND. unfold remove_scopes. apply NoDup_filter. exact ND. Qed.

Lemma build_tree_gen : forall hs t,
  NoDup t ->
  NoDup (fold_left (fun t h => add_scopes t (fst h) (h_scopes (snd h))) hs t) /\
  forall x, In x (fold_left (fun t h => add_scopes t (fst h) (h_scopes (snd h))) hs t) <->
            In x t \/ exists h, In (snd x, h) hs /\ In (fst x) (h_scopes h).
Proof.
  induction hs as [|[id h] hs IH]; intros t ND; cbn.
  - split; [exact ND|]. intros x. split; [auto | intros [H|[h [[] _]]]; exact H].
  - destruct (IH (add_scopes t id (h_scopes h)) (add_scopes_nodup _ _ _ ND)) as [N1 I1].
    split; [exact N1|]. intros x. rewrite I1, add_scopes_in. split.
    + intros [[H|[H1 H2]]|[h' [H1 H2]]]; [auto | right; exists h; split; [left; destruct x; cbn in *; subst; reflexivity | exact H2] | right; exists h'; auto].
    + intros [H|[h' [[H1|H1] H2]]]; [auto | inversion H1; subst; auto | right; exists h'; auto].
Qed.

Lemma build_tree_inv : forall hs, NoDup (map fst hs) -> tree_inv (build_tree hs) hs.
Proof.
  intros hs ND. unfold tree_inv, build_tree. destruct (build_tree_gen hs [] (NoDup_nil _)) as [N1 I1].
  split; [exact N1|]. intros p id. rewrite I1. cbn. split.
  - intros [[]|[h [H1 H2]]]. exists h. split; [apply in_alookup; auto | exact H2].
  - intros [h [H1 H2]]. right. exists h. split; [apply alookup_some_in; exact H1 | exact H2].
Qed.

(** * Sorting: the delivery list does not depend on the order of the tree *)
Lemma insert_comm : forall a b l, insert_sorted a (insert_sorted b l) = insert_sorted b (insert_sorted a l).
Proof.
  intros a b l. induction l as [|x t IH]; cbn.
  - destruct (a <=? b)%N eqn:E1, (b <=? a)%N eqn:E2; try reflexivity.
    + assert (a = b) by lia. subst. reflexivity.
    + lia.
  - destruct (b <=? x)%N eqn:Eb, (a <=? x)%N eqn:Ea; cbn; rewrite ?Eb, ?Ea.
    + destruct (a <=? b)%N eqn:E1, (b <=? a)%N eqn:E2; cbn; rewrite ?Eb, ?Ea; try reflexivity.
      * assert (a = b) by lia. subst. reflexivity.
      * lia.
    + destruct (a <=? b)%N eqn:E1; [lia | reflexivity].
    + destruct (b <=? a)%N eqn:E1; [lia | reflexivity].
    + f_equal. exact IH.
Qed.

Lemma sort_perm : forall l l', Permutation l l' -> sort l = sort l'.
Proof.
  unfold sort. induction 1; cbn.
  - reflexivity.
  - f_equal. exact IHPermutation.
  - apply insert_comm.
  - congruence.
Qed.

Lemma tree_inv_perm : forall t1 t2 hs, tree_inv t1 hs -> tree_inv t2 hs -> Permutation t1 t2.
Proof.
  intros t1 t2 hs [N1 I1] [N2 I2]. apply NoDup_Permutation; auto.
  intros [p id]. rewrite I1, I2. tauto.
Qed.

Lemma deliver_perm : forall hs t1 t2 e, Permutation t1 t2 ->
  sort (map (url_of hs) (matching t1 e)) = sort (map (url_of hs) (matching t2 e)).
Proof.
  intros hs t1 t2 e P. apply sort_perm. apply Permutation_map. unfold matching.
  apply Permutation_map. clear hs. induction P; cbn.
  - constructor.
  - destruct (is_prefix (fst x) e); [constructor|]; exact IHP.
  - destruct (is_prefix (fst x) e), (is_prefix (fst y) e); try apply Permutation_refl; [apply perm_swap].
  - eapply Permutation_trans; eauto.
Qed.

(** * Accounts: entries of the balance map exist only while budgets are open *)
Lemma open_count_aset : forall m a b n,
  (open_count (aset a (b, n) m) + match alookup a m with Some (_, n0) => N.to_nat n0 | None => O end
   = open_count m + N.to_nat n)%nat.
Proof.
  intros m a b n. unfold open_count. induction m as [|[a' [b' n']] t IH]; cbn.
  - lia.
  - destruct (a =? a')%N eqn:E; cbn; [lia|]. destruct (alookup a t) as [[? ?]|]; cbn in *; lia.
Qed.

Lemma open_count_aremove : forall m a,
  (open_count (aremove a m) + match alookup a m with Some (_, n0) => N.to_nat n0 | None => O end = open_count m)%nat.
Proof.
  intros m a. unfold open_count. induction m as [|[a' [b' n']] t IH]; cbn.
  - lia.
  - destruct (a =? a')%N eqn:E; cbn; [lia|]. destruct (alookup a t) as [[? ?]|]; cbn in *; lia.
Qed.

Lemma forall_aset : forall (P : N * (N * N) -> Prop) m a v,
  Forall P m -> P (a, v) -> Forall P (aset a v m).
Proof.
  intros P m a v H Hv. induction m as [|[a' v'] t IH]; cbn.
  - constructor; auto.
  - inversion H; subst. destruct (a =? a')%N; constructor; auto.
Qed.

Lemma forall_aremove : forall (P : N * (N * N) -> Prop) m a, Forall P m -> Forall P (aremove a m).
Proof.
  intros P m a H. induction m as [|[a' v'] t IH]; cbn; [constructor|].
  inversion H; subst. destruct (a =? a')%N; [auto | constructor; auto].
Qed.

Lemma forall_alookup : forall (P : N * (N * N) -> Prop) m a v, Forall P m -> alookup a m = Some v -> P (a, v).
Proof.
  intros P m a v H E. apply alookup_some_in in E. rewrite Forall_forall in H. auto.
Qed.

Lemma length_aremove_some : forall (V : Type) (l : list (N * V)) k v,
  alookup k l = Some v -> S (List.length (aremove k l)) = List.length l.
Proof.
  intros V l k v. induction l as [|[k' v'] t IH]; cbn; [discriminate|].
  destruct (k =? k')%N; cbn; [reflexivity|]. intros H. f_equal. auto.
Qed.

Lemma length_aset_none : forall (V : Type) (l : list (N * V)) k v,
  alookup k l = None -> List.length (aset k v l) = S (List.length l).
Proof.
  intros V l k v H. apply alookup_none in H. rewrite aset_fresh by exact H. rewrite app_length. cbn. lia.
Qed.

(* no open budget: the map is empty *)
Lemma no_budget_no_entry : forall m,
  open_count m = O -> Forall (fun e : N * (N * N) => (1 <= snd (snd e))%N) m -> m = [].
Proof.
  intros [|[a [b n]] t] H F; [reflexivity|]. inversion F; subst. cbn in *. lia.
Qed.

(** * next_id is fresh *)
Lemma fold_max_ge : forall l a x, In x l -> (x <= fold_left N.max l a)%N.
Proof.
  induction l as [|y t IH]; intros a x H; cbn; [destruct H|].
  destruct H as [->|H]; [|auto].
  assert (forall l a, (a <= fold_left N.max l a)%N) as G.
  { clear. induction l as [|z l IH]; intros a; cbn; [lia|]. specialize (IH (N.max a z)). lia. }
  specialize (G t (N.max a x)). lia.
Qed.

Lemma next_id_fresh : forall hs, ~ In (next_id hs) (map fst hs).
Proof.
  intros hs H. unfold next_id in H. apply (fold_max_ge _ 0%N) in H. lia.
Qed.

(** * Scope tree maintenance *)
Lemma tree_inv_upd : forall t t' hs id h,
  tree_inv t hs ->
  NoDup t' ->
  (forall x, In x t' <-> (In x t /\ snd x <> id) \/ (snd x = id /\ In (fst x) (h_scopes h))) ->
  tree_inv t' (aset id h hs).
Proof.
  intros t t' hs id h [N1 I1] N2 I2. split; [exact N2|]. intros p i. rewrite I2. cbn [fst snd].
  destruct (N.eq_dec i id) as [->|Hne].
  - rewrite alookup_aset_eq. split.
    + intros [[_ H]|[_ H]]; [congruence | exists h; auto].
    + intros [h' [H1 H2]]. inversion H1; subst. auto.
  - rewrite alookup_aset_neq by exact Hne. rewrite I1. split.
    + intros [[H _]|[H _]]; [exact H | congruence].
    + intros H. left. auto.
Qed.

Lemma tree_inv_remove : forall t hs id,
  NoDup (map fst hs) -> tree_inv t hs -> tree_inv (remove_scopes t id) (aremove id hs).
Proof.
  intros t hs id ND [N1 I1]. split; [apply remove_scopes_nodup; exact N1|].
  intros p i. rewrite remove_scopes_in. cbn [snd]. rewrite I1.
  destruct (N.eq_dec i id) as [->|Hne].
  - rewrite aremove_eq by exact ND. split; [intros [_ H]; congruence | intros [h [H _]]; discriminate].
  - rewrite aremove_neq by exact Hne. tauto.
Qed.

(** * Budgets *)
Lemma close_budget_inv : forall m a back mb,
  close_budget m a back = Ok mb ->
  Forall (fun e : N * (N * N) => (1 <= snd (snd e))%N) m ->
  (S (open_count mb) = open_count m)%nat /\ Forall (fun e : N * (N * N) => (1 <= snd (snd e))%N) mb.
Proof.
  unfold close_budget. intros m a back mb H F.
  destruct (alookup a m) as [[b n]|] eqn:E; [|discriminate].
  pose proof (forall_alookup _ _ _ _ F E) as Hn. cbn in Hn.
  destruct (n <=? 1)%N eqn:E1; inversion H; subst; clear H.
  - pose proof (open_count_aremove m a) as Hc. rewrite E in Hc. split; [lia | apply forall_aremove; exact F].
  - pose proof (open_count_aset m a (b + back)%N (n - 1)%N) as Hc. rewrite E in Hc.
    split; [lia | apply forall_aset; [exact F | cbn; lia]].
Qed.

(** * Every operation keeps the in-memory state equal to what a start would load *)
Lemma coh_restart : forall s,
  NoDup (map fst (d_roots (db s))) -> NoDup (map fst (d_hooks (db s))) -> coh (restart s).
Proof.
  intros s N1 N2. split.
  - unfold coh0, restart, load. cbn.
    pose proof (build_tree_inv _ N2) as T. repeat split; auto; apply T.
  - unfold files_as_loaded, restart. cbn. apply files_ok_mark.
Qed.

Lemma step_coh0 : forall s o, coh0 s -> benign0 s o = true -> coh0 (fst (step s o)).
Proof.
  intros [d m bs g] o (Hr & Nd & Nm & Hh & Nh & Ht & Hs & (Hc & Hf) & Hv & Htip) Hb.
  cbn [db mem budgets gone] in *.
  destruct o; cbn [step db mem budgets gone].
  - (* FormC *) unfold coh0. cbn. repeat split; auto; apply Ht.
  - (* Commit *)
    assert ((if match alookup c (d_cs d) with Some (b, _) => b | None => false end
             then somes (v2_rows_update (map Some (roots_of (d_roots d) c)) (roots_of (m_roots m) c) roots)
             else roots) = roots) as Hst.
    { destruct (match alookup c (d_cs d) with Some (b, _) => b | None => false end); [|reflexivity].
      rewrite Hr. apply v2_store_roots. }
    cbn zeta. rewrite Hst.
    unfold coh0. cbn. repeat split; auto; try apply aset_nodup; auto; try apply Ht.
    intros c'. rewrite !roots_of_aset. destruct (c' =? c)%N; auto.
  - (* RenewC *) unfold coh0. cbn [fst mk db mem budgets set_db_roots set_db_cs set_m_roots d_roots m_roots d_cs d_hooks m_hooks m_tree m_settings d_settings m_bal m_vols d_vols m_tip d_tip].
    assert (NoDup (map fst (aset new (roots_of (d_roots d) old) (d_roots d)))) as Nd1 by (apply aset_nodup; exact Nd).
    assert (NoDup (map fst (aset new (roots_of (m_roots m) old) (m_roots m)))) as Nm1 by (apply aset_nodup; exact Nm).
    repeat split; auto; try apply Ht.
    + intros c'. destruct v2.
      * cbn in Hb. rewrite roots_of_aremove by exact Nd1. rewrite !roots_of_aset. rewrite Hr.
        destruct (roots_of (d_roots d) old) eqn:Eo; [|discriminate].
        destruct (c' =? old)%N eqn:E1; destruct (c' =? new)%N eqn:E2; auto.
        apply N.eqb_eq in E1. subst c'. rewrite Hr. exact Eo.
      * rewrite !roots_of_aremove by assumption. rewrite !roots_of_aset. rewrite Hr.
        destruct (c' =? old)%N; destruct (c' =? new)%N; auto.
    + apply aremove_nodup. exact Nd1.
    + destruct v2; [exact Nm1 | apply aremove_nodup; exact Nm1].
  - (* Mine *) unfold coh0. cbn. cbn in Hb. repeat split; auto; try apply Ht.
    + intros c'. rewrite expire_benign; auto.
    + apply expire_nodup. exact Nd.
  - (* RegisterHook *)
    pose proof (next_id_fresh (d_hooks d)) as Hfresh.
    unfold coh0. cbn. rewrite Hh in *.
    assert (tree_inv (add_scopes (m_tree m) (next_id (d_hooks d)) scopes)
                     (aset (next_id (d_hooks d)) {| h_url := url; h_scopes := scopes |} (d_hooks d))) as T.
    { eapply tree_inv_upd; [exact Ht | apply add_scopes_nodup; apply Ht |].
      intros x. rewrite add_scopes_in. cbn. split.
      - intros [H|H]; [left; split; [exact H|] | right; exact H].
        intros E. destruct x as [q i]. cbn in E. subst i. destruct Ht as [_ I1]. apply I1 in H.
        destruct H as [h [H _]]. apply alookup_some_key in H. auto.
      - intros [[H _]|H]; auto. }
    rewrite (aset_fresh _ _ _ _ Hfresh) in *.
    repeat split; auto; try apply T.
    rewrite map_app. cbn. apply NoDup_snoc; auto.
  - (* UpdateHook *)
    destruct (alookup id (d_hooks d)) as [h0|] eqn:E.
    + rewrite Hh. rewrite E. unfold coh0. cbn. rewrite Hh in *.
      assert (tree_inv (add_scopes (remove_scopes (m_tree m) id) id scopes) (aset id {| h_url := url; h_scopes := scopes |} (d_hooks d))) as T.
      { eapply tree_inv_upd; [exact Ht | apply add_scopes_nodup; apply remove_scopes_nodup; apply Ht |].
        intros x. rewrite add_scopes_in, remove_scopes_in. cbn. tauto. }
      repeat split; auto; try apply aset_nodup; auto; apply T.
    + unfold coh0. cbn. repeat split; auto; apply Ht.
  - (* RemoveHook *)
    unfold coh0. cbn. rewrite Hh in *.
    pose proof (tree_inv_remove _ _ id Nh Ht) as T.
    repeat split; auto; try apply aremove_nodup; auto; apply T.
  - (* Broadcast *) unfold coh0. cbn. repeat split; auto; apply Ht.
  - (* SetSettings *) unfold coh0. cbn. repeat split; auto; apply Ht.
  - (* Credit *)
    unfold coh0. cbn.
    destruct (alookup a (m_bal m)) as [[b0 n0]|] eqn:E; cbn; repeat split; auto; try apply Ht.
    + pose proof (open_count_aset (m_bal m) a (mem_balance {| db := d; mem := m; budgets := bs; gone := g |} a + amt)%N n0) as Hc'.
      rewrite E in Hc'. unfold open_count in *. lia.
    + apply forall_aset; [exact Hf|]. apply (forall_alookup _ _ _ _ Hf E).
  - (* OpenBudget *)
    destruct (alookup b bs) as [x|] eqn:Eb.
    { unfold coh0. cbn. repeat split; auto; apply Ht. }
    destruct (alookup a (m_bal m)) as [[b0 n0]|] eqn:E.
    + destruct (b0 <? amt)%N; unfold coh0; cbn; repeat split; auto; try apply Ht.
      * rewrite length_aset_none by exact Eb.
        pose proof (open_count_aset (m_bal m) a (b0 - amt)%N (n0 + 1)%N) as Hc'. rewrite E in Hc'. unfold open_count in *. lia.
      * apply forall_aset; [exact Hf | cbn; lia].
    + destruct (bal_of (d_bal d) a <? amt)%N; unfold coh0; cbn; repeat split; auto; try apply Ht.
      * rewrite length_aset_none by exact Eb.
        pose proof (open_count_aset (m_bal m) a (bal_of (d_bal d) a - amt)%N 1%N) as Hc'. rewrite E in Hc'. unfold open_count in *. lia.
      * apply forall_aset; [exact Hf | cbn; lia].
  - (* CommitBudget *)
    destruct (alookup b bs) as [[a mx]|] eqn:Eb.
    2:{ unfold coh0. cbn. repeat split; auto; apply Ht. }
    pose proof (length_aremove_some _ _ _ _ Eb) as Hl.
    destruct (bal_of (d_bal d) a <? spend)%N.
    + destruct (close_budget (m_bal m) a mx) as [mb| |] eqn:Ec.
      * destruct (close_budget_inv _ _ _ _ Ec Hf) as [C1 C2]. unfold coh0. cbn. repeat split; auto; try apply Ht. unfold open_count in *. lia.
      * unfold coh0. cbn. repeat split; auto; apply Ht.
      * unfold coh0. cbn. repeat split; auto; apply Ht.
    + destruct (close_budget (m_bal m) a (mx - spend)%N) as [mb| |] eqn:Ec.
      * destruct (close_budget_inv _ _ _ _ Ec Hf) as [C1 C2]. unfold coh0. cbn. repeat split; auto; try apply Ht. unfold open_count in *. lia.
      * unfold coh0. cbn. repeat split; auto; apply Ht.
      * unfold coh0. cbn. repeat split; auto; apply Ht.
  - (* RollbackBudget *)
    destruct (alookup b bs) as [[a mx]|] eqn:Eb.
    2:{ unfold coh0. cbn. repeat split; auto; apply Ht. }
    pose proof (length_aremove_some _ _ _ _ Eb) as Hl.
    destruct (close_budget (m_bal m) a mx) as [mb| |] eqn:Ec.
    + destruct (close_budget_inv _ _ _ _ Ec Hf) as [C1 C2]. unfold coh0. cbn. repeat split; auto; try apply Ht. unfold open_count in *. lia.
    + unfold coh0. cbn. repeat split; auto; apply Ht.
    + unfold coh0. cbn. repeat split; auto; apply Ht.
  - (* AddVol *)
    destruct (alookup id (d_vols d)) as [x|] eqn:E.
    + unfold coh0. cbn. repeat split; auto; apply Ht.
    + unfold coh0. cbn. repeat split; auto; try apply Ht. rewrite map_app. cbn. congruence.
  - (* SetRO *)
    destruct (alookup id (d_vols d)) as [[[r0 t0] a0]|] eqn:E.
    2:{ unfold coh0. cbn. repeat split; auto; apply Ht. }
    destruct (vol_ready m id); unfold coh0; cbn; repeat split; auto; try apply Ht.
    rewrite (vols_mem_aset _ _ _ _ _ _ _ E). exact Hv.
  - (* GrowVol *)
    destruct (alookup id (d_vols d)) as [[[r0 t0] a0]|] eqn:E.
    2:{ unfold coh0. cbn. repeat split; auto; apply Ht. }
    destruct (vol_ready m id); unfold coh0; cbn; repeat split; auto; try apply Ht.
    rewrite (vols_mem_aset _ _ _ _ _ _ _ E). exact Hv.
  - (* HideVolFile *) unfold coh0. cbn. repeat split; auto; apply Ht.
  - (* RestoreVolFile *) unfold coh0. cbn. repeat split; auto; apply Ht.
  - (* Observe *) unfold coh0. cbn. repeat split; auto; apply Ht.
  - (* Restart *) apply (coh_restart {| db := d; mem := m; budgets := bs; gone := g |}); assumption.
  - (* Failed *) unfold coh0. cbn. repeat split; auto; apply Ht.
  - (* Credit4 *) unfold coh0. cbn. repeat split; auto; apply Ht.
  - (* Debit4 *) destruct (bal_of (d_bal d) a <? amt)%N; unfold coh0; cbn; repeat split; auto; apply Ht.
Qed.

(* the files that open are those that opened at the last start: kept by every step that
   leaves the files of stored volumes alone, re-established by a start *)
Lemma step_files : forall s o,
  files_as_loaded s -> benign s o = true -> files_as_loaded (fst (step s o)).
Proof.
  intros [d m bs g] o Hf Hb. unfold files_as_loaded in *. cbn [db gone] in Hf.
  unfold benign in Hb. apply Bool.andb_true_iff in Hb. destruct Hb as [_ Hb].
  destruct o; cbn [step db mem budgets gone fst]; try exact Hf;
    repeat match goal with
    | |- context [match ?x with _ => _ end] => destruct x eqn:?
    | |- context [if ?x then _ else _] => destruct x eqn:?
    end; cbn [mk fst db gone set_db_cs set_db_roots set_db_hooks set_db_settings set_db_bal set_db_vols set_db_tip d_vols]; try exact Hf; try exact Hb.
  - (* AddVol *)
    rewrite files_ok_app. apply Bool.andb_true_iff. split.
    + rewrite <- Hf. apply files_ok_ext. intros v Hv. rewrite file_gone_unhide.
      destruct (fst v =? id)%N eqn:E; [|apply Bool.andb_true_r].
      apply N.eqb_eq in E. subst id. exfalso.
      match goal with H : alookup _ _ = None |- _ => apply alookup_none in H; apply H end.
      apply in_map. exact Hv.
    + cbn. rewrite file_gone_unhide, N.eqb_refl, Bool.andb_false_r. reflexivity.
  - (* SetRO *) eapply files_ok_aset; eauto.
  - (* GrowVol *) eapply files_ok_aset; eauto.
  - (* Restart *) apply files_ok_mark.
Qed.

Lemma benign_benign0 : forall s o, benign s o = true -> benign0 s o = true.
Proof. intros s o H. unfold benign in H. apply Bool.andb_true_iff in H. apply H. Qed.

Lemma step_coh : forall s o, coh s -> benign s o = true -> coh (fst (step s o)).
Proof.
  intros s o [H0 Hf] Hb. split; [apply step_coh0; [exact H0 | apply benign_benign0; exact Hb] | apply step_files; assumption].
Qed.

Lemma runs_coh0 : forall l s, coh0 s -> benign0_run s l = true -> coh0 (runs s l).
Proof.
  unfold runs. induction l as [|o t IH]; intros s H Hb; cbn; [exact H|].
  cbn in Hb. apply Bool.andb_true_iff in Hb. destruct Hb as [H1 H2].
  apply IH; [apply step_coh0; assumption | exact H2].
Qed.

Lemma runs_coh : forall l s, coh s -> benign_run s l = true -> coh (runs s l).
Proof.
  unfold runs. induction l as [|o t IH]; intros s H Hb; cbn; [exact H|].
  cbn in Hb. apply Bool.andb_true_iff in Hb. destruct Hb as [H1 H2].
  apply IH; [apply step_coh; assumption | exact H2].
Qed.

(** * Restart is transparent *)
Lemma restart_transparent : forall s,
  coh s -> budgets s = [] ->
  observe (restart s) = observe s /\ forall e, deliver (mem (restart s)) e = deliver (mem s) e.
Proof.
  intros s [H0 Hfl] Hq. pose proof (restart_db s Hfl) as Hdb.
  destruct s as [d m bs g]. destruct H0 as (Hr & Nd & Nm & Hh & Nh & Ht & Hs & (Hc & Hf) & Hv & Htip).
  cbn [db mem budgets gone] in *. subst bs.
  assert (m_bal m = []) as Hb by (apply no_budget_no_entry; [exact Hc | exact Hf]).
  assert (mem (restart {| db := d; mem := m; budgets := []; gone := g |}) = load d) as Hm.
  { unfold restart in *. cbn [db mem] in *. rewrite Hdb. reflexivity. }
  split.
  - unfold observe, volumes. rewrite Hm, Hdb. unfold load, mem_balance, vol_ready. cbn. rewrite Hb, Hh, Hs, Htip, Hv. f_equal.
    apply map_ext. intros c. f_equal. symmetry. apply Hr.
  - intros e. rewrite Hm. unfold deliver, load. cbn. rewrite Hh.
    apply deliver_perm. eapply tree_inv_perm; [apply build_tree_inv; exact Nh | rewrite <- Hh; exact Ht].
Qed.

Lemma coh_init : coh init.
Proof. change init with (restart init). apply coh_restart; cbn; constructor. Qed.

Lemma restart_after_history : forall l,
  benign_run init l = true -> budgets (runs init l) = [] ->
  observe (restart (runs init l)) = observe (runs init l) /\
  forall e, deliver (mem (restart (runs init l))) e = deliver (mem (runs init l)) e.
Proof.
  intros l Hb Hq. apply restart_transparent; [apply runs_coh; [apply coh_init | exact Hb] | exact Hq].
Qed.

(* volume files may come and go during the history: what matters is that, at the stop, the
   files that open are those that opened at the last start *)
Lemma restart_after_history_files : forall l,
  benign0_run init l = true -> budgets (runs init l) = [] -> files_as_loaded (runs init l) ->
  observe (restart (runs init l)) = observe (runs init l) /\
  forall e, deliver (mem (restart (runs init l))) e = deliver (mem (runs init l)) e.
Proof.
  intros l Hb Hq Hf. apply restart_transparent; [|exact Hq].
  split; [apply runs_coh0; [apply coh_init | exact Hb] | exact Hf].
Qed.

(** * The two known findings, as witnesses *)
Definition expired_witness : list op := [FormC 0 false 4; Commit 0 [7%N]; Mine 6].
Definition v2renew_witness : list op := [FormC 0 true 40; Commit 0 [7%N]; RenewC 0 1 true 60].

Lemma restart_refuted_expired :
  budgets (runs init expired_witness) = [] /\
  observe (restart (runs init expired_witness)) <> observe (runs init expired_witness).
Proof. split; [reflexivity|]. vm_compute. discriminate. Qed.

Lemma restart_refuted_v2renew :
  budgets (runs init v2renew_witness) = [] /\
  observe (restart (runs init v2renew_witness)) <> observe (runs init v2renew_witness).
Proof. split; [reflexivity|]. vm_compute. discriminate. Qed.

(** * Opening a database of the current version *)
Lemma open_current_identity : forall (data : Type) target init_new migrate v (d : data),
  v = target -> v <> 0%N -> open_store target init_new migrate v d = Ok (v, d).
Proof.
  intros data target init_new migrate v d -> Hz. unfold open_store.
  destruct (target =? 0)%N eqn:E; [apply N.eqb_eq in E; congruence|].
  rewrite N.ltb_irrefl. reflexivity.
Qed.
