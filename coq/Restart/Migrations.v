(* Restart/Migrations.v — the schema migrations that can be pending on a data directory whose
   tables already have the current layout (persist/sqlite/migrations.go, the tail of the list):

     35  trims the port from host_settings.net_address (net.SplitHostPort)
     36, 37, 38  recalcContractMetrics (persist/sqlite/recalc.go) — also the last step of 28
     39  CREATE INDEX IF NOT EXISTS

   and Store.init / upgradeDatabase (Model.open_store) instantiated with them.  The contract
   side of the database — contract rows of both versions, the 19 contract metrics, accounts and
   their funding sources — is the state of the Contracts group (HostdContracts.Model), whose
   invariant [Inv] (every metric is the sum of the per-contract contributions) is what C05 proves
   for every history.  Older migrations rebuild tables of older layouts and are not modelled. *)
From HostdBase Require Import Base.
Require HostdContracts.Model HostdContracts.Inv HostdContracts.InvOps HostdContracts.ProofsC05.
From HostdRestart Require Import Model Settings SettingsProofs.
From Coq Require Import Lia ZifyBool ZifyN.
Local Open Scope N_scope.

Module C := HostdContracts.Model.
Module CI := HostdContracts.Inv.

Definition cdb := C.state.

(* a migration runs in one transaction: an error or a panic leaves nothing behind *)
Definition of_rs {A} (r : C.rs A) : res A :=
  match r with C.ROk a => Ok a | C.RErr => Err EOther | C.RPanic _ => Panic end.

(* migrateVersion36 / 37 / 38 *)
Definition recalc_migration (d : cdb) : res cdb := of_rs (C.exec C.Recalc d).

Definition target : N := 39.          (* len(migrations) + 1 *)

(* migrations[v-1], taking version v to v+1, on the contract side of the database *)
Definition migrate_tail (v : N) (d : cdb) : res cdb :=
  if v =? 34 then Ok d                                          (* 35: host_settings only *)
  else if (v =? 35) || (v =? 36) || (v =? 37) then recalc_migration d
  else if v =? 38 then Ok d                                     (* 39: an index *)
  else Err EOther.                                              (* older layouts: not modelled *)

Definition open_contracts (init_new : cdb -> res cdb) (v : N) (d : cdb) : res (N * cdb) :=
  open_store target init_new migrate_tail v d.

(** * the recalculation changes nothing where the C05 invariant holds *)
Lemma recalc_migration_id d : CI.Inv d -> recalc_migration d = Ok d.
Proof.
  intros H. unfold recalc_migration; cbn [C.exec of_rs].
  rewrite (HostdContracts.InvOps.recalc_noop d H). destruct d; reflexivity.
Qed.

Lemma upgrade_id (data : Type) tgt (migrate : N -> data -> res data) d : forall fuel v,
  (forall u, v <= u -> u < tgt -> migrate u d = Ok d) -> v + N.of_nat fuel = tgt ->
  upgrade tgt migrate fuel v d = Ok (tgt, d).
Proof.
  induction fuel as [|f IH]; intros v Hm Hv; cbn [upgrade].
  - f_equal. f_equal. lia.
  - destruct (v <? tgt) eqn:E; [|lia].
    rewrite (Hm v); [|lia|lia]. cbn [bind]. apply IH; [|lia].
    intros u H1 H2. apply Hm; lia.
Qed.

Lemma migrate_tail_id d u : CI.Inv d -> 34 <= u -> u < 39 -> migrate_tail u d = Ok d.
Proof.
  intros H H1 H2. pose proof (recalc_migration_id d H) as Hr.
  assert (Hc : u = 34 \/ u = 35 \/ u = 36 \/ u = 37 \/ u = 38) by lia.
  unfold migrate_tail. destruct Hc as [->|[->|[->|[->| ->]]]]; cbn -[recalc_migration]; auto.
Qed.

Lemma open_contracts_id init_new v d :
  CI.Inv d -> 34 <= v <= 39 -> open_contracts init_new v d = Ok (target, d).
Proof.
  intros H Hv. unfold open_contracts, open_store, target.
  destruct (v =? 0) eqn:E0; [lia|].
  destruct (v <? 39) eqn:E1.
  - apply upgrade_id; [|lia]. intros u H1 H2. apply migrate_tail_id; [exact H|lia|lia].
  - destruct (39 <? v) eqn:E2; [lia|]. f_equal. f_equal. lia.
Qed.

(* ... hence after every history of store operations *)
Lemma open_after_history init_new v (l : list C.op) :
  34 <= v <= 39 ->
  open_contracts init_new v (HostdContracts.ProofsC05.after l) = Ok (target, HostdContracts.ProofsC05.after l).
Proof. intros Hv. apply open_contracts_id; [apply HostdContracts.InvOps.run_inv|exact Hv]. Qed.

Lemma recalc_after_history (l : list C.op) :
  recalc_migration (HostdContracts.ProofsC05.after l) = Ok (HostdContracts.ProofsC05.after l).
Proof. apply recalc_migration_id, HostdContracts.InvOps.run_inv. Qed.

(* what the outside sees of the contract side (contract rows, the 19 metrics) is unchanged *)
Lemma open_snapshot init_new v d d' :
  CI.Inv d -> 34 <= v <= 39 -> open_contracts init_new v d = Ok (target, d') -> C.snapshot d' = C.snapshot d.
Proof. intros H Hv Ho. rewrite (open_contracts_id init_new v d H Hv) in Ho. inversion Ho; reflexivity. Qed.

(** * migration 35 and the settings row *)
(* host, _, err := net.SplitHostPort(net_address); err != nil: nothing — else net_address = host *)
Definition migrate35 (split : option str) (r : srow) : srow :=
  match split with
  | None => r
  | Some host =>
      mkRow (c_revision r) (c_accepting r) host (c_contract_price r) (c_base_rpc r) (c_sector_access r)
        (c_coll_mult r) (c_max_coll r) (c_storage r) (c_egress r) (c_ingress r) (c_max_acct_balance r)
        (c_acct_age r) (c_pt_validity r) (c_maxdur r) (c_window r) (c_ingress_limit r) (c_egress_limit r)
        (c_registry_limit r) (c_ddns_provider r) (c_ddns_v4 r) (c_ddns_v6 r) (c_ddns_opts r) (c_cache r)
  end.

(* an address the current validateHostname accepts has no port to trim *)
Lemma validated_host_has_no_port a o : validate_host a o = Ok tt -> o_na_split_ok o = false.
Proof.
  unfold validate_host. destruct (is_nil a); [discriminate|].
  match goal with |- context [str_eqb a ?l] => destruct (str_eqb a l); [discriminate|] end.
  destruct (o_na_split_ok o); [discriminate|reflexivity].
Qed.

Lemma migrate35_id a o host r :
  validate_host a o = Ok tt -> migrate35 (if o_na_split_ok o then Some host else None) r = r.
Proof. intros H. now rewrite (validated_host_has_no_port a o H). Qed.

(** * Legacy: a recalculation that forgets renewed v2 contracts *)
Module Legacy.
  Definition recalc_v2 (acc : N * C.usage * C.usage) (c : C.c2) :=
    C.recalc_row (C.st2_eqb (C.s2 c) C.A2) (C.st2_eqb (C.s2 c) C.S2) (C.locked2 c) (C.v2usage (C.use2 c)) acc.
  Definition recalc (s : C.state) : C.metrics :=
    let '(tl, tp, te) := fold_left recalc_v2 (C.cs2 s) (fold_left C.recalc_v1 (C.cs1 s) (0, C.uzero, C.uzero)) in
    let m := C.mets s in
    C.mkM (C.nAct m) (C.nRej m) (C.nSucc m) (C.nFail m) (C.nRen m) tl (C.uRisk tp)
        (C.uRpc tp) (C.uSto tp) (C.uIng tp) (C.uEgr tp) (C.uRR tp) (C.uRW tp)
        (C.uRpc te) (C.uSto te) (C.uIng te) (C.uEgr te) (C.uRR te) (C.uRW te).
  Definition recalc_migration (d : cdb) : res cdb :=
    Ok (C.mkS (C.cs1 d) (C.cs2 d) (recalc d) (C.accts d) (C.fund1 d) (C.fund2 d)).
End Legacy.

(* a v2 contract with usage is formed, confirmed and renewed; the renewal is confirmed *)
Definition renewed_witness : list C.op :=
  [C.AddV2 1 1 20 1 (C.mkU 1 2 3 4 0 0 0 1);
   C.Chain [] [((2, 1), C.mkCh [] [] [] [] [(1, 1)] [] [] [] [], None)];
   C.Chain [] [((3, 2), C.mkCh [] [] [] [] [] [] [] [1] [], None)]].

Lemma legacy_recalc_refuted :
  let d := HostdContracts.ProofsC05.after renewed_witness in
  C.mlist (C.mets d) = [0; 0; 0; 0; 1; 0; 0; 0; 0; 0; 0; 0; 0; 1; 2; 3; 4; 0; 0] /\
  recalc_migration d = Ok d /\
  (exists d', Legacy.recalc_migration d = Ok d' /\
              C.mlist (C.mets d') = [0; 0; 0; 0; 1; 0; 0; 0; 0; 0; 0; 0; 0; 0; 0; 0; 0; 0; 0]).
Proof.
  cbv zeta. split; [vm_compute; reflexivity|]. split; [apply recalc_after_history|].
  eexists. split; [reflexivity|]. vm_compute. reflexivity.
Qed.
