(* Restart/Model.v — what each manager keeps in memory, how it is maintained by the
   operations and how it is rebuilt from the store when the host starts:

     host/contracts/manager.go   NewManager (sector-root cache <- Store.SectorRoots/V2SectorRoots),
                                 ContractUpdater.Commit, ReviseV2Contract, RenewContract,
                                 RenewV2Contract, ProcessActions (ExpireContractSectors)
     webhooks/webhooks.go        NewManager (hooks + scope tree <- Store.Webhooks), Register/
                                 Update/RemoveWebhook, findMatchingHooks/BroadcastEvent
     host/settings/settings.go   NewConfigManager (settings <- Store.Settings), UpdateSettings
     host/accounts/accounts.go   NewManager (empty balance map), Credit, Budget; budget.go
     host/contracts/accounts.go  CreditAccountsWithContract, DebitAccount (RHP4: store only;
                                 persist/sqlite/accounts.go RHP4CreditAccounts, RHP4DebitAccount)
     host/storage/storage.go     NewVolumeManager/loadVolumes (a volume whose data file does not
                                 open is flagged unavailable in the store and kept with status
                                 "unavailable"; one that opens is flagged available and "ready"),
                                 AddVolume, SetReadOnly, ResizeVolume (grow), Volumes/Volume
     index/manager.go            NewManager (tip <- Store.Tip), syncDB
     persist/sqlite/init.go      Store.init on a database of the current version

   The model follows the code WITH fixes/C18-webhooks-load-on-start.patch,
   fixes/C18-renew-drops-cleared-roots.patch and fixes/C09-settings-cache-after-store.patch
   applied.  Two behaviours of the unchanged code are kept as they are (known findings):
   sector roots of contracts whose window elapsed, and of renewed v2 contracts, are removed
   from the store but stay in the manager's cache until the next start.  No proofs here. *)
From HostdBase Require Import Base.
From Coq Require Import Permutation.
Set Implicit Arguments.

(** * State *)
Definition path := list N.                 (* a webhook scope; [] is "all" *)
Record hook := { h_url : N; h_scopes : list path }.

Record dbs := {
  d_cs : list (N * (bool * N));            (* contract -> (v2?, end of proof window / expiration) *)
  d_roots : list (N * list N);             (* contract -> sector roots (no entry = no rows) *)
  d_hooks : list (N * hook);
  d_settings : option (N * N);             (* revision, value *)
  d_bal : list (N * N);                    (* account -> balance *)
  d_vols : list (N * (bool * N * bool));   (* volume -> (read-only, total sectors, available) *)
  d_tip : N                                (* processed chain height *)
}.

Record mems := {
  m_roots : list (N * list N);             (* contracts.Manager.sectorRoots *)
  m_hooks : list (N * hook);               (* webhooks.Manager.hooks *)
  m_tree : list (path * N);                (* webhooks.Manager.scopes: (node, hook id) *)
  m_settings : N * N;                      (* ConfigManager.settings: revision, value *)
  m_bal : list (N * (N * N));              (* AccountManager.balances: (balance, open budgets) *)
  m_vols : list (N * bool);                (* VolumeManager.volumes: id -> status is "ready" (else "unavailable") *)
  m_tip : N                                (* index.Manager.index *)
}.

Record state := {
  db : dbs;
  mem : mems;
  budgets : list (N * (N * N));            (* open budgets: id -> (account, max) *)
  gone : list N                            (* the file system: volumes whose data file cannot be opened *)
}.

Definition init_db : dbs :=
  {| d_cs := []; d_roots := []; d_hooks := []; d_settings := None; d_bal := []; d_vols := []; d_tip := 0 |}.

Definition roots_of (l : list (N * list N)) (c : N) : list N :=
  match alookup c l with Some r => r | None => [] end.

(** * Sector-root rows of a v2 contract *)
(* rows by root_index: position = index, None = no row at that index *)
(* SELECT ... ORDER BY root_index: the rows that exist, in index order *)
Fixpoint somes (l : list (option N)) : list N :=
  match l with
  | [] => []
  | Some x :: t => x :: somes t
  | None :: t => somes t
  end.

(* INSERT INTO contract_v2_sector_roots (contract_id, sector_id, root_index) VALUES (?, ?, i)
   ON CONFLICT (contract_id, root_index) DO UPDATE SET sector_id=excluded.sector_id *)
Fixpoint upsert_row (i : nat) (r : N) (rows : list (option N)) : list (option N) :=
  match i, rows with
  | O, [] => [Some r]
  | O, _ :: t => Some r :: t
  | S i', [] => None :: upsert_row i' r []
  | S i', x :: t => x :: upsert_row i' r t
  end.

(* updateV2ContractSectors, the loop from index i on ([old] is oldRoots[i:]): a root that
   equals the old root at its index is skipped, every other one is upserted at its index *)
Fixpoint v2_upserts (i : nat) (old new : list N) (rows : list (option N)) : list (option N) :=
  match new with
  | [] => rows
  | r :: new' =>
      let rows' := match old with
                   | o :: _ => if (o =? r)%N then rows else upsert_row i r rows
                   | [] => upsert_row i r rows
                   end in
      v2_upserts (S i) (tl old) new' rows'
  end.

(* ... then, if the list got shorter, DELETE ... WHERE root_index >= len(newRoots).
   [old] is what the caller (contracts.Manager) passes as oldRoots: its cached list *)
Definition v2_rows_update (rows : list (option N)) (old new : list N) : list (option N) :=
  let rows' := v2_upserts 0 old new rows in
  if (List.length new <? List.length old)%nat then firstn (List.length new) rows' else rows'.

Definition bal_of (l : list (N * N)) (a : N) : N :=
  match alookup a l with Some b => b | None => 0%N end.

(** * Webhook scope tree *)
Fixpoint path_eqb (a b : path) : bool :=
  match a, b with
  | [], [] => true
  | x :: a', y :: b' => (x =? y)%N && path_eqb a' b'
  | _, _ => false
  end.

Fixpoint is_prefix (p e : path) : bool :=
  match p, e with
  | [], _ => true
  | x :: p', y :: e' => (x =? y)%N && is_prefix p' e'
  | _ :: _, [] => false
  end.

Definition node_eqb (a b : path * N) : bool := path_eqb (fst a) (fst b) && (snd a =? snd b)%N.

(* parent.hooks[id] = true: a set *)
Definition tree_add (t : list (path * N)) (p : path) (id : N) : list (path * N) :=
  if existsb (node_eqb (p, id)) t then t else t ++ [(p, id)].

(* addHookScopes *)
Definition add_scopes (t : list (path * N)) (id : N) (ss : list path) : list (path * N) :=
  fold_left (fun t p => tree_add t p id) ss t.

(* removeHookScopes *)
Definition remove_scopes (t : list (path * N)) (id : N) : list (path * N) :=
  filter (fun n => negb (snd n =? id)%N) t.

(* NewManager (patched): every stored hook is put into the map and the tree *)
Definition build_tree (hs : list (N * hook)) : list (path * N) :=
  fold_left (fun t h => add_scopes t (fst h) (h_scopes (snd h))) hs [].

(* findMatchingHooks: the hooks registered at the root and at every node on the way down *)
Definition matching (t : list (path * N)) (e : path) : list N :=
  map snd (filter (fun n => is_prefix (fst n) e) t).

Fixpoint insert_sorted (x : N) (l : list N) : list N :=
  match l with
  | [] => [x]
  | y :: t => if (x <=? y)%N then x :: l else y :: insert_sorted x t
  end.
Definition sort (l : list N) : list N := fold_right insert_sorted [] l.

Definition url_of (hs : list (N * hook)) (id : N) : N :=
  match alookup id hs with Some h => h_url h | None => 0%N end.

(* BroadcastEvent: one delivery per matching (node, hook); reported by callback URL *)
Definition deliver (m : mems) (e : path) : list N :=
  sort (map (url_of (m_hooks m)) (matching (m_tree m) e)).

Definition next_id (hs : list (N * hook)) : N := (fold_left N.max (map fst hs) 0 + 1)%N.

(** * Volume files *)
Definition file_gone (g : list N) (id : N) : bool := existsb (N.eqb id) g.
Definition unhide (id : N) (g : list N) : list N := filter (fun x => negb (x =? id)%N) g.
Definition hide (id : N) (g : list N) : list N := id :: unhide id g.

(* loadVolumes, store side: SetAvailable(id, OpenVolume succeeded) for every stored volume *)
Definition mark_vols (g : list N) (vs : list (N * (bool * N * bool))) : list (N * (bool * N * bool)) :=
  map (fun v => (fst v, (fst (fst (snd v)), snd (fst (snd v)), negb (file_gone g (fst v))))) vs.

(* the store's available flags are those a start would write now: the same files open
   as at the last start (or when the volume was added) *)
Definition files_ok (g : list N) (vs : list (N * (bool * N * bool))) : bool :=
  forallb (fun v => Bool.eqb (snd (snd v)) (negb (file_gone g (fst v)))) vs.

(** * What a start loads *)
(* [d] is the store after loadVolumes wrote the available flags; a volume is "ready" iff
   its file opened, i.e. iff it has just been flagged available *)
Definition load (d : dbs) : mems :=
  {| m_roots := d_roots d;   (* a contract without rows reads as the empty list either way *)
     m_hooks := d_hooks d;
     m_tree := build_tree (d_hooks d);
     m_settings := match d_settings d with Some rv => rv | None => (0%N, 0%N) end;
     m_bal := [];
     m_vols := map (fun v => (fst v, snd (snd v))) (d_vols d);
     m_tip := d_tip d |}.

Definition init : state := {| db := init_db; mem := load init_db; budgets := []; gone := [] |}.

(** * Operations *)
Inductive op :=
| FormC (c : N) (v2 : bool) (wend : N)
| Commit (c : N) (roots : list N)             (* updater commit / ReviseV2Contract: new list *)
| RenewC (old new : N) (v2 : bool) (wend : N)
| Mine (n : N)
| RegisterHook (url : N) (scopes : list path)
| UpdateHook (id url : N) (scopes : list path)
| RemoveHook (id : N)
| Broadcast (e : path)
| SetSettings (v : N)
| Credit (a amt : N)
| OpenBudget (b a amt : N)
| CommitBudget (b spend : N)
| RollbackBudget (b : N)
| AddVol (id total : N)
| SetRO (id : N) (ro : bool)
| GrowVol (id total : N)                      (* ResizeVolume to a larger size *)
| HideVolFile (id : N)                        (* the volume's data file is moved away *)
| RestoreVolFile (id : N)                     (* ... and brought back *)
| Observe
| Restart
  (* an operation of any kind that returned an error (a store call that failed after the
     manager's own validation passed: unknown sector root, duplicate id, database error) *)
| Failed
  (* RHP4: contracts.Manager.CreditAccountsWithContract / DebitAccount go straight to the store
     (Store.RHP4CreditAccounts / RHP4DebitAccount); the account manager is not involved.  An
     rhp3.Account and a proto4.Account with the same public key are the same row of the
     accounts table: [a] ranges over the same keys as in Credit / OpenBudget *)
| Credit4 (a amt : N)
| Debit4 (a amt : N).

Inductive obs :=
| ODone (ok : bool)
| OTip (h : N)
| OHook (id : N)
| ODeliver (urls : list N)
| OState (roots : list (N * list N)) (hooks : list (N * (N * list path))) (settings : N * N)
         (bals : list (N * N)) (vols : list (N * (bool * N * bool * bool))) (tip : N)
| OPanic.

(* small updaters *)
Definition set_db_roots (d : dbs) r := {| d_cs := d_cs d; d_roots := r; d_hooks := d_hooks d; d_settings := d_settings d; d_bal := d_bal d; d_vols := d_vols d; d_tip := d_tip d |}.
Definition set_db_cs (d : dbs) x := {| d_cs := x; d_roots := d_roots d; d_hooks := d_hooks d; d_settings := d_settings d; d_bal := d_bal d; d_vols := d_vols d; d_tip := d_tip d |}.
Definition set_db_hooks (d : dbs) x := {| d_cs := d_cs d; d_roots := d_roots d; d_hooks := x; d_settings := d_settings d; d_bal := d_bal d; d_vols := d_vols d; d_tip := d_tip d |}.
Definition set_db_settings (d : dbs) x := {| d_cs := d_cs d; d_roots := d_roots d; d_hooks := d_hooks d; d_settings := x; d_bal := d_bal d; d_vols := d_vols d; d_tip := d_tip d |}.
Definition set_db_bal (d : dbs) x := {| d_cs := d_cs d; d_roots := d_roots d; d_hooks := d_hooks d; d_settings := d_settings d; d_bal := x; d_vols := d_vols d; d_tip := d_tip d |}.
Definition set_db_vols (d : dbs) x := {| d_cs := d_cs d; d_roots := d_roots d; d_hooks := d_hooks d; d_settings := d_settings d; d_bal := d_bal d; d_vols := x; d_tip := d_tip d |}.
Definition set_db_tip (d : dbs) x := {| d_cs := d_cs d; d_roots := d_roots d; d_hooks := d_hooks d; d_settings := d_settings d; d_bal := d_bal d; d_vols := d_vols d; d_tip := x |}.

Definition set_m_roots (m : mems) x := {| m_roots := x; m_hooks := m_hooks m; m_tree := m_tree m; m_settings := m_settings m; m_bal := m_bal m; m_vols := m_vols m; m_tip := m_tip m |}.
Definition set_m_hooks (m : mems) h t := {| m_roots := m_roots m; m_hooks := h; m_tree := t; m_settings := m_settings m; m_bal := m_bal m; m_vols := m_vols m; m_tip := m_tip m |}.
Definition set_m_settings (m : mems) x := {| m_roots := m_roots m; m_hooks := m_hooks m; m_tree := m_tree m; m_settings := x; m_bal := m_bal m; m_vols := m_vols m; m_tip := m_tip m |}.
Definition set_m_bal (m : mems) x := {| m_roots := m_roots m; m_hooks := m_hooks m; m_tree := m_tree m; m_settings := m_settings m; m_bal := x; m_vols := m_vols m; m_tip := m_tip m |}.
Definition set_m_vols (m : mems) x := {| m_roots := m_roots m; m_hooks := m_hooks m; m_tree := m_tree m; m_settings := m_settings m; m_bal := m_bal m; m_vols := x; m_tip := m_tip m |}.
Definition set_m_tip (m : mems) x := {| m_roots := m_roots m; m_hooks := m_hooks m; m_tree := m_tree m; m_settings := m_settings m; m_bal := m_bal m; m_vols := m_vols m; m_tip := x |}.

Definition mk (d : dbs) (m : mems) (b : list (N * (N * N))) (g : list N) : state :=
  {| db := d; mem := m; budgets := b; gone := g |}.

(* a start: loadVolumes writes the available flags, then every manager loads from the store *)
Definition restart (s : state) : state :=
  let d := set_db_vols (db s) (mark_vols (gone s) (d_vols (db s))) in
  {| db := d; mem := load d; budgets := []; gone := gone s |}.

(* VolumeManager.volumeStats: a volume that is not in the map reads as "unavailable" *)
Definition vol_ready (m : mems) (id : N) : bool :=
  match alookup id (m_vols m) with Some b => b | None => false end.

(* ExpireContractSectors / ExpireV2ContractSectors at height h: every contract whose
   window (expiration) is below h loses its rows; the manager's cache is not touched *)
Definition expire (h : N) (cs : list (N * (bool * N))) (r : list (N * list N)) : list (N * list N) :=
  fold_left (fun r c => if (snd (snd c) <? h)%N then aremove (fst c) r else r) cs r.

(* in-memory balance of an account: the map entry if any, the store otherwise *)
Definition mem_balance (s : state) (a : N) : N :=
  match alookup a (m_bal (mem s)) with
  | Some (b, _) => b
  | None => bal_of (d_bal (db s)) a
  end.

(* Budget.Commit / Rollback: one open transaction less; the entry goes away with the last *)
Definition close_budget (m : list (N * (N * N))) (a back : N) : res (list (N * (N * N))) :=
  match alookup a m with
  | None => Panic                                    (* "account missing from memory" *)
  | Some (b, n) =>
      if (n <=? 1)%N then Ok (aremove a m) else Ok (aset a ((b + back)%N, (n - 1)%N) m)
  end.

(* the accounts the harness uses *)
Definition accounts : list N := [0; 1]%N.

(* VolumeManager.Volumes: the stored row of every volume with the in-memory status *)
Definition volumes (s : state) : list (N * (bool * N * bool * bool)) :=
  map (fun v => (fst v, (snd v, vol_ready (mem s) (fst v)))) (d_vols (db s)).

Definition observe (s : state) : obs :=
  OState (map (fun c => (fst c, roots_of (m_roots (mem s)) (fst c))) (d_cs (db s)))
         (map (fun h => (fst h, (h_url (snd h), h_scopes (snd h)))) (m_hooks (mem s)))
         (m_settings (mem s))
         (map (fun a => (a, mem_balance s a)) accounts)
         (volumes s)
         (m_tip (mem s)).

Definition step (s : state) (o : op) : state * obs :=
  let d := db s in let m := mem s in let bs := budgets s in let g := gone s in
  match o with
  | FormC c v2 wend =>
      (mk (set_db_cs d (d_cs d ++ [(c, (v2, wend))])) m bs g, ODone true)
  | Commit c roots =>
      (* Store.ReviseContract / ReviseV2Contract, then setSectorRoots.
         v2: the store updates the contract's rows relative to the list the manager has
         cached (updateV2ContractSectors: unchanged positions are skipped, the others
         upserted, the tail past the new end deleted).  [d_roots] keeps a contract's rows in
         index order without the indices, so the rows are taken to sit at 0 .. n-1: exact
         unless an earlier step recorded as a finding left the cache of this very contract
         longer than its rows.
         v1: the updater's sector changes, by their result (the store cross-checks each
         change against the same cached list and fails the revision on a difference) *)
      let v2 := match alookup c (d_cs d) with Some (b, _) => b | None => false end in
      let stored := if v2 then somes (v2_rows_update (map Some (roots_of (d_roots d) c)) (roots_of (m_roots m) c) roots)
                    else roots in
      (mk (set_db_roots d (aset c stored (d_roots d))) (set_m_roots m (aset c roots (m_roots m))) bs g, ODone true)
  | RenewC old new v2 wend =>
      (* the store moves the rows of the old contract to the new one; the manager gives the
         new contract the roots it has cached for the old one, and (v1, patched) forgets the
         cleared contract *)
      let d1 := set_db_cs d (d_cs d ++ [(new, (v2, wend))]) in
      let d2 := set_db_roots d1 (aremove old (aset new (roots_of (d_roots d) old) (d_roots d))) in
      let r1 := aset new (roots_of (m_roots m) old) (m_roots m) in
      let r2 := if v2 then r1 else aremove old r1 in
      (mk d2 (set_m_roots m r2) bs g, ODone true)
  | Mine n =>
      let h := (d_tip d + n)%N in
      (mk (set_db_tip (set_db_roots d (expire h (d_cs d) (d_roots d))) h) (set_m_tip m h) bs g, OTip h)
  | RegisterHook url scopes =>
      let id := next_id (d_hooks d) in
      let h := {| h_url := url; h_scopes := scopes |} in
      (mk (set_db_hooks d (d_hooks d ++ [(id, h)]))
          (set_m_hooks m (aset id h (m_hooks m)) (add_scopes (m_tree m) id scopes)) bs g, OHook id)
  | UpdateHook id url scopes =>
      match alookup id (d_hooks d) with
      | None => (s, ODone false)                     (* UPDATE ... RETURNING id: no rows *)
      | Some _ =>
          let h := {| h_url := url; h_scopes := scopes |} in
          let d' := set_db_hooks d (aset id h (d_hooks d)) in
          match alookup id (m_hooks m) with
          | None => (mk d' m bs g, OPanic)             (* "UpdateWebhook called on nonexistent Webhook" *)
          | Some _ =>
              (mk d' (set_m_hooks m (aset id h (m_hooks m)) (add_scopes (remove_scopes (m_tree m) id) id scopes)) bs g, ODone true)
          end
      end
  | RemoveHook id =>
      (mk (set_db_hooks d (aremove id (d_hooks d)))
          (set_m_hooks m (aremove id (m_hooks m)) (remove_scopes (m_tree m) id)) bs g, ODone true)
  | Broadcast e => (s, ODeliver (deliver m e))
  | SetSettings v =>
      (* store first (revision 0 on insert, +1 on update), then the cache with the stored revision *)
      let r := match d_settings d with Some (r, _) => (r + 1)%N | None => 0%N end in
      (mk (set_db_settings d (Some (r, v))) (set_m_settings m (r, v)) bs g, ODone true)
  | Credit a amt =>
      let nb := (mem_balance s a + amt)%N in
      let d' := set_db_bal d (aset a (bal_of (d_bal d) a + amt)%N (d_bal d)) in
      let m' := match alookup a (m_bal m) with
                | Some (_, n) => set_m_bal m (aset a (nb, n) (m_bal m))
                | None => m
                end in
      (mk d' m' bs g, ODone true)
  | OpenBudget b a amt =>
      if match alookup b bs with Some _ => true | None => false end then (s, ODone false) else
      let '(bal, n) := match alookup a (m_bal m) with Some e => e | None => (bal_of (d_bal d) a, 0%N) end in
      if (bal <? amt)%N then (s, ODone false)
      else (mk d (set_m_bal m (aset a ((bal - amt)%N, (n + 1)%N) (m_bal m))) (aset b (a, amt) bs) g, ODone true)
  | CommitBudget b spend =>
      match alookup b bs with
      | None => (s, ODone false)
      | Some (a, mx) =>
          if (bal_of (d_bal d) a <? spend)%N then
            (* DebitAccount fails; the harness rolls the budget back *)
            match close_budget (m_bal m) a mx with
            | Ok mb => (mk d (set_m_bal m mb) (aremove b bs) g, ODone false)
            | _ => (s, OPanic)
            end
          else
            match close_budget (m_bal m) a (mx - spend)%N with
            | Ok mb => (mk (set_db_bal d (aset a (bal_of (d_bal d) a - spend)%N (d_bal d))) (set_m_bal m mb) (aremove b bs) g, ODone true)
            | _ => (s, OPanic)
            end
      end
  | RollbackBudget b =>
      match alookup b bs with
      | None => (s, ODone true)
      | Some (a, mx) =>
          match close_budget (m_bal m) a mx with
          | Ok mb => (mk d (set_m_bal m mb) (aremove b bs) g, ODone true)
          | _ => (s, OPanic)
          end
      end
  | AddVol id total =>
      (* the store hands out a fresh id; AddVolume creates the file *)
      match alookup id (d_vols d) with
      | Some _ => (s, ODone false)
      | None =>
          (mk (set_db_vols d (d_vols d ++ [(id, (false, total, true))])) (set_m_vols m (m_vols m ++ [(id, true)])) bs (unhide id g), ODone true)
      end
  | SetRO id ro =>
      (* refused unless the volume is in the map with status "ready" *)
      match alookup id (d_vols d) with
      | None => (s, ODone false)
      | Some (_, total, av) =>
          if vol_ready m id then (mk (set_db_vols d (aset id (ro, total, av) (d_vols d))) m bs g, ODone true)
          else (s, ODone false)
      end
  | GrowVol id total =>
      (* ResizeVolume: SetStatus(resizing) is refused unless the status is "ready" *)
      match alookup id (d_vols d) with
      | None => (s, ODone false)
      | Some (ro, _, av) =>
          if vol_ready m id then (mk (set_db_vols d (aset id (ro, total, av) (d_vols d))) m bs g, ODone true)
          else (s, ODone false)
      end
  | HideVolFile id => (mk d m bs (hide id g), ODone true)      (* the running host keeps its open file *)
  | RestoreVolFile id => (mk d m bs (unhide id g), ODone true)
  | Observe => (s, observe s)
  | Restart => (restart s, ODone true)
  | Failed => (s, ODone false)
  | Credit4 a amt =>
      (mk (set_db_bal d (aset a (bal_of (d_bal d) a + amt)%N (d_bal d))) m bs g, ODone true)
  | Debit4 a amt =>
      (* no row, or less than the cost: ErrNotEnoughFunds *)
      if (bal_of (d_bal d) a <? amt)%N then (s, ODone false)
      else (mk (set_db_bal d (aset a (bal_of (d_bal d) a - amt)%N (d_bal d))) m bs g, ODone true)
  end.

(** * Vocabulary of the theorems *)
Definition is_nil {A} (l : list A) : bool := match l with [] => true | _ => false end.

(* the two behaviours recorded as known findings: a v2 renewal of a contract that has
   roots, and a block that takes a contract with roots past its window *)
Definition benign0 (s : state) (o : op) : bool :=
  match o with
  | RenewC old _ true _ => is_nil (roots_of (d_roots (db s)) old)
  | Mine n =>
      forallb (fun c => negb (snd (snd c) <? d_tip (db s) + n)%N || is_nil (roots_of (d_roots (db s)) (fst c)))
              (d_cs (db s))
  | _ => true
  end.

(* the property promises a volume back "if its file opens": a restart is only claimed
   transparent while the same volume files open as at the last start.  A step that moves a
   file of a stored volume away (or back) ends that; the next start re-establishes it. *)
Definition files_as_loaded (s : state) : Prop := files_ok (gone s) (d_vols (db s)) = true.

Definition file_present (s : state) (id : N) : bool := negb (file_gone (gone s) id).

Definition benign (s : state) (o : op) : bool :=
  benign0 s o &&
  match o with
  | HideVolFile id => files_ok (hide id (gone s)) (d_vols (db s))
  | RestoreVolFile id => files_ok (unhide id (gone s)) (d_vols (db s))
  | _ => true
  end.

Fixpoint benign_run (s : state) (l : list op) : bool :=
  match l with
  | [] => true
  | o :: t => benign s o && benign_run (fst (step s o)) t
  end.

(* histories in which volume files may come and go freely *)
Fixpoint benign0_run (s : state) (l : list op) : bool :=
  match l with
  | [] => true
  | o :: t => benign0 s o && benign0_run (fst (step s o)) t
  end.

Definition runs (s : state) (l : list op) : state := fold_left (fun s o => fst (step s o)) l s.

(* every scope-tree node belongs to a stored hook that lists it, exactly once *)
Definition tree_inv (t : list (path * N)) (hs : list (N * hook)) : Prop :=
  NoDup t /\ forall p id, In (p, id) t <-> exists h, alookup id hs = Some h /\ In p (h_scopes h).

(* the open budgets of account [a] *)
Definition budgets_on (bs : list (N * (N * N))) (a : N) : nat :=
  List.length (filter (fun e => (fst (snd e) =? a)%N) bs).

(* AccountManager.balances has an entry for the account *)
Definition cached (s : state) (a : N) : bool :=
  match alookup a (m_bal (mem s)) with Some _ => true | None => false end.

Definition open_count (m : list (N * (N * N))) : nat :=
  fold_right (fun e acc => (N.to_nat (snd (snd e)) + acc)%nat) O m.

(* in-memory state is what a start would load (lists of roots and the scope tree up to
   representation; a volume is "ready" iff the store has it flagged available) *)
Definition coh0 (s : state) : Prop :=
  (forall c, roots_of (m_roots (mem s)) c = roots_of (d_roots (db s)) c) /\
  NoDup (map fst (d_roots (db s))) /\ NoDup (map fst (m_roots (mem s))) /\
  m_hooks (mem s) = d_hooks (db s) /\ NoDup (map fst (d_hooks (db s))) /\
  tree_inv (m_tree (mem s)) (m_hooks (mem s)) /\
  m_settings (mem s) = match d_settings (db s) with Some rv => rv | None => (0%N, 0%N) end /\
  (open_count (m_bal (mem s)) = List.length (budgets s) /\ Forall (fun e => (1 <= snd (snd e))%N) (m_bal (mem s))) /\
  m_vols (mem s) = map (fun v => (fst v, snd (snd v))) (d_vols (db s)) /\
  m_tip (mem s) = d_tip (db s).

(* ... and the volume files that open now are those that opened at the last start *)
Definition coh (s : state) : Prop := coh0 s /\ files_as_loaded s.

(* two hosts that cannot be told apart: same store, and in-memory state equal up to the
   representation of the root cache and the order of the scope tree *)
Definition mequiv (m1 m2 : mems) : Prop :=
  (forall c, roots_of (m_roots m1) c = roots_of (m_roots m2) c) /\
  NoDup (map fst (m_roots m1)) /\ NoDup (map fst (m_roots m2)) /\
  m_hooks m1 = m_hooks m2 /\ Permutation (m_tree m1) (m_tree m2) /\
  m_settings m1 = m_settings m2 /\ m_bal m1 = m_bal m2 /\ m_vols m1 = m_vols m2 /\ m_tip m1 = m_tip m2.

Definition sequiv (s1 s2 : state) : Prop :=
  db s1 = db s2 /\ NoDup (map fst (d_roots (db s1))) /\ budgets s1 = budgets s2 /\ gone s1 = gone s2 /\
  mequiv (mem s1) (mem s2).

(* what the outside sees of a history *)
Fixpoint observations (s : state) (l : list op) : list obs :=
  match l with
  | [] => []
  | o :: t => snd (step s o) :: observations (fst (step s o)) t
  end.

(** * Observation equality *)
Definition pair_eqb {A B} (ea : A -> A -> bool) (eb : B -> B -> bool) (x y : A * B) : bool :=
  ea (fst x) (fst y) && eb (snd x) (snd y).
Definition ln_eqb := list_eqb N.eqb.

Definition obs_eqb (a b : obs) : bool :=
  match a, b with
  | ODone x, ODone y => Bool.eqb x y
  | OTip x, OTip y => (x =? y)%N
  | OHook x, OHook y => (x =? y)%N
  | ODeliver x, ODeliver y => ln_eqb x y
  | OState r h s b v t, OState r' h' s' b' v' t' =>
      list_eqb (pair_eqb N.eqb ln_eqb) r r' &&
      list_eqb (pair_eqb N.eqb (pair_eqb N.eqb (list_eqb ln_eqb))) h h' &&
      pair_eqb N.eqb N.eqb s s' &&
      list_eqb (pair_eqb N.eqb N.eqb) b b' &&
      list_eqb (pair_eqb N.eqb (pair_eqb (pair_eqb (pair_eqb Bool.eqb N.eqb) Bool.eqb) Bool.eqb)) v v' &&
      (t =? t')%N
  | OPanic, OPanic => true
  | _, _ => false
  end.

Definition case := (N * list (op * obs))%type.
Definition check (cs : list case) := mismatches init step obs_eqb cs.

(** * Seeded change C18-mut8: Budget.Commit drops the entry only when openTxns < 0 *)
Module Legacy.
  (* openTxns--; the entry stays (openTxns can not get below 0 here) with the remainder added back *)
  Definition commit_close (m : list (N * (N * N))) (a back : N) : res (list (N * (N * N))) :=
    match alookup a m with
    | None => Panic
    | Some (b, n) => Ok (aset a ((b + back)%N, (n - 1)%N) m)
    end.

  Definition step (s : state) (o : op) : state * obs :=
    let d := db s in let m := mem s in let bs := budgets s in let g := gone s in
    match o with
    | CommitBudget b spend =>
        match alookup b bs with
        | None => (s, ODone false)
        | Some (a, mx) =>
            if (bal_of (d_bal d) a <? spend)%N then
              match close_budget (m_bal m) a mx with      (* Rollback is unchanged *)
              | Ok mb => (mk d (set_m_bal m mb) (aremove b bs) g, ODone false)
              | _ => (s, OPanic)
              end
            else
              match commit_close (m_bal m) a (mx - spend)%N with
              | Ok mb => (mk (set_db_bal d (aset a (bal_of (d_bal d) a - spend)%N (d_bal d))) (set_m_bal m mb) (aremove b bs) g, ODone true)
              | _ => (s, OPanic)
              end
        end
    | _ => Model.step s o
    end.

  Definition runs (s : state) (l : list op) : state := fold_left (fun s o => fst (step s o)) l s.
End Legacy.

(** * Opening the store (persist/sqlite/init.go) *)
Section Open.
  Variable data : Type.
  Variable target : N.                          (* len(migrations)+1 *)
  Variable init_new : data -> res data.        (* initNewDatabase *)
  Variable migrate : N -> data -> res data.     (* one migration step, version -> version+1 *)

  Fixpoint upgrade (fuel : nat) (v : N) (d : data) : res (N * data) :=
    match fuel with
    | O => Ok (v, d)
    | S f => if (v <? target)%N then do d' <- migrate v d; upgrade f (v + 1)%N d' else Ok (v, d)
    end.

  (* Store.init *)
  Definition open_store (v : N) (d : data) : res (N * data) :=
    if (v =? 0)%N then do d' <- init_new d; Ok (target, d')
    else if (v <? target)%N then upgrade (N.to_nat (target - v)) v d
    else if (target <? v)%N then Err EOther
    else Ok (v, d).
End Open.
