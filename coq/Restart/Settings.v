(* Restart/Settings.v — the host's settings and pinned settings, field by field: what
   ConfigManager.UpdateSettings / pin.Manager.Update accept, how they normalise it, what they
   keep in memory, what the store writes and what a start loads.

     host/settings/settings.go    ConfigManager.UpdateSettings (validate, store first, then the
                                  cache with the stored revision), NewConfigManager (Store.Settings,
                                  initial settings when there is no row)
     host/settings/ddns.go        validateDNSSettings (empty provider clears IPv4/IPv6/Options; a
                                  known provider gets its options re-encoded)
     host/settings/announce.go    validateHostname
     host/settings/pin/pin.go     Manager.Update (validation, store first, then the cache), NewManager
     persist/sqlite/settings.go   Store.UpdateSettings / Settings (column encoding: uint64 as
                                  INTEGER, Currency as 16 bytes lo||hi, float64 as REAL, ddns_opts
                                  NULL whenever the provider is empty), Store.UpdatePinnedSettings /
                                  PinnedSettings

   Values.  Strings are byte lists.  A float64 is its IEEE-754 bit pattern (math.Float64bits);
   SQLite cannot hold a NaN (it binds NULL, the columns are NOT NULL) and keeps a REAL whose value
   is a small integer as an integer, so the sign of -0.0 does not come back.  time.Duration is Z.
   Functions of the Go standard library the code calls (encoding/json on the provider options,
   net.SplitHostPort / net.ParseIP / strings.TrimSpace on the net address) are carried by the
   operation as oracle values computed by the harness with the real functions.  No proofs here. *)
From HostdBase Require Import Base.
From Coq Require Import String Ascii.
Set Implicit Arguments.
Local Open Scope N_scope.

(** * Values *)
Definition str := list N.
Definition str_eqb : str -> str -> bool := list_eqb N.eqb.
Definition bytes_of (s : string) : str := map N_of_ascii (list_ascii_of_string s).
Definition is_nil {A} (l : list A) : bool := match l with [] => true | _ => false end.

Definition two63 : N := 9223372036854775808.
Definition two32 : N := 4294967296.
Definition two63z : Z := 9223372036854775808%Z.

(* float64 by bit pattern *)
Definition f_mag (b : N) : N := b mod two63.
Definition f_neg (b : N) : bool := two63 <=? b.
Definition f_inf_bits : N := 9218868437227405312.        (* 0x7FF0000000000000 *)
Definition f_one_bits : N := 4607182418800017408.        (* 1.0 *)
Definition f_nan (b : N) : bool := f_inf_bits <? f_mag b.
Definition f_lt0 (b : N) : bool := negb (f_nan b) && f_neg b && negb (f_mag b =? 0).        (* x < 0 *)
Definition f_gt1 (b : N) : bool := negb (f_nan b) && negb (f_neg b) && (f_one_bits <? b).  (* x > 1 *)
Definition f_le0 (b : N) : bool := negb (f_nan b) && (f_neg b || (f_mag b =? 0)).         (* x <= 0 *)
(* what a REAL NOT NULL column gives back *)
Definition f_canon (b : N) : N := if b =? two63 then 0 else b.
Definition real_store (b : N) : res N := if f_nan b then Err EOther else Ok (f_canon b).

(** * Go values *)
Record dns := mkDns { d_provider : str; d_ipv4 : bool; d_ipv6 : bool; d_options : option str }.

Record settings := mkSettings {
  s_accepting : bool; s_netaddr : str; s_maxdur : N; s_window : N;
  s_contract_price : N; s_base_rpc : N; s_sector_access : N;
  s_coll_mult : N; s_max_coll : N;
  s_storage : N; s_egress : N; s_ingress : N;
  s_pt_validity : Z; s_max_registry : N;
  s_acct_expiry : Z; s_max_acct_balance : N;
  s_ingress_limit : N; s_egress_limit : N;
  s_ddns : dns; s_cache : N; s_revision : N }.

Record pinv := mkPin { p_pinned : bool; p_value : N }.
Record pinned := mkPinned {
  pn_currency : str; pn_threshold : N;
  pn_storage : pinv; pn_ingress : pinv; pn_egress : pinv; pn_maxcoll : pinv }.

Definition set_ddns (s : settings) (d : dns) : settings :=
  mkSettings (s_accepting s) (s_netaddr s) (s_maxdur s) (s_window s) (s_contract_price s) (s_base_rpc s)
    (s_sector_access s) (s_coll_mult s) (s_max_coll s) (s_storage s) (s_egress s) (s_ingress s)
    (s_pt_validity s) (s_max_registry s) (s_acct_expiry s) (s_max_acct_balance s) (s_ingress_limit s)
    (s_egress_limit s) d (s_cache s) (s_revision s).
Definition set_revision (s : settings) (r : N) : settings :=
  mkSettings (s_accepting s) (s_netaddr s) (s_maxdur s) (s_window s) (s_contract_price s) (s_base_rpc s)
    (s_sector_access s) (s_coll_mult s) (s_max_coll s) (s_storage s) (s_egress s) (s_ingress s)
    (s_pt_validity s) (s_max_registry s) (s_acct_expiry s) (s_max_acct_balance s) (s_ingress_limit s)
    (s_egress_limit s) (s_ddns s) (s_cache s) r.
Definition set_coll_mult (s : settings) (b : N) : settings :=
  mkSettings (s_accepting s) (s_netaddr s) (s_maxdur s) (s_window s) (s_contract_price s) (s_base_rpc s)
    (s_sector_access s) b (s_max_coll s) (s_storage s) (s_egress s) (s_ingress s)
    (s_pt_validity s) (s_max_registry s) (s_acct_expiry s) (s_max_acct_balance s) (s_ingress_limit s)
    (s_egress_limit s) (s_ddns s) (s_cache s) (s_revision s).

(* settings.DefaultSettings: what a host without a settings row starts with *)
Definition sc : N := 1000000000000000000000000.
Definition default_settings : settings :=
  mkSettings false [] 25920 144 (sc / 5) (sc / 1000000) (sc / 1000000)
    4611686018427387904 (1000 * sc)
    (150 * sc / 1099511627776 / 4320) (500 * sc / 1099511627776) (10 * sc / 1099511627776)
    1800000000000%Z 0 2592000000000000%Z (10 * sc) 0 0 (mkDns [] false false None) 0 0.

(* Store.PinnedSettings without a row: {Currency: "usd", Threshold: 0.02} *)
Definition default_pinned : pinned :=
  mkPinned (bytes_of "usd") 4581421828931458171 (mkPin false 0) (mkPin false 0) (mkPin false 0) (mkPin false 0).

(** * The standard library, as seen by one UpdateSettings call *)
Record oracle := mkOracle {
  o_validate_net : bool;                  (* the manager's WithValidateNetAddress option *)
  o_na_blank : bool;                      (* strings.TrimSpace(NetAddress) == "" *)
  o_na_split_ok : bool;                   (* net.SplitHostPort(NetAddress) succeeds *)
  o_na_ip : option (bool * bool * bool);  (* net.ParseIP: Some (IsLoopback, IsPrivate, IsGlobalUnicast) *)
  o_j_fields : res (list str);            (* json.Unmarshal(Options, &<the provider's struct>): its fields in declaration order *)
  o_j_canon : str;                        (* json.Marshal of that struct *)
  o_j_stored : res str;                   (* json.Marshal(json.RawMessage(canon)): what the store binds to ddns_opts *)
  o_j_loaded : res str                    (* json.Unmarshal(that blob, &json.RawMessage): what a start reads back *)
}.

(** * host/settings: validation *)
(* validateDNSSettings: the number of (all required) option fields of a known provider *)
Definition provider_arity (p : str) : option nat :=
  if str_eqb p (bytes_of "cloudflare") then Some 2%nat        (* token, zoneID *)
  else if str_eqb p (bytes_of "duckdns") then Some 1%nat      (* token *)
  else if str_eqb p (bytes_of "noip") then Some 2%nat         (* email, password *)
  else if str_eqb p (bytes_of "route53") then Some 3%nat      (* id, secret, zoneID *)
  else None.

Definition validate_dns (d : dns) (o : oracle) : res dns :=
  if is_nil (d_provider d) then
    (* clear DNS settings if provider is empty *)
    Ok (mkDns (d_provider d) false false None)
  else if negb (d_ipv4 d) && negb (d_ipv6 d) then Err EInvalid
  else match provider_arity (d_provider d) with
       | None => Err EInvalid                              (* unknown dns provider *)
       | Some k =>
           match o_j_fields o with
           | Ok fs =>
               if (List.length fs =? k)%nat && forallb (fun f => negb (is_nil f)) fs
               then Ok (mkDns (d_provider d) (d_ipv4 d) (d_ipv6 d) (Some (o_j_canon o)))   (* re-encoded *)
               else Err EInvalid                           (* "... must be set" *)
           | _ => Err EInvalid                             (* failed to unmarshal *)
           end
       end.

(* validateHostname *)
Definition first_is (c : N) (a : str) : bool := match a with x :: _ => x =? c | [] => false end.
Definition last_is (c : N) (a : str) : bool := first_is c (rev a).
Definition validate_host (a : str) (o : oracle) : res unit :=
  if is_nil a then Err EInvalid
  else if str_eqb a (bytes_of "localhost") then Err EInvalid
  else if o_na_split_ok o then Err EInvalid                   (* hostname should not contain a port *)
  else if first_is 91 a || last_is 93 a then Err EInvalid     (* "[" ... "]" *)
  else match o_na_ip o with
       | Some (lo, pr, gu) => if lo || pr || negb gu then Err EInvalid else Ok tt
       | None => Ok tt
       end.

(* the part of UpdateSettings before the store is called *)
Definition validate (s : settings) (o : oracle) : res settings :=
  do d <- validate_dns (s_ddns s) o;
  let s1 := set_ddns s d in
  do _ <- (if negb (o_na_blank o) && o_validate_net o then validate_host (s_netaddr s1) o else Ok tt);
  Ok s1.

(** * persist/sqlite: the host_settings row *)
Record srow := mkRow {
  c_revision : Z; c_accepting : bool; c_netaddr : str;
  c_contract_price : N * N; c_base_rpc : N * N; c_sector_access : N * N;
  c_coll_mult : N; c_max_coll : N * N; c_storage : N * N; c_egress : N * N; c_ingress : N * N;
  c_max_acct_balance : N * N; c_acct_age : Z; c_pt_validity : Z; c_maxdur : Z; c_window : Z;
  c_ingress_limit : Z; c_egress_limit : Z; c_registry_limit : Z;
  c_ddns_provider : str; c_ddns_v4 : bool; c_ddns_v6 : bool;
  (* ddns_opts: NULL, or the blob together with what json.Unmarshal into a RawMessage makes of it *)
  c_ddns_opts : option (str * res str);
  c_cache : Z }.

(* encode(types.Currency): two little-endian 64-bit words, lo then hi *)
Definition enc_cur (c : N) : N * N := (c mod two64, c / two64).
Definition dec_cur (p : N * N) : N := snd p * two64 + fst p.
(* database/sql: "uint64 values with high bit set are not supported" *)
Definition bind_u64 (v : N) : res Z := if v <? two63 then Ok (Z.of_N v) else Err EOther.
(* Scan of an INTEGER into a uint64 / uint32 *)
Definition scan_u64 (z : Z) : res N := if (z <? 0)%Z then Err EOther else Ok (Z.to_N z).
Definition scan_u32 (z : Z) : res N :=
  if (z <? 0)%Z || (Z.of_N two32 <=? z)%Z then Err EOther else Ok (Z.to_N z).

(* Store.UpdateSettings: the bound values ($1..$23); the revision is the statement's business *)
Definition store_write (s : settings) (o : oracle) : res srow :=
  do opts <- (if is_nil (d_provider (s_ddns s)) then Ok None
              else match d_options (s_ddns s) with
                   | Some b =>
                       (* json.Marshal(settings.DDNS.Options): validation left the re-encoded options there *)
                       if str_eqb b (o_j_canon o)
                       then do blob <- o_j_stored o; Ok (Some (blob, o_j_loaded o))
                       else Err EOther                     (* not reached from UpdateSettings *)
                   | None => Ok (Some (bytes_of "null", Ok (bytes_of "null")))
                   end);
  do maxdur <- bind_u64 (s_maxdur s);
  do window <- bind_u64 (s_window s);
  do il <- bind_u64 (s_ingress_limit s);
  do el <- bind_u64 (s_egress_limit s);
  do reg <- bind_u64 (s_max_registry s);
  do cm <- real_store (s_coll_mult s);
  Ok (mkRow 0 (s_accepting s) (s_netaddr s)
        (enc_cur (s_contract_price s)) (enc_cur (s_base_rpc s)) (enc_cur (s_sector_access s))
        cm (enc_cur (s_max_coll s)) (enc_cur (s_storage s)) (enc_cur (s_egress s)) (enc_cur (s_ingress s))
        (enc_cur (s_max_acct_balance s)) (s_acct_expiry s) (s_pt_validity s) maxdur window il el reg
        (d_provider (s_ddns s)) (d_ipv4 (s_ddns s)) (d_ipv6 (s_ddns s)) opts (Z.of_N (s_cache s))).

Definition with_revision (r : srow) (v : Z) : srow :=
  mkRow v (c_accepting r) (c_netaddr r) (c_contract_price r) (c_base_rpc r) (c_sector_access r)
    (c_coll_mult r) (c_max_coll r) (c_storage r) (c_egress r) (c_ingress r) (c_max_acct_balance r)
    (c_acct_age r) (c_pt_validity r) (c_maxdur r) (c_window r) (c_ingress_limit r) (c_egress_limit r)
    (c_registry_limit r) (c_ddns_provider r) (c_ddns_v4 r) (c_ddns_v6 r) (c_ddns_opts r) (c_cache r).

(* INSERT ... VALUES (0, 0, ...) ON CONFLICT (id) DO UPDATE SET (settings_revision, ...) =
   (settings_revision + 1, EXCLUDED....): every column but the revision comes from the new values *)
Definition upsert (old : option srow) (new : srow) : srow :=
  match old with
  | None => with_revision new 0
  | Some r => with_revision new (c_revision r + 1)
  end.

(* Store.Settings on a row *)
Definition store_read (r : srow) : res settings :=
  do rev <- scan_u64 (c_revision r);
  do maxdur <- scan_u64 (c_maxdur r);
  do window <- scan_u64 (c_window r);
  do il <- scan_u64 (c_ingress_limit r);
  do el <- scan_u64 (c_egress_limit r);
  do reg <- scan_u64 (c_registry_limit r);
  do cache <- scan_u32 (c_cache r);
  do opts <- match c_ddns_opts r with
             | None => Ok None                              (* dyndnsBuf == nil: Options stays nil *)
             | Some (_, loaded) => do b <- loaded; Ok (Some b)
             end;
  Ok (mkSettings (c_accepting r) (c_netaddr r) maxdur window
        (dec_cur (c_contract_price r)) (dec_cur (c_base_rpc r)) (dec_cur (c_sector_access r))
        (c_coll_mult r) (dec_cur (c_max_coll r)) (dec_cur (c_storage r)) (dec_cur (c_egress r))
        (dec_cur (c_ingress r)) (c_pt_validity r) reg (c_acct_age r) (dec_cur (c_max_acct_balance r))
        il el (mkDns (c_ddns_provider r) (c_ddns_v4 r) (c_ddns_v6 r) opts) cache rev).

(* NewConfigManager: the stored settings, or the initial ones when there is no row *)
Definition load_settings (row : option srow) : res settings :=
  match row with
  | None => Ok default_settings
  | Some r => store_read r
  end.

(** * ConfigManager.UpdateSettings: the new row and the new cached value *)
Definition update (row : option srow) (cache : settings) (s : settings) (o : oracle) : res (srow * settings) :=
  do s1 <- validate s o;
  (* persist first: a failed write leaves the in-memory settings untouched *)
  do cols <- store_write s1 o;
  let row' := upsert row cols in
  (* the store assigns the revision number: reload it *)
  match store_read row' with
  | Ok stored => Ok (row', set_revision s1 (s_revision stored))
  | _ => Ok (row', set_revision s1 (wadd (s_revision cache) 1))   (* "failed to reload settings revision" *)
  end.

(** * Pinned settings *)
Record prow := mkPRow {
  pc_currency : str; pc_threshold : N;
  pc_storage : bool * N; pc_ingress : bool * N; pc_egress : bool * N; pc_maxcoll : bool * N }.

(* pin.Manager.Update: the checks before the store is called *)
Definition pin_validate (p : pinned) : res unit :=
  if is_nil (pn_currency p) then Err EInvalid
  else if f_lt0 (pn_threshold p) || f_gt1 (pn_threshold p) then Err EInvalid
  else if p_pinned (pn_storage p) && f_le0 (p_value (pn_storage p)) then Err EInvalid
  else if p_pinned (pn_ingress p) && f_le0 (p_value (pn_ingress p)) then Err EInvalid
  else if p_pinned (pn_egress p) && f_le0 (p_value (pn_egress p)) then Err EInvalid
  else if p_pinned (pn_maxcoll p) && f_le0 (p_value (pn_maxcoll p)) then Err EInvalid
  else Ok tt.

Definition pin_col (v : pinv) : res (bool * N) := do x <- real_store (p_value v); Ok (p_pinned v, x).

(* Store.UpdatePinnedSettings: every column is overwritten, on insert and on conflict *)
Definition pin_write (p : pinned) : res prow :=
  do th <- real_store (pn_threshold p);
  do a <- pin_col (pn_storage p);
  do b <- pin_col (pn_ingress p);
  do c <- pin_col (pn_egress p);
  do d <- pin_col (pn_maxcoll p);
  Ok (mkPRow (pn_currency p) th a b c d).

Definition pin_of (c : bool * N) : pinv := mkPin (fst c) (snd c).
Definition pin_read (r : prow) : pinned :=
  mkPinned (pc_currency r) (pc_threshold r) (pin_of (pc_storage r)) (pin_of (pc_ingress r))
    (pin_of (pc_egress r)) (pin_of (pc_maxcoll r)).
Definition load_pinned (row : option prow) : pinned :=
  match row with None => default_pinned | Some r => pin_read r end.

(* pin.Manager.Update: the new row and the new cached value (the price refresh that follows
   needs an exchange rate; without one the call reports an error after both were written) *)
Definition pin_update (p : pinned) : res (prow * pinned) :=
  do _ <- pin_validate p;
  do r <- pin_write p;
  Ok (r, p).

(** * What is "the same value": floats compare numerically, so -0.0 is 0.0 *)
Definition pin_norm (v : pinv) : pinv := mkPin (p_pinned v) (f_canon (p_value v)).
Definition pinned_norm (p : pinned) : pinned :=
  mkPinned (pn_currency p) (f_canon (pn_threshold p)) (pin_norm (pn_storage p)) (pin_norm (pn_ingress p))
    (pin_norm (pn_egress p)) (pin_norm (pn_maxcoll p)).
Definition settings_norm (s : settings) : settings := set_coll_mult s (f_canon (s_coll_mult s)).

(** * The value ranges of the Go types *)
Definition in_i64 (z : Z) : Prop := (- two63z <= z < two63z)%Z.
Definition wf_settings (s : settings) : Prop :=
  s_maxdur s < two64 /\ s_window s < two64 /\ s_max_registry s < two64 /\
  s_ingress_limit s < two64 /\ s_egress_limit s < two64 /\ s_revision s < two64 /\
  s_cache s < two32 /\ s_coll_mult s < two64 /\
  s_contract_price s < two128 /\ s_base_rpc s < two128 /\ s_sector_access s < two128 /\
  s_max_coll s < two128 /\ s_storage s < two128 /\ s_egress s < two128 /\ s_ingress s < two128 /\
  s_max_acct_balance s < two128.

(* a stored revision that the next update can still increment *)
Definition wf_store (row : option srow) : Prop :=
  match row with None => True | Some r => (0 <= c_revision r < two63z - 1)%Z end.

(* encoding/json: compacting the encoding of a struct gives it back, and so does reading it
   as a raw message *)
Definition oracle_ok (o : oracle) : Prop :=
  o_j_stored o = Ok (o_j_canon o) /\ o_j_loaded o = Ok (o_j_canon o).
Definition oracle_okb (o : oracle) : bool :=
  res_eqb str_eqb (o_j_stored o) (Ok (o_j_canon o)) && res_eqb str_eqb (o_j_loaded o) (Ok (o_j_canon o)).

(** * The manager across restarts: correspondence entry point *)
Record sstate := mkSt { st_row : option srow; st_prow : option prow; st_cache : settings; st_pcache : pinned }.

Inductive sop :=
| SUpdate (s : settings) (o : oracle)     (* ConfigManager.UpdateSettings *)
| SPin (p : pinned)                       (* pin.Manager.Update *)
| SReopen.                                (* close everything, open the store, construct both managers *)

Inductive sobs :=
| OUpdate (ok : bool) (cached : settings)         (* error?, then ConfigManager.Settings() *)
| OPin (ok : bool) (cached : pinned)              (* stored?, then pin.Manager.Pinned() *)
| OLoaded (s : settings) (p : pinned)             (* Settings() and Pinned() of the new managers *)
| OLoadFails.

Definition sinit : sstate := mkSt None None default_settings default_pinned.

Definition sstep (st : sstate) (op : sop) : sstate * sobs :=
  match op with
  | SUpdate s o =>
      match update (st_row st) (st_cache st) s o with
      | Ok (row', s') => (mkSt (Some row') (st_prow st) s' (st_pcache st), OUpdate true s')
      | _ => (st, OUpdate false (st_cache st))
      end
  | SPin p =>
      match pin_update p with
      | Ok (r, p') => (mkSt (st_row st) (Some r) (st_cache st) p', OPin true p')
      | _ => (st, OPin false (st_pcache st))
      end
  | SReopen =>
      match load_settings (st_row st) with
      | Ok s => let p := load_pinned (st_prow st) in
                (mkSt (st_row st) (st_prow st) s p, OLoaded s p)
      | _ => (st, OLoadFails)
      end
  end.

Definition dns_eqb (a b : dns) : bool :=
  str_eqb (d_provider a) (d_provider b) && Bool.eqb (d_ipv4 a) (d_ipv4 b) && Bool.eqb (d_ipv6 a) (d_ipv6 b) &&
  option_eqb str_eqb (d_options a) (d_options b).

Definition settings_eqb (a b : settings) : bool :=
  Bool.eqb (s_accepting a) (s_accepting b) && str_eqb (s_netaddr a) (s_netaddr b) &&
  (s_maxdur a =? s_maxdur b) && (s_window a =? s_window b) &&
  (s_contract_price a =? s_contract_price b) && (s_base_rpc a =? s_base_rpc b) &&
  (s_sector_access a =? s_sector_access b) && (s_coll_mult a =? s_coll_mult b) &&
  (s_max_coll a =? s_max_coll b) && (s_storage a =? s_storage b) && (s_egress a =? s_egress b) &&
  (s_ingress a =? s_ingress b) && (s_pt_validity a =? s_pt_validity b)%Z &&
  (s_max_registry a =? s_max_registry b) && (s_acct_expiry a =? s_acct_expiry b)%Z &&
  (s_max_acct_balance a =? s_max_acct_balance b) && (s_ingress_limit a =? s_ingress_limit b) &&
  (s_egress_limit a =? s_egress_limit b) && dns_eqb (s_ddns a) (s_ddns b) &&
  (s_cache a =? s_cache b) && (s_revision a =? s_revision b).

Definition pinv_eqb (a b : pinv) : bool := Bool.eqb (p_pinned a) (p_pinned b) && (p_value a =? p_value b).
Definition pinned_eqb (a b : pinned) : bool :=
  str_eqb (pn_currency a) (pn_currency b) && (pn_threshold a =? pn_threshold b) &&
  pinv_eqb (pn_storage a) (pn_storage b) && pinv_eqb (pn_ingress a) (pn_ingress b) &&
  pinv_eqb (pn_egress a) (pn_egress b) && pinv_eqb (pn_maxcoll a) (pn_maxcoll b).

Definition sobs_eqb (a b : sobs) : bool :=
  match a, b with
  | OUpdate x s, OUpdate y t => Bool.eqb x y && settings_eqb s t
  | OPin x p, OPin y q => Bool.eqb x y && pinned_eqb p q
  | OLoaded s p, OLoaded t q => settings_eqb s t && pinned_eqb p q
  | OLoadFails, OLoadFails => true
  | _, _ => false
  end.

Definition scase := (N * list (sop * sobs))%type.
Definition scheck (cs : list scase) := mismatches sinit sstep sobs_eqb cs.

(** * Legacy: validateDNSSettings that keeps the options of a switched-off provider
   (the variant in which the cached value is not the value the store loads) *)
Definition validate_dns_current := validate_dns.
Module Legacy.
  Definition validate_dns (d : dns) (o : oracle) : res dns :=
    if is_nil (d_provider d) then Ok (mkDns (d_provider d) false false (d_options d))
    else validate_dns_current d o.
  Definition validate (s : settings) (o : oracle) : res settings :=
    do d <- validate_dns (s_ddns s) o;
    let s1 := set_ddns s d in
    do _ <- (if negb (o_na_blank o) && o_validate_net o then validate_host (s_netaddr s1) o else Ok tt);
    Ok s1.
  Definition update (row : option srow) (cache : settings) (s : settings) (o : oracle) : res (srow * settings) :=
    do s1 <- validate s o;
    do cols <- store_write s1 o;
    let row' := upsert row cols in
    match store_read row' with
    | Ok stored => Ok (row', set_revision s1 (s_revision stored))
    | _ => Ok (row', set_revision s1 (wadd (s_revision cache) 1))
    end.
End Legacy.
