(* Restart/IndexProofs.v — every committed batch stores the index it leaves, so the processed
   tip a start loads is the one the stopped host had, whichever batch was its last; and the
   tables hold exactly the chain that ends at the marker, so a resumed sync never reverts a
   block a second time. *)
From HostdBase Require Import Base.
From HostdRestart Require Import Index.
From Coq Require Import Lia ZifyBool ZifyN ZifyNat.

Lemma cidx_eqb_eq : forall a b, cidx_eqb a b = true <-> a = b.
Proof.
  intros [a1 a2] [b1 b2]. unfold cidx_eqb. cbn. rewrite Bool.andb_true_iff, !N.eqb_eq.
  split; [intros [-> ->]; reflexivity | intros H; inversion H; auto].
Qed.

Lemma cidx_eqb_refl : forall a, cidx_eqb a a = true.
Proof. intros a. apply cidx_eqb_eq. reflexivity. Qed.

Lemma rev_head_last : forall (A : Type) (l : list A) (d : A),
  l <> [] -> match rev l with a :: _ => a | [] => d end = last l d.
Proof.
  intros A l d H. destruct (exists_last H) as [l' [a ->]].
  rewrite rev_app_distr. cbn. rewrite last_last. reflexivity.
Qed.

(** * The index a batch leaves, by kind of batch *)
Lemma batch_index_applies : forall cur revs apps d,
  apps <> [] -> batch_index cur revs apps = fst (last apps d).
Proof.
  intros cur revs apps d H. unfold batch_index.
  pose proof (rev_head_last _ apps d H) as E. destruct (rev apps) as [|a t] eqn:Er.
  - exfalso. apply H. rewrite <- (rev_involutive apps), Er. reflexivity.
  - rewrite E. reflexivity.
Qed.

Lemma batch_index_reverts : forall cur revs d,
  revs <> [] -> batch_index cur revs [] = snd (last revs d).
Proof.
  intros cur revs d H. unfold batch_index. cbn.
  pose proof (rev_head_last _ revs d H) as E. destruct (rev revs) as [|a t] eqn:Er.
  - exfalso. apply H. rewrite <- (rev_involutive revs), Er. reflexivity.
  - rewrite E. reflexivity.
Qed.

(* from ANY state: after a committed batch the in-memory tip is the stored marker, and both
   are the index the batch leaves *)
Lemma tip_is_marker_after_any_batch : forall s revs apps d,
  let s' := fst (istep s (IBatch revs apps)) in
  i_tip s' = i_marker s' /\
  (applies_only revs apps -> i_marker s' = fst (last apps d)) /\
  (reverts_only revs apps -> i_marker s' = snd (last revs d)) /\
  (reverts_and_applies revs apps -> i_marker s' = fst (last apps d)).
Proof.
  intros s revs apps d. cbn. split; [reflexivity|]. repeat split.
  - intros [_ H]. apply batch_index_applies. exact H.
  - intros [H ->]. apply batch_index_reverts. exact H.
  - intros [_ H]. apply batch_index_applies. exact H.
Qed.

(** * The in-memory tip is what a start loads, after every history *)
Definition icoh (s : istate) : Prop := i_tip s = i_marker s.

Lemma istep_icoh : forall s o, icoh s -> icoh (fst (istep s o)).
Proof. intros s [revs apps| |] H; unfold icoh in *; cbn; auto. Qed.

Lemma iruns_icoh : forall l s, icoh s -> icoh (iruns s l).
Proof.
  unfold iruns. induction l as [|o t IH]; intros s H; cbn; [exact H|]. apply IH. apply istep_icoh. exact H.
Qed.

Lemma icoh_init : icoh iinit.
Proof. reflexivity. Qed.

Lemma irestart_id : forall s, icoh s -> irestart s = s.
Proof. intros [m b t] H. unfold icoh, irestart in *. cbn in *. subst. reflexivity. Qed.

Lemma iruns_app : forall l1 l2 s, iruns s (l1 ++ l2) = iruns (iruns s l1) l2.
Proof. intros l1 l2 s. unfold iruns. apply fold_left_app. Qed.

(* a stop between any two batches, followed by a start, is invisible: the observations of
   every continuation and the state it ends in are those of the uninterrupted host *)
Lemma restart_between_batches_invisible : forall l l',
  iobservations (irestart (iruns iinit l)) l' = iobservations (iruns iinit l) l' /\
  iruns (irestart (iruns iinit l)) l' = iruns iinit (l ++ l').
Proof.
  intros l l'. rewrite irestart_id by (apply iruns_icoh; apply icoh_init).
  split; [reflexivity | symmetry; apply iruns_app].
Qed.

(** * The tables hold the chain that ends at the marker *)
Lemma stack_levels : forall bs cur, stack_ok cur bs ->
  forall x, In x bs -> (fst (fst x) <= fst cur)%N.
Proof.
  induction bs as [|b t IH]; intros cur H x Hin; [destruct Hin|].
  cbn in H. destruct H as (Hb & Hl & Ht). destruct Hin as [->|Hin].
  - rewrite Hb. lia.
  - specialize (IH _ Ht x Hin). rewrite <- Hb. lia.
Qed.

Lemma filter_all : forall (A : Type) (f : A -> bool) l, (forall x, In x l -> f x = true) -> filter f l = l.
Proof.
  intros A f l. induction l as [|a t IH]; intros H; cbn; [reflexivity|].
  rewrite (H a (or_introl eq_refl)). f_equal. apply IH. intros x Hx. apply H. right. exact Hx.
Qed.

(* reverting the newest block pops it *)
Lemma revert_top : forall b t r, stack_ok (fst b) (b :: t) -> fst r = fst b -> revert_block (b :: t) r = t.
Proof.
  intros b t r H E. unfold revert_block. cbn [filter]. rewrite E, cidx_eqb_refl. cbn [negb].
  cbn in H. destruct H as (_ & Hl & Ht).
  apply filter_all. intros x Hx. pose proof (stack_levels _ _ Ht x Hx) as L.
  destruct (cidx_eqb (fst x) (fst b)) eqn:Ex; [|reflexivity].
  apply cidx_eqb_eq in Ex. rewrite Ex in L. lia.
Qed.

Section Parents.
  (* the parent of a block is a function of the block (its id is a hash of its header) *)
  Variable par : cidx -> cidx.
  Definition by_par (b : blk) : Prop := snd b = par (fst b).

  Lemma reverts_phase : forall revs bs cur c,
    stack_ok cur bs -> Forall by_par bs -> Forall by_par revs ->
    continues_reverts cur revs = Some c ->
    stack_ok c (fold_left revert_block revs bs) /\ Forall by_par (fold_left revert_block revs bs) /\
    reverts_newest bs revs.
  Proof.
    induction revs as [|r t IH]; intros bs cur c Hs Hp Hr Hc; cbn in *.
    - inversion Hc; subst. auto.
    - destruct (cidx_eqb (fst r) cur && negb (cidx_eqb cur none_idx)) eqn:E; [|discriminate].
      apply Bool.andb_true_iff in E. destruct E as [E1 E2]. apply cidx_eqb_eq in E1.
      inversion Hr as [|? ? Hr1 Hr2]; subst.
      destruct bs as [|b bt].
      + cbn in Hs. rewrite Hs, cidx_eqb_refl in E2. discriminate.
      + pose proof Hs as Hs'. cbn in Hs. destruct Hs as (Hb & Hl & Ht).
        inversion Hp as [|? ? Hp1 Hp2]; subst.
        assert (fst r = fst b) as Efb by congruence.
        rewrite revert_top; [|rewrite Hb; exact Hs' | exact Efb].
        assert (snd r = snd b) as Es by (unfold by_par in *; congruence).
        rewrite Es in Hc. destruct (IH bt (snd b) c Ht Hp2 Hr2 Hc) as (A & B & C).
        repeat split; auto.
  Qed.

  Definition after_applies (c : cidx) (apps : list blk) : cidx :=
    match rev apps with a :: _ => fst a | [] => c end.

  Lemma after_applies_cons : forall c a t, after_applies c (a :: t) = after_applies (fst a) t.
  Proof.
    intros c a t. unfold after_applies. cbn. destruct (rev t) as [|x l]; reflexivity.
  Qed.

  Lemma applies_phase : forall apps bs c,
    stack_ok c bs -> Forall by_par bs -> Forall by_par apps ->
    continues_applies c apps = true ->
    stack_ok (after_applies c apps) (fold_left apply_block apps bs) /\ Forall by_par (fold_left apply_block apps bs).
  Proof.
    induction apps as [|a t IH]; intros bs c Hs Hp Ha Hc; cbn [fold_left].
    - unfold after_applies. cbn. auto.
    - cbn in Hc. apply Bool.andb_true_iff in Hc. destruct Hc as [Hc H3].
      apply Bool.andb_true_iff in Hc. destruct Hc as [H1 H2]. apply cidx_eqb_eq in H1.
      inversion Ha as [|? ? Ha1 Ha2]; subst.
      rewrite after_applies_cons. apply IH; auto.
      + cbn. repeat split; auto. lia.
      + unfold apply_block. constructor; auto.
  Qed.

  Lemma reverts_end : forall revs cur c, continues_reverts cur revs = Some c ->
    c = match rev revs with r :: _ => snd r | [] => cur end.
  Proof.
    induction revs as [|r t IH]; intros cur c H; cbn in *; [inversion H; reflexivity|].
    destruct (cidx_eqb (fst r) cur && negb (cidx_eqb cur none_idx)); [|discriminate].
    rewrite (IH _ _ H). destruct (rev t) as [|x l]; reflexivity.
  Qed.

  Definition sinv (s : istate) : Prop :=
    icoh s /\ stack_ok (i_marker s) (i_blocks s) /\ Forall by_par (i_blocks s).

  Definition respects (o : iop) : Prop :=
    match o with IBatch revs apps => Forall by_par revs /\ Forall by_par apps | _ => True end.

  Lemma batch_sinv : forall s revs apps,
    sinv s -> Forall by_par revs -> Forall by_par apps -> continues (i_tip s) revs apps = true ->
    sinv (fst (istep s (IBatch revs apps))) /\ reverts_newest (i_blocks s) revs.
  Proof.
    intros s revs apps (Hc & Hs & Hp) Hr Ha Hk. unfold continues in Hk.
    destruct (continues_reverts (i_tip s) revs) as [c|] eqn:Er; [|discriminate].
    unfold icoh in Hc. rewrite <- Hc in Hs.
    destruct (reverts_phase revs _ _ _ Hs Hp Hr Er) as (A & B & C).
    destruct (applies_phase apps _ _ A B Ha Hk) as (D & E).
    split; [|exact C]. unfold sinv, icoh. cbn. repeat split; auto.
    unfold batch_blocks.
    assert (batch_index (i_tip s) revs apps = after_applies c apps) as Ei.
    { unfold batch_index, after_applies. destruct (rev apps); [|reflexivity]. symmetry. apply (reverts_end _ _ _ Er). }
    rewrite Ei. exact D.
  Qed.

  Lemma step_sinv : forall s o, sinv s -> respects o ->
    match o with IBatch revs apps => continues (i_tip s) revs apps = true | _ => True end ->
    sinv (fst (istep s o)).
  Proof.
    intros s [revs apps| |] H Hr Hk.
    - destruct Hr as [R1 R2]. apply (batch_sinv s revs apps H R1 R2 Hk).
    - exact H.
    - destruct H as (Hc & Hs & Hp). unfold sinv, icoh, irestart in *. cbn. auto.
  Qed.

  Lemma sinv_init : sinv iinit.
  Proof. unfold sinv, icoh. cbn. repeat split; auto. Qed.

  Lemma chain_run_sinv : forall l s, sinv s -> Forall respects l -> chain_run s l = true -> sinv (iruns s l).
  Proof.
    unfold iruns. induction l as [|o t IH]; intros s H Hr Hk; cbn [fold_left]; [exact H|].
    cbn in Hk. apply Bool.andb_true_iff in Hk. destruct Hk as [K1 K2].
    inversion Hr as [|? ? R1 R2]; subst.
    apply IH; auto. apply step_sinv; auto. destruct o; auto.
  Qed.

  (* after a history of batches that each continue from the processed tip — with stops and
     starts anywhere between them — the newest block the tables hold is the marker's block,
     and the next such batch reverts exactly the newest blocks the tables hold *)
  Lemma no_block_reverted_twice : forall l revs apps,
    Forall respects (l ++ [IBatch revs apps]) ->
    chain_run iinit (l ++ [IBatch revs apps]) = true ->
    stack_ok (i_marker (iruns iinit l)) (i_blocks (iruns iinit l)) /\
    reverts_newest (i_blocks (iruns iinit l)) revs.
  Proof.
    intros l revs apps Hr Hk.
    apply Forall_app in Hr. destruct Hr as [R1 R2]. inversion R2 as [|? ? Rab _]; subst. cbn in Rab. destruct Rab as [Ra Rb].
    assert (forall l s, chain_run s (l ++ [IBatch revs apps]) = true ->
            chain_run s l = true /\ continues (i_tip (iruns s l)) revs apps = true) as G.
    { clear. unfold iruns. induction l as [|o t IH]; intros s H; cbn in *.
      - rewrite Bool.andb_true_r in H. auto.
      - apply Bool.andb_true_iff in H. destruct H as [H1 H2]. destruct (IH _ H2) as [A B].
        rewrite H1, A. auto. }
    destruct (G l iinit Hk) as [K1 K2].
    pose proof (chain_run_sinv l iinit sinv_init R1 K1) as S.
    split; [apply S|]. apply (batch_sinv _ revs apps S Ra Rb K2).
  Qed.
End Parents.

(** * The seeded change: a reverts-only batch that leaves the marker alone *)
(* blocks 1-2-3 are processed, then 3 and 2 leave the chain for 4-5-6; batches of one *)
Definition g1 : blk := ((1, 1), (0, 0))%N.
Definition b2 : blk := ((2, 2), (1, 1))%N.
Definition b3 : blk := ((3, 3), (2, 2))%N.
Definition reorg_witness : list iop :=
  [IBatch [] [g1]; IBatch [] [b2]; IBatch [] [b3]; IBatch [b3] []].

Lemma marker_refuted_legacy :
  reverts_only [b3] [] /\
  i_tip (irestart (Legacy.iruns iinit reorg_witness)) <> i_tip (Legacy.iruns iinit reorg_witness) /\
  continues (i_tip (irestart (Legacy.iruns iinit reorg_witness))) [b3] [] = true /\
  ~ reverts_newest (i_blocks (irestart (Legacy.iruns iinit reorg_witness))) [b3] /\
  i_tip (irestart (iruns iinit reorg_witness)) = i_tip (iruns iinit reorg_witness).
Proof.
  repeat split; try discriminate; try reflexivity.
  vm_compute. intros [H _]. inversion H.
Qed.
