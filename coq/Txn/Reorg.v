(* Txn/Reorg.v (WP-D) — the indexer's resume when the best chain changed in the meantime.

   Model.v's [Section Sync] hands the indexer `next : N -> option (batch * N)`: the batch is a
   function of the marker, i.e. one fixed view of the chain.  Here the view is a parameter of
   every iteration: index/update.go asks chain.Manager.UpdatesSince(tip, max) each time round
   its loop, and between two rounds — in particular between the death of the process and its
   restart — the best chain may have been reorganised, also below the stored marker.

   - a chain is the list of its blocks, oldest first; the stored marker is the chain that has
     been processed (in the code: a ChainIndex, which names exactly one chain);
   - [upd1]/[upd] is UpdatesSince's loop together with what the managers do with its result:
     while the marker is not on the best chain, revert its last block; then apply the next
     block of the best chain; at most [max] blocks per batch;
   - one batch is one store transaction ([Model.exec] of a single [ITxn]) that writes the data
     and the marker; the in-memory tip follows the commit (the order of /repo 3ca1cfc);
   - [replay c] = the data after applying c's blocks to a fresh store.  The only assumption
     on the managers is the inverse law on replayed states: reverting the block that was just
     applied to [replay c] gives [replay c] back (for the wallet and the contract tables these
     are C16's and C01's theorems; here it is a hypothesis of the theorems below).

   No proofs about SQLite or core here; the harness (TestVerifC09Kill, chain part) kills a node
   inside a batch, reorganises the chain below the stored marker and compares the restarted
   host with one that followed the new best chain from the start. *)
From HostdBase Require Import Base.
From Coq Require Import Lia.
From HostdTxn Require Import Shape TxnTable Model Proofs.
Set Implicit Arguments.

Section Reorg.
  Variables (block data : Type).
  Variable beq : block -> block -> bool.
  Variables (apply revert : block -> data -> data).
  Variable d0 : data.

  Definition chain := list block.
  Definition replay (c : chain) : data := fold_left (fun d b => apply b d) c d0.

  Fixpoint is_prefix (m best : chain) : bool :=
    match m, best with
    | [], _ => true
    | a :: m', b :: best' => beq a b && is_prefix m' best'
    | _ :: _, [] => false
    end.

  (* one block of an update batch: the new marker and the new data *)
  Definition upd1 (best m : chain) (d : data) : option (chain * data) :=
    if is_prefix m best then
      match nth_error best (List.length m) with
      | Some b => Some (m ++ [b], apply b d)
      | None => None
      end
    else
      match rev m with
      | b :: rm => Some (rev rm, revert b d)
      | [] => None
      end.

  Fixpoint upd (fuel : nat) (best m : chain) (d : data) : chain * data :=
    match fuel with
    | O => (m, d)
    | S f => match upd1 best m d with
             | Some (m', d') => upd f best m' d'
             | None => (m, d)
             end
    end.

  (* the store: data and marker; the indexer: the store and the in-memory tip *)
  Record rdb := { r_data : data; r_marker : chain }.
  Record rstate := { rs_db : rdb; rs_tip : chain }.

  (* the transaction of one batch: the managers' writes, then SetLastIndex *)
  Definition reorg_body (m' : chain) (d' : data) : body rdb :=
    [ (KX, fun s => Ok {| r_data := d'; r_marker := r_marker s |});
      (KX, fun s => Ok {| r_data := r_data s; r_marker := m' |}) ].

  (* one round of syncDB's loop on the view [best] with fault countdown [c] *)
  Definition riter (max : nat) (best : chain) (c : fc) (s : rstate) : rstate :=
    match upd1 best (rs_tip s) (r_data (rs_db s)) with
    | None => s
    | Some _ =>
        let '(m', d') := upd max best (rs_tip s) (r_data (rs_db s)) in
        let r := exec [ITxn (reorg_body m' d')] (rs_db s) c false in
        match r_res r with
        | Ok _ => {| rs_db := r_db r; rs_tip := m' |}
        | _ => {| rs_db := r_db r; rs_tip := rs_tip s |}
        end
    end.

  Fixpoint rrun (max : nat) (sched : list (chain * fc)) (s : rstate) : rstate :=
    match sched with
    | [] => s
    | (best, c) :: t => rrun max t (riter max best c s)
    end.

  (* a restart reads the tip back from the marker *)
  Definition rrestart (s : rstate) : rstate := {| rs_db := rs_db s; rs_tip := r_marker (rs_db s) |}.

  Definition fresh : rstate := {| rs_db := {| r_data := d0; r_marker := [] |}; rs_tip := [] |}.
  Definition synced (best : chain) : rstate :=
    {| rs_db := {| r_data := replay best; r_marker := best |}; rs_tip := best |}.

  (* the tip is the marker and the data is what replaying the marker's chain gives *)
  Definition rinv (s : rstate) : Prop :=
    rs_tip s = r_marker (rs_db s) /\ r_data (rs_db s) = replay (r_marker (rs_db s)).

  (** ** Proofs *)
  Hypothesis beq_spec : forall a b, beq a b = true <-> a = b.
  Hypothesis revert_apply : forall (c : chain) (b : block), revert b (apply b (replay c)) = replay c.

  Lemma replay_snoc : forall c b, replay (c ++ [b]) = apply b (replay c).
  Proof. intros c b. unfold replay. rewrite fold_left_app. reflexivity. Qed.

  Lemma prefix_len : forall m best, is_prefix m best = true -> (List.length m <= List.length best)%nat.
  Proof.
    induction m as [|a m IH]; intros [|b best] H; cbn in *; try lia; try discriminate.
    apply andb_prop in H. destruct H as [_ H]. apply IH in H. lia.
  Qed.

  Lemma prefix_full : forall m best,
    is_prefix m best = true -> (List.length best <= List.length m)%nat -> m = best.
  Proof.
    induction m as [|a m IH]; intros [|b best] H L; cbn in *; try lia; try discriminate; auto.
    apply andb_prop in H. destruct H as [Hab H]. apply beq_spec in Hab. subst. f_equal. apply IH; auto. lia.
  Qed.

  Lemma prefix_snoc : forall m best b,
    is_prefix m best = true -> nth_error best (List.length m) = Some b -> is_prefix (m ++ [b]) best = true.
  Proof.
    induction m as [|a m IH]; intros [|c best] b H N; cbn in *; try discriminate.
    - inversion N; subst. rewrite (proj2 (beq_spec b b) eq_refl). destruct best; reflexivity.
    - apply andb_prop in H. destruct H as [Hab H]. rewrite Hab. cbn. apply IH; auto.
  Qed.

  Lemma upd1_inv : forall best m d m' d',
    d = replay m -> upd1 best m d = Some (m', d') -> d' = replay m'.
  Proof.
    unfold upd1. intros best m d m' d' Hd H. destruct (is_prefix m best).
    - destruct (nth_error best (List.length m)) as [b|]; inversion H; subst. symmetry. apply replay_snoc.
    - destruct (rev m) as [|b rm] eqn:Er; inversion H; subst.
      assert (m = rev rm ++ [b]) as Hm.
      { rewrite <- (rev_involutive m). rewrite Er. reflexivity. }
      rewrite Hm at 1. rewrite replay_snoc. apply revert_apply.
  Qed.

  Lemma upd_inv : forall fuel best m d, d = replay m -> snd (upd fuel best m d) = replay (fst (upd fuel best m d)).
  Proof.
    induction fuel as [|f IH]; intros best m d Hd; cbn [upd]; [exact Hd|].
    destruct (upd1 best m d) as [[m' d']|] eqn:E; [|exact Hd].
    apply IH. eapply upd1_inv; eauto.
  Qed.

  Lemma upd1_none_stuck : forall fuel best m d, upd1 best m d = None -> upd fuel best m d = (m, d).
  Proof. intros [|f] best m d H; cbn [upd]; [reflexivity | rewrite H; reflexivity]. Qed.

  Lemma upd_add : forall a b best m d,
    upd (a + b) best m d = upd b best (fst (upd a best m d)) (snd (upd a best m d)).
  Proof.
    induction a as [|a IH]; intros b best m d; cbn [upd Nat.add fst snd]; [reflexivity|].
    destruct (upd1 best m d) as [[m' d']|] eqn:E.
    - apply IH.
    - cbn [fst snd]. symmetry. apply upd1_none_stuck. exact E.
  Qed.

  (* on the best chain: the remaining blocks are applied *)
  Lemma upd_prefix_reaches : forall fuel best m d,
    is_prefix m best = true -> (List.length best - List.length m <= fuel)%nat ->
    fst (upd fuel best m d) = best.
  Proof.
    induction fuel as [|f IH]; intros best m d P L; cbn [upd].
    - cbn. apply prefix_full; auto. lia.
    - unfold upd1. rewrite P. destruct (nth_error best (List.length m)) as [b|] eqn:N.
      + apply IH.
        * apply prefix_snoc; auto.
        * rewrite app_length. cbn. lia.
      + cbn. apply prefix_full; auto. apply nth_error_None in N. exact N.
  Qed.

  (* anywhere: revert down to the best chain, then apply *)
  Lemma upd_reaches : forall fuel best m d,
    (List.length m + List.length best <= fuel)%nat -> fst (upd fuel best m d) = best.
  Proof.
    induction fuel as [|f IH]; intros best m d L.
    - destruct m; destruct best; cbn in *; try lia. reflexivity.
    - destruct (is_prefix m best) eqn:P.
      + apply upd_prefix_reaches; auto. lia.
      + cbn [upd]. unfold upd1. rewrite P. destruct (rev m) as [|b rm] eqn:Er.
        * assert (m = []) as -> by (rewrite <- (rev_involutive m), Er; reflexivity). discriminate.
        * apply IH. rewrite rev_length.
          assert (List.length m = S (List.length rm)) by (rewrite <- (rev_length m), Er; reflexivity). lia.
  Qed.

  (* a clean round is [upd max] on marker and data *)
  Lemma riter_clean : forall max best s,
    rs_tip s = r_marker (rs_db s) ->
    riter max best None s =
      {| rs_db := {| r_data := snd (upd max best (r_marker (rs_db s)) (r_data (rs_db s)));
                     r_marker := fst (upd max best (r_marker (rs_db s)) (r_data (rs_db s))) |};
         rs_tip := fst (upd max best (r_marker (rs_db s)) (r_data (rs_db s))) |} \/
    (upd1 best (r_marker (rs_db s)) (r_data (rs_db s)) = None /\ riter max best None s = s).
  Proof.
    intros max best [[d m] tip] T. cbn in T. subst tip. unfold riter. cbn [rs_tip rs_db r_data r_marker].
    destruct (upd1 best m d) as [p|] eqn:E; [left | right; auto].
    destruct (upd max best m d) as [m' d']. reflexivity.
  Qed.

  (* whatever fails in a round, it is a no-op or the clean round *)
  Lemma riter_cases : forall max best c s,
    riter max best c s = s \/ riter max best c s = riter max best None s.
  Proof.
    intros max best c s. unfold riter.
    destruct (upd1 best (rs_tip s) (r_data (rs_db s))) as [p|]; [|left; reflexivity].
    destruct (upd max best (rs_tip s) (r_data (rs_db s))) as [m' d']. cbv zeta.
    destruct (r_res (exec [ITxn (reorg_body m' d')] (rs_db s) c false)) as [[]| e |] eqn:R.
    - right. apply single_all in R. destruct R as [tr0 R].
      remember (r_db (exec [ITxn (reorg_body m' d')] (rs_db s) c false)) as X eqn:EX.
      cbn in R. inversion R as [[Hdb Htr]]. cbn. reflexivity.
    - left. rewrite single_atomic by (rewrite R; discriminate). destruct s; reflexivity.
    - left. rewrite single_atomic by (rewrite R; discriminate). destruct s; reflexivity.
  Qed.

  Lemma riter_inv : forall max best c s, rinv s -> rinv (riter max best c s).
  Proof.
    intros max best c s I. destruct (riter_cases max best c s) as [-> | ->]; [exact I|].
    destruct I as [T D]. destruct (riter_clean max best s T) as [-> | [_ ->]]; [|split; auto].
    split; cbn; [reflexivity|]. apply upd_inv. exact D.
  Qed.

  Lemma rrun_inv : forall max sched s, rinv s -> rinv (rrun max sched s).
  Proof.
    induction sched as [|[best c] t IH]; intros s I; cbn; [exact I|]. apply IH. apply riter_inv. exact I.
  Qed.

  Lemma rrestart_id : forall s, rinv s -> rrestart s = s.
  Proof. intros [db tip] [T _]. cbn in T. subst. reflexivity. Qed.

  (* n clean rounds on one view are [upd (n * max)] *)
  Lemma rrun_clean : forall max best n s, rinv s ->
    rrun max (repeat (best, None) n) s =
      {| rs_db := {| r_data := snd (upd (n * max) best (r_marker (rs_db s)) (r_data (rs_db s)));
                     r_marker := fst (upd (n * max) best (r_marker (rs_db s)) (r_data (rs_db s))) |};
         rs_tip := fst (upd (n * max) best (r_marker (rs_db s)) (r_data (rs_db s))) |}.
  Proof.
    induction n as [|n IH]; intros s I.
    - destruct s as [[d m] tip]. destruct I as [T _]. cbn in *. subst. reflexivity.
    - cbn [repeat rrun]. rewrite IH by (apply riter_inv; exact I).
      destruct I as [T D]. cbn [Nat.mul]. rewrite (upd_add max (n * max)).
      destruct (riter_clean max best s T) as [-> | [N ->]]; cbn [rs_db rs_tip r_data r_marker].
      + reflexivity.
      + rewrite (upd1_none_stuck max _ _ _ N). reflexivity.
  Qed.

  (* after any history (other views of the chain, failing rounds — the prefix that ran before
     a death included) enough clean rounds on the view [best] end in [synced best] *)
  Lemma resume_reaches_best : forall max sched best n s,
    rinv s ->
    (List.length (r_marker (rs_db (rrun max sched s))) + List.length best <= n * max)%nat ->
    rrun max (sched ++ repeat (best, None) n) s = synced best.
  Proof.
    intros max sched best n s I L.
    assert (forall a b s0, rrun max (a ++ b) s0 = rrun max b (rrun max a s0)) as Happ.
    { induction a as [|[v c] a IHa]; intros b s0; cbn; auto. }
    rewrite Happ. pose proof (rrun_inv max sched I) as I'.
    set (s1 := rrun max sched s) in *. rewrite rrun_clean by exact I'.
    pose proof (@upd_reaches (n * max) best (r_marker (rs_db s1)) (r_data (rs_db s1)) L) as Hm.
    pose proof (@upd_inv (n * max) best (r_marker (rs_db s1)) (r_data (rs_db s1)) (proj2 I')) as Hd.
    rewrite Hm in *. rewrite Hd. reflexivity.
  Qed.

  Lemma rrun_inv_restart : forall max sched s, rinv s ->
    rinv (rrun max sched s) /\ rrestart (rrun max sched s) = rrun max sched s.
  Proof. intros max sched s I. pose proof (rrun_inv max sched I) as I'. split; [exact I' | apply rrestart_id; exact I']. Qed.

  Lemma rinv_fresh : rinv fresh.
  Proof. split; reflexivity. Qed.

  (* ... which is where the host ends that followed [best] from a fresh store without any
     interruption *)
  Lemma resume_equals_uninterrupted : forall max sched best n n',
    (List.length (r_marker (rs_db (rrun max sched fresh))) + List.length best <= n * max)%nat ->
    (List.length best <= n' * max)%nat ->
    rrun max (sched ++ repeat (best, None) n) fresh = rrun max (repeat (best, None) n') fresh.
  Proof.
    intros max sched best n n' L L'.
    rewrite (resume_reaches_best max sched best n rinv_fresh L).
    symmetry. apply (resume_reaches_best max [] best n' rinv_fresh). cbn. exact L'.
  Qed.
End Reorg.
