(* Txn/Volume.v (WP-D) — host/storage/storage.go: VolumeManager.AddVolume, ResizeVolume (grow /
   shrink) and RemoveVolume as sequences of file operations and store transactions, one volume.
   No proofs here (VolumeProofs.v).

   State: the volume's data file (absent, or its size in sectors) and the volume's row in the
   store (absent, or total_sectors and the `available` flag).  Every step is either one file
   operation or one store method (a single transaction: atomic by c09_single_atomic /
   c09_death_single_all_or_nothing), so "a failure or a death at any point" is "after j steps".

     AddVolume(path, max)   os.Create; Store.AddVolume (row 0 sectors);  [failure: os.Remove]
                            Store.SetAvailable(true) [error ignored];
                            growVolume: per batch  file.Truncate(t); Store.GrowVolume(t)
     ResizeVolume, larger   growVolume from the stored size
     ResizeVolume, smaller  (sectors migrated first — C02) per batch Store.ShrinkVolume(t); file.Truncate(t)
     RemoveVolume           (sectors migrated first) Store.RemoveVolume (slots in batches, then the row); os.Remove
     start (loadVolumes)    per row: the file opens -> SetAvailable(true), status ready;
                            it does not -> SetAvailable(false), status unavailable *)
From HostdBase Require Import Base.
Set Implicit Arguments.

Record vol := { v_file : option N; v_row : option (N * bool) }.

Inductive vstep :=
| FCreate | FTrunc (n : N) | FRemove
| DInsert | DAvail (b : bool) | DGrow (n : N) | DShrink (n : N) | DDelete.

Definition vapply (st : vstep) (s : vol) : vol :=
  match st with
  | FCreate => {| v_file := Some 0%N; v_row := v_row s |}
  | FTrunc n => {| v_file := match v_file s with Some _ => Some n | None => None end; v_row := v_row s |}
  | FRemove => {| v_file := None; v_row := v_row s |}
  | DInsert => {| v_file := v_file s; v_row := Some (0%N, false) |}
  | DAvail b => {| v_file := v_file s; v_row := match v_row s with Some (t, _) => Some (t, b) | None => None end |}
  | DGrow n => {| v_file := v_file s;
                  v_row := match v_row s with Some (t, a) => Some (if (t <? n)%N then n else t, a) | None => None end |}
  | DShrink n => {| v_file := v_file s;
                    v_row := match v_row s with Some (t, a) => Some (if (n <? t)%N then n else t, a) | None => None end |}
  | DDelete => {| v_file := v_file s; v_row := None |}
  end.

Definition vrun (p : list vstep) (s : vol) : vol := fold_left (fun s st => vapply st s) p s.

(* the batch targets of growVolume / shrinkVolume (resizeBatchSize = bsz) *)
Fixpoint grow_targets (fuel : nat) (cur new bsz : N) : list N :=
  match fuel with
  | O => []
  | S f => if (cur <? new)%N then N.min (cur + bsz) new :: grow_targets f (cur + bsz) new bsz else []
  end.

Fixpoint shrink_targets (fuel : nat) (cur new bsz : N) : list N :=
  match fuel with
  | O => []
  | S f =>
      if (new <? cur)%N then
        let t := if (bsz <? cur)%N then N.max (cur - bsz) new else new in
        t :: shrink_targets f t new bsz
      else []
  end.

Definition grow_prog (ts : list N) : list vstep := flat_map (fun t => [FTrunc t; DGrow t]) ts.
Definition shrink_prog (ts : list N) : list vstep := flat_map (fun t => [DShrink t; FTrunc t]) ts.
Definition add_prog (ts : list N) : list vstep := FCreate :: DInsert :: DAvail true :: grow_prog ts.
(* Store.RemoveVolume deletes the slots in batches (each lowers total_sectors), then the row *)
Definition remove_prog (ts : list N) : list vstep := map DShrink ts ++ [DDelete; FRemove].

(* the order the other way round (rows first when growing, file first when shrinking): what
   the proofs exclude and seeded mutants do *)
Definition grow_prog_rows_first (ts : list N) : list vstep := flat_map (fun t => [DGrow t; FTrunc t]) ts.

(* AddVolume when step j fails in-process: a failed Store.AddVolume removes the file again, a
   failed SetAvailable is ignored, anything else ends the operation where it is *)
Definition add_fail (ts : list N) (j : nat) (s : vol) : vol :=
  let p := add_prog ts in
  match j with
  | 1%nat => vapply FRemove (vrun (firstn 1 p) s)
  | 2%nat => vrun (skipn 3 p) (vrun (firstn 2 p) s)
  | _ => vrun (firstn j p) s
  end.

(* host start *)
Definition vrestart (s : vol) : vol :=
  match v_row s with
  | None => s
  | Some (t, _) => {| v_file := v_file s; v_row := Some (t, match v_file s with Some _ => true | None => false end) |}
  end.

(* every slot the store knows lies inside the file *)
Definition vok (s : vol) : Prop :=
  match v_row s with
  | None => True
  | Some (t, _) => exists f, v_file s = Some f /\ (t <= f)%N
  end.

Definition vok_b (s : vol) : bool :=
  match v_row s with
  | None => true
  | Some (t, _) => match v_file s with Some f => (t <=? f)%N | None => false end
  end.

Definition opt_eqb {A} (e : A -> A -> bool) (a b : option A) : bool :=
  match a, b with Some x, Some y => e x y | None, None => true | _, _ => false end.
Definition vol_eqb (a b : vol) : bool :=
  opt_eqb N.eqb (v_file a) (v_file b) &&
  opt_eqb (fun x y => N.eqb (fst x) (fst y) && Bool.eqb (snd x) (snd y)) (v_row a) (v_row b).

(* the states a death can leave: after j steps, for every j *)
Fixpoint death_states (p : list vstep) (s : vol) : list vol :=
  s :: match p with [] => [] | st :: t => death_states t (vapply st s) end.

(* correspondence: which operation, on which pre-state, with which batch size *)
Inductive vkind := VAdd | VGrow | VShrink | VRemove.
Definition vprog (k : vkind) (cur new bsz : N) : list vstep :=
  let fuel := S (N.to_nat (N.max cur new)) in
  match k with
  | VAdd => add_prog (grow_targets fuel 0 new bsz)
  | VGrow => grow_prog (grow_targets fuel cur new bsz)
  | VShrink => shrink_prog (shrink_targets fuel cur new bsz)
  | VRemove => remove_prog (shrink_targets fuel cur 0 new)   (* [new] = the store's slot batch size *)
  end.

(* is the state found after the death one the model allows, and is it sound *)
Definition vol_check (k : vkind) (pre : vol) (new bsz : N) (seen : vol) : bool :=
  let cur := match v_row pre with Some (t, _) => t | None => 0%N end in
  existsb (vol_eqb seen) (death_states (vprog k cur new bsz) pre) && vok_b seen.
