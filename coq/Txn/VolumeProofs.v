(* Txn/VolumeProofs.v (WP-D) — a failure or a death at any step of AddVolume / grow / shrink /
   RemoveVolume leaves no row whose slots lie outside its file. *)
From HostdBase Require Import Base.
From Coq Require Import Lia ZifyBool ZifyN ZifyNat.
From HostdTxn Require Import Volume.

Lemma vok_b_spec : forall s, vok_b s = true <-> vok s.
Proof.
  intros [f r]. unfold vok_b, vok. cbn. destruct r as [[t a]|]; [|tauto].
  destruct f as [f|].
  - split; [intros H; exists f; split; [reflexivity | lia] | intros [f' [E L]]; inversion E; subst; lia].
  - split; [discriminate | intros [f' [E _]]; discriminate].
Qed.

Lemma vrun_app : forall p q s, vrun (p ++ q) s = vrun q (vrun p s).
Proof. intros. unfold vrun. apply fold_left_app. Qed.

(* the total of the row, 0 without one *)
Definition vtotal (s : vol) : N := match v_row s with Some (t, _) => t | None => 0%N end.

(** growing: file first *)
Definition asc (t0 : N) (ts : list N) : Prop :=
  forall pre x post, ts = pre ++ x :: post -> (t0 <= x)%N /\ Forall (fun y => (y <= x)%N) pre.

Fixpoint ascending (t0 : N) (ts : list N) : Prop :=
  match ts with [] => True | x :: r => (t0 <= x)%N /\ ascending x r end.

Lemma grow_prefix_ok : forall ts s j,
  vok s -> v_file s <> None -> ascending (vtotal s) ts ->
  vok (vrun (firstn j (grow_prog ts)) s).
Proof.
  induction ts as [|t ts IH]; intros s j OK F A.
  - destruct j; exact OK.
  - destruct A as [A1 A2]. destruct s as [f r]. destruct f as [f|]; [|exfalso; apply F; reflexivity].
    destruct j as [|[|j]]; cbn [grow_prog flat_map firstn app].
    + exact OK.
    + cbn. unfold vok in *. cbn in *. destruct r as [[t0 a]|]; [|exact I].
      exists t. split; [reflexivity | exact A1].
    + change (FTrunc t :: DGrow t :: firstn j (flat_map (fun t0 => [FTrunc t0; DGrow t0]) ts))
        with ([FTrunc t; DGrow t] ++ firstn j (grow_prog ts)).
      rewrite vrun_app. apply IH.
      * cbn. unfold vok. cbn. destruct r as [[t0 a]|]; [|exact I]. cbn in A1.
        exists t. split; [reflexivity|]. destruct (t0 <? t)%N eqn:E; lia.
      * cbn. discriminate.
      * cbn. unfold vtotal in *. cbn in *. destruct r as [[t0 a]|]; cbn.
        -- destruct (t0 <? t)%N eqn:E; [exact A2|]. assert (t0 = t) by lia. subst. exact A2.
        -- destruct ts as [|x r']; [exact I|]. destruct A2 as [A2 A3]. split; [lia | exact A3].
Qed.

(** shrinking: rows first *)
Fixpoint descending (t0 : N) (ts : list N) : Prop :=
  match ts with [] => True | x :: r => (x <= t0)%N /\ descending x r end.

Lemma shrink_prefix_ok : forall ts s j,
  vok s -> v_row s <> None -> descending (vtotal s) ts ->
  vok (vrun (firstn j (shrink_prog ts)) s).
Proof.
  induction ts as [|t ts IH]; intros s j OK R D.
  - destruct j; exact OK.
  - destruct D as [D1 D2]. destruct s as [f r]. destruct r as [[t0 a]|]; [|exfalso; apply R; reflexivity].
    unfold vok in OK. cbn in OK. destruct OK as [f0 [Ef L]]. cbn in Ef. subst f. cbn in D1.
    destruct j as [|[|j]]; cbn [shrink_prog flat_map firstn app].
    + unfold vok. cbn. eauto.
    + cbn. unfold vok. cbn. exists f0. split; [reflexivity|]. destruct (t <? t0)%N eqn:E; lia.
    + change (DShrink t :: FTrunc t :: firstn j (flat_map (fun t1 => [DShrink t1; FTrunc t1]) ts))
        with ([DShrink t; FTrunc t] ++ firstn j (shrink_prog ts)).
      rewrite vrun_app. apply IH.
      * cbn. unfold vok. cbn. exists t. split; [reflexivity|]. destruct (t <? t0)%N eqn:E; lia.
      * cbn. discriminate.
      * cbn. unfold vtotal. cbn. destruct (t <? t0)%N eqn:E; [exact D2|]. assert (t = t0) by lia. subst. exact D2.
Qed.

(** the batch targets the code computes are monotone *)
Lemma grow_targets_ascending : forall fuel cur new bsz t0,
  (t0 <= cur)%N -> ascending t0 (grow_targets fuel cur new bsz).
Proof.
  induction fuel as [|f IH]; intros cur new bsz t0 L; cbn [grow_targets]; [exact I|].
  destruct (cur <? new)%N eqn:E; [|exact I]. split; [lia|].
  destruct (N.min (cur + bsz) new =? new)%N eqn:M.
  - (* the last batch: the loop ends *)
    destruct f as [|f']; cbn [grow_targets]; [exact I|].
    destruct (cur + bsz <? new)%N eqn:E2; [|exact I]. lia.
  - apply IH. lia.
Qed.

Lemma shrink_targets_descending : forall fuel cur new bsz t0,
  (cur <= t0)%N -> descending t0 (shrink_targets fuel cur new bsz).
Proof.
  induction fuel as [|f IH]; intros cur new bsz t0 L; cbn [shrink_targets]; [exact I|].
  destruct (new <? cur)%N eqn:E; [|exact I].
  split; [destruct (bsz <? cur)%N eqn:B; lia|].
  apply IH. lia.
Qed.

(** the operations *)
(* AddVolume on a path that has neither file nor row *)
Definition vnone : vol := {| v_file := None; v_row := None |}.

Lemma add_death_ok : forall ts j, ascending 0%N ts -> vok (vrun (firstn j (add_prog ts)) vnone).
Proof.
  intros ts j A. destruct j as [|[|[|j]]]; try (cbn; unfold vok; cbn; eauto; fail).
  - cbn. unfold vok. cbn. exists 0%N. split; [reflexivity | lia].
  - change (firstn (S (S (S j))) (add_prog ts)) with ([FCreate; DInsert; DAvail true] ++ firstn j (grow_prog ts)).
    rewrite vrun_app. apply grow_prefix_ok.
    + cbn. unfold vok. cbn. exists 0%N. split; [reflexivity | lia].
    + cbn. discriminate.
    + cbn. exact A.
Qed.

Lemma grow_prefix_row : forall ts s j,
  v_row s <> None -> v_row (vrun (firstn j (grow_prog ts)) s) <> None.
Proof.
  induction ts as [|t ts IH]; intros s j R.
  - destruct j; exact R.
  - destruct j as [|[|j]]; cbn [grow_prog flat_map firstn app].
    + exact R.
    + cbn. exact R.
    + change (FTrunc t :: DGrow t :: firstn j (flat_map (fun t0 => [FTrunc t0; DGrow t0]) ts))
        with ([FTrunc t; DGrow t] ++ firstn j (grow_prog ts)).
      rewrite vrun_app. apply IH. cbn. destruct (v_row s) as [[t0 a]|]; [discriminate | congruence].
Qed.

(* after a death at any step and the next start: no volume (at most an empty file is left), or
   a row that is available with all of its slots inside the file *)
Lemma add_death_restart : forall ts j, ascending 0%N ts ->
  let s := vrestart (vrun (firstn j (add_prog ts)) vnone) in
  (v_row s = None /\ (v_file s = None \/ v_file s = Some 0%N)) \/
  (exists t f, v_row s = Some (t, true) /\ v_file s = Some f /\ (t <= f)%N).
Proof.
  intros ts j A. pose proof (add_death_ok ts j A) as OK. cbv zeta.
  destruct j as [|[|j]].
  - left. cbn. auto.
  - left. cbn. auto.
  - right. unfold vrestart. unfold vok in OK.
    destruct (v_row (vrun (firstn (S (S j)) (add_prog ts)) vnone)) as [[t a]|] eqn:R.
    + destruct OK as [f [F L]]. rewrite F. cbn. eauto.
    + exfalso. revert R. clear OK. destruct j as [|j]; [cbn; discriminate|].
      change (firstn (S (S (S j))) (add_prog ts)) with ([FCreate; DInsert; DAvail true] ++ firstn j (grow_prog ts)).
      rewrite vrun_app. apply grow_prefix_row. cbn. discriminate.
Qed.

(* a failing step (in-process): the same, and a failed Store.AddVolume leaves nothing at all *)
Lemma add_fail_ok : forall ts j, ascending 0%N ts ->
  vok (add_fail ts j vnone) /\ (j = 1%nat -> add_fail ts j vnone = vnone).
Proof.
  intros ts j A. split.
  - destruct j as [|[|[|j]]]; unfold add_fail.
    + exact (add_death_ok ts 0 A).
    + cbn. unfold vok. cbn. exact I.
    + cbn [add_prog skipn firstn]. change (vrun [FCreate; DInsert] vnone) with {| v_file := Some 0%N; v_row := Some (0%N, false) |}.
      rewrite <- (firstn_all (grow_prog ts)). apply grow_prefix_ok.
      * unfold vok. cbn. exists 0%N. split; [reflexivity | lia].
      * cbn. discriminate.
      * cbn. exact A.
    + exact (add_death_ok ts (S (S (S j))) A).
  - intros ->. reflexivity.
Qed.

Lemma grow_death_ok : forall fuel s new bsz j, vok s -> v_file s <> None ->
  vok (vrun (firstn j (grow_prog (grow_targets fuel (vtotal s) new bsz))) s).
Proof.
  intros. apply grow_prefix_ok; auto. apply grow_targets_ascending. lia.
Qed.

Lemma shrink_death_ok : forall fuel s new bsz j, vok s -> v_row s <> None ->
  vok (vrun (firstn j (shrink_prog (shrink_targets fuel (vtotal s) new bsz))) s).
Proof.
  intros. apply shrink_prefix_ok; auto. apply shrink_targets_descending. lia.
Qed.

Lemma remove_death_ok : forall ts s j, vok s -> vok (vrun (firstn j (remove_prog ts)) s).
Proof.
  unfold remove_prog. induction ts as [|t ts IH]; intros s j OK.
  - destruct j as [|[|j]]; [exact OK | |].
    + cbn. unfold vok. cbn. exact I.
    + cbn [map app firstn]. rewrite firstn_nil. cbn. unfold vok. cbn. exact I.
  - destruct j as [|j]; [exact OK|]. cbn [map app firstn].
    change (vrun (DShrink t :: firstn j (map DShrink ts ++ [DDelete; FRemove])) s)
      with (vrun (firstn j (map DShrink ts ++ [DDelete; FRemove])) (vapply (DShrink t) s)).
    apply IH. unfold vok in *. destruct s as [f r]. cbn in *. destruct r as [[t0 a]|]; [|exact I].
    destruct OK as [f0 [E L]]. exists f0. split; [exact E|]. destruct (t <? t0)%N eqn:C; lia.
Qed.

(* AddVolume with the batch targets the code computes *)
Lemma addvolume_death : forall fuel max bsz j,
  let s := vrestart (vrun (firstn j (add_prog (grow_targets fuel 0 max bsz))) vnone) in
  (v_row s = None /\ (v_file s = None \/ v_file s = Some 0%N)) \/
  (exists t f, v_row s = Some (t, true) /\ v_file s = Some f /\ (t <= f)%N).
Proof. intros. apply add_death_restart. apply grow_targets_ascending. lia. Qed.

(* the other order (rows first when growing) is refuted: a death between the two steps leaves
   slots beyond the end of the file *)
Lemma grow_rows_first_refuted :
  let s := {| v_file := Some 4%N; v_row := Some (4%N, true) |} in
  vok s /\ ~ vok (vrun (firstn 1 (grow_prog_rows_first [8%N])) s).
Proof.
  split.
  - unfold vok. cbn. exists 4%N. split; [reflexivity | lia].
  - unfold vok. cbn. intros [f [E L]]. inversion E; subst. lia.
Qed.

(* what a death between os.Create and the commit of Store.AddVolume leaves: no volume, but an
   empty file at the path — AddVolume refuses a path whose file exists *)
Lemma add_death_orphan_file :
  forall ts, vrun (firstn 1 (add_prog ts)) vnone = {| v_file := Some 0%N; v_row := None |}.
Proof. reflexivity. Qed.

(* the checker of the correspondence is sound: an accepted state satisfies vok *)
Lemma vol_check_sound : forall k pre new bsz seen, vol_check k pre new bsz seen = true -> vok seen.
Proof.
  intros k pre new bsz seen H. unfold vol_check in H. apply andb_prop in H. destruct H as [_ H].
  apply vok_b_spec. exact H.
Qed.
