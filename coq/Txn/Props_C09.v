(* C09 — Persistent operations and chain-update batches are all-or-nothing.
   Statements only; every proof is [exact lemma].

   Readings (DESIGN.md §3 C09): for the documented batch operations (ExpireContractSectors,
   ExpireV2ContractSectors, ExpireTempSectors, PruneSectors, MigrateSectors, RemoveVolume,
   StoreSector) "no visible effect" is read as: every batch is atomic, every intermediate
   committed state is consistent, and running the operation again completes it.

   Process death (WP-D): c09_process_death_partial equates a death with the failure of the k-th
   database call.  Model.die defines death on its own — the machine stops after n completed
   database calls, the file holds what the last completed Commit installed — and
   c09_death_is_failed_call proves the equation; c09_process_death / c09_death_single_* are the
   all-or-nothing statements for a death at every point.  What stays trusted is SQLite itself
   (an uncommitted transaction leaves no trace in the file, WAL recovery); TestVerifC09Kill
   tests exactly that on SIGKILLed child processes and evaluates Model.die on their histories. *)
From HostdBase Require Import Base.
From Coq Require Import String.
From HostdTxn Require Import Retry ClosureTable RetryProofs.
From HostdTxn Require Import Shape TxnTable Model Proofs.
From HostdTxn Require Import Death Reorg Volume VolumeProofs.

(** Obligations on the table regenerated from the source on every run *)

(* every exported Store method that writes is a single Store.transaction call, or is one of
   the documented multi-step operations with exactly the documented structure *)
Theorem c09_table_ok : table_ok = true.
Proof. exact table_ok_holds. Qed.
Print Assumptions c09_table_ok.

(* every manager method that writes its cache and the store writes the cache after the
   checked store call *)
Theorem c09_mgr_table_ok : mgr_table_ok = true.
Proof. exact mgr_table_ok_holds. Qed.
Print Assumptions c09_mgr_table_ok.

(* syncDB: wallet, contract and settings updates and SetLastIndex run inside the one
   UpdateChainState closure, and nothing that can fail sits between the commit and the
   update of the in-memory tip *)
Theorem c09_sync_ok : sync_ok = true.
Proof. exact sync_ok_holds. Qed.
Print Assumptions c09_sync_ok.

Theorem c09_writer_is_single_transaction : forall e,
  In e store_methods -> sm_writes e = true -> mem_str (sm_name e) exempt = false ->
  lookup_multi (sm_name e) documented_multi = None -> sm_shape e = [STxn].
Proof. exact writer_single_or_documented. Qed.
Print Assumptions c09_writer_is_single_transaction.

(** One transaction: for every statement list, every state, every fault index and kind *)

(* any failure — of a statement by itself, an injected error at Begin, at the k-th
   statement or at Commit, a panic — leaves the committed state exactly as it was *)
Theorem c09_single_atomic : forall (db : Type) (b : body db) (s : db) (c : fc) (xf : bool),
  r_res (exec [ITxn b] s c xf) <> Ok tt -> r_db (exec [ITxn b] s c xf) = s.
Proof. exact single_atomic. Qed.
Print Assumptions c09_single_atomic.

(* success installs what the statements compute in order without faults: all of it *)
Theorem c09_single_all : forall (db : Type) (b : body db) (s : db) (c : fc) (xf : bool),
  r_res (exec [ITxn b] s c xf) = Ok tt ->
  exists tr0, run_body b s None = (BDone (r_db (exec [ITxn b] s c xf)), tr0, None).
Proof. exact single_all. Qed.
Print Assumptions c09_single_all.

(* an injected error inside the transaction is never swallowed *)
Theorem c09_fault_is_reported : forall (db : Type) (b : body db) (s : db) (k : nat) (xf : bool),
  (k <= n_elig b + 1)%nat -> r_res (exec [ITxn b] s (Some (k, false)) xf) <> Ok tt.
Proof. exact single_fault_not_swallowed. Qed.
Print Assumptions c09_fault_is_reported.

(* "database is locked" at any call: the store retries and the call is indistinguishable
   from the uninterrupted one *)
Theorem c09_busy_retry_transparent : forall (db : Type) (b : body db) (s : db) (k : nat) (xf : bool),
  r_db (exec [ITxn b] s (Some (k, true)) xf) = r_db (exec [ITxn b] s None xf) /\
  r_res (exec [ITxn b] s (Some (k, true)) xf) = r_res (exec [ITxn b] s None xf).
Proof. exact single_busy_transparent. Qed.
Print Assumptions c09_busy_retry_transparent.

(** Several transactions (documented batch operations) *)

(* whatever fails, the committed state is the one after some prefix of the method's
   transactions, each of them complete.  PARTIAL with respect to process death: a crash is
   the same as a failing call provided SQLite's commit is atomic. *)
Theorem c09_process_death_partial : forall (db : Type) (p : list (item db)) (s : db) (c : fc) (xf : bool),
  only_txn p = true ->
  exists n, (n <= List.length p)%nat /\
    r_db (exec p s c xf) = r_db (exec (firstn n p) s None xf) /\
    r_res (exec (firstn n p) s None xf) = Ok tt /\
    (r_res (exec p s c xf) = Ok tt -> n = List.length p).
Proof. exact prefix_commit. Qed.
Print Assumptions c09_process_death_partial.

(* batched loops: wherever the loop stops, the counter still mirrors the rows and only
   selected rows are gone *)
Theorem c09_batch_loop_consistent : forall fuel bsz fa s,
  consistent s ->
  consistent (fst (batch_loop fuel bsz fa s)) /\ unselected (fst (batch_loop fuel bsz fa s)) = unselected s.
Proof. exact batch_loop_inv. Qed.
Print Assumptions c09_batch_loop_consistent.

Theorem c09_batch_loop_completes : forall fuel bsz s,
  (List.length (rows s) < fuel)%nat ->
  snd (batch_loop fuel (S bsz) None s) = true /\ rows (fst (batch_loop fuel (S bsz) None s)) = unselected s.
Proof. exact batch_loop_completes. Qed.
Print Assumptions c09_batch_loop_completes.

(* interrupted at any batch and run again, the operation ends in the state of the
   uninterrupted run *)
Theorem c09_batch_retry_converges : forall fuel bsz j s,
  consistent s -> (List.length (rows s) < fuel)%nat ->
  fst (batch_loop fuel (S bsz) None (fst (batch_loop fuel (S bsz) (Some j) s))) = fst (batch_loop fuel (S bsz) None s).
Proof. exact batch_retry_converges. Qed.
Print Assumptions c09_batch_retry_converges.

(** Managers: in-memory caches agree with the database under faults *)
Theorem c09_cache_after_commit : forall (db cache : Type) (load : db -> cache) (o : mop db cache) s c xf,
  m_pos o = CacheAfterOk -> fails_clean (m_store o) -> right_on_success load o ->
  coherent load s -> coherent load (fst (mgr_exec o s c xf)).
Proof. exact cache_after_commit. Qed.
Print Assumptions c09_cache_after_commit.

Theorem c09_single_store_call_fails_clean : forall (db : Type) (b : body db), fails_clean [ITxn b].
Proof. exact single_fails_clean. Qed.
Print Assumptions c09_single_store_call_fails_clean.

(* why the order matters (ConfigManager.UpdateSettings before the fix): cache first,
   store second, loses coherence on the first failed write *)
Theorem c09_cache_before_store_incoherent :
  coherent (fun d : N => d) (1%N, 1%N) /\
  ~ coherent (fun d : N => d) (fst (mgr_exec settings_like (1%N, 1%N) (Some (1%nat, false)) false)).
Proof. exact cache_before_store_incoherent. Qed.
Print Assumptions c09_cache_before_store_incoherent.

(** The chain-update batch *)

(* wallet, contracts, announcement state and the processed-tip marker change together or
   not at all, for every fault at every call of the batch *)
Theorem c09_batch_atomic : forall (data batch : Type) (w ct st : batch -> data -> res data)
    (b : batch) (m' : N) (s : idb data) (c : fc),
  let r := exec [ITxn (batch_body w ct st b m')] s c false in
  (r_res r <> Ok tt -> r_db r = s) /\
  (r_res r = Ok tt -> exists d1 d2 d3,
      w b (d_data s) = Ok d1 /\ ct b d1 = Ok d2 /\ st b d2 = Ok d3 /\
      r_db r = {| d_data := d3; d_marker := m' |}).
Proof. exact batch_atomic. Qed.
Print Assumptions c09_batch_atomic.

(* any schedule of failures (inside the batch or in the actions after it) only delays the
   uninterrupted run: the indexer is always in a state of the clean run *)
Theorem c09_resume_converges : forall (data batch : Type) (next : N -> option (batch * N))
    (w ct st : batch -> data -> res data) (sched : list (fc * bool)) (s : istate data),
  exists n, (n <= List.length sched)%nat /\
    run_sync next w ct st true sched s = iter_clean next w ct st n s.
Proof. exact resume_converges. Qed.
Print Assumptions c09_resume_converges.

(* the in-memory tip always equals the stored marker, hence a restart resumes from the
   same point *)
Theorem c09_tip_follows_marker : forall (data batch : Type) (next : N -> option (batch * N))
    (w ct st : batch -> data -> res data) (sched : list (fc * bool)) (s : istate data),
  tip_is_marker s -> tip_is_marker (run_sync next w ct st true sched s).
Proof. exact run_keeps_tip. Qed.
Print Assumptions c09_tip_follows_marker.

Theorem c09_restart_resumes_from_marker : forall (data : Type) (s : istate data),
  tip_is_marker s -> restart_idx s = s.
Proof. exact restart_is_identity. Qed.
Print Assumptions c09_restart_resumes_from_marker.

(* the order before the fix (tip updated only after the post-commit actions succeeded): one
   failing action and the same batch is applied twice — data 2 at marker 1 *)
Theorem c09_tip_after_actions_diverges :
  let s := run_sync ex_next ex_upd ex_id ex_id false [(None, true); (None, false)] ex_s0 in
  d_marker (i_db s) = 1%N /\ d_data (i_db s) = 2%N /\
  d_data (i_db (run_sync ex_next ex_upd ex_id ex_id true [(None, true); (None, false)] ex_s0)) = 2%N /\
  d_marker (i_db (run_sync ex_next ex_upd ex_id ex_id true [(None, true); (None, false)] ex_s0)) = 2%N.
Proof. exact tip_after_actions_diverges. Qed.
Print Assumptions c09_tip_after_actions_diverges.

(** Store.transaction re-runs its closure after "database is locked" (Retry.v): the database
    part of a failed attempt is rolled back, the variables the closure shares with the function
    around it are not.  [retry budget pat c d l]: up to [budget] attempts (29; 9 in the
    `testing` build) of closure [c] on database [d] and captured state [l]; [pat] holds, per
    attempt, the database call (Begin = 0, statements, Commit) that fails with "database is
    locked", if any.  All of this for every interpretation of the closure's expressions and
    statements, every database type and value type. *)

(* a closure that (re)initialises every variable it assigns before it reads it (the syntactic
   condition closed_closure): for every pattern of transient failures that leaves one attempt
   of the budget, the result, the committed database and every captured variable are those of
   the run without failures *)
Theorem c09_retry_transparent : forall (V db : Type) (dflt : V) (I : interp V db) (fuel : nat) (c : cmd),
  closed_closure c = true ->
  forall (d : db) (l0 : local V) (budget : nat) (pat : list fcd), (List.length pat < budget)%nat ->
  t_res (retry dflt I fuel budget pat c d l0) = t_res (retry dflt I fuel budget [] c d l0) /\
  t_db (retry dflt I fuel budget pat c d l0) = t_db (retry dflt I fuel budget [] c d l0) /\
  forall x, t_loc (retry dflt I fuel budget pat c d l0) x = t_loc (retry dflt I fuel budget [] c d l0) x.
Proof. exact retry_transparent. Qed.
Print Assumptions c09_retry_transparent.

(* whatever the closure and the pattern: unless the transaction reports success the committed
   database is untouched (in particular when the budget is exhausted) *)
Theorem c09_retry_exhausted_no_effect : forall (V db : Type) (dflt : V) (I : interp V db) fuel budget pat c (d : db) (l : local V),
  t_res (retry dflt I fuel budget pat c d l) <> TOk -> t_db (retry dflt I fuel budget pat c d l) = d.
Proof. exact retry_no_commit_no_effect. Qed.
Print Assumptions c09_retry_exhausted_no_effect.

(* a database that stays locked uses the budget up: the busy error is returned, database and
   captured state are as before *)
Theorem c09_retry_budget_exhausted : forall (V db : Type) (dflt : V) (I : interp V db) fuel budget c (d : db) (l : local V),
  retry dflt I fuel budget (repeat (Some O) budget) c d l = {| t_res := TExhausted; t_db := d; t_loc := l |}.
Proof. exact retry_exhausted. Qed.
Print Assumptions c09_retry_budget_exhausted.

(* ... and wherever the attempts of a closed closure were interrupted before the budget ran
   out, a captured variable differs from its initial value only if the run without failures
   assigns it too *)
Theorem c09_retry_exhausted_locals : forall (V db : Type) (dflt : V) (I : interp V db) (fuel : nat) (c : cmd),
  closed_closure c = true ->
  forall (d : db) (l0 : local V) pat budget,
  t_res (retry dflt I fuel budget pat c d l0) = TExhausted ->
  forall x, In x (a_wr (Retry.attempt dflt I fuel None c d l0)) \/ t_loc (retry dflt I fuel budget pat c d l0) x = l0 x.
Proof. exact retry_exhausted_locals_l0. Qed.
Print Assumptions c09_retry_exhausted_locals.

(* REFUTED for a closure that accumulates into a captured variable (the shape of
   RHP4CreditAccounts with its createdAccounts counter hoisted out of the closure): it is not
   closed, and one "database is locked" at its first write makes the committed metric 2
   instead of 1; with the counter declared inside the closure (as in the repository) it is
   closed and the metric is 1 *)
Theorem c09_retry_accumulating_refuted :
  closed_closure leaky = false /\ closed_closure leaky_fixed = true /\
  let l0 : local N := fun _ => 0%N in
  let t := retry 0%N leaky_interp 20 go_budget [Some 2%nat] leaky 0%N l0 in
  let t0 := retry 0%N leaky_interp 20 go_budget [] leaky 0%N l0 in
  let tf := retry 0%N leaky_interp 20 go_budget [Some 2%nat] leaky_fixed 0%N l0 in
  t_res t = TOk /\ t_res t0 = TOk /\ t_db t0 = 1%N /\ t_db t = 2%N /\ t_db tf = 1%N.
Proof. exact leaky_refuted. Qed.
Print Assumptions c09_retry_accumulating_refuted.

(** Obligation on gen/ClosureTable.v, regenerated from the source on every run: every closure
    handed to Store.transaction (85, incl. the chain-update closure of index/update.go) passes
    closed_closure — except for the variables listed in RetryProofs.v: benign_reads (2,
    reviewed) and known_accumulating (the recorded finding C09 retried-operation-differs-...;
    fixes/C09-retry-resets-closure-state.patch closes them) *)
Theorem c09_closures_closed : closures_ok = true.
Proof. exact closures_ok_holds. Qed.
Print Assumptions c09_closures_closed.

(* the retry loop read from the source: `attempt := 1; for ; attempt < maxRetryAttempts; attempt++`
   with maxRetryAttempts = 30 is the budget of 29 attempts used above, and the retried error
   is the one whose text contains "database is locked" *)
Theorem c09_retry_budget_ok : budget_ok = true.
Proof. exact budget_ok_holds. Qed.
Print Assumptions c09_retry_budget_ok.

(* hence for every closure of the code base that has no exemption, retries are invisible *)
Theorem c09_table_closures_retry_transparent : forall r, In r closure_table -> row_exempt r = [] ->
  forall (V db : Type) (dflt : V) (I : interp V db) (fuel : nat) (d : db) (l0 : local V) budget pat,
  (List.length pat < budget)%nat ->
  t_res (retry dflt I fuel budget pat (cl_body r) d l0) = t_res (retry dflt I fuel budget [] (cl_body r) d l0) /\
  t_db (retry dflt I fuel budget pat (cl_body r) d l0) = t_db (retry dflt I fuel budget [] (cl_body r) d l0) /\
  forall x, t_loc (retry dflt I fuel budget pat (cl_body r) d l0) x = t_loc (retry dflt I fuel budget [] (cl_body r) d l0) x.
Proof. exact table_rows_transparent. Qed.
Print Assumptions c09_table_closures_retry_transparent.

(* non-vacuity: the model predicts a real recorded call — ReviseContract with the 6th
   database call failing is rolled back and reports an error; with "database is locked"
   it is retried and commits *)
Example c09_nonvacuous :
  snd (step init (Call "ReviseContract" "BXXXXPPXXXXXXC" 0 (Some (5%N, Hard)))) = OCall 1 "BXXXXpR" false /\
  snd (step init (Call "ReviseContract" "BXXXXPPXXXXXXC" 0 (Some (5%N, Busy)))) = OCall 0 "BXXXXpRBXXXXPPXXXXXXC" true /\
  snd (step init (Call "ExpireTempSectors" "BXXXCBXC" 0 (Some (5%N, Hard)))) = OCall 1 "BXXXCb" true.
Proof. vm_compute. repeat split; reflexivity. Qed.

(** Process death (WP-D).  [die p s n]: the process running method p on the committed state s
    is gone after exactly n database calls (Begin, Prepare, Exec/Query, Commit) have completed —
    no rollback, no error handling, no compensation runs.  Its first component is what the
    database file holds, for every database type, method, state and n. *)

(* what a death before call n leaves is what a hard failure of call n leaves (methods without
   tolerated read-backs; for those the failing call lets the method go on, a death does not) *)
Theorem c09_death_is_failed_call : forall (db : Type) (p : list (item db)) (s : db) (n : nat),
  no_try p = true -> fst (die p s n) = r_db (exec p s (Some (n, false)) false).
Proof. exact die_is_failed_call. Qed.
Print Assumptions c09_death_is_failed_call.

(* wherever the process dies, the file holds the state after a complete prefix of the method's
   transactions, each of them whole; it is the whole method if every call had completed *)
Theorem c09_process_death : forall (db : Type) (p : list (item db)) (s : db) (n : nat),
  only_txn p = true ->
  exists m, (m <= List.length p)%nat /\
    fst (die p s n) = r_db (exec (firstn m p) s None false) /\
    r_res (exec (firstn m p) s None false) = Ok tt /\
    (r_res (exec p s (Some (n, false)) false) = Ok tt -> m = List.length p).
Proof. exact death_prefix. Qed.
Print Assumptions c09_process_death.

(* a method that is one transaction: after a death at any point the file is as before, or holds
   everything the closure computes without faults *)
Theorem c09_death_single_all_or_nothing : forall (db : Type) (b : body db) (s : db) (n : nat),
  fst (die [ITxn b] s n) = s \/
  exists tr0, run_body b s None = (BDone (fst (die [ITxn b] s n)), tr0, None).
Proof. exact death_single. Qed.
Print Assumptions c09_death_single_all_or_nothing.

(* ... and it is "as before" unless the Commit call itself completed *)
Theorem c09_death_before_commit_invisible : forall (db : Type) (b : body db) (s : db) (n : nat),
  (n <= n_elig b + 1)%nat -> fst (die [ITxn b] s n) = s.
Proof. exact death_before_commit. Qed.
Print Assumptions c09_death_before_commit_invisible.

(** The indexer when the best chain changes between rounds (Reorg.v): every round sees its own
    view [best] of the chain (UpdatesSince of that moment: revert the marker's blocks that are
    not on it, then apply, at most max blocks, one store transaction).  [replay c] = the data
    of a fresh store after applying c.  Hypotheses: block identity is decidable, and reverting
    the block just applied to a replayed state restores it (C01/C16 prove this for the contract
    and wallet tables). *)

(* whatever the views and the failures: the tip is the marker and the data is the replay of the
   marker's chain — so a restart (tip := marker) changes nothing *)
Theorem c09_reorg_marker_data_agree : forall (block data : Type) (beq : block -> block -> bool)
    (apply revert : block -> data -> data) (d0 : data),
  (forall (c : chain block) (b : block), revert b (apply b (replay apply d0 c)) = replay apply d0 c) ->
  forall (max : nat) (sched : list (chain block * fc)) (s : rstate block data),
  rinv apply d0 s ->
  rinv apply d0 (rrun beq apply revert max sched s) /\
  rrestart (rrun beq apply revert max sched s) = rrun beq apply revert max sched s.
Proof. exact rrun_inv_restart. Qed.
Print Assumptions c09_reorg_marker_data_agree.

(* generalises c09_resume_converges: after ANY history — rounds on other views of the chain,
   failing rounds, the rounds before a death — enough clean rounds on the view [best] end with
   marker = tip = best and data = replay best, also when best leaves the old chain below the
   stored marker *)
Theorem c09_resume_converges_on_new_chain : forall (block data : Type) (beq : block -> block -> bool)
    (apply revert : block -> data -> data) (d0 : data),
  (forall a b : block, beq a b = true <-> a = b) ->
  (forall (c : chain block) (b : block), revert b (apply b (replay apply d0 c)) = replay apply d0 c) ->
  forall (max : nat) (sched : list (chain block * fc)) (best : list block) (n : nat) (s : rstate block data),
  rinv apply d0 s ->
  (List.length (r_marker (rs_db (rrun beq apply revert max sched s))) + List.length best <= n * max)%nat ->
  rrun beq apply revert max (sched ++ repeat (best, None) n) s = synced apply d0 best.
Proof. exact resume_reaches_best. Qed.
Print Assumptions c09_resume_converges_on_new_chain.

(* ... which is the state of the host that followed the new best chain from a fresh store
   without interruption *)
Theorem c09_resume_equals_uninterrupted_run : forall (block data : Type) (beq : block -> block -> bool)
    (apply revert : block -> data -> data) (d0 : data),
  (forall a b : block, beq a b = true <-> a = b) ->
  (forall (c : chain block) (b : block), revert b (apply b (replay apply d0 c)) = replay apply d0 c) ->
  forall (max : nat) (sched : list (chain block * fc)) (best : list block) (n n' : nat),
  (List.length (r_marker (rs_db (rrun beq apply revert max sched (fresh block d0)))) + List.length best <= n * max)%nat ->
  (List.length best <= n' * max)%nat ->
  rrun beq apply revert max (sched ++ repeat (best, None) n) (fresh block d0) =
  rrun beq apply revert max (repeat (best, None) n') (fresh block d0).
Proof. exact resume_equals_uninterrupted. Qed.
Print Assumptions c09_resume_equals_uninterrupted_run.

(** Volume operations (Volume.v): storage.VolumeManager.AddVolume / ResizeVolume / RemoveVolume
    as sequences of file operations and single-transaction store calls on one volume; a death
    or a failure "at any point" is "after j steps", for every j.  [vok]: the row's slots all lie
    inside the data file (in particular there is a file). *)

(* AddVolume(path, max) on a fresh path, batch targets as the code computes them, any batch
   size: after a death at any step and the next host start there is no volume (nothing, or the
   empty file os.Create left), or a volume whose row is available and whose slots all lie inside
   its file — never a row marked available without a usable file *)
Theorem c09_addvolume_death_no_orphan_row : forall (fuel : nat) (max bsz : N) (j : nat),
  let s := vrestart (vrun (firstn j (add_prog (grow_targets fuel 0 max bsz))) vnone) in
  (v_row s = None /\ (v_file s = None \/ v_file s = Some 0%N)) \/
  (exists t f, v_row s = Some (t, true) /\ v_file s = Some f /\ (t <= f)%N).
Proof. exact addvolume_death. Qed.
Print Assumptions c09_addvolume_death_no_orphan_row.

(* a step that fails in-process: same invariant, and a failing Store.AddVolume (step 1) leaves
   nothing behind (the file is removed again: /repo 110eeb0) *)
Theorem c09_addvolume_failure_clean : forall (ts : list N) (j : nat), ascending 0%N ts ->
  vok (add_fail ts j vnone) /\ (j = 1%nat -> add_fail ts j vnone = vnone).
Proof. exact add_fail_ok. Qed.
Print Assumptions c09_addvolume_failure_clean.

(* growing (file first, then rows), shrinking (rows first, then file), removing (slots in any
   batches, the row, then the file): a death after any number of steps leaves every slot of the row inside the file *)
Theorem c09_grow_death_ok : forall (fuel : nat) (s : vol) (new bsz : N) (j : nat),
  vok s -> v_file s <> None ->
  vok (vrun (firstn j (grow_prog (grow_targets fuel (vtotal s) new bsz))) s).
Proof. exact grow_death_ok. Qed.
Print Assumptions c09_grow_death_ok.

Theorem c09_shrink_death_ok : forall (fuel : nat) (s : vol) (new bsz : N) (j : nat),
  vok s -> v_row s <> None ->
  vok (vrun (firstn j (shrink_prog (shrink_targets fuel (vtotal s) new bsz))) s).
Proof. exact shrink_death_ok. Qed.
Print Assumptions c09_shrink_death_ok.

Theorem c09_remove_death_ok : forall (ts : list N) (s : vol) (j : nat), vok s -> vok (vrun (firstn j (remove_prog ts)) s).
Proof. exact remove_death_ok. Qed.
Print Assumptions c09_remove_death_ok.

(* the order matters: rows first when growing is refuted by a death between the two steps *)
Theorem c09_grow_rows_first_refuted :
  let s := {| v_file := Some 4%N; v_row := Some (4%N, true) |} in
  vok s /\ ~ vok (vrun (firstn 1 (grow_prog_rows_first [8%N])) s).
Proof. exact grow_rows_first_refuted. Qed.
Print Assumptions c09_grow_rows_first_refuted.

(* what a death between os.Create and the commit of Store.AddVolume leaves: no volume, but an
   empty file at the path.  No state the property lists is touched (no row, no slot, no metric),
   but AddVolume refuses a path whose file exists, so the operator has to delete the file before
   the same call can be repeated — recorded by the harness as a count, see AS_BUILT *)
Theorem c09_addvolume_death_leaves_empty_file : forall ts : list N,
  vrun (firstn 1 (add_prog ts)) vnone = {| v_file := Some 0%N; v_row := None |}.
Proof. exact add_death_orphan_file. Qed.
Print Assumptions c09_addvolume_death_leaves_empty_file.

(* what the correspondence check accepts satisfies the invariant *)
Theorem c09_volume_check_sound : forall k pre new bsz seen, vol_check k pre new bsz seen = true -> vok seen.
Proof. exact vol_check_sound. Qed.
Print Assumptions c09_volume_check_sound.

(* non-vacuity: a SIGKILLed child's recorded history — ReviseContract killed inside its Commit
   (SQLite had returned, reply lost) is completely visible, killed before the Commit not at all;
   RemoveVolume killed before the Begin of its second transaction shows the first one;
   and a host that applied [1;2;3], fails a round, and is restarted on the chain [1;4;5;6]
   (fork below its marker) ends on that chain with the data of its replay *)
Example c09_death_nonvacuous :
  snd (step init (Kill "ReviseContract" "BXXXXPPXXXXXXC" 0 13 true)) = OKill "BXXXXPPXXXXXXC" true /\
  snd (step init (Kill "ReviseContract" "BXXXXPPXXXXXXC" 0 13 false)) = OKill "BXXXXPPXXXXXX" false /\
  snd (step init (Kill "RemoveVolume" "BXXXXXXXXCBXXCBXXXC" 0 10 false)) = OKill "BXXXXXXXXC" true /\
  snd (step init (VolDeath VAdd vnone 70 64 {| v_file := Some 64%N; v_row := Some (0%N, true) |})) = OVol true /\
  snd (step init (VolDeath VGrow {| v_file := Some 70%N; v_row := Some (70%N, true) |} 140 64 {| v_file := Some 134%N; v_row := Some (140%N, true) |})) = OVol false /\
  rrun N.eqb (fun b d => d ++ [b]) (fun b d => removelast d) 2
       ([([1;2;3], None); ([1;2;3], None); ([1;4;5;6], Some (2%nat, false))] ++ repeat ([1;4;5;6], None) 4)%N (fresh N [])
    = synced (fun b d => d ++ [b]) [] [1;4;5;6]%N.
Proof. vm_compute. repeat split; reflexivity. Qed.
