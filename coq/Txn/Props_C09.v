From HostdBase Require Import Base.
From HostdTxn Require Import Shape TxnTable Model Proofs.
Theorem c09_table_ok : table_ok = true.
Proof. exact table_ok_holds. Qed.
Print Assumptions c09_table_ok.
Example c09_nonvacuous : table_ok = true.
Proof. vm_compute. reflexivity. Qed.
