(* Txn/Death.v (WP-D) — process death.  [Model.die] stops the machine after n completed database
   calls; here: what the database file holds then is exactly what a hard failure of call n
   leaves ([exec] with the countdown [Some (n, false)]), hence a complete prefix of the
   method's transactions.  The equation "death = failing call" used to be the modelling
   assumption behind c09_process_death_partial; it is now a lemma about two independent
   definitions, and the child-process harness checks [die] against SIGKILLed runs. *)
From HostdBase Require Import Base.
From Coq Require Import String Lia ZifyBool ZifyN ZifyNat.
From HostdTxn Require Import Shape TxnTable Model Proofs.

Section D.
  Variable db : Type.
  Implicit Types (b : body db) (s : db) (n : nat).

  (* the closure: alive = same outcome, the countdown not yet used; dead = the fault fires
     exactly where the process died *)
  Lemma die_body_spec : forall b s n,
    match die_body b s n with
    | (Some (o, n'), tr) => run_body b s (Some (n, false)) = (o, tr, Some (n', false))
    | (None, tr) => exists kd, run_body b s (Some (n, false)) = (BInj false, tr ++ [FailS kd], None)
    end.
  Proof.
    induction b as [|[kd f] t IH]; intros s n; cbn [die_body run_body].
    - reflexivity.
    - destruct (eligible kd) eqn:El.
      + destruct n as [|n']; cbn [tick].
        * exists kd. reflexivity.
        * destruct (f s) as [s1| e |]; try reflexivity.
          specialize (IH s1 n'). destruct (die_body t s1 n') as [[[o n2]|] tr].
          -- rewrite IH. reflexivity.
          -- destruct IH as [kd' IH]. rewrite IH. exists kd'. rewrite app_assoc. reflexivity.
      + destruct (f s) as [s1| e |]; try reflexivity.
        specialize (IH s1 n). destruct (die_body t s1 n) as [[[o n2]|] tr].
        * rewrite IH. reflexivity.
        * destruct IH as [kd' IH]. rewrite IH. exists kd'. rewrite app_assoc. reflexivity.
  Qed.

  Lemma die_body_not_inj : forall b s n o n' tr,
    die_body b s n = (Some (o, n'), tr) -> forall busy, o <> BInj busy.
  Proof.
    induction b as [|[kd f] t IH]; intros s n o n' tr H busy; cbn [die_body] in H.
    - inversion H; subst. discriminate.
    - destruct (eligible kd).
      + destruct n as [|n1]; [discriminate|].
        destruct (f s) as [s1| e |]; try (inversion H; subst; discriminate).
        destruct (die_body t s1 n1) as [o1 tr1] eqn:E. inversion H; subst. eapply IH; eauto.
      + destruct (f s) as [s1| e |]; try (inversion H; subst; discriminate).
        destruct (die_body t s1 n) as [o1 tr1] eqn:E. inversion H; subst. eapply IH; eauto.
  Qed.

  (* one transaction *)
  Lemma die_txn_spec : forall b s n,
    match die_txn b s n with
    | (Some (a, n'), tr, s') => transaction b s (Some (n, false)) = (a, tr, Some (n', false), s') /\ (a <> AOk -> s' = s)
    | (None, tr, s') => s' = s /\ exists tr', transaction b s (Some (n, false)) = (AInj false, tr', None, s)
    end.
  Proof.
    intros b s n. unfold die_txn, transaction, attempt.
    destruct n as [|n1]; cbn [tick].
    - split; [reflexivity | eexists; reflexivity].
    - pose proof (die_body_spec b s n1) as Hb.
      pose proof (die_body_not_inj b s n1) as Hni.
      destruct (die_body b s n1) as [[[o n2]|] tr].
      + rewrite Hb. destruct o as [s1| e | | busy].
        * destruct n2 as [|n3]; cbn [tick].
          -- split; [reflexivity | eexists; reflexivity].
          -- split; [reflexivity | congruence].
        * split; [reflexivity | reflexivity].
        * split; [reflexivity | reflexivity].
        * exfalso. eapply Hni; reflexivity.
      + destruct Hb as [kd Hb]. rewrite Hb. split; [reflexivity | eexists; reflexivity].
  Qed.

  (* the whole method: the file after a death before call n is what a hard failure of call n
     leaves *)
  Lemma die_is_failed_call : forall p s n,
    no_try p = true -> fst (die p s n) = r_db (exec p s (Some (n, false)) false).
  Proof.
    induction p as [|i t IH]; intros s n Hp; [reflexivity|].
    cbn [no_try forallb] in Hp. apply andb_prop in Hp. destruct Hp as [Hi Ht].
    destruct i as [b|comp|f|b|b]; try discriminate; cbn [die exec].
    - pose proof (die_txn_spec b s n) as Hx.
      destruct (die_txn b s n) as [[[[a n']|] tr] s'].
      + destruct Hx as [Hx Hs]. rewrite Hx. destruct a as [| e | | busy]; cbn [fst r_db]; try reflexivity.
        specialize (IH s' n' Ht). destruct (die t s' n') as [s2 tr2]. cbn [fst] in *. exact IH.
      + destruct Hx as [-> [tr' Hx]]. rewrite Hx. reflexivity.
    - specialize (IH s n Ht). destruct (die t s n) as [s2 tr2]. cbn [fst r_db] in *. exact IH.
    - destruct n as [|n']; cbn [tick]; [reflexivity|].
      destruct (f s) as [s1| e |]; try reflexivity.
      specialize (IH s1 n' Ht). destruct (die t s1 n') as [s2 tr2]. cbn [fst r_db] in *. exact IH.
    - pose proof (die_txn_spec b s n) as Hx.
      destruct (die_txn b s n) as [[[[a n']|] tr] s'].
      + destruct Hx as [Hx Hs]. rewrite Hx. destruct a as [| e | | busy]; cbn [fst r_db]; try reflexivity.
        * specialize (IH s' n' Ht). destruct (die t s' n') as [s2 tr2]. cbn [fst] in *. exact IH.
        * specialize (IH s' n' Ht). destruct (die t s' n') as [s2 tr2]. cbn [fst] in *. exact IH.
      + destruct Hx as [-> [tr' Hx]]. rewrite Hx. reflexivity.
  Qed.

  Lemma only_txn_no_try : forall p : list (item db), only_txn p = true -> no_try p = true.
  Proof.
    induction p as [|i t IH]; intros H; [reflexivity|].
    cbn in H |- *. destruct i; try discriminate. cbn. auto.
  Qed.

  (* wherever the process dies, the file holds the state after a complete prefix of the
     method's transactions; if every call completed (the method would have returned nil) it is
     the whole method *)
  Lemma death_prefix : forall p s n,
    only_txn p = true ->
    exists m, (m <= List.length p)%nat /\
      fst (die p s n) = r_db (exec (firstn m p) s None false) /\
      r_res (exec (firstn m p) s None false) = Ok tt /\
      (r_res (exec p s (Some (n, false)) false) = Ok tt -> m = List.length p).
  Proof.
    intros p s n Ho. rewrite die_is_failed_call by (apply only_txn_no_try; exact Ho).
    apply prefix_commit. exact Ho.
  Qed.

  (* one transaction: all or nothing *)
  Lemma death_single : forall b s n,
    fst (die [ITxn b] s n) = s \/
    exists tr0, run_body b s None = (BDone (fst (die [ITxn b] s n)), tr0, None).
  Proof.
    intros b s n. rewrite die_is_failed_call by reflexivity.
    destruct (r_res (exec [ITxn b] s (Some (n, false)) false)) as [[]| e |] eqn:E.
    - right. apply single_all. exact E.
    - left. apply single_atomic. rewrite E. discriminate.
    - left. apply single_atomic. rewrite E. discriminate.
  Qed.

  (* ... and it is "all" exactly when the Commit call completed: with fewer than
     n_elig b + 2 completed calls nothing is visible *)
  Lemma death_before_commit : forall b s n,
    (n <= n_elig b + 1)%nat -> fst (die [ITxn b] s n) = s.
  Proof.
    intros b s n Hn. rewrite die_is_failed_call by reflexivity.
    apply single_atomic. apply single_fault_not_swallowed. exact Hn.
  Qed.
End D.
