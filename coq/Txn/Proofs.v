(* Txn/Proofs.v — lemmas about Model.v (transaction wrapper, fault injection, managers,
   chain batch, batched loops) and the obligations on the generated table. *)
From HostdBase Require Import Base.
From Coq Require Import String Lia ZifyBool ZifyN ZifyNat.
From HostdTxn Require Import Shape TxnTable Model.

(** * Table obligations (recomputed from the regenerated TxnTable.v on every build) *)
Lemma table_ok_holds : table_ok = true.
Proof. vm_compute. reflexivity. Qed.

Lemma mgr_table_ok_holds : mgr_table_ok = true.
Proof. vm_compute. reflexivity. Qed.

Lemma sync_ok_holds : sync_ok = true.
Proof. vm_compute. reflexivity. Qed.

(** * The transaction wrapper *)
Section P.
  Variable db : Type.
  Implicit Types (b : body db) (s : db) (c : fc).

  Lemma tick_some : forall c busy c', tick c = (Some busy, c') -> c' = None /\ c = Some (O, busy).
  Proof.
    intros c busy c' H. destruct c as [[[|k] bz]|]; cbn in H; inversion H; auto.
  Qed.

  Lemma tick_none : forall c c', tick c = (None, c') ->
    (c = None /\ c' = None) \/ (exists k bz, c = Some (S k, bz) /\ c' = Some (k, bz)).
  Proof.
    intros c c' H. destruct c as [[[|k] bz]|]; cbn in H; inversion H; eauto.
  Qed.

  Definition not_inj (o : bout db) : Prop := forall busy, o <> BInj busy.

  Lemma ni_done : forall s, not_inj (BDone s).
  Proof. intros s busy E. discriminate. Qed.
  Lemma ni_err : forall e, not_inj (@BErr db e).
  Proof. intros e busy E. discriminate. Qed.
  Lemma ni_panic : not_inj (@BPanic db).
  Proof. intros busy E. discriminate. Qed.

  (* without a pending fault nothing is injected and the countdown stays empty *)
  Lemma run_body_none : forall b s o tr c',
    run_body b s None = (o, tr, c') -> c' = None /\ not_inj o.
  Proof.
    induction b as [|[kd f] t IH]; intros s o tr c' H; cbn in H.
    - inversion H; subst. split; [reflexivity | intros busy E; discriminate].
    - destruct (eligible kd); cbn in H.
      + destruct (f s) as [s1| e |].
        * destruct (run_body t s1 None) as [[o1 tr1] c1] eqn:E. inversion H; subst.
          eapply IH; eauto.
        * inversion H; subst. split; [reflexivity | intros busy E; discriminate].
        * inversion H; subst. split; [reflexivity | intros busy E; discriminate].
      + destruct (f s) as [s1| e |].
        * destruct (run_body t s1 None) as [[o1 tr1] c1] eqn:E. inversion H; subst.
          eapply IH; eauto.
        * inversion H; subst. split; [reflexivity | intros busy E; discriminate].
        * inversion H; subst. split; [reflexivity | intros busy E; discriminate].
  Qed.

  (* a run in which the fault did not fire is the un-faulted run *)
  Lemma run_body_no_inj : forall b s c o tr c',
    run_body b s c = (o, tr, c') -> not_inj o -> run_body b s None = (o, tr, None).
  Proof.
    induction b as [|[kd f] t IH]; intros s c o tr c' H NI; cbn in H |- *.
    - inversion H; subst. reflexivity.
    - destruct (eligible kd) eqn:El.
      + destruct (tick c) as [fire c1] eqn:Tk. destruct fire as [busy|].
        * inversion H; subst. exfalso. eapply NI. reflexivity.
        * cbn. destruct (f s) as [s1| e |].
          -- destruct (run_body t s1 c1) as [[o1 tr1] c2] eqn:E. inversion H; subst.
             erewrite IH; eauto.
          -- inversion H; subst. reflexivity.
          -- inversion H; subst. reflexivity.
      + cbn. destruct (f s) as [s1| e |].
        * destruct (run_body t s1 c) as [[o1 tr1] c2] eqn:E. inversion H; subst.
          erewrite IH; eauto.
        * inversion H; subst. reflexivity.
        * inversion H; subst. reflexivity.
  Qed.

  (* the injected kind is the one of the countdown, and the countdown is used up *)
  Lemma run_body_inj : forall b s c busy tr c',
    run_body b s c = (BInj busy, tr, c') -> c' = None /\ exists k, c = Some (k, busy).
  Proof.
    induction b as [|[kd f] t IH]; intros s c busy tr c' H; cbn in H.
    - inversion H.
    - destruct (eligible kd) eqn:El.
      + destruct (tick c) as [fire c1] eqn:Tk. destruct fire as [bz|].
        * inversion H; subst. apply tick_some in Tk. destruct Tk as [-> ->]. eauto.
        * destruct (f s) as [s1| e |]; try (inversion H; fail).
          destruct (run_body t s1 c1) as [[o1 tr1] c2] eqn:E. inversion H; subst.
          apply IH in E. destruct E as [-> [k Hk]]. split; [reflexivity|].
          apply tick_none in Tk. destruct Tk as [[-> ->]|[k' [bz [-> Hc1]]]]; [discriminate|].
          rewrite Hc1 in Hk. inversion Hk; subst. eauto.
      + destruct (f s) as [s1| e |]; try (inversion H; fail).
        destruct (run_body t s c) as [[o1 tr1] c2] eqn:E.
        destruct (run_body t s1 c) as [[o2 tr2] c3] eqn:E2. inversion H; subst.
        eapply IH; eauto.
  Qed.

  (* a body that ran to its end consumed one tick per eligible statement *)
  Lemma run_body_done : forall b s k bz s' tr c',
    run_body b s (Some (k, bz)) = (BDone s', tr, c') ->
    (n_elig b <= k)%nat /\ c' = Some ((k - n_elig b)%nat, bz).
  Proof.
    unfold n_elig.
    induction b as [|[kd f] t IH]; intros s k bz s' tr c' H; cbn in H |- *.
    - inversion H; subst. split; [lia | f_equal; f_equal; lia].
    - destruct (eligible kd) eqn:El; cbn [fst].
      + destruct k as [|k]; cbn in H; [inversion H|].
        destruct (f s) as [s1| e |]; try (inversion H; fail).
        destruct (run_body t s1 (Some (k, bz))) as [[o1 tr1] c2] eqn:E. inversion H; subst.
        apply IH in E. destruct E as [Hle ->]. cbn [List.length]. split; [lia | f_equal; f_equal; lia].
      + destruct (f s) as [s1| e |]; try (inversion H; fail).
        destruct (run_body t s1 (Some (k, bz))) as [[o1 tr1] c2] eqn:E. inversion H; subst.
        apply IH in E. exact E.
  Qed.

  Definition a_inj (a : aout) : Prop := exists busy, a = AInj busy.

  Lemma attempt_unchanged : forall b s c a tr c' s',
    attempt b s c = (a, tr, c', s') -> a <> AOk -> s' = s.
  Proof.
    unfold attempt. intros b s c a tr c' s' H NOk.
    destruct (tick c) as [fire c1]. destruct fire as [busy|]; [inversion H; auto|].
    destruct (run_body b s c1) as [[o tr1] c2]. destruct o as [s1| e | | busy]; try (inversion H; subst; auto; fail).
    destruct (tick c2) as [fire' c3]. destruct fire' as [busy|]; inversion H; subst; auto. congruence.
  Qed.

  (* a committed transaction installs what its body computes without faults *)
  Lemma attempt_ok : forall b s c tr c' s',
    attempt b s c = (AOk, tr, c', s') -> attempt b s None = (AOk, tr, None, s').
  Proof.
    unfold attempt. intros b s c tr c' s' H.
    destruct (tick c) as [fire c1] eqn:Tk. destruct fire as [busy|]; [inversion H|].
    destruct (run_body b s c1) as [[o tr1] c2] eqn:E. destruct o as [s1| e | | busy]; try (inversion H; fail).
    destruct (tick c2) as [fire' c3]. destruct fire' as [busy|]; inversion H; subst.
    cbn. rewrite (run_body_no_inj _ _ _ _ _ _ E (ni_done _)). reflexivity.
  Qed.

  Lemma attempt_no_inj : forall b s c a tr c' s',
    attempt b s c = (a, tr, c', s') -> ~ a_inj a -> attempt b s None = (a, tr, None, s').
  Proof.
    unfold attempt. intros b s c a tr c' s' H NI.
    destruct (tick c) as [fire c1] eqn:Tk. destruct fire as [busy|].
    { inversion H; subst. exfalso. apply NI. eexists; reflexivity. }
    destruct (run_body b s c1) as [[o tr1] c2] eqn:E. cbn.
    destruct o as [s1| e | | busy].
    - destruct (tick c2) as [fire' c3]. destruct fire' as [busy|].
      + inversion H; subst. exfalso. apply NI. eexists; reflexivity.
      + inversion H; subst. rewrite (run_body_no_inj _ _ _ _ _ _ E (ni_done _)). reflexivity.
    - inversion H; subst. rewrite (run_body_no_inj _ _ _ _ _ _ E (ni_err _)). reflexivity.
    - inversion H; subst. rewrite (run_body_no_inj _ _ _ _ _ _ E ni_panic). reflexivity.
    - inversion H; subst. exfalso. apply NI. eexists; reflexivity.
  Qed.

  Lemma attempt_none_not_inj : forall b s a tr c' s',
    attempt b s None = (a, tr, c', s') -> ~ a_inj a /\ c' = None.
  Proof.
    unfold attempt. intros b s a tr c' s' H. cbn in H.
    destruct (run_body b s None) as [[o tr1] c2] eqn:E.
    apply run_body_none in E. destruct E as [-> NI].
    destruct o as [s1| e | | busy]; cbn in H; inversion H; subst;
      try (split; [intros [bz Hb]; discriminate | reflexivity]).
    exfalso. eapply NI. reflexivity.
  Qed.

  (* an injected failure: the countdown is used up, its kind is the countdown's *)
  Lemma attempt_inj : forall b s c busy tr c' s',
    attempt b s c = (AInj busy, tr, c', s') -> c' = None /\ s' = s /\ exists k, c = Some (k, busy).
  Proof.
    unfold attempt. intros b s c busy tr c' s' H.
    destruct (tick c) as [fire c1] eqn:Tk. destruct fire as [bz|].
    { inversion H; subst. apply tick_some in Tk. destruct Tk as [-> ->]. eauto. }
    destruct (run_body b s c1) as [[o tr1] c2] eqn:E. destruct o as [s1| e | | bz].
    - destruct (tick c2) as [fire' c3] eqn:Tk2. destruct fire' as [bz|]; inversion H; subst.
      apply tick_some in Tk2. destruct Tk2 as [-> Hc2]. split; [reflexivity|]. split; [reflexivity|].
      apply tick_none in Tk. destruct Tk as [[-> ->]|[k [bz' [-> Hc1]]]].
      + apply run_body_none in E. destruct E as [E _]. congruence.
      + subst c1. apply run_body_done in E. destruct E as [_ E]. rewrite Hc2 in E. inversion E; subst. eauto.
    - inversion H.
    - inversion H.
    - inversion H; subst. apply run_body_inj in E. destruct E as [-> [k Hk]]. split; [reflexivity|]. split; [reflexivity|].
      apply tick_none in Tk. destruct Tk as [[-> ->]|[k' [bz' [-> Hc1]]]]; [discriminate|].
      rewrite Hc1 in Hk. inversion Hk; subst. eauto.
  Qed.

  (* a fault within the transaction's calls (Begin, eligible statements, Commit) fails the attempt *)
  Lemma attempt_fault_fails : forall b s k bz a tr c' s',
    (k <= n_elig b + 1)%nat -> attempt b s (Some (k, bz)) = (a, tr, c', s') -> a <> AOk.
  Proof.
    unfold attempt. intros b s k bz a tr c' s' Hk H.
    destruct k as [|k]; cbn in H; [inversion H; subst; discriminate|].
    destruct (run_body b s (Some (k, bz))) as [[o tr1] c2] eqn:E. destruct o as [s1| e | | busy];
      try (inversion H; subst; discriminate).
    apply run_body_done in E. destruct E as [Hle ->].
    replace (k - n_elig b)%nat with 0%nat in H by lia. cbn in H. inversion H; subst. discriminate.
  Qed.

  (** ** Store.transaction *)
  Lemma transaction_unchanged : forall b s c a tr c' s',
    transaction b s c = (a, tr, c', s') -> a <> AOk -> s' = s.
  Proof.
    unfold transaction. intros b s c a tr c' s' H NOk.
    destruct (attempt b s c) as [[[a1 tr1] c1] s1] eqn:E1.
    assert (a1 <> AOk -> s1 = s) as H1 by (eapply attempt_unchanged; eauto).
    destruct a1 as [| e | | [|]]; try (inversion H; subst; auto; fail).
    assert (s1 = s) as -> by (apply H1; discriminate).
    destruct (attempt b s c1) as [[[a2 tr2] c2] s2] eqn:E2. inversion H; subst.
    eapply attempt_unchanged; eauto.
  Qed.

  Lemma transaction_none : forall b s, transaction b s None = attempt b s None.
  Proof.
    unfold transaction. intros b s. destruct (attempt b s None) as [[[a tr] c'] s'] eqn:E.
    apply attempt_none_not_inj in E. destruct E as [NI _].
    destruct a as [| e | | busy]; try reflexivity. exfalso. apply NI. eexists; reflexivity.
  Qed.

  (* whatever fault was pending: a committed transaction installs the un-faulted result *)
  Lemma transaction_ok : forall b s c tr c' s',
    transaction b s c = (AOk, tr, c', s') -> exists tr0, transaction b s None = (AOk, tr0, None, s').
  Proof.
    unfold transaction at 1. intros b s c tr c' s' H. rewrite transaction_none.
    destruct (attempt b s c) as [[[a1 tr1] c1] s1] eqn:E1.
    destruct a1 as [| e | | [|]]; try (inversion H; fail).
    - inversion H; subst. apply attempt_ok in E1. eauto.
    - apply attempt_inj in E1. destruct E1 as [-> [-> _]].
      destruct (attempt b s None) as [[[a2 tr2] c2] s2] eqn:E2. inversion H; subst.
      apply attempt_none_not_inj in E2 as E3. destruct E3 as [_ ->]. eauto.
  Qed.

  (* an injected hard error is never swallowed *)
  Lemma transaction_hard_fails : forall b s k a tr c' s',
    (k <= n_elig b + 1)%nat -> transaction b s (Some (k, false)) = (a, tr, c', s') -> a <> AOk.
  Proof.
    unfold transaction. intros b s k a tr c' s' Hk H.
    destruct (attempt b s (Some (k, false))) as [[[a1 tr1] c1] s1] eqn:E1.
    assert (a1 <> AOk) as N1 by (eapply attempt_fault_fails; eauto).
    destruct a1 as [| e | | [|]]; try (inversion H; subst; auto; discriminate).
    apply attempt_inj in E1. destruct E1 as [_ [_ [k' Hk']]]. inversion Hk'.
  Qed.

  (* the countdown keeps its kind *)
  Lemma run_body_flag : forall b s k bz o tr c',
    run_body b s (Some (k, bz)) = (o, tr, c') -> c' = None \/ exists k', c' = Some (k', bz).
  Proof.
    induction b as [|[kd f] t IH]; intros s k bz o tr c' H; cbn in H.
    - inversion H; subst. eauto.
    - destruct (eligible kd).
      + destruct k as [|k]; cbn in H; [inversion H; auto|].
        destruct (f s) as [s1| e |]; try (inversion H; subst; eauto; fail).
        destruct (run_body t s1 (Some (k, bz))) as [[o1 tr1] c2] eqn:E. inversion H; subst. eapply IH; eauto.
      + destruct (f s) as [s1| e |]; try (inversion H; subst; eauto; fail).
        destruct (run_body t s1 (Some (k, bz))) as [[o1 tr1] c2] eqn:E. inversion H; subst. eapply IH; eauto.
  Qed.

  Lemma tick_flag : forall c bz fire c', (c = None \/ exists k, c = Some (k, bz)) -> tick c = (fire, c') ->
    c' = None \/ exists k', c' = Some (k', bz).
  Proof.
    intros c bz fire c' [->|[k ->]] H; cbn in H.
    - inversion H; auto.
    - destruct k; inversion H; eauto.
  Qed.

  Lemma attempt_flag : forall b s k bz a tr c' s',
    attempt b s (Some (k, bz)) = (a, tr, c', s') -> c' = None \/ exists k', c' = Some (k', bz).
  Proof.
    unfold attempt. intros b s k bz a tr c' s' H.
    destruct (tick (Some (k, bz))) as [fire c1] eqn:Tk.
    assert (c1 = None \/ exists k', c1 = Some (k', bz)) as F1 by (eapply tick_flag; eauto).
    destruct fire as [busy|]; [inversion H; subst; exact F1|].
    destruct (run_body b s c1) as [[o tr1] c2] eqn:E.
    assert (c2 = None \/ exists k', c2 = Some (k', bz)) as F2.
    { destruct F1 as [->|[k' ->]]; [apply run_body_none in E; destruct E; auto | eapply run_body_flag; eauto]. }
    destruct o as [s1| e | | busy]; try (inversion H; subst; exact F2).
    destruct (tick c2) as [fire' c3] eqn:Tk2.
    assert (c3 = None \/ exists k', c3 = Some (k', bz)) as F3 by (eapply tick_flag; eauto).
    destruct fire' as [busy|]; inversion H; subst; exact F3.
  Qed.

  (* "database is locked": the transaction is run again and the call behaves like the un-faulted one *)
  Lemma transaction_busy : forall b s k a tr c' s',
    transaction b s (Some (k, true)) = (a, tr, c', s') ->
    (exists tr0, transaction b s None = (a, tr0, None, s')) /\ (c' = None \/ exists k', c' = Some (k', true)).
  Proof.
    unfold transaction at 1. intros b s k a tr c' s' H. rewrite transaction_none.
    destruct (attempt b s (Some (k, true))) as [[[a1 tr1] c1] s1] eqn:E1.
    pose proof (attempt_flag _ _ _ _ _ _ _ _ E1) as F.
    destruct a1 as [| e | | [|]].
    - inversion H; subst. split; [apply attempt_ok in E1; eauto | exact F].
    - inversion H; subst. split; [|exact F].
      eapply attempt_no_inj in E1; eauto. intros [bz Hb]; discriminate.
    - inversion H; subst. split; [|exact F].
      eapply attempt_no_inj in E1; eauto. intros [bz Hb]; discriminate.
    - apply attempt_inj in E1. destruct E1 as [-> [-> _]].
      destruct (attempt b s None) as [[[a2 tr2] c2] s2] eqn:E2. inversion H; subst.
      apply attempt_none_not_inj in E2 as E3. destruct E3 as [_ ->]. split; eauto.
    - apply attempt_inj in E1. destruct E1 as [_ [_ [k' Hk']]]. inversion Hk'.
  Qed.

  (** ** Exported methods *)

  (* a method that is one transaction: any failure leaves the committed state as it was *)
  Lemma single_atomic : forall b s c xf,
    r_res (exec [ITxn b] s c xf) <> Ok tt -> r_db (exec [ITxn b] s c xf) = s.
  Proof.
    intros b s c xf. cbn. destruct (transaction b s c) as [[[a tr] c'] s'] eqn:E.
    destruct a as [| e | | busy]; cbn; intros H.
    - congruence.
    - eapply transaction_unchanged; eauto. discriminate.
    - eapply transaction_unchanged; eauto. discriminate.
    - eapply transaction_unchanged; eauto. discriminate.
  Qed.

  (* ... and success installs exactly what the un-faulted body computes *)
  Lemma single_all : forall b s c xf,
    r_res (exec [ITxn b] s c xf) = Ok tt ->
    exists tr0, run_body b s None = (BDone (r_db (exec [ITxn b] s c xf)), tr0, None).
  Proof.
    intros b s c xf. cbn. destruct (transaction b s c) as [[[a tr] c'] s'] eqn:E.
    destruct a as [| e | | busy]; cbn; intros H; try discriminate.
    apply transaction_ok in E. destruct E as [tr0 E]. rewrite transaction_none in E.
    unfold attempt in E. cbn in E. destruct (run_body b s None) as [[o tr1] c2] eqn:E2.
    apply run_body_none in E2 as E3. destruct E3 as [-> _].
    destruct o as [s1| e | | busy]; cbn in E; inversion E; subst. eauto.
  Qed.

  Lemma single_fault_not_swallowed : forall b s k xf,
    (k <= n_elig b + 1)%nat -> r_res (exec [ITxn b] s (Some (k, false)) xf) <> Ok tt.
  Proof.
    intros b s k xf Hk. cbn. destruct (transaction b s (Some (k, false))) as [[[a tr] c'] s'] eqn:E.
    apply transaction_hard_fails in E; auto. destruct a as [| e | | busy]; cbn; congruence.
  Qed.

  Lemma single_busy_transparent : forall b s k xf,
    r_db (exec [ITxn b] s (Some (k, true)) xf) = r_db (exec [ITxn b] s None xf) /\
    r_res (exec [ITxn b] s (Some (k, true)) xf) = r_res (exec [ITxn b] s None xf).
  Proof.
    intros b s k xf. cbn. destruct (transaction b s (Some (k, true))) as [[[a tr] c'] s'] eqn:E.
    apply transaction_busy in E. destruct E as [[tr0 E] _]. rewrite E.
    destruct a; cbn; auto.
  Qed.

  (* a method made of several transactions: whatever happens, the committed state is the
     one reached by running a prefix of its transactions without faults *)
  Lemma prefix_commit : forall p s c xf,
    only_txn p = true ->
    exists n, (n <= List.length p)%nat /\
      r_db (exec p s c xf) = r_db (exec (firstn n p) s None xf) /\
      r_res (exec (firstn n p) s None xf) = Ok tt /\
      (r_res (exec p s c xf) = Ok tt -> n = List.length p).
  Proof.
    induction p as [|i t IH]; intros s c xf Ho.
    - exists O. cbn. auto.
    - destruct i as [b|comp|f|b|b]; cbn in Ho; try discriminate.
      cbn [exec]. destruct (transaction b s c) as [[[a tr] c'] s'] eqn:E.
      destruct a as [| e | | busy].
      + apply transaction_ok in E as E0. destruct E0 as [tr0 E0].
        destruct (IH s' c' xf Ho) as [n [Hn [Hdb [Hres Hall]]]].
        exists (S n). cbn [firstn exec List.length]. rewrite E0. cbn.
        repeat split; auto; try lia; try (intros H; f_equal; auto).
      + exists O. cbn. assert (s' = s) as -> by (eapply transaction_unchanged; eauto; discriminate).
        repeat split; auto; try lia; try discriminate.
      + exists O. cbn. assert (s' = s) as -> by (eapply transaction_unchanged; eauto; discriminate).
        repeat split; auto; try lia; try discriminate.
      + exists O. cbn. assert (s' = s) as -> by (eapply transaction_unchanged; eauto; discriminate).
        repeat split; auto; try lia; try discriminate.
  Qed.
End P.

(** * Managers *)
Section MgrP.
  Variables (db cache : Type).
  Variable load : db -> cache.

  Lemma cache_after_commit : forall o s c xf,
    m_pos o = CacheAfterOk -> fails_clean (m_store o) -> right_on_success load o ->
    coherent load s -> coherent load (fst (mgr_exec o s c xf)).
  Proof.
    unfold coherent, mgr_exec, fails_clean, right_on_success. intros o [d ch] c xf Hpos Hf Hr Hc. cbn in *. rewrite Hpos. cbn.
    destruct (r_res (exec (m_store o) d c xf)) as [[]| e |] eqn:E; cbn.
    - subst ch. apply Hr. exact E.
    - rewrite Hf; [exact Hc | rewrite E; discriminate].
    - rewrite Hf; [exact Hc | rewrite E; discriminate].
  Qed.

  Lemma single_fails_clean : forall b : body db, fails_clean [ITxn b].
  Proof. intros b d c xf H. apply single_atomic. exact H. Qed.
End MgrP.

(* the order "cache first, store second" loses coherence on the first failed write *)

Lemma cache_before_store_incoherent :
  coherent (fun d : N => d) (1%N, 1%N) /\
  ~ coherent (fun d : N => d) (fst (mgr_exec settings_like (1%N, 1%N) (Some (1%nat, false)) false)).
Proof. split; [reflexivity|]. vm_compute. discriminate. Qed.

(** * The chain batch *)
Section SyncP.
  Variables (data batch : Type).
  Variable next : N -> option (batch * N).
  Variables (wallet_upd contracts_upd settings_upd : batch -> data -> res data).

  Notation body_of := (batch_body wallet_upd contracts_upd settings_upd).
  Notation iter := (sync_iter next wallet_upd contracts_upd settings_upd).
  Notation run := (run_sync next wallet_upd contracts_upd settings_upd).

  (* wallet, contracts, announcement state and the marker change together or not at all *)
  Lemma batch_atomic : forall b m' (s : idb data) c,
    let r := exec [ITxn (body_of b m')] s c false in
    (r_res r <> Ok tt -> r_db r = s) /\
    (r_res r = Ok tt -> exists d1 d2 d3,
        wallet_upd b (d_data s) = Ok d1 /\ contracts_upd b d1 = Ok d2 /\ settings_upd b d2 = Ok d3 /\
        r_db r = {| d_data := d3; d_marker := m' |}).
  Proof.
    intros b m' s c r. split.
    - apply single_atomic.
    - intros H. apply single_all in H. destruct H as [tr0 H]. fold r in H.
      unfold batch_body in H. cbn in H.
      destruct (wallet_upd b (d_data s)) as [d1| |] eqn:E1; cbn in H; try (inversion H; fail).
      destruct (contracts_upd b d1) as [d2| |] eqn:E2; cbn in H; try (inversion H; fail).
      destruct (settings_upd b d2) as [d3| |] eqn:E3; cbn in H; try (inversion H; fail).
      inversion H. exists d1, d2, d3. auto.
  Qed.

  Notation clean := (clean next wallet_upd contracts_upd settings_upd).
  Notation iter_clean := (iter_clean next wallet_upd contracts_upd settings_upd).
  Notation tip_is_marker := (@tip_is_marker data).

  (* patched order: a sync attempt, whatever fails in it, is a no-op or the clean step *)
  Lemma sync_iter_stutter : forall c pf s, iter true c pf s = s \/ iter true c pf s = clean s.
  Proof.
    intros c pf s. unfold clean, sync_iter. destruct (next (i_tip s)) as [[b m']|]; [|left; reflexivity].
    cbn [exec]. destruct (transaction (body_of b m') (i_db s) c) as [[[a tr] c'] s'] eqn:E.
    destruct a as [| e | | busy].
    - right. apply transaction_ok in E. destruct E as [tr0 E]. rewrite E. cbn.
      rewrite Bool.andb_false_r. reflexivity.
    - left. cbn. assert (s' = i_db s) as -> by (eapply transaction_unchanged; eauto; discriminate). destruct s; reflexivity.
    - left. cbn. assert (s' = i_db s) as -> by (eapply transaction_unchanged; eauto; discriminate). destruct s; reflexivity.
    - left. cbn. assert (s' = i_db s) as -> by (eapply transaction_unchanged; eauto; discriminate). destruct s; reflexivity.
  Qed.

  (* any schedule of failures only delays the uninterrupted run *)
  Lemma resume_converges : forall sched s, exists n, (n <= List.length sched)%nat /\ run true sched s = iter_clean n s.
  Proof.
    induction sched as [|[c pf] t IH]; intros s.
    - exists O. split; [cbn; lia | reflexivity].
    - cbn [run_sync]. destruct (sync_iter_stutter c pf s) as [H|H]; rewrite H.
      + destruct (IH s) as [n [Hn E]]. exists n. split; [cbn; lia | exact E].
      + destruct (IH (clean s)) as [n [Hn E]]. exists (S n). split; [cbn; lia | exact E].
  Qed.

  (* the in-memory tip follows the marker, so a restart changes nothing *)
  Lemma clean_keeps_tip : forall c pf s, tip_is_marker s -> tip_is_marker (iter true c pf s).
  Proof.
    unfold tip_is_marker, sync_iter. intros c pf s H.
    destruct (next (i_tip s)) as [[b m']|]; [|exact H].
    destruct (batch_atomic b m' (i_db s) c) as [Hf Hs].
    destruct (r_res (exec [ITxn (body_of b m')] (i_db s) c false)) as [[]| e |] eqn:E.
    - destruct (Hs eq_refl) as [d1 [d2 [d3 [_ [_ [_ Hdb]]]]]].
      replace (pf && negb true) with false by (destruct pf; reflexivity). cbn [i_tip i_db]. rewrite Hdb. reflexivity.
    - cbn [i_tip i_db]. rewrite Hf by discriminate. exact H.
    - cbn [i_tip i_db]. rewrite Hf by discriminate. exact H.
  Qed.

  Lemma run_keeps_tip : forall sched s, tip_is_marker s -> tip_is_marker (run true sched s).
  Proof.
    induction sched as [|[c pf] t IH]; intros s H; [exact H|]. cbn. apply IH. apply clean_keeps_tip. exact H.
  Qed.

  Lemma restart_is_identity : forall s, tip_is_marker s -> restart_idx s = s.
  Proof. unfold tip_is_marker, restart_idx. intros [d t] H. cbn in *. subst. reflexivity. Qed.
End SyncP.

(* original order (tip updated only after the post-commit actions): a failing action
   makes the next sync apply the same batch again *)

Lemma tip_after_actions_diverges :
  let s := run_sync ex_next ex_upd ex_id ex_id false [(None, true); (None, false)] ex_s0 in
  d_marker (i_db s) = 1%N /\ d_data (i_db s) = 2%N /\
  d_data (i_db (run_sync ex_next ex_upd ex_id ex_id true [(None, true); (None, false)] ex_s0)) = 2%N /\
  d_marker (i_db (run_sync ex_next ex_upd ex_id ex_id true [(None, true); (None, false)] ex_s0)) = 2%N.
Proof. vm_compute. auto. Qed.

(** * Batched maintenance loops *)
Lemma take_sel_length : forall n l rest k,
  take_sel n l = (rest, k) -> List.length l = (List.length rest + k)%nat /\ (k <= n)%nat.
Proof.
  intros n l. revert n. induction l as [|[id sel] t IH]; intros n rest k H; cbn in H.
  - inversion H; subst. cbn. lia.
  - destruct sel.
    + destruct n as [|n].
      * inversion H; subst. cbn. lia.
      * destruct (take_sel n t) as [r1 k1] eqn:E. inversion H; subst. apply IH in E. cbn. lia.
    + destruct (take_sel n t) as [r1 k1] eqn:E. inversion H; subst. apply IH in E. cbn. lia.
Qed.

Lemma take_sel_unselected : forall n l rest k,
  take_sel n l = (rest, k) ->
  filter (fun r => negb (snd r)) rest = filter (fun r => negb (snd r)) l.
Proof.
  intros n l. revert n. induction l as [|[id sel] t IH]; intros n rest k H; cbn in H.
  - inversion H; subst. reflexivity.
  - destruct sel.
    + destruct n as [|n].
      * inversion H; subst. reflexivity.
      * destruct (take_sel n t) as [r1 k1] eqn:E. inversion H; subst. cbn. eapply IH; eauto.
    + destruct (take_sel n t) as [r1 k1] eqn:E. inversion H; subst. cbn. f_equal. eapply IH; eauto.
Qed.

(* a batch that removed nothing although it may take at least one row: no selected row is left *)
Lemma take_sel_zero : forall n l rest,
  take_sel (S n) l = (rest, O) -> rest = l /\ filter (fun r => snd r) l = [].
Proof.
  intros n l. induction l as [|[id sel] t IH]; intros rest H; cbn in H.
  - inversion H; subst. auto.
  - destruct sel.
    + destruct (take_sel n t) as [r1 k1]. inversion H.
    + destruct (take_sel (S n) t) as [r1 k1] eqn:E. inversion H; subst.
      destruct (IH r1 eq_refl) as [-> Hf]. cbn. auto.
Qed.

Lemma batch_step_consistent : forall bsz s, consistent s -> consistent (fst (batch_step bsz s)).
Proof.
  unfold consistent, batch_step. intros bsz s H. destruct (take_sel bsz (rows s)) as [rest k] eqn:E.
  apply take_sel_length in E. cbn. lia.
Qed.

Lemma batch_step_unselected : forall bsz s, unselected (fst (batch_step bsz s)) = unselected s.
Proof.
  unfold unselected, batch_step. intros bsz s. destruct (take_sel bsz (rows s)) as [rest k] eqn:E.
  cbn. eapply take_sel_unselected; eauto.
Qed.

Lemma filter_all_unselected : forall (l : list (N * bool)),
  filter (fun r => snd r) l = [] -> filter (fun r => negb (snd r)) l = l.
Proof.
  induction l as [|[id sel] t IH]; intros H; [reflexivity|]. cbn in *. destruct sel; [discriminate|].
  cbn. f_equal. auto.
Qed.

(* every state the loop can stop in — completed or interrupted at any batch — is
   consistent and has lost only selected rows *)
Lemma batch_loop_inv : forall fuel bsz fa s,
  consistent s ->
  consistent (fst (batch_loop fuel bsz fa s)) /\ unselected (fst (batch_loop fuel bsz fa s)) = unselected s.
Proof.
  induction fuel as [|f IH]; intros bsz fa s H; cbn [batch_loop].
  - cbn. auto.
  - pose proof (batch_step_consistent bsz s H) as Hc.
    pose proof (batch_step_unselected bsz s) as Hu.
    destruct fa as [[|j]|].
    + cbn. auto.
    + destruct (batch_step bsz s) as [s' k]. cbn [fst] in Hc, Hu.
      destruct k; [cbn; auto|]. destruct (IH bsz (Some j) s' Hc) as [H1 H2]. split; [exact H1 | congruence].
    + destruct (batch_step bsz s) as [s' k]. cbn [fst] in Hc, Hu.
      destruct k; [cbn; auto|]. destruct (IH bsz None s' Hc) as [H1 H2]. split; [exact H1 | congruence].
Qed.

(* with enough fuel the un-faulted loop ends with exactly the unselected rows *)
Lemma batch_loop_completes : forall fuel bsz s,
  (List.length (rows s) < fuel)%nat ->
  snd (batch_loop fuel (S bsz) None s) = true /\ rows (fst (batch_loop fuel (S bsz) None s)) = unselected s.
Proof.
  induction fuel as [|f IH]; intros bsz s Hf; [lia|]. cbn [batch_loop]. unfold batch_step.
  destruct (take_sel (S bsz) (rows s)) as [rest k] eqn:E2.
  destruct k as [|k].
  - cbn. apply take_sel_zero in E2. destruct E2 as [-> Hnone]. split; [reflexivity|].
    unfold unselected. symmetry. apply filter_all_unselected. exact Hnone.
  - apply take_sel_length in E2 as E3. destruct E3 as [Hl _].
    apply take_sel_unselected in E2.
    destruct (IH bsz {| rows := rest; counter := counter s - Z.of_nat (S k) |}) as [H1 H2]; [cbn; lia|].
    split; [exact H1|]. rewrite H2. unfold unselected. cbn. exact E2.
Qed.

Lemma bstate_eq : forall a b, rows a = rows b -> consistent a -> consistent b -> a = b.
Proof.
  unfold consistent. intros [ra ca] [rb cb] H Ha Hb. cbn in *. subst. reflexivity.
Qed.

Lemma batch_loop_shrinks : forall fuel bsz fa s,
  (List.length (rows (fst (batch_loop fuel (S bsz) fa s))) <= List.length (rows s))%nat.
Proof.
  induction fuel as [|f IH]; intros bsz fa s0; cbn [batch_loop]; [cbn; lia|].
  destruct fa as [[|jj]|]; [cbn; lia| |].
  - unfold batch_step. destruct (take_sel (S bsz) (rows s0)) as [rest k] eqn:E2.
    apply take_sel_length in E2. destruct k; cbn [fst rows]; [lia|].
    specialize (IH bsz (Some jj) {| rows := rest; counter := counter s0 - Z.of_nat (S k) |}). cbn [rows] in IH. lia.
  - unfold batch_step. destruct (take_sel (S bsz) (rows s0)) as [rest k] eqn:E2.
    apply take_sel_length in E2. destruct k; cbn [fst rows]; [lia|].
    specialize (IH bsz None {| rows := rest; counter := counter s0 - Z.of_nat (S k) |}). cbn [rows] in IH. lia.
Qed.

(* interrupted anywhere and started again, the operation ends where the uninterrupted one does *)
Lemma batch_retry_converges : forall fuel bsz j s,
  consistent s -> (List.length (rows s) < fuel)%nat ->
  fst (batch_loop fuel (S bsz) None (fst (batch_loop fuel (S bsz) (Some j) s))) = fst (batch_loop fuel (S bsz) None s).
Proof.
  intros fuel bsz j s Hc Hf.
  destruct (batch_loop_inv fuel (S bsz) (Some j) s Hc) as [Hc1 Hu1].
  set (s1 := fst (batch_loop fuel (S bsz) (Some j) s)) in *.
  assert (List.length (rows s1) <= List.length (rows s))%nat as Hlen.
  { apply batch_loop_shrinks. }
  destruct (batch_loop_completes fuel bsz s1) as [_ R1]; [lia|].
  destruct (batch_loop_completes fuel bsz s Hf) as [_ R2].
  apply bstate_eq.
  - rewrite R1, R2. exact Hu1.
  - apply batch_loop_inv. exact Hc1.
  - apply batch_loop_inv. exact Hc.
Qed.

(** * Correspondence model: what [predict] says for single-transaction methods *)
Lemma is_single_shape : forall e, is_single e = true -> sm_shape e = [STxn].
Proof.
  unfold is_single. intros e H. destruct (sm_shape e) as [|[| | |] [|? ?]]; try discriminate. reflexivity.
Qed.

(* every writing method of the generated table that is not on the documented list is one
   transaction (table_ok unfolded for a member) *)
Lemma writer_single_or_documented : forall e,
  In e store_methods -> sm_writes e = true -> mem_str (sm_name e) exempt = false ->
  lookup_multi (sm_name e) documented_multi = None -> sm_shape e = [STxn].
Proof.
  intros e Hin Hw Hex Hdoc.
  pose proof table_ok_holds as T. unfold table_ok in T. rewrite forallb_forall in T.
  specialize (T e Hin). unfold writer_ok in T. rewrite Hw, Hex, Hdoc in T. cbn in T.
  rewrite Bool.orb_false_r in T. apply Bool.andb_true_iff in T. destruct T as [T _].
  apply is_single_shape. exact T.
Qed.
