From HostdBase Require Import Base.
From HostdTxn Require Import Shape TxnTable Model.
Lemma table_ok_holds : table_ok = true.
Proof. vm_compute. reflexivity. Qed.
