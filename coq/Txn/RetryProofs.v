(* Txn/RetryProofs.v — lemmas about Retry.v: a closed closure makes Store.transaction's retry
   invisible; an exhausted budget leaves nothing behind; the seeded shape is refuted; the
   obligation on the closure table generated from the source. *)
From HostdBase Require Import Base.
From Coq Require Import String Lia.
From HostdTxn Require Import Retry ClosureTable.

(** * Sets of variables *)
Lemma vmem_In : forall x s, vmem x s = true <-> In x s.
Proof.
  unfold vmem. intros x s. rewrite existsb_exists. split.
  - intros [y [Hy E]]. apply String.eqb_eq in E. subst. exact Hy.
  - intros H. exists x. split; [exact H | apply String.eqb_refl].
Qed.

Lemma vmem_app : forall x a b, vmem x (a ++ b) = true -> In x a \/ vmem x b = true.
Proof.
  intros x a b H. apply vmem_In in H. apply in_app_or in H. destruct H as [H|H]; [left; exact H | right; apply vmem_In; exact H].
Qed.

Lemma vmem_vinter : forall x a b, vmem x (vinter a b) = true -> vmem x a = true /\ vmem x b = true.
Proof.
  unfold vinter. intros x a b H. apply vmem_In in H. apply filter_In in H. destruct H as [Ha Hb].
  split; [apply vmem_In; exact Ha | exact Hb].
Qed.

Lemma In_dec_var : forall (x : var) (s : list var), {In x s} + {~ In x s}.
Proof. intros. apply in_dec. apply string_dec. Qed.

Section P.
  Variables (V db : Type).
  Variable dflt : V.
  Variable I : interp V db.
  Notation local := (local V).
  Notation exec := (exec dflt I).
  Notation attempt := (attempt dflt I).
  Notation retry := (retry dflt I).
  Notation set_all := (set_all dflt).

  (** ** Assignments *)
  Lemma set_all_notin : forall ws vs (l : local) x, ~ In x ws -> set_all ws vs l x = l x.
  Proof.
    induction ws as [|a t IH]; intros vs l x H; cbn; [reflexivity|].
    unfold upd. destruct (String.eqb x a) eqn:E.
    - apply String.eqb_eq in E. subst. exfalso. apply H. left. reflexivity.
    - apply IH. intros Hin. apply H. right. exact Hin.
  Qed.

  Lemma set_all_in : forall ws vs (l1 l2 : local) x, In x ws -> set_all ws vs l1 x = set_all ws vs l2 x.
  Proof.
    induction ws as [|a t IH]; intros vs l1 l2 x H; cbn; [destruct H|].
    unfold upd. destruct (String.eqb x a) eqn:E; [reflexivity|].
    apply IH. destruct H as [H|H]; [|exact H]. subst. rewrite String.eqb_refl in E. discriminate.
  Qed.

  (** ** Two runs of one command from locals that agree where it matters *)
  Variable W : vset.

  (* equal outside W (what the closure never assigns) and on D (what this attempt has
     definitely assigned already) *)
  Definition agree (D : vset) (l1 l2 : local) : Prop :=
    forall x, vmem x W = false \/ vmem x D = true -> l1 x = l2 x.

  Lemma vals_agree : forall D rs l1 l2, reads_ok W D rs = true -> agree D l1 l2 -> vals rs l1 = vals rs l2.
  Proof.
    unfold reads_ok, vals. induction rs as [|x t IH]; intros l1 l2 H A; cbn in *; [reflexivity|].
    apply andb_prop in H. destruct H as [Hx Ht]. f_equal; [|apply IH; assumption].
    apply A. apply Bool.orb_prop in Hx. destruct Hx as [Hx|Hx]; [left | right; exact Hx].
    destruct (vmem x W); [discriminate | reflexivity].
  Qed.

  (* what two runs have in common: outcome, view, assigned variables, countdown; the assigned
     variables hold the same values, the others are untouched; only variables of W are assigned *)
  Definition core (l1 l2 : local) (r1 r2 : st V db) : Prop :=
    s_out r1 = s_out r2 /\ s_db r1 = s_db r2 /\ s_wr r1 = s_wr r2 /\ s_k r1 = s_k r2 /\
    (forall x, In x (s_wr r1) -> s_loc r1 x = s_loc r2 x) /\
    (forall x, ~ In x (s_wr r1) -> s_loc r1 x = l1 x /\ s_loc r2 x = l2 x) /\
    (forall x, In x (s_wr r1) -> vmem x W = true).

  (* after normal completion everything in D' was in D or has been assigned *)
  Definition dcl (D D' : vset) (r1 : st V db) : Prop :=
    s_out r1 = ONormal -> forall x, vmem x D' = true -> vmem x D = true \/ In x (s_wr r1).

  Lemma core_agree : forall D l1 l2 r1 r2, core l1 l2 r1 r2 -> agree D l1 l2 ->
    agree D (s_loc r1) (s_loc r2).
  Proof.
    intros D l1 l2 r1 r2 [_ [_ [_ [_ [Hw [Hf Hin]]]]]] A x Hx.
    destruct (In_dec_var x (s_wr r1)) as [Hi|Hi]; [apply Hw; exact Hi|].
    destruct (Hf x Hi) as [-> ->]. apply A. exact Hx.
  Qed.

  Lemma core_agree' : forall D D' l1 l2 r1 r2, core l1 l2 r1 r2 -> dcl D D' r1 -> agree D l1 l2 ->
    s_out r1 = ONormal -> agree D' (s_loc r1) (s_loc r2).
  Proof.
    intros D D' l1 l2 r1 r2 [_ [_ [_ [_ [Hw [Hf Hin]]]]]] HD A Hn x Hx.
    destruct (In_dec_var x (s_wr r1)) as [Hi|Hi]; [apply Hw; exact Hi|].
    destruct (Hf x Hi) as [-> ->]. apply A. destruct Hx as [Hx|Hx]; [left; exact Hx|].
    destruct (HD Hn x Hx) as [H|H]; [right; exact H | contradiction].
  Qed.

  (* first a, then b from where a stopped *)
  Lemma core_seq : forall l1 l2 ra1 ra2 rb1 rb2 o,
    core l1 l2 ra1 ra2 -> core (s_loc ra1) (s_loc ra2) rb1 rb2 ->
    core l1 l2
      {| s_out := o; s_db := s_db rb1; s_loc := s_loc rb1; s_wr := s_wr ra1 ++ s_wr rb1; s_k := s_k rb1 |}
      {| s_out := o; s_db := s_db rb2; s_loc := s_loc rb2; s_wr := s_wr ra2 ++ s_wr rb2; s_k := s_k rb2 |}.
  Proof.
    intros l1 l2 ra1 ra2 rb1 rb2 o
      [Ao [Ad [Aw [Ak [Awr [Af Ain]]]]]] [Bo [Bd [Bw [Bk [Bwr [Bf Bin]]]]]].
    unfold core; cbn. split; [reflexivity|]. split; [exact Bd|]. split; [congruence|]. split; [exact Bk|].
    split; [|split].
    - intros x Hx. destruct (In_dec_var x (s_wr rb1)) as [Hi|Hi]; [apply Bwr; exact Hi|].
      destruct (Bf x Hi) as [-> ->]. apply in_app_or in Hx. destruct Hx as [Hx|Hx]; [apply Awr; exact Hx | contradiction].
    - intros x H.
      assert (~ In x (s_wr rb1)) as Hb by (intros Hi; apply H; apply in_or_app; right; exact Hi).
      assert (~ In x (s_wr ra1)) as Ha by (intros Hi; apply H; apply in_or_app; left; exact Hi).
      destruct (Bf x Hb) as [-> ->]. destruct (Af x Ha) as [-> ->]. split; reflexivity.
    - intros x Hx. apply in_app_or in Hx. destruct Hx as [Hx|Hx]; [apply Ain | apply Bin]; exact Hx.
  Qed.

  Lemma core_out : forall l1 l2 r1 r2 o,
    core l1 l2 r1 r2 ->
    core l1 l2 {| s_out := o; s_db := s_db r1; s_loc := s_loc r1; s_wr := s_wr r1; s_k := s_k r1 |}
               {| s_out := o; s_db := s_db r2; s_loc := s_loc r2; s_wr := s_wr r2; s_k := s_k r2 |}.
  Proof. intros l1 l2 r1 r2 o [Ao [Ad [Aw [Ak [Awr [Af Ain]]]]]]. unfold core; cbn. repeat split; auto; apply Af; auto. Qed.

  Lemma core_refl_nowrite : forall l1 l2 o d k,
    core l1 l2 {| s_out := o; s_db := d; s_loc := l1; s_wr := []; s_k := k |}
               {| s_out := o; s_db := d; s_loc := l2; s_wr := []; s_k := k |}.
  Proof. intros. unfold core; cbn. repeat split; auto; intros x H; destruct H. Qed.

  Lemma core_set : forall ws vs l1 l2 o d k, (forall x, In x ws -> vmem x W = true) ->
    core l1 l2 {| s_out := o; s_db := d; s_loc := set_all ws vs l1; s_wr := ws; s_k := k |}
               {| s_out := o; s_db := d; s_loc := set_all ws vs l2; s_wr := ws; s_k := k |}.
  Proof.
    intros ws vs l1 l2 o d k Hw. unfold core; cbn. repeat split; auto.
    - intros x Hx. apply set_all_in. exact Hx.
    - apply set_all_notin. exact H.
    - apply set_all_notin. exact H.
  Qed.

  Lemma in_app_l : forall (x : var) a b, (forall y, In y (a ++ b) -> vmem y W = true) -> forall y, In y a -> vmem y W = true.
  Proof. intros x a b H y Hy. apply H. apply in_or_app. left. exact Hy. Qed.
  Lemma in_app_r : forall (x : var) a b, (forall y, In y (a ++ b) -> vmem y W = true) -> forall y, In y b -> vmem y W = true.
  Proof. intros x a b H y Hy. apply H. apply in_or_app. right. exact Hy. Qed.

  (* the heart: a command that passes the definite-assignment check computes the same from
     any two local states that agree outside W and on D *)
  Lemma exec_rel : forall fuel c D D' d l1 l2 k,
    (forall x, In x (maywrite c) -> vmem x W = true) ->
    da W c D = Some D' -> agree D l1 l2 ->
    core l1 l2 (exec fuel c d l1 k) (exec fuel c d l2 k) /\ dcl D D' (exec fuel c d l1 k).
  Proof.
    induction fuel as [|n IH]; intros c D D' d l1 l2 k HW Hda A.
    { cbn. split; [apply core_refl_nowrite | intros H; discriminate]. }
    destruct c as [|ws rs f|ws rs q|a b|rs g a b|rs g body| | |rs e]; cbn [exec]; cbn [da maywrite] in Hda, HW.
    - (* skip *) inversion Hda; subst. split; [apply core_refl_nowrite | intros _ x Hx; left; exact Hx].
    - (* assign *)
      destruct (reads_ok W D rs) eqn:R; [|discriminate]. inversion Hda; subst.
      rewrite (vals_agree _ _ _ _ R A). split; [apply core_set; exact HW|].
      intros _ x Hx. cbn. apply vmem_app in Hx. destruct Hx; auto.
    - (* call *)
      destruct (reads_ok W D rs) eqn:R; [|discriminate]. inversion Hda; subst.
      rewrite (vals_agree _ _ _ _ R A).
      assert (forall x, vmem x (ws ++ D) = true -> vmem x D = true \/ In x ws) as HD
        by (intros x Hx; apply vmem_app in Hx; destruct Hx; auto).
      destruct k as [[|j]|]; cbv iota beta zeta.
      + split; [apply core_set; exact HW | intros H; discriminate].
      + destruct (i_call I q (vals rs l2) d) as [[d' vs]|]; cbv iota beta.
        * split; [apply core_set; exact HW | intros _; exact HD].
        * split; [apply core_set; exact HW | intros H; discriminate].
      + destruct (i_call I q (vals rs l2) d) as [[d' vs]|]; cbv iota beta.
        * split; [apply core_set; exact HW | intros _; exact HD].
        * split; [apply core_set; exact HW | intros H; discriminate].
    - (* seq *)
      destruct (da W a D) as [Da|] eqn:Ea; [|discriminate].
      destruct (IH a D Da d l1 l2 k (in_app_l EmptyString _ _ HW) Ea A) as [Ca Dca].
      pose proof Ca as [Ao _].
      destruct (s_out (exec n a d l1 k)) eqn:O1; rewrite <- Ao;
        try (split; [exact Ca | intros H; rewrite O1 in H; discriminate]).
      assert (agree Da (s_loc (exec n a d l1 k)) (s_loc (exec n a d l2 k))) as A'
        by (eapply core_agree'; eauto).
      pose proof Ca as [_ [Ad [_ [Ak _]]]]. rewrite <- Ad, <- Ak.
      destruct (IH b Da D' (s_db (exec n a d l1 k)) _ _ (s_k (exec n a d l1 k)) (in_app_r EmptyString _ _ HW) Hda A') as [Cb Dcb].
      pose proof Cb as [Bo _]. rewrite <- Bo.
      split; [apply core_seq; assumption|].
      unfold dcl; cbn. intros Hn x Hx. destruct (Dcb Hn x Hx) as [H|H].
      * destruct (Dca O1 x H) as [H'|H']; [left; exact H' | right; apply in_or_app; left; exact H'].
      * right. apply in_or_app. right. exact H.
    - (* if *)
      destruct (reads_ok W D rs) eqn:R; [|discriminate].
      destruct (da W a D) as [Da|] eqn:Ea; [|discriminate].
      destruct (da W b D) as [Db|] eqn:Eb; [|discriminate]. inversion Hda; subst.
      rewrite (vals_agree _ _ _ _ R A).
      destruct (i_cond I g (vals rs l2)).
      + destruct (IH a D Da d l1 l2 k (in_app_l EmptyString _ _ HW) Ea A) as [Ca Dca]. split; [exact Ca|].
        intros Hn x Hx. apply vmem_vinter in Hx. apply Dca; [exact Hn | apply Hx].
      + destruct (IH b D Db d l1 l2 k (in_app_r EmptyString _ _ HW) Eb A) as [Cb Dcb]. split; [exact Cb|].
        intros Hn x Hx. apply vmem_vinter in Hx. apply Dcb; [exact Hn | apply Hx].
    - (* while *)
      pose proof Hda as Hda0.
      destruct (reads_ok W D rs) eqn:R; [|discriminate].
      destruct (da W body D) as [Db|] eqn:Eb; [|discriminate]. inversion Hda; subst D'.
      rewrite (vals_agree _ _ _ _ R A).
      destruct (i_cond I g (vals rs l2)); [|split; [apply core_refl_nowrite | intros _ x Hx; left; exact Hx]].
      destruct (IH body D Db d l1 l2 k HW Eb A) as [Ca Dca].
      pose proof Ca as [Ao [Ad [_ [Ak _]]]].
      assert (agree D (s_loc (exec n body d l1 k)) (s_loc (exec n body d l2 k))) as A'
        by (eapply core_agree; eauto).
      assert (da W (CWhile rs g body) D = Some D) as Hw by (cbn [da]; rewrite R, Eb; reflexivity).
      destruct (s_out (exec n body d l1 k)) eqn:O1; rewrite <- Ao;
        try (split; [exact Ca | intros H; rewrite O1 in H; discriminate]).
      + rewrite <- Ad, <- Ak.
        destruct (IH (CWhile rs g body) D D (s_db (exec n body d l1 k)) _ _ (s_k (exec n body d l1 k)) HW Hw A') as [Cb Dcb].
        pose proof Cb as [Bo _]. rewrite <- Bo.
        split; [apply core_seq; assumption | intros _ x Hx; left; exact Hx].
      + split; [apply core_out; exact Ca | intros _ x Hx; left; exact Hx].
      + rewrite <- Ad, <- Ak.
        destruct (IH (CWhile rs g body) D D (s_db (exec n body d l1 k)) _ _ (s_k (exec n body d l1 k)) HW Hw A') as [Cb Dcb].
        pose proof Cb as [Bo _]. rewrite <- Bo.
        split; [apply core_seq; assumption | intros _ x Hx; left; exact Hx].
    - split; [apply core_refl_nowrite | intros H; discriminate].
    - split; [apply core_refl_nowrite | intros H; discriminate].
    - destruct (reads_ok W D rs) eqn:R; [|discriminate]. rewrite (vals_agree _ _ _ _ R A).
      split; [apply core_refl_nowrite | intros H; discriminate].
  Qed.

  (** ** A run without a pending fault *)
  Lemma exec_none : forall fuel c d l, s_k (exec fuel c d l None) = None /\ s_out (exec fuel c d l None) <> OBusy.
  Proof.
    induction fuel as [|n IH]; intros c d l; [cbn; split; [reflexivity | discriminate]|].
    destruct c as [|ws rs f|ws rs q|a b|rs g a b|rs g body| | |rs e]; cbn [exec];
      try (cbn; split; [reflexivity | discriminate]).
    - destruct (i_call I q (vals rs l) d) as [[d' vs]|]; cbn; split; try reflexivity; discriminate.
    - destruct (IH a d l) as [Ka Oa].
      destruct (s_out (exec n a d l None)) eqn:O; try (split; [exact Ka | rewrite O; discriminate]).
      + cbn. rewrite Ka. apply IH.
      + exfalso. apply Oa. reflexivity.
    - destruct (i_cond I g (vals rs l)); apply IH.
    - destruct (i_cond I g (vals rs l)); [|cbn; split; [reflexivity | discriminate]].
      destruct (IH body d l) as [Ka Oa].
      destruct (s_out (exec n body d l None)) eqn:O; try (split; [exact Ka | rewrite O; discriminate]).
      + cbn. rewrite Ka. apply IH.
      + cbn. split; [exact Ka | discriminate].
      + cbn. rewrite Ka. apply IH.
      + exfalso. apply Oa. reflexivity.
  Qed.

  (** ** A run that is cut short by the fault is a prefix of the run without it *)
  Definition same_but_k (r r0 : st V db) : Prop :=
    s_out r <> OBusy /\ s_out r = s_out r0 /\ s_db r = s_db r0 /\ s_loc r = s_loc r0 /\ s_wr r = s_wr r0 /\
    exists j', s_k r = Some j'.

  Lemma exec_prefix : forall fuel c d l j,
    (s_out (exec fuel c d l (Some j)) = OBusy /\ incl (s_wr (exec fuel c d l (Some j))) (s_wr (exec fuel c d l None))) \/
    same_but_k (exec fuel c d l (Some j)) (exec fuel c d l None).
  Proof.
    unfold same_but_k.
    induction fuel as [|n IH]; intros c d l j.
    { right. cbn. repeat split; eauto; discriminate. }
    destruct c as [|ws rs f|ws rs q|a b|rs g a b|rs g body| | |rs e]; cbn [exec];
      try (right; cbn; repeat split; eauto; discriminate).
    - (* call *)
      destruct j as [|j].
      + left. destruct (i_call I q (vals rs l) d) as [[d' vs]|]; cbn; split; try reflexivity; apply incl_refl.
      + right. destruct (i_call I q (vals rs l) d) as [[d' vs]|]; cbn; repeat split; eauto; discriminate.
    - (* seq *)
      destruct (IH a d l j) as [[Ob Hi]|[Nb [Eo [Ed [El [Ew [j' Ek]]]]]]].
      + left. rewrite Ob. split; [exact Ob|].
        destruct (s_out (exec n a d l None)); cbn; try exact Hi.
        apply incl_appl. exact Hi.
      + rewrite <- Eo.
        destruct (s_out (exec n a d l (Some j))) eqn:O;
          try (right; rewrite O; repeat split; eauto; discriminate).
        * rewrite Ek, Ed, El, Ew, (proj1 (exec_none n a d l)). cbn.
          destruct (IH b (s_db (exec n a d l None)) (s_loc (exec n a d l None)) j') as [[Ob Hi]|[Nb' [Eo' [Ed' [El' [Ew' [j'' Ek']]]]]]].
          -- left. split; [exact Ob | apply incl_app; [apply incl_appl; apply incl_refl | apply incl_appr; exact Hi]].
          -- right. repeat split; eauto. rewrite Ew'. reflexivity.
    - (* if *)
      destruct (i_cond I g (vals rs l)); apply IH.
    - (* while *)
      destruct (i_cond I g (vals rs l)); [|right; cbn; repeat split; eauto; discriminate].
      destruct (IH body d l j) as [[Ob Hi]|[Nb [Eo [Ed [El [Ew [j' Ek]]]]]]].
      + left. rewrite Ob. split; [exact Ob|].
        destruct (s_out (exec n body d l None)); cbn; try exact Hi; apply incl_appl; exact Hi.
      + rewrite <- Eo.
        destruct (s_out (exec n body d l (Some j))) eqn:O;
          try (right; rewrite O; repeat split; eauto; discriminate).
        * rewrite Ek, Ed, El, Ew, (proj1 (exec_none n body d l)). cbn.
          destruct (IH (CWhile rs g body) (s_db (exec n body d l None)) (s_loc (exec n body d l None)) j') as [[Ob Hi]|[Nb' [Eo' [Ed' [El' [Ew' [j'' Ek']]]]]]].
          -- left. split; [exact Ob | apply incl_app; [apply incl_appl; apply incl_refl | apply incl_appr; exact Hi]].
          -- right. repeat split; eauto. rewrite Ew'. reflexivity.
        * right. cbn. repeat split; eauto; discriminate.
        * rewrite Ek, Ed, El, Ew, (proj1 (exec_none n body d l)). cbn.
          destruct (IH (CWhile rs g body) (s_db (exec n body d l None)) (s_loc (exec n body d l None)) j') as [[Ob Hi]|[Nb' [Eo' [Ed' [El' [Ew' [j'' Ek']]]]]]].
          -- left. split; [exact Ob | apply incl_app; [apply incl_appl; apply incl_refl | apply incl_appr; exact Hi]].
          -- right. repeat split; eauto. rewrite Ew'. reflexivity.
  Qed.
End P.

(** * Store.transaction re-running a closed closure *)
Section Main.
  Variables (V db : Type).
  Variable dflt : V.
  Variable I : interp V db.
  Variable fuel : nat.
  Variable c : cmd.
  Notation local := (local V).
  Notation W := (maywrite c).
  Notation attempt := (attempt dflt I fuel).
  Notation retry := (retry dflt I fuel).

  Definition acore (l1 l2 : local) (a1 a2 : att V db) : Prop :=
    a_res a1 = a_res a2 /\ a_db a1 = a_db a2 /\ a_wr a1 = a_wr a2 /\
    (forall x, In x (a_wr a1) -> a_loc a1 x = a_loc a2 x) /\
    (forall x, ~ In x (a_wr a1) -> a_loc a1 x = l1 x /\ a_loc a2 x = l2 x) /\
    (forall x, In x (a_wr a1) -> vmem x W = true).

  Hypothesis closed : closed_closure c = true.

  Lemma closed_da : exists D', da W c [] = Some D'.
  Proof. unfold closed_closure in closed. destruct (da W c []) as [D'|]; [eauto | discriminate]. Qed.

  Lemma W_self : forall x, In x W -> vmem x W = true.
  Proof. intros x H. apply vmem_In. exact H. Qed.

  (* one attempt from two local states that agree outside W *)
  Lemma attempt_rel : forall k d l1 l2, agree V W [] l1 l2 -> acore l1 l2 (attempt k c d l1) (attempt k c d l2).
  Proof.
    intros k d l1 l2 A. destruct closed_da as [D' Hda]. unfold Retry.attempt.
    destruct k as [[|j]|].
    - unfold acore; cbn. repeat split; auto; intros x H; destruct H.
    - destruct (@exec_rel V db dflt I W fuel c [] D' d l1 l2 (Some j) W_self Hda A) as [[Ho [Hd [Hw [Hk [Hin [Hf HW]]]]]] _].
      rewrite <- Ho, <- Hk.
      destruct (s_out (exec dflt I fuel c d l1 (Some j))) as [| | |[e|]| | |];
        try (unfold acore; cbn; repeat split; auto; apply Hf; auto).
      + destruct (s_k (exec dflt I fuel c d l1 (Some j))) as [[|j']|]; unfold acore; cbn; repeat split; auto; apply Hf; auto.
      + destruct (s_k (exec dflt I fuel c d l1 (Some j))) as [[|j']|]; unfold acore; cbn; repeat split; auto; apply Hf; auto.
    - destruct (@exec_rel V db dflt I W fuel c [] D' d l1 l2 None W_self Hda A) as [[Ho [Hd [Hw [Hk [Hin [Hf HW]]]]]] _].
      rewrite <- Ho, <- Hk.
      destruct (s_out (exec dflt I fuel c d l1 None)) as [| | |[e|]| | |];
        try (unfold acore; cbn; repeat split; auto; apply Hf; auto).
      + destruct (s_k (exec dflt I fuel c d l1 None)) as [[|j']|]; unfold acore; cbn; repeat split; auto; apply Hf; auto.
      + destruct (s_k (exec dflt I fuel c d l1 None)) as [[|j']|]; unfold acore; cbn; repeat split; auto; apply Hf; auto.
  Qed.

  Lemma attempt_none_not_busy : forall d l, a_res (attempt None c d l) <> ABusy.
  Proof.
    intros d l. unfold Retry.attempt. destruct (@exec_none V db dflt I fuel c d l) as [K O]. rewrite K.
    destruct (s_out (exec dflt I fuel c d l None)) as [| | |[e|]| | |]; cbn; try discriminate.
    exfalso. apply O. reflexivity.
  Qed.

  (* an attempt hit by the fault is a prefix of the attempt without it *)
  Lemma attempt_prefix : forall j d l,
    (a_res (attempt (Some j) c d l) = ABusy /\ incl (a_wr (attempt (Some j) c d l)) (a_wr (attempt None c d l))) \/
    (a_res (attempt (Some j) c d l) = a_res (attempt None c d l) /\ a_db (attempt (Some j) c d l) = a_db (attempt None c d l) /\
     a_loc (attempt (Some j) c d l) = a_loc (attempt None c d l) /\ a_wr (attempt (Some j) c d l) = a_wr (attempt None c d l)).
  Proof.
    intros j d l. unfold Retry.attempt. destruct j as [|j].
    { left. cbn. split; [reflexivity | apply incl_nil_l]. }
    destruct (@exec_none V db dflt I fuel c d l) as [K0 O0]. rewrite K0.
    destruct (@exec_prefix V db dflt I fuel c d l j) as [[Ob Hi]|[Nb [Eo [Ed [El [Ew [j' Ek]]]]]]].
    - left. rewrite Ob. cbn. split; [reflexivity|].
      destruct (s_out (exec dflt I fuel c d l None)) as [| | |[e|]| | |]; cbn; exact Hi.
    - rewrite <- Eo, Ek.
      destruct (s_out (exec dflt I fuel c d l (Some j))) as [| | |[e|]| | |]; cbn;
        try (right; repeat split; congruence).
      + destruct j' as [|j']; cbn; [left; split; [reflexivity | rewrite Ew; apply incl_refl] | right; repeat split; congruence].
      + destruct j' as [|j']; cbn; [left; split; [reflexivity | rewrite Ew; apply incl_refl] | right; repeat split; congruence].
  Qed.

  (** ** The invariant of the retry loop *)
  Variable d : db.
  Variable l0 : local.

  (* the fault-free attempt from the state the enclosing function set up *)
  Definition a0 : att V db := attempt None c d l0.

  (* a local state as rolled-back attempts can leave it: it differs from l0 only in variables
     the fault-free attempt assigns *)
  Definition J (l : local) : Prop := forall x, In x (a_wr a0) \/ l x = l0 x.

  Lemma J_agree : forall l, J l -> agree V W [] l l0.
  Proof.
    intros l HJ x [Hx|Hx]; [|cbn in Hx; discriminate].
    destruct (HJ x) as [H|H]; [|exact H].
    assert (agree V W [] l0 l0) as A0 by (intros y _; reflexivity).
    destruct (attempt_rel None d l0 l0 A0) as [_ [_ [_ [_ [_ HW]]]]]. fold a0 in HW.
    rewrite (HW x H) in Hx. discriminate.
  Qed.

  Lemma J_clean : forall l, J l ->
    a_res (attempt None c d l) = a_res a0 /\ a_db (attempt None c d l) = a_db a0 /\
    forall x, a_loc (attempt None c d l) x = a_loc a0 x.
  Proof.
    intros l HJ. destruct (attempt_rel None d l l0 (J_agree l HJ)) as [Hr [Hd [Hw [Hin [Hf _]]]]].
    fold a0 in Hr, Hd, Hw, Hin, Hf. split; [exact Hr|]. split; [exact Hd|]. intros x.
    destruct (In_dec_var x (a_wr (attempt None c d l))) as [Hi|Hi]; [apply Hin; exact Hi|].
    destruct (Hf x Hi) as [-> ->]. destruct (HJ x) as [H|H]; [|exact H].
    exfalso. apply Hi. rewrite Hw. exact H.
  Qed.

  Lemma J_busy : forall l j, J l -> a_res (attempt (Some j) c d l) = ABusy -> J (a_loc (attempt (Some j) c d l)).
  Proof.
    intros l j HJ Hb x.
    destruct (attempt_rel (Some j) d l l0 (J_agree l HJ)) as [Hr [_ [Hw [_ [Hf _]]]]].
    destruct (attempt_prefix j d l0) as [[_ Hi]|[Hr0 _]].
    - destruct (In_dec_var x (a_wr (attempt (Some j) c d l))) as [Hx|Hx].
      + left. apply Hi. rewrite <- Hw. exact Hx.
      + destruct (Hf x Hx) as [-> _]. apply HJ.
    - exfalso. apply (attempt_none_not_busy d l0). rewrite <- Hr0, <- Hr. exact Hb.
  Qed.

  Lemma J_not_busy : forall l j, J l -> a_res (attempt (Some j) c d l) <> ABusy ->
    a_res (attempt (Some j) c d l) = a_res a0 /\ a_db (attempt (Some j) c d l) = a_db a0 /\
    forall x, a_loc (attempt (Some j) c d l) x = a_loc a0 x.
  Proof.
    intros l j HJ Hb. destruct (attempt_prefix j d l) as [[Hb' _]|[Hr [Hd [Hl _]]]]; [contradiction|].
    rewrite Hr, Hd, Hl. apply J_clean. exact HJ.
  Qed.

  Lemma J_l0 : J l0.
  Proof. intros x. right. reflexivity. Qed.

  (* what Store.transaction returns for the outcome of its last attempt *)
  Definition tres_of (a : att V db) : tres :=
    match a_res a with ACommit => TOk | AErr e => TErr e | APanic => TPanic | ABusy => TExhausted end.
  Definition tdb_of (a : att V db) : db := match a_res a with ACommit => a_db a | _ => d end.

  Lemma retry_J : forall pat budget l, J l -> (List.length pat < budget)%nat ->
    t_res (retry budget pat c d l) = tres_of a0 /\ t_db (retry budget pat c d l) = tdb_of a0 /\
    forall x, t_loc (retry budget pat c d l) x = a_loc a0 x.
  Proof.
    assert (forall a, a_res a = a_res a0 -> a_db a = a_db a0 -> (forall x, a_loc a x = a_loc a0 x) -> a_res a <> ABusy ->
            forall n pat l,
            let t := match a_res a with
                     | ACommit => {| t_res := TOk; t_db := a_db a; t_loc := a_loc a |}
                     | AErr e => {| t_res := TErr e; t_db := d; t_loc := a_loc a |}
                     | APanic => {| t_res := TPanic; t_db := d; t_loc := a_loc a |}
                     | ABusy => retry n pat c d l
                     end in
            t_res t = tres_of a0 /\ t_db t = tdb_of a0 /\ forall x, t_loc t x = a_loc a0 x) as Done.
    { intros a Hr Hd Hl Hb n pat l. unfold tres_of, tdb_of. rewrite <- Hr.
      destruct (a_res a); cbn; try (repeat split; auto; fail). contradiction. }
    induction pat as [|p pat IH]; intros budget l HJ Hlen; (destruct budget as [|n]; [cbn in Hlen; lia|]); cbn [Retry.retry hd tl].
    - destruct (J_clean l HJ) as [Hr [Hd Hl]]. apply Done; auto. apply attempt_none_not_busy.
    - destruct p as [j|].
      + destruct (a_res (attempt (Some j) c d l)) eqn:E.
        * destruct (J_not_busy l j HJ) as [Hr [Hd Hl]]; [rewrite E; discriminate|].
          pose proof (Done _ Hr Hd Hl) as Dn. rewrite E in Dn. apply (Dn ltac:(discriminate) n pat l).
        * destruct (J_not_busy l j HJ) as [Hr [Hd Hl]]; [rewrite E; discriminate|].
          pose proof (Done _ Hr Hd Hl) as Dn. rewrite E in Dn. apply (Dn ltac:(discriminate) n pat l).
        * apply IH; [apply J_busy; assumption | cbn in Hlen; lia].
        * destruct (J_not_busy l j HJ) as [Hr [Hd Hl]]; [rewrite E; discriminate|].
          pose proof (Done _ Hr Hd Hl) as Dn. rewrite E in Dn. apply (Dn ltac:(discriminate) n pat l).
      + destruct (J_clean l HJ) as [Hr [Hd Hl]]. apply Done; auto. apply attempt_none_not_busy.
  Qed.

  (** ** Theorem: retries of a closed closure are invisible *)
  Theorem retry_transparent : forall budget pat, (List.length pat < budget)%nat ->
    t_res (retry budget pat c d l0) = t_res (retry budget [] c d l0) /\
    t_db (retry budget pat c d l0) = t_db (retry budget [] c d l0) /\
    forall x, t_loc (retry budget pat c d l0) x = t_loc (retry budget [] c d l0) x.
  Proof.
    intros budget pat Hlen.
    destruct (retry_J pat budget l0 J_l0 Hlen) as [R1 [D1 L1]].
    assert (List.length (@nil fcd) < budget)%nat as Hnil by (cbn; lia).
    destruct (retry_J [] budget l0 J_l0 Hnil) as [R2 [D2 L2]].
    rewrite R1, R2, D1, D2. repeat split; auto. intros x. rewrite L1, L2. reflexivity.
  Qed.

  (* the fault-free transaction is the closure as a function of database and captured state *)
  Lemma retry_clean_is_closure : forall budget,
    match closure_fun dflt I fuel c d l0 with
    | Ok (d', l') => t_res (retry (S budget) [] c d l0) = TOk /\ t_db (retry (S budget) [] c d l0) = d' /\ t_loc (retry (S budget) [] c d l0) = l'
    | Err e => t_res (retry (S budget) [] c d l0) = TErr e /\ t_db (retry (S budget) [] c d l0) = d
    | Panic => t_res (retry (S budget) [] c d l0) = TPanic /\ t_db (retry (S budget) [] c d l0) = d
    end.
  Proof.
    intros budget. unfold closure_fun. cbn [Retry.retry hd].
    pose proof (attempt_none_not_busy d l0) as Nb.
    destruct (a_res (attempt None c d l0)); cbn; auto. contradiction.
  Qed.

  (* when the budget runs out the captured state differs from the initial one only in
     variables the fault-free run assigns anyway *)
  Lemma retry_exhausted_locals : forall pat budget l, J l ->
    t_res (retry budget pat c d l) = TExhausted -> J (t_loc (retry budget pat c d l)).
  Proof.
    intros pat budget. revert pat. induction budget as [|n IH]; intros pat l HJ Hr; cbn [Retry.retry] in *; [exact HJ|].
    destruct (hd None pat) as [j|] eqn:Ep.
    - destruct (a_res (attempt (Some j) c d l)) eqn:E; cbn in Hr; try discriminate.
      apply IH; [apply J_busy; [exact HJ | exact E] | exact Hr].
    - pose proof (attempt_none_not_busy d l) as Nb.
      destruct (a_res (attempt None c d l)); cbn in Hr; try discriminate. contradiction.
  Qed.

  Theorem retry_exhausted_locals_l0 : forall pat budget,
    t_res (retry budget pat c d l0) = TExhausted ->
    forall x, In x (a_wr (attempt None c d l0)) \/ t_loc (retry budget pat c d l0) x = l0 x.
  Proof. intros pat budget H. exact (retry_exhausted_locals pat budget l0 J_l0 H). Qed.
End Main.

(** * Whatever the closure: no commit, no change; a busy database exhausts the budget *)
Section Any.
  Variables (V db : Type).
  Variable dflt : V.
  Variable I : interp V db.

  Lemma attempt_no_commit : forall fuel k c d l, a_res (attempt dflt I fuel k c d l) <> ACommit -> a_db (attempt dflt I fuel k c d l) = d.
  Proof.
    intros fuel k c d l. unfold attempt. destruct k as [[|j]|]; cbn; auto.
    - destruct (s_out (exec dflt I fuel c d l (Some j))) as [| | |[e|]| | |]; cbn; auto;
        destruct (s_k (exec dflt I fuel c d l (Some j))) as [[|j']|]; cbn; auto; congruence.
    - destruct (s_out (exec dflt I fuel c d l None)) as [| | |[e|]| | |]; cbn; auto;
        destruct (s_k (exec dflt I fuel c d l None)) as [[|j']|]; cbn; auto; congruence.
  Qed.

  Theorem retry_no_commit_no_effect : forall fuel budget pat c d l,
    t_res (retry dflt I fuel budget pat c d l) <> TOk -> t_db (retry dflt I fuel budget pat c d l) = d.
  Proof.
    intros fuel budget. induction budget as [|n IH]; intros pat c d l H; cbn [retry] in *; [reflexivity|].
    destruct (a_res (attempt dflt I fuel (hd None pat) c d l)) eqn:E; cbn in *; auto. congruence.
  Qed.

  (* every attempt finds the database locked (here: already at Begin): the closure never
     runs, the budget is used up, database and captured state are as before *)
  Theorem retry_exhausted : forall fuel budget c d l,
    retry dflt I fuel budget (repeat (Some O) budget) c d l = {| t_res := TExhausted; t_db := d; t_loc := l |}.
  Proof.
    intros fuel budget. induction budget as [|n IH]; intros c d l; cbn; [reflexivity | apply IH].
  Qed.
End Any.

(** * The seeded shape is refuted, the repository's shape passes *)
Lemma leaky_refuted :
  closed_closure leaky = false /\ closed_closure leaky_fixed = true /\
  let l0 : local N := fun _ => 0%N in
  (* "database is locked" at the first write (call 2: Begin is 0, the SELECT 1) of the first attempt *)
  let t := retry 0%N leaky_interp 20 go_budget [Some 2%nat] leaky 0%N l0 in
  let t0 := retry 0%N leaky_interp 20 go_budget [] leaky 0%N l0 in
  let tf := retry 0%N leaky_interp 20 go_budget [Some 2%nat] leaky_fixed 0%N l0 in
  t_res t = TOk /\ t_res t0 = TOk /\ t_db t0 = 1%N /\ t_db t = 2%N /\ t_db tf = 1%N.
Proof. vm_compute. repeat split; reflexivity. Qed.

(** * The obligation on the table generated from the source *)
Local Open Scope string_scope.

(* Reviewed: the closure reads the variable before assigning it, and a retry is invisible all
   the same, for a reason the syntactic condition cannot see.
   - SetRegistryValue: registryKey is read as the parameter of `... WHERE registry_key=$1
     RETURNING registry_key` and overwritten by the returned column: the same value.
   - batchRemoveVolumeSectors: `lost` is assigned only when force is set and read afterwards
     in both cases; force is a parameter, so an attempt that does not assign it never did.
   Both are exercised by the transient-fault enumeration of the harness. *)
Definition benign_reads : list (string * list var) := [
  ("Store.SetRegistryValue", ["registryKey"]);
  ("Store.batchRemoveVolumeSectors", ["lost"]) ].

(* Findings (known_findings.d/C09.json, fixes/C09-retry-resets-closure-state.patch): closures
   of the repository as it is that accumulate into a variable of the enclosing function; a
   rolled-back attempt leaves its part behind (c09_retry_accumulating_refuted is their shape).
   The entries stop mattering once the patch is applied: the closures are closed then. *)
Definition known_accumulating : list (string * list var) := [ ].
(* empty since /repo a56b3e6 ("transaction closures start from a clean state when an attempt is
   retried"): before that fix it listed Store.MigrateSectors (index, migrated, failed),
   Store.RHP4CreditAccounts / RHP4AccountBalances (balances) and ten getters' named results *)
Local Close Scope string_scope.

Fixpoint exempt_vars (f : string) (l : list (string * list var)) : list var :=
  match l with
  | [] => []
  | (g, vs) :: t => if String.eqb f g then vs ++ exempt_vars f t else exempt_vars f t
  end.

Definition row_exempt (r : closure_row) : list var := exempt_vars (cl_func r) (benign_reads ++ known_accumulating).

Definition row_ok (r : closure_row) : bool := closed_except (row_exempt r) (cl_body r).

Definition closures_ok : bool := forallb row_ok closure_table.

Lemma closures_ok_holds : closures_ok = true.
Proof. vm_compute. reflexivity. Qed.

(* the exemption lists name nothing that does not exist *)
Definition exemptions_wellformed : bool :=
  forallb (fun e => existsb (fun r => String.eqb (cl_func r) (fst e)) closure_table) (benign_reads ++ known_accumulating).

Lemma exemptions_wellformed_holds : exemptions_wellformed = true.
Proof. vm_compute. reflexivity. Qed.

Lemma filter_all : forall (l : list var), filter (fun x => negb (vmem x [])) l = l.
Proof. induction l as [|a t IH]; [reflexivity|]. cbn [filter vmem existsb negb]. f_equal. exact IH. Qed.

Lemma closed_except_nil : forall c, closed_except [] c = closed_closure c.
Proof. intros c. unfold closed_except, closed_closure. rewrite filter_all. reflexivity. Qed.

(* every closure of the code base without an exemption: its retries are invisible *)
Lemma table_rows_transparent : forall r, In r closure_table -> row_exempt r = [] ->
  forall (V db : Type) (dflt : V) (I : interp V db) (fuel : nat) (d : db) (l0 : local V) budget pat,
  (List.length pat < budget)%nat ->
  t_res (retry dflt I fuel budget pat (cl_body r) d l0) = t_res (retry dflt I fuel budget [] (cl_body r) d l0) /\
  t_db (retry dflt I fuel budget pat (cl_body r) d l0) = t_db (retry dflt I fuel budget [] (cl_body r) d l0) /\
  forall x, t_loc (retry dflt I fuel budget pat (cl_body r) d l0) x = t_loc (retry dflt I fuel budget [] (cl_body r) d l0) x.
Proof.
  intros r Hin Hex V db dflt I fuel d l0 budget pat Hlen.
  pose proof closures_ok_holds as H. unfold closures_ok in H. rewrite forallb_forall in H.
  specialize (H r Hin). unfold row_ok in H. rewrite Hex, closed_except_nil in H.
  apply retry_transparent; assumption.
Qed.

(* how many closures the table has, how many are exempt *)
Definition n_closures : nat := List.length closure_table.
Definition n_exempt : nat := List.length (filter (fun r => match row_exempt r with [] => false | _ => true end) closure_table).

(* the attempt budget of Retry.v is the one of the code *)
Definition budget_ok : bool :=
  Nat.eqb go_budget (max_retry_attempts - retry_first_attempt) && String.eqb retry_text "database is locked".

Lemma budget_ok_holds : budget_ok = true.
Proof. vm_compute. reflexivity. Qed.
