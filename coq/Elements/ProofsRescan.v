(* Elements/ProofsRescan.v — ResetChainState followed by a rescan of the chain that had been processed:
   ResetChainState empties both element tables and the tip marker but keeps the contract rows with the
   status the chain gave them; the rescan then runs every block of that chain through
   UpdateChainState again, in any batch split.  On a lifecycle-conforming chain every formation meets
   a row that is already confirmed ("skipping rescan state transition": the element is stored, the
   status stays), every resolution meets a row that already has that resolution (skipped), nothing
   panics, and at the end every confirmed contract has its element again — the state satisfies the
   invariant of histories without reset, so every theorem about [lreach] goes on holding.
   ([lreach] is defined here; it now contains this reset-and-rescan step.) *)
From Coq Require Import Lia ZifyBool ZifyN.
From HostdBase Require Import Base.
From HostdElements Require Import Model Proofs ProofsTotal ProofsRev.

(** * Elements only appear on the apply side *)
Definition has_el (s : state) (c : N) : Prop := exists e, In e (celems s) /\ ce_cid e = c.

Lemma cset_keeps c0 x l e : In e l -> ce_cid e <> c0 -> In e (cset c0 x l).
Proof.
  intros H Hne. unfold cset. right. apply filter_In. split; [exact H|].
  destruct (ce_cid e =? c0)%N eqn:Q; [lia|reflexivity].
Qed.

Lemma apply_event_has b s e s' c : apply_event b s e = Ok s' -> has_el s c -> has_el s' c.
Proof.
  intros H [x [Hx Q]]. unfold apply_event in H. destruct e as [c0 rv|c0 o nw|c0 k].
  - destruct (alookup c0 (contracts s)) as [st|]; [|injection H as <-; exists x; auto].
    assert (has_el (set_c s (contracts s) (cset c0 {| ce_cid := c0; ce_basis := Some (b_idx b); ce_born := b_idx b; ce_rev := rv |} (celems s))) c) as G.
    { destruct (N.eq_dec c c0) as [->|Hne].
      - eexists. split; [left; reflexivity|reflexivity].
      - exists x. split; [|exact Q]. cbn [celems set_c]. apply cset_keeps; congruence. }
    destruct st; injection H as <-; exact G.
  - destruct (known s c0); injection H as <-; [|exists x; auto].
    exists (if (ce_cid x =? c0)%N then {| ce_cid := ce_cid x; ce_basis := ce_basis x; ce_born := ce_born x; ce_rev := nw |} else x).
    split; [cbn [celems set_c]; unfold crev; apply in_map_iff; exists x; split; [reflexivity|exact Hx]|].
    destruct (ce_cid x =? c0)%N; exact Q.
  - destruct (alookup c0 (contracts s)) as [st|]; [|injection H as <-; exists x; auto].
    destruct (cstatus_eqb st (kstatus k)); [injection H as <-; exists x; auto|].
    destruct st; try discriminate. injection H as <-. exists x. auto.
Qed.

Lemma apply_event_formed_has b s c rv s' : apply_event b s (EFormed c rv) = Ok s' -> known s c = true -> has_el s' c.
Proof.
  unfold apply_event, known. destruct (alookup c (contracts s)) as [st|]; [|discriminate].
  intros H _. destruct st; injection H as <-; (eexists; split; [left; reflexivity|reflexivity]).
Qed.

Lemma apply_event_known_fwd b s e s' c : apply_event b s e = Ok s' -> known s c = true -> known s' c = true.
Proof.
  unfold apply_event. destruct e as [c0 rv|c0 o nw|c0 k].
  - destruct (alookup c0 (contracts s)) as [st|]; [|intros [= <-]; auto].
    destruct st; intros [= <-]; unfold known at 2; cbn [contracts set_c]; auto; apply known_aset.
  - destruct (known s c0); intros [= <-]; auto.
  - destruct (alookup c0 (contracts s)) as [st|]; [|intros [= <-]; auto].
    destruct (cstatus_eqb st (kstatus k)); [intros [= <-]; auto|].
    destruct st; try discriminate. intros [= <-]. unfold known at 2. cbn [contracts set_c]. apply known_aset.
Qed.

Lemma apply_events_has b c : forall evs s s', fold_res (apply_event b) evs s = Ok s' -> has_el s c -> has_el s' c.
Proof.
  induction evs as [|e t IH]; intros s s'; cbn [fold_res]; [intros [= <-]; auto|].
  destruct (apply_event b s e) as [s1| |] eqn:E; cbn [bind]; try discriminate. intros H G.
  exact (IH s1 s' H (apply_event_has b s e s1 c E G)).
Qed.

Lemma apply_events_formed_has b c rv : forall evs s s', fold_res (apply_event b) evs s = Ok s' ->
  In (EFormed c rv) evs -> known s c = true -> has_el s' c.
Proof.
  induction evs as [|e t IH]; intros s s'; cbn [fold_res]; [intros _ []|].
  destruct (apply_event b s e) as [s1| |] eqn:E; cbn [bind]; try discriminate. intros H [->|Hin] K.
  - exact (apply_events_has b c t s1 s' H (apply_event_formed_has b s c rv s1 E K)).
  - exact (IH s1 s' H Hin (apply_event_known_fwd b s e s1 c E K)).
Qed.

Lemma cupd_apply_has b (s s' : state) c : celems s' = cupd_apply b (celems s) -> has_el s c -> has_el s' c.
Proof.
  intros E [x [Hx Q]]. exists (upd1_apply b x). split; [rewrite E; unfold cupd_apply; apply in_map; exact Hx|exact Q].
Qed.

(** * The chain decides: formed => confirmed, resolved => stays resolved *)
Lemma fold_next1_conf l : forall old, unconf old = false -> unconf (fold_left next1 l old) = false.
Proof.
  induction l as [|e t IH]; intros old H; cbn; [exact H|]. apply IH.
  destruct e as [c r|c o n|c [| |]]; cbn; auto.
Qed.

Lemma shape_formed l c rv old : shape2 l -> In (EFormed c rv) l -> fold_left next1 l old = SActive.
Proof.
  intros Sh Hin. destruct l as [|e1 [|e2 [|e3 t]]]; [destruct Hin| | |destruct e1, e2; cbn in Sh; contradiction].
  - destruct Hin as [->|[]]. reflexivity.
  - destruct e1 as [c1 r1|c1 o1 n1|c1 k1], e2 as [c2 r2|c2 o2 n2|c2 k2]; cbn in Sh; try contradiction.
    destruct Hin as [Q|[Q|[]]]; discriminate.
Qed.

Lemma shape_resolved l c k old : shape2 l -> In (EResolved c k) l -> fold_left next1 l old = kstatus k.
Proof.
  intros Sh Hin. destruct l as [|e1 [|e2 [|e3 t]]]; [destruct Hin| | |destruct e1, e2; cbn in Sh; contradiction].
  - destruct Hin as [->|[]]. reflexivity.
  - destruct e1 as [c1 r1|c1 o1 n1|c1 k1], e2 as [c2 r2|c2 o2 n2|c2 k2]; cbn in Sh; try contradiction.
    destruct Hin as [Q|[Q|[]]]; [discriminate|]. injection Q as -> ->. reflexivity.
Qed.

(* a contract whose formation is on the chain is confirmed there *)
Lemma cstat_formed : forall C c b, lifecycle_ok C -> In b C -> formed_in c b -> unconf (cstat C c) = false.
Proof.
  induction C as [|b' C IH]; intros c b LC Hb Hf; [destruct Hb|].
  cbn [lifecycle_ok] in LC. destruct LC as [LC' V]. cbn [cstat]. destruct Hb as [->|Hb].
  - destruct Hf as [rv Hf]. apply grouped_In_iff in Hf.
    rewrite (shape_formed _ c rv _ (proj1 (V c))); [reflexivity|]. apply evs_of_In. auto.
  - apply fold_next1_conf. exact (IH c b LC' Hb Hf).
Qed.

(* ... and conversely *)
Lemma cstat_conf_formed : forall C c, lifecycle_ok C -> unconf (cstat C c) = false -> exists b, In b C /\ formed_in c b.
Proof.
  induction C as [|b C IH]; intros c LC U; [discriminate|].
  cbn [lifecycle_ok] in LC. destruct LC as [LC' V]. cbn [cstat] in U.
  destruct (unconf (cstat C c)) eqn:U0.
  - exists b. split; [left; reflexivity|]. destruct (V c) as [_ [Ok _]].
    destruct (evs_of c (grouped (b_events b))) as [|e t] eqn:El; [cbn in U; congruence|].
    assert (In e (evs_of c (grouped (b_events b)))) as He by (rewrite El; left; reflexivity).
    apply evs_of_In in He. destruct He as [He Ec]. cbn in Ok. destruct Ok as [O1 _].
    destruct e as [c0 rv|c0 o n|c0 k]; cbn in O1, Ec; [|rewrite O1 in U0; discriminate|rewrite O1 in U0; discriminate].
    subst c0. exists rv. apply grouped_In. exact He.
  - destruct (IH c LC' U0) as [b' [Hb' Hf]]. exists b'. split; [right; exact Hb'|exact Hf].
Qed.

(* once resolved, a contract has no further change on a lifecycle-conforming chain *)
Lemma resolved_stays k c : forall X Y, lifecycle_ok (X ++ Y) -> cstat Y c = kstatus k -> cstat (X ++ Y) c = kstatus k.
Proof.
  induction X as [|x X IH]; intros Y LC H; [exact H|].
  cbn [app lifecycle_ok] in LC. destruct LC as [LC' V]. cbn [app cstat].
  rewrite (IH Y LC' H). destruct (V c) as [_ [Ok _]]. rewrite (IH Y LC' H) in Ok.
  destruct (evs_of c (grouped (b_events x))) as [|e t]; [reflexivity|].
  cbn in Ok. destruct Ok as [O1 _]. destruct e, k; cbn in O1; discriminate.
Qed.

(** * One block of the rescan: every change is skipped or status-free *)
Definition skip_ok (st : cstatus) (e : event) : Prop :=
  match e with
  | EFormed _ _ => unconf st = false
  | ERevised _ _ _ => True
  | EResolved _ k => st = kstatus k
  end.

Lemma apply_event_skip b s e : (forall st, alookup (ev_cid e) (contracts s) = Some st -> skip_ok st e) ->
  exists s', apply_event b s e = Ok s' /\ contracts s' = contracts s /\ negs s' = negs s /\ rbuf s' = rbuf s.
Proof.
  intros V. unfold apply_event. destruct e as [c0 rv|c0 o nw|c0 k]; cbn [ev_cid] in V.
  - destruct (alookup c0 (contracts s)) as [st|]; [|exists s; auto].
    specialize (V st eq_refl). cbn in V. destruct st; try discriminate; eexists; (split; [reflexivity|auto]).
  - destruct (known s c0); eexists; (split; [reflexivity|auto]).
  - destruct (alookup c0 (contracts s)) as [st|]; [|exists s; auto].
    rewrite (V st eq_refl). assert (cstatus_eqb (kstatus k) (kstatus k) = true) as F by (destruct k; reflexivity).
    rewrite F. exists s. auto.
Qed.

Lemma apply_events_skip b : forall evs s,
  (forall e, In e evs -> forall st, alookup (ev_cid e) (contracts s) = Some st -> skip_ok st e) ->
  exists s', fold_res (apply_event b) evs s = Ok s' /\ contracts s' = contracts s /\ negs s' = negs s /\ rbuf s' = rbuf s.
Proof.
  induction evs as [|e t IH]; intros s V; cbn [fold_res]; [exists s; auto|].
  destruct (apply_event_skip b s e (V e (or_introl eq_refl))) as [s1 [E1 [A [B D]]]].
  rewrite E1. cbn [bind]. destruct (IH s1) as [s' [E' [A' [B' D']]]].
  { intros e' He' st Hst. rewrite A in Hst. exact (V e' (or_intror He') st Hst). }
  exists s'. split; [exact E'|]. repeat split; congruence.
Qed.

Definition ecomplete_on (s : state) (P : list block) : Prop :=
  forall c, known s c = true -> (exists b, In b P /\ formed_in c b) -> has_el s c.

(* the state in the middle of a rescan: P = the part of the chain Cf processed again so far; the rows
   carry the statuses of the WHOLE chain Cf *)
Definition scan_inv (s : state) (P Cf : list block) : Prop :=
  linked Cf /\ lifecycle_ok Cf /\ el_inv s P /\ stat_inv s Cf /\ elems_known s /\ ecomplete_on s P /\ rev_inv s P.

Lemma scan_apply s P Cf X b : Cf = X ++ b :: P -> scan_inv s P Cf ->
  exists s', apply_block s b = Ok s' /\ scan_inv s' (b :: P) Cf /\ forall c, known s' c = known s c.
Proof.
  intros EC [L [LC [EI [SI [EK [EO RV]]]]]].
  assert (linked (b :: P)) as Lb by (rewrite EC in L; exact (linked_app X _ L)).
  assert (lifecycle_ok (b :: P)) as LCb by (rewrite EC in LC; exact (lifecycle_app X _ LC)).
  pose proof LCb as LCb'. cbn [lifecycle_ok] in LCb'. destruct LCb' as [_ V].
  set (evs := grouped (b_events b)) in *.
  assert (In b Cf) as Hb by (rewrite EC; apply in_or_app; right; left; reflexivity).
  destruct (apply_events_skip b evs s) as [s1 [E1 [A [B D]]]].
  { intros e He st Hst. pose proof (SI _ _ Hst) as R.
    assert (In e (evs_of (ev_cid e) evs)) as Hin by (apply evs_of_In; auto).
    destruct e as [c rv|c o n|c k]; cbn [ev_cid skip_ok] in *; [|exact I|].
    - assert (unconf (cstat Cf c) = false) as U.
      { apply (cstat_formed Cf c b LC Hb). exists rv. apply grouped_In. exact He. }
      rewrite (stat_rel_conf _ _ U R). exact U.
    - assert (cstat Cf c = kstatus k) as Q.
      { rewrite EC. apply resolved_stays; [rewrite <- EC; exact LC|]. cbn [cstat]. fold evs.
        exact (shape_resolved _ c k _ (proj1 (V c)) Hin). }
      rewrite Q in R. apply (stat_rel_conf _ _) in R; [exact R|destruct k; reflexivity]. }
  assert (exists s', apply_block s b = Ok s') as [s' Ha].
  { unfold apply_block, apply_block_g. fold evs. rewrite E1. cbn [bind]. eexists. reflexivity. }
  destruct (apply_block_shape s b s' Ha) as [s1' [E1' [Hc [_ [_ Hk]]]]]. fold evs in E1'.
  rewrite E1 in E1'. injection E1' as <-.
  assert (forall c, known s' c = known s c) as K.
  { intros c. rewrite (known_reject s1 s' _ _ _ Hk c). unfold known. rewrite A. reflexivity. }
  exists s'. split; [exact Ha|]. split; [|exact K].
  split; [exact L|]. split; [exact LC|]. split; [exact (el_inv_apply s P b s' EI Lb Ha)|]. split; [|split; [|split; [|exact (rev_inv_apply s P b s' EK RV Ha)]]].
  - intros c st. rewrite Hk, alookup_reject, A.
    destruct (alookup c (contracts s)) as [st0|] eqn:L0; [|discriminate]. cbn. intros [= <-].
    apply stat_rel_reject. exact (SI _ _ L0).
  - pose proof (apply_events_known b _ s s1 EK E1) as EK1.
    intros x Hx. rewrite Hc in Hx. unfold cupd_apply in Hx. apply in_map_iff in Hx.
    destruct Hx as [x0 [<- Hx0]]. cbn [ce_cid upd1_apply]. rewrite K. specialize (EK1 x0 Hx0).
    unfold known in *. rewrite <- A. exact EK1.
  - intros c Kc [b' [[<-|Hb'] Hf]]; apply (cupd_apply_has b s1 s' c Hc); rewrite K in Kc.
    + destruct Hf as [rv Hf]. apply (apply_events_formed_has b c rv evs s s1 E1); [apply grouped_In_iff; exact Hf|exact Kc].
    + apply (apply_events_has b c evs s s1 E1). apply EO; [exact Kc|]. exists b'. auto.
Qed.

Lemma scan_applies : forall bs s P Cf X, Cf = X ++ rev bs ++ P -> scan_inv s P Cf ->
  exists s', fold_res apply_block bs s = Ok s' /\ scan_inv s' (rev bs ++ P) Cf /\ forall c, known s' c = known s c.
Proof.
  induction bs as [|b t IH]; intros s P Cf X EC SV; cbn [fold_res rev app].
  - exists s. auto.
  - cbn [rev] in EC. rewrite <- app_assoc in EC. cbn [app] in EC.
    assert (Cf = (X ++ rev t) ++ b :: P) as EC' by (rewrite <- app_assoc; exact EC).
    destruct (scan_apply s P Cf _ b EC' SV) as [s1 [E1 [SV1 K1]]]. rewrite E1. cbn [bind].
    destruct (IH s1 (b :: P) Cf X EC SV1) as [s' [E' [SV' K']]].
    exists s'. split; [exact E'|]. rewrite <- app_assoc. cbn [app]. split; [exact SV'|].
    intros c. rewrite K'. apply K1.
Qed.

Lemma scan_inv_ext s s' P Cf : scan_inv s P Cf -> contracts s' = contracts s -> celems s' = celems s ->
  ielems s' = ielems s -> scan_inv s' P Cf.
Proof.
  unfold scan_inv, stat_inv, elems_known, ecomplete_on, has_el, known, el_inv, rev_inv.
  intros [A [B [D [E [F [G H]]]]]] -> -> ->. tauto.
Qed.

Lemma scan_batch s P Cf X bs : Cf = X ++ rev bs ++ P -> scan_inv s P Cf ->
  exists s', batch s [] bs = Ok s' /\ scan_inv s' (rev bs ++ P) Cf /\ forall c, known s' c = known s c.
Proof.
  intros EC SV. destruct (scan_applies bs s P Cf X EC SV) as [s2 [E2 [SV2 K2]]].
  assert (fold_res revert_block [] s = Ok s) as E0 by reflexivity.
  unfold batch, batch_g. fold revert_block apply_block. destruct bs as [|b bs'].
  - cbn in E2. injection E2 as <-. exists s. auto.
  - rewrite E0. cbn [bind]. rewrite E2. cbn [bind]. eexists. split; [reflexivity|]. split.
    + apply (scan_inv_ext s2); auto.
    + intros c. rewrite <- K2. reflexivity.
Qed.

(** * The rescan: the processed chain again, bottom up, in any batch split *)
Fixpoint run_applies (s : state) (bss : list (list block)) : res state :=
  match bss with
  | [] => Ok s
  | bs :: t => do s1 <- batch s [] bs; run_applies s1 t
  end.

Lemma scan_run : forall bss s P Cf X, Cf = X ++ rev (concat bss) ++ P -> scan_inv s P Cf ->
  exists s', run_applies s bss = Ok s' /\ scan_inv s' (rev (concat bss) ++ P) Cf /\ forall c, known s' c = known s c.
Proof.
  induction bss as [|bs t IH]; intros s P Cf X EC SV; cbn [run_applies concat].
  - exists s. auto.
  - cbn [concat] in EC. rewrite rev_app_distr, <- app_assoc in EC.
    assert (Cf = (X ++ rev (concat t)) ++ rev bs ++ P) as EC' by (rewrite <- app_assoc; exact EC).
    destruct (scan_batch s P Cf _ bs EC' SV) as [s1 [E1 [SV1 K1]]]. rewrite E1. cbn [bind].
    destruct (IH s1 (rev bs ++ P) Cf X EC SV1) as [s' [E' [SV' K']]].
    exists s'. split; [exact E'|]. rewrite rev_app_distr, <- app_assoc. split; [exact SV'|].
    intros c. rewrite K'. apply K1.
Qed.

(* from any state that satisfies the lifecycle invariant for the chain C: reset, then C again *)
Lemma rescan_scan s C bss : tinv s C -> concat bss = rev C ->
  exists s', run_applies (reset s) bss = Ok s' /\ tinv s' C /\ ecomplete_on s' C /\ (forall c, known s' c = known s c) /\
    rev_inv s' C.
Proof.
  intros [L [LC [_ [SI _]]]] EC.
  assert (rev (concat bss) = C) as ER by (rewrite EC; apply rev_involutive).
  destruct (scan_run bss (reset s) [] C []) as [s' [E' [SV' K']]].
  { rewrite ER, app_nil_r. reflexivity. }
  { split; [exact L|]. split; [exact LC|]. split; [cbn; auto|]. split; [exact SI|]. split; [|split].
    - intros x [].
    - intros c _ [b [[] _]].
    - intros x []. }
  rewrite ER, app_nil_r in SV'. destruct SV' as [L' [LC' [EI' [SI' [EK' [EO' RV']]]]]].
  exists s'. split; [exact E'|]. split; [repeat split; assumption|]. split; [exact EO'|]. split; [exact K'|exact RV'].
Qed.

(** * Histories that obey the contract lifecycle
   additions and renewals of contracts the chain has not mentioned yet, well-formed batches whose
   resulting chain is lifecycle-conforming, changes of the reject buffer, and ResetChainState followed
   by the rescan of the processed chain.  (A reset followed by anything else — a different chain, a
   reorg below the rescan position — is outside: the rows keep the statuses of the old chain, see
   the C01 known finding rescan-onto-different-chain-keeps-old-chain-state.) *)
Inductive lreach : state -> list block -> Prop :=
| lreach_init : lreach init []
| lreach_config s C rb : lreach s C -> lreach (fst (step s (Configure rb))) C
| lreach_add s C c ng : lreach s C -> ~ mentioned c C -> lreach (fst (step s (AddContract c ng))) C
| lreach_batch s C rs bs s' :
    lreach s C -> wf_batch C rs bs -> lifecycle_ok (chain_after C rs bs) -> batch s rs bs = Ok s' ->
    lreach s' (chain_after C rs bs)
(* a renewal negotiated at RPC time: the new contract is not on the chain yet *)
| lreach_renew s C c r ng : lreach s C -> ~ mentioned r C -> lreach (fst (step s (Renew c r ng))) C
| lreach_rescan s C bss s' :
    lreach s C -> concat bss = rev C -> run_applies (reset s) bss = Ok s' -> lreach s' C.

Lemma lreach_tinv s C : lreach s C -> tinv s C.
Proof.
  induction 1 as [|s C rb R IH|s C c ng R IH Hm|s C rs bs s' R IH F LC H|s C c r ng R IH Hm|s C bss s' R IH EC H].
  - repeat split; cbn; auto; intros; try discriminate; try contradiction. intros x [].
  - unfold step; cbn [step_g fst]. exact (tinv_ext s _ C IH eq_refl eq_refl eq_refl).
  - unfold step; cbn [step_g]. destruct (known s c) eqn:K; cbn [fst]; [exact IH|].
    destruct IH as [L [LCy [EI [SI EK]]]]. repeat split; auto.
    + intros c' st. cbn [contracts]. destruct (N.eq_dec c' c) as [->|Hne].
      * rewrite alookup_aset_same. intros [= <-]. left. symmetry. apply cstat_unmentioned. exact Hm.
      * rewrite alookup_aset_other by exact Hne. apply SI.
    + intros x Hx. cbn [celems] in Hx. unfold known. cbn [contracts]. apply known_aset. apply EK. exact Hx.
  - destruct (batch_total s C rs bs IH F LC) as [s2 [E2 T2]]. rewrite H in E2. injection E2 as ->. exact T2.
  - unfold step; cbn [step_g]. unfold renew. destruct (known s c && negb (known s r)) eqn:K; cbn [fst]; [|exact IH].
    destruct IH as [L [LCy [EI [SI EK]]]]. repeat split; auto.
    + intros c' st. cbn [contracts]. destruct (N.eq_dec c' r) as [->|Hne].
      * rewrite alookup_aset_same. intros [= <-]. left. symmetry. apply cstat_unmentioned. exact Hm.
      * rewrite alookup_aset_other by exact Hne. apply SI.
    + intros x Hx. cbn [celems] in Hx. unfold known. cbn [contracts]. apply known_aset. apply EK. exact Hx.
  - destruct (rescan_scan s C bss IH EC) as [s2 [E2 [T2 _]]]. rewrite H in E2. injection E2 as ->. exact T2.
Qed.

(* every well-formed, lifecycle-conforming batch succeeds: no error, no panic *)
Theorem batch_never_fails s C rs bs : lreach s C -> wf_batch C rs bs -> lifecycle_ok (chain_after C rs bs) ->
  exists s', batch s rs bs = Ok s'.
Proof.
  intros R F LC. destruct (batch_total s C rs bs (lreach_tinv s C R) F LC) as [s' [E _]]. exists s'. exact E.
Qed.

(* ... and so does every batch of a rescan of the processed chain after ResetChainState; the state
   it ends in is again a lifecycle history of that chain, with the same contract rows *)
Theorem rescan_never_fails s C bss : lreach s C -> concat bss = rev C ->
  exists s', run_applies (reset s) bss = Ok s' /\ lreach s' C /\ forall c, known s' c = known s c.
Proof.
  intros R EC. destruct (rescan_scan s C bss (lreach_tinv s C R) EC) as [s' [E [_ [_ [K _]]]]].
  exists s'. split; [exact E|]. split; [exact (lreach_rescan s C bss s' R EC E)|exact K].
Qed.

(* the rescan as a history of [reach] *)
Lemma run_applies_reach : forall bss s P hm s', reach s P hm -> linked (rev (concat bss) ++ P) ->
  run_applies s bss = Ok s' -> exists hm', reach s' (rev (concat bss) ++ P) hm'.
Proof.
  induction bss as [|bs t IH]; intros s P hm s' R L; cbn [run_applies concat].
  - intros [= <-]. exists hm. exact R.
  - destruct (batch s [] bs) as [s1| |] eqn:E1; cbn [bind]; try discriminate. intros H.
    cbn [concat] in L. rewrite rev_app_distr, <- app_assoc in L.
    assert (wf_batch P [] bs) as F.
    { split; [reflexivity|]. unfold chain_after. cbn [length skipn]. exact (linked_app _ _ L). }
    pose proof (reach_batch s P hm [] bs s1 R F E1) as R1. unfold chain_after in R1. cbn [length skipn] in R1.
    destruct (IH s1 (rev bs ++ P) _ s' R1 L H) as [hm' R']. exists hm'.
    rewrite rev_app_distr, <- app_assoc. exact R'.
Qed.

(* lifecycle histories are histories: everything proved for [reach] applies *)
Lemma lreach_reach s C : lreach s C -> exists hm, reach s C hm.
Proof.
  induction 1 as [|s C rb R [hm IH]|s C c ng R [hm IH] Hm|s C rs bs s' R [hm IH] F LC H|s C c r ng R [hm IH] Hm|s C bss s' R [hm IH] EC H].
  - exists 0%N. constructor.
  - exists hm. apply reach_config. exact IH.
  - exists hm. apply reach_add. exact IH.
  - exists (hmax_after hm bs). exact (reach_batch s C hm rs bs s' IH F H).
  - exists hm. apply reach_renew. exact IH.
  - assert (rev (concat bss) = C) as ER by (rewrite EC; apply rev_involutive).
    destruct (run_applies_reach bss (reset s) [] 0%N s' (reach_reset s C hm IH)) as [hm' R'].
    + rewrite ER, app_nil_r. exact (proj1 (reach_rinv s C hm IH)).
    + exact H.
    + rewrite ER, app_nil_r in R'. exists hm'. exact R'.
Qed.

(* the contract a stored element carries is the contract of the processed chain: its revision number is
   the chain's confirmed revision number — after a block that revises and resolves the contract the
   revised one, after the revert of that block the one from before the block *)
Lemma lreach_rev s C : lreach s C -> rev_inv s C.
Proof.
  induction 1 as [|s C rb R IH|s C c ng R IH Hm|s C rs bs s' R IH F LC H|s C c r ng R IH Hm|s C bss s' R IH EC H].
  - intros x [].
  - exact IH.
  - unfold step; cbn [step_g]. destruct (known s c); cbn [fst]; exact IH.
  - exact (rev_inv_batch s C rs bs s' (lreach_tinv s C R) IH F LC H).
  - unfold step; cbn [step_g]. unfold renew. destruct (known s c && negb (known s r)); cbn [fst]; exact IH.
  - destruct (rescan_scan s C bss (lreach_tinv s C R) EC) as [s2 [E2 [_ [_ [_ RV]]]]].
    rewrite H in E2. injection E2 as ->. exact RV.
Qed.
