(* Elements/Proofs.v — lemmas behind Props_C17.v: after every batch of every history all stored
   contract and chain-index elements carry proofs for the processed tip; chain-index elements are
   those of best-chain blocks inside the retention window; elements of contracts whose formation
   is not on the processed chain are gone. *)
From Coq Require Import Lia ZifyBool ZifyN.
From HostdBase Require Import Base.
From HostdElements Require Import Model.

(** * Chains *)
(* the processed best chain, head = tip: every block names the block below it as its parent,
   heights are consecutive, block ids are unique *)
Fixpoint linked (C : list block) : Prop :=
  match C with
  | [] => True
  | b :: C' =>
      linked C' /\ idx_eqb (b_parent b) (b_idx b) = false /\
      (forall c, In c C' -> ib (b_idx c) <> ib (b_idx b)) /\
      match C' with
      | [] => True
      | p :: _ => b_parent b = b_idx p /\ ih (b_idx b) = (ih (b_idx p) + 1)%N
      end
  end.

Definition chain_after (C rs bs : list block) : list block := rev bs ++ skipn (length rs) C.

(* a batch reverts the top blocks of the processed chain (with their own content) and the result is linked *)
Definition wf_batch (C rs bs : list block) : Prop :=
  firstn (length rs) C = rs /\ linked (chain_after C rs bs).

Definition hmax_after (hmax : N) (bs : list block) : N :=
  fold_left (fun m b => N.max m (ih (b_idx b))) bs hmax.

(* reachable states with the processed chain since the last reset and the highest height
   processed since then (ghost) *)
Inductive reach : state -> list block -> N -> Prop :=
| reach_init : reach init [] 0
| reach_config s C hm rb : reach s C hm -> reach (fst (step s (Configure rb))) C hm
| reach_add s C hm c ng : reach s C hm -> reach (fst (step s (AddContract c ng))) C hm
| reach_batch s C hm rs bs s' :
    reach s C hm -> wf_batch C rs bs -> batch s rs bs = Ok s' ->
    reach s' (chain_after C rs bs) (hmax_after hm bs)
| reach_reset s C hm : reach s C hm -> reach (reset s) [] 0
| reach_renew s C hm c r ng : reach s C hm -> reach (fst (step s (Renew c r ng))) C hm.

Lemma idx_eqb_eq a b : idx_eqb a b = true <-> a = b.
Proof.
  unfold idx_eqb. rewrite Bool.andb_true_iff, !N.eqb_eq. destruct a, b; cbn.
  split; [intros [-> ->]; reflexivity|intros [= -> ->]; auto].
Qed.
Lemma idx_eqb_refl a : idx_eqb a a = true.
Proof. apply idx_eqb_eq. reflexivity. Qed.
Lemma idx_eqb_neq a b : idx_eqb a b = false <-> a <> b.
Proof.
  split; intros H.
  - intros E. apply idx_eqb_eq in E. congruence.
  - destruct (idx_eqb a b) eqn:Q; [apply idx_eqb_eq in Q; contradiction|reflexivity].
Qed.

Lemma linked_app X : forall Y, linked (X ++ Y) -> linked Y.
Proof. induction X as [|b X IH]; intros Y H; cbn in H; [exact H|]. apply IH. tauto. Qed.

Lemma linked_heights b C : linked (b :: C) -> forall c, In c C -> (ih (b_idx c) < ih (b_idx b))%N.
Proof.
  revert b. induction C as [|p C IH]; intros b H c Hc; [destruct Hc|].
  cbn [linked] in H. destruct H as [Hp [_ [_ [_ Hh]]]].
  destruct Hc as [->|Hc]; [lia|]. specialize (IH p Hp c Hc). lia.
Qed.

(** * The element invariant *)
Definition formed_in (c : N) (b : block) : Prop := exists rev, In (EFormed c rev) (b_events b).

Definition cel_ok (C : list block) (t : idx) (e : celem) : Prop :=
  ce_basis e = Some t /\ exists c, In c C /\ ce_born e = b_idx c /\ formed_in (ce_cid e) c.
Definition iel_ok (C : list block) (t : idx) (e : ielem) : Prop :=
  ie_basis e = Some t /\ exists c, In c C /\ ie_idx e = b_idx c.

Definition el_inv (s : state) (C : list block) : Prop :=
  match C with
  | [] => celems s = [] /\ ielems s = []
  | b :: _ => (forall e, In e (celems s) -> cel_ok C (b_idx b) e) /\
              (forall e, In e (ielems s) -> iel_ok C (b_idx b) e)
  end.

(** * Events only touch contract rows; their effect on elements *)
Lemma grouped_In l e : In e (grouped l) -> In e l.
Proof.
  unfold grouped. rewrite !in_app_iff, !filter_In. tauto.
Qed.

(* what an apply-side event does to the element table: every row afterwards is an old row with
   the same proof fields, or the row of a formation of this block *)
Definition from_old (l : list celem) (e' : celem) : Prop :=
  exists e, In e l /\ ce_cid e' = ce_cid e /\ ce_basis e' = ce_basis e /\ ce_born e' = ce_born e.
Definition fresh_of (b : block) (e' : celem) : Prop :=
  ce_basis e' = Some (b_idx b) /\ ce_born e' = b_idx b /\ formed_in (ce_cid e') b.

Lemma from_old_refl l e : In e l -> from_old l e.
Proof. intros H. exists e. auto. Qed.

Lemma crev_from_old c r l e' : In e' (crev c r l) -> from_old l e'.
Proof.
  unfold crev. rewrite in_map_iff. intros [e [E He]]. exists e. split; [exact He|].
  destruct (ce_cid e =? c)%N; subst e'; cbn; auto.
Qed.
Lemma cdel_from_old c l e' : In e' (cdel c l) -> from_old l e'.
Proof. unfold cdel. rewrite filter_In. intros [H _]. apply from_old_refl. exact H. Qed.

Lemma apply_event_spec b evs s e s' : (forall x, In x (e :: evs) -> In x (b_events b)) ->
  apply_event b s e = Ok s' ->
  ielems s' = ielems s /\ tip s' = tip s /\
  forall e', In e' (celems s') -> from_old (celems s) e' \/ fresh_of b e'.
Proof.
  intros Hsub. unfold apply_event. destruct e as [c rv|c o nw|c k].
  - destruct (alookup c (contracts s)) as [st|]; [|intros [= <-]; repeat split; auto; intros; left; apply from_old_refl; auto].
    assert (forall cs' e', In e' (celems (set_c s cs' (cset c {| ce_cid := c; ce_basis := Some (b_idx b); ce_born := b_idx b; ce_rev := rv |} (celems s)))) ->
              from_old (celems s) e' \/ fresh_of b e') as G.
    { intros cs' e'. cbn. intros [<-|H].
      - right. repeat split; cbn; auto. exists rv. apply Hsub. left. reflexivity.
      - left. apply filter_In in H. apply from_old_refl. tauto. }
    destruct st; intros [= <-]; (split; [reflexivity|split; [reflexivity|apply G]]).
  - destruct (known s c); intros [= <-]; repeat split; auto.
    + cbn. intros e' H. left. eapply crev_from_old. exact H.
    + intros e' H. left. apply from_old_refl. exact H.
  - destruct (alookup c (contracts s)) as [st|]; [|intros [= <-]; repeat split; auto; intros; left; apply from_old_refl; auto].
    destruct (cstatus_eqb st (kstatus k)); [intros [= <-]; repeat split; auto; intros; left; apply from_old_refl; auto|].
    destruct st; try discriminate. intros [= <-]. repeat split; auto. cbn. intros; left; apply from_old_refl; auto.
Qed.

Lemma from_old_trans l1 l2 e' : (forall x, In x l2 -> from_old l1 x) -> from_old l2 e' -> from_old l1 e'.
Proof.
  intros H [e [He [A [B D]]]]. destruct (H e He) as [e0 [He0 [A0 [B0 D0]]]].
  exists e0. repeat split; congruence.
Qed.

Lemma apply_events_spec b : forall evs s s', (forall x, In x evs -> In x (b_events b)) ->
  fold_res (apply_event b) evs s = Ok s' ->
  ielems s' = ielems s /\ tip s' = tip s /\
  forall e', In e' (celems s') -> from_old (celems s) e' \/ fresh_of b e'.
Proof.
  induction evs as [|e t IH]; intros s s' Hsub; cbn [fold_res].
  - intros [= <-]. repeat split; auto. intros e' H. left. apply from_old_refl. exact H.
  - destruct (apply_event b s e) as [s1| |] eqn:E; cbn [bind]; try discriminate. intros H.
    destruct (apply_event_spec b t s e s1 Hsub E) as [I1 [T1 C1]].
    destruct (IH s1 s' (fun x Hx => Hsub x (or_intror Hx)) H) as [I2 [T2 C2]].
    split; [congruence|]. split; [congruence|].
    intros e' He'. destruct (C2 e' He') as [[e1 [He1 [A [B D]]]]|F]; [|right; exact F].
    destruct (C1 e1 He1) as [[e0 [He0 [A0 [B0 D0]]]]|[F1 [F2 F3]]].
    + left. exists e0. repeat split; congruence.
    + right. unfold fresh_of. rewrite B, D, A. auto.
Qed.

Lemma revert_event_spec s e s' : revert_event s e = Ok s' ->
  ielems s' = ielems s /\ tip s' = tip s /\ forall e', In e' (celems s') -> from_old (celems s) e'.
Proof.
  unfold revert_event. destruct e as [c rv|c o nw|c k].
  - destruct (alookup c (contracts s)) as [st|]; [|intros [= <-]; repeat split; auto; intros; apply from_old_refl; auto].
    destruct st; try discriminate. intros [= <-]. repeat split; auto. cbn. intros e' H. eapply cdel_from_old. exact H.
  - destruct (known s c); intros [= <-]; repeat split; auto.
    + cbn. intros e' H. eapply crev_from_old. exact H.
    + intros e' H. apply from_old_refl. exact H.
  - destruct (alookup c (contracts s)) as [st|]; [|intros [= <-]; repeat split; auto; intros; apply from_old_refl; auto].
    destruct (cstatus_eqb st (kstatus k)); [|discriminate]. intros [= <-]. repeat split; auto. cbn. intros; apply from_old_refl; auto.
Qed.

Lemma revert_events_spec : forall evs s s', fold_res revert_event evs s = Ok s' ->
  ielems s' = ielems s /\ tip s' = tip s /\ forall e', In e' (celems s') -> from_old (celems s) e'.
Proof.
  induction evs as [|e t IH]; intros s s'; cbn [fold_res].
  - intros [= <-]. repeat split; auto. intros e' H. apply from_old_refl. exact H.
  - destruct (revert_event s e) as [s1| |] eqn:E; cbn [bind]; try discriminate. intros H.
    destruct (revert_event_spec s e s1 E) as [I1 [T1 C1]].
    destruct (IH s1 s' H) as [I2 [T2 C2]].
    split; [congruence|]. split; [congruence|].
    intros e' He'. eapply from_old_trans; [exact C1|]. apply C2. exact He'.
Qed.

(** * The proof updaters *)
Lemma cupd_revert_spec b : forall l l', cupd_revert b l = Ok l' ->
  forall e', In e' l' -> exists e, In e l /\ ce_cid e' = ce_cid e /\ ce_born e' = ce_born e /\
    ce_born e <> b_idx b /\
    ce_basis e' = match ce_basis e with
                  | Some x => if idx_eqb x (b_idx b) then Some (b_parent b) else None
                  | None => None
                  end.
Proof.
  induction l as [|e t IH]; intros l'; cbn [cupd_revert].
  - intros [= <-] e' [].
  - unfold upd_revert at 1. destruct (idx_eqb (ce_born e) (b_idx b)) eqn:Q; cbn [bind]; [discriminate|].
    assert (exists x, (match ce_basis e with
                       | Some x => if idx_eqb x (b_idx b) then Ok (Some (b_parent b)) else Ok None
                       | None => Ok None end) = Ok x /\
                      x = (match ce_basis e with
                          | Some x => if idx_eqb x (b_idx b) then Some (b_parent b) else None
                          | None => None end)) as [x [Ex Hx]].
    { destruct (ce_basis e) as [y|]; [destruct (idx_eqb y (b_idx b))|]; eexists; split; reflexivity. }
    rewrite Ex. cbn [bind]. destruct (cupd_revert b t) as [t'| |] eqn:Et; cbn [bind]; try discriminate.
    intros [= <-] e' [<-|He'].
    + exists e. cbn. repeat split; auto. apply idx_eqb_neq. exact Q.
    + destruct (IH t' eq_refl e' He') as [e0 [H0 R]]. exists e0. split; [right; exact H0|exact R].
Qed.

Lemma iupd_revert_spec b : forall l l', iupd_revert b l = Ok l' ->
  forall e', In e' l' -> exists e, In e l /\ ie_idx e' = ie_idx e /\ ie_idx e <> b_idx b /\
    ie_basis e' = match ie_basis e with
                  | Some x => if idx_eqb x (b_idx b) then Some (b_parent b) else None
                  | None => None
                  end.
Proof.
  induction l as [|e t IH]; intros l'; cbn [iupd_revert].
  - intros [= <-] e' [].
  - unfold upd_revert at 1. destruct (idx_eqb (ie_idx e) (b_idx b)) eqn:Q; cbn [bind]; [discriminate|].
    assert (exists x, (match ie_basis e with
                       | Some x => if idx_eqb x (b_idx b) then Ok (Some (b_parent b)) else Ok None
                       | None => Ok None end) = Ok x /\
                      x = (match ie_basis e with
                          | Some x => if idx_eqb x (b_idx b) then Some (b_parent b) else None
                          | None => None end)) as [x [Ex Hx]].
    { destruct (ie_basis e) as [y|]; [destruct (idx_eqb y (b_idx b))|]; eexists; split; reflexivity. }
    rewrite Ex. cbn [bind]. destruct (iupd_revert b t) as [t'| |] eqn:Et; cbn [bind]; try discriminate.
    intros [= <-] e' [<-|He'].
    + exists e. cbn. repeat split; auto. apply idx_eqb_neq. exact Q.
    + destruct (IH t' eq_refl e' He') as [e0 [H0 R]]. exists e0. split; [right; exact H0|exact R].
Qed.

(** * The refresh of the code touches every row *)
Lemma row_sel_all cs rn e : row_sel sel_all cs rn e = true.
Proof. unfold row_sel, sel_all. destruct (alookup (ce_cid e) cs); reflexivity. Qed.

Lemma crefresh_apply_full sel cs rn b l : (forall e, In e l -> row_sel sel cs rn e = true) ->
  crefresh_apply sel cs rn b l = cupd_apply b l.
Proof.
  intros H. unfold crefresh_apply, cupd_apply. apply map_ext_in. intros e He. rewrite (H e He). reflexivity.
Qed.

Lemma crefresh_revert_full sel cs rn b : forall l, (forall e, In e l -> row_sel sel cs rn e = true) ->
  crefresh_revert sel cs rn b l = cupd_revert b l.
Proof.
  induction l as [|e t IH]; intros H; cbn [crefresh_revert cupd_revert]; [reflexivity|].
  rewrite (H e (or_introl eq_refl)), IH; [reflexivity|]. intros x Hx. apply H. right. exact Hx.
Qed.

(** * One block *)
Definition new_iel (b : block) : ielem := {| ie_idx := b_idx b; ie_basis := Some (b_idx b) |}.
Definition expire (h : N) (l : list ielem) : list ielem :=
  if (chainIndexBuffer <? h)%N then filter (fun e => negb (ih (ie_idx e) <=? h - chainIndexBuffer)%N) l else l.

Lemma apply_block_shape s b s' : apply_block s b = Ok s' ->
  exists s1, fold_res (apply_event b) (grouped (b_events b)) s = Ok s1 /\
    celems s' = cupd_apply b (celems s1) /\
    ielems s' = expire (ih (b_idx b)) (iset (new_iel b) (iupd_apply b (ielems s1))) /\
    tip s' = tip s1 /\ contracts s' = reject_rows (rbuf s1) (ih (b_idx b)) (negs s1) (contracts s1).
Proof.
  unfold apply_block, apply_block_g. destruct (fold_res (apply_event b) (grouped (b_events b)) s) as [s1| |]; cbn [bind]; try discriminate.
  rewrite (crefresh_apply_full sel_all _ _ b (celems s1) (fun e _ => row_sel_all _ _ e)).
  intros [= <-]. exists s1. cbn. unfold expire, new_iel. repeat split; reflexivity.
Qed.

Lemma revert_block_shape s b s' : revert_block s b = Ok s' ->
  exists s1, fold_res revert_event (grouped (b_events b)) s = Ok s1 /\
    cupd_revert b (celems s1) = Ok (celems s') /\
    iupd_revert b (filter (fun e => negb (idx_eqb (ie_idx e) (b_idx b))) (ielems s1)) = Ok (ielems s') /\
    tip s' = tip s1 /\ contracts s' = contracts s1.
Proof.
  unfold revert_block, revert_block_g. destruct (fold_res revert_event (grouped (b_events b)) s) as [s1| |]; cbn [bind]; try discriminate.
  rewrite (crefresh_revert_full sel_all _ _ b (celems s1) (fun e _ => row_sel_all _ _ e)).
  destruct (iupd_revert b (filter (fun e => negb (idx_eqb (ie_idx e) (b_idx b))) (ielems s1))) as [ie| |] eqn:Ei; cbn [bind]; try discriminate.
  destruct (cupd_revert b (celems s1)) as [ce| |] eqn:Ec; cbn [bind]; try discriminate.
  intros [= <-]. exists s1. cbn. repeat split; auto.
Qed.

Lemma expire_In h l e : In e (expire h l) -> In e l.
Proof. unfold expire. destruct (chainIndexBuffer <? h)%N; [rewrite filter_In; tauto|auto]. Qed.

Lemma iset_In x l e : In e (iset x l) -> e = x \/ In e l.
Proof. unfold iset. cbn. rewrite filter_In. intuition. Qed.

Lemma el_inv_apply s C b s' : el_inv s C -> linked (b :: C) -> apply_block s b = Ok s' ->
  el_inv s' (b :: C).
Proof.
  intros Inv L Ha. destruct (apply_block_shape s b s' Ha) as [s1 [He [Hc [Hi _]]]].
  destruct (apply_events_spec b (grouped (b_events b)) s s1 (grouped_In (b_events b)) He) as [I1 [_ C1]].
  cbn [linked] in L. destruct L as [_ [Hne [_ Hp]]].
  assert (idx_eqb (b_idx b) (b_parent b) = false) as Hne'.
  { apply idx_eqb_neq. intros E. apply idx_eqb_neq in Hne. apply Hne. symmetry. exact E. }
  cbn [el_inv]. split.
  - (* contract elements *)
    intros e' He'. rewrite Hc in He'. unfold cupd_apply in He'. apply in_map_iff in He'.
    destruct He' as [e1 [<- He1]]. unfold cel_ok. cbn.
    destruct (C1 e1 He1) as [[e0 [He0 [A [B D]]]]|[F1 [F2 F3]]].
    + destruct C as [|p C'].
      * cbn in Inv. destruct Inv as [Z _]. rewrite Z in He0. destruct He0.
      * cbn [el_inv] in Inv. destruct Inv as [IC _]. destruct (IC e0 He0) as [Hb [c [Hc' [Hborn Hf]]]].
        destruct Hp as [Hpar _]. rewrite B, Hb, D. unfold upd_apply. rewrite Hpar, idx_eqb_refl.
        split; [reflexivity|]. exists c. split; [right; exact Hc'|]. split; [exact Hborn|]. rewrite A. exact Hf.
    + rewrite F1, F2. unfold upd_apply. rewrite Hne', !idx_eqb_refl. cbn.
      split; [reflexivity|]. exists b. split; [left; reflexivity|]. split; [reflexivity|exact F3].
  - (* chain index elements *)
    intros e' He'. rewrite Hi in He'. apply expire_In in He'. apply iset_In in He'.
    destruct He' as [->|He'].
    + unfold iel_ok, new_iel. cbn. split; [reflexivity|]. exists b. split; [left; reflexivity|reflexivity].
    + unfold iupd_apply in He'. apply in_map_iff in He'. destruct He' as [e1 [<- He1]]. rewrite I1 in He1.
      unfold iel_ok. cbn. destruct C as [|p C'].
      * cbn in Inv. destruct Inv as [_ Z]. rewrite Z in He1. destruct He1.
      * cbn [el_inv] in Inv. destruct Inv as [_ II]. destruct (II e1 He1) as [Hb [c [Hc' Hidx]]].
        destruct Hp as [Hpar _]. rewrite Hb. unfold upd_apply. rewrite Hpar, idx_eqb_refl.
        split; [reflexivity|]. exists c. split; [right; exact Hc'|exact Hidx].
Qed.

Lemma el_inv_revert s C b s' : el_inv s (b :: C) -> linked (b :: C) -> revert_block s b = Ok s' ->
  el_inv s' C.
Proof.
  intros Inv L Hr. destruct (revert_block_shape s b s' Hr) as [s1 [He [Hc [Hi _]]]].
  destruct (revert_events_spec (grouped (b_events b)) s s1 He) as [I1 [_ C1]].
  cbn [el_inv] in Inv. destruct Inv as [IC II].
  pose proof (linked_heights b C L) as Hh.
  cbn [linked] in L. destruct L as [_ [_ [_ Hp]]].
  (* every surviving contract element was born below b *)
  assert (forall e', In e' (celems s') -> ce_basis e' = Some (b_parent b) /\
            exists c, In c C /\ ce_born e' = b_idx c /\ formed_in (ce_cid e') c) as GC.
  { intros e' He'. destruct (cupd_revert_spec b _ _ Hc e' He') as [e1 [He1 [A [B [Nb Bs]]]]].
    destruct (C1 e1 He1) as [e0 [He0 [A0 [B0 D0]]]].
    destruct (IC e0 He0) as [Hb [c [Hc' [Hborn Hf]]]].
    rewrite Bs, B0, Hb, idx_eqb_refl. split; [reflexivity|].
    destruct Hc' as [<-|Hc'].
    - exfalso. apply Nb. rewrite D0. exact Hborn.
    - exists c. split; [exact Hc'|]. split; [congruence|]. rewrite A, A0. exact Hf. }
  assert (forall e', In e' (ielems s') -> ie_basis e' = Some (b_parent b) /\
            exists c, In c C /\ ie_idx e' = b_idx c) as GI.
  { intros e' He'. destruct (iupd_revert_spec b _ _ Hi e' He') as [e1 [He1 [A [Nb Bs]]]].
    apply filter_In in He1. destruct He1 as [He1 _]. rewrite I1 in He1.
    destruct (II e1 He1) as [Hb [c [Hc' Hidx]]].
    rewrite Bs, Hb, idx_eqb_refl. split; [reflexivity|].
    destruct Hc' as [<-|Hc'].
    - exfalso. apply Nb. exact Hidx.
    - exists c. split; [exact Hc'|congruence]. }
  destruct C as [|p C'].
  - cbn [el_inv]. split.
    + destruct (celems s') as [|e t]; [reflexivity|]. destruct (GC e (or_introl eq_refl)) as [_ [c [[] _]]].
    + destruct (ielems s') as [|e t]; [reflexivity|]. destruct (GI e (or_introl eq_refl)) as [_ [c [[] _]]].
  - destruct Hp as [Hpar _]. cbn [el_inv]. rewrite <- Hpar. split.
    + intros e' He'. exact (GC e' He').
    + intros e' He'. exact (GI e' He').
Qed.

(** * Lists of blocks *)
Lemma el_inv_applies : forall bs s C s', el_inv s C -> linked (rev bs ++ C) ->
  fold_res apply_block bs s = Ok s' -> el_inv s' (rev bs ++ C).
Proof.
  induction bs as [|b t IH]; intros s C s' Inv L; cbn [fold_res rev app].
  - intros [= <-]. exact Inv.
  - destruct (apply_block s b) as [s1| |] eqn:Ea; cbn [bind]; try discriminate. intros Ht.
    cbn [rev] in L. rewrite <- app_assoc in L. cbn [app] in L.
    pose proof (el_inv_apply s C b s1 Inv (linked_app (rev t) (b :: C) L) Ea) as Inv1.
    rewrite <- app_assoc. cbn [app]. exact (IH s1 (b :: C) s' Inv1 L Ht).
Qed.

Lemma el_inv_reverts : forall rs s C s', el_inv s C -> linked C -> firstn (length rs) C = rs ->
  fold_res revert_block rs s = Ok s' -> el_inv s' (skipn (length rs) C) /\ linked (skipn (length rs) C).
Proof.
  induction rs as [|r t IH]; intros s C s' Inv L F; cbn [fold_res length skipn].
  - intros [= <-]. split; assumption.
  - destruct C as [|b C]; [discriminate|]. cbn [length firstn] in F. injection F as Eb F. subst r.
    destruct (revert_block s b) as [s1| |] eqn:Er; cbn [bind]; try discriminate. intros Ht.
    pose proof (el_inv_revert s C b s1 Inv L Er) as Inv1.
    assert (linked C) as LC by (cbn [linked] in L; tauto).
    exact (IH s1 C s' Inv1 LC F Ht).
Qed.

(* batch phases *)
Lemma batch_phases s rs bs s' : batch s rs bs = Ok s' -> (rs <> [] \/ bs <> []) ->
  exists s1 s2, fold_res revert_block rs s = Ok s1 /\ fold_res apply_block bs s1 = Ok s2 /\
    contracts s' = contracts s2 /\ celems s' = celems s2 /\ ielems s' = ielems s2 /\
    tip s' = last_idx rs bs (tip s2).
Proof.
  intros H Hne. unfold batch, batch_g in H.
  assert ((do s1 <- fold_res revert_block rs s; do s2 <- fold_res apply_block bs s1;
           Ok {| contracts := contracts s2; renewed := renewed s2; negs := negs s2; rbuf := rbuf s2;
                 celems := celems s2; ielems := ielems s2; tip := last_idx rs bs (tip s2) |}) = Ok s') as H'.
  { destruct rs, bs; try exact H. destruct Hne as [X|X]; congruence. }
  clear H. destruct (fold_res revert_block rs s) as [s1| |] eqn:H1; cbn [bind] in H'; try discriminate.
  destruct (fold_res apply_block bs s1) as [s2| |] eqn:H2; cbn [bind] in H'; try discriminate.
  injection H' as <-. exists s1, s2. cbn. repeat split; auto.
Qed.

Lemma el_inv_ext s s' C : el_inv s C -> celems s' = celems s -> ielems s' = ielems s -> el_inv s' C.
Proof. unfold el_inv. intros H -> ->. exact H. Qed.

Lemma el_inv_batch s C rs bs s' : el_inv s C -> linked C -> wf_batch C rs bs -> batch s rs bs = Ok s' ->
  el_inv s' (chain_after C rs bs).
Proof.
  intros Inv L [F V] H. unfold chain_after in *.
  destruct rs as [|r rs'] eqn:Ers; [destruct bs as [|b bs'] eqn:Ebs|].
  - cbn in H. injection H as <-. exact Inv.
  - destruct (batch_phases s [] (b :: bs') s' H) as [s1 [s2 [H1 [H2 [_ [A [B _]]]]]]]; [right; discriminate|].
    cbn in H1. injection H1 as <-.
    exact (el_inv_ext s2 s' _ (el_inv_applies (b :: bs') s C s2 Inv V H2) A B).
  - destruct (batch_phases s (r :: rs') bs s' H) as [s1 [s2 [H1 [H2 [_ [A [B _]]]]]]]; [left; discriminate|].
    destruct (el_inv_reverts (r :: rs') s C s1 Inv L F H1) as [Inv1 _].
    exact (el_inv_ext s2 s' _ (el_inv_applies bs s1 _ s2 Inv1 V H2) A B).
Qed.

(** * Tip marker *)
Definition tip_ok (s : state) (C : list block) : Prop :=
  match C with [] => True | b :: _ => tip s = Some (b_idx b) end.

Lemma rev_cons_head (A : Type) (r : A) t : t <> [] -> exists x y y', rev (r :: t) = x :: y /\ rev t = x :: y'.
Proof.
  intros Hne. cbn [rev]. destruct (rev t) as [|x y] eqn:E.
  - exfalso. apply Hne. rewrite <- (rev_involutive t), E. reflexivity.
  - exists x, (y ++ [r]), y. split; reflexivity.
Qed.

Lemma reverts_last : forall rs C p X, linked C -> firstn (length rs) C = rs -> rs <> [] ->
  skipn (length rs) C = p :: X -> exists r y, rev rs = r :: y /\ b_parent r = b_idx p.
Proof.
  induction rs as [|r t IH]; intros C p X L F Hne Hs; [congruence|].
  destruct C as [|b C]; [discriminate|]. cbn [length firstn] in F. injection F as Eb F. subst r.
  cbn [length skipn] in Hs. cbn [linked] in L. destruct L as [LC [_ [_ Hp]]].
  destruct t as [|r2 t].
  - cbn in Hs. subst C. exists b, []. split; [reflexivity|tauto].
  - destruct (IH C p X LC F ltac:(discriminate) Hs) as [x [y [E Q]]].
    destruct (rev_cons_head block b (r2 :: t) ltac:(discriminate)) as [x' [y1 [y2 [E1 E2]]]].
    exists x', y1. split; [exact E1|]. rewrite E in E2. injection E2 as -> _. exact Q.
Qed.

Lemma tip_ok_batch s C rs bs s' : linked C -> tip_ok s C -> wf_batch C rs bs -> batch s rs bs = Ok s' ->
  tip_ok s' (chain_after C rs bs).
Proof.
  intros L T [F V] H. unfold chain_after in *.
  destruct rs as [|r rs'] eqn:Ers; [destruct bs as [|b bs'] eqn:Ebs|].
  - cbn in H. injection H as <-. exact T.
  - destruct (batch_phases s [] (b :: bs') s' H) as [s1 [s2 [_ [_ [_ [_ [_ Tp]]]]]]]; [right; discriminate|].
    unfold tip_ok. unfold last_idx in Tp.
    destruct (rev (b :: bs')) as [|x y] eqn:E.
    + exfalso. assert (b :: bs' = []) by (rewrite <- (rev_involutive (b :: bs')), E; reflexivity). discriminate.
    + cbn [app]. exact Tp.
  - destruct (batch_phases s (r :: rs') bs s' H) as [s1 [s2 [_ [_ [_ [_ [_ Tp]]]]]]]; [left; discriminate|].
    unfold tip_ok. unfold last_idx in Tp.
    destruct (rev bs) as [|x y] eqn:E; [|cbn [app]; exact Tp].
    cbn [app]. destruct (skipn (length (r :: rs')) C) as [|p X] eqn:Sk; [exact I|].
    destruct (reverts_last (r :: rs') C p X L F ltac:(discriminate) Sk) as [x [y [E1 Q]]].
    rewrite E1 in Tp. rewrite Tp, Q. reflexivity.
Qed.

(** * Reachable states *)
Definition rinv (s : state) (C : list block) : Prop := linked C /\ el_inv s C /\ tip_ok s C.

(* RenewV2Contract touches neither element table nor the tip marker *)
Lemma renew_fields s c r ng : let s' := fst (step s (Renew c r ng)) in
  celems s' = celems s /\ ielems s' = ielems s /\ tip s' = tip s.
Proof.
  unfold step; cbn [step_g]. unfold renew. destruct (known s c && negb (known s r)); cbn; auto.
Qed.

Lemma reach_rinv s C hm : reach s C hm -> rinv s C.
Proof.
  induction 1 as [|s C hm rb R IH|s C hm c ng R IH|s C hm rs bs s' R IH F H|s C hm R IH|s C hm c r ng R IH].
  - repeat split; cbn; auto.
  - destruct IH as [L [E T]]. unfold step; cbn [step_g fst]. repeat split; auto.
  - destruct IH as [L [E T]]. unfold step; cbn [step_g]. destruct (known s c); cbn [fst]; repeat split; auto.
  - destruct IH as [L [E T]]. split; [exact (proj2 F)|]. split.
    + exact (el_inv_batch s C rs bs s' E L F H).
    + exact (tip_ok_batch s C rs bs s' L T F H).
  - repeat split; cbn; auto.
  - destruct IH as [L [E T]]. destruct (renew_fields s c r ng) as [A [B D]]. split; [exact L|]. split.
    + exact (el_inv_ext s _ C E A B).
    + unfold tip_ok in *. destruct C; [exact I|]. rewrite D. exact T.
Qed.

(* all stored elements carry a proof for the processed tip *)
Lemma basis_at_tip s C hm : reach s C hm ->
  match C with
  | [] => celems s = [] /\ ielems s = []
  | b :: _ => tip s = Some (b_idx b) /\
              (forall e, In e (celems s) -> valid_at (tip s) (ce_basis e) = true) /\
              (forall e, In e (ielems s) -> valid_at (tip s) (ie_basis e) = true)
  end.
Proof.
  intros R. destruct (reach_rinv s C hm R) as [L [E T]]. destruct C as [|b C]; [exact E|].
  cbn in T, E. destruct E as [EC EI]. split; [exact T|]. rewrite T. split.
  - intros e He. destruct (EC e He) as [-> _]. cbn. apply idx_eqb_refl.
  - intros e He. destruct (EI e He) as [-> _]. cbn. apply idx_eqb_refl.
Qed.

(* a stored contract element belongs to a contract whose formation is on the processed chain:
   once the formation block is disconnected the element is gone *)
Lemma contract_elements_formed_on_chain s C hm : reach s C hm ->
  forall e, In e (celems s) -> exists c, In c C /\ ce_born e = b_idx c /\ formed_in (ce_cid e) c.
Proof.
  intros R e He. destruct (reach_rinv s C hm R) as [L [E T]]. destruct C as [|b C].
  - destruct E as [Z _]. rewrite Z in He. destruct He.
  - destruct E as [EC _]. destruct (EC e He) as [_ X]. exact X.
Qed.

(* stored chain index elements are indices of the processed best chain *)
Lemma index_elements_on_chain s C hm : reach s C hm ->
  forall e, In e (ielems s) -> exists c, In c C /\ ie_idx e = b_idx c.
Proof.
  intros R e He. destruct (reach_rinv s C hm R) as [L [E T]]. destruct C as [|b C].
  - destruct E as [_ Z]. rewrite Z in He. destruct He.
  - destruct E as [_ EI]. destruct (EI e He) as [_ X]. exact X.
Qed.

(** * Which chain indices are stored: the retention window *)
Definition ikeys (s : state) : list idx := map ie_idx (ielems s).
Definition tip_h (C : list block) : N := match C with [] => 0%N | b :: _ => ih (b_idx b) end.

(* J: (window) every stored index is within 144 of the processed tip; (cover) every block of the
   processed chain within 144 of the highest height processed since the last reset is stored *)
Definition jinv (s : state) (C : list block) (hm : N) : Prop :=
  (forall e, In e (ielems s) -> (chainIndexBuffer < tip_h C)%N -> (tip_h C - chainIndexBuffer < ih (ie_idx e))%N) /\
  (forall c, In c C -> ((chainIndexBuffer < hm)%N -> (hm - chainIndexBuffer < ih (b_idx c))%N) -> In (b_idx c) (ikeys s)) /\
  (forall c, In c C -> (ih (b_idx c) <= hm)%N).

Lemma iupd_revert_keeps b : forall l l', iupd_revert b l = Ok l' ->
  forall e, In e l -> exists e', In e' l' /\ ie_idx e' = ie_idx e.
Proof.
  induction l as [|x t IH]; intros l'; cbn [iupd_revert]; [intros _ e []|].
  destruct (upd_revert b (ie_basis x) (ie_idx x)) as [y| |]; cbn [bind]; try discriminate.
  destruct (iupd_revert b t) as [t'| |] eqn:Et; cbn [bind]; try discriminate.
  intros [= <-] e [<-|He].
  - eexists. split; [left; reflexivity|reflexivity].
  - destruct (IH t' eq_refl e He) as [e' [He' Q]]. exists e'. split; [right; exact He'|exact Q].
Qed.

Lemma jinv_apply s C hm b s' : jinv s C hm -> linked (b :: C) -> apply_block s b = Ok s' ->
  jinv s' (b :: C) (N.max hm (ih (b_idx b))).
Proof.
  intros [W [Cv Hm]] L Ha. destruct (apply_block_shape s b s' Ha) as [s1 [He [_ [Hi _]]]].
  destruct (apply_events_spec b (grouped (b_events b)) s s1 (grouped_In (b_events b)) He) as [I1 _].
  pose proof (linked_heights b C L) as Hh.
  cbn [linked] in L. destruct L as [_ [_ [Hid _]]].
  set (h := ih (b_idx b)) in *. unfold chainIndexBuffer in *.
  split; [|split].
  - (* window *)
    intros e He'. cbn [tip_h]. fold h. intros Hgt. rewrite Hi in He'. unfold expire in He'. unfold chainIndexBuffer in *.
    destruct (144 <? h)%N eqn:Q; [|lia]. apply filter_In in He'. destruct He' as [_ F]. lia.
  - (* cover *)
    intros c Hc Hwin. unfold chainIndexBuffer in *. unfold ikeys. rewrite Hi.
    assert (forall e, In e (iset (new_iel b) (iupd_apply b (ielems s1))) ->
              ((144 < h)%N -> (h - 144 < ih (ie_idx e))%N) -> In (ie_idx e) (map ie_idx (expire h (iset (new_iel b) (iupd_apply b (ielems s1)))))) as Keep.
    { intros e He' Hk. apply in_map. unfold expire. unfold chainIndexBuffer. destruct (144 <? h)%N eqn:Q; [|exact He'].
      apply filter_In. split; [exact He'|]. specialize (Hk ltac:(lia)). lia. }
    destruct Hc as [<-|Hc].
    + change (b_idx b) with (ie_idx (new_iel b)). apply Keep; [left; reflexivity|]. cbn. fold h. lia.
    + assert (In (b_idx c) (ikeys s)) as Hin.
      { apply Cv; [exact Hc|]. intros G. specialize (Hm c Hc). lia. }
      unfold ikeys in Hin. apply in_map_iff in Hin. destruct Hin as [e0 [E0 He0]].
      rewrite <- I1 in He0.
      set (e1 := {| ie_idx := ie_idx e0; ie_basis := upd_apply b (ie_basis e0) (ie_idx e0) |}).
      assert (In e1 (iset (new_iel b) (iupd_apply b (ielems s1)))) as H1.
      { unfold iset. right. apply filter_In. split.
        - unfold iupd_apply. apply in_map_iff. exists e0. split; [reflexivity|exact He0].
        - cbn. rewrite E0. specialize (Hid c Hc). destruct (ib (b_idx c) =? ib (b_idx b))%N eqn:Q; [lia|reflexivity]. }
      rewrite <- E0. change (ie_idx e0) with (ie_idx e1). apply Keep; [exact H1|].
      cbn. rewrite E0. intros G. specialize (Hh c Hc). specialize (Hm c Hc). fold h in Hh. lia.
  - intros c [<-|Hc]; [fold h; lia|]. specialize (Hm c Hc). lia.
Qed.

Lemma jinv_revert s C hm b s' : jinv s (b :: C) hm -> linked (b :: C) -> revert_block s b = Ok s' ->
  jinv s' C hm.
Proof.
  intros [W [Cv Hm]] L Hr. destruct (revert_block_shape s b s' Hr) as [s1 [He [_ [Hi _]]]].
  destruct (revert_events_spec (grouped (b_events b)) s s1 He) as [I1 _].
  pose proof (linked_heights b C L) as Hh. cbn [tip_h] in W.
  cbn [linked] in L. destruct L as [_ [_ [_ Hp]]].
  split; [|split].
  - intros e' He' Hgt. destruct (iupd_revert_spec b _ _ Hi e' He') as [e1 [He1 [A _]]].
    apply filter_In in He1. destruct He1 as [He1 _]. rewrite I1 in He1. rewrite A.
    destruct C as [|p C']; [cbn in Hgt; unfold chainIndexBuffer in Hgt; lia|].
    cbn [tip_h] in *. destruct Hp as [_ Hph]. specialize (W e1 He1). unfold chainIndexBuffer in *. lia.
  - intros c Hc Hwin. unfold chainIndexBuffer in *. assert (In (b_idx c) (ikeys s)) as Hin by (apply Cv; [right; exact Hc|exact Hwin]).
    unfold ikeys in Hin. apply in_map_iff in Hin. destruct Hin as [e0 [E0 He0]]. rewrite <- I1 in He0.
    assert (In e0 (filter (fun e => negb (idx_eqb (ie_idx e) (b_idx b))) (ielems s1))) as Hf.
    { apply filter_In. split; [exact He0|]. rewrite E0.
      destruct (idx_eqb (b_idx c) (b_idx b)) eqn:Q; [|reflexivity].
      apply idx_eqb_eq in Q. specialize (Hh c Hc). rewrite Q in Hh. lia. }
    destruct (iupd_revert_keeps b _ _ Hi e0 Hf) as [e' [He' Q]].
    unfold ikeys. apply in_map_iff. exists e'. split; [congruence|exact He'].
  - intros c Hc. apply Hm. right. exact Hc.
Qed.

Lemma jinv_applies : forall bs s C hm s', jinv s C hm -> linked (rev bs ++ C) ->
  fold_res apply_block bs s = Ok s' -> jinv s' (rev bs ++ C) (hmax_after hm bs).
Proof.
  induction bs as [|b t IH]; intros s C hm s' J L; cbn [fold_res rev app hmax_after fold_left].
  - intros [= <-]. exact J.
  - destruct (apply_block s b) as [s1| |] eqn:Ea; cbn [bind]; try discriminate. intros Ht.
    cbn [rev] in L. rewrite <- app_assoc in L. cbn [app] in L.
    pose proof (jinv_apply s C hm b s1 J (linked_app (rev t) (b :: C) L) Ea) as J1.
    rewrite <- app_assoc. cbn [app]. exact (IH s1 (b :: C) _ s' J1 L Ht).
Qed.

Lemma jinv_reverts : forall rs s C hm s', jinv s C hm -> linked C -> firstn (length rs) C = rs ->
  fold_res revert_block rs s = Ok s' -> jinv s' (skipn (length rs) C) hm.
Proof.
  induction rs as [|r t IH]; intros s C hm s' J L F; cbn [fold_res length skipn].
  - intros [= <-]. exact J.
  - destruct C as [|b C]; [discriminate|]. cbn [length firstn] in F. injection F as Eb F. subst r.
    destruct (revert_block s b) as [s1| |] eqn:Er; cbn [bind]; try discriminate. intros Ht.
    pose proof (jinv_revert s C hm b s1 J L Er) as J1.
    assert (linked C) as LC by (cbn [linked] in L; tauto).
    exact (IH s1 C hm s' J1 LC F Ht).
Qed.

Lemma jinv_ext s s' C hm : jinv s C hm -> ielems s' = ielems s -> jinv s' C hm.
Proof. unfold jinv, ikeys. intros H ->. exact H. Qed.

Lemma jinv_batch s C hm rs bs s' : jinv s C hm -> linked C -> wf_batch C rs bs -> batch s rs bs = Ok s' ->
  jinv s' (chain_after C rs bs) (hmax_after hm bs).
Proof.
  intros J L [F V] H. unfold chain_after in *.
  destruct rs as [|r rs'] eqn:Ers; [destruct bs as [|b bs'] eqn:Ebs|].
  - cbn in H. injection H as <-. exact J.
  - destruct (batch_phases s [] (b :: bs') s' H) as [s1 [s2 [H1 [H2 [_ [_ [B _]]]]]]]; [right; discriminate|].
    cbn in H1. injection H1 as <-.
    exact (jinv_ext s2 s' _ _ (jinv_applies (b :: bs') s C hm s2 J V H2) B).
  - destruct (batch_phases s (r :: rs') bs s' H) as [s1 [s2 [H1 [H2 [_ [_ [B _]]]]]]]; [left; discriminate|].
    pose proof (jinv_reverts (r :: rs') s C hm s1 J L F H1) as J1.
    exact (jinv_ext s2 s' _ _ (jinv_applies bs s1 _ hm s2 J1 V H2) B).
Qed.

Lemma reach_jinv s C hm : reach s C hm -> jinv s C hm.
Proof.
  induction 1 as [|s C hm rb R IH|s C hm c ng R IH|s C hm rs bs s' R IH F H|s C hm R IH|s C hm c r ng R IH].
  - repeat split; cbn; intros; try contradiction.
  - exact (jinv_ext s _ C hm IH eq_refl).
  - unfold step; cbn [step_g]. destruct (known s c); cbn [fst]; [exact IH|]. exact (jinv_ext s _ C hm IH eq_refl).
  - exact (jinv_batch s C hm rs bs s' IH (proj1 (reach_rinv s C hm R)) F H).
  - repeat split; cbn; intros; try contradiction.
  - exact (jinv_ext s _ C hm IH (proj1 (proj2 (renew_fields s c r ng)))).
Qed.

(* the stored chain indices: on the processed best chain, inside the retention window, and complete
   for the part of the window that was processed since the last reset *)
Lemma index_set s C hm : reach s C hm ->
  (forall e, In e (ielems s) -> (exists c, In c C /\ ie_idx e = b_idx c) /\
     ((chainIndexBuffer < tip_h C)%N -> (tip_h C - chainIndexBuffer < ih (ie_idx e))%N)) /\
  (forall c, In c C -> ((chainIndexBuffer < hm)%N -> (hm - chainIndexBuffer < ih (b_idx c))%N) ->
     In (b_idx c) (ikeys s)) /\
  (tip_h C <= hm)%N.
Proof.
  intros R. destruct (reach_jinv s C hm R) as [W [Cv Hm]]. split; [|split].
  - intros e He. split; [exact (index_elements_on_chain s C hm R e He)|exact (W e He)].
  - exact Cv.
  - destruct C as [|b C]; cbn; [lia|]. apply Hm. left. reflexivity.
Qed.

(** * Histories as operation lists (the [step] function the correspondence check runs) *)
Fixpoint wf_ops (s : state) (C : list block) (l : list op) : Prop :=
  match l with
  | [] => True
  | Configure rb :: t => wf_ops (fst (step s (Configure rb))) C t
  | AddContract c ng :: t => wf_ops (fst (step s (AddContract c ng))) C t
  | Renew c r ng :: t => wf_ops (fst (step s (Renew c r ng))) C t
  | Batch rs bs :: t =>
      match batch s rs bs with
      | Ok s' => wf_batch C rs bs /\ wf_ops s' (chain_after C rs bs) t
      | _ => wf_ops s C t
      end
  | Reset :: t => wf_ops (reset s) [] t
  | Observe :: t => wf_ops s C t
  end.

Fixpoint ghost (s : state) (C : list block) (hm : N) (l : list op) : list block * N :=
  match l with
  | [] => (C, hm)
  | Configure rb :: t => ghost (fst (step s (Configure rb))) C hm t
  | AddContract c ng :: t => ghost (fst (step s (AddContract c ng))) C hm t
  | Renew c r ng :: t => ghost (fst (step s (Renew c r ng))) C hm t
  | Batch rs bs :: t =>
      match batch s rs bs with
      | Ok s' => ghost s' (chain_after C rs bs) (hmax_after hm bs) t
      | _ => ghost s C hm t
      end
  | Reset :: t => ghost (reset s) [] 0%N t
  | Observe :: t => ghost s C hm t
  end.

Definition runs (s : state) (l : list op) : state := fold_left (fun s o => fst (step s o)) l s.

Lemma runs_reach : forall l s C hm, reach s C hm -> wf_ops s C l ->
  reach (runs s l) (fst (ghost s C hm l)) (snd (ghost s C hm l)).
Proof.
  induction l as [|o t IH]; intros s C hm R W; [exact R|].
  destruct o as [rb|c ng|c r ng|rs bs| |]; cbn [wf_ops ghost] in *; unfold runs; cbn [fold_left].
  - apply IH; [|exact W]. apply reach_config. exact R.
  - apply IH; [|exact W]. apply reach_add. exact R.
  - apply IH; [|exact W]. apply reach_renew. exact R.
  - unfold step at 2; cbn [step_g]. fold (batch s rs bs). destruct (batch s rs bs) as [s'| |] eqn:E; cbn [fst].
    + destruct W as [F W]. apply IH; [|exact W]. exact (reach_batch s C hm rs bs s' R F E).
    + apply IH; assumption.
    + apply IH; assumption.
  - unfold step at 2; cbn [step_g fst]. apply IH; [|exact W]. apply (reach_reset s C hm R).
  - unfold step at 2; cbn [step_g fst]. apply IH; assumption.
Qed.

(** * A concrete history (non-vacuity): contract formed in block 1, revised in block 2, then a
      reorg that disconnects both and connects another block 1 *)
Definition ix (h b : N) : idx := {| ih := h; ib := b |}.
Definition wb0 : block := {| b_idx := ix 0 1; b_parent := ix 0 0; b_events := [] |}.
Definition wb1 : block := {| b_idx := ix 1 2; b_parent := ix 0 1; b_events := [EFormed 1 0] |}.
Definition wb2 : block := {| b_idx := ix 2 3; b_parent := ix 1 2; b_events := [ERevised 1 0 2] |}.
Definition wb1' : block := {| b_idx := ix 1 4; b_parent := ix 0 1; b_events := [] |}.
Definition wit_ops1 : list op := [AddContract 1 0; Batch [] [wb0; wb1; wb2]].
Definition wit_ops : list op := wit_ops1 ++ [Batch [wb2; wb1] [wb1']].

Ltac wit_solve :=
  cbn; intuition (subst; cbn; try reflexivity; try discriminate; auto);
  try (match goal with H : _ = _ |- _ => inversion H; fail end).

Lemma wit_wf : wf_ops init [] wit_ops.
Proof.
  cbn [wit_ops wit_ops1 app wf_ops].
  set (s0 := fst (step init (AddContract 1 0))).
  assert (batch s0 [] [wb0; wb1; wb2] = Ok (runs s0 [Batch [] [wb0; wb1; wb2]])) as E1 by (vm_compute; reflexivity).
  rewrite E1. split.
  { split; [reflexivity|]. wit_solve. }
  assert (batch (runs s0 [Batch [] [wb0; wb1; wb2]]) [wb2; wb1] [wb1'] =
          Ok (runs s0 [Batch [] [wb0; wb1; wb2]; Batch [wb2; wb1] [wb1']])) as E2 by (vm_compute; reflexivity).
  rewrite E2. split; [|exact I].
  split; [reflexivity|]. wit_solve.
Qed.

Lemma nonvacuous_witness :
  reach (runs init wit_ops1) [wb2; wb1; wb0] 2 /\
  snd (step (runs init wit_ops1) Observe) =
    OState [(1%N, true, 2%N)] [(ix 0 1, true); (ix 1 2, true); (ix 2 3, true)] (Some (ix 2 3)) [] [(1%N, SActive)] /\
  reach (runs init wit_ops) [wb1'; wb0] 2 /\
  snd (step (runs init wit_ops) Observe) = OState [] [(ix 0 1, true); (ix 1 4, true)] (Some (ix 1 4)) [] [(1%N, SUnconfirmed)].
Proof.
  assert (wf_ops init [] wit_ops1) as W1.
  { pose proof wit_wf as W. cbn [wit_ops wit_ops1 app wf_ops] in *.
    destruct (batch (fst (step init (AddContract 1 0))) [] [wb0; wb1; wb2]) as [s'| |] eqn:E; [|vm_compute in E; discriminate|vm_compute in E; discriminate].
    split; [tauto|exact I]. }
  split; [|split; [vm_compute; reflexivity|split; [|vm_compute; reflexivity]]].
  - exact (runs_reach wit_ops1 init [] 0%N reach_init W1).
  - exact (runs_reach wit_ops init [] 0%N reach_init wit_wf).
Qed.

Lemma reset_empties s : celems (reset s) = [] /\ ielems (reset s) = [] /\ tip (reset s) = None.
Proof. cbn. auto. Qed.
