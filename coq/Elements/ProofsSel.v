(* Elements/ProofsSel.v — which rows the per-block refresh must touch, renewals negotiated at RPC
   time, and when element rows exist:
     - a stored contract element always belongs to a contracts_v2 row that is confirmed (status
       active or one of the resolved ones), whatever its renewed_to;
     - every selection that covers those rows behaves exactly like the code (which reads every
       row), so all theorems about [reach] hold for it;
     - a row the selection skips keeps its old proof across a block: its basis is the parent, not
       the processed tip — so a selection narrowed on renewed_to or on the resolution is refuted
       by a concrete history in which the contract is (again) unresolved;
     - on histories without reset a confirmed contract of the host always has its element. *)
From Coq Require Import Lia ZifyBool ZifyN.
From HostdBase Require Import Base.
From HostdElements Require Import Model Proofs ProofsTotal ProofsRescan.

(** * Element rows belong to confirmed contract rows *)
Definition confirmed_row (cs : list (N * cstatus)) (c : N) : Prop :=
  exists st, alookup c cs = Some st /\ unconf st = false.
Definition econf (s : state) : Prop := forall e, In e (celems s) -> confirmed_row (contracts s) (ce_cid e).

Lemma confirmed_row_aset_other cs c c' st : c <> c' -> confirmed_row cs c -> confirmed_row (aset c' st cs) c.
Proof. intros Hne [st0 [A B]]. exists st0. split; [rewrite alookup_aset_other by exact Hne; exact A|exact B]. Qed.

Lemma confirmed_row_aset_same cs c st : unconf st = false -> confirmed_row (aset c st cs) c.
Proof. intros H. exists st. split; [apply alookup_aset_same|exact H]. Qed.

Lemma confirmed_row_aset cs c c' st : unconf st = false -> confirmed_row cs c -> confirmed_row (aset c' st cs) c.
Proof.
  intros H R. destruct (N.eq_dec c c') as [->|Hne]; [apply confirmed_row_aset_same; exact H|].
  apply confirmed_row_aset_other; assumption.
Qed.

Lemma kstatus_confirmed k : unconf (kstatus k) = false.
Proof. destruct k; reflexivity. Qed.

Lemma confirmed_row_reject rb h ng cs c : confirmed_row cs c -> confirmed_row (reject_rows rb h ng cs) c.
Proof.
  intros [st [A B]]. exists st. split; [|exact B]. rewrite alookup_reject, A. cbn.
  destruct (rejst_cases rb h ng c st) as [->|[-> _]]; [reflexivity|discriminate].
Qed.

Lemma apply_event_econf b s e s' : econf s -> apply_event b s e = Ok s' -> econf s'.
Proof.
  intros EC. unfold apply_event. destruct e as [c rv|c o nw|c k].
  - destruct (alookup c (contracts s)) as [st|] eqn:L; [|intros [= <-]; exact EC].
    destruct st; intros [= <-]; intros x Hx; cbn [celems contracts set_c cset] in *;
      (destruct Hx as [<-|Hx]; cbn [ce_cid];
       [|apply filter_In in Hx; destruct Hx as [Hx _]; specialize (EC x Hx)]);
      try (apply confirmed_row_aset_same; reflexivity);
      try (apply confirmed_row_aset; [reflexivity|exact EC]);
      try exact EC; try (eexists; split; [exact L|reflexivity]).
  - destruct (known s c); intros [= <-]; [|exact EC].
    intros x Hx. cbn [celems contracts set_c] in *. unfold crev in Hx. apply in_map_iff in Hx.
    destruct Hx as [x0 [E Hx0]]. specialize (EC x0 Hx0).
    destruct (ce_cid x0 =? c)%N; subst x; cbn [ce_cid]; exact EC.
  - destruct (alookup c (contracts s)) as [st|] eqn:L; [|intros [= <-]; exact EC].
    destruct (cstatus_eqb st (kstatus k)); [intros [= <-]; exact EC|].
    destruct st; try discriminate. intros [= <-]. intros x Hx. cbn [celems contracts set_c] in *.
    apply confirmed_row_aset; [apply kstatus_confirmed|exact (EC x Hx)].
Qed.

Lemma revert_event_econf s e s' : econf s -> revert_event s e = Ok s' -> econf s'.
Proof.
  intros EC. unfold revert_event. destruct e as [c rv|c o nw|c k].
  - destruct (alookup c (contracts s)) as [st|] eqn:L; [|intros [= <-]; exact EC].
    destruct st; try discriminate. intros [= <-]. intros x Hx. cbn [celems contracts set_c] in *.
    unfold cdel in Hx. apply filter_In in Hx. destruct Hx as [Hx Q].
    apply confirmed_row_aset_other; [|exact (EC x Hx)].
    destruct (ce_cid x =? c)%N eqn:Q2; [discriminate|lia].
  - destruct (known s c); intros [= <-]; [|exact EC].
    intros x Hx. cbn [celems contracts set_c] in *. unfold crev in Hx. apply in_map_iff in Hx.
    destruct Hx as [x0 [E Hx0]]. specialize (EC x0 Hx0).
    destruct (ce_cid x0 =? c)%N; subst x; cbn [ce_cid]; exact EC.
  - destruct (alookup c (contracts s)) as [st|] eqn:L; [|intros [= <-]; exact EC].
    destruct (cstatus_eqb st (kstatus k)); [|discriminate]. intros [= <-]. intros x Hx.
    cbn [celems contracts set_c] in *. apply confirmed_row_aset; [reflexivity|exact (EC x Hx)].
Qed.

Lemma apply_events_econf b : forall evs s s', econf s -> fold_res (apply_event b) evs s = Ok s' -> econf s'.
Proof.
  induction evs as [|e t IH]; intros s s' EC; cbn [fold_res]; [intros [= <-]; exact EC|].
  destruct (apply_event b s e) as [s1| |] eqn:E; cbn [bind]; try discriminate.
  exact (IH s1 s' (apply_event_econf b s e s1 EC E)).
Qed.

Lemma revert_events_econf : forall evs s s', econf s -> fold_res revert_event evs s = Ok s' -> econf s'.
Proof.
  induction evs as [|e t IH]; intros s s' EC; cbn [fold_res]; [intros [= <-]; exact EC|].
  destruct (revert_event s e) as [s1| |] eqn:E; cbn [bind]; try discriminate.
  exact (IH s1 s' (revert_event_econf s e s1 EC E)).
Qed.

Lemma apply_block_econf s b s' : econf s -> apply_block s b = Ok s' -> econf s'.
Proof.
  intros EC H. destruct (apply_block_shape s b s' H) as [s1 [He [Hc [_ [_ Hk]]]]].
  pose proof (apply_events_econf b _ s s1 EC He) as EC1.
  intros x Hx. rewrite Hc in Hx. unfold cupd_apply in Hx. apply in_map_iff in Hx.
  destruct Hx as [x0 [<- Hx0]]. rewrite Hk. apply confirmed_row_reject. exact (EC1 x0 Hx0).
Qed.

Lemma revert_block_econf s b s' : econf s -> revert_block s b = Ok s' -> econf s'.
Proof.
  intros EC H. destruct (revert_block_shape s b s' H) as [s1 [He [Hc [_ [_ Hk]]]]].
  pose proof (revert_events_econf _ s s1 EC He) as EC1.
  intros x Hx. destruct (cupd_revert_spec b _ _ Hc x Hx) as [x0 [Hx0 [A _]]].
  rewrite Hk, A. exact (EC1 x0 Hx0).
Qed.

Lemma applies_econf : forall bs s s', econf s -> fold_res apply_block bs s = Ok s' -> econf s'.
Proof.
  induction bs as [|b t IH]; intros s s' EC; cbn [fold_res]; [intros [= <-]; exact EC|].
  destruct (apply_block s b) as [s1| |] eqn:E; cbn [bind]; try discriminate.
  exact (IH s1 s' (apply_block_econf s b s1 EC E)).
Qed.

Lemma reverts_econf : forall rs s s', econf s -> fold_res revert_block rs s = Ok s' -> econf s'.
Proof.
  induction rs as [|b t IH]; intros s s' EC; cbn [fold_res]; [intros [= <-]; exact EC|].
  destruct (revert_block s b) as [s1| |] eqn:E; cbn [bind]; try discriminate.
  exact (IH s1 s' (revert_block_econf s b s1 EC E)).
Qed.

Lemma econf_ext s s' : econf s -> contracts s' = contracts s -> celems s' = celems s -> econf s'.
Proof. unfold econf. intros H -> ->. exact H. Qed.

Lemma batch_econf s rs bs s' : econf s -> batch s rs bs = Ok s' -> econf s'.
Proof.
  intros EC H. destruct rs as [|r rs'] eqn:Ers; [destruct bs as [|b bs'] eqn:Ebs|].
  - cbn in H. injection H as <-. exact EC.
  - destruct (batch_phases s [] (b :: bs') s' H) as [s1 [s2 [H1 [H2 [A [B _]]]]]]; [right; discriminate|].
    cbn in H1. injection H1 as <-. exact (econf_ext s2 s' (applies_econf _ s s2 EC H2) A B).
  - destruct (batch_phases s (r :: rs') bs s' H) as [s1 [s2 [H1 [H2 [A [B _]]]]]]; [left; discriminate|].
    exact (econf_ext s2 s' (applies_econf _ s1 s2 (reverts_econf _ s s1 EC H1) H2) A B).
Qed.

Lemma confirmed_row_known s c : confirmed_row (contracts s) c -> known s c = true.
Proof. intros [st [A _]]. unfold known. rewrite A. reflexivity. Qed.

Lemma econf_new_row s c : econf s -> known s c = false ->
  forall x, In x (celems s) -> confirmed_row (aset c SUnconfirmed (contracts s)) (ce_cid x).
Proof.
  intros EC K x Hx. apply confirmed_row_aset_other; [|exact (EC x Hx)].
  intros E. pose proof (confirmed_row_known s _ (EC x Hx)) as K'. rewrite E in K'. congruence.
Qed.

Lemma add_econf s c ng : econf s -> econf (fst (step s (AddContract c ng))).
Proof.
  intros EC. unfold step; cbn [step_g]. destruct (known s c) eqn:K; cbn [fst]; [exact EC|].
  intros x Hx. cbn [celems contracts] in *. exact (econf_new_row s c EC K x Hx).
Qed.

Lemma renew_econf s c r ng : econf s -> econf (fst (step s (Renew c r ng))).
Proof.
  intros EC. unfold step; cbn [step_g]. unfold renew.
  destruct (known s c && negb (known s r)) eqn:K; cbn [fst]; [|exact EC].
  assert (known s r = false) as Kr by (destruct (known s c), (known s r); cbn in K; congruence).
  intros x Hx. cbn [celems contracts] in *. exact (econf_new_row s r EC Kr x Hx).
Qed.

(* every stored contract element belongs to a contract row that is confirmed: active or resolved,
   never pending/rejected — in every reachable state, whatever renewals were negotiated *)
Lemma reach_econf s C hm : reach s C hm -> econf s.
Proof.
  induction 1 as [|s C hm rb R IH|s C hm c ng R IH|s C hm rs bs s' R IH F H|s C hm R IH|s C hm c r ng R IH].
  - intros x [].
  - exact IH.
  - apply add_econf. exact IH.
  - exact (batch_econf s rs bs s' IH H).
  - intros x [].
  - apply renew_econf. exact IH.
Qed.

(** * Selections that cover the confirmed rows behave like the code *)
Definition covering (sel : selection) : Prop := forall st rt, unconf st = false -> sel st rt = true.

Lemma row_sel_covering sel cs rn e : covering sel -> confirmed_row cs (ce_cid e) -> row_sel sel cs rn e = true.
Proof. intros Cv [st [A B]]. unfold row_sel. rewrite A. apply Cv. exact B. Qed.

Lemma apply_block_g_eq sel s b : covering sel -> econf s -> apply_block_g sel s b = apply_block s b.
Proof.
  intros Cv EC. unfold apply_block, apply_block_g.
  destruct (fold_res (apply_event b) (grouped (b_events b)) s) as [s1| |] eqn:E; cbn [bind]; try reflexivity.
  pose proof (apply_events_econf b _ s s1 EC E) as EC1.
  rewrite (crefresh_apply_full sel _ _ b (celems s1) (fun e He => row_sel_covering sel _ _ e Cv (EC1 e He))).
  rewrite (crefresh_apply_full sel_all _ _ b (celems s1) (fun e _ => row_sel_all _ _ e)). reflexivity.
Qed.

Lemma revert_block_g_eq sel s b : covering sel -> econf s -> revert_block_g sel s b = revert_block s b.
Proof.
  intros Cv EC. unfold revert_block, revert_block_g.
  destruct (fold_res revert_event (grouped (b_events b)) s) as [s1| |] eqn:E; cbn [bind]; try reflexivity.
  pose proof (revert_events_econf _ s s1 EC E) as EC1.
  rewrite (crefresh_revert_full sel _ _ b (celems s1) (fun e He => row_sel_covering sel _ _ e Cv (EC1 e He))).
  rewrite (crefresh_revert_full sel_all _ _ b (celems s1) (fun e _ => row_sel_all _ _ e)). reflexivity.
Qed.

Lemma applies_g_eq sel : covering sel -> forall bs s, econf s ->
  fold_res (apply_block_g sel) bs s = fold_res apply_block bs s.
Proof.
  intros Cv. induction bs as [|b t IH]; intros s EC; cbn [fold_res]; [reflexivity|].
  rewrite (apply_block_g_eq sel s b Cv EC).
  destruct (apply_block s b) as [s1| |] eqn:E; cbn [bind]; try reflexivity.
  exact (IH s1 (apply_block_econf s b s1 EC E)).
Qed.

Lemma reverts_g_eq sel : covering sel -> forall rs s, econf s ->
  fold_res (revert_block_g sel) rs s = fold_res revert_block rs s.
Proof.
  intros Cv. induction rs as [|b t IH]; intros s EC; cbn [fold_res]; [reflexivity|].
  rewrite (revert_block_g_eq sel s b Cv EC).
  destruct (revert_block s b) as [s1| |] eqn:E; cbn [bind]; try reflexivity.
  exact (IH s1 (revert_block_econf s b s1 EC E)).
Qed.

Lemma batch_g_eq sel s rs bs : covering sel -> econf s -> batch_g sel s rs bs = batch s rs bs.
Proof.
  intros Cv EC. unfold batch, batch_g. fold revert_block apply_block.
  rewrite (reverts_g_eq sel Cv rs s EC).
  destruct rs as [|r rs']; [destruct bs as [|b bs']; [reflexivity|]|];
  (destruct (fold_res revert_block _ s) as [s1| |] eqn:E; cbn [bind]; try reflexivity;
   rewrite (applies_g_eq sel Cv _ s1 (reverts_econf _ s s1 EC E)); reflexivity).
Qed.

(* reachable states of the model with an arbitrary selection *)
Inductive greach (sel : selection) : state -> list block -> N -> Prop :=
| greach_init : greach sel init [] 0
| greach_config s C hm rb : greach sel s C hm -> greach sel (fst (step_g sel s (Configure rb))) C hm
| greach_add s C hm c ng : greach sel s C hm -> greach sel (fst (step_g sel s (AddContract c ng))) C hm
| greach_batch s C hm rs bs s' :
    greach sel s C hm -> wf_batch C rs bs -> batch_g sel s rs bs = Ok s' ->
    greach sel s' (chain_after C rs bs) (hmax_after hm bs)
| greach_reset s C hm : greach sel s C hm -> greach sel (reset s) [] 0
| greach_renew s C hm c r ng : greach sel s C hm -> greach sel (fst (step_g sel s (Renew c r ng))) C hm.

(* a selection that reads at least the rows of confirmed contracts — whatever it does with
   renewed_to on the others — reaches exactly states of the code's model: every theorem about
   [reach] holds for it.  (Skipping pending/rejected rows is harmless: they have no element.) *)
Lemma covering_selection_is_code sel s C hm : covering sel -> greach sel s C hm -> reach s C hm.
Proof.
  intros Cv. induction 1 as [|s C hm rb R IH|s C hm c ng R IH|s C hm rs bs s' R IH F H|s C hm R IH|s C hm c r ng R IH].
  - constructor.
  - exact (reach_config s C hm rb IH).
  - exact (reach_add s C hm c ng IH).
  - rewrite (batch_g_eq sel s rs bs Cv (reach_econf s C hm IH)) in H. exact (reach_batch s C hm rs bs s' IH F H).
  - exact (reach_reset s C hm IH).
  - exact (reach_renew s C hm c r ng IH).
Qed.

(** * A skipped row goes stale *)
Lemma apply_event_other b s ev s' e : apply_event b s ev = Ok s' -> ev_cid ev <> ce_cid e -> In e (celems s) ->
  In e (celems s') /\ alookup (ce_cid e) (contracts s') = alookup (ce_cid e) (contracts s) /\ renewed s' = renewed s.
Proof.
  unfold apply_event. destruct ev as [c rv|c o nw|c k]; cbn [ev_cid]; intros H Hne Hin.
  - destruct (alookup c (contracts s)) as [st|]; [|injection H as <-; auto].
    assert (In e (cset c {| ce_cid := c; ce_basis := Some (b_idx b); ce_born := b_idx b; ce_rev := rv |} (celems s))) as G.
    { unfold cset. right. apply filter_In. split; [exact Hin|]. destruct (ce_cid e =? c)%N eqn:Q; [lia|reflexivity]. }
    destruct st; injection H as <-; cbn [celems contracts renewed set_c]; (split; [exact G|]); split; auto;
      apply alookup_aset_other; congruence.
  - destruct (known s c); injection H as <-; auto. cbn [celems contracts renewed set_c]. split; [|auto].
    unfold crev. apply in_map_iff. exists e. split; [|exact Hin].
    destruct (ce_cid e =? c)%N eqn:Q; [lia|reflexivity].
  - destruct (alookup c (contracts s)) as [st|]; [|injection H as <-; auto].
    destruct (cstatus_eqb st (kstatus k)); [injection H as <-; auto|].
    destruct st; try discriminate. injection H as <-. cbn [celems contracts renewed set_c].
    split; [exact Hin|]. split; [|reflexivity]. apply alookup_aset_other. congruence.
Qed.

Lemma apply_events_other b e : forall evs s s', fold_res (apply_event b) evs s = Ok s' ->
  (forall ev, In ev evs -> ev_cid ev <> ce_cid e) -> In e (celems s) ->
  In e (celems s') /\ alookup (ce_cid e) (contracts s') = alookup (ce_cid e) (contracts s) /\ renewed s' = renewed s.
Proof.
  induction evs as [|ev t IH]; intros s s'; cbn [fold_res]; [intros [= <-]; auto|].
  destruct (apply_event b s ev) as [s1| |] eqn:E; cbn [bind]; try discriminate. intros H Hne Hin.
  destruct (apply_event_other b s ev s1 e E (Hne ev (or_introl eq_refl)) Hin) as [A [B D]].
  destruct (IH s1 s' H (fun x Hx => Hne x (or_intror Hx)) A) as [A' [B' D']].
  split; [exact A'|]. split; congruence.
Qed.

(* a block that carries no event of the contract: a stored row the selection does not read is
   still there afterwards, with the proof it had *)
Lemma skipped_row_keeps_proof sel s b s' e :
  apply_block_g sel s b = Ok s' -> (forall ev, In ev (b_events b) -> ev_cid ev <> ce_cid e) ->
  In e (celems s) -> row_sel sel (contracts s) (renewed s) e = false -> In e (celems s').
Proof.
  unfold apply_block_g. destruct (fold_res (apply_event b) (grouped (b_events b)) s) as [s1| |] eqn:E; cbn [bind]; try discriminate.
  intros [= <-] Hne Hin Hsel. cbn [celems].
  destruct (apply_events_other b e _ s s1 E (fun ev Hev => Hne ev (grouped_In _ ev Hev)) Hin) as [A [B D]].
  unfold crefresh_apply. apply in_map_iff. exists e. split; [|exact A].
  unfold row_sel in *. rewrite B, D. rewrite Hsel. reflexivity.
Qed.

(* ... hence, after the batch that connects such a block, the basis of the row is the parent of
   the processed tip: the basis invariant fails for every selection that skips a stored row *)
Lemma skipped_row_goes_stale sel s b s' e :
  batch_g sel s [] [b] = Ok s' -> idx_eqb (b_parent b) (b_idx b) = false ->
  (forall ev, In ev (b_events b) -> ev_cid ev <> ce_cid e) ->
  In e (celems s) -> ce_basis e = Some (b_parent b) ->
  row_sel sel (contracts s) (renewed s) e = false ->
  tip s' = Some (b_idx b) /\ In e (celems s') /\ valid_at (tip s') (ce_basis e) = false.
Proof.
  unfold batch_g. cbn [fold_res bind]. destruct (apply_block_g sel s b) as [s1| |] eqn:E; cbn [bind]; try discriminate.
  intros [= <-] Hne Hev Hin Hb Hsel. cbn [tip celems last_idx rev app].
  split; [reflexivity|]. split; [exact (skipped_row_keeps_proof sel s b s1 e E Hev Hin Hsel)|].
  rewrite Hb. cbn [valid_at]. apply idx_eqb_neq. intros Q. apply idx_eqb_neq in Hne. congruence.
Qed.

(** * Histories with a renewal negotiated at RPC time; two narrowed selections refuted *)
Definition runs_g (sel : selection) (s : state) (l : list op) : state := fold_left (fun s o => fst (step_g sel s o)) l s.

(* WHERE c.renewed_to IS NULL *)
Definition sel_not_renewed : selection := fun _ rt => match rt with None => true | Some _ => false end.
(* WHERE c.resolution_index IS NULL (the contract is active) *)
Definition sel_unresolved : selection := fun st _ => match st with SActive => true | _ => false end.

Definition rb2 : block := {| b_idx := ix 2 5; b_parent := ix 1 2; b_events := [] |}.
Definition rb3 : block := {| b_idx := ix 3 6; b_parent := ix 2 5; b_events := [EResolved 1 KRenewed; EFormed 2 0] |}.
Definition rb3' : block := {| b_idx := ix 3 7; b_parent := ix 2 5; b_events := [] |}.
Definition rb4' : block := {| b_idx := ix 4 8; b_parent := ix 3 7; b_events := [] |}.
(* contract 1 formed in block 1; its renewal (contract 2) negotiated; a block without the renewal *)
Definition ren_ops1 : list op := [AddContract 1 0; Batch [] [wb0; wb1]; Renew 1 2 1; Batch [] [rb2]].
(* ... the renewal is confirmed in block 3 *)
Definition ren_ops2 : list op := ren_ops1 ++ [Batch [] [rb3]].
(* ... and reorged out: block 3 replaced by two blocks without it *)
Definition ren_ops3 : list op := ren_ops2 ++ [Batch [rb3] [rb3'; rb4']].

Ltac wf_step E :=
  match goal with
  | |- match ?b with _ => _ end =>
      let s' := fresh "s" in
      destruct b as [s'| |] eqn:E; [|vm_compute in E; discriminate|vm_compute in E; discriminate]
  end.

Lemma ren_wf : wf_ops init [] ren_ops3.
Proof.
  cbn [ren_ops3 ren_ops2 ren_ops1 app wf_ops].
  set (s0 := fst (step init (AddContract 1 0))).
  assert (batch s0 [] [wb0; wb1] = Ok (runs s0 [Batch [] [wb0; wb1]])) as E1 by (vm_compute; reflexivity).
  rewrite E1. split; [split; [reflexivity|wit_solve]|].
  set (s1 := fst (step (runs s0 [Batch [] [wb0; wb1]]) (Renew 1 2 1))).
  assert (batch s1 [] [rb2] = Ok (runs s1 [Batch [] [rb2]])) as E2 by (vm_compute; reflexivity).
  rewrite E2. split; [split; [reflexivity|wit_solve]|].
  set (s2 := runs s1 [Batch [] [rb2]]).
  assert (batch s2 [] [rb3] = Ok (runs s2 [Batch [] [rb3]])) as E3 by (vm_compute; reflexivity).
  rewrite E3. split; [split; [reflexivity|wit_solve]|].
  set (s3 := runs s2 [Batch [] [rb3]]).
  assert (batch s3 [rb3] [rb3'; rb4'] = Ok (runs s3 [Batch [rb3] [rb3'; rb4']])) as E4 by (vm_compute; reflexivity).
  rewrite E4. split; [split; [reflexivity|wit_solve]|exact I].
Qed.

Lemma wf_ops_app : forall l1 l2 s C, wf_ops s C (l1 ++ l2) -> wf_ops s C l1.
Proof.
  induction l1 as [|o t IH]; intros l2 s C H; [exact I|].
  destruct o as [rb|c ng|c r ng|rs bs| |]; cbn [app wf_ops] in *.
  - exact (IH l2 _ _ H).
  - exact (IH l2 _ _ H).
  - exact (IH l2 _ _ H).
  - destruct (batch s rs bs) as [s'| |]; [destruct H as [F H]; split; [exact F|]|..]; exact (IH l2 _ _ H).
  - exact (IH l2 _ _ H).
  - exact (IH l2 _ _ H).
Qed.

(* the history is a history of the code, and there: the element of contract 1 is valid at the tip
   while its renewal is negotiated but unconfirmed, after the renewal confirmed (both contracts
   have elements, contract 1 is resolved), and after the renewal was reorged out (contract 1 is
   unresolved again, the element of the renewal is dropped) *)
Lemma renewal_witness :
  reach (runs init ren_ops1) [rb2; wb1; wb0] 2 /\
  snd (step (runs init ren_ops1) Observe) =
    OState [(1%N, true, 0%N)] [(ix 0 1, true); (ix 1 2, true); (ix 2 5, true)] (Some (ix 2 5)) [(1%N, 2%N)] [(1%N, SActive); (2%N, SUnconfirmed)] /\
  alookup 1%N (contracts (runs init ren_ops1)) = Some SActive /\
  reach (runs init ren_ops2) [rb3; rb2; wb1; wb0] 3 /\
  snd (step (runs init ren_ops2) Observe) =
    OState [(1%N, true, 0%N); (2%N, true, 0%N)] [(ix 0 1, true); (ix 1 2, true); (ix 2 5, true); (ix 3 6, true)]
           (Some (ix 3 6)) [(1%N, 2%N)] [(1%N, SRenewed); (2%N, SActive)] /\
  alookup 1%N (contracts (runs init ren_ops2)) = Some SRenewed /\
  reach (runs init ren_ops3) [rb4'; rb3'; rb2; wb1; wb0] 4 /\
  snd (step (runs init ren_ops3) Observe) =
    OState [(1%N, true, 0%N)] [(ix 0 1, true); (ix 1 2, true); (ix 2 5, true); (ix 3 7, true); (ix 4 8, true)]
           (Some (ix 4 8)) [(1%N, 2%N)] [(1%N, SActive); (2%N, SUnconfirmed)] /\
  alookup 1%N (contracts (runs init ren_ops3)) = Some SActive.
Proof.
  pose proof ren_wf as W3.
  pose proof (wf_ops_app ren_ops2 _ init [] W3) as W2.
  pose proof (wf_ops_app ren_ops1 _ init [] W2) as W1.
  repeat split; try (vm_compute; reflexivity).
  - exact (runs_reach ren_ops1 init [] 0%N reach_init W1).
  - exact (runs_reach ren_ops2 init [] 0%N reach_init W2).
  - exact (runs_reach ren_ops3 init [] 0%N reach_init W3).
Qed.

(* the same history with the refresh narrowed to rows without renewed_to: after ONE block the
   element of contract 1 — active, unresolved, the host must still resolve it — is stale *)
Lemma narrowed_on_renewed_to_refuted :
  wf_ops init [] ren_ops1 /\
  alookup 1%N (contracts (runs_g sel_not_renewed init ren_ops1)) = Some SActive /\
  snd (step_g sel_not_renewed (runs_g sel_not_renewed init ren_ops1) Observe) =
    OState [(1%N, false, 0%N)] [(ix 0 1, true); (ix 1 2, true); (ix 2 5, true)] (Some (ix 2 5)) [(1%N, 2%N)] [(1%N, SActive); (2%N, SUnconfirmed)] /\
  (* and stays so when the renewal is reorged out *)
  snd (step_g sel_not_renewed (runs_g sel_not_renewed init ren_ops3) Observe) =
    OState [(1%N, false, 0%N)] [(ix 0 1, true); (ix 1 2, true); (ix 2 5, true); (ix 3 7, true); (ix 4 8, true)]
           (Some (ix 4 8)) [(1%N, 2%N)] [(1%N, SActive); (2%N, SUnconfirmed)] /\
  alookup 1%N (contracts (runs_g sel_not_renewed init ren_ops3)) = Some SActive.
Proof.
  pose proof ren_wf as W3.
  pose proof (wf_ops_app ren_ops2 _ init [] W3) as W2.
  pose proof (wf_ops_app ren_ops1 _ init [] W2) as W1.
  split; [exact W1|]. repeat split; vm_compute; reflexivity.
Qed.

(* the refresh narrowed to unresolved contracts: harmless until a reorg disconnects the
   resolution — ren_ops3 is such a history: contract 1 is active again with a stale element *)
Lemma narrowed_on_resolution_refuted :
  wf_ops init [] ren_ops3 /\
  alookup 1%N (contracts (runs_g sel_unresolved init ren_ops3)) = Some SActive /\
  snd (step_g sel_unresolved (runs_g sel_unresolved init ren_ops3) Observe) =
    OState [(1%N, false, 0%N)] [(ix 0 1, true); (ix 1 2, true); (ix 2 5, true); (ix 3 7, true); (ix 4 8, true)]
           (Some (ix 4 8)) [(1%N, 2%N)] [(1%N, SActive); (2%N, SUnconfirmed)].
Proof. split; [exact ren_wf|]. split; vm_compute; reflexivity. Qed.

(** * Completeness: on histories without reset a confirmed contract has its element *)
Definition ecomplete (s : state) : Prop :=
  forall c st, alookup c (contracts s) = Some st -> unconf st = false -> exists e, In e (celems s) /\ ce_cid e = c.

Lemma apply_event_ecomplete b s e s' : ecomplete s -> apply_event b s e = Ok s' -> ecomplete s'.
Proof.
  intros EC. unfold apply_event. destruct e as [c rv|c o nw|c k].
  - destruct (alookup c (contracts s)) as [st|] eqn:L; [|intros [= <-]; exact EC].
    assert (forall cs', (forall c', c' <> c -> alookup c' cs' = alookup c' (contracts s)) ->
              ecomplete (set_c s cs' (cset c {| ce_cid := c; ce_basis := Some (b_idx b); ce_born := b_idx b; ce_rev := rv |} (celems s)))) as G.
    { intros cs' Hcs c' st' A B. cbn [celems contracts set_c] in *. destruct (N.eq_dec c' c) as [->|Hne].
      - eexists. split; [left; reflexivity|reflexivity].
      - rewrite (Hcs c' Hne) in A. destruct (EC c' st' A B) as [x [Hx Q]]. exists x. split; [|exact Q].
        unfold cset. right. apply filter_In. split; [exact Hx|]. destruct (ce_cid x =? c)%N eqn:Q2; [lia|reflexivity]. }
    destruct st; intros [= <-]; apply G; intros c' Hne; auto; apply alookup_aset_other; exact Hne.
  - destruct (known s c); intros [= <-]; [|exact EC].
    intros c' st' A B. cbn [celems contracts set_c] in *. destruct (EC c' st' A B) as [x [Hx Q]].
    exists (if (ce_cid x =? c)%N then {| ce_cid := ce_cid x; ce_basis := ce_basis x; ce_born := ce_born x; ce_rev := nw |} else x).
    split; [unfold crev; apply in_map_iff; exists x; split; [reflexivity|exact Hx]|].
    destruct (ce_cid x =? c)%N; exact Q.
  - destruct (alookup c (contracts s)) as [st|] eqn:L; [|intros [= <-]; exact EC].
    destruct (cstatus_eqb st (kstatus k)); [intros [= <-]; exact EC|].
    destruct st; try discriminate. intros [= <-]. intros c' st' A B. cbn [celems contracts set_c] in *.
    destruct (N.eq_dec c' c) as [->|Hne].
    + apply (EC c SActive L). reflexivity.
    + rewrite alookup_aset_other in A by exact Hne. exact (EC c' st' A B).
Qed.

Lemma revert_event_ecomplete s e s' : ecomplete s -> revert_event s e = Ok s' -> ecomplete s'.
Proof.
  intros EC. unfold revert_event. destruct e as [c rv|c o nw|c k].
  - destruct (alookup c (contracts s)) as [st|] eqn:L; [|intros [= <-]; exact EC].
    destruct st; try discriminate. intros [= <-]. intros c' st' A B. cbn [celems contracts set_c] in *.
    destruct (N.eq_dec c' c) as [->|Hne].
    + rewrite alookup_aset_same in A. injection A as <-. discriminate.
    + rewrite alookup_aset_other in A by exact Hne. destruct (EC c' st' A B) as [x [Hx Q]]. exists x. split; [|exact Q].
      unfold cdel. apply filter_In. split; [exact Hx|]. destruct (ce_cid x =? c)%N eqn:Q2; [lia|reflexivity].
  - destruct (known s c); intros [= <-]; [|exact EC].
    intros c' st' A B. cbn [celems contracts set_c] in *. destruct (EC c' st' A B) as [x [Hx Q]].
    exists (if (ce_cid x =? c)%N then {| ce_cid := ce_cid x; ce_basis := ce_basis x; ce_born := ce_born x; ce_rev := o |} else x).
    split; [unfold crev; apply in_map_iff; exists x; split; [reflexivity|exact Hx]|].
    destruct (ce_cid x =? c)%N; exact Q.
  - destruct (alookup c (contracts s)) as [st|] eqn:L; [|intros [= <-]; exact EC].
    destruct (cstatus_eqb st (kstatus k)) eqn:Q; [|discriminate]. intros [= <-].
    intros c' st' A B. cbn [celems contracts set_c] in *. destruct (N.eq_dec c' c) as [->|Hne].
    + apply (EC c st L). destruct st, k; try discriminate; reflexivity.
    + rewrite alookup_aset_other in A by exact Hne. exact (EC c' st' A B).
Qed.

Lemma apply_events_ecomplete b : forall evs s s', ecomplete s -> fold_res (apply_event b) evs s = Ok s' -> ecomplete s'.
Proof.
  induction evs as [|e t IH]; intros s s' EC; cbn [fold_res]; [intros [= <-]; exact EC|].
  destruct (apply_event b s e) as [s1| |] eqn:E; cbn [bind]; try discriminate.
  exact (IH s1 s' (apply_event_ecomplete b s e s1 EC E)).
Qed.

Lemma revert_events_ecomplete : forall evs s s', ecomplete s -> fold_res revert_event evs s = Ok s' -> ecomplete s'.
Proof.
  induction evs as [|e t IH]; intros s s' EC; cbn [fold_res]; [intros [= <-]; exact EC|].
  destruct (revert_event s e) as [s1| |] eqn:E; cbn [bind]; try discriminate.
  exact (IH s1 s' (revert_event_ecomplete s e s1 EC E)).
Qed.

Lemma cupd_revert_keeps b : forall l l', cupd_revert b l = Ok l' ->
  forall e, In e l -> exists e', In e' l' /\ ce_cid e' = ce_cid e.
Proof.
  induction l as [|x t IH]; intros l'; cbn [cupd_revert]; [intros _ e []|].
  destruct (upd_revert b (ce_basis x) (ce_born x)) as [y| |]; cbn [bind]; try discriminate.
  destruct (cupd_revert b t) as [t'| |] eqn:Et; cbn [bind]; try discriminate.
  intros [= <-] e [<-|He].
  - eexists. split; [left; reflexivity|reflexivity].
  - destruct (IH t' eq_refl e He) as [e' [He' Q]]. exists e'. split; [right; exact He'|exact Q].
Qed.

Lemma apply_block_ecomplete s b s' : ecomplete s -> apply_block s b = Ok s' -> ecomplete s'.
Proof.
  intros EC H. destruct (apply_block_shape s b s' H) as [s1 [He [Hc [_ [_ Hk]]]]].
  pose proof (apply_events_ecomplete b _ s s1 EC He) as EC1.
  intros c st A B. rewrite Hk, alookup_reject in A.
  destruct (alookup c (contracts s1)) as [st1|] eqn:L1; [|discriminate]. cbn in A. injection A as <-.
  rewrite rejst_conf in B. destruct (EC1 c st1 L1 B) as [x [Hx Q]].
  exists (upd1_apply b x). split; [rewrite Hc; unfold cupd_apply; apply in_map; exact Hx|exact Q].
Qed.

Lemma revert_block_ecomplete s b s' : ecomplete s -> revert_block s b = Ok s' -> ecomplete s'.
Proof.
  intros EC H. destruct (revert_block_shape s b s' H) as [s1 [He [Hc [_ [_ Hk]]]]].
  pose proof (revert_events_ecomplete _ s s1 EC He) as EC1.
  intros c st A B. rewrite Hk in A. destruct (EC1 c st A B) as [x [Hx Q]].
  destruct (cupd_revert_keeps b _ _ Hc x Hx) as [x' [Hx' Q']]. exists x'. split; [exact Hx'|congruence].
Qed.

Lemma applies_ecomplete : forall bs s s', ecomplete s -> fold_res apply_block bs s = Ok s' -> ecomplete s'.
Proof.
  induction bs as [|b t IH]; intros s s' EC; cbn [fold_res]; [intros [= <-]; exact EC|].
  destruct (apply_block s b) as [s1| |] eqn:E; cbn [bind]; try discriminate.
  exact (IH s1 s' (apply_block_ecomplete s b s1 EC E)).
Qed.

Lemma reverts_ecomplete : forall rs s s', ecomplete s -> fold_res revert_block rs s = Ok s' -> ecomplete s'.
Proof.
  induction rs as [|b t IH]; intros s s' EC; cbn [fold_res]; [intros [= <-]; exact EC|].
  destruct (revert_block s b) as [s1| |] eqn:E; cbn [bind]; try discriminate.
  exact (IH s1 s' (revert_block_ecomplete s b s1 EC E)).
Qed.

Lemma ecomplete_ext s s' : ecomplete s -> contracts s' = contracts s -> celems s' = celems s -> ecomplete s'.
Proof. unfold ecomplete. intros H -> ->. exact H. Qed.

Lemma batch_ecomplete s rs bs s' : ecomplete s -> batch s rs bs = Ok s' -> ecomplete s'.
Proof.
  intros EC H. destruct rs as [|r rs'] eqn:Ers; [destruct bs as [|b bs'] eqn:Ebs|].
  - cbn in H. injection H as <-. exact EC.
  - destruct (batch_phases s [] (b :: bs') s' H) as [s1 [s2 [H1 [H2 [A [B _]]]]]]; [right; discriminate|].
    cbn in H1. injection H1 as <-. exact (ecomplete_ext s2 s' (applies_ecomplete _ s s2 EC H2) A B).
  - destruct (batch_phases s (r :: rs') bs s' H) as [s1 [s2 [H1 [H2 [A [B _]]]]]]; [left; discriminate|].
    exact (ecomplete_ext s2 s' (applies_ecomplete _ s1 s2 (reverts_ecomplete _ s s1 EC H1) H2) A B).
Qed.

Lemma ecomplete_new_row s c : ecomplete s ->
  forall c' st, alookup c' (aset c SUnconfirmed (contracts s)) = Some st -> unconf st = false ->
  exists e, In e (celems s) /\ ce_cid e = c'.
Proof.
  intros EC c' st A B. destruct (N.eq_dec c' c) as [->|Hne].
  - rewrite alookup_aset_same in A. injection A as <-. discriminate.
  - rewrite alookup_aset_other in A by exact Hne. exact (EC c' st A B).
Qed.

Lemma lreach_ecomplete s C : lreach s C -> ecomplete s.
Proof.
  induction 1 as [|s C rb R IH|s C c ng R IH Hm|s C rs bs s' R IH F LC H|s C c r ng R IH Hm|s C bss s' R IH EC H].
  - intros c st A. discriminate.
  - exact IH.
  - unfold step; cbn [step_g]. destruct (known s c); cbn [fst]; [exact IH|].
    intros c' st A B. cbn [celems contracts] in *. exact (ecomplete_new_row s c IH c' st A B).
  - exact (batch_ecomplete s rs bs s' IH H).
  - unfold step; cbn [step_g]. unfold renew. destruct (known s c && negb (known s r)); cbn [fst]; [|exact IH].
    intros c' st A B. cbn [celems contracts] in *. exact (ecomplete_new_row s r IH c' st A B).
  - (* reset + rescan: the rescan restores the element of every contract the chain confirms *)
    destruct (rescan_scan s C bss (lreach_tinv s C R) EC) as [s2 [E2 [[_ [LC [_ [SI _]]]] [EO _]]]].
    rewrite H in E2. injection E2 as <-.
    intros c st A B. apply EO; [unfold known; rewrite A; reflexivity|].
    apply (cstat_conf_formed C c LC). destruct (SI c st A) as [<-|[-> _]]; [exact B|discriminate].
Qed.

(* on lifecycle histories — resets followed by the rescan of the processed chain included — a
   contract of the host whose formation is on the processed chain has a stored element: the converse
   of [contract_elements_formed_on_chain]; elements are dropped exactly when the formation is reverted *)
Lemma confirmed_contract_has_element s C c : lreach s C -> known s c = true ->
  (exists b, In b C /\ formed_in c b) -> exists e, In e (celems s) /\ ce_cid e = c.
Proof.
  intros R K [b [Hb Hf]]. destruct (lreach_tinv s C R) as [_ [LC [_ [SI _]]]].
  unfold known in K. destruct (alookup c (contracts s)) as [st|] eqn:L; [|discriminate].
  apply (lreach_ecomplete s C R c st L).
  pose proof (cstat_formed C c b LC Hb Hf) as U. rewrite (stat_rel_conf _ _ U (SI c st L)). exact U.
Qed.

Lemma rescan_restores_elements s C bss s' c : lreach s C -> concat bss = rev C ->
  run_applies (reset s) bss = Ok s' -> known s c = true -> (exists b, In b C /\ formed_in c b) ->
  exists e, In e (celems s') /\ ce_cid e = c.
Proof.
  intros R EC H K F. destruct (rescan_never_fails s C bss R EC) as [s2 [E2 [R2 K2]]].
  rewrite H in E2. injection E2 as <-. apply (confirmed_contract_has_element s' C c R2); [rewrite K2; exact K|exact F].
Qed.

(* the contract rows follow the processed chain: pending until the formation is on it (rejected once
   the reject buffer has passed, active again as soon as the formation confirms after all), active
   from the formation to the resolution, then what the resolution says *)
Lemma status_follows_chain s C c st : lreach s C -> alookup c (contracts s) = Some st ->
  st = cstat C c \/ (st = SRejected /\ cstat C c = SUnconfirmed).
Proof. intros R A. exact (proj1 (proj2 (proj2 (proj2 (lreach_tinv s C R)))) c st A). Qed.

(** * Statements for the props file *)
(* whatever renewal has been negotiated for it and whatever its status: a stored element's proof is
   for the processed tip *)
Lemma element_valid_whatever_renewed s C hm e : reach s C hm -> In e (celems s) ->
  confirmed_row (contracts s) (ce_cid e) /\ exists t, tip s = Some t /\ ce_basis e = Some t /\
  valid_at (tip s) (ce_basis e) = true.
Proof.
  intros R He. split; [exact (reach_econf s C hm R e He)|].
  pose proof (basis_at_tip s C hm R) as B. destruct C as [|b C].
  - destruct B as [Z _]. rewrite Z in He. destruct He.
  - destruct B as [T [BC _]]. pose proof (BC e He) as V. exists (b_idx b). split; [exact T|]. split; [|exact V].
    rewrite T in V. cbn [valid_at] in V. destruct (ce_basis e) as [x|]; [|discriminate].
    apply idx_eqb_eq in V. congruence.
Qed.
