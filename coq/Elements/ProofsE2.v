(* Elements/ProofsE2.v — concrete histories with the shapes WP-E2 added: a block that revises AND renews
   one contract (connected, then disconnected by a reorg), a contract rejected and confirmed late, a
   reset in the middle of the history followed by the rescan of the processed chain. *)
From Coq Require Import Lia ZifyBool ZifyN.
From HostdBase Require Import Base.
From HostdElements Require Import Model Proofs ProofsTotal ProofsRescan ProofsSel.

(** * Lifecycle histories as operation lists *)
Fixpoint wf_lops (s : state) (C : list block) (l : list op) : Prop :=
  match l with
  | [] => True
  | Configure rb :: t => wf_lops (fst (step s (Configure rb))) C t
  | AddContract c ng :: t => ~ mentioned c C /\ wf_lops (fst (step s (AddContract c ng))) C t
  | Renew c r ng :: t => ~ mentioned r C /\ wf_lops (fst (step s (Renew c r ng))) C t
  | Batch rs bs :: t =>
      match batch s rs bs with
      | Ok s' => wf_batch C rs bs /\ lifecycle_ok (chain_after C rs bs) /\ wf_lops s' (chain_after C rs bs) t
      | _ => False
      end
  | Reset :: _ => False          (* resets enter lifecycle histories through [lreach_rescan] *)
  | Observe :: t => wf_lops s C t
  end.

Lemma runs_lreach : forall l s C hm, lreach s C -> wf_lops s C l -> lreach (runs s l) (fst (ghost s C hm l)).
Proof.
  induction l as [|o t IH]; intros s C hm R W; [exact R|].
  destruct o as [rb|c ng|c r ng|rs bs| |]; cbn [wf_lops ghost] in *; unfold runs; cbn [fold_left].
  - apply IH; [|exact W]. apply lreach_config. exact R.
  - destruct W as [M W]. apply IH; [|exact W]. apply lreach_add; assumption.
  - destruct W as [M W]. apply IH; [|exact W]. apply lreach_renew; assumption.
  - unfold step at 2; cbn [step_g]. fold (batch s rs bs). destruct (batch s rs bs) as [s'| |] eqn:E; cbn [fst]; try contradiction.
    destruct W as [F [LC W]]. apply IH; [|exact W]. exact (lreach_batch s C rs bs s' R F LC E).
  - contradiction.
  - unfold step at 2; cbn [step_g fst]. apply IH; assumption.
Qed.

(** * The history *)
(* block 2 revises contract 1 (0 -> 3) AND renews it into contract 2 *)
Definition sb2 : block :=
  {| b_idx := ix 2 5; b_parent := ix 1 2; b_events := [ERevised 1 0 3; EResolved 1 KRenewed; EFormed 2 0] |}.
Definition sb2' : block := {| b_idx := ix 2 6; b_parent := ix 1 2; b_events := [] |}.
Definition sb3' : block := {| b_idx := ix 3 7; b_parent := ix 2 6; b_events := [] |}.
Definition sb4' : block := {| b_idx := ix 4 8; b_parent := ix 3 7; b_events := [EFormed 3 0] |}.
(* reject buffer 2; contract 3 is negotiated at height 0 and not confirmed *)
Definition e2_ops1 : list op :=
  [Configure 2; AddContract 1 0; AddContract 3 0; Batch [] [wb0; wb1]; Renew 1 2 1; Batch [] [sb2]].
(* the block is reorged out; the new branch reaches height 3: contract 3 (0 < 3 - 2) is rejected *)
Definition e2_ops2 : list op := e2_ops1 ++ [Batch [sb2] [sb2'; sb3']].
(* ... and confirmed after all *)
Definition e2_ops3 : list op := e2_ops2 ++ [Batch [] [sb4']].
(* ResetChainState, then the same chain again in two batches *)
Definition e2_scan : list (list block) := [[wb0; wb1]; [sb2'; sb3'; sb4']].

Ltac mention_solve :=
  let b := fresh "b" in let e := fresh "e" in let Hb := fresh "Hb" in let He := fresh "He" in let Ec := fresh "Ec" in
  intros [b [e [Hb [He Ec]]]]; cbn in Hb;
  repeat (destruct Hb as [<-|Hb]; [cbn in He; repeat (destruct He as [<-|He]; [discriminate Ec|]); destruct He|]);
  destruct Hb.

(* per contract: consider the ids that occur, every other id has no change *)
Ltac lc_block ids :=
  let c := fresh "c" in intros c;
  let rec go l :=
    match l with
    | nil => idtac
    | cons ?i ?t => destruct (N.eq_dec c i) as [->|?]; [cbn; intuition (auto; try discriminate)|go t]
    end in
  go ids;
  (rewrite evs_of_none; [cbn; auto|]);
  let e := fresh "e" in let He := fresh "He" in
  intros e He; cbn in He; repeat (destruct He as [<-|He]; [cbn; congruence|]); destruct He.

Lemma e2_lc1 : lifecycle_ok [sb2; wb1; wb0].
Proof.
  cbn [lifecycle_ok]. split; [split; [split; [exact I|]|]|].
  - lc_block (@nil N).
  - lc_block [1%N].
  - lc_block [1%N; 2%N].
Qed.

Lemma e2_lc2 : lifecycle_ok [sb3'; sb2'; wb1; wb0].
Proof.
  cbn [lifecycle_ok]. split; [split; [split; [split; [exact I|]|]|]|].
  - lc_block (@nil N).
  - lc_block [1%N].
  - lc_block (@nil N).
  - lc_block (@nil N).
Qed.

Lemma e2_lc3 : lifecycle_ok [sb4'; sb3'; sb2'; wb1; wb0].
Proof.
  cbn [lifecycle_ok]. split; [exact e2_lc2|]. lc_block [3%N].
Qed.

Ltac lstep E :=
  match goal with
  | |- match ?b with _ => _ end =>
      let s' := fresh "s" in
      destruct b as [s'| |] eqn:E; [vm_compute in E; injection E as <-|vm_compute in E; discriminate|vm_compute in E; discriminate]
  end.

Lemma e2_wf : wf_lops init [] e2_ops3.
Proof.
  cbn [e2_ops3 e2_ops2 e2_ops1 app wf_lops].
  split; [mention_solve|]. split; [mention_solve|].
  lstep E1. split; [split; [reflexivity|wit_solve]|]. split; [exact (lifecycle_app [sb2] _ e2_lc1)|].
  split; [mention_solve|].
  lstep E2. split; [split; [reflexivity|wit_solve]|]. split; [exact e2_lc1|].
  lstep E3. split; [split; [reflexivity|wit_solve]|]. split; [exact e2_lc2|].
  lstep E4. split; [split; [reflexivity|wit_solve]|]. split; [exact e2_lc3|exact I].
Qed.

Lemma wf_lops_app : forall l1 l2 s C, wf_lops s C (l1 ++ l2) -> wf_lops s C l1.
Proof.
  induction l1 as [|o t IH]; intros l2 s C H; [exact I|].
  destruct o as [rb|c ng|c r ng|rs bs| |]; cbn [app wf_lops] in *.
  - exact (IH l2 _ _ H).
  - destruct H as [M H]. split; [exact M|exact (IH l2 _ _ H)].
  - destruct H as [M H]. split; [exact M|exact (IH l2 _ _ H)].
  - destruct (batch s rs bs) as [s'| |]; [|contradiction|contradiction].
    destruct H as [F [LC H]]. split; [exact F|]. split; [exact LC|exact (IH l2 _ _ H)].
  - contradiction.
  - exact (IH l2 _ _ H).
Qed.

(* one block revises and renews contract 1: the store keeps the REVISED contract (revision 3) with a
   proof for the tip and the row is renewed; the block is disconnected: the store holds the contract
   as it was BEFORE the block (revision 0) with a proof for the new tip, the row is active again, the
   renewal's element is gone; contract 3 is rejected at height 3 and confirmed at height 4: it has
   its element; ResetChainState + the same chain again: the same observation *)
Lemma e2_witness :
  lreach (runs init e2_ops1) [sb2; wb1; wb0] /\
  snd (step (runs init e2_ops1) Observe) =
    OState [(1%N, true, 3%N); (2%N, true, 0%N)] [(ix 0 1, true); (ix 1 2, true); (ix 2 5, true)] (Some (ix 2 5))
           [(1%N, 2%N)] [(1%N, SRenewed); (2%N, SActive); (3%N, SUnconfirmed)] /\
  lreach (runs init e2_ops2) [sb3'; sb2'; wb1; wb0] /\
  snd (step (runs init e2_ops2) Observe) =
    OState [(1%N, true, 0%N)] [(ix 0 1, true); (ix 1 2, true); (ix 2 6, true); (ix 3 7, true)] (Some (ix 3 7))
           [(1%N, 2%N)] [(1%N, SActive); (2%N, SUnconfirmed); (3%N, SRejected)] /\
  lreach (runs init e2_ops3) [sb4'; sb3'; sb2'; wb1; wb0] /\
  snd (step (runs init e2_ops3) Observe) =
    OState [(1%N, true, 0%N); (3%N, true, 0%N)]
           [(ix 0 1, true); (ix 1 2, true); (ix 2 6, true); (ix 3 7, true); (ix 4 8, true)] (Some (ix 4 8))
           [(1%N, 2%N)] [(1%N, SActive); (2%N, SRejected); (3%N, SActive)] /\
  concat e2_scan = rev [sb4'; sb3'; sb2'; wb1; wb0] /\
  exists s', run_applies (reset (runs init e2_ops3)) e2_scan = Ok s' /\
    snd (step s' Observe) = snd (step (runs init e2_ops3) Observe).
Proof.
  pose proof e2_wf as W3.
  pose proof (wf_lops_app e2_ops2 _ init [] W3) as W2.
  pose proof (wf_lops_app e2_ops1 _ init [] W2) as W1.
  split; [exact (runs_lreach e2_ops1 init [] 0%N lreach_init W1)|]. split; [vm_compute; reflexivity|].
  split; [exact (runs_lreach e2_ops2 init [] 0%N lreach_init W2)|]. split; [vm_compute; reflexivity|].
  split; [exact (runs_lreach e2_ops3 init [] 0%N lreach_init W3)|]. split; [vm_compute; reflexivity|].
  split; [reflexivity|].
  destruct (run_applies (reset (runs init e2_ops3)) e2_scan) as [s'| |] eqn:E;
    [|vm_compute in E; discriminate|vm_compute in E; discriminate].
  exists s'. split; [reflexivity|]. vm_compute in E. injection E as <-. vm_compute. reflexivity.
Qed.

(** * A reorg below the position of a rescan in progress (refuted; known finding)
   contract 1 is formed in block 1 and resolved in block 2.  ResetChainState; the rescan has processed
   blocks 0 and 1 again (the formation met the row "successful": transition skipped, element stored)
   when a reorg replaces block 1: RevertContracts finds the row successful, not active, and
   revertV2ContractFormation panics ("unexpected contract state transition").  The batch is
   well-formed and the chain it leads to obeys the lifecycle: c17_update_never_fails does not extend
   to states in the middle of a rescan. *)
Definition rr2 : block := {| b_idx := ix 2 5; b_parent := ix 1 2; b_events := [EResolved 1 KSuccessful] |}.
Definition rr_ops : list op := [AddContract 1 0; Batch [] [wb0; wb1]; Batch [] [rr2]].

Lemma rr_lc : lifecycle_ok [rr2; wb1; wb0].
Proof.
  cbn [lifecycle_ok]. split; [split; [split; [exact I|]|]|].
  - lc_block (@nil N).
  - lc_block [1%N].
  - lc_block [1%N].
Qed.

Lemma rr_lc' : lifecycle_ok [wb1'; wb0].
Proof.
  cbn [lifecycle_ok]. split; [split; [exact I|]|].
  - lc_block (@nil N).
  - lc_block (@nil N).
Qed.

Lemma rr_wf : wf_lops init [] rr_ops.
Proof.
  cbn [rr_ops wf_lops]. split; [mention_solve|].
  lstep E1. split; [split; [reflexivity|wit_solve]|]. split; [exact (lifecycle_app [rr2] _ rr_lc)|].
  lstep E2. split; [split; [reflexivity|wit_solve]|]. split; [exact rr_lc|exact I].
Qed.

Lemma reorg_below_rescan_position_refuted :
  lreach (runs init rr_ops) [rr2; wb1; wb0] /\
  exists s1, run_applies (reset (runs init rr_ops)) [[wb0; wb1]] = Ok s1 /\
    alookup 1%N (contracts s1) = Some SSuccessful /\
    wf_batch [wb1; wb0] [wb1] [wb1'] /\ lifecycle_ok (chain_after [wb1; wb0] [wb1] [wb1']) /\
    batch s1 [wb1] [wb1'] = Panic.
Proof.
  split; [exact (runs_lreach rr_ops init [] 0%N lreach_init rr_wf)|].
  destruct (run_applies (reset (runs init rr_ops)) [[wb0; wb1]]) as [s1| |] eqn:E;
    [|vm_compute in E; discriminate|vm_compute in E; discriminate].
  exists s1. split; [reflexivity|]. vm_compute in E. injection E as <-.
  split; [vm_compute; reflexivity|]. split; [split; [reflexivity|wit_solve]|].
  split; [exact rr_lc'|vm_compute; reflexivity].
Qed.
