(* C17 — Stored Merkle proofs stay valid at the processed tip.   PARTIAL, see below.
   Statements only; every proof is [exact lemma].

   What the model can carry (Model.v header): a stored element has a *basis*, the chain index
   of the consensus state its proof verifies against; core's ApplyUpdate/RevertUpdate proof
   updaters move a basis from the parent to the child resp. back, leave a leaf the applied
   block itself created alone, panic when asked to revert an element whose leaf the reverted
   block created, and garble everything else.  The theorems are about hostd's ORDER of
   deleting, inserting and updating rows under that abstraction — that the proofs core
   computes are cryptographically valid, and that the transaction pool accepts what is built
   from them, is core's/coreutils' and is only validated on the implementation by the harness
   (reference proofs recomputed from the best chain, consensus.ValidateV2Transaction on
   revisions / storage proofs / expirations built from the stored rows).  Hence the suffix
   _partial on the statements that speak about validity.

   Vocabulary (Proofs.v): [reach s C hm] — s reachable from the initial state by any sequence
   of contract additions, renewals negotiated at RPC time (RenewV2Contract: renewed_to of the old
   contract is set and a pending row for the new one added, with no chain event — the renewal
   may then be confirmed by a later batch, never, or be confirmed and reverted: the batches are
   arbitrary), batches and resets; C = processed best chain since the last reset
   (head = tip), hm = highest height processed since then.  [wf_batch]: a batch reverts the
   top blocks of C (with their own content) and the resulting chain is [linked] (parent
   pointers, consecutive heights, unique block ids).  Nothing is assumed about which contract
   events the blocks carry. *)
From HostdBase Require Import Base.
From HostdElements Require Import Model Proofs ProofsTotal ProofsSel.

(* every well-formed operation list run through the model's [step] ends in a [reach]able state *)
Theorem c17_histories : forall l, wf_ops init [] l ->
  reach (runs init l) (fst (ghost init [] 0%N l)) (snd (ghost init [] 0%N l)).
Proof. exact (fun l => runs_reach l init [] 0%N reach_init). Qed.
Print Assumptions c17_histories.

(* after every batch of every history — reorgs of any depth, any batch split — every stored
   contract element and every stored chain-index element carries a proof whose basis is the
   processed tip (what V2ContractElement reports as basis), and the tip marker is the tip *)
Theorem c17_basis_is_processed_tip_partial : forall s C hm, reach s C hm ->
  match C with
  | [] => celems s = [] /\ ielems s = []
  | b :: _ => tip s = Some (b_idx b) /\
              (forall e, In e (celems s) -> valid_at (tip s) (ce_basis e) = true) /\
              (forall e, In e (ielems s) -> valid_at (tip s) (ie_basis e) = true)
  end.
Proof. exact basis_at_tip. Qed.
Print Assumptions c17_basis_is_processed_tip_partial.

(* stored chain-index elements: indices of the processed best chain only (those of disconnected
   blocks are removed), inside the 144-block retention window, and every best-chain block within
   144 of the highest processed height since the last reset is stored *)
Theorem c17_index_elements : forall s C hm, reach s C hm ->
  (forall e, In e (ielems s) -> (exists c, In c C /\ ie_idx e = b_idx c) /\
     ((chainIndexBuffer < tip_h C)%N -> (tip_h C - chainIndexBuffer < ih (ie_idx e))%N)) /\
  (forall c, In c C -> ((chainIndexBuffer < hm)%N -> (hm - chainIndexBuffer < ih (b_idx c))%N) ->
     In (b_idx c) (ikeys s)) /\
  (tip_h C <= hm)%N.
Proof. exact index_set. Qed.
Print Assumptions c17_index_elements.

(* a stored contract element belongs to a contract whose formation is in a block of the processed
   best chain: the elements of contracts whose formation was reverted are dropped *)
Theorem c17_formation_reverted_element_dropped : forall s C hm, reach s C hm ->
  forall e, In e (celems s) -> exists c, In c C /\ ce_born e = b_idx c /\ formed_in (ce_cid e) c.
Proof. exact contract_elements_formed_on_chain. Qed.
Print Assumptions c17_formation_reverted_element_dropped.

(* the update never panics or fails — in particular the revert order (revert contracts, delete the
   reverted block's chain index element, only then refresh every remaining proof) never hands core
   a leaf the reverted block created — for every history that obeys the contract lifecycle
   ([lifecycle_ok]: a contract is formed once, revised/resolved only while active, at most one
   event per contract and block; contracts are added before their formation is processed).
   [lreach] is [reach] without resets, restricted to such histories. *)
Theorem c17_update_never_fails : forall s C rs bs, lreach s C -> wf_batch C rs bs ->
  lifecycle_ok (chain_after C rs bs) -> exists s', batch s rs bs = Ok s'.
Proof. exact batch_never_fails. Qed.
Print Assumptions c17_update_never_fails.

Theorem c17_lifecycle_histories_are_histories : forall s C, lreach s C -> exists hm, reach s C hm.
Proof. exact lreach_reach. Qed.
Print Assumptions c17_lifecycle_histories_are_histories.

(* ResetChainState empties both element tables *)
Theorem c17_reset : forall s, celems (reset s) = [] /\ ielems (reset s) = [] /\ tip (reset s) = None.
Proof. exact reset_empties. Qed.
Print Assumptions c17_reset.

(* non-vacuity: a contract is formed in block 1 and revised in block 2 (all elements valid at the
   tip); a reorg then disconnects both blocks and connects another block 1: the contract element
   is gone, the index elements are those of the new chain, valid at its tip *)
Example c17_nonvacuous :
  reach (runs init wit_ops1) [wb2; wb1; wb0] 2 /\
  snd (step (runs init wit_ops1) Observe) =
    OState [(1%N, true, 2%N)] [(ix 0 1, true); (ix 1 2, true); (ix 2 3, true)] (Some (ix 2 3)) [] /\
  reach (runs init wit_ops) [wb1'; wb0] 2 /\
  snd (step (runs init wit_ops) Observe) = OState [] [(ix 0 1, true); (ix 1 4, true)] (Some (ix 1 4)) [].
Proof. exact nonvacuous_witness. Qed.

(** * Which rows the refresh touches; renewals negotiated but not (yet) confirmed *)

(* RenewV2Contract is no chain event: element tables and tip marker are untouched *)
Theorem c17_renewal_negotiation_leaves_elements : forall s c r,
  let s' := fst (step s (Renew c r)) in celems s' = celems s /\ ielems s' = ielems s /\ tip s' = tip s.
Proof. exact renew_fields. Qed.
Print Assumptions c17_renewal_negotiation_leaves_elements.

(* in every reachable state — in particular while a renewal of the contract is negotiated and
   unconfirmed, after it was reverted, or if it never confirms — every stored contract element
   belongs to a confirmed contract row (active or resolved; never pending/rejected), and its proof
   is for the processed tip, whatever the row's status and renewed_to *)
Theorem c17_every_stored_element_refreshed_partial : forall s C hm e, reach s C hm -> In e (celems s) ->
  confirmed_row (contracts s) (ce_cid e) /\
  exists t, tip s = Some t /\ ce_basis e = Some t /\ valid_at (tip s) (ce_basis e) = true.
Proof. exact element_valid_whatever_renewed. Qed.
Print Assumptions c17_every_stored_element_refreshed_partial.

(* the selection of the refresh may be any predicate on (status, renewed_to) that covers the
   confirmed rows: such a model reaches only states of the code's model (which reads every row),
   so everything above holds for it *)
Theorem c17_covering_selection_suffices : forall sel s C hm,
  covering sel -> greach sel s C hm -> reach s C hm.
Proof. exact covering_selection_is_code. Qed.
Print Assumptions c17_covering_selection_suffices.

(* ... and a selection that skips a stored row falsifies basis = tip: across a block that has no
   event of the contract the row keeps its proof, whose basis is then the parent of the tip *)
Theorem c17_skipped_row_goes_stale : forall sel s b s' e,
  batch_g sel s [] [b] = Ok s' -> idx_eqb (b_parent b) (b_idx b) = false ->
  (forall ev, In ev (b_events b) -> ev_cid ev <> ce_cid e) ->
  In e (celems s) -> ce_basis e = Some (b_parent b) ->
  row_sel sel (contracts s) (renewed s) e = false ->
  tip s' = Some (b_idx b) /\ In e (celems s') /\ valid_at (tip s') (ce_basis e) = false.
Proof. exact skipped_row_goes_stale. Qed.
Print Assumptions c17_skipped_row_goes_stale.

(* the refresh narrowed to rows WHERE renewed_to IS NULL: on the history "contract 1 formed,
   renewal negotiated, one block without the renewal" the element of contract 1 — still active,
   the host must resolve it — is not valid at the tip; nor after the renewal confirmed and was
   reorged out *)
Theorem c17_selection_narrowed_on_renewed_to_refuted :
  wf_ops init [] ren_ops1 /\
  alookup 1%N (contracts (runs_g sel_not_renewed init ren_ops1)) = Some SActive /\
  snd (step_g sel_not_renewed (runs_g sel_not_renewed init ren_ops1) Observe) =
    OState [(1%N, false, 0%N)] [(ix 0 1, true); (ix 1 2, true); (ix 2 5, true)] (Some (ix 2 5)) [(1%N, 2%N)] /\
  snd (step_g sel_not_renewed (runs_g sel_not_renewed init ren_ops3) Observe) =
    OState [(1%N, false, 0%N)] [(ix 0 1, true); (ix 1 2, true); (ix 2 5, true); (ix 3 7, true); (ix 4 8, true)]
           (Some (ix 4 8)) [(1%N, 2%N)] /\
  alookup 1%N (contracts (runs_g sel_not_renewed init ren_ops3)) = Some SActive.
Proof. exact narrowed_on_renewed_to_refuted. Qed.
Print Assumptions c17_selection_narrowed_on_renewed_to_refuted.

(* the refresh narrowed to unresolved contracts (resolution_index IS NULL): refuted by a reorg
   that disconnects the resolution *)
Theorem c17_selection_narrowed_on_resolution_refuted :
  wf_ops init [] ren_ops3 /\
  alookup 1%N (contracts (runs_g sel_unresolved init ren_ops3)) = Some SActive /\
  snd (step_g sel_unresolved (runs_g sel_unresolved init ren_ops3) Observe) =
    OState [(1%N, false, 0%N)] [(ix 0 1, true); (ix 1 2, true); (ix 2 5, true); (ix 3 7, true); (ix 4 8, true)]
           (Some (ix 4 8)) [(1%N, 2%N)].
Proof. exact narrowed_on_resolution_refuted. Qed.
Print Assumptions c17_selection_narrowed_on_resolution_refuted.

(* elements are dropped exactly when the property allows: on lifecycle histories a contract of
   the host whose formation is on the processed chain has a stored element (the converse of
   c17_formation_reverted_element_dropped; a reset drops all of them, c17_reset) *)
Theorem c17_confirmed_contract_has_element : forall s C c, lreach s C -> known s c = true ->
  (exists b, In b C /\ formed_in c b) -> exists e, In e (celems s) /\ ce_cid e = c.
Proof. exact confirmed_contract_has_element. Qed.
Print Assumptions c17_confirmed_contract_has_element.

(* non-vacuity with a renewal: negotiated and unconfirmed while a block is processed (element of
   the old contract valid, contract active); confirmed later (old contract renewed, both elements
   valid); reorged out (old contract active again, element valid, the renewal's element dropped) *)
Example c17_renewal_nonvacuous :
  reach (runs init ren_ops1) [rb2; wb1; wb0] 2 /\
  snd (step (runs init ren_ops1) Observe) =
    OState [(1%N, true, 0%N)] [(ix 0 1, true); (ix 1 2, true); (ix 2 5, true)] (Some (ix 2 5)) [(1%N, 2%N)] /\
  alookup 1%N (contracts (runs init ren_ops1)) = Some SActive /\
  reach (runs init ren_ops2) [rb3; rb2; wb1; wb0] 3 /\
  snd (step (runs init ren_ops2) Observe) =
    OState [(1%N, true, 0%N); (2%N, true, 0%N)] [(ix 0 1, true); (ix 1 2, true); (ix 2 5, true); (ix 3 6, true)]
           (Some (ix 3 6)) [(1%N, 2%N)] /\
  alookup 1%N (contracts (runs init ren_ops2)) = Some SRenewed /\
  reach (runs init ren_ops3) [rb4'; rb3'; rb2; wb1; wb0] 4 /\
  snd (step (runs init ren_ops3) Observe) =
    OState [(1%N, true, 0%N)] [(ix 0 1, true); (ix 1 2, true); (ix 2 5, true); (ix 3 7, true); (ix 4 8, true)]
           (Some (ix 4 8)) [(1%N, 2%N)] /\
  alookup 1%N (contracts (runs init ren_ops3)) = Some SActive.
Proof. exact renewal_witness. Qed.
