(* C17 — Stored Merkle proofs stay valid at the processed tip.   PARTIAL, see below.
   Statements only; every proof is [exact lemma].

   What the model can carry (Model.v header): a stored element has a *basis*, the chain index
   of the consensus state its proof verifies against; core's ApplyUpdate/RevertUpdate proof
   updaters move a basis from the parent to the child resp. back, leave a leaf the applied
   block itself created alone, panic when asked to revert an element whose leaf the reverted
   block created, and garble everything else.  The theorems are about hostd's ORDER of
   deleting, inserting and updating rows under that abstraction — that the proofs core
   computes are cryptographically valid, and that the transaction pool accepts what is built
   from them, is core's/coreutils' and is only validated on the implementation by the harness
   (reference proofs recomputed from the best chain, consensus.ValidateV2Transaction on
   revisions / storage proofs / expirations built from the stored rows).  Hence the suffix
   _partial on the statements that speak about validity.

   Vocabulary (Proofs.v): [reach s C hm] — s reachable from the initial state by any sequence
   of contract additions, renewals negotiated at RPC time (RenewV2Contract: renewed_to of the old
   contract is set and a pending row for the new one added, with no chain event — the renewal
   may then be confirmed by a later batch, never, or be confirmed and reverted: the batches are
   arbitrary), batches and resets; C = processed best chain since the last reset
   (head = tip), hm = highest height processed since then.  [wf_batch]: a batch reverts the
   top blocks of C (with their own content) and the resulting chain is [linked] (parent
   pointers, consecutive heights, unique block ids).  Nothing is assumed about which contract
   events the blocks carry.

   WP-E2: the reachable states now include the per-block RejectContracts step (pending rows negotiated
   more than the reject buffer below the applied block become rejected; a formation confirmed later
   makes such a row active: every [reach] theorem covers rejected-then-confirmed contracts), blocks
   with several changes of one contract, and changes of the reject buffer ([Configure]). *)
From HostdBase Require Import Base.
From HostdElements Require Import Model Proofs ProofsTotal ProofsRev ProofsRescan ProofsSel ProofsE2.

(* every well-formed operation list run through the model's [step] ends in a [reach]able state *)
Theorem c17_histories : forall l, wf_ops init [] l ->
  reach (runs init l) (fst (ghost init [] 0%N l)) (snd (ghost init [] 0%N l)).
Proof. exact (fun l => runs_reach l init [] 0%N reach_init). Qed.
Print Assumptions c17_histories.

(* after every batch of every history — reorgs of any depth, any batch split — every stored
   contract element and every stored chain-index element carries a proof whose basis is the
   processed tip (what V2ContractElement reports as basis), and the tip marker is the tip *)
Theorem c17_basis_is_processed_tip_partial : forall s C hm, reach s C hm ->
  match C with
  | [] => celems s = [] /\ ielems s = []
  | b :: _ => tip s = Some (b_idx b) /\
              (forall e, In e (celems s) -> valid_at (tip s) (ce_basis e) = true) /\
              (forall e, In e (ielems s) -> valid_at (tip s) (ie_basis e) = true)
  end.
Proof. exact basis_at_tip. Qed.
Print Assumptions c17_basis_is_processed_tip_partial.

(* stored chain-index elements: indices of the processed best chain only (those of disconnected
   blocks are removed), inside the 144-block retention window, and every best-chain block within
   144 of the highest processed height since the last reset is stored *)
Theorem c17_index_elements : forall s C hm, reach s C hm ->
  (forall e, In e (ielems s) -> (exists c, In c C /\ ie_idx e = b_idx c) /\
     ((chainIndexBuffer < tip_h C)%N -> (tip_h C - chainIndexBuffer < ih (ie_idx e))%N)) /\
  (forall c, In c C -> ((chainIndexBuffer < hm)%N -> (hm - chainIndexBuffer < ih (b_idx c))%N) ->
     In (b_idx c) (ikeys s)) /\
  (tip_h C <= hm)%N.
Proof. exact index_set. Qed.
Print Assumptions c17_index_elements.

(* a stored contract element belongs to a contract whose formation is in a block of the processed
   best chain: the elements of contracts whose formation was reverted are dropped *)
Theorem c17_formation_reverted_element_dropped : forall s C hm, reach s C hm ->
  forall e, In e (celems s) -> exists c, In c C /\ ce_born e = b_idx c /\ formed_in (ce_cid e) c.
Proof. exact contract_elements_formed_on_chain. Qed.
Print Assumptions c17_formation_reverted_element_dropped.

(* the update never panics or fails — in particular the revert order (revert contracts, delete the
   reverted block's chain index element, only then refresh every remaining proof) never hands core
   a leaf the reverted block created — for every history that obeys the contract lifecycle
   ([lifecycle_ok]: a contract is formed once, revised/resolved only while active; per contract and
   block exactly the combinations consensus admits ([shape2]: created | revised | resolved | revised
   AND resolved — one V2FileContractElementDiff with Revision and Resolution set, e.g. a revision and
   a renewal in different transactions of the block); contracts are added before their formation is
   processed).  [lreach] is [reach] restricted to such histories, where a reset is followed by the
   rescan of the processed chain (c17_rescan_restores_elements). *)
Theorem c17_update_never_fails : forall s C rs bs, lreach s C -> wf_batch C rs bs ->
  lifecycle_ok (chain_after C rs bs) -> exists s', batch s rs bs = Ok s'.
Proof. exact batch_never_fails. Qed.
Print Assumptions c17_update_never_fails.

Theorem c17_lifecycle_histories_are_histories : forall s C, lreach s C -> exists hm, reach s C hm.
Proof. exact lreach_reach. Qed.
Print Assumptions c17_lifecycle_histories_are_histories.

(* ResetChainState empties both element tables *)
Theorem c17_reset : forall s, celems (reset s) = [] /\ ielems (reset s) = [] /\ tip (reset s) = None.
Proof. exact reset_empties. Qed.
Print Assumptions c17_reset.

(* non-vacuity: a contract is formed in block 1 and revised in block 2 (all elements valid at the
   tip); a reorg then disconnects both blocks and connects another block 1: the contract element
   is gone, the index elements are those of the new chain, valid at its tip *)
Example c17_nonvacuous :
  reach (runs init wit_ops1) [wb2; wb1; wb0] 2 /\
  snd (step (runs init wit_ops1) Observe) =
    OState [(1%N, true, 2%N)] [(ix 0 1, true); (ix 1 2, true); (ix 2 3, true)] (Some (ix 2 3)) [] [(1%N, SActive)] /\
  reach (runs init wit_ops) [wb1'; wb0] 2 /\
  snd (step (runs init wit_ops) Observe) =
    OState [] [(ix 0 1, true); (ix 1 4, true)] (Some (ix 1 4)) [] [(1%N, SUnconfirmed)].
Proof. exact nonvacuous_witness. Qed.

(** * Which rows the refresh touches; renewals negotiated but not (yet) confirmed *)

(* RenewV2Contract is no chain event: element tables and tip marker are untouched *)
Theorem c17_renewal_negotiation_leaves_elements : forall s c r ng,
  let s' := fst (step s (Renew c r ng)) in celems s' = celems s /\ ielems s' = ielems s /\ tip s' = tip s.
Proof. exact renew_fields. Qed.
Print Assumptions c17_renewal_negotiation_leaves_elements.

(* in every reachable state — in particular while a renewal of the contract is negotiated and
   unconfirmed, after it was reverted, or if it never confirms — every stored contract element
   belongs to a confirmed contract row (active or resolved; never pending/rejected), and its proof
   is for the processed tip, whatever the row's status and renewed_to *)
Theorem c17_every_stored_element_refreshed_partial : forall s C hm e, reach s C hm -> In e (celems s) ->
  confirmed_row (contracts s) (ce_cid e) /\
  exists t, tip s = Some t /\ ce_basis e = Some t /\ valid_at (tip s) (ce_basis e) = true.
Proof. exact element_valid_whatever_renewed. Qed.
Print Assumptions c17_every_stored_element_refreshed_partial.

(* the selection of the refresh may be any predicate on (status, renewed_to) that covers the
   confirmed rows: such a model reaches only states of the code's model (which reads every row),
   so everything above holds for it *)
Theorem c17_covering_selection_suffices : forall sel s C hm,
  covering sel -> greach sel s C hm -> reach s C hm.
Proof. exact covering_selection_is_code. Qed.
Print Assumptions c17_covering_selection_suffices.

(* ... and a selection that skips a stored row falsifies basis = tip: across a block that has no
   event of the contract the row keeps its proof, whose basis is then the parent of the tip *)
Theorem c17_skipped_row_goes_stale : forall sel s b s' e,
  batch_g sel s [] [b] = Ok s' -> idx_eqb (b_parent b) (b_idx b) = false ->
  (forall ev, In ev (b_events b) -> ev_cid ev <> ce_cid e) ->
  In e (celems s) -> ce_basis e = Some (b_parent b) ->
  row_sel sel (contracts s) (renewed s) e = false ->
  tip s' = Some (b_idx b) /\ In e (celems s') /\ valid_at (tip s') (ce_basis e) = false.
Proof. exact skipped_row_goes_stale. Qed.
Print Assumptions c17_skipped_row_goes_stale.

(* the refresh narrowed to rows WHERE renewed_to IS NULL: on the history "contract 1 formed,
   renewal negotiated, one block without the renewal" the element of contract 1 — still active,
   the host must resolve it — is not valid at the tip; nor after the renewal confirmed and was
   reorged out *)
Theorem c17_selection_narrowed_on_renewed_to_refuted :
  wf_ops init [] ren_ops1 /\
  alookup 1%N (contracts (runs_g sel_not_renewed init ren_ops1)) = Some SActive /\
  snd (step_g sel_not_renewed (runs_g sel_not_renewed init ren_ops1) Observe) =
    OState [(1%N, false, 0%N)] [(ix 0 1, true); (ix 1 2, true); (ix 2 5, true)] (Some (ix 2 5)) [(1%N, 2%N)] [(1%N, SActive); (2%N, SUnconfirmed)] /\
  snd (step_g sel_not_renewed (runs_g sel_not_renewed init ren_ops3) Observe) =
    OState [(1%N, false, 0%N)] [(ix 0 1, true); (ix 1 2, true); (ix 2 5, true); (ix 3 7, true); (ix 4 8, true)]
           (Some (ix 4 8)) [(1%N, 2%N)] [(1%N, SActive); (2%N, SUnconfirmed)] /\
  alookup 1%N (contracts (runs_g sel_not_renewed init ren_ops3)) = Some SActive.
Proof. exact narrowed_on_renewed_to_refuted. Qed.
Print Assumptions c17_selection_narrowed_on_renewed_to_refuted.

(* the refresh narrowed to unresolved contracts (resolution_index IS NULL): refuted by a reorg
   that disconnects the resolution *)
Theorem c17_selection_narrowed_on_resolution_refuted :
  wf_ops init [] ren_ops3 /\
  alookup 1%N (contracts (runs_g sel_unresolved init ren_ops3)) = Some SActive /\
  snd (step_g sel_unresolved (runs_g sel_unresolved init ren_ops3) Observe) =
    OState [(1%N, false, 0%N)] [(ix 0 1, true); (ix 1 2, true); (ix 2 5, true); (ix 3 7, true); (ix 4 8, true)]
           (Some (ix 4 8)) [(1%N, 2%N)] [(1%N, SActive); (2%N, SUnconfirmed)].
Proof. exact narrowed_on_resolution_refuted. Qed.
Print Assumptions c17_selection_narrowed_on_resolution_refuted.

(* elements are dropped exactly when the property allows: on lifecycle histories — blocks with a
   revision and a resolution of one contract, rejected-then-confirmed contracts, and resets followed
   by the rescan of the processed chain included — a contract of the host whose formation is on the
   processed chain has a stored element (the converse of c17_formation_reverted_element_dropped; a
   reset alone drops all of them, c17_reset) *)
Theorem c17_confirmed_contract_has_element : forall s C c, lreach s C -> known s c = true ->
  (exists b, In b C /\ formed_in c b) -> exists e, In e (celems s) /\ ce_cid e = c.
Proof. exact confirmed_contract_has_element. Qed.
Print Assumptions c17_confirmed_contract_has_element.

(* non-vacuity with a renewal: negotiated and unconfirmed while a block is processed (element of
   the old contract valid, contract active); confirmed later (old contract renewed, both elements
   valid); reorged out (old contract active again, element valid, the renewal's element dropped) *)
Example c17_renewal_nonvacuous :
  reach (runs init ren_ops1) [rb2; wb1; wb0] 2 /\
  snd (step (runs init ren_ops1) Observe) =
    OState [(1%N, true, 0%N)] [(ix 0 1, true); (ix 1 2, true); (ix 2 5, true)] (Some (ix 2 5)) [(1%N, 2%N)] [(1%N, SActive); (2%N, SUnconfirmed)] /\
  alookup 1%N (contracts (runs init ren_ops1)) = Some SActive /\
  reach (runs init ren_ops2) [rb3; rb2; wb1; wb0] 3 /\
  snd (step (runs init ren_ops2) Observe) =
    OState [(1%N, true, 0%N); (2%N, true, 0%N)] [(ix 0 1, true); (ix 1 2, true); (ix 2 5, true); (ix 3 6, true)]
           (Some (ix 3 6)) [(1%N, 2%N)] [(1%N, SRenewed); (2%N, SActive)] /\
  alookup 1%N (contracts (runs init ren_ops2)) = Some SRenewed /\
  reach (runs init ren_ops3) [rb4'; rb3'; rb2; wb1; wb0] 4 /\
  snd (step (runs init ren_ops3) Observe) =
    OState [(1%N, true, 0%N)] [(ix 0 1, true); (ix 1 2, true); (ix 2 5, true); (ix 3 7, true); (ix 4 8, true)]
           (Some (ix 4 8)) [(1%N, 2%N)] [(1%N, SActive); (2%N, SUnconfirmed)] /\
  alookup 1%N (contracts (runs init ren_ops3)) = Some SActive.
Proof. exact renewal_witness. Qed.

(** * WP-E2: rescans, contract rows, blocks with several changes of one contract *)

(* ResetChainState followed by the rescan of the chain that had been processed, in ANY batch split
   (concat bss = the chain, bottom up): no batch fails or panics (every formation and resolution meets
   a row that already carries it: "skipping rescan state transition"), the state it ends in is again
   a lifecycle history of that chain — so c17_update_never_fails and
   c17_confirmed_contract_has_element go on holding — and it knows the same contracts.  (A reset
   followed by a different chain, or a reorg below the rescan position, is NOT covered: the rows keep
   the statuses of the old chain — C01 known finding rescan-onto-different-chain-keeps-old-chain-state.) *)
Theorem c17_rescan_never_fails : forall s C bss, lreach s C -> concat bss = rev C ->
  exists s', run_applies (reset s) bss = Ok s' /\ lreach s' C /\ forall c, known s' c = known s c.
Proof. exact rescan_never_fails. Qed.
Print Assumptions c17_rescan_never_fails.

(* ... in particular every confirmed contract regains its element *)
Theorem c17_rescan_restores_elements : forall s C bss s' c, lreach s C -> concat bss = rev C ->
  run_applies (reset s) bss = Ok s' -> known s c = true -> (exists b, In b C /\ formed_in c b) ->
  exists e, In e (celems s') /\ ce_cid e = c.
Proof. exact rescan_restores_elements. Qed.
Print Assumptions c17_rescan_restores_elements.

(* the contract rows follow the processed chain ([cstat]: pending until the formation is on it, active
   until the resolution, then what the resolution says — with a revision and a resolution of one block
   both taken), except that a row the chain leaves pending may be rejected *)
Theorem c17_status_follows_chain : forall s C c st, lreach s C -> alookup c (contracts s) = Some st ->
  st = cstat C c \/ (st = SRejected /\ cstat C c = SUnconfirmed).
Proof. exact status_follows_chain. Qed.
Print Assumptions c17_status_follows_chain.

(* REFUTED (known finding reorg-below-rescan-position-panics, directed case 12 on the real node): the
   full statement would be "every well-formed batch on a lifecycle-conforming chain succeeds in every
   state a rescan passes through".  It fails when a reorg reaches below the position of a rescan in
   progress: contract 1 formed in block 1 and resolved in block 2; ResetChainState; blocks 0 and 1
   processed again (row still "successful"); a batch that replaces block 1 panics in
   revertV2ContractFormation.  What holds: c17_update_never_fails for [lreach] states, which a rescan
   reaches once it has processed the whole chain again (c17_rescan_never_fails). *)
Theorem c17_reorg_below_rescan_position_refuted :
  lreach (runs init rr_ops) [rr2; wb1; wb0] /\
  exists s1, run_applies (reset (runs init rr_ops)) [[wb0; wb1]] = Ok s1 /\
    alookup 1%N (contracts s1) = Some SSuccessful /\
    wf_batch [wb1; wb0] [wb1] [wb1'] /\ lifecycle_ok (chain_after [wb1; wb0] [wb1] [wb1']) /\
    batch s1 [wb1] [wb1'] = Panic.
Proof. exact reorg_below_rescan_position_refuted. Qed.
Print Assumptions c17_reorg_below_rescan_position_refuted.

(* WHICH contract the stored element carries: on lifecycle histories its revision number is the
   confirmed revision number of the processed chain ([crevn]: the created contract's, then the last
   revision's; the "old" number of a revision is the chain's, [revs_consistent] in [lifecycle_ok]) *)
Theorem c17_stored_contract_is_chain_revision : forall s C e, lreach s C -> In e (celems s) ->
  ce_rev e = crevn C (ce_cid e).
Proof. exact (fun s C e R => lreach_rev s C R e). Qed.
Print Assumptions c17_stored_contract_is_chain_revision.

(* ... so for a block b that revises (o -> n) AND resolves contract c: while b is the processed tip's
   chain the store keeps the REVISED contract (n) and the row has the resolution; once b is
   disconnected (chain C) the store keeps the contract as it was BEFORE the block (o) and the row is
   active — with the two theorems above and c17_basis_is_processed_tip_partial: each with a proof for
   the processed tip *)
Theorem c17_same_block_revision_and_resolution : forall C b c o n k, lifecycle_ok (b :: C) ->
  evs_of c (grouped (b_events b)) = [ERevised c o n; EResolved c k] ->
  crevn (b :: C) c = n /\ cstat (b :: C) c = kstatus k /\ crevn C c = o /\ cstat C c = SActive.
Proof. exact same_block_chain. Qed.
Print Assumptions c17_same_block_revision_and_resolution.

(* non-vacuity of the lifecycle hypotheses with the new shapes: block (2,5) revises contract 1 (0 -> 3)
   AND renews it: the store keeps the revised contract with a proof for the tip, row renewed; the
   block is reorged out: the store holds the contract as before the block (revision 0) with a proof
   for the new tip, row active again, the renewal's element dropped; contract 3 is rejected at height 3
   (reject buffer 2) and confirmed at height 4: active, with its element; ResetChainState and the same
   chain again in two batches: the same observation *)
Example c17_e2_nonvacuous :
  lreach (runs init e2_ops1) [sb2; wb1; wb0] /\
  snd (step (runs init e2_ops1) Observe) =
    OState [(1%N, true, 3%N); (2%N, true, 0%N)] [(ix 0 1, true); (ix 1 2, true); (ix 2 5, true)] (Some (ix 2 5))
           [(1%N, 2%N)] [(1%N, SRenewed); (2%N, SActive); (3%N, SUnconfirmed)] /\
  lreach (runs init e2_ops2) [sb3'; sb2'; wb1; wb0] /\
  snd (step (runs init e2_ops2) Observe) =
    OState [(1%N, true, 0%N)] [(ix 0 1, true); (ix 1 2, true); (ix 2 6, true); (ix 3 7, true)] (Some (ix 3 7))
           [(1%N, 2%N)] [(1%N, SActive); (2%N, SUnconfirmed); (3%N, SRejected)] /\
  lreach (runs init e2_ops3) [sb4'; sb3'; sb2'; wb1; wb0] /\
  snd (step (runs init e2_ops3) Observe) =
    OState [(1%N, true, 0%N); (3%N, true, 0%N)]
           [(ix 0 1, true); (ix 1 2, true); (ix 2 6, true); (ix 3 7, true); (ix 4 8, true)] (Some (ix 4 8))
           [(1%N, 2%N)] [(1%N, SActive); (2%N, SRejected); (3%N, SActive)] /\
  concat e2_scan = rev [sb4'; sb3'; sb2'; wb1; wb0] /\
  exists s', run_applies (reset (runs init e2_ops3)) e2_scan = Ok s' /\
    snd (step s' Observe) = snd (step (runs init e2_ops3) Observe).
Proof. exact e2_witness. Qed.
