(* C17 — Stored Merkle proofs stay valid at the processed tip.   PARTIAL, see below.
   Statements only; every proof is [exact lemma].

   What the model can carry (Model.v header): a stored element has a *basis*, the chain index
   of the consensus state its proof verifies against; core's ApplyUpdate/RevertUpdate proof
   updaters move a basis from the parent to the child resp. back, leave a leaf the applied
   block itself created alone, panic when asked to revert an element whose leaf the reverted
   block created, and garble everything else.  The theorems are about hostd's ORDER of
   deleting, inserting and updating rows under that abstraction — that the proofs core
   computes are cryptographically valid, and that the transaction pool accepts what is built
   from them, is core's/coreutils' and is only validated on the implementation by the harness
   (reference proofs recomputed from the best chain, consensus.ValidateV2Transaction on
   revisions / storage proofs / expirations built from the stored rows).  Hence the suffix
   _partial on the statements that speak about validity.

   Vocabulary (Proofs.v): [reach s C hm] — s reachable from the initial state by any sequence
   of contract additions, batches and resets; C = processed best chain since the last reset
   (head = tip), hm = highest height processed since then.  [wf_batch]: a batch reverts the
   top blocks of C (with their own content) and the resulting chain is [linked] (parent
   pointers, consecutive heights, unique block ids).  Nothing is assumed about which contract
   events the blocks carry. *)
From HostdBase Require Import Base.
From HostdElements Require Import Model Proofs ProofsTotal.

(* every well-formed operation list run through the model's [step] ends in a [reach]able state *)
Theorem c17_histories : forall l, wf_ops init [] l ->
  reach (runs init l) (fst (ghost init [] 0%N l)) (snd (ghost init [] 0%N l)).
Proof. exact (fun l => runs_reach l init [] 0%N reach_init). Qed.
Print Assumptions c17_histories.

(* after every batch of every history — reorgs of any depth, any batch split — every stored
   contract element and every stored chain-index element carries a proof whose basis is the
   processed tip (what V2ContractElement reports as basis), and the tip marker is the tip *)
Theorem c17_basis_is_processed_tip_partial : forall s C hm, reach s C hm ->
  match C with
  | [] => celems s = [] /\ ielems s = []
  | b :: _ => tip s = Some (b_idx b) /\
              (forall e, In e (celems s) -> valid_at (tip s) (ce_basis e) = true) /\
              (forall e, In e (ielems s) -> valid_at (tip s) (ie_basis e) = true)
  end.
Proof. exact basis_at_tip. Qed.
Print Assumptions c17_basis_is_processed_tip_partial.

(* stored chain-index elements: indices of the processed best chain only (those of disconnected
   blocks are removed), inside the 144-block retention window, and every best-chain block within
   144 of the highest processed height since the last reset is stored *)
Theorem c17_index_elements : forall s C hm, reach s C hm ->
  (forall e, In e (ielems s) -> (exists c, In c C /\ ie_idx e = b_idx c) /\
     ((chainIndexBuffer < tip_h C)%N -> (tip_h C - chainIndexBuffer < ih (ie_idx e))%N)) /\
  (forall c, In c C -> ((chainIndexBuffer < hm)%N -> (hm - chainIndexBuffer < ih (b_idx c))%N) ->
     In (b_idx c) (ikeys s)) /\
  (tip_h C <= hm)%N.
Proof. exact index_set. Qed.
Print Assumptions c17_index_elements.

(* a stored contract element belongs to a contract whose formation is in a block of the processed
   best chain: the elements of contracts whose formation was reverted are dropped *)
Theorem c17_formation_reverted_element_dropped : forall s C hm, reach s C hm ->
  forall e, In e (celems s) -> exists c, In c C /\ ce_born e = b_idx c /\ formed_in (ce_cid e) c.
Proof. exact contract_elements_formed_on_chain. Qed.
Print Assumptions c17_formation_reverted_element_dropped.

(* the update never panics or fails — in particular the revert order (revert contracts, delete the
   reverted block's chain index element, only then refresh every remaining proof) never hands core
   a leaf the reverted block created — for every history that obeys the contract lifecycle
   ([lifecycle_ok]: a contract is formed once, revised/resolved only while active, at most one
   event per contract and block; contracts are added before their formation is processed).
   [lreach] is [reach] without resets, restricted to such histories. *)
Theorem c17_update_never_fails : forall s C rs bs, lreach s C -> wf_batch C rs bs ->
  lifecycle_ok (chain_after C rs bs) -> exists s', batch s rs bs = Ok s'.
Proof. exact batch_never_fails. Qed.
Print Assumptions c17_update_never_fails.

Theorem c17_lifecycle_histories_are_histories : forall s C, lreach s C -> exists hm, reach s C hm.
Proof. exact lreach_reach. Qed.
Print Assumptions c17_lifecycle_histories_are_histories.

(* ResetChainState empties both element tables *)
Theorem c17_reset : forall s, celems (reset s) = [] /\ ielems (reset s) = [] /\ tip (reset s) = None.
Proof. exact reset_empties. Qed.
Print Assumptions c17_reset.

(* non-vacuity: a contract is formed in block 1 and revised in block 2 (all elements valid at the
   tip); a reorg then disconnects both blocks and connects another block 1: the contract element
   is gone, the index elements are those of the new chain, valid at its tip *)
Example c17_nonvacuous :
  reach (runs init wit_ops1) [wb2; wb1; wb0] 2 /\
  snd (step (runs init wit_ops1) Observe) =
    OState [(1%N, true, 2%N)] [(ix 0 1, true); (ix 1 2, true); (ix 2 3, true)] (Some (ix 2 3)) /\
  reach (runs init wit_ops) [wb1'; wb0] 2 /\
  snd (step (runs init wit_ops) Observe) = OState [] [(ix 0 1, true); (ix 1 4, true)] (Some (ix 1 4)).
Proof. exact nonvacuous_witness. Qed.
