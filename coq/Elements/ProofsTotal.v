(* Elements/ProofsTotal.v — the chain update never panics or fails on histories that obey the
   contract lifecycle: in particular the revert order (revert contracts, delete the reverted
   chain index element, only then hand every remaining row to core's revert updater) never asks
   core to revert a leaf the reverted block created. *)
From Coq Require Import Lia ZifyBool ZifyN.
From HostdBase Require Import Base.
From HostdElements Require Import Model Proofs.

(** * Contract lifecycle along a chain *)
Definition ev_cid (e : event) : N :=
  match e with EFormed c _ => c | ERevised c _ _ => c | EResolved c _ => c end.
Definition ev_of (c : N) (l : list event) : option event := find (fun e => (ev_cid e =? c)%N) l.

Definition next_stat (old : cstatus) (e : option event) : cstatus :=
  match e with
  | Some (EFormed _ _) => SActive
  | Some (EResolved _ k) => kstatus k
  | _ => old
  end.
Definition prev_stat (cur : cstatus) (e : option event) : cstatus :=
  match e with
  | Some (EFormed _ _) => SUnconfirmed
  | Some (EResolved _ _) => SActive
  | _ => cur
  end.

(* the status a contract the host knows has after the chain C (head = tip) *)
Fixpoint cstat (C : list block) (c : N) : cstatus :=
  match C with
  | [] => SUnconfirmed
  | b :: C' => next_stat (cstat C' c) (ev_of c (grouped (b_events b)))
  end.

(* consensus: a contract is formed once, revised and resolved only while unresolved *)
Definition ev_ok (old : cstatus) (e : event) : Prop :=
  match e with
  | EFormed _ _ => old = SUnconfirmed
  | ERevised _ _ _ => old = SActive
  | EResolved _ _ => old = SActive
  end.

(* at most one event per contract and block (a contract revised and resolved in the same block
   is outside this predicate: buildContractState records it as revised only) *)
Fixpoint lifecycle_ok (C : list block) : Prop :=
  match C with
  | [] => True
  | b :: C' => lifecycle_ok C' /\ NoDup (map ev_cid (grouped (b_events b))) /\
               forall e, In e (grouped (b_events b)) -> ev_ok (cstat C' (ev_cid e)) e
  end.

Definition mentioned (c : N) (C : list block) : Prop :=
  exists b e, In b C /\ In e (b_events b) /\ ev_cid e = c.

Lemma grouped_In_iff l e : In e (grouped l) <-> In e l.
Proof.
  split; [apply grouped_In|]. intros H. unfold grouped. rewrite !in_app_iff, !filter_In.
  destruct e as [c r|c o n|c [| |]]; cbn; tauto.
Qed.

Lemma lifecycle_app X : forall Y, lifecycle_ok (X ++ Y) -> lifecycle_ok Y.
Proof. induction X as [|b X IH]; intros Y H; cbn in H; [exact H|]. apply IH. tauto. Qed.

Lemma ev_of_none c l : (forall e, In e l -> ev_cid e <> c) -> ev_of c l = None.
Proof.
  unfold ev_of. induction l as [|e t IH]; intros H; cbn; [reflexivity|].
  destruct (ev_cid e =? c)%N eqn:Q; [exfalso; apply (H e); [left; reflexivity|lia]|].
  apply IH. intros e' He'. apply H. right. exact He'.
Qed.

Lemma ev_of_some c l e : ev_of c l = Some e -> In e l /\ ev_cid e = c.
Proof.
  unfold ev_of. intros H. apply find_some in H. destruct H as [H Q]. split; [exact H|lia].
Qed.

Lemma ev_of_in c l e : NoDup (map ev_cid l) -> In e l -> ev_cid e = c -> ev_of c l = Some e.
Proof.
  unfold ev_of. induction l as [|x t IH]; intros ND Hin E; [destruct Hin|].
  cbn. inversion ND as [|? ? Hn ND']; subst. destruct Hin as [->|Hin].
  - rewrite N.eqb_refl. reflexivity.
  - destruct (ev_cid x =? ev_cid e)%N eqn:Q.
    + exfalso. apply Hn. apply N.eqb_eq in Q. rewrite Q. apply in_map. exact Hin.
    + apply IH; auto.
Qed.

Lemma cstat_unmentioned C c : ~ mentioned c C -> cstat C c = SUnconfirmed.
Proof.
  induction C as [|b C IH]; intros H; cbn; [reflexivity|].
  rewrite ev_of_none.
  - cbn. apply IH. intros [b' [e [Hb [He E]]]]. apply H. exists b', e. split; [right; exact Hb|auto].
  - intros e He E. apply H. exists b, e. split; [left; reflexivity|]. split; [apply grouped_In; exact He|exact E].
Qed.

(** * Status bookkeeping of the event loops *)
Lemma alookup_aset_same V k (v : V) l : alookup k (aset k v l) = Some v.
Proof.
  induction l as [|[k' v'] t IH]; cbn; [now rewrite N.eqb_refl|].
  destruct (k =? k')%N eqn:E; cbn; [now rewrite N.eqb_refl| now rewrite E].
Qed.
Lemma alookup_aset_other V k k' (v : V) l : k <> k' -> alookup k (aset k' v l) = alookup k l.
Proof.
  intros Hne; induction l as [|[k2 v2] t IH]; cbn.
  - destruct (k =? k')%N eqn:E; [apply N.eqb_eq in E; contradiction|reflexivity].
  - destruct (k' =? k2)%N eqn:E2; cbn.
    + apply N.eqb_eq in E2; subst k2.
      destruct (k =? k')%N eqn:E; [apply N.eqb_eq in E; contradiction|reflexivity].
    + destruct (k =? k2)%N; [reflexivity|exact IH].
Qed.

Definition stat_after (f : cstatus -> option event -> cstatus) (evs : list event) (s : state) (c : N) : option cstatus :=
  match alookup c (contracts s) with Some st => Some (f st (ev_of c evs)) | None => None end.

Lemma apply_event_status b s e : (forall st, alookup (ev_cid e) (contracts s) = Some st -> ev_ok st e) ->
  exists s', apply_event b s e = Ok s' /\
    forall c, alookup c (contracts s') =
      if (ev_cid e =? c)%N then stat_after next_stat [e] s c else alookup c (contracts s).
Proof.
  intros V. unfold stat_after, ev_of. destruct e as [c0 rv|c0 o nw|c0 k]; cbn [apply_event ev_cid find] in *.
  - destruct (alookup c0 (contracts s)) as [st|] eqn:L.
    + specialize (V st eq_refl). cbn in V. subst st. eexists. split; [reflexivity|].
      intros c. cbn [contracts set_c]. destruct (c0 =? c)%N eqn:Q.
      * apply N.eqb_eq in Q. subst c. rewrite alookup_aset_same, L. cbn; rewrite ?N.eqb_refl; reflexivity.
      * apply alookup_aset_other. lia.
    + exists s. split; [reflexivity|]. intros c. destruct (c0 =? c)%N eqn:Q; [|reflexivity].
      apply N.eqb_eq in Q. subst c. rewrite L. reflexivity.
  - unfold known. destruct (alookup c0 (contracts s)) as [st|] eqn:L.
    + eexists. split; [reflexivity|]. intros c. cbn [contracts set_c]. destruct (c0 =? c)%N eqn:Q; [|reflexivity].
      apply N.eqb_eq in Q. subst c. rewrite L. cbn; rewrite ?N.eqb_refl; reflexivity.
    + exists s. split; [reflexivity|]. intros c. destruct (c0 =? c)%N eqn:Q; [|reflexivity].
      apply N.eqb_eq in Q. subst c. rewrite L. reflexivity.
  - destruct (alookup c0 (contracts s)) as [st|] eqn:L.
    + specialize (V st eq_refl). cbn in V. subst st.
      assert (cstatus_eqb SActive (kstatus k) = false) as F by (destruct k; reflexivity). rewrite F.
      eexists. split; [reflexivity|]. intros c. cbn [contracts set_c]. destruct (c0 =? c)%N eqn:Q.
      * apply N.eqb_eq in Q. subst c. rewrite alookup_aset_same, L. cbn; rewrite ?N.eqb_refl; reflexivity.
      * apply alookup_aset_other. lia.
    + exists s. split; [reflexivity|]. intros c. destruct (c0 =? c)%N eqn:Q; [|reflexivity].
      apply N.eqb_eq in Q. subst c. rewrite L. reflexivity.
Qed.

Lemma ev_of_cons c e t : ev_of c (e :: t) = if (ev_cid e =? c)%N then Some e else ev_of c t.
Proof. reflexivity. Qed.

Lemma apply_events_status b : forall evs s, NoDup (map ev_cid evs) ->
  (forall e, In e evs -> forall st, alookup (ev_cid e) (contracts s) = Some st -> ev_ok st e) ->
  exists s', fold_res (apply_event b) evs s = Ok s' /\
    forall c, alookup c (contracts s') = stat_after next_stat evs s c.
Proof.
  induction evs as [|e t IH]; intros s ND V; cbn [fold_res].
  - exists s. split; [reflexivity|]. intros c. unfold stat_after. cbn. destruct (alookup c (contracts s)); reflexivity.
  - inversion ND as [|? ? Hn ND']; subst.
    destruct (apply_event_status b s e (V e (or_introl eq_refl))) as [s1 [E1 S1]].
    rewrite E1. cbn [bind].
    assert (forall e', In e' t -> forall st, alookup (ev_cid e') (contracts s1) = Some st -> ev_ok st e') as V1.
    { intros e' He' st Hst. rewrite S1 in Hst.
      destruct (ev_cid e =? ev_cid e')%N eqn:Q.
      - exfalso. apply Hn. apply N.eqb_eq in Q. rewrite Q. apply in_map. exact He'.
      - apply (V e' (or_intror He') st Hst). }
    destruct (IH s1 ND' V1) as [s' [E' S']]. exists s'. split; [exact E'|].
    intros c. rewrite S'. unfold stat_after. rewrite S1, ev_of_cons.
    destruct (ev_cid e =? c)%N eqn:Q.
    + apply N.eqb_eq in Q. subst c. unfold stat_after.
      rewrite (ev_of_none (ev_cid e) t).
      * cbn [ev_of find]. rewrite N.eqb_refl. destruct (alookup (ev_cid e) (contracts s)) as [st|]; [|reflexivity].
        destruct e; reflexivity.
      * intros e' He' E. apply Hn. rewrite <- E. apply in_map. exact He'.
    + reflexivity.
Qed.

Definition rev_ok (cur : cstatus) (e : event) : Prop :=
  match e with
  | EFormed _ _ => cur = SActive
  | ERevised _ _ _ => True
  | EResolved _ k => cur = kstatus k
  end.

Lemma revert_event_status s e : (forall st, alookup (ev_cid e) (contracts s) = Some st -> rev_ok st e) ->
  exists s', revert_event s e = Ok s' /\
    forall c, alookup c (contracts s') =
      if (ev_cid e =? c)%N then stat_after prev_stat [e] s c else alookup c (contracts s).
Proof.
  intros V. unfold stat_after, ev_of. destruct e as [c0 rv|c0 o nw|c0 k]; cbn [revert_event ev_cid find] in *.
  - destruct (alookup c0 (contracts s)) as [st|] eqn:L.
    + specialize (V st eq_refl). cbn in V. subst st. eexists. split; [reflexivity|].
      intros c. cbn [contracts set_c]. destruct (c0 =? c)%N eqn:Q.
      * apply N.eqb_eq in Q. subst c. rewrite alookup_aset_same, L. cbn; rewrite ?N.eqb_refl; reflexivity.
      * apply alookup_aset_other. lia.
    + exists s. split; [reflexivity|]. intros c. destruct (c0 =? c)%N eqn:Q; [|reflexivity].
      apply N.eqb_eq in Q. subst c. rewrite L. reflexivity.
  - unfold known. destruct (alookup c0 (contracts s)) as [st|] eqn:L.
    + eexists. split; [reflexivity|]. intros c. cbn [contracts set_c]. destruct (c0 =? c)%N eqn:Q; [|reflexivity].
      apply N.eqb_eq in Q. subst c. rewrite L. cbn; rewrite ?N.eqb_refl; reflexivity.
    + exists s. split; [reflexivity|]. intros c. destruct (c0 =? c)%N eqn:Q; [|reflexivity].
      apply N.eqb_eq in Q. subst c. rewrite L. reflexivity.
  - destruct (alookup c0 (contracts s)) as [st|] eqn:L.
    + specialize (V st eq_refl). cbn in V. subst st.
      assert (cstatus_eqb (kstatus k) (kstatus k) = true) as F by (destruct k; reflexivity). rewrite F.
      eexists. split; [reflexivity|]. intros c. cbn [contracts set_c]. destruct (c0 =? c)%N eqn:Q.
      * apply N.eqb_eq in Q. subst c. rewrite alookup_aset_same, L. cbn; rewrite ?N.eqb_refl; reflexivity.
      * apply alookup_aset_other. lia.
    + exists s. split; [reflexivity|]. intros c. destruct (c0 =? c)%N eqn:Q; [|reflexivity].
      apply N.eqb_eq in Q. subst c. rewrite L. reflexivity.
Qed.

Lemma revert_events_status : forall evs s, NoDup (map ev_cid evs) ->
  (forall e, In e evs -> forall st, alookup (ev_cid e) (contracts s) = Some st -> rev_ok st e) ->
  exists s', fold_res revert_event evs s = Ok s' /\
    forall c, alookup c (contracts s') = stat_after prev_stat evs s c.
Proof.
  induction evs as [|e t IH]; intros s ND V; cbn [fold_res].
  - exists s. split; [reflexivity|]. intros c. unfold stat_after. cbn. destruct (alookup c (contracts s)); reflexivity.
  - inversion ND as [|? ? Hn ND']; subst.
    destruct (revert_event_status s e (V e (or_introl eq_refl))) as [s1 [E1 S1]].
    rewrite E1. cbn [bind].
    assert (forall e', In e' t -> forall st, alookup (ev_cid e') (contracts s1) = Some st -> rev_ok st e') as V1.
    { intros e' He' st Hst. rewrite S1 in Hst.
      destruct (ev_cid e =? ev_cid e')%N eqn:Q.
      - exfalso. apply Hn. apply N.eqb_eq in Q. rewrite Q. apply in_map. exact He'.
      - apply (V e' (or_intror He') st Hst). }
    destruct (IH s1 ND' V1) as [s' [E' S']]. exists s'. split; [exact E'|].
    intros c. rewrite S'. unfold stat_after. rewrite S1, ev_of_cons.
    destruct (ev_cid e =? c)%N eqn:Q.
    + apply N.eqb_eq in Q. subst c. unfold stat_after.
      rewrite (ev_of_none (ev_cid e) t).
      * cbn [ev_of find]. rewrite N.eqb_refl. destruct (alookup (ev_cid e) (contracts s)) as [st|]; [|reflexivity].
        destruct e; reflexivity.
      * intros e' He' E. apply Hn. rewrite <- E. apply in_map. exact He'.
    + reflexivity.
Qed.

(** * Element side of the revert loop: the elements of the formations of the block are gone *)
Lemma revert_event_keeps_absent s e s' c : revert_event s e = Ok s' ->
  (forall x, In x (celems s) -> ce_cid x <> c) -> forall x, In x (celems s') -> ce_cid x <> c.
Proof.
  intros H Habs x Hx. destruct (revert_event_spec s e s' H) as [_ [_ F]].
  destruct (F x Hx) as [x0 [Hx0 [A _]]]. rewrite A. exact (Habs x0 Hx0).
Qed.

Lemma revert_events_keep_absent : forall evs s s' c, fold_res revert_event evs s = Ok s' ->
  (forall x, In x (celems s) -> ce_cid x <> c) -> forall x, In x (celems s') -> ce_cid x <> c.
Proof.
  induction evs as [|e t IH]; intros s s' c; cbn [fold_res].
  - intros [= <-] H. exact H.
  - destruct (revert_event s e) as [s1| |] eqn:E; cbn [bind]; try discriminate. intros H Habs.
    exact (IH s1 s' c H (revert_event_keeps_absent s e s1 c E Habs)).
Qed.

Lemma revert_event_known s e s' c : revert_event s e = Ok s' -> known s' c = known s c.
Proof.
  unfold revert_event, known. destruct e as [c0 rv|c0 o nw|c0 k].
  - destruct (alookup c0 (contracts s)) as [st|] eqn:L; [|intros [= <-]; reflexivity].
    destruct st; try discriminate. intros [= <-]. cbn.
    destruct (N.eq_dec c c0) as [->|Hne]; [rewrite alookup_aset_same, L; reflexivity|rewrite alookup_aset_other by exact Hne; reflexivity].
  - destruct (alookup c0 (contracts s)); intros [= <-]; reflexivity.
  - destruct (alookup c0 (contracts s)) as [st|] eqn:L; [|intros [= <-]; reflexivity].
    destruct (cstatus_eqb st (kstatus k)); [|discriminate]. intros [= <-]. cbn.
    destruct (N.eq_dec c c0) as [->|Hne]; [rewrite alookup_aset_same, L; reflexivity|rewrite alookup_aset_other by exact Hne; reflexivity].
Qed.

Lemma revert_events_formed_gone : forall evs s s' c rv, fold_res revert_event evs s = Ok s' ->
  In (EFormed c rv) evs -> known s c = true -> forall x, In x (celems s') -> ce_cid x <> c.
Proof.
  induction evs as [|e t IH]; intros s s' c rv; cbn [fold_res]; [intros _ []|].
  destruct (revert_event s e) as [s1| |] eqn:E; cbn [bind]; try discriminate. intros H [->|Hin] K.
  - (* this event deletes the element *)
    apply (revert_events_keep_absent t s1 s' c H).
    unfold revert_event, known in *. destruct (alookup c (contracts s)) as [st|]; [|discriminate].
    destruct st; try discriminate. injection E as <-. cbn. intros x Hx.
    unfold cdel in Hx. apply filter_In in Hx. destruct Hx as [_ Q].
    destruct (ce_cid x =? c)%N eqn:Q2; [discriminate|lia].
  - apply (IH s1 s' c rv H Hin). rewrite (revert_event_known s e s1 c E). exact K.
Qed.

Lemma cupd_revert_total b : forall l, (forall e, In e l -> ce_born e <> b_idx b) ->
  exists l', cupd_revert b l = Ok l'.
Proof.
  induction l as [|e t IH]; intros H; cbn [cupd_revert]; [eexists; reflexivity|].
  unfold upd_revert at 1.
  assert (idx_eqb (ce_born e) (b_idx b) = false) as Q by (apply idx_eqb_neq; apply H; left; reflexivity).
  rewrite Q. destruct (IH (fun x Hx => H x (or_intror Hx))) as [t' Et].
  destruct (ce_basis e) as [y|]; [destruct (idx_eqb y (b_idx b))|]; cbn [bind]; rewrite Et; cbn [bind]; eexists; reflexivity.
Qed.

Lemma iupd_revert_total b : forall l, (forall e, In e l -> ie_idx e <> b_idx b) ->
  exists l', iupd_revert b l = Ok l'.
Proof.
  induction l as [|e t IH]; intros H; cbn [iupd_revert]; [eexists; reflexivity|].
  unfold upd_revert at 1.
  assert (idx_eqb (ie_idx e) (b_idx b) = false) as Q by (apply idx_eqb_neq; apply H; left; reflexivity).
  rewrite Q. destruct (IH (fun x Hx => H x (or_intror Hx))) as [t' Et].
  destruct (ie_basis e) as [y|]; [destruct (idx_eqb y (b_idx b))|]; cbn [bind]; rewrite Et; cbn [bind]; eexists; reflexivity.
Qed.

(** * Invariants for totality *)
Definition stat_inv (s : state) (C : list block) : Prop :=
  forall c st, alookup c (contracts s) = Some st -> st = cstat C c.
Definition elems_known (s : state) : Prop := forall e, In e (celems s) -> known s (ce_cid e) = true.

Lemma known_aset s c st c' : known s c' = true ->
  match alookup c' (aset c st (contracts s)) with Some _ => true | None => false end = true.
Proof.
  unfold known. intros H. destruct (N.eq_dec c' c) as [->|Hne].
  - rewrite alookup_aset_same. reflexivity.
  - rewrite alookup_aset_other by exact Hne. exact H.
Qed.

Lemma apply_event_known b s e s' : elems_known s -> apply_event b s e = Ok s' ->
  elems_known s' /\ (forall c, known s c = true -> known s' c = true).
Proof.
  intros EK. unfold apply_event. destruct e as [c0 rv|c0 o nw|c0 k].
  - destruct (alookup c0 (contracts s)) as [st|] eqn:L; [|intros [= <-]; split; auto].
    assert (forall cs', (forall c, known s c = true -> match alookup c cs' with Some _ => true | None => false end = true) ->
              elems_known (set_c s cs' (cset c0 {| ce_cid := c0; ce_basis := Some (b_idx b); ce_born := b_idx b; ce_rev := rv |} (celems s)))) as G.
    { intros cs' Hk x Hx. cbn in Hx. unfold known. cbn [contracts set_c]. destruct Hx as [<-|Hx].
      - cbn. apply Hk. unfold known. rewrite L. reflexivity.
      - apply filter_In in Hx. apply Hk. apply EK. tauto. }
    destruct st; intros [= <-]; (split; [apply G|]); unfold known; cbn [contracts set_c]; auto; intros c; apply known_aset.
  - destruct (known s c0); intros [= <-]; (split; [|auto]); [|exact EK].
    intros x Hx. cbn in Hx. unfold crev in Hx. apply in_map_iff in Hx. destruct Hx as [x0 [E Hx0]].
    unfold known. cbn [contracts set_c]. specialize (EK x0 Hx0). unfold known in EK.
    destruct (ce_cid x0 =? c0)%N; subst x; cbn; exact EK.
  - destruct (alookup c0 (contracts s)) as [st|] eqn:L; [|intros [= <-]; split; auto].
    destruct (cstatus_eqb st (kstatus k)); [intros [= <-]; split; auto|].
    destruct st; try discriminate. intros [= <-]. split.
    + intros x Hx. cbn in Hx. unfold known. cbn [contracts set_c]. apply known_aset. apply EK. exact Hx.
    + intros c. unfold known at 2. cbn [contracts set_c]. apply known_aset.
Qed.

Lemma apply_events_known b : forall evs s s', elems_known s -> fold_res (apply_event b) evs s = Ok s' ->
  elems_known s'.
Proof.
  induction evs as [|e t IH]; intros s s' EK; cbn [fold_res]; [intros [= <-]; exact EK|].
  destruct (apply_event b s e) as [s1| |] eqn:E; cbn [bind]; try discriminate. intros H.
  exact (IH s1 s' (proj1 (apply_event_known b s e s1 EK E)) H).
Qed.

Lemma known_of_status s s' : (forall c, (alookup c (contracts s') = None <-> alookup c (contracts s) = None)) ->
  forall c, known s' c = known s c.
Proof.
  intros H c. unfold known. specialize (H c).
  destruct (alookup c (contracts s')), (alookup c (contracts s)); auto.
  - destruct H as [_ H]. discriminate (H eq_refl).
  - destruct H as [H _]. discriminate (H eq_refl).
Qed.

Lemma stat_after_none f evs s c : stat_after f evs s c = None <-> alookup c (contracts s) = None.
Proof. unfold stat_after. destruct (alookup c (contracts s)); split; congruence. Qed.

(** * One block never fails on a lifecycle-conforming chain *)
Lemma apply_block_total s C b : linked (b :: C) -> lifecycle_ok (b :: C) -> stat_inv s C -> elems_known s ->
  exists s', apply_block s b = Ok s' /\ stat_inv s' (b :: C) /\ elems_known s'.
Proof.
  intros L LC SI EK. cbn [lifecycle_ok] in LC. destruct LC as [_ [ND V]].
  destruct (apply_events_status b (grouped (b_events b)) s ND) as [s1 [E1 S1]].
  { intros e He st Hst. rewrite (SI _ _ Hst). apply V. exact He. }
  unfold apply_block, apply_block_g. rewrite E1. cbn [bind].
  rewrite (crefresh_apply_full sel_all _ _ b (celems s1) (fun e _ => row_sel_all _ _ e)).
  eexists. split; [reflexivity|]. split.
  - intros c st. cbn [contracts]. rewrite S1. unfold stat_after.
    destruct (alookup c (contracts s)) as [st0|] eqn:L0; [|discriminate].
    intros [= <-]. cbn [cstat]. rewrite (SI _ _ L0). reflexivity.
  - pose proof (apply_events_known b _ s s1 EK E1) as EK1.
    intros x Hx. cbn [celems] in Hx. unfold cupd_apply in Hx. apply in_map_iff in Hx.
    destruct Hx as [x0 [<- Hx0]]. unfold known. cbn. apply (EK1 x0 Hx0).
Qed.

Lemma revert_block_total s C b : linked (b :: C) -> lifecycle_ok (b :: C) -> el_inv s (b :: C) ->
  stat_inv s (b :: C) -> elems_known s ->
  exists s', revert_block s b = Ok s' /\ stat_inv s' C /\ elems_known s'.
Proof.
  intros L LC EI SI EK. pose proof LC as LC'. cbn [lifecycle_ok] in LC'. destruct LC' as [_ [ND V]].
  set (evs := grouped (b_events b)) in *.
  destruct (revert_events_status evs s ND) as [s1 [E1 S1]].
  { intros e He st Hst. rewrite (SI _ _ Hst). cbn [cstat]. fold evs.
    rewrite (ev_of_in (ev_cid e) evs e ND He eq_refl). specialize (V e He).
    destruct e; cbn in *; auto. }
  destruct (revert_events_spec evs s s1 E1) as [I1 [_ C1]].
  assert (forall c, known s1 c = known s c) as K1.
  { apply known_of_status. intros c. rewrite S1. apply stat_after_none. }
  (* no surviving contract element was born in b *)
  assert (forall x, In x (celems s1) -> ce_born x <> b_idx b) as NB.
  { intros x Hx Eb. destruct (C1 x Hx) as [x0 [Hx0 [A [_ D]]]].
    cbn [el_inv] in EI. destruct EI as [EC _]. destruct (EC x0 Hx0) as [_ [c' [Hc' [Hb [rv Hf]]]]].
    assert (c' = b) as ->.
    { destruct Hc' as [<-|Hc']; [reflexivity|]. pose proof (linked_heights b C L c' Hc') as Hlt.
      rewrite D, Hb in Eb. rewrite Eb in Hlt. lia. }
    assert (In (EFormed (ce_cid x0) rv) evs) as Hin by (apply grouped_In_iff; exact Hf).
    apply (revert_events_formed_gone evs s s1 (ce_cid x0) rv E1 Hin (EK x0 Hx0) x Hx). exact A. }
  destruct (cupd_revert_total b (celems s1) NB) as [ce' Ece].
  destruct (iupd_revert_total b (filter (fun e => negb (idx_eqb (ie_idx e) (b_idx b))) (ielems s1))) as [ie' Eie].
  { intros e He. apply filter_In in He. destruct He as [_ Q]. apply idx_eqb_neq.
    destruct (idx_eqb (ie_idx e) (b_idx b)); [discriminate|reflexivity]. }
  unfold revert_block, revert_block_g. fold evs. rewrite E1. cbn [bind]. rewrite Eie. cbn [bind].
  rewrite (crefresh_revert_full sel_all _ _ b (celems s1) (fun e _ => row_sel_all _ _ e)). rewrite Ece. cbn [bind].
  eexists. split; [reflexivity|]. split.
  - intros c st. cbn [contracts]. rewrite S1. unfold stat_after.
    destruct (alookup c (contracts s)) as [st0|] eqn:L0; [|discriminate]. intros [= <-].
    pose proof (SI _ _ L0) as E0. cbn [cstat] in E0. fold evs in E0. rewrite E0.
    destruct (ev_of c evs) as [e|] eqn:Q; [|reflexivity].
    destruct (ev_of_some c evs e Q) as [He Ec]. specialize (V e He). rewrite Ec in V.
    destruct e; cbn in *; congruence.
  - intros x Hx. cbn [celems] in Hx.
    destruct (cupd_revert_spec b _ _ Ece x Hx) as [x1 [Hx1 [A _]]].
    destruct (C1 x1 Hx1) as [x0 [Hx0 [A0 _]]].
    unfold known. cbn [contracts]. fold (known s1 (ce_cid x)). rewrite K1, A, A0. apply EK. exact Hx0.
Qed.

(** * Batches *)
Definition tinv (s : state) (C : list block) : Prop :=
  linked C /\ lifecycle_ok C /\ el_inv s C /\ stat_inv s C /\ elems_known s.

Lemma applies_total : forall bs s C, tinv s C -> linked (rev bs ++ C) -> lifecycle_ok (rev bs ++ C) ->
  exists s', fold_res apply_block bs s = Ok s' /\ tinv s' (rev bs ++ C).
Proof.
  induction bs as [|b t IH]; intros s C T L LC; cbn [fold_res rev app].
  - exists s. split; [reflexivity|exact T].
  - cbn [rev] in L, LC. rewrite <- app_assoc in L, LC. cbn [app] in L, LC.
    destruct T as [L0 [LC0 [EI [SI EK]]]].
    pose proof (linked_app (rev t) (b :: C) L) as Lb.
    pose proof (lifecycle_app (rev t) (b :: C) LC) as LCb.
    destruct (apply_block_total s C b Lb LCb SI EK) as [s1 [E1 [SI1 EK1]]].
    rewrite E1. cbn [bind].
    assert (tinv s1 (b :: C)) as T1.
    { split; [exact Lb|]. split; [exact LCb|]. split; [exact (el_inv_apply s C b s1 EI Lb E1)|]. split; assumption. }
    destruct (IH s1 (b :: C) T1 L LC) as [s' [E' T']]. exists s'. rewrite <- app_assoc. cbn [app]. split; assumption.
Qed.

Lemma reverts_total : forall rs s C, tinv s C -> firstn (length rs) C = rs ->
  exists s', fold_res revert_block rs s = Ok s' /\ tinv s' (skipn (length rs) C).
Proof.
  induction rs as [|r t IH]; intros s C T F; cbn [fold_res length skipn].
  - exists s. split; [reflexivity|exact T].
  - destruct C as [|b C]; [discriminate|]. cbn [length firstn] in F. injection F as Eb F. subst r.
    destruct T as [L [LC [EI [SI EK]]]].
    destruct (revert_block_total s C b L LC EI SI EK) as [s1 [E1 [SI1 EK1]]].
    rewrite E1. cbn [bind].
    assert (tinv s1 C) as T1.
    { split; [cbn [linked] in L; tauto|]. split; [cbn [lifecycle_ok] in LC; tauto|].
      split; [exact (el_inv_revert s C b s1 EI L E1)|]. split; assumption. }
    exact (IH s1 C T1 F).
Qed.

Lemma tinv_ext s s' C : tinv s C -> contracts s' = contracts s -> celems s' = celems s -> ielems s' = ielems s ->
  tinv s' C.
Proof.
  unfold tinv, stat_inv, elems_known, known, el_inv. intros [A [B [D [E F]]]] -> -> ->. tauto.
Qed.

Lemma batch_total s C rs bs : tinv s C -> wf_batch C rs bs -> lifecycle_ok (chain_after C rs bs) ->
  exists s', batch s rs bs = Ok s' /\ tinv s' (chain_after C rs bs).
Proof.
  intros T [F V] LC. unfold chain_after in *.
  destruct (reverts_total rs s C T F) as [s1 [E1 T1]].
  destruct (applies_total bs s1 _ T1 V LC) as [s2 [E2 T2]].
  unfold batch, batch_g. fold revert_block apply_block. destruct rs as [|r rs'] eqn:Ers; [destruct bs as [|b bs'] eqn:Ebs|].
  - cbn in E1, E2. injection E1 as <-. injection E2 as <-. exists s. split; [reflexivity|exact T2].
  - rewrite E1. cbn [bind]. rewrite E2. cbn [bind]. eexists. split; [reflexivity|].
    apply (tinv_ext s2); auto.
  - rewrite E1. cbn [bind]. rewrite E2. cbn [bind]. eexists. split; [reflexivity|].
    apply (tinv_ext s2); auto.
Qed.

(* histories that obey the contract lifecycle (no reset: the contract statuses deliberately
   survive ResetChainState and are re-synchronised by the rescan's skip branches) *)
Inductive lreach : state -> list block -> Prop :=
| lreach_init : lreach init []
| lreach_add s C c : lreach s C -> ~ mentioned c C -> lreach (fst (step s (AddContract c))) C
| lreach_batch s C rs bs s' :
    lreach s C -> wf_batch C rs bs -> lifecycle_ok (chain_after C rs bs) -> batch s rs bs = Ok s' ->
    lreach s' (chain_after C rs bs)
(* a renewal negotiated at RPC time: the new contract is not on the chain yet *)
| lreach_renew s C c r : lreach s C -> ~ mentioned r C -> lreach (fst (step s (Renew c r))) C.

Lemma lreach_tinv s C : lreach s C -> tinv s C.
Proof.
  induction 1 as [|s C c R IH Hm|s C rs bs s' R IH F LC H|s C c r R IH Hm].
  - repeat split; cbn; auto; intros; try discriminate; try contradiction. intros x [].
  - unfold step; cbn [step_g]. destruct (known s c) eqn:K; cbn [fst]; [exact IH|].
    destruct IH as [L [LCy [EI [SI EK]]]]. repeat split; auto.
    + intros c' st. cbn [contracts]. destruct (N.eq_dec c' c) as [->|Hne].
      * rewrite alookup_aset_same. intros [= <-]. symmetry. apply cstat_unmentioned. exact Hm.
      * rewrite alookup_aset_other by exact Hne. apply SI.
    + intros x Hx. cbn [celems] in Hx. unfold known. cbn [contracts]. apply known_aset. apply EK. exact Hx.
  - destruct (batch_total s C rs bs IH F LC) as [s2 [E2 T2]]. rewrite H in E2. injection E2 as ->. exact T2.
  - unfold step; cbn [step_g]. unfold renew. destruct (known s c && negb (known s r)) eqn:K; cbn [fst]; [|exact IH].
    destruct IH as [L [LCy [EI [SI EK]]]]. repeat split; auto.
    + intros c' st. cbn [contracts]. destruct (N.eq_dec c' r) as [->|Hne].
      * rewrite alookup_aset_same. intros [= <-]. symmetry. apply cstat_unmentioned. exact Hm.
      * rewrite alookup_aset_other by exact Hne. apply SI.
    + intros x Hx. cbn [celems] in Hx. unfold known. cbn [contracts]. apply known_aset. apply EK. exact Hx.
Qed.

(* every well-formed, lifecycle-conforming batch succeeds: no error, no panic *)
Theorem batch_never_fails s C rs bs : lreach s C -> wf_batch C rs bs -> lifecycle_ok (chain_after C rs bs) ->
  exists s', batch s rs bs = Ok s'.
Proof.
  intros R F LC. destruct (batch_total s C rs bs (lreach_tinv s C R) F LC) as [s' [E _]]. exists s'. exact E.
Qed.

(* lifecycle histories are histories: everything proved for [reach] applies *)
Lemma lreach_reach s C : lreach s C -> exists hm, reach s C hm.
Proof.
  induction 1 as [|s C c R [hm IH] Hm|s C rs bs s' R [hm IH] F LC H|s C c r R [hm IH] Hm].
  - exists 0%N. constructor.
  - exists hm. apply reach_add. exact IH.
  - exists (hmax_after hm bs). exact (reach_batch s C hm rs bs s' IH F H).
  - exists hm. apply reach_renew. exact IH.
Qed.
