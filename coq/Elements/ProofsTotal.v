(* Elements/ProofsTotal.v — the chain update never panics or fails on histories that obey the
   contract lifecycle: in particular the revert order (revert contracts, delete the reverted
   chain index element, only then hand every remaining row to core's revert updater) never asks
   core to revert a leaf the reverted block created. *)
From Coq Require Import Lia ZifyBool ZifyN.
From HostdBase Require Import Base.
From HostdElements Require Import Model Proofs.

(** * Contract lifecycle along a chain *)
Definition ev_cid (e : event) : N :=
  match e with EFormed c _ => c | ERevised c _ _ => c | EResolved c _ => c end.
Definition ev_of (c : N) (l : list event) : option event := find (fun e => (ev_cid e =? c)%N) l.

Definition next_stat (old : cstatus) (e : option event) : cstatus :=
  match e with
  | Some (EFormed _ _) => SActive
  | Some (EResolved _ k) => kstatus k
  | _ => old
  end.
Definition prev_stat (cur : cstatus) (e : option event) : cstatus :=
  match e with
  | Some (EFormed _ _) => SUnconfirmed
  | Some (EResolved _ _) => SActive
  | _ => cur
  end.

(* the status a contract the host knows has after the chain C (head = tip) *)
Fixpoint cstat (C : list block) (c : N) : cstatus :=
  match C with
  | [] => SUnconfirmed
  | b :: C' => next_stat (cstat C' c) (ev_of c (grouped (b_events b)))
  end.

(* consensus: a contract is formed once, revised and resolved only while unresolved *)
Definition ev_ok (old : cstatus) (e : event) : Prop :=
  match e with
  | EFormed _ _ => old = SUnconfirmed
  | ERevised _ _ _ => old = SActive
  | EResolved _ _ => old = SActive
  end.

(* at most one event per contract and block (a contract revised and resolved in the same block
   is outside this predicate: buildContractState records it as revised only) *)
Fixpoint lifecycle_ok (C : list block) : Prop :=
  match C with
  | [] => True
  | b :: C' => lifecycle_ok C' /\ NoDup (map ev_cid (grouped (b_events b))) /\
               forall e, In e (grouped (b_events b)) -> ev_ok (cstat C' (ev_cid e)) e
  end.

Definition mentioned (c : N) (C : list block) : Prop :=
  exists b e, In b C /\ In e (b_events b) /\ ev_cid e = c.

Lemma grouped_In_iff l e : In e (grouped l) <-> In e l.
Proof.
  split; [apply grouped_In|]. intros H. unfold grouped. rewrite !in_app_iff, !filter_In.
  destruct e as [c r|c o n|c [| |]]; cbn; tauto.
Qed.

Lemma lifecycle_app X : forall Y, lifecycle_ok (X ++ Y) -> lifecycle_ok Y.
Proof. induction X as [|b X IH]; intros Y H; cbn in H; [exact H|]. apply IH. tauto. Qed.

Lemma ev_of_none c l : (forall e, In e l -> ev_cid e <> c) -> ev_of c l = None.
Proof.
  unfold ev_of. induction l as [|e t IH]; intros H; cbn; [reflexivity|].
  destruct (ev_cid e =? c)%N eqn:Q; [exfalso; apply (H e); [left; reflexivity|lia]|].
  apply IH. intros e' He'. apply H. right. exact He'.
Qed.

Lemma ev_of_some c l e : ev_of c l = Some e -> In e l /\ ev_cid e = c.
Proof.
  unfold ev_of. intros H. apply find_some in H. destruct H as [H Q]. split; [exact H|lia].
Qed.

Lemma ev_of_in c l e : NoDup (map ev_cid l) -> In e l -> ev_cid e = c -> ev_of c l = Some e.
Proof.
  unfold ev_of. induction l as [|x t IH]; intros ND Hin E; [destruct Hin|].
  cbn. inversion ND as [|? ? Hn ND']; subst. destruct Hin as [->|Hin].
  - rewrite N.eqb_refl. reflexivity.
  - destruct (ev_cid x =? ev_cid e)%N eqn:Q.
    + exfalso. apply Hn. apply N.eqb_eq in Q. rewrite Q. apply in_map. exact Hin.
    + apply IH; auto.
Qed.

Lemma cstat_unmentioned C c : ~ mentioned c C -> cstat C c = SUnconfirmed.
Proof.
  induction C as [|b C IH]; intros H; cbn; [reflexivity|].
  rewrite ev_of_none.
  - cbn. apply IH. intros [b' [e [Hb [He E]]]]. apply H. exists b', e. split; [right; exact Hb|auto].
  - intros e He E. apply H. exists b, e. split; [left; reflexivity|]. split; [apply grouped_In; exact He|exact E].
Qed.

(** * Status bookkeeping of the event loops *)
Lemma alookup_aset_same V k (v : V) l : alookup k (aset k v l) = Some v.
Proof.
  induction l as [|[k' v'] t IH]; cbn; [now rewrite N.eqb_refl|].
  destruct (k =? k')%N eqn:E; cbn; [now rewrite N.eqb_refl| now rewrite E].
Qed.
Lemma alookup_aset_other V k k' (v : V) l : k <> k' -> alookup k (aset k' v l) = alookup k l.
Proof.
  intros Hne; induction l as [|[k2 v2] t IH]; cbn.
  - destruct (k =? k')%N eqn:E; [apply N.eqb_eq in E; contradiction|reflexivity].
  - destruct (k' =? k2)%N eqn:E2; cbn.
    + apply N.eqb_eq in E2; subst k2.
      destruct (k =? k')%N eqn:E; [apply N.eqb_eq in E; contradiction|reflexivity].
    + destruct (k =? k2)%N; [reflexivity|exact IH].
Qed.

Definition stat_after (f : cstatus -> option event -> cstatus) (evs : list event) (s : state) (c : N) : option cstatus :=
  match alookup c (contracts s) with Some st => Some (f st (ev_of c evs)) | None => None end.

Lemma apply_event_status b s e : (forall st, alookup (ev_cid e) (contracts s) = Some st -> ev_ok st e) ->
  exists s', apply_event b s e = Ok s' /\
    forall c, alookup c (contracts s') =
      if (ev_cid e =? c)%N then stat_after next_stat [e] s c else alookup c (contracts s).
Proof.
  intros V. unfold stat_after, ev_of. destruct e as [c0 rv|c0 o nw|c0 k]; cbn [apply_event ev_cid find] in *.
  - destruct (alookup c0 (contracts s)) as [st|] eqn:L.
    + specialize (V st eq_refl). cbn in V. subst st. eexists. split; [reflexivity|].
      intros c. cbn [contracts set_c]. destruct (c0 =? c)%N eqn:Q.
      * apply N.eqb_eq in Q. subst c. rewrite alookup_aset_same, L. cbn; rewrite ?N.eqb_refl; reflexivity.
      * apply alookup_aset_other. lia.
    + exists s. split; [reflexivity|]. intros c. destruct (c0 =? c)%N eqn:Q; [|reflexivity].
      apply N.eqb_eq in Q. subst c. rewrite L. reflexivity.
  - unfold known. destruct (alookup c0 (contracts s)) as [st|] eqn:L.
    + eexists. split; [reflexivity|]. intros c. cbn [contracts set_c]. destruct (c0 =? c)%N eqn:Q; [|reflexivity].
      apply N.eqb_eq in Q. subst c. rewrite L. cbn; rewrite ?N.eqb_refl; reflexivity.
    + exists s. split; [reflexivity|]. intros c. destruct (c0 =? c)%N eqn:Q; [|reflexivity].
      apply N.eqb_eq in Q. subst c. rewrite L. reflexivity.
  - destruct (alookup c0 (contracts s)) as [st|] eqn:L.
    + specialize (V st eq_refl). cbn in V. subst st.
      assert (cstatus_eqb SActive (kstatus k) = false) as F by (destruct k; reflexivity). rewrite F.
      eexists. split; [reflexivity|]. intros c. cbn [contracts set_c]. destruct (c0 =? c)%N eqn:Q.
      * apply N.eqb_eq in Q. subst c. rewrite alookup_aset_same, L. cbn; rewrite ?N.eqb_refl; reflexivity.
      * apply alookup_aset_other. lia.
    + exists s. split; [reflexivity|]. intros c. destruct (c0 =? c)%N eqn:Q; [|reflexivity].
      apply N.eqb_eq in Q. subst c. rewrite L. reflexivity.
Qed.

Lemma ev_of_cons c e t : ev_of c (e :: t) = if (ev_cid e =? c)%N then Some e else ev_of c t.
Proof. reflexivity. Qed.

Lemma apply_events_status b : forall evs s, NoDup (map ev_cid evs) ->
  (forall e, In e evs -> forall st, alookup (ev_cid e) (contracts s) = Some st -> ev_ok st e) ->
  exists s', fold_res (apply_event b) evs s = Ok s' /\
    forall c, alookup c (contracts s') = stat_after next_stat evs s c.
Proof.
  induction evs as [|e t IH]; intros s ND V; cbn [fold_res].
  - exists s. split; [reflexivity|]. intros c. unfold stat_after. cbn. destruct (alookup c (contracts s)); reflexivity.
  - inversion ND as [|? ? Hn ND']; subst.
    destruct (apply_event_status b s e (V e (or_introl eq_refl))) as [s1 [E1 S1]].
    rewrite E1. cbn [bind].
    assert (forall e', In e' t -> forall st, alookup (ev_cid e') (contracts s1) = Some st -> ev_ok st e') as V1.
    { intros e' He' st Hst. rewrite S1 in Hst.
      destruct (ev_cid e =? ev_cid e')%N eqn:Q.
      - exfalso. apply Hn. apply N.eqb_eq in Q. rewrite Q. apply in_map. exact He'.
      - apply (V e' (or_intror He') st Hst). }
    destruct (IH s1 ND' V1) as [s' [E' S']]. exists s'. split; [exact E'|].
    intros c. rewrite S'. unfold stat_after. rewrite S1, ev_of_cons.
    destruct (ev_cid e =? c)%N eqn:Q.
    + apply N.eqb_eq in Q. subst c. unfold stat_after.
      rewrite (ev_of_none (ev_cid e) t).
      * cbn [ev_of find]. rewrite N.eqb_refl. destruct (alookup (ev_cid e) (contracts s)) as [st|]; [|reflexivity].
        destruct e; reflexivity.
      * intros e' He' E. apply Hn. rewrite <- E. apply in_map. exact He'.
    + reflexivity.
Qed.

Definition rev_ok (cur : cstatus) (e : event) : Prop :=
  match e with
  | EFormed _ _ => cur = SActive
  | ERevised _ _ _ => True
  | EResolved _ k => cur = kstatus k
  end.

Lemma revert_event_status s e : (forall st, alookup (ev_cid e) (contracts s) = Some st -> rev_ok st e) ->
  exists s', revert_event s e = Ok s' /\
    forall c, alookup c (contracts s') =
      if (ev_cid e =? c)%N then stat_after prev_stat [e] s c else alookup c (contracts s).
Proof.
  intros V. unfold stat_after, ev_of. destruct e as [c0 rv|c0 o nw|c0 k]; cbn [revert_event ev_cid find] in *.
  - destruct (alookup c0 (contracts s)) as [st|] eqn:L.
    + specialize (V st eq_refl). cbn in V. subst st. eexists. split; [reflexivity|].
      intros c. cbn [contracts set_c]. destruct (c0 =? c)%N eqn:Q.
      * apply N.eqb_eq in Q. subst c. rewrite alookup_aset_same, L. cbn; rewrite ?N.eqb_refl; reflexivity.
      * apply alookup_aset_other. lia.
    + exists s. split; [reflexivity|]. intros c. destruct (c0 =? c)%N eqn:Q; [|reflexivity].
      apply N.eqb_eq in Q. subst c. rewrite L. reflexivity.
  - unfold known. destruct (alookup c0 (contracts s)) as [st|] eqn:L.
    + eexists. split; [reflexivity|]. intros c. cbn [contracts set_c]. destruct (c0 =? c)%N eqn:Q; [|reflexivity].
      apply N.eqb_eq in Q. subst c. rewrite L. cbn; rewrite ?N.eqb_refl; reflexivity.
    + exists s. split; [reflexivity|]. intros c. destruct (c0 =? c)%N eqn:Q; [|reflexivity].
      apply N.eqb_eq in Q. subst c. rewrite L. reflexivity.
  - destruct (alookup c0 (contracts s)) as [st|] eqn:L.
    + specialize (V st eq_refl). cbn in V. subst st.
      assert (cstatus_eqb (kstatus k) (kstatus k) = true) as F by (destruct k; reflexivity). rewrite F.
      eexists. split; [reflexivity|]. intros c. cbn [contracts set_c]. destruct (c0 =? c)%N eqn:Q.
      * apply N.eqb_eq in Q. subst c. rewrite alookup_aset_same, L. cbn; rewrite ?N.eqb_refl; reflexivity.
      * apply alookup_aset_other. lia.
    + exists s. split; [reflexivity|]. intros c. destruct (c0 =? c)%N eqn:Q; [|reflexivity].
      apply N.eqb_eq in Q. subst c. rewrite L. reflexivity.
Qed.

Lemma revert_events_status : forall evs s, NoDup (map ev_cid evs) ->
  (forall e, In e evs -> forall st, alookup (ev_cid e) (contracts s) = Some st -> rev_ok st e) ->
  exists s', fold_res revert_event evs s = Ok s' /\
    forall c, alookup c (contracts s') = stat_after prev_stat evs s c.
Proof.
  induction evs as [|e t IH]; intros s ND V; cbn [fold_res].
  - exists s. split; [reflexivity|]. intros c. unfold stat_after. cbn. destruct (alookup c (contracts s)); reflexivity.
  - inversion ND as [|? ? Hn ND']; subst.
    destruct (revert_event_status s e (V e (or_introl eq_refl))) as [s1 [E1 S1]].
    rewrite E1. cbn [bind].
    assert (forall e', In e' t -> forall st, alookup (ev_cid e') (contracts s1) = Some st -> rev_ok st e') as V1.
    { intros e' He' st Hst. rewrite S1 in Hst.
      destruct (ev_cid e =? ev_cid e')%N eqn:Q.
      - exfalso. apply Hn. apply N.eqb_eq in Q. rewrite Q. apply in_map. exact He'.
      - apply (V e' (or_intror He') st Hst). }
    destruct (IH s1 ND' V1) as [s' [E' S']]. exists s'. split; [exact E'|].
    intros c. rewrite S'. unfold stat_after. rewrite S1, ev_of_cons.
    destruct (ev_cid e =? c)%N eqn:Q.
    + apply N.eqb_eq in Q. subst c. unfold stat_after.
      rewrite (ev_of_none (ev_cid e) t).
      * cbn [ev_of find]. rewrite N.eqb_refl. destruct (alookup (ev_cid e) (contracts s)) as [st|]; [|reflexivity].
        destruct e; reflexivity.
      * intros e' He' E. apply Hn. rewrite <- E. apply in_map. exact He'.
    + reflexivity.
Qed.

(** * Element side of the revert loop: the elements of the formations of the block are gone *)
Lemma revert_event_keeps_absent s e s' c : revert_event s e = Ok s' ->
  (forall x, In x (celems s) -> ce_cid x <> c) -> forall x, In x (celems s') -> ce_cid x <> c.
Proof.
  intros H Habs x Hx. destruct (revert_event_spec s e s' H) as [_ [_ F]].
  destruct (F x Hx) as [x0 [Hx0 [A _]]]. rewrite A. exact (Habs x0 Hx0).
Qed.

Lemma revert_events_keep_absent : forall evs s s' c, fold_res revert_event evs s = Ok s' ->
  (forall x, In x (celems s) -> ce_cid x <> c) -> forall x, In x (celems s') -> ce_cid x <> c.
Proof.
  induction evs as [|e t IH]; intros s s' c; cbn [fold_res].
  - intros [= <-] H. exact H.
  - destruct (revert_event s e) as [s1| |] eqn:E; cbn [bind]; try discriminate. intros H Habs.
    exact (IH s1 s' c H (revert_event_keeps_absent s e s1 c E Habs)).
Qed.

Lemma revert_event_known s e s' c : revert_event s e = Ok s' -> known s' c = known s c.
Proof.
  unfold revert_event, known. destruct e as [c0 rv|c0 o nw|c0 k].
  - destruct (alookup c0 (contracts s)) as [st|] eqn:L; [|intros [= <-]; reflexivity].
    destruct st; try discriminate. intros [= <-]. cbn.
    destruct (N.eq_dec c c0) as [->|Hne]; [rewrite alookup_aset_same, L; reflexivity|rewrite alookup_aset_other by exact Hne; reflexivity].
  - destruct (alookup c0 (contracts s)); intros [= <-]; reflexivity.
  - destruct (alookup c0 (contracts s)) as [st|] eqn:L; [|intros [= <-]; reflexivity].
    destruct (cstatus_eqb st (kstatus k)); [|discriminate]. intros [= <-]. cbn.
    destruct (N.eq_dec c c0) as [->|Hne]; [rewrite alookup_aset_same, L; reflexivity|rewrite alookup_aset_other by exact Hne; reflexivity].
Qed.

Lemma revert_events_formed_gone : forall evs s s' c rv, fold_res revert_event evs s = Ok s' ->
  In (EFormed c rv) evs -> known s c = true -> forall x, In x (celems s') -> ce_cid x <> c.
Proof.
  induction evs as [|e t IH]; intros s s' c rv; cbn [fold_res]; [intros _ []|].
  destruct (revert_event s e) as [s1| |] eqn:E; cbn [bind]; try discriminate. intros H [->|Hin] K.
  - (* this event deletes the element *)
    apply (revert_events_keep_absent t s1 s' c H).
    unfold revert_event, known in *. destruct (alookup c (contracts s)) as [st|]; [|discriminate].
    destruct st; try discriminate. injection E as <-. cbn. intros x Hx.
    unfold cdel in Hx. apply filter_In in Hx. destruct Hx as [_ Q].
    destruct (ce_cid x =? c)%N eqn:Q2; [discriminate|lia].
  - apply (IH s1 s' c rv H Hin). rewrite (revert_event_known s e s1 c E). exact K.
Qed.

Lemma cupd_revert_total b : forall l, (forall e, In e l -> ce_born e <> b_idx b) ->
  exists l', cupd_revert b l = Ok l'.
Proof.
  induction l as [|e t IH]; intros H; cbn [cupd_revert]; [eexists; reflexivity|].
  unfold upd_revert at 1.
  assert (idx_eqb (ce_born e) (b_idx b) = false) as Q by (apply idx_eqb_neq; apply H; left; reflexivity).
  rewrite Q. destruct (IH (fun x Hx => H x (or_intror Hx))) as [t' Et].
  destruct (ce_basis e) as [y|]; [destruct (idx_eqb y (b_idx b))|]; cbn [bind]; rewrite Et; cbn [bind]; eexists; reflexivity.
Qed.

Lemma iupd_revert_total b : forall l, (forall e, In e l -> ie_idx e <> b_idx b) ->
  exists l', iupd_revert b l = Ok l'.
Proof.
  induction l as [|e t IH]; intros H; cbn [iupd_revert]; [eexists; reflexivity|].
  unfold upd_revert at 1.
  assert (idx_eqb (ie_idx e) (b_idx b) = false) as Q by (apply idx_eqb_neq; apply H; left; reflexivity).
  rewrite Q. destruct (IH (fun x Hx => H x (or_intror Hx))) as [t' Et].
  destruct (ie_basis e) as [y|]; [destruct (idx_eqb y (b_idx b))|]; cbn [bind]; rewrite Et; cbn [bind]; eexists; reflexivity.
Qed.
