(* Elements/ProofsTotal.v — the chain update never panics or fails on histories that obey the
   contract lifecycle: in particular the revert order (revert contracts, delete the reverted
   chain index element, only then hand every remaining row to core's revert updater) never asks
   core to revert a leaf the reverted block created.

   WP-E2: a block may carry SEVERAL changes of one contract — exactly the combinations consensus
   admits for a v2 contract ([shape2], mirrored from coq/Contracts/Chain.v, where the core rule behind
   each clause is cited) — and pending rows are rejected by the per-block RejectContracts step. *)
From Coq Require Import Lia ZifyBool ZifyN.
From HostdBase Require Import Base.
From HostdElements Require Import Model Proofs.

(** * Contract lifecycle along a chain *)
Definition ev_cid (e : event) : N :=
  match e with EFormed c _ => c | ERevised c _ _ => c | EResolved c _ => c end.
(* the changes of contract c in a block, in the order Apply/RevertContracts meet them *)
Definition evs_of (c : N) (l : list event) : list event := filter (fun e => (ev_cid e =? c)%N) l.

Definition next1 (old : cstatus) (e : event) : cstatus :=
  match e with EFormed _ _ => SActive | ERevised _ _ _ => old | EResolved _ k => kstatus k end.
Definition prev1 (cur : cstatus) (e : event) : cstatus :=
  match e with EFormed _ _ => SUnconfirmed | ERevised _ _ _ => cur | EResolved _ _ => SActive end.

(* the status the chain C (head = tip) gives a contract: pending until formed, then active, then
   resolved.  (The row of a contract the chain leaves pending may be pending or rejected: [stat_rel].) *)
Fixpoint cstat (C : list block) (c : N) : cstatus :=
  match C with
  | [] => SUnconfirmed
  | b :: C' => fold_left next1 (evs_of c (grouped (b_events b))) (cstat C' c)
  end.

Definition unconf (st : cstatus) : bool :=
  match st with SUnconfirmed | SRejected => true | _ => false end.

(* consensus across blocks: a contract is formed once, revised and resolved only while unresolved
   (validateV2FileContracts/validateParent: "is not present in the accumulator", "has already been
   resolved in a previous block") *)
Definition ev_ok (old : cstatus) (e : event) : Prop :=
  match e with
  | EFormed _ _ => unconf old = true
  | ERevised _ _ _ => old = SActive
  | EResolved _ _ => old = SActive
  end.
Fixpoint evs_ok (old : cstatus) (l : list event) : Prop :=
  match l with [] => True | e :: t => ev_ok old e /\ evs_ok (next1 old e) t end.

(* consensus inside one block, per contract (core keeps ONE diff per contract id and block):
     - nothing; created; revised (several revisions are merged into the last one); resolved;
     - revised AND resolved: a revision and a renewal in different transactions of the block — the
       diff carries Revision and Resolution.  (Revision + storage proof / expiration are admitted
       here too although consensus excludes them — a proof needs the chain index of the proof height
       in the parent state, an expiration childHeight > ExpirationHeight, a revision childHeight <=
       ProofHeight: the theorems only get wider.)
   Excluded: created together with anything else (a revision or resolution names its parent by a
   Merkle proof in the accumulator of the parent state; resolveV2FileContractElement panics on a
   created element), two resolutions, a revision after the resolution (validateParent, ms.spent). *)
Definition shape2 (l : list event) : Prop :=
  match l with
  | [] | [EFormed _ _] | [ERevised _ _ _] | [EResolved _ _] | [ERevised _ _ _; EResolved _ _] => True
  | _ => False
  end.

(* the confirmed revision number the chain C gives a contract: the created contract's, then the
   last revision's *)
Definition rev1 (r : N) (e : event) : N :=
  match e with EFormed _ r' => r' | ERevised _ _ n => n | EResolved _ _ => r end.
Fixpoint crevn (C : list block) (c : N) : N :=
  match C with
  | [] => 0%N
  | b :: C' => fold_left rev1 (evs_of c (grouped (b_events b))) (crevn C' c)
  end.
(* a revision's diff names the contract as the chain holds it (its element is the parent in the
   accumulator of the parent state): the "old" revision number of [ERevised] is the chain's *)
Fixpoint revs_consistent (r : N) (l : list event) : Prop :=
  match l with
  | [] => True
  | e :: t => match e with ERevised _ o _ => o = r | _ => True end /\ revs_consistent (rev1 r e) t
  end.

Fixpoint lifecycle_ok (C : list block) : Prop :=
  match C with
  | [] => True
  | b :: C' => lifecycle_ok C' /\
               forall c, shape2 (evs_of c (grouped (b_events b))) /\
                         evs_ok (cstat C' c) (evs_of c (grouped (b_events b))) /\
                         revs_consistent (crevn C' c) (evs_of c (grouped (b_events b)))
  end.

Definition mentioned (c : N) (C : list block) : Prop :=
  exists b e, In b C /\ In e (b_events b) /\ ev_cid e = c.

Lemma grouped_In_iff l e : In e (grouped l) <-> In e l.
Proof.
  split; [apply grouped_In|]. intros H. unfold grouped. rewrite !in_app_iff, !filter_In.
  destruct e as [c r|c o n|c [| |]]; cbn; tauto.
Qed.

Lemma lifecycle_app X : forall Y, lifecycle_ok (X ++ Y) -> lifecycle_ok Y.
Proof. induction X as [|b X IH]; intros Y H; cbn in H; [exact H|]. apply IH. tauto. Qed.

Lemma evs_of_cons c e t : evs_of c (e :: t) = if (ev_cid e =? c)%N then e :: evs_of c t else evs_of c t.
Proof. reflexivity. Qed.

Lemma evs_of_In c l e : In e (evs_of c l) <-> In e l /\ ev_cid e = c.
Proof. unfold evs_of. rewrite filter_In, N.eqb_eq. tauto. Qed.

Lemma evs_of_none c l : (forall e, In e l -> ev_cid e <> c) -> evs_of c l = [].
Proof.
  induction l as [|e t IH]; intros H; [reflexivity|]. rewrite evs_of_cons.
  destruct (ev_cid e =? c)%N eqn:Q; [exfalso; apply (H e); [left; reflexivity|lia]|].
  apply IH. intros e' He'. apply H. right. exact He'.
Qed.

Lemma cstat_unmentioned C c : ~ mentioned c C -> cstat C c = SUnconfirmed.
Proof.
  induction C as [|b C IH]; intros H; cbn; [reflexivity|].
  rewrite evs_of_none.
  - cbn. apply IH. intros [b' [e [Hb [He E]]]]. apply H. exists b', e. split; [right; exact Hb|auto].
  - intros e He E. apply H. exists b, e. split; [left; reflexivity|]. split; [apply grouped_In; exact He|exact E].
Qed.

Lemma fold_next1_not_rejected l : forall old, old <> SRejected -> fold_left next1 l old <> SRejected.
Proof.
  induction l as [|e t IH]; intros old H; cbn; [exact H|]. apply IH.
  destruct e as [c r|c o n|c [| |]]; cbn; try discriminate. exact H.
Qed.

Lemma cstat_not_rejected C c : cstat C c <> SRejected.
Proof. induction C as [|b C IH]; cbn; [discriminate|]. apply fold_next1_not_rejected. exact IH. Qed.

(* the row of a contract follows the chain, except that a contract the chain leaves pending may
   have been rejected *)
Definition stat_rel (st x : cstatus) : Prop := st = x \/ (st = SRejected /\ x = SUnconfirmed).

Lemma stat_rel_conf st x : unconf x = false -> stat_rel st x -> st = x.
Proof. intros U [E|[_ E]]; [exact E|]. subst x. discriminate. Qed.

Lemma evs_ok_rel st x l : stat_rel st x -> evs_ok x l ->
  evs_ok st l /\ stat_rel (fold_left next1 l st) (fold_left next1 l x).
Proof.
  intros [->|[-> ->]] H; [split; [exact H|left; reflexivity]|].
  destruct l as [|e t]; [split; [exact I|right; auto]|].
  cbn [evs_ok fold_left] in *. destruct H as [H1 H2].
  destruct e as [c r|c o n|c k]; cbn in H1; try discriminate.
  cbn [next1] in *. split; [split; [reflexivity|exact H2]|left; reflexivity].
Qed.

(** * Status bookkeeping of the event loops *)
Lemma alookup_aset_same V k (v : V) l : alookup k (aset k v l) = Some v.
Proof.
  induction l as [|[k' v'] t IH]; cbn; [now rewrite N.eqb_refl|].
  destruct (k =? k')%N eqn:E; cbn; [now rewrite N.eqb_refl| now rewrite E].
Qed.
Lemma alookup_aset_other V k k' (v : V) l : k <> k' -> alookup k (aset k' v l) = alookup k l.
Proof.
  intros Hne; induction l as [|[k2 v2] t IH]; cbn.
  - destruct (k =? k')%N eqn:E; [apply N.eqb_eq in E; contradiction|reflexivity].
  - destruct (k' =? k2)%N eqn:E2; cbn.
    + apply N.eqb_eq in E2; subst k2.
      destruct (k =? k')%N eqn:E; [apply N.eqb_eq in E; contradiction|reflexivity].
    + destruct (k =? k2)%N; [reflexivity|exact IH].
Qed.


Lemma apply_event_status b s e : (forall st, alookup (ev_cid e) (contracts s) = Some st -> ev_ok st e) ->
  exists s', apply_event b s e = Ok s' /\
    forall c, alookup c (contracts s') =
      if (ev_cid e =? c)%N then option_map (fun st => next1 st e) (alookup c (contracts s)) else alookup c (contracts s).
Proof.
  intros V. destruct e as [c0 rv|c0 o nw|c0 k]; cbn [apply_event ev_cid] in *.
  - destruct (alookup c0 (contracts s)) as [st|] eqn:L.
    + specialize (V st eq_refl). cbn in V.
      assert (exists s', match st with
                | SUnconfirmed | SRejected => Ok (set_c s (aset c0 SActive (contracts s)) (cset c0 {| ce_cid := c0; ce_basis := Some (b_idx b); ce_born := b_idx b; ce_rev := rv |} (celems s)))
                | _ => Ok (set_c s (contracts s) (cset c0 {| ce_cid := c0; ce_basis := Some (b_idx b); ce_born := b_idx b; ce_rev := rv |} (celems s)))
                end = Ok s' /\ contracts s' = aset c0 SActive (contracts s)) as [s' [E Hc]].
      { destruct st; try discriminate; eexists; split; reflexivity. }
      exists s'. split; [exact E|]. intros c. rewrite Hc. destruct (c0 =? c)%N eqn:Q.
      * apply N.eqb_eq in Q. subst c. rewrite alookup_aset_same, L. reflexivity.
      * apply alookup_aset_other. lia.
    + exists s. split; [reflexivity|]. intros c. destruct (c0 =? c)%N eqn:Q; [|reflexivity].
      apply N.eqb_eq in Q. subst c. rewrite L. reflexivity.
  - unfold known. destruct (alookup c0 (contracts s)) as [st|] eqn:L.
    + eexists. split; [reflexivity|]. intros c. cbn [contracts set_c]. destruct (c0 =? c)%N eqn:Q; [|reflexivity].
      apply N.eqb_eq in Q. subst c. rewrite L. reflexivity.
    + exists s. split; [reflexivity|]. intros c. destruct (c0 =? c)%N eqn:Q; [|reflexivity].
      apply N.eqb_eq in Q. subst c. rewrite L. reflexivity.
  - destruct (alookup c0 (contracts s)) as [st|] eqn:L.
    + specialize (V st eq_refl). cbn in V. subst st.
      assert (cstatus_eqb SActive (kstatus k) = false) as F by (destruct k; reflexivity). rewrite F.
      eexists. split; [reflexivity|]. intros c. cbn [contracts set_c]. destruct (c0 =? c)%N eqn:Q.
      * apply N.eqb_eq in Q. subst c. rewrite alookup_aset_same, L. reflexivity.
      * apply alookup_aset_other. lia.
    + exists s. split; [reflexivity|]. intros c. destruct (c0 =? c)%N eqn:Q; [|reflexivity].
      apply N.eqb_eq in Q. subst c. rewrite L. reflexivity.
Qed.

(* the loop over ALL changes of a block, any number per contract: each contract's row goes through
   its own changes in order *)
Lemma apply_events_status b : forall evs s,
  (forall c st, alookup c (contracts s) = Some st -> evs_ok st (evs_of c evs)) ->
  exists s', fold_res (apply_event b) evs s = Ok s' /\
    forall c, alookup c (contracts s') = option_map (fold_left next1 (evs_of c evs)) (alookup c (contracts s)).
Proof.
  induction evs as [|e t IH]; intros s V; cbn [fold_res].
  - exists s. split; [reflexivity|]. intros c. cbn. destruct (alookup c (contracts s)); reflexivity.
  - destruct (apply_event_status b s e) as [s1 [E1 S1]].
    { intros st Hst. specialize (V _ _ Hst). rewrite evs_of_cons, N.eqb_refl in V. exact (proj1 V). }
    rewrite E1. cbn [bind].
    destruct (IH s1) as [s' [E' S']].
    { intros c st Hst. rewrite S1 in Hst. destruct (ev_cid e =? c)%N eqn:Q.
      - destruct (alookup c (contracts s)) as [st0|] eqn:L0; [|discriminate]. cbn in Hst. injection Hst as <-.
        specialize (V c st0 L0). rewrite evs_of_cons, Q in V. exact (proj2 V).
      - specialize (V c st Hst). rewrite evs_of_cons, Q in V. exact V. }
    exists s'. split; [exact E'|]. intros c. rewrite S', S1, evs_of_cons. destruct (ev_cid e =? c)%N eqn:Q.
    + destruct (alookup c (contracts s)); reflexivity.
    + reflexivity.
Qed.

Definition rev_ok (cur : cstatus) (e : event) : Prop :=
  match e with
  | EFormed _ _ => cur = SActive
  | ERevised _ _ _ => True
  | EResolved _ k => cur = kstatus k
  end.
Fixpoint revs_ok (cur : cstatus) (l : list event) : Prop :=
  match l with [] => True | e :: t => rev_ok cur e /\ revs_ok (prev1 cur e) t end.

Lemma revert_event_status s e : (forall st, alookup (ev_cid e) (contracts s) = Some st -> rev_ok st e) ->
  exists s', revert_event s e = Ok s' /\
    forall c, alookup c (contracts s') =
      if (ev_cid e =? c)%N then option_map (fun st => prev1 st e) (alookup c (contracts s)) else alookup c (contracts s).
Proof.
  intros V. destruct e as [c0 rv|c0 o nw|c0 k]; cbn [revert_event ev_cid] in *.
  - destruct (alookup c0 (contracts s)) as [st|] eqn:L.
    + specialize (V st eq_refl). cbn in V. subst st. eexists. split; [reflexivity|].
      intros c. cbn [contracts set_c]. destruct (c0 =? c)%N eqn:Q.
      * apply N.eqb_eq in Q. subst c. rewrite alookup_aset_same, L. reflexivity.
      * apply alookup_aset_other. lia.
    + exists s. split; [reflexivity|]. intros c. destruct (c0 =? c)%N eqn:Q; [|reflexivity].
      apply N.eqb_eq in Q. subst c. rewrite L. reflexivity.
  - unfold known. destruct (alookup c0 (contracts s)) as [st|] eqn:L.
    + eexists. split; [reflexivity|]. intros c. cbn [contracts set_c]. destruct (c0 =? c)%N eqn:Q; [|reflexivity].
      apply N.eqb_eq in Q. subst c. rewrite L. reflexivity.
    + exists s. split; [reflexivity|]. intros c. destruct (c0 =? c)%N eqn:Q; [|reflexivity].
      apply N.eqb_eq in Q. subst c. rewrite L. reflexivity.
  - destruct (alookup c0 (contracts s)) as [st|] eqn:L.
    + specialize (V st eq_refl). cbn in V. subst st.
      assert (cstatus_eqb (kstatus k) (kstatus k) = true) as F by (destruct k; reflexivity). rewrite F.
      eexists. split; [reflexivity|]. intros c. cbn [contracts set_c]. destruct (c0 =? c)%N eqn:Q.
      * apply N.eqb_eq in Q. subst c. rewrite alookup_aset_same, L. reflexivity.
      * apply alookup_aset_other. lia.
    + exists s. split; [reflexivity|]. intros c. destruct (c0 =? c)%N eqn:Q; [|reflexivity].
      apply N.eqb_eq in Q. subst c. rewrite L. reflexivity.
Qed.

Lemma revert_events_status : forall evs s,
  (forall c st, alookup c (contracts s) = Some st -> revs_ok st (evs_of c evs)) ->
  exists s', fold_res revert_event evs s = Ok s' /\
    forall c, alookup c (contracts s') = option_map (fold_left prev1 (evs_of c evs)) (alookup c (contracts s)).
Proof.
  induction evs as [|e t IH]; intros s V; cbn [fold_res].
  - exists s. split; [reflexivity|]. intros c. cbn. destruct (alookup c (contracts s)); reflexivity.
  - destruct (revert_event_status s e) as [s1 [E1 S1]].
    { intros st Hst. specialize (V _ _ Hst). rewrite evs_of_cons, N.eqb_refl in V. exact (proj1 V). }
    rewrite E1. cbn [bind].
    destruct (IH s1) as [s' [E' S']].
    { intros c st Hst. rewrite S1 in Hst. destruct (ev_cid e =? c)%N eqn:Q.
      - destruct (alookup c (contracts s)) as [st0|] eqn:L0; [|discriminate]. cbn in Hst. injection Hst as <-.
        specialize (V c st0 L0). rewrite evs_of_cons, Q in V. exact (proj2 V).
      - specialize (V c st Hst). rewrite evs_of_cons, Q in V. exact V. }
    exists s'. split; [exact E'|]. intros c. rewrite S', S1, evs_of_cons. destruct (ev_cid e =? c)%N eqn:Q.
    + destruct (alookup c (contracts s)); reflexivity.
    + reflexivity.
Qed.

(* the changes consensus admits for one contract in one block are undone by RevertContracts' order
   (formations, revisions, resolutions — the order of [grouped], NOT the reverse of the apply order):
   a row that went through them comes back to what the chain below says *)
Lemma shape_revert l old : shape2 l -> evs_ok old l -> old <> SRejected ->
  forall st, stat_rel st (fold_left next1 l old) -> revs_ok st l /\ stat_rel (fold_left prev1 l st) old.
Proof.
  intros Sh Ok NR st R.
  destruct l as [|e1 [|e2 [|e3 t]]]; [| | |destruct e1, e2; cbn in Sh; contradiction].
  - cbn in *. split; [exact I|exact R].
  - destruct e1 as [c r|c o n|c k]; cbn in Ok, R |- *; destruct Ok as [O1 _].
    + apply (stat_rel_conf st SActive eq_refl) in R. subst st. split; [auto|]. left.
      destruct old; try discriminate; [reflexivity|congruence].
    + subst old. apply (stat_rel_conf st SActive eq_refl) in R. subst st. split; [auto|left; reflexivity].
    + subst old. assert (unconf (kstatus k) = false) as U by (destruct k; reflexivity).
      apply (stat_rel_conf _ _ U) in R. subst st. split; [auto|left; reflexivity].
  - destruct e1 as [c r|c o n|c k], e2 as [c' r'|c' o' n'|c' k']; cbn in Sh; try contradiction.
    cbn in Ok, R |- *. destruct Ok as [O1 _]. subst old.
    assert (unconf (kstatus k') = false) as U by (destruct k'; reflexivity).
    apply (stat_rel_conf _ _ U) in R. subst st. split; [auto|left; reflexivity].
Qed.

(** * RejectContracts only turns pending rows into rejected ones *)
Definition rejst (rb h : N) (ng : list (N * N)) (c : N) (st : cstatus) : cstatus :=
  if (rb <=? h)%N then snd (rej1 rb h ng (c, st)) else st.

Lemma rej1_fst rb h ng p : fst (rej1 rb h ng p) = fst p.
Proof.
  unfold rej1. destruct (snd p); try reflexivity. destruct (alookup (fst p) ng) as [g|]; [|reflexivity].
  destruct (g <? h - rb)%N; reflexivity.
Qed.

Lemma alookup_reject rb h ng c cs :
  alookup c (reject_rows rb h ng cs) = option_map (rejst rb h ng c) (alookup c cs).
Proof.
  unfold reject_rows, rejst. destruct (rb <=? h)%N; [|destruct (alookup c cs); reflexivity].
  induction cs as [|[k v] t IH]; [reflexivity|]. cbn [map].
  pose proof (rej1_fst rb h ng (k, v)) as F. destruct (rej1 rb h ng (k, v)) as [k' v'] eqn:E. cbn in F. subst k'.
  cbn [alookup]. destruct (c =? k)%N eqn:Q; [|exact IH].
  apply N.eqb_eq in Q. subst k. cbn. rewrite E. reflexivity.
Qed.

Lemma rejst_cases rb h ng c st : rejst rb h ng c st = st \/ (st = SUnconfirmed /\ rejst rb h ng c st = SRejected).
Proof.
  unfold rejst, rej1. destruct (rb <=? h)%N; [|left; reflexivity]. cbn [fst snd].
  destruct st; try (left; reflexivity). destruct (alookup c ng) as [g|]; [|left; reflexivity].
  destruct (g <? h - rb)%N; [right; split; reflexivity|left; reflexivity].
Qed.

Lemma stat_rel_reject rb h ng c st x : stat_rel st x -> stat_rel (rejst rb h ng c st) x.
Proof.
  intros R. destruct (rejst_cases rb h ng c st) as [->|[-> ->]]; [exact R|].
  right. split; [reflexivity|]. destruct R as [<-|[E _]]; [reflexivity|discriminate].
Qed.

Lemma rejst_conf rb h ng c st : unconf (rejst rb h ng c st) = unconf st.
Proof. destruct (rejst_cases rb h ng c st) as [->|[-> ->]]; reflexivity. Qed.

Lemma known_reject (s s' : state) rb h ng : contracts s' = reject_rows rb h ng (contracts s) ->
  forall c, known s' c = known s c.
Proof. intros E c. unfold known. rewrite E, alookup_reject. destruct (alookup c (contracts s)); reflexivity. Qed.

(** * Element side of the revert loop: the elements of the formations of the block are gone *)
Lemma revert_event_keeps_absent s e s' c : revert_event s e = Ok s' ->
  (forall x, In x (celems s) -> ce_cid x <> c) -> forall x, In x (celems s') -> ce_cid x <> c.
Proof.
  intros H Habs x Hx. destruct (revert_event_spec s e s' H) as [_ [_ F]].
  destruct (F x Hx) as [x0 [Hx0 [A _]]]. rewrite A. exact (Habs x0 Hx0).
Qed.

Lemma revert_events_keep_absent : forall evs s s' c, fold_res revert_event evs s = Ok s' ->
  (forall x, In x (celems s) -> ce_cid x <> c) -> forall x, In x (celems s') -> ce_cid x <> c.
Proof.
  induction evs as [|e t IH]; intros s s' c; cbn [fold_res].
  - intros [= <-] H. exact H.
  - destruct (revert_event s e) as [s1| |] eqn:E; cbn [bind]; try discriminate. intros H Habs.
    exact (IH s1 s' c H (revert_event_keeps_absent s e s1 c E Habs)).
Qed.

Lemma revert_event_known s e s' c : revert_event s e = Ok s' -> known s' c = known s c.
Proof.
  unfold revert_event, known. destruct e as [c0 rv|c0 o nw|c0 k].
  - destruct (alookup c0 (contracts s)) as [st|] eqn:L; [|intros [= <-]; reflexivity].
    destruct st; try discriminate. intros [= <-]. cbn.
    destruct (N.eq_dec c c0) as [->|Hne]; [rewrite alookup_aset_same, L; reflexivity|rewrite alookup_aset_other by exact Hne; reflexivity].
  - destruct (alookup c0 (contracts s)); intros [= <-]; reflexivity.
  - destruct (alookup c0 (contracts s)) as [st|] eqn:L; [|intros [= <-]; reflexivity].
    destruct (cstatus_eqb st (kstatus k)); [|discriminate]. intros [= <-]. cbn.
    destruct (N.eq_dec c c0) as [->|Hne]; [rewrite alookup_aset_same, L; reflexivity|rewrite alookup_aset_other by exact Hne; reflexivity].
Qed.

Lemma revert_events_formed_gone : forall evs s s' c rv, fold_res revert_event evs s = Ok s' ->
  In (EFormed c rv) evs -> known s c = true -> forall x, In x (celems s') -> ce_cid x <> c.
Proof.
  induction evs as [|e t IH]; intros s s' c rv; cbn [fold_res]; [intros _ []|].
  destruct (revert_event s e) as [s1| |] eqn:E; cbn [bind]; try discriminate. intros H [->|Hin] K.
  - (* this event deletes the element *)
    apply (revert_events_keep_absent t s1 s' c H).
    unfold revert_event, known in *. destruct (alookup c (contracts s)) as [st|]; [|discriminate].
    destruct st; try discriminate. injection E as <-. cbn. intros x Hx.
    unfold cdel in Hx. apply filter_In in Hx. destruct Hx as [_ Q].
    destruct (ce_cid x =? c)%N eqn:Q2; [discriminate|lia].
  - apply (IH s1 s' c rv H Hin). rewrite (revert_event_known s e s1 c E). exact K.
Qed.

Lemma cupd_revert_total b : forall l, (forall e, In e l -> ce_born e <> b_idx b) ->
  exists l', cupd_revert b l = Ok l'.
Proof.
  induction l as [|e t IH]; intros H; cbn [cupd_revert]; [eexists; reflexivity|].
  unfold upd_revert at 1.
  assert (idx_eqb (ce_born e) (b_idx b) = false) as Q by (apply idx_eqb_neq; apply H; left; reflexivity).
  rewrite Q. destruct (IH (fun x Hx => H x (or_intror Hx))) as [t' Et].
  destruct (ce_basis e) as [y|]; [destruct (idx_eqb y (b_idx b))|]; cbn [bind]; rewrite Et; cbn [bind]; eexists; reflexivity.
Qed.

Lemma iupd_revert_total b : forall l, (forall e, In e l -> ie_idx e <> b_idx b) ->
  exists l', iupd_revert b l = Ok l'.
Proof.
  induction l as [|e t IH]; intros H; cbn [iupd_revert]; [eexists; reflexivity|].
  unfold upd_revert at 1.
  assert (idx_eqb (ie_idx e) (b_idx b) = false) as Q by (apply idx_eqb_neq; apply H; left; reflexivity).
  rewrite Q. destruct (IH (fun x Hx => H x (or_intror Hx))) as [t' Et].
  destruct (ie_basis e) as [y|]; [destruct (idx_eqb y (b_idx b))|]; cbn [bind]; rewrite Et; cbn [bind]; eexists; reflexivity.
Qed.

(** * Invariants for totality *)
Definition stat_inv (s : state) (C : list block) : Prop :=
  forall c st, alookup c (contracts s) = Some st -> stat_rel st (cstat C c).
Definition elems_known (s : state) : Prop := forall e, In e (celems s) -> known s (ce_cid e) = true.

Lemma known_aset s c st c' : known s c' = true ->
  match alookup c' (aset c st (contracts s)) with Some _ => true | None => false end = true.
Proof.
  unfold known. intros H. destruct (N.eq_dec c' c) as [->|Hne].
  - rewrite alookup_aset_same. reflexivity.
  - rewrite alookup_aset_other by exact Hne. exact H.
Qed.

Lemma apply_event_known b s e s' : elems_known s -> apply_event b s e = Ok s' ->
  elems_known s' /\ (forall c, known s c = true -> known s' c = true).
Proof.
  intros EK. unfold apply_event. destruct e as [c0 rv|c0 o nw|c0 k].
  - destruct (alookup c0 (contracts s)) as [st|] eqn:L; [|intros [= <-]; split; auto].
    assert (forall cs', (forall c, known s c = true -> match alookup c cs' with Some _ => true | None => false end = true) ->
              elems_known (set_c s cs' (cset c0 {| ce_cid := c0; ce_basis := Some (b_idx b); ce_born := b_idx b; ce_rev := rv |} (celems s)))) as G.
    { intros cs' Hk x Hx. cbn in Hx. unfold known. cbn [contracts set_c]. destruct Hx as [<-|Hx].
      - cbn. apply Hk. unfold known. rewrite L. reflexivity.
      - apply filter_In in Hx. apply Hk. apply EK. tauto. }
    destruct st; intros [= <-]; (split; [apply G|]); unfold known; cbn [contracts set_c]; auto; intros c; apply known_aset.
  - destruct (known s c0); intros [= <-]; (split; [|auto]); [|exact EK].
    intros x Hx. cbn in Hx. unfold crev in Hx. apply in_map_iff in Hx. destruct Hx as [x0 [E Hx0]].
    unfold known. cbn [contracts set_c]. specialize (EK x0 Hx0). unfold known in EK.
    destruct (ce_cid x0 =? c0)%N; subst x; cbn; exact EK.
  - destruct (alookup c0 (contracts s)) as [st|] eqn:L; [|intros [= <-]; split; auto].
    destruct (cstatus_eqb st (kstatus k)); [intros [= <-]; split; auto|].
    destruct st; try discriminate. intros [= <-]. split.
    + intros x Hx. cbn in Hx. unfold known. cbn [contracts set_c]. apply known_aset. apply EK. exact Hx.
    + intros c. unfold known at 2. cbn [contracts set_c]. apply known_aset.
Qed.

Lemma apply_events_known b : forall evs s s', elems_known s -> fold_res (apply_event b) evs s = Ok s' ->
  elems_known s'.
Proof.
  induction evs as [|e t IH]; intros s s' EK; cbn [fold_res]; [intros [= <-]; exact EK|].
  destruct (apply_event b s e) as [s1| |] eqn:E; cbn [bind]; try discriminate. intros H.
  exact (IH s1 s' (proj1 (apply_event_known b s e s1 EK E)) H).
Qed.

Lemma known_of_status s s' : (forall c, (alookup c (contracts s') = None <-> alookup c (contracts s) = None)) ->
  forall c, known s' c = known s c.
Proof.
  intros H c. unfold known. specialize (H c).
  destruct (alookup c (contracts s')), (alookup c (contracts s)); auto.
  - destruct H as [_ H]. discriminate (H eq_refl).
  - destruct H as [H _]. discriminate (H eq_refl).
Qed.

Lemma option_map_none A B (f : A -> B) o : option_map f o = None <-> o = None.
Proof. destruct o; cbn; split; congruence. Qed.

(** * One block never fails on a lifecycle-conforming chain *)
Lemma apply_block_total s C b : linked (b :: C) -> lifecycle_ok (b :: C) -> stat_inv s C -> elems_known s ->
  exists s', apply_block s b = Ok s' /\ stat_inv s' (b :: C) /\ elems_known s'.
Proof.
  intros L LC SI EK. cbn [lifecycle_ok] in LC. destruct LC as [_ V].
  set (evs := grouped (b_events b)) in *.
  destruct (apply_events_status b evs s) as [s1 [E1 S1]].
  { intros c st Hst. exact (proj1 (evs_ok_rel st _ _ (SI _ _ Hst) (proj1 (proj2 (V c))))). }
  unfold apply_block, apply_block_g. fold evs. rewrite E1. cbn [bind].
  rewrite (crefresh_apply_full sel_all _ _ b (celems s1) (fun e _ => row_sel_all _ _ e)).
  eexists. split; [reflexivity|]. split.
  - intros c st. cbn [contracts]. rewrite alookup_reject, S1.
    destruct (alookup c (contracts s)) as [st0|] eqn:L0; [|discriminate].
    cbn. intros [= <-]. apply stat_rel_reject. cbn [cstat]. fold evs.
    exact (proj2 (evs_ok_rel st0 _ _ (SI _ _ L0) (proj1 (proj2 (V c))))).
  - pose proof (apply_events_known b _ s s1 EK E1) as EK1.
    intros x Hx. cbn [celems] in Hx. unfold cupd_apply in Hx. apply in_map_iff in Hx.
    destruct Hx as [x0 [<- Hx0]]. unfold known. cbn [contracts ce_cid upd1_apply]. rewrite alookup_reject.
    specialize (EK1 x0 Hx0). unfold known in EK1. destruct (alookup (ce_cid x0) (contracts s1)); [reflexivity|discriminate].
Qed.

Lemma revert_block_total s C b : linked (b :: C) -> lifecycle_ok (b :: C) -> el_inv s (b :: C) ->
  stat_inv s (b :: C) -> elems_known s ->
  exists s', revert_block s b = Ok s' /\ stat_inv s' C /\ elems_known s'.
Proof.
  intros L LC EI SI EK. pose proof LC as LC'. cbn [lifecycle_ok] in LC'. destruct LC' as [_ V].
  set (evs := grouped (b_events b)) in *.
  assert (forall c st, alookup c (contracts s) = Some st ->
            revs_ok st (evs_of c evs) /\ stat_rel (fold_left prev1 (evs_of c evs) st) (cstat C c)) as SR.
  { intros c st Hst. apply (shape_revert _ _ (proj1 (V c)) (proj1 (proj2 (V c))) (cstat_not_rejected C c)).
    exact (SI _ _ Hst). }
  destruct (revert_events_status evs s) as [s1 [E1 S1]].
  { intros c st Hst. exact (proj1 (SR c st Hst)). }
  destruct (revert_events_spec evs s s1 E1) as [I1 [_ C1]].
  assert (forall c, known s1 c = known s c) as K1.
  { apply known_of_status. intros c. rewrite S1. apply option_map_none. }
  (* no surviving contract element was born in b *)
  assert (forall x, In x (celems s1) -> ce_born x <> b_idx b) as NB.
  { intros x Hx Eb. destruct (C1 x Hx) as [x0 [Hx0 [A [_ D]]]].
    cbn [el_inv] in EI. destruct EI as [EC _]. destruct (EC x0 Hx0) as [_ [c' [Hc' [Hb [rv Hf]]]]].
    assert (c' = b) as ->.
    { destruct Hc' as [<-|Hc']; [reflexivity|]. pose proof (linked_heights b C L c' Hc') as Hlt.
      rewrite D, Hb in Eb. rewrite Eb in Hlt. lia. }
    assert (In (EFormed (ce_cid x0) rv) evs) as Hin by (apply grouped_In_iff; exact Hf).
    apply (revert_events_formed_gone evs s s1 (ce_cid x0) rv E1 Hin (EK x0 Hx0) x Hx). exact A. }
  destruct (cupd_revert_total b (celems s1) NB) as [ce' Ece].
  destruct (iupd_revert_total b (filter (fun e => negb (idx_eqb (ie_idx e) (b_idx b))) (ielems s1))) as [ie' Eie].
  { intros e He. apply filter_In in He. destruct He as [_ Q]. apply idx_eqb_neq.
    destruct (idx_eqb (ie_idx e) (b_idx b)); [discriminate|reflexivity]. }
  unfold revert_block, revert_block_g. fold evs. rewrite E1. cbn [bind]. rewrite Eie. cbn [bind].
  rewrite (crefresh_revert_full sel_all _ _ b (celems s1) (fun e _ => row_sel_all _ _ e)). rewrite Ece. cbn [bind].
  eexists. split; [reflexivity|]. split.
  - intros c st. cbn [contracts]. rewrite S1.
    destruct (alookup c (contracts s)) as [st0|] eqn:L0; [|discriminate]. cbn. intros [= <-].
    exact (proj2 (SR c st0 L0)).
  - intros x Hx. cbn [celems] in Hx.
    destruct (cupd_revert_spec b _ _ Ece x Hx) as [x1 [Hx1 [A _]]].
    destruct (C1 x1 Hx1) as [x0 [Hx0 [A0 _]]].
    unfold known. cbn [contracts]. fold (known s1 (ce_cid x)). rewrite K1, A, A0. apply EK. exact Hx0.
Qed.

(** * Batches *)
Definition tinv (s : state) (C : list block) : Prop :=
  linked C /\ lifecycle_ok C /\ el_inv s C /\ stat_inv s C /\ elems_known s.

Lemma applies_total : forall bs s C, tinv s C -> linked (rev bs ++ C) -> lifecycle_ok (rev bs ++ C) ->
  exists s', fold_res apply_block bs s = Ok s' /\ tinv s' (rev bs ++ C).
Proof.
  induction bs as [|b t IH]; intros s C T L LC; cbn [fold_res rev app].
  - exists s. split; [reflexivity|exact T].
  - cbn [rev] in L, LC. rewrite <- app_assoc in L, LC. cbn [app] in L, LC.
    destruct T as [L0 [LC0 [EI [SI EK]]]].
    pose proof (linked_app (rev t) (b :: C) L) as Lb.
    pose proof (lifecycle_app (rev t) (b :: C) LC) as LCb.
    destruct (apply_block_total s C b Lb LCb SI EK) as [s1 [E1 [SI1 EK1]]].
    rewrite E1. cbn [bind].
    assert (tinv s1 (b :: C)) as T1.
    { split; [exact Lb|]. split; [exact LCb|]. split; [exact (el_inv_apply s C b s1 EI Lb E1)|]. split; assumption. }
    destruct (IH s1 (b :: C) T1 L LC) as [s' [E' T']]. exists s'. rewrite <- app_assoc. cbn [app]. split; assumption.
Qed.

Lemma reverts_total : forall rs s C, tinv s C -> firstn (length rs) C = rs ->
  exists s', fold_res revert_block rs s = Ok s' /\ tinv s' (skipn (length rs) C).
Proof.
  induction rs as [|r t IH]; intros s C T F; cbn [fold_res length skipn].
  - exists s. split; [reflexivity|exact T].
  - destruct C as [|b C]; [discriminate|]. cbn [length firstn] in F. injection F as Eb F. subst r.
    destruct T as [L [LC [EI [SI EK]]]].
    destruct (revert_block_total s C b L LC EI SI EK) as [s1 [E1 [SI1 EK1]]].
    rewrite E1. cbn [bind].
    assert (tinv s1 C) as T1.
    { split; [cbn [linked] in L; tauto|]. split; [cbn [lifecycle_ok] in LC; tauto|].
      split; [exact (el_inv_revert s C b s1 EI L E1)|]. split; assumption. }
    exact (IH s1 C T1 F).
Qed.

Lemma tinv_ext s s' C : tinv s C -> contracts s' = contracts s -> celems s' = celems s -> ielems s' = ielems s ->
  tinv s' C.
Proof.
  unfold tinv, stat_inv, elems_known, known, el_inv. intros [A [B [D [E F]]]] -> -> ->. tauto.
Qed.

Lemma batch_total s C rs bs : tinv s C -> wf_batch C rs bs -> lifecycle_ok (chain_after C rs bs) ->
  exists s', batch s rs bs = Ok s' /\ tinv s' (chain_after C rs bs).
Proof.
  intros T [F V] LC. unfold chain_after in *.
  destruct (reverts_total rs s C T F) as [s1 [E1 T1]].
  destruct (applies_total bs s1 _ T1 V LC) as [s2 [E2 T2]].
  unfold batch, batch_g. fold revert_block apply_block. destruct rs as [|r rs'] eqn:Ers; [destruct bs as [|b bs'] eqn:Ebs|].
  - cbn in E1, E2. injection E1 as <-. injection E2 as <-. exists s. split; [reflexivity|exact T2].
  - rewrite E1. cbn [bind]. rewrite E2. cbn [bind]. eexists. split; [reflexivity|].
    apply (tinv_ext s2); auto.
  - rewrite E1. cbn [bind]. rewrite E2. cbn [bind]. eexists. split; [reflexivity|].
    apply (tinv_ext s2); auto.
Qed.

