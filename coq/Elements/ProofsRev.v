(* Elements/ProofsRev.v — WHICH contract the stored element carries: its revision number is the
   confirmed revision number of the processed chain ([crevn]: the created contract's, then the last
   revision's).  In particular for a block that revises AND resolves a contract:
     - connected: applyV2ContractRevision writes the REVISED contract (RevisedV2 carries *diff.Revision)
       before the resolution changes the row — the store keeps the revised contract;
     - disconnected: RevertContracts writes the contract of the diff's element, i.e. the contract as it
       was BEFORE the block (buildContractState, revert: RevisedV2 carries fce.V2FileContract). *)
From Coq Require Import Lia ZifyBool ZifyN.
From HostdBase Require Import Base.
From HostdElements Require Import Model Proofs ProofsTotal.

Definition rev_inv (s : state) (C : list block) : Prop :=
  forall e, In e (celems s) -> ce_rev e = crevn C (ce_cid e).

(** * apply side *)
Lemma apply_event_rev b s ev s' (r : N -> N) : elems_known s ->
  (forall e, In e (celems s) -> ce_rev e = r (ce_cid e)) -> apply_event b s ev = Ok s' ->
  forall e, In e (celems s') -> ce_rev e = if (ev_cid ev =? ce_cid e)%N then rev1 (r (ce_cid e)) ev else r (ce_cid e).
Proof.
  intros EK R H e He. unfold apply_event in H. destruct ev as [c0 rv|c0 o nw|c0 k]; cbn [ev_cid rev1].
  - destruct (alookup c0 (contracts s)) as [st|] eqn:L.
    + assert (In e (cset c0 {| ce_cid := c0; ce_basis := Some (b_idx b); ce_born := b_idx b; ce_rev := rv |} (celems s))) as G
        by (destruct st; injection H as <-; exact He).
      destruct G as [<-|G]; [cbn; rewrite N.eqb_refl; reflexivity|].
      apply filter_In in G. destruct G as [G Q]. destruct (c0 =? ce_cid e)%N eqn:Q2.
      * apply N.eqb_eq in Q2. rewrite <- Q2, N.eqb_refl in Q. discriminate.
      * exact (R e G).
    + injection H as <-. pose proof (EK e He) as K. unfold known in K.
      destruct (c0 =? ce_cid e)%N eqn:Q2; [|exact (R e He)].
      apply N.eqb_eq in Q2. rewrite <- Q2, L in K. discriminate.
  - destruct (known s c0) eqn:K0; injection H as <-.
    + cbn [celems set_c] in He. unfold crev in He. apply in_map_iff in He. destruct He as [x [E Hx]].
      destruct (ce_cid x =? c0)%N eqn:Q; subst e; cbn [ce_cid ce_rev].
      * apply N.eqb_eq in Q. rewrite Q, N.eqb_refl. reflexivity.
      * rewrite N.eqb_sym, Q. exact (R x Hx).
    + pose proof (EK e He) as K. destruct (c0 =? ce_cid e)%N eqn:Q2; [|exact (R e He)].
      apply N.eqb_eq in Q2. rewrite <- Q2, K0 in K. discriminate.
  - assert (celems s' = celems s) as Ec.
    { destruct (alookup c0 (contracts s)) as [st|]; [|injection H as <-; reflexivity].
      destruct (cstatus_eqb st (kstatus k)); [injection H as <-; reflexivity|].
      destruct st; try discriminate. injection H as <-. reflexivity. }
    rewrite Ec in He. rewrite (R e He). destruct (c0 =? ce_cid e)%N; reflexivity.
Qed.

Lemma apply_events_rev b : forall evs s s' (r : N -> N), elems_known s ->
  (forall e, In e (celems s) -> ce_rev e = r (ce_cid e)) -> fold_res (apply_event b) evs s = Ok s' ->
  forall e, In e (celems s') -> ce_rev e = fold_left rev1 (evs_of (ce_cid e) evs) (r (ce_cid e)).
Proof.
  induction evs as [|ev t IH]; intros s s' r EK R; cbn [fold_res].
  - intros [= <-] e He. exact (R e He).
  - destruct (apply_event b s ev) as [s1| |] eqn:E; cbn [bind]; try discriminate. intros H e He.
    pose proof (IH s1 s' (fun c => if (ev_cid ev =? c)%N then rev1 (r c) ev else r c)
                  (proj1 (apply_event_known b s ev s1 EK E)) (apply_event_rev b s ev s1 r EK R E) H e He) as G.
    rewrite G, evs_of_cons. destruct (ev_cid ev =? ce_cid e)%N; reflexivity.
Qed.

Lemma rev_inv_apply s C b s' : elems_known s -> rev_inv s C -> apply_block s b = Ok s' -> rev_inv s' (b :: C).
Proof.
  intros EK R Ha. destruct (apply_block_shape s b s' Ha) as [s1 [He [Hc _]]].
  intros e' He'. rewrite Hc in He'. unfold cupd_apply in He'. apply in_map_iff in He'.
  destruct He' as [e1 [<- He1]]. cbn [upd1_apply ce_rev ce_cid crevn].
  exact (apply_events_rev b _ s s1 (crevn C) EK R He e1 He1).
Qed.

(** * revert side *)
Definition rrev1 (r : N) (e : event) : N := match e with ERevised _ o _ => o | _ => r end.

Lemma revert_event_rev s ev s' (r : N -> N) : elems_known s ->
  (forall e, In e (celems s) -> ce_rev e = r (ce_cid e)) -> revert_event s ev = Ok s' ->
  forall e, In e (celems s') -> ce_rev e = if (ev_cid ev =? ce_cid e)%N then rrev1 (r (ce_cid e)) ev else r (ce_cid e).
Proof.
  intros EK R H e He. unfold revert_event in H. destruct ev as [c0 rv|c0 o nw|c0 k]; cbn [ev_cid rrev1].
  - assert (In e (celems s)) as G.
    { destruct (alookup c0 (contracts s)) as [st|]; [|injection H as <-; exact He].
      destruct st; try discriminate. injection H as <-. cbn [celems set_c] in He. unfold cdel in He.
      apply filter_In in He. tauto. }
    rewrite (R e G). destruct (c0 =? ce_cid e)%N; reflexivity.
  - destruct (known s c0) eqn:K0; injection H as <-.
    + cbn [celems set_c] in He. unfold crev in He. apply in_map_iff in He. destruct He as [x [E Hx]].
      destruct (ce_cid x =? c0)%N eqn:Q; subst e; cbn [ce_cid ce_rev].
      * apply N.eqb_eq in Q. rewrite Q, N.eqb_refl. reflexivity.
      * rewrite N.eqb_sym, Q. exact (R x Hx).
    + pose proof (EK e He) as K. destruct (c0 =? ce_cid e)%N eqn:Q2; [|exact (R e He)].
      apply N.eqb_eq in Q2. rewrite <- Q2, K0 in K. discriminate.
  - assert (celems s' = celems s) as Ec.
    { destruct (alookup c0 (contracts s)) as [st|]; [|injection H as <-; reflexivity].
      destruct (cstatus_eqb st (kstatus k)); [|discriminate]. injection H as <-. reflexivity. }
    rewrite Ec in He. rewrite (R e He). destruct (c0 =? ce_cid e)%N; reflexivity.
Qed.

Lemma revert_event_elems_known s e s' : elems_known s -> revert_event s e = Ok s' -> elems_known s'.
Proof.
  intros EK H x Hx. destruct (revert_event_spec s e s' H) as [_ [_ F]].
  destruct (F x Hx) as [x0 [Hx0 [A _]]]. rewrite (revert_event_known s e s' _ H), A. exact (EK x0 Hx0).
Qed.

Lemma revert_events_rev : forall evs s s' (r : N -> N), elems_known s ->
  (forall e, In e (celems s) -> ce_rev e = r (ce_cid e)) -> fold_res revert_event evs s = Ok s' ->
  forall e, In e (celems s') -> ce_rev e = fold_left rrev1 (evs_of (ce_cid e) evs) (r (ce_cid e)).
Proof.
  induction evs as [|ev t IH]; intros s s' r EK R; cbn [fold_res].
  - intros [= <-] e He. exact (R e He).
  - destruct (revert_event s ev) as [s1| |] eqn:E; cbn [bind]; try discriminate. intros H e He.
    pose proof (IH s1 s' (fun c => if (ev_cid ev =? c)%N then rrev1 (r c) ev else r c)
                  (revert_event_elems_known s ev s1 EK E) (revert_event_rev s ev s1 r EK R E) H e He) as G.
    rewrite G, evs_of_cons. destruct (ev_cid ev =? ce_cid e)%N; reflexivity.
Qed.

(* the changes consensus admits for one contract in one block: undoing them in RevertContracts' order
   gives back the revision the chain below holds — unless the block created the contract *)
Lemma shape_rrev l r : shape2 l -> revs_consistent r l -> (forall c rv, ~ In (EFormed c rv) l) ->
  fold_left rrev1 l (fold_left rev1 l r) = r.
Proof.
  intros Sh Co NF. destruct l as [|e1 [|e2 [|e3 t]]]; [reflexivity| | |destruct e1, e2; cbn in Sh; contradiction].
  - destruct e1 as [c rv|c o n|c k]; cbn in *; [exfalso; apply (NF c rv); auto|tauto|reflexivity].
  - destruct e1 as [c rv|c o n|c k], e2 as [c' rv'|c' o' n'|c' k']; cbn in Sh; try contradiction.
    cbn in *. tauto.
Qed.

Lemma cupd_revert_rev b : forall l l', cupd_revert b l = Ok l' ->
  forall e', In e' l' -> exists e, In e l /\ ce_cid e' = ce_cid e /\ ce_rev e' = ce_rev e.
Proof.
  induction l as [|x t IH]; intros l'; cbn [cupd_revert]; [intros [= <-] e' []|].
  destruct (upd_revert b (ce_basis x) (ce_born x)) as [y| |]; cbn [bind]; try discriminate.
  destruct (cupd_revert b t) as [t'| |] eqn:Et; cbn [bind]; try discriminate.
  intros [= <-] e' [<-|He'].
  - exists x. cbn. auto.
  - destruct (IH t' eq_refl e' He') as [e [He Q]]. exists e. split; [right; exact He|exact Q].
Qed.

Lemma rev_inv_revert s C b s' : lifecycle_ok (b :: C) -> elems_known s -> rev_inv s (b :: C) ->
  revert_block s b = Ok s' -> rev_inv s' C.
Proof.
  intros LC EK R Hr. destruct (revert_block_shape s b s' Hr) as [s1 [He [Hc _]]].
  cbn [lifecycle_ok] in LC. destruct LC as [_ V]. set (evs := grouped (b_events b)) in *.
  destruct (revert_events_spec evs s s1 He) as [_ [_ C1]].
  intros e' He'. destruct (cupd_revert_rev b _ _ Hc e' He') as [e1 [He1 [A Er]]].
  rewrite Er, A. set (c := ce_cid e1).
  rewrite (revert_events_rev evs s s1 (crevn (b :: C)) EK R He e1 He1). fold c. cbn [crevn]. fold evs.
  destruct (V c) as [Sh [_ Co]]. apply shape_rrev; [exact Sh|exact Co|].
  intros c' rv Hin. apply evs_of_In in Hin. destruct Hin as [Hin Ec]. cbn in Ec. subst c'.
  destruct (C1 e1 He1) as [e0 [He0 [A0 _]]].
  apply (revert_events_formed_gone evs s s1 c rv He Hin) with (x := e1); [|exact He1|reflexivity].
  unfold c. rewrite A0. exact (EK e0 He0).
Qed.

(** * batches *)
Lemma rev_inv_applies : forall bs s C s', tinv s C -> rev_inv s C -> linked (rev bs ++ C) -> lifecycle_ok (rev bs ++ C) ->
  fold_res apply_block bs s = Ok s' -> rev_inv s' (rev bs ++ C).
Proof.
  induction bs as [|b t IH]; intros s C s' T R L LC; cbn [fold_res rev app].
  - intros [= <-]. exact R.
  - cbn [rev] in L, LC. rewrite <- app_assoc in L, LC. cbn [app] in L, LC.
    destruct (apply_block s b) as [s1| |] eqn:E1; cbn [bind]; try discriminate. intros H.
    destruct T as [L0 [LC0 [EI [SI EK]]]].
    pose proof (linked_app (rev t) (b :: C) L) as Lb.
    pose proof (lifecycle_app (rev t) (b :: C) LC) as LCb.
    destruct (apply_block_total s C b Lb LCb SI EK) as [s1' [E1' [SI1 EK1]]].
    rewrite E1 in E1'. injection E1' as <-.
    assert (tinv s1 (b :: C)) as T1.
    { split; [exact Lb|]. split; [exact LCb|]. split; [exact (el_inv_apply s C b s1 EI Lb E1)|]. split; assumption. }
    rewrite <- app_assoc. cbn [app].
    exact (IH s1 (b :: C) s' T1 (rev_inv_apply s C b s1 EK R E1) L LC H).
Qed.

Lemma rev_inv_reverts : forall rs s C s', tinv s C -> rev_inv s C -> firstn (length rs) C = rs ->
  fold_res revert_block rs s = Ok s' -> tinv s' (skipn (length rs) C) /\ rev_inv s' (skipn (length rs) C).
Proof.
  induction rs as [|r t IH]; intros s C s' T R F; cbn [fold_res length skipn].
  - intros [= <-]. split; assumption.
  - destruct C as [|b C]; [discriminate|]. cbn [length firstn] in F. injection F as Eb F. subst r.
    destruct (revert_block s b) as [s1| |] eqn:E1; cbn [bind]; try discriminate. intros H.
    destruct T as [L [LC [EI [SI EK]]]].
    destruct (revert_block_total s C b L LC EI SI EK) as [s1' [E1' [SI1 EK1]]].
    rewrite E1 in E1'. injection E1' as <-.
    assert (tinv s1 C) as T1.
    { split; [cbn [linked] in L; tauto|]. split; [cbn [lifecycle_ok] in LC; tauto|].
      split; [exact (el_inv_revert s C b s1 EI L E1)|]. split; assumption. }
    exact (IH s1 C s' T1 (rev_inv_revert s C b s1 LC EK R E1) F H).
Qed.

Lemma rev_inv_batch s C rs bs s' : tinv s C -> rev_inv s C -> wf_batch C rs bs -> lifecycle_ok (chain_after C rs bs) ->
  batch s rs bs = Ok s' -> rev_inv s' (chain_after C rs bs).
Proof.
  intros T R [F V] LC H. unfold chain_after in *.
  destruct rs as [|r rs'] eqn:Ers; [destruct bs as [|b bs'] eqn:Ebs|].
  - cbn in H. injection H as <-. exact R.
  - destruct (batch_phases s [] (b :: bs') s' H) as [s1 [s2 [H1 [H2 [_ [A _]]]]]]; [right; discriminate|].
    cbn in H1. injection H1 as <-. intros e He. rewrite A in He.
    exact (rev_inv_applies (b :: bs') s C s2 T R V LC H2 e He).
  - destruct (batch_phases s (r :: rs') bs s' H) as [s1 [s2 [H1 [H2 [_ [A _]]]]]]; [left; discriminate|].
    destruct (rev_inv_reverts (r :: rs') s C s1 T R F H1) as [T1 R1].
    intros e He. rewrite A in He. exact (rev_inv_applies bs s1 _ s2 T1 R1 V LC H2 e He).
Qed.

(* what the chain says about a block that revises and resolves contract c, and about the chain below *)
Lemma same_block_chain C b c o n k : lifecycle_ok (b :: C) ->
  evs_of c (grouped (b_events b)) = [ERevised c o n; EResolved c k] ->
  crevn (b :: C) c = n /\ cstat (b :: C) c = kstatus k /\ crevn C c = o /\ cstat C c = SActive.
Proof.
  intros LC E. cbn [lifecycle_ok] in LC. destruct LC as [_ V]. destruct (V c) as [_ [Ok Co]].
  rewrite E in Ok, Co. cbn in Ok, Co. cbn [crevn cstat]. rewrite E. cbn. intuition.
Qed.
