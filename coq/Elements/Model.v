(* Elements/Model.v — the state elements hostd stores for its v2 contracts and for recent
   chain indices, and the order in which their Merkle proofs are refreshed:
     host/contracts/update.go      Manager.UpdateChainState (lines ~560-630), buildContractState (v2 part)
     persist/sqlite/consensus.go   UpdateContractElementProofs, UpdateChainIndexElementProofs,
                                   AddContractChainIndexElement, RevertContractChainIndexElement,
                                   DeleteExpiredChainIndexElements, applyV2ContractFormation,
                                   revertV2ContractFormation, applyV2ContractRevision,
                                   apply/revertSuccessfulV2Contracts, apply/revertFailedV2Contracts,
                                   ResetChainState, SetLastIndex
     persist/sqlite/contracts.go   V2ContractElement (basis = last_scanned_index), ContractChainIndexElement

   Abstraction of core's accumulator (go.sia.tech/core/consensus/merkle.go — trusted, not verified):
   a stored element carries the *basis* of its proof, the chain index of the consensus state the
   proof verifies against, and the block that created its leaf ([born]).
     - the update of applying block b (parent p) turns a proof with basis p into one with basis b,
       leaves an element whose leaf b itself added untouched (elementApplyUpdate.updateElementProof:
       "newly-added element"), and garbles anything else (basis None = invalid);
     - the update of reverting block b (to parent p) turns basis b into basis p, PANICS on an element
       whose leaf was added by b ("cannot update an element that is not present in the accumulator"),
       and garbles anything else.
   v2 contract status is modelled because the formation/resolution code panics on unexpected
   statuses.  Pending ([SUnconfirmed]) and rejected ([SRejected]) are distinguished since WP-E2:
     host/contracts/update.go      UpdateChainState, per applied block: "if index.Height >= cm.rejectBuffer
                                   { tx.RejectContracts(index.Height - cm.rejectBuffer) }"
     persist/sqlite/consensus.go   RejectContracts / rejectV2Contracts: rows WHERE contract_status <> rejected
                                   AND confirmation_index IS NULL AND negotiation_height < $height become rejected
   confirmation_index is written only by applyV2ContractFormation (set, together with status active,
   and only when the status is pending or rejected) and by revertV2ContractFormation (NULL, together
   with status pending): it is NULL exactly when the status is pending or rejected, so the selection
   of rejectV2Contracts is "pending and negotiated before the height" and the panic branch of
   RejectContracts ("unexpected contract status") cannot be reached; the column is not modelled.
   negotiation_height (cm.chain.Tip().Height when AddV2Contract / RenewV2Contract ran) is carried by
   the operation; the reject buffer is the manager's option (default 18, contracts.WithRejectAfter).

   Several changes of one contract in one block: consensus merges every transaction of a block that
   touches a v2 contract into ONE V2FileContractElementDiff; a revision and a resolution of the same
   contract (in practice: a renewal; core/consensus validateV2FileContracts) give a diff with Revision
   AND Resolution set, whose element is the contract BEFORE the block.  buildContractState (since
   d7434ff: `case rev != nil: ...; fallthrough; case res != nil:`) records such a diff in RevisedV2 and
   in one of SuccessfulV2/RenewedV2/FailedV2: two events of one contract, [ERevised c old new] and
   [EResolved c k], which Apply/RevertContracts meet in the order of [grouped].

   Which rows the per-block refresh touches is explicit: [selection] is a predicate on the columns of
   the contracts_v2 row an element belongs to (contract_status — confirmation_index/resolution_index
   are determined by it — and renewed_to); getContractStateElements at HEAD has no join and no WHERE
   clause, i.e. [sel_all].  Every definition from the refresh upwards takes the selection as a
   parameter ([..._g]); the model of the code is the instance at [sel_all].
     persist/sqlite/contracts.go   RenewV2Contract / updateResolvedV2Contract: renewed_to is written when the
                                   renewal is negotiated (RPC), without any chain event, and never cleared
     host/contracts/manager.go     RenewV2Contract (no status check on the existing contract)
   No proofs here. *)
From HostdBase Require Import Base.
Set Implicit Arguments.

Record idx := { ih : N; ib : N }.
Definition idx_eqb (a b : idx) : bool := ((ih a =? ih b) && (ib a =? ib b))%N.
Definition oidx_eqb := option_eqb idx_eqb.

(** * Rows *)
Inductive cstatus := SUnconfirmed (* pending *) | SRejected | SActive | SSuccessful | SRenewed | SFailed.
Definition cstatus_eqb (a b : cstatus) : bool :=
  match a, b with
  | SUnconfirmed, SUnconfirmed | SRejected, SRejected | SActive, SActive | SSuccessful, SSuccessful
  | SRenewed, SRenewed | SFailed, SFailed => true
  | _, _ => false
  end.

(* contract_v2_state_elements: contract, proof basis, block that created the leaf, confirmed revision *)
Record celem := { ce_cid : N; ce_basis : option idx; ce_born : idx; ce_rev : N }.
(* contracts_v2_chain_index_elements: the chain index (id, height) and its proof basis; the leaf
   of a chain index element is created by its own block *)
Record ielem := { ie_idx : idx; ie_basis : option idx }.

Record state := {
  contracts : list (N * cstatus);   (* contracts_v2: contract id -> status *)
  renewed : list (N * N);           (* contracts_v2.renewed_to: contract -> the renewal negotiated for it *)
  negs : list (N * N);              (* contracts_v2.negotiation_height *)
  rbuf : N;                         (* contracts.Manager.rejectBuffer *)
  celems : list celem;              (* keyed by contract *)
  ielems : list ielem;              (* keyed by block id *)
  tip : option idx                  (* last_scanned_index *)
}.
Definition defaultRejectBuffer : N := 18.     (* host/contracts/manager.go NewManager *)
Definition init : state :=
  {| contracts := []; renewed := []; negs := []; rbuf := defaultRejectBuffer; celems := []; ielems := []; tip := None |}.

(** * Blocks as the contract manager sees them *)
Inductive rkind := KSuccessful | KRenewed | KFailed.
Inductive event :=
| EFormed (c rev : N)                  (* diff.Created *)
| ERevised (c old new : N)             (* diff.Revision: revision numbers before and after the block *)
| EResolved (c : N) (k : rkind).       (* diff.Resolution, classified as in buildContractState *)

Record block := { b_idx : idx; b_parent : idx; b_events : list event }.

(** * core's proof updaters (abstraction, see header) *)
Definition upd_apply (b : block) (basis : option idx) (born : idx) : option idx :=
  match basis with
  | Some x => if idx_eqb x (b_parent b) then Some (b_idx b)
              else if idx_eqb x (b_idx b) && idx_eqb born (b_idx b) then Some (b_idx b)
              else None
  | None => None
  end.

Definition upd_revert (b : block) (basis : option idx) (born : idx) : res (option idx) :=
  if idx_eqb born (b_idx b) then Panic
  else match basis with
       | Some x => if idx_eqb x (b_idx b) then Ok (Some (b_parent b)) else Ok None
       | None => Ok None
       end.

(* the updater run over a list of rows *)
Definition upd1_apply (b : block) (e : celem) : celem :=
  {| ce_cid := ce_cid e; ce_basis := upd_apply b (ce_basis e) (ce_born e); ce_born := ce_born e; ce_rev := ce_rev e |}.
Definition cupd_apply (b : block) (l : list celem) : list celem := map (upd1_apply b) l.
Definition iupd_apply (b : block) (l : list ielem) : list ielem :=
  map (fun e => {| ie_idx := ie_idx e; ie_basis := upd_apply b (ie_basis e) (ie_idx e) |}) l.

(* UpdateChainIndexElementProofs: every stored row goes through the updater (getChainStateElements
   reads the whole table) *)
Fixpoint cupd_revert (b : block) (l : list celem) : res (list celem) :=
  match l with
  | [] => Ok []
  | e :: t => do x <- upd_revert b (ce_basis e) (ce_born e);
              do t' <- cupd_revert b t;
              Ok ({| ce_cid := ce_cid e; ce_basis := x; ce_born := ce_born e; ce_rev := ce_rev e |} :: t')
  end.
Fixpoint iupd_revert (b : block) (l : list ielem) : res (list ielem) :=
  match l with
  | [] => Ok []
  | e :: t => do x <- upd_revert b (ie_basis e) (ie_idx e);
              do t' <- iupd_revert b t;
              Ok ({| ie_idx := ie_idx e; ie_basis := x |} :: t')
  end.

(** * Which contract element rows the refresh touches
   getContractStateElements reads the rows, UpdateContractElementProofs hands each of them to core's
   updater and updateContractStateElements writes exactly those back (UPDATE .. WHERE contract_id=?);
   a row that is not read keeps its leaf index and proof.  A [selection] decides from the columns of
   the element's contracts_v2 row: its status and its renewed_to. *)
Definition selection := cstatus -> option N -> bool.
(* HEAD: SELECT contract_id, leaf_index, merkle_proof FROM contract_v2_state_elements *)
Definition sel_all : selection := fun _ _ => true.

Definition row_sel (sel : selection) (cs : list (N * cstatus)) (rn : list (N * N)) (e : celem) : bool :=
  match alookup (ce_cid e) cs with
  | Some st => sel st (alookup (ce_cid e) rn)
  | None => true     (* no such row: contract_id REFERENCES contracts_v2(id) *)
  end.

Definition crefresh_apply (sel : selection) (cs : list (N * cstatus)) (rn : list (N * N)) (b : block)
    (l : list celem) : list celem :=
  map (fun e => if row_sel sel cs rn e then upd1_apply b e else e) l.

Fixpoint crefresh_revert (sel : selection) (cs : list (N * cstatus)) (rn : list (N * N)) (b : block)
    (l : list celem) : res (list celem) :=
  match l with
  | [] => Ok []
  | e :: t =>
      if row_sel sel cs rn e
      then do x <- upd_revert b (ce_basis e) (ce_born e);
           do t' <- crefresh_revert sel cs rn b t;
           Ok ({| ce_cid := ce_cid e; ce_basis := x; ce_born := ce_born e; ce_rev := ce_rev e |} :: t')
      else do t' <- crefresh_revert sel cs rn b t; Ok (e :: t')
  end.

(** * persist/sqlite/consensus.go, v2 contract rows *)
Definition cset (c : N) (e : celem) (l : list celem) : list celem :=   (* INSERT .. ON CONFLICT (contract_id) DO UPDATE *)
  e :: filter (fun x => negb (ce_cid x =? c)%N) l.
Definition cdel (c : N) (l : list celem) : list celem := filter (fun x => negb (ce_cid x =? c)%N) l.
Definition crev (c rev : N) (l : list celem) : list celem :=           (* UPDATE .. SET raw_contract, revision_number *)
  map (fun x => if (ce_cid x =? c)%N
                then {| ce_cid := ce_cid x; ce_basis := ce_basis x; ce_born := ce_born x; ce_rev := rev |}
                else x) l.

Definition known (s : state) (c : N) : bool :=
  match alookup c (contracts s) with Some _ => true | None => false end.

Definition set_c (s : state) (cs : list (N * cstatus)) (ce : list celem) : state :=
  {| contracts := cs; renewed := renewed s; negs := negs s; rbuf := rbuf s; celems := ce; ielems := ielems s; tip := tip s |}.

Definition kstatus (k : rkind) : cstatus :=
  match k with KSuccessful => SSuccessful | KRenewed => SRenewed | KFailed => SFailed end.

(* ApplyContracts for one diff of block b.  Diffs of contracts the host does not have are
   dropped by buildContractState (V2ContractRelevant).  A renewal shows up as the resolution
   (KRenewed) of the old contract and the formation of the new one in the same block. *)
Definition apply_event (b : block) (s : state) (e : event) : res state :=
  match e with
  | EFormed c rev =>
      match alookup c (contracts s) with
      | None => Ok s
      | Some st =>
          (* applyV2ContractFormation: the element of the formation is stored first, with the proof of
             the block being applied, also on a rescan *)
          let ce := cset c {| ce_cid := c; ce_basis := Some (b_idx b); ce_born := b_idx b; ce_rev := rev |} (celems s) in
          match st with
          | SUnconfirmed | SRejected => Ok (set_c s (aset c SActive (contracts s)) ce)
          | _ => Ok (set_c s (contracts s) ce)       (* "skipping rescan state transition" *)
          end
      end
  | ERevised c _ new =>
      if known s c then Ok (set_c s (contracts s) (crev c new (celems s))) else Ok s
  | EResolved c k =>
      match alookup c (contracts s) with
      | None => Ok s
      | Some st =>
          if cstatus_eqb st (kstatus k) then Ok s                 (* rescan *)
          else match st with
               | SActive => Ok (set_c s (aset c (kstatus k) (contracts s)) (celems s))
               | _ => Panic                                        (* "unexpected contract state transition" *)
               end
      end
  end.

(* RevertContracts for one diff of the reverted block *)
Definition revert_event (s : state) (e : event) : res state :=
  match e with
  | EFormed c _ =>
      match alookup c (contracts s) with
      | None => Ok s
      | Some st =>
          (* revertV2ContractFormation: delete the element, then check the status *)
          match st with
          | SActive => Ok (set_c s (aset c SUnconfirmed (contracts s)) (cdel c (celems s)))
          | _ => Panic
          end
      end
  | ERevised c old _ =>
      if known s c then Ok (set_c s (contracts s) (crev c old (celems s))) else Ok s
  | EResolved c k =>
      match alookup c (contracts s) with
      | None => Ok s
      | Some st =>
          (* revertSuccessfulV2Contracts / revertFailedV2Contracts: the status must be the one
             being reverted; the contract becomes active again *)
          if cstatus_eqb st (kstatus k)
          then Ok (set_c s (aset c SActive (contracts s)) (celems s))
          else Panic
      end
  end.

(* buildContractState groups the diffs: formations, revisions, successful, renewed, failed — and
   Apply/RevertContracts process the groups in that order *)
Definition grp (e : event) : N :=
  match e with
  | EFormed _ _ => 0 | ERevised _ _ _ => 1
  | EResolved _ KSuccessful => 2 | EResolved _ KRenewed => 3 | EResolved _ KFailed => 4
  end%N.
Definition grouped (l : list event) : list event :=
  filter (fun e => grp e =? 0)%N l ++ filter (fun e => grp e =? 1)%N l ++ filter (fun e => grp e =? 2)%N l
  ++ filter (fun e => grp e =? 3)%N l ++ filter (fun e => grp e =? 4)%N l.

Fixpoint fold_res (A B : Type) (f : A -> B -> res A) (l : list B) (a : A) : res A :=
  match l with [] => Ok a | x :: t => do a' <- f a x; fold_res f t a' end.

(** * host/contracts/update.go UpdateChainState *)
Definition chainIndexBuffer : N := 144.

Definition revert_block_g (sel : selection) (s : state) (b : block) : res state :=
  do s1 <- fold_res revert_event (grouped (b_events b)) s;                      (* RevertContracts *)
  let ie := filter (fun e => negb (idx_eqb (ie_idx e) (b_idx b))) (ielems s1) in (* RevertContractChainIndexElement *)
  do ie' <- iupd_revert b ie;                                                    (* UpdateChainIndexElementProofs(cru) *)
  do ce' <- crefresh_revert sel (contracts s1) (renewed s1) b (celems s1);       (* UpdateContractElementProofs(cru) *)
  Ok {| contracts := contracts s1; renewed := renewed s1; negs := negs s1; rbuf := rbuf s1; celems := ce'; ielems := ie'; tip := tip s1 |}.

Definition iset (e : ielem) (l : list ielem) : list ielem :=     (* INSERT .. ON CONFLICT (id) DO UPDATE *)
  e :: filter (fun x => negb (ib (ie_idx x) =? ib (ie_idx e))%N) l.

(* RejectContracts(index.Height - rejectBuffer), run when index.Height >= rejectBuffer: every pending
   row negotiated before that height becomes rejected (see the header for confirmation_index) *)
Definition rej1 (rb h : N) (ng : list (N * N)) (p : N * cstatus) : N * cstatus :=
  match snd p, alookup (fst p) ng with
  | SUnconfirmed, Some g => if (g <? h - rb)%N then (fst p, SRejected) else p
  | _, _ => p
  end.
Definition reject_rows (rb h : N) (ng : list (N * N)) (cs : list (N * cstatus)) : list (N * cstatus) :=
  if (rb <=? h)%N then map (rej1 rb h ng) cs else cs.

Definition apply_block_g (sel : selection) (s : state) (b : block) : res state :=
  do s1 <- fold_res (apply_event b) (grouped (b_events b)) s;                   (* ApplyContracts *)
  let ie := iupd_apply b (ielems s1) in                                          (* UpdateChainIndexElementProofs(cau) *)
  let ce := crefresh_apply sel (contracts s1) (renewed s1) b (celems s1) in      (* UpdateContractElementProofs(cau) *)
  let ie := iset {| ie_idx := b_idx b; ie_basis := Some (b_idx b) |} ie in       (* AddContractChainIndexElement *)
  let h := ih (b_idx b) in
  let cs := reject_rows (rbuf s1) h (negs s1) (contracts s1) in                  (* RejectContracts *)
  let ie := if (chainIndexBuffer <? h)%N                                         (* DeleteExpiredChainIndexElements *)
            then filter (fun e => negb (ih (ie_idx e) <=? h - chainIndexBuffer)%N) ie else ie in
  Ok {| contracts := cs; renewed := renewed s1; negs := negs s1; rbuf := rbuf s1; celems := ce; ielems := ie; tip := tip s1 |}.

Definition last_idx (rs bs : list block) (d : option idx) : option idx :=
  match rev bs with
  | b :: _ => Some (b_idx b)
  | [] => match rev rs with r :: _ => Some (b_parent r) | [] => d end
  end.

(* one batch = one transaction (index/update.go): contract updates, then SetLastIndex *)
Definition batch_g (sel : selection) (s : state) (rs bs : list block) : res state :=
  match rs, bs with
  | [], [] => Ok s
  | _, _ =>
      do s1 <- fold_res (revert_block_g sel) rs s;
      do s2 <- fold_res (apply_block_g sel) bs s1;
      Ok {| contracts := contracts s2; renewed := renewed s2; negs := negs s2; rbuf := rbuf s2;
            celems := celems s2; ielems := ielems s2; tip := last_idx rs bs (tip s2) |}
  end.

(* the code: every row is refreshed *)
Definition revert_block : state -> block -> res state := revert_block_g sel_all.
Definition apply_block : state -> block -> res state := apply_block_g sel_all.
Definition batch : state -> list block -> list block -> res state := batch_g sel_all.

(* ResetChainState: both element tables are emptied, the contracts keep their status, renewed_to and
   negotiation height *)
Definition reset (s : state) : state :=
  {| contracts := contracts s; renewed := renewed s; negs := negs s; rbuf := rbuf s; celems := []; ielems := []; tip := None |}.

(** * Operations and observations *)
Inductive op :=
| Configure (rb : N)                  (* contracts.NewManager(.., contracts.WithRejectAfter(rb)) *)
| AddContract (c ng : N)              (* contracts.Manager.AddV2Contract: a pending contract row negotiated at height ng *)
| Renew (c r ng : N)                  (* contracts.Manager.RenewV2Contract at RPC time: pending row r, renewed_to of c := r *)
| Batch (rs bs : list block)
| Reset
| Observe.

Inductive cls := COk | CErr | CPanic.
Definition cls_eqb (a b : cls) : bool :=
  match a, b with COk, COk | CErr, CErr | CPanic, CPanic => true | _, _ => false end.

Inductive obs :=
| ODone (c : cls)
| OSkip
  (* contract elements (contract, proof valid at the processed tip, confirmed revision) sorted by contract;
     chain index elements (index, proof valid at the processed tip) sorted by height; processed tip;
     renewed_to column (contract, renewal) sorted by contract; contract_status column sorted by contract *)
| OState (ce : list (N * bool * N)) (ie : list (idx * bool)) (t : option idx) (rn : list (N * N))
         (st : list (N * cstatus)).

Definition valid_at (t : option idx) (basis : option idx) : bool :=
  match t, basis with Some a, Some b => idx_eqb a b | _, _ => false end.

(* insertion sort on a numeric key *)
Fixpoint insk (A : Type) (key : A -> N) (x : A) (l : list A) : list A :=
  match l with [] => [x] | y :: t => if (key x <=? key y)%N then x :: l else y :: insk key x t end.
Definition sortk (A : Type) (key : A -> N) (l : list A) : list A := fold_right (insk key) [] l.

Definition observe (s : state) : obs :=
  OState (map (fun e => (ce_cid e, valid_at (tip s) (ce_basis e), ce_rev e)) (sortk ce_cid (celems s)))
         (map (fun e => (ie_idx e, valid_at (tip s) (ie_basis e))) (sortk (fun e => ih (ie_idx e)) (ielems s)))
         (tip s)
         (sortk fst (renewed s))
         (sortk fst (contracts s)).

(* RenewV2Contract: Store.V2Contract(existing) must find the row; insertV2Contract fails on a known
   contract id (UNIQUE); then UPDATE contracts_v2 SET renewed_to — whatever the status of the
   existing contract, and with no effect on the element tables or the tip.  The manager's content
   checks (file size, capacity and Merkle root of the new contract equal the existing one's) are not
   modelled: the op carries ids only, the harness negotiates well-formed renewals. *)
Definition renew (s : state) (c r ng : N) : option state :=
  if known s c && negb (known s r)
  then Some {| contracts := aset r SUnconfirmed (contracts s); renewed := aset c r (renewed s);
               negs := aset r ng (negs s); rbuf := rbuf s;
               celems := celems s; ielems := ielems s; tip := tip s |}
  else None.

Definition step_g (sel : selection) (s : state) (o : op) : state * obs :=
  match o with
  | Configure rb =>
      ({| contracts := contracts s; renewed := renewed s; negs := negs s; rbuf := rb; celems := celems s;
          ielems := ielems s; tip := tip s |}, ODone COk)
  | AddContract c ng =>
      if known s c then (s, ODone CErr)
      else ({| contracts := aset c SUnconfirmed (contracts s); renewed := renewed s;
               negs := aset c ng (negs s); rbuf := rbuf s; celems := celems s;
               ielems := ielems s; tip := tip s |}, ODone COk)
  | Renew c r ng =>
      match renew s c r ng with Some s' => (s', ODone COk) | None => (s, ODone CErr) end
  | Batch rs bs =>
      match batch_g sel s rs bs with
      | Ok s' => (s', ODone COk)
      | Err _ => (s, ODone CErr)
      | Panic => (s, ODone CPanic)
      end
  | Reset => (reset s, ODone COk)
  | Observe => (s, observe s)
  end.
Definition step : state -> op -> state * obs := step_g sel_all.

Definition ce_eqb (a b : N * bool * N) : bool :=
  let '(c, v, r) := a in let '(c', v', r') := b in ((c =? c') && Bool.eqb v v' && (r =? r'))%N.
Definition ie_eqb (a b : idx * bool) : bool := idx_eqb (fst a) (fst b) && Bool.eqb (snd a) (snd b).
Definition rn_eqb (a b : N * N) : bool := ((fst a =? fst b) && (snd a =? snd b))%N.
Definition st_eqb (a b : N * cstatus) : bool := (fst a =? fst b)%N && cstatus_eqb (snd a) (snd b).

Definition obs_eqb (model seen : obs) : bool :=
  match model, seen with
  | _, OSkip => true
  | ODone a, ODone b => cls_eqb a b
  | OState ce ie t rn st, OState ce' ie' t' rn' st' =>
      list_eqb ce_eqb ce ce' && list_eqb ie_eqb ie ie' && oidx_eqb t t' && list_eqb rn_eqb rn rn' &&
      list_eqb st_eqb st st'
  | _, _ => false
  end.

Definition case := (N * list (op * obs))%type.
Definition check (cs : list case) := mismatches init step obs_eqb cs.
