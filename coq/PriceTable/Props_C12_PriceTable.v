(* C12 (WP-P) — the price table an RHP3 RPC is validated against is one the host registered and
   that is still in force.  Statements only; every proof is [exact lemma].
   The model corresponds to rhp/v3/pricetable.go WITH fixes/C12-pricetable-get-checks-expiry.patch
   (Get compares the table's own expiry); the code before the fix is Model.Legacy.

   Link to coq/Formation: every RHP3 handler that validates against a price table obtains it from
   readPriceTable = priceTableManager.Get (rhp/v3/pricetable.go, readPriceTable; rpc.go:127,171,240,280,482);
   the [ptable] handed to [validate_renewal3]/[renew3] (HRenew3) is the table [t] of [Get uid now = OGet (Some t)]
   (handleRPCRenew falls back to a fresh table from the current settings when Get fails).
   A table is registered (Register) only by handleRPCPriceTable after it has been paid for, with the
   settings and block height of that instant (rpc.go:77-123).

   Vocabulary (Proofs.v): a history is a list of [Register uid tid now validity], [Tick now] (the
   expiry timer's function pruneExpired runs), [Get uid now].
   [sched step d 0 init l]: instants never decrease; the timer function runs only when the timer is
   armed for an instant a <= now; while the timer is armed for [a] no Register/Get executes at an
   instant >= a + d (d = lateness of the Go runtime in running the timer function).  [uniq l]: the
   registered UIDs are distinct (frand.Entropy128).  With the fix neither is a hypothesis of the
   safety statement; the timer and the list only bound the memory the manager holds. *)
From HostdBase Require Import Base.
From HostdPriceTable Require Import Model Proofs.

(* Get returns only a table that was registered under that UID, strictly before its own expiry -
   for EVERY history: any instants, any validities, any behaviour of the timer (no [sched]), repeated
   UIDs included (no [uniq]). *)
Theorem c12_pt_get_only_unexpired : forall l uid now t,
  snd (step (run l) (Get uid now)) = OGet (Some t) ->
  exists n v, In (Register uid t n v) l /\ (now < n + v)%N.
Proof. exact get_only_unexpired. Qed.
Print Assumptions c12_pt_get_only_unexpired.

(* Before the fix (Model.Legacy: Get does not look at the expiry) the timer alone bounded the use of
   a table: served less than V + d after its registration, V bounding the validities of the history
   and d the timer's lateness ... *)
Theorem c12_pt_legacy_get_only_unexpired_partial : forall d V l uid now t,
  uniq l -> sched Legacy.step d 0 init (l ++ [Get uid now]) -> validity_le V l ->
  snd (Legacy.step (lrun l) (Get uid now)) = OGet (Some t) ->
  exists n v, In (Register uid t n v) l /\ (n <= now)%N /\ (now < n + V + d)%N.
Proof. exact legacy_get_only_unexpired. Qed.
Print Assumptions c12_pt_legacy_get_only_unexpired_partial.

(* ... and the statement `now < n + v + d` was FALSE of it: after the validity was lowered (30 -> 5)
   the table registered with the short validity sat behind one with the long validity in
   expirationList and was served, under the ideal timer, until the older one expired (at 29 >= 0 + 5;
   the bound above is attained).  The last conjunct: the repaired code refuses that Get.
   (Fixed in /repo by fixes/C12-pricetable-get-checks-expiry.patch.) *)
Theorem c12_pt_legacy_get_within_own_validity_refuted : exists l uid t n v now,
  uniq l /\ sched Legacy.step 0 0 init (l ++ [Get uid now]) /\ In (Register uid t n v) l /\
  snd (Legacy.step (lrun l) (Get uid now)) = OGet (Some t) /\ (n + v <= now)%N /\
  validity_le 30 l /\ (now = n + 30 + 0 - 1)%N /\
  snd (step (run l) (Get uid now)) = OGet None.
Proof. exact legacy_get_past_own_validity. Qed.
Print Assumptions c12_pt_legacy_get_within_own_validity_refuted.

(* Conversely a registered table is served until its own expiry (nothing removes it early). *)
Theorem c12_pt_get_serves_until_expiry : forall d l uid t n v now,
  uniq l -> sched step d 0 init (l ++ [Get uid now]) ->
  In (Register uid t n v) l -> (now < n + v)%N ->
  snd (step (run l) (Get uid now)) = OGet (Some t).
Proof. exact get_serves_unexpired. Qed.
Print Assumptions c12_pt_get_serves_until_expiry.

(* Invariant: whenever the list is non-empty the timer is armed for the first entry's expiry, and
   it is not armed when the list is empty — for every history with distinct UIDs, whatever the
   instants. *)
Theorem c12_pt_timer_armed_for_earliest : forall l, uniq l ->
  match elist (run l) with
  | [] => forall a, tmr (run l) <> TArmed a
  | e :: _ => tmr (run l) = TArmed (eexp e)
  end.
Proof. exact timer_armed_for_first. Qed.
Print Assumptions c12_pt_timer_armed_for_earliest.

(* ... and the first entry's expiry is the earliest one when the validity is constant. *)
Theorem c12_pt_first_entry_is_earliest : forall d V l h t e,
  uniq l -> sched step d 0 init l -> validity_const V l ->
  elist (run l) = h :: t -> In e t -> (eexp h <= eexp e)%N.
Proof. exact first_is_earliest. Qed.
Print Assumptions c12_pt_first_entry_is_earliest.

(* Memory (liveness in the model): the timer function, whenever it runs, removes (from the map and from the
   list) every table registered at least V before; with constant validity: every table whose expiry
   has passed.  By c12_pt_timer_armed_for_earliest the timer is running for as long as a table is
   held, c12_pt_tick_enabled_and_removes: its function is enabled from the first entry's expiry on
   and removes at least that entry, however many registrations arrive in between. *)
Theorem c12_pt_every_table_expires : forall d V l now uid t n v,
  uniq l -> sched step d 0 init (l ++ [Tick now]) -> validity_le V l ->
  In (Register uid t n v) l -> (n + V <= now)%N ->
  alookup uid (tables (run (l ++ [Tick now]))) = None /\
  ~ In uid (map euid (elist (run (l ++ [Tick now])))).
Proof. exact every_table_expires. Qed.
Print Assumptions c12_pt_every_table_expires.

Theorem c12_pt_tick_enabled_and_removes : forall l now e rest,
  uniq l -> elist (run l) = e :: rest -> (eexp e <= now)%N ->
  due 0 (run l) (Tick now) /\
  (length (elist (run (l ++ [Tick now]))) <= length rest)%nat.
Proof. exact tick_removes_first. Qed.
Print Assumptions c12_pt_tick_enabled_and_removes.

(* The seeded change C12-mut7 (Model.Mut7: Register resets the timer on every registration).
   c12_pt_every_table_expires is FALSE of it, for every K: with constant validity, distinct UIDs and
   the ideal timer a table is still held by the manager K after its expiry (a registration per
   instant keeps pushing the timer).  Written against the code before the fix it was also SERVED then
   (the C12 violation the change was seeded for); on the repaired code the Get is refused ... *)
Theorem c12_pt_mut7_reset_on_every_registration_refuted : forall K : N, exists l uid t n v now,
  uniq l /\ validity_const v l /\ sched Mut7.step 0 0 init (l ++ [Get uid now]) /\
  In (Register uid t n v) l /\ (n + v + K <= now)%N /\
  alookup uid (tables (mrun l)) = Some (t, (n + v)%N) /\
  snd (Mut7.legacy_step (mlrun l) (Get uid now)) = OGet (Some t) /\
  snd (Mut7.step (mrun l) (Get uid now)) = OGet None.
Proof. exact mut7_never_expires. Qed.
Print Assumptions c12_pt_mut7_reset_on_every_registration_refuted.

(* ... for c12_pt_get_only_unexpired does not depend on the timer: it holds of the variant too. *)
Theorem c12_pt_get_only_unexpired_whatever_the_timer : forall l uid now t,
  snd (Mut7.step (mrun l) (Get uid now)) = OGet (Some t) ->
  exists n v, In (Register uid t n v) l /\ (now < n + v)%N.
Proof. exact get_only_unexpired_mut7. Qed.
Print Assumptions c12_pt_get_only_unexpired_whatever_the_timer.

(* Why [uniq] is a hypothesis of c12_pt_get_serves_until_expiry and of the timer/list theorems: with a
   repeated UID the expiry of the first registration deletes the second registration's table while
   it is still in force - it is then refused (not reachable through the RPC: UIDs are 128 random bits). *)
Theorem c12_pt_repeated_uid_refuted :
  sched step 0 0 init (repeated_uid ++ [Get 1 10]) /\
  snd (step (run repeated_uid) (Get 1 10)) = OGet None /\ (10 < 5 + 10)%N.
Proof. exact repeated_uid_drops_live_table. Qed.
Print Assumptions c12_pt_repeated_uid_refuted.

(* non-vacuity: a schedule with lateness 3 in which a table is asked for before and after its expiry
   while the timer function has not run yet (served / refused; served before the fix), the timer
   function then removes two tables at once and re-arms for the third; and the busy history on which
   the code and the C12-mut7 variant differ (what the manager still holds) *)
Example c12_pt_nonvacuous :
  let l := [Register 1 1 0 10; Register 2 2 4 10; Get 1 9; Get 1 12; Register 3 3 12 10; Tick 14] in
  uniq l /\ validity_const 10 l /\ sched step 3 0 init (l ++ [Get 3 20]) /\
  snd (step (run [Register 1 1 0 10; Register 2 2 4 10]) (Get 1 9)) = OGet (Some 1%N) /\
  snd (step (run [Register 1 1 0 10; Register 2 2 4 10]) (Get 1 12)) = OGet None /\
  snd (Legacy.step (lrun [Register 1 1 0 10; Register 2 2 4 10]) (Get 1 12)) = OGet (Some 1%N) /\
  snd (step (run l) (Get 3 20)) = OGet (Some 3%N) /\
  snd (step (run l) (Get 2 20)) = OGet None /\
  tmr (run l) = TArmed 22 /\
  tables (run (busy 4 ++ [Tick 3])) = [(3, (3, 4)); (4, (4, 5))]%N /\
  length (tables (mrun (busy 4))) = 4%nat.
Proof. exact nonvacuous_example. Qed.
