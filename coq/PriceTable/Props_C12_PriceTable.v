(* C12 (WP-P) — the price table an RHP3 RPC is validated against is one the host registered and
   that is still in force.  Statements only; every proof is [exact lemma].

   Link to coq/Formation: every RHP3 handler that validates against a price table obtains it from
   readPriceTable = priceTableManager.Get (rhp/v3/pricetable.go:107-114; rpc.go:127,171,240,280,482);
   the [ptable] handed to [validate_renewal3]/[renew3] (HRenew3) is the table [t] of [Get uid now = OGet (Some t)].
   A table is registered (Register) only by handleRPCPriceTable after it has been paid for, with the
   settings and block height of that instant (rpc.go:77-123).

   Vocabulary (Proofs.v): a history is a list of [Register uid tid now validity], [Tick now] (the
   expiry timer's function pruneExpired runs), [Get uid now].
   [sched step d 0 init l]: instants never decrease; the timer function runs only when the timer is
   armed for an instant a <= now; while the timer is armed for [a] no Register/Get executes at an
   instant >= a + d (d = lateness of the Go runtime in running the timer function; d = 0 is the ideal
   timer).  [uniq l]: the registered UIDs are distinct (frand.Entropy128).  The code never compares
   an expiry in Get: what bounds the use of a table is the timer alone, so its lateness d is an
   explicit term of the bound. *)
From HostdBase Require Import Base.
From HostdPriceTable Require Import Model Proofs.

(* Get returns only a table that was registered, and less than V + d after its registration, V
   bounding the validities of the history.  This is exact (c12_pt_get_within_own_validity_refuted
   attains now = n + V + d - 1). *)
Theorem c12_pt_get_only_unexpired : forall d V l uid now t,
  uniq l -> sched step d 0 init (l ++ [Get uid now]) -> validity_le V l ->
  snd (step (run l) (Get uid now)) = OGet (Some t) ->
  exists n v, In (Register uid t n v) l /\ (n <= now)%N /\ (now < n + V + d)%N.
Proof. exact get_only_unexpired. Qed.
Print Assumptions c12_pt_get_only_unexpired.

(* With the validity the same for all registrations (what pricetable.go:24-26 assumes; true as long
   as the operator does not change PriceTableValidity): the table is served strictly before its own
   expiry n + V plus the timer's lateness; with the ideal timer (d = 0) strictly before its expiry. *)
Theorem c12_pt_get_only_unexpired_constant_validity : forall d V l uid now t,
  uniq l -> sched step d 0 init (l ++ [Get uid now]) -> validity_const V l ->
  snd (step (run l) (Get uid now)) = OGet (Some t) ->
  exists n, In (Register uid t n V) l /\ (n <= now)%N /\ (now < (n + V) + d)%N.
Proof. exact get_only_unexpired_const. Qed.
Print Assumptions c12_pt_get_only_unexpired_constant_validity.

(* Full statement without the constant-validity hypothesis:
     Get uid now = OGet (Some t) -> exists n v, In (Register uid t n v) l /\ now < n + v + d.
   FALSE of the faithful model: after the validity was lowered (30 -> 5) a table registered with
   the short validity sits behind one with the long validity in expirationList and is served, under
   the ideal timer, until the older one expires (here at 29 >= 0 + 5). *)
Theorem c12_pt_get_within_own_validity_refuted : exists l uid t n v now,
  uniq l /\ sched step 0 0 init (l ++ [Get uid now]) /\ In (Register uid t n v) l /\
  snd (step (run l) (Get uid now)) = OGet (Some t) /\ (n + v <= now)%N /\
  validity_le 30 l /\ (now = n + 30 + 0 - 1)%N.
Proof. exact get_past_own_validity. Qed.
Print Assumptions c12_pt_get_within_own_validity_refuted.

(* Conversely a registered table is served until its own expiry (nothing removes it early). *)
Theorem c12_pt_get_serves_until_expiry : forall d l uid t n v now,
  uniq l -> sched step d 0 init (l ++ [Get uid now]) ->
  In (Register uid t n v) l -> (now < n + v)%N ->
  snd (step (run l) (Get uid now)) = OGet (Some t).
Proof. exact get_serves_unexpired. Qed.
Print Assumptions c12_pt_get_serves_until_expiry.

(* Invariant: whenever the list is non-empty the timer is armed for the first entry's expiry, and
   it is not armed when the list is empty — for every history with distinct UIDs, whatever the
   instants. *)
Theorem c12_pt_timer_armed_for_earliest : forall l, uniq l ->
  match elist (run l) with
  | [] => forall a, tmr (run l) <> TArmed a
  | e :: _ => tmr (run l) = TArmed (eexp e)
  end.
Proof. exact timer_armed_for_first. Qed.
Print Assumptions c12_pt_timer_armed_for_earliest.

(* ... and the first entry's expiry is the earliest one when the validity is constant. *)
Theorem c12_pt_first_entry_is_earliest : forall d V l h t e,
  uniq l -> sched step d 0 init l -> validity_const V l ->
  elist (run l) = h :: t -> In e t -> (eexp h <= eexp e)%N.
Proof. exact first_is_earliest. Qed.
Print Assumptions c12_pt_first_entry_is_earliest.

(* Liveness in the model: the timer function, whenever it runs, removes (from the map and from the
   list) every table registered at least V before; with constant validity: every table whose expiry
   has passed.  By c12_pt_timer_armed_for_earliest the timer is running for as long as a table is
   held, c12_pt_tick_enabled_and_removes: its function is enabled from the first entry's expiry on
   and removes at least that entry, however many registrations arrive in between. *)
Theorem c12_pt_every_table_expires : forall d V l now uid t n v,
  uniq l -> sched step d 0 init (l ++ [Tick now]) -> validity_le V l ->
  In (Register uid t n v) l -> (n + V <= now)%N ->
  alookup uid (tables (run (l ++ [Tick now]))) = None /\
  ~ In uid (map euid (elist (run (l ++ [Tick now])))).
Proof. exact every_table_expires. Qed.
Print Assumptions c12_pt_every_table_expires.

Theorem c12_pt_tick_enabled_and_removes : forall l now e rest,
  uniq l -> elist (run l) = e :: rest -> (eexp e <= now)%N ->
  due 0 (run l) (Tick now) /\
  (length (elist (run (l ++ [Tick now]))) <= length rest)%nat.
Proof. exact tick_removes_first. Qed.
Print Assumptions c12_pt_tick_enabled_and_removes.

(* The seeded change C12-mut7 (Model.Legacy: Register resets the timer on every registration).
   Statement c12_pt_get_only_unexpired_constant_validity is FALSE of it, for every K: with constant
   validity, distinct UIDs and the ideal timer, a table is served K after its expiry (a registration
   per instant keeps pushing the timer). *)
Theorem c12_pt_legacy_reset_on_every_registration_refuted : forall K : N, exists l uid t n v now,
  uniq l /\ validity_const v l /\ sched Legacy.step 0 0 init (l ++ [Get uid now]) /\
  In (Register uid t n v) l /\
  snd (Legacy.step (lrun l) (Get uid now)) = OGet (Some t) /\ (n + v + K <= now)%N.
Proof. exact legacy_never_expires. Qed.
Print Assumptions c12_pt_legacy_reset_on_every_registration_refuted.

(* Why [uniq] is a hypothesis: with a repeated UID the expiry of the first registration deletes the
   second registration's table while it is still in force (not reachable through the RPC: UIDs are
   128 random bits). *)
Theorem c12_pt_repeated_uid_refuted :
  sched step 0 0 init (repeated_uid ++ [Get 1 10]) /\
  snd (step (run repeated_uid) (Get 1 10)) = OGet None /\ (10 < 5 + 10)%N.
Proof. exact repeated_uid_drops_live_table. Qed.
Print Assumptions c12_pt_repeated_uid_refuted.

(* non-vacuity: a schedule with lateness 3 in which a table is served after its expiry within the
   lateness, the timer function then removes two tables at once and re-arms for the third; and the
   busy history on which the code as it is and the reset-on-every-registration variant differ *)
Example c12_pt_nonvacuous :
  let l := [Register 1 1 0 10; Register 2 2 4 10; Get 1 12; Register 3 3 12 10; Tick 14] in
  uniq l /\ validity_const 10 l /\ sched step 3 0 init (l ++ [Get 3 20]) /\
  snd (step (run [Register 1 1 0 10; Register 2 2 4 10]) (Get 1 12)) = OGet (Some 1%N) /\
  snd (step (run l) (Get 3 20)) = OGet (Some 3%N) /\
  snd (step (run l) (Get 2 20)) = OGet None /\
  tmr (run l) = TArmed 22 /\
  snd (step (run (busy 4 ++ [Tick 2])) (Get 1 3)) = OGet None /\
  snd (Legacy.step (lrun (busy 4)) (Get 1 3)) = OGet (Some 1%N).
Proof. exact nonvacuous_example. Qed.
