(* PriceTable/Proofs.v — lemmas about Model.v (rhp/v3/pricetable.go). *)
From Coq Require Import Lia ZifyBool ZifyN ZifyNat.
From Coq Require FinFun.
From HostdBase Require Import Base.
From HostdPriceTable Require Import Model.
Set Implicit Arguments.

(* ------------------------------------------------------------------ histories *)

Section Runs.
  Variable stepf : state -> op -> state * obs.

  Fixpoint runs (s : state) (l : list op) : state :=
    match l with
    | [] => s
    | o :: r => runs (fst (stepf s o)) r
    end.

  Lemma runs_app : forall l1 l2 s, runs s (l1 ++ l2) = runs (runs s l1) l2.
  Proof. induction l1 as [|o l1 IH]; intros; cbn; [reflexivity | apply IH]. Qed.
End Runs.

Definition run (l : list op) : state := runs step init l.
Definition lrun (l : list op) : state := runs Legacy.step init l.        (* before the fix *)
Definition mrun (l : list op) : state := runs Mut7.step init l.          (* C12-mut7 on the repaired code *)
Definition mlrun (l : list op) : state := runs Mut7.legacy_step init l.  (* C12-mut7 before the fix *)

Definition op_time (o : op) : N :=
  match o with Register _ _ n _ => n | Tick n => n | Get _ n => n end.

(* What a schedule of the environment has to respect at one operation, in state [s]:
   - the timer function runs only when the timer is due (armed for a <= now);
   - lateness d of the runtime: while the timer is armed for [a], no Register/Get executes at an
     instant >= a + d (pruneExpired has taken the mutex by then).  d = 0 is the ideal timer:
     at its instant the timer function runs before any other operation. *)
Definition due (d : N) (s : state) (o : op) : Prop :=
  match o, tmr s with
  | Tick now, TArmed a => (a <= now)%N
  | Tick _, _ => False
  | _, TArmed a => (op_time o < a + d)%N
  | _, _ => True
  end.

Section Sched.
  Variable stepf : state -> op -> state * obs.

  (* instants never decrease (starting from [last]) and every operation respects [due] *)
  Fixpoint sched (d last : N) (s : state) (l : list op) : Prop :=
    match l with
    | [] => True
    | o :: r => (last <= op_time o)%N /\ due d s o /\ sched d (op_time o) (fst (stepf s o)) r
    end.

  Fixpoint last_time (last : N) (l : list op) : N :=
    match l with [] => last | o :: r => last_time (op_time o) r end.

  Lemma sched_app : forall d l1 l2 last s,
    sched d last s (l1 ++ l2) <->
    sched d last s l1 /\ sched d (last_time last l1) (runs stepf s l1) l2.
  Proof.
    induction l1 as [|o l1 IH]; intros; cbn.
    - tauto.
    - rewrite IH. tauto.
  Qed.

  Lemma last_time_ge : forall d l last s, sched d last s l -> (last <= last_time last l)%N.
  Proof.
    induction l as [|o l IH]; intros last s H; cbn in *; [lia|].
    destruct H as (H1 & _ & H3). apply IH in H3. lia.
  Qed.
End Sched.

(* ------------------------------------------------------------------ registrations of a history *)

Record reg := { ruid : N; rtid : N; rnow : N; rval : N }.
Definition rexp (r : reg) : N := (rnow r + rval r)%N.
Definition to_entry (r : reg) : entry := {| euid := ruid r; eexp := rexp r |}.
Definition to_kv (r : reg) : N * (N * N) := (ruid r, (rtid r, rexp r)).

Fixpoint regs (l : list op) : list reg :=
  match l with
  | [] => []
  | Register u t n v :: r => {| ruid := u; rtid := t; rnow := n; rval := v |} :: regs r
  | _ :: r => regs r
  end.

(* price table UIDs are 128 bits of frand.Entropy128 (host/settings/settings.go:353): distinct *)
Definition uniq (l : list op) : Prop := NoDup (map ruid (regs l)).

Definition validity_le (V : N) (l : list op) : Prop :=
  forall u t n v, In (Register u t n v) l -> (v <= V)%N.
Definition validity_const (V : N) (l : list op) : Prop :=
  forall u t n v, In (Register u t n v) l -> v = V.

Lemma regs_app : forall l1 l2, regs (l1 ++ l2) = regs l1 ++ regs l2.
Proof.
  induction l1 as [|o l1 IH]; intros; cbn; [reflexivity|].
  destruct o; cbn; rewrite IH; reflexivity.
Qed.

Lemma regs_cons : forall o l, regs (o :: l) = regs [o] ++ regs l.
Proof. intros. change (o :: l) with ([o] ++ l). apply regs_app. Qed.

Lemma in_regs : forall l r, In r (regs l) -> In (Register (ruid r) (rtid r) (rnow r) (rval r)) l.
Proof.
  induction l as [|o l IH]; intros r H; cbn in *; [contradiction|].
  destruct o; cbn in H; try (right; apply IH; exact H).
  destruct H as [<- | H]; [left; reflexivity | right; apply IH; exact H].
Qed.

Lemma regs_in : forall l u t n v, In (Register u t n v) l ->
  In {| ruid := u; rtid := t; rnow := n; rval := v |} (regs l).
Proof.
  induction l as [|o l IH]; intros u t n v H; cbn in *; [contradiction|].
  destruct H as [-> | H]; [left; reflexivity|].
  destruct o; cbn; try right; apply IH; exact H.
Qed.

(* ------------------------------------------------------------------ association lists *)

Lemma aset_fresh : forall (V : Type) (k : N) (v : V) (m : list (N * V)),
  ~ In k (map fst m) -> aset k v m = m ++ [(k, v)].
Proof.
  intros V k v. induction m as [|[k' v'] m IH]; intros H; cbn in *; [reflexivity|].
  destruct (N.eqb_spec k k') as [->|Hne]; [exfalso; apply H; left; reflexivity|].
  rewrite IH; [reflexivity | intro; apply H; right; assumption].
Qed.

Lemma alookup_aset_other : forall (V : Type) (k k' : N) (v : V) (m : list (N * V)),
  k <> k' -> alookup k (aset k' v m) = alookup k m.
Proof.
  intros V k k' v. induction m as [|[k2 v2] m IH]; intros H; cbn.
  - destruct (N.eqb_spec k k'); [contradiction | reflexivity].
  - destruct (N.eqb_spec k' k2) as [->|Hne]; cbn.
    + destruct (N.eqb_spec k k2); [contradiction | reflexivity].
    + destruct (N.eqb_spec k k2); [reflexivity | apply IH; assumption].
Qed.

Lemma map_fst_kv : forall suf, map fst (map to_kv suf) = map ruid suf.
Proof. intros. rewrite map_map. reflexivity. Qed.

Lemma alookup_kv_some : forall suf u t e, alookup u (map to_kv suf) = Some (t, e) ->
  exists r, In r suf /\ ruid r = u /\ rtid r = t /\ rexp r = e.
Proof.
  induction suf as [|a suf IH]; intros u t e H; cbn in *; [discriminate|].
  destruct (N.eqb_spec u (ruid a)) as [->|Hne].
  - inversion H; subst. exists a. auto.
  - destruct (IH _ _ _ H) as (r & Hin & Hu & Ht & He). exists r. auto.
Qed.

Lemma alookup_kv_in : forall suf r, NoDup (map ruid suf) -> In r suf ->
  alookup (ruid r) (map to_kv suf) = Some (rtid r, rexp r).
Proof.
  induction suf as [|a suf IH]; intros r Hnd Hin; cbn in *; [contradiction|].
  inversion Hnd as [|x xs Hnotin Hnd']; subst.
  destruct Hin as [<- | Hin].
  - rewrite N.eqb_refl. reflexivity.
  - destruct (N.eqb_spec (ruid r) (ruid a)) as [Heq|Hne].
    + exfalso. apply Hnotin. rewrite <- Heq. apply in_map. exact Hin.
    + apply IH; assumption.
Qed.

Lemma alookup_kv_none : forall suf u, ~ In u (map ruid suf) -> alookup u (map to_kv suf) = None.
Proof.
  induction suf as [|a suf IH]; intros u H; cbn in *; [reflexivity|].
  destruct (N.eqb_spec u (ruid a)) as [->|Hne]; [exfalso; apply H; left; reflexivity|].
  apply IH. intro; apply H; right; assumption.
Qed.

(* ------------------------------------------------------------------ one step, structurally *)

Definition timer_ok (suf : list reg) (t : timer) : Prop :=
  match suf with
  | [] => t = TNil \/ t = TIdle
  | h :: _ => t = TArmed (rexp h)
  end.

(* the manager holds exactly the registrations [suf], in registration order *)
Definition st_ok (suf : list reg) (s : state) : Prop :=
  elist s = map to_entry suf /\ tables s = map to_kv suf /\ timer_ok suf (tmr s).

Definition head_timer (keep : list reg) : timer :=
  match keep with [] => TIdle | h :: _ => TArmed (rexp h) end.

Lemma prune_spec : forall now suf,
  exists dr keep, suf = dr ++ keep /\
    prune now (map to_entry suf) (map to_kv suf) = (map to_entry keep, map to_kv keep, head_timer keep) /\
    Forall (fun r => (rexp r <= now)%N) dr /\
    match keep with [] => True | h :: _ => (now < rexp h)%N end.
Proof.
  induction suf as [|a suf IH].
  - exists [], []. cbn. auto.
  - cbn [map prune]. cbn [to_entry eexp euid].
    destruct (N.ltb_spec now (rexp a)) as [Hlt|Hge].
    + exists [], (a :: suf). cbn. auto.
    + change (to_kv a) with (ruid a, (rtid a, rexp a)). cbn [aremove]. rewrite N.eqb_refl.
      destruct IH as (dr & keep & -> & Hp & Hf & Hk).
      exists (a :: dr), keep. repeat split; auto.
Qed.

Lemma timer_ok_head : forall keep, timer_ok keep (head_timer keep).
Proof. destruct keep; cbn; auto. Qed.

Lemma register_struct : forall suf s u t n v,
  st_ok suf s -> ~ In u (map ruid suf) ->
  st_ok (suf ++ [{| ruid := u; rtid := t; rnow := n; rval := v |}]) (register s u t n v).
Proof.
  intros suf s u t n v (He & Ht & Hm) Hfresh.
  unfold st_ok, register. cbn [elist tables tmr].
  rewrite He, Ht. rewrite aset_fresh by (rewrite map_fst_kv; exact Hfresh).
  rewrite !map_app. cbn [map]. repeat split.
  rewrite app_length, map_length. cbn [length].
  destruct suf as [|h suf]; cbn [timer_ok] in Hm; cbn [app timer_ok].
  - destruct Hm as [-> | ->]; reflexivity.
  - rewrite Hm.
    destruct (N.eqb_spec (N.of_nat (length (h :: suf) + 1)) 1) as [Hc|_]; [cbn [length] in Hc; lia | reflexivity].
Qed.

Definition is_tick (o : op) : bool := match o with Tick _ => true | _ => false end.

Lemma step_struct : forall suf s o,
  st_ok suf s ->
  (forall r, In r (regs [o]) -> ~ In (ruid r) (map ruid suf)) ->
  exists dr keep, suf ++ regs [o] = dr ++ keep /\ st_ok keep (fst (step s o)) /\
    Forall (fun r => (rexp r <= op_time o)%N) dr /\
    (is_tick o = true -> due 0 s o ->
     match keep with [] => True | h :: _ => (op_time o < rexp h)%N end).
Proof.
  intros suf s o Hok Hfresh. destruct o as [u t n v | now | u now]; cbn [regs step fst op_time is_tick].
  - exists [], (suf ++ [{| ruid := u; rtid := t; rnow := n; rval := v |}]). cbn [app].
    split; [reflexivity|]. split; [|split; [constructor | discriminate]].
    apply register_struct; auto.
    apply (Hfresh {| ruid := u; rtid := t; rnow := n; rval := v |}). left. reflexivity.
  - rewrite app_nil_r.
    assert (Hsame : forall ob : obs, (forall a, tmr s = TArmed a -> (a <= now)%N -> False) ->
      exists dr keep, suf = dr ++ keep /\ st_ok keep (fst (s, ob)) /\
        Forall (fun r => (rexp r <= now)%N) dr /\
        (true = true -> due 0 s (Tick now) ->
         match keep with [] => True | h :: _ => (now < rexp h)%N end)).
    { intros ob Hnd. exists [], suf. cbn [app fst]. split; [reflexivity|]. split; [exact Hok|].
      split; [constructor|]. intros _ Hd. exfalso. unfold due in Hd.
      destruct (tmr s) eqn:E; try contradiction. eapply Hnd; eauto. }
    pose proof Hok as (He & Ht & Hm).
    destruct (tmr s) as [| |a] eqn:Htm.
    + apply Hsame. intros; discriminate.
    + apply Hsame. intros; discriminate.
    + destruct (N.leb_spec a now) as [Hle|Hgt].
      * destruct (prune_spec now suf) as (dr & keep & Hsplit & Hp & Hf & Hk).
        rewrite He, Ht, Hp. cbn [fst]. exists dr, keep.
        split; [exact Hsplit|].
        split; [split; [reflexivity | split; [reflexivity | apply timer_ok_head]]|].
        split; [exact Hf|]. intros _ _. exact Hk.
      * apply Hsame. intros a' Ha' Hle. inversion Ha'; subst. lia.
  - rewrite app_nil_r. exists [], suf. cbn [app fst]. split; [reflexivity|]. split; [exact Hok|].
    split; [constructor | discriminate].
Qed.

(* ------------------------------------------------------------------ structural invariant of histories *)

Lemma nodup_app_r : forall (a b : list N), NoDup (a ++ b) -> NoDup b.
Proof.
  induction a as [|x a IH]; intros b H; cbn in *; [exact H|].
  inversion H; subst. apply IH. assumption.
Qed.

Lemma nodup_fresh : forall (pre suf rest : list reg) r,
  NoDup (map ruid (pre ++ suf ++ r :: rest)) -> ~ In (ruid r) (map ruid suf).
Proof.
  intros pre suf rest r H. rewrite !map_app in H. apply nodup_app_r in H.
  cbn [map] in H. apply NoDup_remove_2 in H. intro Hin. apply H. apply in_or_app. left. exact Hin.
Qed.

Lemma fresh_of_nodup : forall pre suf o l,
  NoDup (map ruid (pre ++ suf ++ regs (o :: l))) ->
  forall r, In r (regs [o]) -> ~ In (ruid r) (map ruid suf).
Proof.
  intros pre suf o l H r Hin. rewrite regs_cons in H.
  destruct o; cbn in Hin; try contradiction.
  destruct Hin as [<- | []]. cbn [regs app] in H. eapply nodup_fresh. exact H.
Qed.

Lemma runs_struct : forall l pre suf s,
  st_ok suf s -> NoDup (map ruid (pre ++ suf ++ regs l)) ->
  exists pre' suf', pre' ++ suf' = pre ++ suf ++ regs l /\ st_ok suf' (runs step s l).
Proof.
  induction l as [|o l IH]; intros pre suf s Hok Hnd.
  - cbn. exists pre, suf. rewrite app_nil_r. auto.
  - destruct (step_struct o Hok (fresh_of_nodup _ _ _ _ Hnd)) as (dr & keep & Hsplit & Hok' & _ & _).
    cbn [runs]. rewrite regs_cons in Hnd |- *.
    assert (Heq : pre ++ suf ++ regs [o] ++ regs l = (pre ++ dr) ++ keep ++ regs l).
    { rewrite (app_assoc suf), Hsplit, <- !app_assoc. reflexivity. }
    rewrite Heq in Hnd |- *.
    destruct (IH (pre ++ dr) keep _ Hok' Hnd) as (pre' & suf' & E & Hok'').
    exists pre', suf'. auto.
Qed.

Lemma st_ok_init : st_ok [] init.
Proof. cbn. repeat split. left. reflexivity. Qed.

Lemma run_struct : forall l, uniq l ->
  exists pre suf, regs l = pre ++ suf /\ st_ok suf (run l).
Proof.
  intros l H. destruct (runs_struct l [] st_ok_init H) as (pre & suf & E & Hok).
  exists pre, suf. cbn in E. auto.
Qed.

(* ------------------------------------------------------------------ invariant: timer armed for the first entry *)

Definition armed_for_first (s : state) : Prop :=
  match elist s with
  | [] => forall a, tmr s <> TArmed a
  | e :: _ => tmr s = TArmed (eexp e)
  end.

Lemma timer_armed_for_first : forall l, uniq l -> armed_for_first (run l).
Proof.
  intros l H. destruct (run_struct H) as (pre & suf & _ & He & _ & Hm).
  unfold armed_for_first. rewrite He. destruct suf as [|h suf]; cbn in *.
  - intros a. destruct Hm as [-> | ->]; discriminate.
  - exact Hm.
Qed.

(* ------------------------------------------------------------------ timed invariant *)

Fixpoint sorted_from (lo : N) (R : list reg) : Prop :=
  match R with
  | [] => True
  | r :: t => (lo <= rnow r)%N /\ sorted_from (rnow r) t
  end.

Lemma sorted_from_weaken : forall R lo lo', (lo' <= lo)%N -> sorted_from lo R -> sorted_from lo' R.
Proof. destruct R; cbn; intros; [auto | split; [lia | tauto]]. Qed.

Lemma sorted_from_ge : forall R lo r, sorted_from lo R -> In r R -> (lo <= rnow r)%N.
Proof.
  induction R as [|a R IH]; intros lo r Hs Hin; cbn in *; [contradiction|].
  destruct Hs as (H1 & H2). destruct Hin as [<- | Hin]; [exact H1|].
  specialize (IH _ _ H2 Hin). lia.
Qed.

Lemma sorted_from_snoc : forall R lo last r,
  sorted_from lo R -> Forall (fun x => (rnow x <= last)%N) R ->
  (lo <= rnow r)%N -> (last <= rnow r)%N -> sorted_from lo (R ++ [r]).
Proof.
  induction R as [|a R IH]; intros lo last r Hs Hf H1 H2; cbn in *.
  - auto.
  - destruct Hs as (Ha & Hs). inversion Hf; subst. split; [exact Ha|].
    eapply IH; eauto. lia.
Qed.

Lemma sorted_from_suffix : forall pre suf lo, sorted_from lo (pre ++ suf) -> sorted_from 0 suf.
Proof.
  induction pre as [|a pre IH]; intros suf lo H; cbn in *.
  - eapply sorted_from_weaken; [|exact H]. lia.
  - destruct H as (_ & H). eapply IH. exact H.
Qed.

Lemma sorted_head_le : forall h t r, sorted_from 0 (h :: t) -> In r (h :: t) -> (rnow h <= rnow r)%N.
Proof.
  intros h t r (_ & Hs) [<- | Hin]; [lia|]. eapply sorted_from_ge; eauto.
Qed.

Definition times_ok (last : N) (pre suf : list reg) : Prop :=
  sorted_from 0 (pre ++ suf) /\
  Forall (fun r => (rnow r <= last)%N) (pre ++ suf) /\
  Forall (fun r => (rexp r <= last)%N) pre.

Lemma Forall_le_mono : forall (f : reg -> N) (a b : N) (R : list reg),
  (a <= b)%N -> Forall (fun r => (f r <= a)%N) R -> Forall (fun r => (f r <= b)%N) R.
Proof. intros f a b R Hab H. eapply Forall_impl; [|exact H]. cbn. intros; lia. Qed.

Lemma step_times : forall last pre suf o dr keep,
  times_ok last pre suf -> (last <= op_time o)%N ->
  suf ++ regs [o] = dr ++ keep ->
  Forall (fun r => (rexp r <= op_time o)%N) dr ->
  times_ok (op_time o) (pre ++ dr) keep.
Proof.
  intros last pre suf o dr keep (Hs & Hn & He) Hlast Hsplit Hdr.
  unfold times_ok. rewrite <- app_assoc, <- Hsplit, app_assoc.
  assert (Hn' : Forall (fun r => (rnow r <= op_time o)%N) (pre ++ suf)) by (eapply Forall_le_mono; eauto).
  repeat split.
  - destruct o; cbn [regs]; rewrite ?app_nil_r; auto.
    eapply sorted_from_snoc; eauto; cbn; lia.
  - apply Forall_app. split; [exact Hn'|].
    destruct o; cbn [regs]; auto. constructor; [cbn; lia | constructor].
  - apply Forall_app. split; [eapply Forall_le_mono; eauto | exact Hdr].
Qed.

Lemma runs_timed : forall d l last pre suf s,
  st_ok suf s -> times_ok last pre suf ->
  NoDup (map ruid (pre ++ suf ++ regs l)) -> sched step d last s l ->
  exists pre' suf', pre' ++ suf' = pre ++ suf ++ regs l /\ st_ok suf' (runs step s l) /\
    times_ok (last_time last l) pre' suf'.
Proof.
  induction l as [|o l IH]; intros last pre suf s Hok Ht Hnd Hsch.
  - cbn. exists pre, suf. rewrite app_nil_r. auto.
  - destruct Hsch as (Hlast & Hdue & Hsch).
    destruct (step_struct o Hok (fresh_of_nodup _ _ _ _ Hnd)) as (dr & keep & Hsplit & Hok' & Hdr & _).
    pose proof (@step_times _ _ _ o _ _ Ht Hlast Hsplit Hdr) as Ht'.
    cbn [runs last_time]. rewrite regs_cons in Hnd |- *.
    assert (Heq : pre ++ suf ++ regs [o] ++ regs l = (pre ++ dr) ++ keep ++ regs l).
    { rewrite (app_assoc suf), Hsplit, <- !app_assoc. reflexivity. }
    rewrite Heq in Hnd |- *.
    destruct (IH _ (pre ++ dr) keep _ Hok' Ht' Hnd Hsch) as (pre' & suf' & E & Hok'' & Ht'').
    exists pre', suf'. auto.
Qed.

Lemma times_ok_init : times_ok 0 [] [].
Proof. unfold times_ok. cbn. auto. Qed.

Lemma run_timed : forall d l, uniq l -> sched step d 0 init l ->
  exists pre suf, regs l = pre ++ suf /\ st_ok suf (run l) /\ times_ok (last_time 0 l) pre suf.
Proof.
  intros d l Hu Hs.
  destruct (@runs_timed d l 0 [] [] init st_ok_init times_ok_init Hu Hs) as (pre & suf & E & Hok & Ht).
  exists pre, suf. cbn in E. auto.
Qed.

(* ------------------------------------------------------------------ Get serves only tables still in force *)

(* every value in the map is the (contents, expiry) of a registration of that UID *)
Definition tables_ok (l : list op) (m : list (N * (N * N))) : Prop :=
  forall u t e, In (u, (t, e)) m -> exists n v, In (Register u t n v) l /\ e = (n + v)%N.

Lemma alookup_in : forall (V : Type) (k : N) (v : V) (m : list (N * V)), alookup k m = Some v -> In (k, v) m.
Proof.
  intros V k v. induction m as [|[k' v'] m IH]; intros H; cbn in *; [discriminate|].
  destruct (N.eqb_spec k k') as [->|Hne]; [inversion H; left; reflexivity | right; apply IH; exact H].
Qed.

Lemma in_aset : forall (V : Type) (k : N) (v : V) (m : list (N * V)) p, In p (aset k v m) -> p = (k, v) \/ In p m.
Proof.
  intros V k v. induction m as [|[k' v'] m IH]; intros p H; cbn in *.
  - destruct H as [<- | []]. left. reflexivity.
  - destruct (N.eqb k k'); cbn in H.
    + destruct H as [<- | H]; auto.
    + destruct H as [<- | H]; auto. destruct (IH _ H); auto.
Qed.

Lemma in_aremove : forall (V : Type) (k : N) (m : list (N * V)) p, In p (aremove k m) -> In p m.
Proof.
  intros V k. induction m as [|[k' v'] m IH]; intros p H; cbn in *; [contradiction|].
  destruct (N.eqb k k'); cbn in H; auto. destruct H as [<- | H]; auto.
Qed.

Lemma in_prune : forall now l m p, In p (snd (fst (prune now l m))) -> In p m.
Proof.
  induction l as [|e l IH]; intros m p H; cbn in *; [exact H|].
  destruct (now <? eexp e)%N; cbn in H; [exact H|].
  apply IH in H. eapply in_aremove. exact H.
Qed.

Lemma tables_ok_mono : forall l o m, tables_ok l m -> tables_ok (l ++ [o]) m.
Proof.
  intros l o m H u t e Hin. destruct (H _ _ _ Hin) as (n & v & H1 & H2).
  exists n, v. split; [apply in_or_app; left; exact H1 | exact H2].
Qed.

(* both the code and the C12-mut7 variant change the map only by these two *)
Lemma tables_ok_step : forall l s o,
  tables_ok l (tables s) ->
  tables_ok (l ++ [o]) (tables (fst (step s o))) /\ tables_ok (l ++ [o]) (tables (fst (Mut7.step s o))).
Proof.
  intros l s o H.
  assert (Hreg : forall u t n v, tables_ok (l ++ [Register u t n v]) (aset u (t, (n + v)%N) (tables s))).
  { intros u t n v u' t' e' Hin. apply in_aset in Hin. destruct Hin as [Heq | Hin].
    - inversion Heq; subst. exists n, v. split; [apply in_or_app; right; left; reflexivity | reflexivity].
    - apply (tables_ok_mono (Register u t n v) H). exact Hin. }
  assert (Hother : forall o', (forall u t n v, o' <> Register u t n v) ->
            tables_ok (l ++ [o']) (tables (fst (step s o')))).
  { intros o' Hne. destruct o' as [u t n v | now | u now]; [exfalso; eapply Hne; reflexivity | |].
    - cbn [step]. destruct (tmr s) as [| |a]; try (apply tables_ok_mono; exact H).
      destruct (a <=? now)%N; [|apply tables_ok_mono; exact H].
      destruct (prune now (elist s) (tables s)) as [[l' m'] t'] eqn:Hp. cbn [fst tables].
      intros u t e Hin. apply (tables_ok_mono (Tick now) H).
      apply (in_prune now (elist s)). rewrite Hp. exact Hin.
    - cbn. apply tables_ok_mono. exact H. }
  destruct o as [u t n v | now | u now].
  - split; cbn [step Mut7.step fst register Mut7.register tables]; apply Hreg.
  - split; [|change (Mut7.step s (Tick now)) with (step s (Tick now))]; apply Hother; discriminate.
  - split; [|change (Mut7.step s (Get u now)) with (step s (Get u now))]; apply Hother; discriminate.
Qed.

Lemma tables_ok_runs : forall l2 l1 s,
  tables_ok l1 (tables s) ->
  tables_ok (l1 ++ l2) (tables (runs step s l2)) /\ tables_ok (l1 ++ l2) (tables (runs Mut7.step s l2)).
Proof.
  assert (G : forall stepf, (forall l s o, tables_ok l (tables s) -> tables_ok (l ++ [o]) (tables (fst (stepf s o)))) ->
    forall l2 l1 s, tables_ok l1 (tables s) -> tables_ok (l1 ++ l2) (tables (runs stepf s l2))).
  { intros stepf Hs. induction l2 as [|o l2 IH]; intros l1 s H; cbn [runs].
    - rewrite app_nil_r. exact H.
    - change (o :: l2) with ([o] ++ l2). rewrite app_assoc. apply IH. apply Hs. exact H. }
  intros l2 l1 s H. split; apply G; auto; intros l s' o H'; apply (@tables_ok_step l s' o H').
Qed.

(* With the fix: for EVERY history (any instants, any timer behaviour, repeated UIDs included) the
   table Get serves was registered under that UID and its own expiry has not passed. *)
Lemma get_only_unexpired : forall l uid now t,
  snd (step (run l) (Get uid now)) = OGet (Some t) ->
  exists n v, In (Register uid t n v) l /\ (now < n + v)%N.
Proof.
  intros l uid now t H. cbn in H. unfold get in H.
  destruct (alookup uid (tables (run l))) as [[t' e]|] eqn:Hl; [|discriminate].
  destruct (N.ltb_spec now e) as [Hlt|]; [|discriminate]. inversion H; subst t'.
  apply alookup_in in Hl.
  destruct (@tables_ok_runs l [] init) as (Hok & _); [intros ? ? ? []|].
  destruct (Hok _ _ _ Hl) as (n & v & Hin & ->). exists n, v. auto.
Qed.

(* ... and this does not depend on the timer: it holds of the C12-mut7 variant of the repaired code too *)
Lemma get_only_unexpired_mut7 : forall l uid now t,
  snd (Mut7.step (mrun l) (Get uid now)) = OGet (Some t) ->
  exists n v, In (Register uid t n v) l /\ (now < n + v)%N.
Proof.
  intros l uid now t H. cbn in H. unfold get in H.
  destruct (alookup uid (tables (mrun l))) as [[t' e]|] eqn:Hl; [|discriminate].
  destruct (N.ltb_spec now e) as [Hlt|]; [|discriminate]. inversion H; subst t'.
  apply alookup_in in Hl.
  destruct (@tables_ok_runs l [] init) as (_ & Hok); [intros ? ? ? []|].
  destruct (Hok _ _ _ Hl) as (n & v & Hin & ->). exists n, v. auto.
Qed.

(* Before the fix (Legacy.step: same transitions, Get without the comparison) *)
Lemma lstep_fst : forall s o, fst (Legacy.step s o) = fst (step s o).
Proof. intros s [ | | ]; reflexivity. Qed.

Lemma runs_ext : forall f g, (forall s o, fst (f s o) = fst (g s o)) -> forall l s, runs f s l = runs g s l.
Proof. intros f g H. induction l as [|o l IH]; intros s; cbn; [reflexivity | rewrite H; apply IH]. Qed.

Lemma sched_ext : forall f g, (forall s o, fst (f s o) = fst (g s o)) ->
  forall d l last s, sched f d last s l <-> sched g d last s l.
Proof.
  intros f g H d. induction l as [|o l IH]; intros last s; cbn; [tauto|]. rewrite H, IH. tauto.
Qed.

Lemma lrun_run : forall l, lrun l = run l.
Proof. intros. apply runs_ext. apply lstep_fst. Qed.

(* what held before the fix: served less than V + d after the registration, V bounding the
   validities and d the lateness of the timer function *)
Lemma legacy_get_only_unexpired : forall d V l uid now t,
  uniq l -> sched Legacy.step d 0 init (l ++ [Get uid now]) -> validity_le V l ->
  snd (Legacy.step (lrun l) (Get uid now)) = OGet (Some t) ->
  exists n v, In (Register uid t n v) l /\ (n <= now)%N /\ (now < n + V + d)%N.
Proof.
  intros d V l uid now t Hu Hs HV Hget.
  apply (sched_ext _ _ lstep_fst) in Hs. rewrite lrun_run in Hget.
  apply sched_app in Hs. destruct Hs as (Hs & Hg).
  destruct (@run_timed d l Hu Hs) as (pre & suf & E & (He & Htb & Hm) & (Hsort & Hn & _)).
  cbn in Hget. unfold Legacy.get in Hget. fold (run l) in Hg.
  destruct (alookup uid (tables (run l))) as [[t' e]|] eqn:Hl; [|discriminate].
  inversion Hget; subst t'. rewrite Htb in Hl.
  destruct (alookup_kv_some _ _ Hl) as (r & Hin & <- & <- & _).
  assert (Hreg : In (Register (ruid r) (rtid r) (rnow r) (rval r)) l).
  { apply in_regs. rewrite E. apply in_or_app. right. exact Hin. }
  exists (rnow r), (rval r). split; [exact Hreg|].
  cbn in Hg. destruct Hg as (Hlast & Hdue & _). unfold due in Hdue. cbn [op_time] in *.
  assert (Hrn : (rnow r <= last_time 0 l)%N).
  { rewrite Forall_forall in Hn. apply Hn. apply in_or_app. right. exact Hin. }
  split; [lia|].
  destruct suf as [|h suf]; [contradiction|]. cbn in Hm. rewrite Hm in Hdue.
  apply sorted_from_suffix in Hsort.
  pose proof (sorted_head_le Hsort Hin) as Hh.
  assert (Hhv : (rval h <= V)%N).
  { apply (HV (ruid h) (rtid h) (rnow h)). apply in_regs. rewrite E. apply in_or_app. right. left. reflexivity. }
  unfold rexp in Hdue. lia.
Qed.

(* ... and serves every registered table until its own expiry *)
Lemma get_serves_unexpired : forall d l uid t n v now,
  uniq l -> sched step d 0 init (l ++ [Get uid now]) ->
  In (Register uid t n v) l -> (now < n + v)%N ->
  snd (step (run l) (Get uid now)) = OGet (Some t).
Proof.
  intros d l uid t n v now Hu Hs Hin Hnow.
  apply sched_app in Hs. destruct Hs as (Hs & Hg).
  destruct (@run_timed d l Hu Hs) as (pre & suf & E & (He & Htb & Hm) & (Hsort & Hn & Hx)).
  cbn in Hg. destruct Hg as (Hlast & _ & _).
  apply regs_in in Hin. rewrite E in Hin. apply in_app_or in Hin.
  cbn. unfold get. rewrite Htb. destruct Hin as [Hin | Hin].
  - rewrite Forall_forall in Hx. apply Hx in Hin. unfold rexp in Hin. cbn in Hin. lia.
  - unfold uniq in Hu. rewrite E, map_app in Hu. apply nodup_app_r in Hu.
    pose proof (@alookup_kv_in suf _ Hu Hin) as Hl. cbn in Hl. rewrite Hl. unfold rexp. cbn.
    destruct (N.ltb_spec now (n + v)); [reflexivity | lia].
Qed.

(* the first entry is the earliest when expiries are registered in order *)
Lemma first_is_earliest : forall d V l h t e,
  uniq l -> sched step d 0 init l -> validity_const V l ->
  elist (run l) = h :: t -> In e t -> (eexp h <= eexp e)%N.
Proof.
  intros d V l h t e Hu Hs HV Hl Hin.
  destruct (@run_timed d l Hu Hs) as (pre & suf & E & (He & _ & _) & (Hsort & _ & _)).
  rewrite He in Hl. destruct suf as [|rh suf]; [discriminate|]. cbn in Hl. inversion Hl; subst.
  apply in_map_iff in Hin. destruct Hin as (r & <- & Hin).
  apply sorted_from_suffix in Hsort.
  assert (Hle : (rnow rh <= rnow r)%N) by (eapply sorted_head_le; [exact Hsort | right; exact Hin]).
  assert (In rh (regs l) /\ In r (regs l)) as (H1 & H2).
  { rewrite E. split; apply in_or_app; right; [left; reflexivity | right; exact Hin]. }
  apply in_regs in H1. apply in_regs in H2. apply HV in H1. apply HV in H2.
  cbn. unfold rexp. lia.
Qed.

Lemma nodup_uid_eq : forall (R : list reg) r1 r2,
  NoDup (map ruid R) -> In r1 R -> In r2 R -> ruid r1 = ruid r2 -> r1 = r2.
Proof.
  induction R as [|a R IH]; intros r1 r2 Hnd H1 H2 He; [contradiction|].
  cbn in Hnd. inversion Hnd as [|x xs Hni Hnd']; subst.
  destruct H1 as [<- | H1], H2 as [<- | H2].
  - reflexivity.
  - exfalso. apply Hni. rewrite He. apply in_map. exact H2.
  - exfalso. apply Hni. rewrite <- He. apply in_map. exact H1.
  - apply IH; assumption.
Qed.

(* ------------------------------------------------------------------ every table expires *)

(* The timer function, whenever it runs (at or after the armed instant), removes every table
   registered at least V before (V bounding the validities; with constant validity: every table
   whose expiry has passed), from the list and from the map. *)
Lemma every_table_expires : forall d V l now uid t n v,
  uniq l -> sched step d 0 init (l ++ [Tick now]) -> validity_le V l ->
  In (Register uid t n v) l -> (n + V <= now)%N ->
  alookup uid (tables (run (l ++ [Tick now]))) = None /\
  ~ In uid (map euid (elist (run (l ++ [Tick now])))).
Proof.
  intros d V l now uid t n v Hu Hs HV Hin Hnow.
  apply sched_app in Hs. destruct Hs as (Hs & Hg).
  destruct (@run_timed d l Hu Hs) as (pre & suf & E & Hok & (Hsort & Hn & Hx)).
  cbn in Hg. destruct Hg as (Hlast & Hdue & _). fold (run l) in Hdue.
  unfold run in *. rewrite runs_app. cbn [runs].
  assert (Hfresh : forall r, In r (regs [Tick now]) -> ~ In (ruid r) (map ruid suf)) by (cbn; contradiction).
  destruct (step_struct (Tick now) Hok Hfresh) as (dr & keep & Hsplit & (He' & Ht' & _) & _ & Hk).
  cbn [regs] in Hsplit. rewrite app_nil_r in Hsplit.
  specialize (Hk eq_refl).
  assert (Hdue0 : due 0 (runs step init l) (Tick now)).
  { unfold due in *. destruct (tmr (runs step init l)); auto. }
  specialize (Hk Hdue0). cbn [op_time] in Hk.
  assert (Hnot : ~ In uid (map ruid keep)).
  { intro Hc. apply in_map_iff in Hc. destruct Hc as (r & Hru & Hr).
    destruct keep as [|h keep]; [contradiction|].
    (* r is in keep, so registered no earlier than h, which has not expired at [now] *)
    assert (Hsuf : sorted_from 0 (h :: keep)).
    { apply sorted_from_suffix in Hsort. rewrite Hsplit in Hsort. eapply sorted_from_suffix. exact Hsort. }
    pose proof (sorted_head_le Hsuf Hr) as Hle.
    assert (Hrin : In r (regs l)).
    { rewrite E, Hsplit. apply in_or_app. right. apply in_or_app. right. exact Hr. }
    assert (Hhin : In h (regs l)).
    { rewrite E, Hsplit. apply in_or_app. right. apply in_or_app. right. left. reflexivity. }
    (* uniqueness of UIDs: r is the registration (uid, t, n, v) *)
    apply regs_in in Hin.
    assert (r = {| ruid := uid; rtid := t; rnow := n; rval := v |}) as ->.
    { apply (@nodup_uid_eq (regs l) _ _ Hu Hrin Hin). exact Hru. }
    cbn in Hle.
    assert (Hhv : (rval h <= V)%N).
    { apply (HV (ruid h) (rtid h) (rnow h)). apply in_regs. exact Hhin. }
    unfold rexp in Hk. lia. }
  split.
  - rewrite Ht'. apply alookup_kv_none. exact Hnot.
  - rewrite He'. rewrite map_map. cbn. exact Hnot.
Qed.

(* as long as a table is in the manager the timer is running: the removing Tick is enabled at the
   first entry's expiry, and it removes at least the first entry *)
Lemma tick_removes_first : forall l now e rest,
  uniq l -> elist (run l) = e :: rest -> (eexp e <= now)%N ->
  due 0 (run l) (Tick now) /\
  (length (elist (run (l ++ [Tick now]))) <= length rest)%nat.
Proof.
  intros l now e rest Hu Hl Hnow.
  pose proof (timer_armed_for_first Hu) as Ha. unfold armed_for_first in Ha. rewrite Hl in Ha.
  split; [unfold due; rewrite Ha; exact Hnow|].
  destruct (run_struct Hu) as (pre & suf & E & Hok).
  unfold run in *. rewrite runs_app. cbn [runs step]. rewrite Ha.
  destruct (N.leb_spec (eexp e) now) as [_|]; [|lia].
  destruct Hok as (He & Ht & _). rewrite He, Ht.
  destruct (prune_spec now suf) as (dr & keep & Hsplit & Hp & _ & Hk). rewrite Hp. cbn [fst elist].
  rewrite He in Hl. destruct suf as [|h suf]; [discriminate|]. cbn in Hl. inversion Hl; subst e rest.
  destruct dr as [|x dr].
  - cbn in Hsplit. subst keep. cbn in Hk, Hnow. unfold rexp in *. lia.
  - cbn in Hsplit. inversion Hsplit; subst. rewrite !map_length, app_length. lia.
Qed.

(* ------------------------------------------------------------------ witnesses *)

(* (a) before the fix, validity lowered between two registrations: the later table is served after its
   own expiry, under the ideal timer; the bound of legacy_get_only_unexpired is attained
   (now = n + V + d - 1).  With the fix the same Get is refused. *)
Definition out_of_order : list op := [Register 1 1 0 30; Register 2 2 0 5].

Lemma legacy_get_past_own_validity : exists l uid t n v now,
  uniq l /\ sched Legacy.step 0 0 init (l ++ [Get uid now]) /\ In (Register uid t n v) l /\
  snd (Legacy.step (lrun l) (Get uid now)) = OGet (Some t) /\ (n + v <= now)%N /\
  validity_le 30 l /\ (now = n + 30 + 0 - 1)%N /\
  snd (step (run l) (Get uid now)) = OGet None.
Proof.
  exists out_of_order, 2%N, 2%N, 0%N, 5%N, 29%N. unfold out_of_order.
  split; [unfold uniq; cbn; repeat constructor; cbn; intuition congruence|].
  split; [cbn; repeat split; lia|].
  split; [cbn; auto|].
  split; [reflexivity|].
  split; [lia|].
  split; [|split; reflexivity].
  intros u t n v [H|[H|[]]]; inversion H; lia.
Qed.

(* (b) a repeated UID (outside [uniq]): the expiry of the first registration deletes the table of
   the second one, which is then refused although still in force (never the other way round:
   get_only_unexpired needs no [uniq]) *)
Definition repeated_uid : list op :=
  [Register 1 1 0 10; Register 2 2 1 10; Register 1 3 5 10; Tick 10].

Lemma repeated_uid_drops_live_table :
  sched step 0 0 init (repeated_uid ++ [Get 1 10]) /\
  snd (step (run repeated_uid) (Get 1 10)) = OGet None /\ (10 < 5 + 10)%N.
Proof. cbn. repeat split; lia. Qed.

(* ------------------------------------------------------------------ C12-mut7: reset on every registration *)

(* busy k: a registration with validity 2 at every instant 0 .. k-1 (UID i+1 at instant i) *)
Definition busy_reg (i : nat) : op := Register (N.of_nat i + 1) (N.of_nat i + 1) (N.of_nat i) 2.
Definition busy (k : nat) : list op := map busy_reg (seq 0 k).

Lemma busy_S : forall k, busy (S k) = busy k ++ [busy_reg k].
Proof. intros. unfold busy. rewrite seq_S, map_app. reflexivity. Qed.

Lemma mut7_fst : forall s o, fst (Mut7.legacy_step s o) = fst (Mut7.step s o).
Proof. intros s [ | | ]; reflexivity. Qed.

Lemma mlrun_mrun : forall l, mlrun l = mrun l.
Proof. intros. apply runs_ext. apply mut7_fst. Qed.

Lemma busy_state : forall k,
  tmr (mrun (busy (S k))) = TArmed (N.of_nat k + 2) /\
  alookup 1%N (tables (mrun (busy (S k)))) = Some (1%N, 2%N).
Proof.
  induction k as [|k (IH1 & IH2)].
  - cbn. auto.
  - rewrite busy_S. unfold mrun in *. rewrite runs_app. cbn [runs busy_reg Mut7.step fst Mut7.register tmr tables].
    split; [f_equal; lia|].
    rewrite alookup_aset_other by lia. exact IH2.
Qed.

Lemma busy_sched : forall k, sched Mut7.step 0 0 init (busy (S k)) /\ last_time 0 (busy (S k)) = N.of_nat k.
Proof.
  induction k as [|k (IH1 & IH2)].
  - cbn. repeat split; lia.
  - rewrite busy_S. split.
    + apply sched_app. split; [exact IH1|]. rewrite IH2.
      destruct (busy_state k) as (Ht & _). unfold mrun in Ht.
      unfold busy_reg. cbn [sched op_time]. unfold due. rewrite Ht. cbn [op_time]. repeat split; lia.
    + clear. generalize (busy (S k)) 0%N. induction l as [|o l IH]; intros; cbn; [reflexivity | apply IH].
Qed.

Lemma busy_regs : forall k, map ruid (regs (busy k)) = map (fun i => (N.of_nat i + 1)%N) (seq 0 k).
Proof.
  intros k. unfold busy. generalize 0%nat. induction k as [|k IH]; intros a; cbn; [reflexivity|].
  rewrite IH. reflexivity.
Qed.

Lemma busy_uniq : forall k, uniq (busy k).
Proof.
  intros k. unfold uniq. rewrite busy_regs.
  apply FinFun.Injective_map_NoDup; [|apply seq_NoDup]. intros a b H. lia.
Qed.

Lemma busy_const : forall k, validity_const 2 (busy k).
Proof.
  intros k u t n v H. unfold busy in H. apply in_map_iff in H. destruct H as (i & Hi & _).
  unfold busy_reg in Hi. inversion Hi. reflexivity.
Qed.

(* With the reset on every registration, under the ideal timer, a constant validity and distinct
   UIDs, the first table is still held by the manager arbitrarily long after its expiry; before the
   fix it was also served (and RPCs validated against it), with the fix it is refused all the same. *)
Lemma mut7_never_expires : forall K : N, exists l uid t n v now,
  uniq l /\ validity_const v l /\ sched Mut7.step 0 0 init (l ++ [Get uid now]) /\
  In (Register uid t n v) l /\ (n + v + K <= now)%N /\
  alookup uid (tables (mrun l)) = Some (t, (n + v)%N) /\
  snd (Mut7.legacy_step (mlrun l) (Get uid now)) = OGet (Some t) /\
  snd (Mut7.step (mrun l) (Get uid now)) = OGet None.
Proof.
  intros K. set (k := (N.to_nat K + 2)%nat).
  exists (busy (S k)), 1%N, 1%N, 0%N, 2%N, (N.of_nat k + 1)%N.
  destruct (busy_state k) as (Ht & Hl). destruct (busy_sched k) as (Hs & Hlast).
  split; [apply busy_uniq|].
  split; [apply busy_const|].
  split.
  { apply sched_app. split; [exact Hs|]. rewrite Hlast. unfold mrun in Ht.
    cbn [sched op_time]. unfold due. rewrite Ht. cbn [op_time]. repeat split; lia. }
  split; [unfold busy; cbn; left; reflexivity|].
  split; [subst k; lia|].
  split; [exact Hl|].
  split.
  - rewrite mlrun_mrun. cbn [Mut7.legacy_step Legacy.step snd]. unfold Legacy.get. rewrite Hl. reflexivity.
  - cbn [Mut7.step step snd]. unfold get. rewrite Hl.
    destruct (N.ltb_spec (N.of_nat k + 1) 2); [lia | reflexivity].
Qed.

(* ------------------------------------------------------------------ a concrete schedule (non-vacuity) *)
Lemma nonvacuous_example :
  let l := [Register 1 1 0 10; Register 2 2 4 10; Get 1 9; Get 1 12; Register 3 3 12 10; Tick 14] in
  uniq l /\ validity_const 10 l /\ sched step 3 0 init (l ++ [Get 3 20]) /\
  snd (step (run [Register 1 1 0 10; Register 2 2 4 10]) (Get 1 9)) = OGet (Some 1%N) /\
  snd (step (run [Register 1 1 0 10; Register 2 2 4 10]) (Get 1 12)) = OGet None /\
  snd (Legacy.step (lrun [Register 1 1 0 10; Register 2 2 4 10]) (Get 1 12)) = OGet (Some 1%N) /\
  snd (step (run l) (Get 3 20)) = OGet (Some 3%N) /\
  snd (step (run l) (Get 2 20)) = OGet None /\
  tmr (run l) = TArmed 22 /\
  tables (run (busy 4 ++ [Tick 3])) = [(3, (3, 4)); (4, (4, 5))]%N /\
  length (tables (mrun (busy 4))) = 4%nat.
Proof.
  cbv zeta.
  split; [unfold uniq; cbn; repeat constructor; cbn; intuition congruence|].
  split; [intros u t n v H; cbn in H; intuition congruence|].
  split; [cbn; repeat split; lia|].
  cbn. repeat split; reflexivity.
Qed.
