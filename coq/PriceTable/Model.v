(* PriceTable/Model.v — rhp/v3/pricetable.go WITH fixes/C12-pricetable-get-checks-expiry.patch: priceTableManager
   (newPriceTableManager, Register, Get, pruneExpired) as a state machine over virtual time.
   No proofs here.

   Time is an unbounded N (nanoseconds since an arbitrary origin in the recorded cases).  The
   manager never reads a clock except through time.Now()/time.Until(), so every operation that
   does carries the instant it reads as an argument:

     Register uid tid now validity   pm.Register(pt) with pt.UID = uid, pt.Validity = validity,
                                     time.Now() = now; [tid] identifies the table's contents
     Tick now                        the runtime runs the expiry timer's function pruneExpired;
                                     every time.Until() in it reads [now]
     Get uid now                     pm.Get(uid) with time.Now() = now: a table is served iff it is
                                     in the map and now is before its expiry (before the fix Get
                                     never looked at an expiry: Module Legacy)

   The single *time.Timer is explicit state:
     TNil      expirationTimer == nil (nothing was ever registered)
     TIdle     the timer has fired (or its function has returned without Reset): not running
     TArmed a  the timer is running and will call pruneExpired at instant a (or later: the
               lateness of the runtime is a hypothesis of the theorems, not part of the model)
   time.AfterFunc(time.Until(expiration), f) and Reset(time.Until(expiration)) evaluated at an
   instant n arm the timer for n + (expiration - n) = expiration.

   Abstracted: the table contents are an id (the manager never inspects them, except UID and
   Validity); the RWMutex (every method body is one critical section: operations are atomic steps).
   A run of the timer function is ONE step (Tick): a function the runtime has started and that
   still waits for the mutex is identified with one that starts later.  This is exact as long as
   no Reset happens in between, i.e. as long as Register does not take its Reset branch while the
   list is non-empty - which needs len(priceTables) = 1 with more than one list entry, possible
   only after a UID was registered twice (the harness stops recording a repeated-UID case there).
   Map iteration order plays no part (the map is only indexed, deleted from and measured). *)
From HostdBase Require Import Base.

(* expiringPriceTable *)
Record entry := { euid : N; eexp : N }.

Inductive timer := TNil | TIdle | TArmed (at_ : N).

Record state := {
  elist  : list entry;      (* expirationList, front first *)
  tables : list (N * (N * N)); (* priceTables: UID -> registeredPriceTable (contents id, expiry) *)
  tmr    : timer            (* expirationTimer *)
}.

(* newPriceTableManager *)
Definition init : state := {| elist := []; tables := []; tmr := TNil |}.

Inductive op :=
| Register (uid tid now validity : N)
| Tick (now : N)
| Get (uid now : N).

Inductive obs :=
| OState (l : list (N * N)) (m : list (N * (N * N)))
                                                (* expirationList as (uid, expiry); priceTables as (uid, (tid, expiry)) *)
| OGet (r : option N)                           (* Some tid | None = ErrNoPriceTable *)
| OBadTick                                      (* the timer function ran although the model's timer was not due *)
| OSumm (n : N) (front back : option (N * N)) (msize : N).
  (* only written by the harness, for a list or map of more than 32 entries: the list's length, first and last
     entry, and the size of the map (a recorded case stays linear in the number of registrations
     when tables do not expire) *)

(* Register, lines 92-112 *)
Definition register (s : state) (uid tid now validity : N) : state :=
  let expiration := (now + validity)%N in                       (* time.Now().Add(pt.Validity) *)
  let m := aset uid (tid, expiration) (tables s) in             (* pm.priceTables[pt.UID] = registeredPriceTable{pt, expiration} *)
  let l := elist s ++ [{| euid := uid; eexp := expiration |}] in (* PushBack *)
  let t := match tmr s with
           | TNil => TArmed expiration                          (* time.AfterFunc(time.Until(expiration), pm.pruneExpired) *)
           | t0 => if (N.of_nat (length m) =? 1)%N              (* else if len(pm.priceTables) == 1 *)
                   then TArmed expiration                       (* Reset(time.Until(expiration)) *)
                   else t0
           end in
  {| elist := l; tables := m; tmr := t |}.

(* pruneExpired, lines 55-77: the loop over the front of the list *)
Fixpoint prune (now : N) (l : list entry) (m : list (N * (N * N))) : list entry * list (N * (N * N)) * timer :=
  match l with
  | [] => ([], m, TIdle)                                        (* ele == nil: return; nothing re-arms the timer *)
  | e :: r =>
      if (now <? eexp e)%N                                      (* rem := time.Until(pt.expiry); rem > 0 *)
      then (l, m, TArmed (eexp e))                              (* Reset(rem); return *)
      else prune now r (aremove (euid e) m)                     (* Remove(ele); delete(pm.priceTables, pt.uid) *)
  end.

Definition show (s : state) : obs :=
  OState (map (fun e => (euid e, eexp e)) (elist s)) (tables s).

(* Get, lines 81-89, with the fix: `if !ok || !time.Now().Before(rpt.expiry) { ErrNoPriceTable }` *)
Definition get (s : state) (uid now : N) : option N :=
  match alookup uid (tables s) with
  | Some (t, e) => if (now <? e)%N then Some t else None
  | None => None
  end.

Definition step (s : state) (o : op) : state * obs :=
  match o with
  | Register uid tid now validity =>
      let s' := register s uid tid now validity in (s', show s')
  | Tick now =>
      match tmr s with
      | TArmed a =>
          if (a <=? now)%N then
            let '(l, m, t) := prune now (elist s) (tables s) in
            let s' := {| elist := l; tables := m; tmr := t |} in (s', show s')
          else (s, OBadTick)
      | _ => (s, OBadTick)
      end
  | Get uid now => (s, OGet (get s uid now))
  end.

(* The code before the fix, and the seeded change C12-mut7 on either. *)
Module Legacy.
  (* Get before the fix: `pt, ok := pm.priceTables[id]; if !ok { ErrNoPriceTable }` - no look at the expiry *)
  Definition get (s : state) (uid : N) : option N :=
    match alookup uid (tables s) with Some (t, _) => Some t | None => None end.
  Definition step (s : state) (o : op) : state * obs :=
    match o with
    | Get uid _ => (s, OGet (get s uid))
    | _ => step s o
    end.
End Legacy.

(* C12-mut7: Register resets the timer on every registration (`else { Reset }` instead of
   `else if len(pm.priceTables) == 1 { Reset }`) *)
Module Mut7.
  Definition register (s : state) (uid tid now validity : N) : state :=
    let expiration := (now + validity)%N in
    {| elist := elist s ++ [{| euid := uid; eexp := expiration |}];
       tables := aset uid (tid, expiration) (tables s);
       tmr := TArmed expiration |}.
  (* on the repaired code *)
  Definition step (s : state) (o : op) : state * obs :=
    match o with
    | Register uid tid now validity =>
        let s' := register s uid tid now validity in (s', show s')
    | _ => step s o
    end.
  (* on the code before the fix (the seeded change as it was written) *)
  Definition legacy_step (s : state) (o : op) : state * obs :=
    match o with
    | Register uid tid now validity =>
        let s' := register s uid tid now validity in (s', show s')
    | _ => Legacy.step s o
    end.
End Mut7.

(* ---- correspondence entry point ---- *)
Definition pair_eqb (a b : N * N) : bool := ((fst a =? fst b) && (snd a =? snd b))%N.

(* priceTables is a Go map: the harness lists it in some order; both sides have distinct keys *)
Definition map_eqb (m seen : list (N * (N * N))) : bool :=
  (length m =? length seen)%nat &&
  forallb (fun kv => option_eqb pair_eqb (alookup (fst kv) m) (Some (snd kv))) seen.

Definition obs_eqb (a b : obs) : bool :=
  match a, b with
  | OState l m, OState l' m' => list_eqb pair_eqb l l' && map_eqb m m'
  | OGet r, OGet r' => option_eqb N.eqb r r'
  | OBadTick, OBadTick => true
  | OState l m, OSumm n f b ms =>
      (N.of_nat (length l) =? n)%N && option_eqb pair_eqb (hd_error l) f &&
      option_eqb pair_eqb (hd_error (rev l)) b && (N.of_nat (length m) =? ms)%N
  | _, _ => false
  end.

Definition case := (N * list (op * obs))%type.
Definition check (cs : list case) := mismatches init step obs_eqb cs.
