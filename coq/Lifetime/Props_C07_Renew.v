(* C07 over a chain of contracts: renewals and clearing revisions inside the life of a contract
   (WP-L7).  Statements only; every proof is [exact lemma].
   Model: Lifetime/Renew.v over Lifetime/Life.v, Revision/Model.v (= rhp/contracts.go) and the
   decision part of the renewal handlers from Formation/Model.v ([renew2] = rhp/v2/rpc.go
   rpcRenewAndClearContract, [renew3] = rhp/v3/rpc.go handleRPCRenew; imported, not restated).

   A chain is the list of contracts a renter got by renewing (contract k renewed into k+1), each
   with its bookkeeping [hist]: first revision [h_init], the revising requests counter-signed
   for it [h_acc], the stored revision [h_cur], and — once it was renewed — the revision it was
   cleared from [h_pre].  A request [xreq] is a revising RPC ([XRev i q], q as in Life.v) or a
   renewal ([XRenew i r], RHP2 or RHP3) addressed to contract i of the chain — any contract, not
   only the latest.  [xlife st l = Ok (st', acc)]: the chain after the requests l and the accepted
   ones.  [xreq_typed]: the amounts of a renewal request are 128-bit (Go's Currency); nothing is
   assumed about revising requests, window heights, settings or prices.

   Modelled outside hostd: of the transaction pool's validation (chain.AddPoolTransactions, core's
   validateFileContracts) the one rule "valid and missed outputs of a file contract have the same
   sum" ([pool_rule]); all other ways the tail of the handler can fail are the request's oracle
   bit [rw_tail].  The host's own validators never look at the renter's outputs of the renewal
   contract: that the successor starts well formed rests on that rule
   (c07_chain_without_pool_rule_refuted). *)
From HostdBase Require Import Base.
From HostdRevision Require Import Model Proofs.
From HostdLifetime Require Import Life Renew.
Local Open Scope N_scope.

(* for every request list — any length, any mix of revising RPCs and renewals, addressed to any
   contract of the chain, accepted or refused — the host neither panics nor errors out *)
Theorem c07_chain_total : forall l c0, wf c0 -> inrange c0 -> Forall xreq_typed l ->
  exists st acc, xlife [fresh c0] l = Ok (st, acc).
Proof. exact chain_total. Qed.
Print Assumptions c07_chain_total.

(* at every point, for EVERY contract of the chain (of any length): its first revision is well
   formed and in range — for a successor this is proved from what the renewal handler accepted,
   not assumed; an all-accepted life run of the revising requests counter-signed for it leads from
   its first revision to the stored one (or, for a renewed contract, to the one it was cleared
   from), hence [life_ok] (Props_C07_Life.v: number grew with every signature, unlock
   hash/conditions, window, addresses and both sums unchanged, no renter payout above its first
   value, host valid payout up by the prices, host missed payout down by at most the collateral
   put at risk); a renewed contract holds a clearing revision of its last revision, at the
   maximum number; all contracts but the last one are renewed ones *)
Theorem c07_chain_safe : forall l c0 st acc, wf c0 -> inrange c0 -> Forall xreq_typed l ->
  xlife [fresh c0] l = Ok (st, acc) ->
  Forall contract_ok st /\
  exists pre last, st = pre ++ [last] /\ h_pre last = None /\ Forall (fun h => h_pre h <> None) pre.
Proof. exact chain_safe. Qed.
Print Assumptions c07_chain_safe.

(* every single counter-signature, at any point of any run, relative to the revision stored at
   that moment (which is well formed): a revising RPC satisfies the C07 conjunction
   [safe_revision]; a renewal is accepted only with a clearing revision that is [cleared] — file
   size 0, zero root, maximum number, missed = valid outputs, unlock hash/conditions, window,
   addresses and sum unchanged, renter payout not up, host payout up by at least the payment —
   what the host gains in it is exactly what the renter gives up; the successor's first revision
   is InitialRevision of the validated renewal contract (its outputs, number 1), well formed, with
   the predecessor's file size and root; on the host side of it, what the host loses when it
   misses the proof is burnt (void = valid - missed host payout), and the renter's payout is the
   same either way.  (The sizes of the successor's host payouts relative to the host's prices
   are C12's statement, c12_renew2_records / c12_renew3_records over the same [renew2]/[renew3], and
   c07_chain_renewal_figures below; the
   validators relate the successor to the predecessor's size, root and window end only — no
   value is carried over from the predecessor's payouts.) *)
Theorem c07_chain_every_signature_safe : forall l1 c0 st a1 x st',
  wf c0 -> inrange c0 -> Forall xreq_typed l1 -> xreq_typed x ->
  xlife [fresh c0] l1 = Ok (st, a1) -> xstep st x = Ok (st', true) -> step_safe st x st'.
Proof. exact chain_step_safe. Qed.
Print Assumptions c07_chain_every_signature_safe.

(* value is not created across a renewal: the two contracts are settled separately.  Whenever the
   decision part of a renewal handler accepts (heights not wrapping around 2^64): the usage it
   records for the predecessor is exactly the host's gain in the clearing revision (nothing to
   storage or collateral); the host's first valid payout in the successor is the collateral the
   host itself funds ([locked], the figure given to wallet.FundTransaction and RenewContract, at
   most MaxCollateral) plus the revenue the handler records for it (contract price + base storage
   revenue of the renewed data, paid by the renter); the risked collateral it records is at most
   what the host loses when it misses the proof *)
Theorem c07_chain_renewal_figures : forall cur r o, inrange cur -> renewal_typed r -> renewal_nowrap r ->
  renew_handler cur r = Ok o ->
  exists locked cu ru clr, o = FM.ORenew locked cu ru /\ renew_clearing cur r = Ok clr /\
    FM.u_rpc cu = vh clr - vh cur /\ FM.u_storage cu = 0 /\ FM.u_risked cu = 0 /\
    vh (renewal_rn r) = locked + FM.u_rpc ru + FM.u_storage ru /\
    locked <= renewal_maxcoll r /\
    FM.u_risked ru <= vh (renewal_rn r) - mh (renewal_rn r).
Proof. exact renewal_value. Qed.
Print Assumptions c07_chain_renewal_figures.

(* once a contract has been renewed nothing is ever counter-signed for it again and its stored
   (clearing) revision stays: split any run at any point — the later requests, of ANY shape, to
   any contract, leave all contracts but the then-last one as they are, and every accepted one
   addresses the then-last contract or a later one.  No assumption at all on the first revision
   or the requests (the lock's look at the stored number) *)
Theorem c07_chain_cleared_is_final : forall l1 l2 c0 st1 a1 st2 a2,
  xlife [fresh c0] l1 = Ok (st1, a1) -> xlife st1 l2 = Ok (st2, a2) ->
  sealed st1 /\
  (forall j, (S j < length st1)%nat -> nth_error st2 j = nth_error st1 j) /\
  Forall (fun x => (length st1 <= S (xreq_idx x))%nat) a2.
Proof. exact chain_final. Qed.
Print Assumptions c07_chain_cleared_is_final.

(* the validators agree with the lock (this is what c07_life_locked_is_final rests on): for uint64
   revision numbers no revising request passes on a stored revision at the maximum number *)
Theorem c07_chain_validators_refuse_cleared : forall cur q,
  rnum cur = max64 -> rnum (req_rev q) <= max64 -> decide cur q <> Ok true.
Proof. exact decide_max_refused. Qed.
Print Assumptions c07_chain_validators_refuse_cleared.

(* a refused request — revising RPC or renewal, refused by the lock, a validator, the pool or the
   store — changes nothing: the predecessor is revisable as before *)
Theorem c07_chain_refused_changes_nothing : forall st x st',
  xstep st x = Ok (st', false) -> st' = st.
Proof. exact xstep_refused. Qed.
Print Assumptions c07_chain_refused_changes_nothing.

(* ... so a run is the run of its accepted requests *)
Theorem c07_chain_refused_leave_no_trace : forall l st st' acc,
  xlife st l = Ok (st', acc) -> xlife st acc = Ok (st', acc).
Proof. exact xlife_accepted_only. Qed.
Print Assumptions c07_chain_refused_leave_no_trace.

(* refuted: the statement "the successor's first revision is well formed" for a handler that does
   not submit the renewal to the pool's validation.  ValidateClearingRevision, renewalBaseCosts and
   validateContractRenewal accept a renewal contract whose renter outputs differ (7000 valid, 6000
   missed); its first counter-signed revision then changes the missed sum by 1000.  The handlers
   as they are refuse it (AddPoolTransactions before RenewContract; directed harness cases) *)
Theorem c07_chain_without_pool_rule_refuted : exists cur r clr ini q,
  wf cur /\ inrange cur /\ renewal_typed (rw_req r) /\
  renew_decide_nopool cur r = Ok (Some (clr, ini)) /\
  sumv (rvalid ini) <> sumv (rmissed ini) /\
  decide ini q = Ok true /\ sumv (rmissed (req_rev q)) <> sumv (rmissed ini) /\
  renew_decide cur r = Ok None.
Proof. exact nopool_refuted. Qed.
Print Assumptions c07_chain_without_pool_rule_refuted.

(* ten requests over a chain that grows to three contracts (RHP2 renewal, then RHP3 renewal): five
   accepted, a renewal the pool refuses, requests to both predecessors and to a contract that does
   not exist refused *)
Example c07_chain_nonvacuous : exists st acc, xlife [fresh xc0] xl_ex = Ok (st, acc) /\
  map (fun h => rnum (h_cur h)) st = [max64; max64; 2] /\
  map (fun h => length (h_acc h)) st = [1; 1; 1]%nat /\
  acc = [XRev 0 (QPayment xrv1 10); XRenew 0 xrenew_a; XRev 1 (QPayment xrv2 5); XRenew 1 xrenew_b; XRev 2 (QPayment xrv3 7)] /\
  wf xc0 /\ inrange xc0 /\ Forall xreq_typed xl_ex.
Proof. exact xchain_ex. Qed.
