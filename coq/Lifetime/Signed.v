(* Lifetime/Signed.v — which host signatures the renter holds (WP-Q7).

   Life.v and Conc.v speak about the revision the host has STORED.  What binds the host on chain,
   however, is every revision that carries its signature and that the renter has got hold of.  This
   file extends the session model of Conc.v by the three things that decide which signatures leave
   the host:

       Reply i      the host's signature for the revision it counter-signed reaches the renter
                    (RPCWriteResponse / the last RPCReadResponse / RPCSectorRootsResponse /
                    PaymentResponse / RPCFinalizeProgramResponse)
       Fault i      persisting fails (ContractUpdater.Commit / AccountManager.Credit return an
                    error: disk full, I/O error): the handler returns the error, nothing is stored
       Crash        the process dies: every session is gone, the state is the stored revision
       Tell i       the host hands out the stored revision with its signatures (RPCLock response,
                    RPCLatestRevision, the Revision instruction)

   One session i now goes through
       Lock, Read, [Tell], Decide q, ( Persist, Reply | Fault ), ..., Unlock
   and [early : req -> bool] says, per kind of request (= per handler), whether the handler writes
   its reply BEFORE it persists.  The code as it is replies after persisting in every handler
   ([code_order]); the seeded change C07-mut8 moves the reply of rpcWrite in front of
   contractUpdater.Commit ([mut8_order]).

   Main result ([held_in_chain], [held_ordered]): in every run in which every request the host
   counter-signed belongs to a handler that replies after persisting, every host-signed revision
   the renter holds is the initial revision or the revision of a request accepted in the life run
   [life c0 (slog st)]; any two of them are connected by a life run in which every request is
   accepted (hence [life_ok]: the later one has the higher number, no higher renter payout, ...),
   two with the same number are the same revision, and the stored revision is reached from each.

   The second part models what programExecutor hands to ValidateProgramRevision when a program is
   finalised (rhp/v3/execute.go, commit): the sum of the costs of the executed instructions
   (payForExecution: pe.cost = pe.cost.Add(cost), records of coq/MDM/Model.v), of which the
   Storage and Collateral components — not Total() — bound the burn. *)
From HostdBase Require Import Base.
From HostdRevision Require Import Model Proofs.
From HostdLifetime Require Import Life Conc.
From HostdMDM Require Model.
From Coq Require Import Lia ZifyBool ZifyN ZifyNat Arith.
Local Open Scope N_scope.

Module MD := HostdMDM.Model.

(** * Sessions with replies, faults and crashes *)
Inductive tst :=
| TIdle
| TLocked
| TGot (cur : rev)
| TSigned (cur : rev) (q : req) (told : bool) (* counter-signed, not persisted; told: the reply is out *)
| TStored (q : req).                          (* persisted, the reply not yet written *)

Inductive slabel :=
| SLock (i : nat) | SRead (i : nat) | STell (i : nat) | SDecide (i : nat) (q : req)
| SReply (i : nat) | SPersist (i : nat) | SFault (i : nat) | SUnlock (i : nat) | SCrash.

Record sstate := mkSS {
  sstored : rev;            (* the revision in the store *)
  sholder : option nat;     (* who holds the contract lock *)
  ssess   : nat -> tst;
  ssigned : list req;       (* every request the host counter-signed, in signing order *)
  slog    : list req;       (* decided requests in commit order (refused: at the decision, accepted: when persisted) *)
  sheld   : list rev        (* the host-signed revisions the renter has received, in order *)
}.

Definition sinit (c0 : rev) : sstate := mkSS c0 None (fun _ => TIdle) [] [] [].

Definition tupd (f : nat -> tst) (i : nat) (s : tst) : nat -> tst :=
  fun j => if Nat.eqb j i then s else f j.

Definition sholds (st : sstate) (i : nat) : bool :=
  match sholder st with Some j => Nat.eqb j i | None => false end.

Definition sstep (early : req -> bool) (st : sstate) (l : slabel) : option sstate :=
  match l with
  | SLock i =>
      match sholder st, ssess st i with
      | None, TIdle => Some (mkSS (sstored st) (Some i) (tupd (ssess st) i TLocked) (ssigned st) (slog st) (sheld st))
      | _, _ => None
      end
  | SRead i =>
      match ssess st i with
      | TLocked => if sholds st i
                   then Some (mkSS (sstored st) (sholder st) (tupd (ssess st) i (TGot (sstored st))) (ssigned st) (slog st) (sheld st))
                   else None
      | _ => None
      end
  | STell i =>
      match ssess st i with
      | TGot cur => if sholds st i
                    then Some (mkSS (sstored st) (sholder st) (ssess st) (ssigned st) (slog st) (sheld st ++ [cur]))
                    else None
      | _ => None
      end
  | SDecide i q =>
      match ssess st i with
      | TGot cur =>
          if sholds st i then
            match decide cur q with
            | Ok true => Some (mkSS (sstored st) (sholder st) (tupd (ssess st) i (TSigned cur q false)) (ssigned st ++ [q]) (slog st) (sheld st))
            | Ok false => Some (mkSS (sstored st) (sholder st) (ssess st) (ssigned st) (slog st ++ [q]) (sheld st))
            | _ => None
            end
          else None
      | _ => None
      end
  | SReply i =>
      match ssess st i with
      | TSigned cur q false =>
          (* only a handler that replies before it persists *)
          if sholds st i && early q
          then Some (mkSS (sstored st) (sholder st) (tupd (ssess st) i (TSigned cur q true)) (ssigned st) (slog st) (sheld st ++ [req_rev q]))
          else None
      | TStored q =>
          if sholds st i
          then Some (mkSS (sstored st) (sholder st) (tupd (ssess st) i (TGot (req_rev q))) (ssigned st) (slog st) (sheld st ++ [req_rev q]))
          else None
      | _ => None
      end
  | SPersist i =>
      match ssess st i with
      | TSigned cur q told =>
          if sholds st i
          then Some (mkSS (req_rev q) (sholder st)
                          (tupd (ssess st) i (if told then TGot (req_rev q) else TStored q))
                          (ssigned st) (slog st ++ [q]) (sheld st))
          else None
      | _ => None
      end
  | SFault i =>
      match ssess st i with
      | TSigned cur q told =>
          (* the persisting call returned an error: nothing stored, the handler gives up the request *)
          if sholds st i
          then Some (mkSS (sstored st) (sholder st) (tupd (ssess st) i (TGot cur)) (ssigned st) (slog st) (sheld st))
          else None
      | _ => None
      end
  | SUnlock i =>
      if sholds st i
      then Some (mkSS (sstored st) None (tupd (ssess st) i TIdle) (ssigned st) (slog st) (sheld st))
      else None
  | SCrash =>
      (* all sessions die, the lock table is empty after the restart; what is stored and what the
         renter holds stay *)
      Some (mkSS (sstored st) None (fun _ => TIdle) (ssigned st) (slog st) (sheld st))
  end.

Fixpoint srun (early : req -> bool) (st : sstate) (tr : list slabel) : option sstate :=
  match tr with
  | [] => Some st
  | l :: t => match sstep early st l with Some st' => srun early st' t | None => None end
  end.

(* the code as it is: every handler persists first (rhp/v2/rpc.go rpcWrite / rpcRead /
   rpcSectorRoots: Commit, then writeResponse; rhp/v3/execute.go commit: updater.Commit, then
   RPCFinalizeProgramResponse; rhp/v3/payments.go: Credit, then PaymentResponse) *)
Definition code_order (q : req) : bool :=
  match q with QRevision _ _ _ => false | QProgram _ _ _ => false | QPayment _ _ => false end.
(* the seeded change C07-mut8: rpcWrite sends its signature before Commit *)
Definition mut8_order (q : req) : bool :=
  match q with QRevision _ _ _ => true | QProgram _ _ _ => false | QPayment _ _ => false end.

(** * The invariant (any reply order) *)
Definition tsess_ok (early : req -> bool) (st : sstate) : Prop :=
  forall j, match ssess st j with
            | TIdle => True
            | TLocked => sholder st = Some j
            | TGot cur => sholder st = Some j /\ cur = sstored st
            | TSigned cur q told => sholder st = Some j /\ cur = sstored st /\ decide cur q = Ok true /\ In q (ssigned st)
            | TStored q => sholder st = Some j /\ req_rev q = sstored st
            end.

(* a held revision is in the chain of stored revisions, or it is the revision of a counter-signed
   request of a handler that replies early *)
Definition held_ok (early : req -> bool) (c0 : rev) (acc : list req) (st : sstate) : Prop :=
  forall r, In r (sheld st) ->
    In r (c0 :: map req_rev acc) \/ exists q, In q (ssigned st) /\ early q = true /\ r = req_rev q.

Definition sinv (early : req -> bool) (c0 : rev) (st : sstate) : Prop :=
  exists acc, life c0 (slog st) = Ok (sstored st, acc) /\ tsess_ok early st /\ held_ok early c0 acc st.

Lemma tupd_same : forall f i s, tupd f i s i = s.
Proof. intros. unfold tupd. rewrite Nat.eqb_refl. reflexivity. Qed.
Lemma tupd_other : forall f i s j, j <> i -> tupd f i s j = f j.
Proof. intros f i s j H. unfold tupd. destruct (Nat.eqb j i) eqn:E; [apply Nat.eqb_eq in E; congruence|reflexivity]. Qed.

Lemma sholds_true : forall st i, sholds st i = true -> sholder st = Some i.
Proof. intros st i H. unfold sholds in H. destruct (sholder st) as [j|]; [apply Nat.eqb_eq in H; subst; reflexivity|discriminate]. Qed.

Lemma tothers_idle : forall early st i j, tsess_ok early st -> sholder st = Some i -> j <> i -> ssess st j = TIdle.
Proof.
  intros early st i j S H N. specialize (S j). destruct (ssess st j) as [| |cur|cur q told|q]; try reflexivity.
  - congruence.
  - destruct S as [S _]. congruence.
  - destruct S as [S _]. congruence.
  - destruct S as [S _]. congruence.
Qed.

Lemma life_snoc_refused : forall c0 l c acc q, life c0 l = Ok (c, acc) -> decide c q = Ok false ->
  life c0 (l ++ [q]) = Ok (c, acc).
Proof. intros c0 l c acc q L D. rewrite (life_app _ [q] _ _ _ L). cbn [life]. rewrite D. rewrite app_nil_r. reflexivity. Qed.

Lemma life_snoc_accepted : forall c0 l c acc q, life c0 l = Ok (c, acc) -> decide c q = Ok true ->
  life c0 (l ++ [q]) = Ok (req_rev q, acc ++ [q]).
Proof. intros c0 l c acc q L D. rewrite (life_app _ [q] _ _ _ L). cbn [life]. rewrite D. reflexivity. Qed.

Lemma last_in_cons : forall (A : Type) (l : list A) (d : A), In (last l d) (d :: l).
Proof.
  induction l as [|x l IH]; intros d; [left; reflexivity|].
  rewrite last_cons_default. right. apply IH.
Qed.

(* the stored revision is in the chain *)
Lemma stored_in_chain : forall c0 l c acc, life c0 l = Ok (c, acc) -> In c (c0 :: map req_rev acc).
Proof. intros c0 l c acc L. rewrite (life_last_accepted _ _ _ _ L). apply last_in_cons. Qed.

Ltac sess_cases early st i S M :=
  let j := fresh "j" in let N := fresh "N" in
  intros j; cbn; destruct (Nat.eq_dec j i) as [->|N];
  [rewrite tupd_same|rewrite tupd_other by exact N; rewrite (tothers_idle early st i j S M N); exact I].

Lemma sstep_inv : forall early c0 st l st', sinv early c0 st -> sstep early st l = Some st' -> sinv early c0 st'.
Proof.
  intros early c0 st l st' (acc & L & S & Hd) H. destruct l as [i|i|i|i q|i|i|i|i|]; cbn [sstep] in H.
  - (* Lock *)
    destruct (sholder st) eqn:Hh; try discriminate. destruct (ssess st i) eqn:Si; try discriminate.
    injection H as <-. exists acc. split; [exact L|]. split; [|exact Hd].
    intros j. cbn. destruct (Nat.eq_dec j i) as [->|N].
    + rewrite tupd_same. reflexivity.
    + rewrite tupd_other by exact N. specialize (S j).
      destruct (ssess st j); try exact I; try (destruct S; congruence); congruence.
  - (* Read *)
    destruct (ssess st i) eqn:Si; try discriminate. destruct (sholds st i) eqn:M; try discriminate.
    injection H as <-. apply sholds_true in M. exists acc. split; [exact L|]. split; [|exact Hd].
    sess_cases early st i S M. auto.
  - (* Tell *)
    destruct (ssess st i) as [| |cur| |] eqn:Si; try discriminate. destruct (sholds st i) eqn:M; try discriminate.
    injection H as <-. apply sholds_true in M. exists acc. split; [exact L|]. split; [exact S|].
    pose proof (S i) as Sii. rewrite Si in Sii. destruct Sii as [_ Ec]. subst cur.
    intros r Hr. cbn in Hr. apply in_app_or in Hr. destruct Hr as [Hr|[<-|[]]].
    + apply Hd. exact Hr.
    + left. eapply stored_in_chain; eauto.
  - (* Decide *)
    destruct (ssess st i) as [| |cur| |] eqn:Si; try discriminate. destruct (sholds st i) eqn:M; try discriminate.
    apply sholds_true in M. pose proof (S i) as Sii. rewrite Si in Sii. destruct Sii as [_ Ec]. subst cur.
    destruct (decide (sstored st) q) as [[|]|e|] eqn:D; try discriminate; injection H as <-.
    + exists acc. split; [exact L|]. split.
      * sess_cases early st i S M. repeat split; auto. apply in_or_app. right. left. reflexivity.
      * intros r Hr. cbn in Hr. destruct (Hd r Hr) as [Hc|(q' & Hq & He & ->)]; [left; exact Hc|].
        right. exists q'. cbn. split; [apply in_or_app; left; exact Hq|auto].
    + exists acc. split; [cbn; eapply life_snoc_refused; eauto|]. split; [exact S|exact Hd].
  - (* Reply *)
    destruct (ssess st i) as [| | |cur q told|q] eqn:Si; try discriminate.
    + destruct told; try discriminate.
      destruct (sholds st i) eqn:M; try discriminate. destruct (early q) eqn:E; try discriminate.
      cbn in H. injection H as <-. apply sholds_true in M.
      pose proof (S i) as Sii. rewrite Si in Sii. destruct Sii as (_ & Ec & D & Hs). subst cur.
      exists acc. split; [exact L|]. split.
      * sess_cases early st i S M. auto.
      * intros r Hr. cbn in Hr. apply in_app_or in Hr. destruct Hr as [Hr|[<-|[]]].
        -- destruct (Hd r Hr) as [Hc|(q' & Hq & He & ->)]; [left; exact Hc|]. right. exists q'. auto.
        -- right. exists q. cbn. auto.
    + destruct (sholds st i) eqn:M; try discriminate. injection H as <-. apply sholds_true in M.
      pose proof (S i) as Sii. rewrite Si in Sii. destruct Sii as (_ & Ec).
      exists acc. split; [exact L|]. split.
      * sess_cases early st i S M. auto.
      * intros r Hr. cbn in Hr. apply in_app_or in Hr. destruct Hr as [Hr|[<-|[]]].
        -- apply Hd. exact Hr.
        -- left. rewrite Ec. eapply stored_in_chain; eauto.
  - (* Persist *)
    destruct (ssess st i) as [| | |cur q told|] eqn:Si; try discriminate. destruct (sholds st i) eqn:M; try discriminate.
    injection H as <-. apply sholds_true in M. pose proof (S i) as Sii. rewrite Si in Sii. destruct Sii as (_ & Ec & D & Hs). subst cur.
    exists (acc ++ [q]). split; [cbn; eapply life_snoc_accepted; eauto|]. split.
    + sess_cases early st i S M. destruct told; auto.
    + intros r Hr. cbn in Hr. destruct (Hd r Hr) as [Hc|(q' & Hq & He & ->)].
      * left. rewrite map_app. destruct Hc as [<-|Hc]; [left; reflexivity|right; apply in_or_app; left; exact Hc].
      * right. exists q'. auto.
  - (* Fault *)
    destruct (ssess st i) as [| | |cur q told|] eqn:Si; try discriminate. destruct (sholds st i) eqn:M; try discriminate.
    injection H as <-. apply sholds_true in M. pose proof (S i) as Sii. rewrite Si in Sii. destruct Sii as (_ & Ec & D & Hs).
    exists acc. split; [exact L|]. split; [|exact Hd].
    sess_cases early st i S M. auto.
  - (* Unlock *)
    destruct (sholds st i) eqn:M; try discriminate. injection H as <-. apply sholds_true in M.
    exists acc. split; [exact L|]. split; [|exact Hd].
    intros j. cbn. destruct (Nat.eq_dec j i) as [->|N].
    + rewrite tupd_same. exact I.
    + rewrite tupd_other by exact N. rewrite (tothers_idle early st i j S M N). exact I.
  - (* Crash *)
    injection H as <-. exists acc. split; [exact L|]. split; [|exact Hd]. intros j. exact I.
Qed.

Lemma sinit_inv : forall early c0, sinv early c0 (sinit c0).
Proof.
  intros early c0. exists []. split; [reflexivity|]. split; [intros j; exact I|]. intros r [].
Qed.

Lemma srun_inv : forall early c0 tr st st', sinv early c0 st -> srun early st tr = Some st' -> sinv early c0 st'.
Proof.
  intros early c0 tr. induction tr as [|l t IH]; intros st st' I H; cbn [srun] in H.
  - injection H as <-. exact I.
  - destruct (sstep early st l) as [st1|] eqn:E; try discriminate.
    eapply IH; [eapply sstep_inv; eauto|exact H].
Qed.

(** * The chain of stored revisions is ordered *)
(* every request of the list is accepted, each against the revision of the one before *)
Fixpoint all_acc (cur : rev) (l : list req) : Prop :=
  match l with [] => True | q :: t => decide cur q = Ok true /\ all_acc (req_rev q) t end.

Lemma life_acc_all : forall l c0 c acc, life c0 l = Ok (c, acc) -> all_acc c0 acc.
Proof.
  induction l as [|q t IH]; intros c0 c acc H; cbn [life] in H.
  - injection H as <- <-. exact I.
  - destruct (decide c0 q) as [[|]|e|] eqn:D; try discriminate.
    + destruct (life (req_rev q) t) as [[r a]| |] eqn:L; try discriminate. injection H as <- <-.
      split; [exact D|]. eapply IH; eauto.
    + eapply IH; eauto.
Qed.

Lemma all_acc_life : forall a c0, all_acc c0 a -> life c0 a = Ok (last (map req_rev a) c0, a).
Proof.
  induction a as [|q t IH]; intros c0 H; [reflexivity|].
  destruct H as [D H]. cbn [life map]. rewrite D. rewrite (IH _ H). rewrite last_cons_default. reflexivity.
Qed.

Lemma last_app_default : forall (A : Type) (l1 l2 : list A) (d : A), last (l1 ++ l2) d = last l2 (last l1 d).
Proof.
  induction l1 as [|x l1 IH]; intros l2 d; [reflexivity|].
  rewrite <- app_comm_cons. rewrite !last_cons_default. apply IH.
Qed.

Lemma all_acc_app : forall a1 a2 c0, all_acc c0 (a1 ++ a2) -> all_acc c0 a1 /\ all_acc (last (map req_rev a1) c0) a2.
Proof.
  induction a1 as [|q t IH]; intros a2 c0 H; [split; [exact I|exact H]|].
  destruct H as [D H]. destruct (IH _ _ H) as [H1 H2]. split; [split; assumption|].
  cbn [map]. rewrite last_cons_default. exact H2.
Qed.

(* r is the revision stored after a prefix of the accepted requests *)
Definition at_prefix (c0 : rev) (acc : list req) (r : rev) : Prop :=
  exists a1 a2, acc = a1 ++ a2 /\ r = last (map req_rev a1) c0.

Lemma in_chain_prefix : forall c0 acc r, In r (c0 :: map req_rev acc) -> at_prefix c0 acc r.
Proof.
  intros c0 acc r [<-|H].
  - exists [], acc. split; reflexivity.
  - apply in_map_iff in H. destruct H as (q & <- & Hq). apply in_split in Hq. destruct Hq as (l1 & l2 & ->).
    exists (l1 ++ [q]), l2. split; [rewrite <- app_assoc; reflexivity|].
    rewrite map_app. cbn [map]. rewrite last_last. reflexivity.
Qed.

(* a life run in which every request is accepted connects r1 to r2 *)
Definition reaches (r1 r2 : rev) : Prop := exists a, life r1 a = Ok (r2, a) /\ life_ok r1 r2 a.

Lemma prefix_wf : forall c0 acc a1 a2, wf c0 -> inrange c0 -> all_acc c0 acc -> acc = a1 ++ a2 ->
  wf (last (map req_rev a1) c0) /\ inrange (last (map req_rev a1) c0) /\ all_acc (last (map req_rev a1) c0) a2.
Proof.
  intros c0 acc a1 a2 W R A ->. destruct (all_acc_app _ _ _ A) as [A1 A2].
  pose proof (life_sound _ _ _ _ W R (all_acc_life _ _ A1)) as LO.
  split; [apply (lo_wf _ _ _ LO)|]. split; [apply (lo_range _ _ _ LO)|exact A2].
Qed.

Lemma prefix_ordered : forall c0 acc r1 r2, wf c0 -> inrange c0 -> all_acc c0 acc ->
  at_prefix c0 acc r1 -> at_prefix c0 acc r2 -> reaches r1 r2 \/ reaches r2 r1.
Proof.
  assert (G : forall c0 acc a1 a2 l b2, wf c0 -> inrange c0 -> all_acc c0 acc ->
             acc = a1 ++ a2 -> acc = (a1 ++ l) ++ b2 ->
             reaches (last (map req_rev a1) c0) (last (map req_rev (a1 ++ l)) c0)).
  { intros c0 acc a1 a2 l b2 W R A E1 E2.
    destruct (prefix_wf _ _ _ _ W R A E1) as (W1 & R1 & _).
    rewrite E2 in A. destruct (all_acc_app _ _ _ A) as [A1 _].
    destruct (all_acc_app _ _ _ A1) as [_ Al].
    exists l. rewrite map_app, last_app_default.
    pose proof (all_acc_life _ _ Al) as Ll. split; [exact Ll|]. eapply life_sound; eauto. }
  intros c0 acc r1 r2 W R A (a1 & a2 & E1 & ->) (b1 & b2 & E2 & ->).
  assert (E : a1 ++ a2 = b1 ++ b2) by congruence.
  apply app_eq_app in E. destruct E as [l [[Ea Eb]|[Ea Eb]]].
  - right. subst a1. eapply G; eauto.
  - left. subst b1. eapply G; eauto.
Qed.

Lemma reaches_same_number : forall r1 r2, reaches r1 r2 -> rnum r1 = rnum r2 -> r1 = r2.
Proof.
  intros r1 r2 (a & L & LO) E. pose proof (lo_num _ _ _ LO) as Hn.
  destruct a as [|q t]; [cbn in L; injection L as <-; reflexivity|]. cbn [length] in Hn. lia.
Qed.

Lemma prefix_reaches_end : forall c0 acc r, wf c0 -> inrange c0 -> all_acc c0 acc ->
  at_prefix c0 acc r -> reaches r (last (map req_rev acc) c0).
Proof.
  intros c0 acc r W R A (a1 & a2 & E & ->).
  destruct (prefix_wf _ _ _ _ W R A E) as (W1 & R1 & A2). subst acc.
  exists a2. rewrite map_app, last_app_default.
  pose proof (all_acc_life _ _ A2) as L2. split; [exact L2|]. eapply life_sound; eauto.
Qed.

(** * Main results *)
(* every request the host counter-signed in this run belongs to a handler that replies after it
   has persisted *)
Definition replies_after_persist (early : req -> bool) (st : sstate) : Prop :=
  forall q, In q (ssigned st) -> early q = false.

Lemma held_in_chain : forall early c0 tr st,
  srun early (sinit c0) tr = Some st -> replies_after_persist early st ->
  exists acc, life c0 (slog st) = Ok (sstored st, acc) /\
              forall r, In r (sheld st) -> In r (c0 :: map req_rev acc).
Proof.
  intros early c0 tr st H RA.
  destruct (srun_inv early c0 tr _ _ (sinit_inv early c0) H) as (acc & L & _ & Hd).
  exists acc. split; [exact L|]. intros r Hr. destruct (Hd r Hr) as [Hc|(q & Hq & He & _)]; [exact Hc|].
  rewrite (RA q Hq) in He. discriminate.
Qed.

Lemma held_ordered : forall early c0 tr st, wf c0 -> inrange c0 ->
  srun early (sinit c0) tr = Some st -> replies_after_persist early st ->
  exists acc, life c0 (slog st) = Ok (sstored st, acc) /\
    (* every signature the renter holds is for the initial revision or for a revision that was stored *)
    (forall r, In r (sheld st) -> In r (c0 :: map req_rev acc)) /\
    (* any two are connected by accepted requests, in one direction or the other *)
    (forall r1 r2, In r1 (sheld st) -> In r2 (sheld st) -> reaches r1 r2 \/ reaches r2 r1) /\
    (* no two different revisions with the same number *)
    (forall r1 r2, In r1 (sheld st) -> In r2 (sheld st) -> rnum r1 = rnum r2 -> r1 = r2) /\
    (* what is stored is reached from everything the renter holds *)
    (forall r, In r (sheld st) -> reaches r (sstored st)).
Proof.
  intros early c0 tr st W R H RA.
  destruct (held_in_chain early c0 tr st H RA) as (acc & L & Hc).
  pose proof (life_acc_all _ _ _ _ L) as A.
  exists acc. split; [exact L|]. split; [exact Hc|].
  assert (O : forall r1 r2, In r1 (sheld st) -> In r2 (sheld st) -> reaches r1 r2 \/ reaches r2 r1).
  { intros r1 r2 H1 H2. eapply prefix_ordered; eauto; apply in_chain_prefix; auto. }
  split; [exact O|]. split.
  - intros r1 r2 H1 H2 E. destruct (O r1 r2 H1 H2) as [X|X].
    + apply reaches_same_number; assumption.
    + symmetry. apply reaches_same_number; [assumption|congruence].
  - intros r Hr. rewrite (life_last_accepted _ _ _ _ L).
    apply (prefix_reaches_end c0 acc r W R A). apply in_chain_prefix. auto.
Qed.

(* for the code as it is the side condition holds in every run *)
Lemma code_order_replies_after_persist : forall st, replies_after_persist code_order st.
Proof. intros st q _. destruct q; reflexivity. Qed.

Lemma code_held_ordered : forall c0 tr st, wf c0 -> inrange c0 ->
  srun code_order (sinit c0) tr = Some st ->
  exists acc, life c0 (slog st) = Ok (sstored st, acc) /\
    (forall r, In r (sheld st) -> In r (c0 :: map req_rev acc)) /\
    (forall r1 r2, In r1 (sheld st) -> In r2 (sheld st) -> reaches r1 r2 \/ reaches r2 r1) /\
    (forall r1 r2, In r1 (sheld st) -> In r2 (sheld st) -> rnum r1 = rnum r2 -> r1 = r2) /\
    (forall r, In r (sheld st) -> reaches r (sstored st)).
Proof. intros c0 tr st W R H. eapply held_ordered; eauto. apply code_order_replies_after_persist. Qed.

(* faults and crashes leave no trace: the run is still a life run of the committed requests *)
Lemma signed_serializable : forall early c0 tr st,
  srun early (sinit c0) tr = Some st -> exists acc, life c0 (slog st) = Ok (sstored st, acc).
Proof.
  intros early c0 tr st H. destruct (srun_inv early c0 tr _ _ (sinit_inv early c0) H) as (acc & L & _).
  eauto.
Qed.

(** * Reply before persist: refuted *)
(* the seeded schedule (C07-mut8): write A on revision 5 pays 50, the host signs and replies,
   persisting fails; the renter reconnects (the host reports revision 5) and has revision 6 signed
   again, paying 10.  The renter holds two host signatures for number 6; the first one is for a
   revision the host never stored, and it pays the host 40 more than the one it has. *)
Definition m8_c0 : rev := R 1 0 4194304 1 100 200 [O 1 1000; O 2 500] [O 1 1000; O 2 400; O 0 100] 1 5.
Definition m8_qa : req := QRevision (R 1 0 4194304 1 100 200 [O 1 950; O 2 550] [O 1 950; O 2 395; O 0 155] 1 6) 50 5.
Definition m8_qb : req := QRevision (R 1 0 4194304 1 100 200 [O 1 990; O 2 510] [O 1 990; O 2 395; O 0 115] 1 6) 10 5.
Definition m8_schedule : list slabel :=
  [SLock 0; SRead 0; STell 0; SDecide 0 m8_qa; SReply 0; SFault 0; SUnlock 0;
   SLock 1; SRead 1; STell 1; SDecide 1 m8_qb; SReply 1; SPersist 1; SUnlock 1].
(* the same with the process killed instead of the store failing *)
Definition m8_schedule_crash : list slabel :=
  [SLock 0; SRead 0; SDecide 0 m8_qa; SReply 0; SCrash;
   SLock 1; SRead 1; SDecide 1 m8_qb; SReply 1; SPersist 1; SUnlock 1].

Definition held_view (o : option sstate) : option (N * N * list (N * N)) :=
  match o with
  | Some st => Some (rnum (sstored st), vh (sstored st), map (fun r => (rnum r, vh r)) (sheld st))
  | None => None
  end.

Lemma early_reply_refuted :
  wf m8_c0 /\ inrange m8_c0 /\
  (* the early-reply system performs the schedule: stored 6 paying the host 510; held: 5, 6 (550), 6 (510) *)
  held_view (srun mut8_order (sinit m8_c0) m8_schedule) = Some (6, 510, [(5, 500); (6, 550); (5, 500); (6, 510)]) /\
  (* two different held revisions with the same number, one of them never stored *)
  (forall st, srun mut8_order (sinit m8_c0) m8_schedule = Some st ->
     In (req_rev m8_qa) (sheld st) /\ In (req_rev m8_qb) (sheld st) /\
     rnum (req_rev m8_qa) = rnum (req_rev m8_qb) /\ req_rev m8_qa <> req_rev m8_qb /\
     forall acc, life m8_c0 (slog st) = Ok (sstored st, acc) -> ~ In (req_rev m8_qa) (m8_c0 :: map req_rev acc)) /\
  held_view (srun mut8_order (sinit m8_c0) m8_schedule_crash) = Some (6, 510, [(6, 550); (6, 510)]) /\
  (* the code as it is cannot perform either schedule: no reply before persisting *)
  srun code_order (sinit m8_c0) m8_schedule = None /\
  srun code_order (sinit m8_c0) m8_schedule_crash = None.
Proof.
  split; [repeat split; repeat constructor|].
  split; [repeat split; repeat constructor|].
  split; [vm_compute; reflexivity|].
  split.
  - intros st H. vm_compute in H. injection H as <-.
    split; [cbn; auto|]. split; [cbn; auto|]. split; [reflexivity|]. split; [discriminate|].
    intros acc L. vm_compute in L. injection L as <-. cbn. intros [E|[E|[]]]; discriminate E.
  - split; [vm_compute; reflexivity|]. split; vm_compute; reflexivity.
Qed.

(** * Non-vacuity: a run of the code with a fault, a crash and four held signatures *)
Definition sg_q1 : req := QPayment (R 1 0 4194304 1 100 200 [O 1 990; O 2 510] [O 1 990; O 2 410; O 0 100] 1 6) 10.
Definition sg_q2 : req := QRevision (R 1 0 4194304 1 100 200 [O 1 970; O 2 530] [O 1 970; O 2 405; O 0 125] 1 7) 20 5.
Definition sg_q2' : req := QRevision (R 1 0 4194304 1 100 200 [O 1 975; O 2 525] [O 1 975; O 2 405; O 0 120] 1 7) 15 5.
Definition sg_q3 : req := QProgram (R 1 0 8388608 2 100 200 [O 1 975; O 2 525] [O 1 975; O 2 397; O 0 128] 1 8) 3 5.
Definition sg_schedule : list slabel :=
  [SLock 0; SRead 0; STell 0; SDecide 0 sg_q1; SPersist 0; SReply 0;
   SDecide 0 sg_q2; SFault 0; SUnlock 0;                      (* persisting q2 fails: no reply *)
   SLock 1; SRead 1; SDecide 1 sg_q2'; SPersist 1; SCrash;    (* persisted, killed before the reply *)
   SLock 2; SRead 2; STell 2; SDecide 2 sg_q3; SPersist 2; SReply 2; SUnlock 2].

Lemma signed_ex :
  held_view (srun code_order (sinit m8_c0) sg_schedule) = Some (8, 525, [(5, 500); (6, 510); (7, 525); (8, 525)]) /\
  wf m8_c0 /\ inrange m8_c0.
Proof. split; [vm_compute; reflexivity|]. split; repeat split; repeat constructor. Qed.

(** * Finalisation: the figures the executor hands to ValidateProgramRevision *)
(* payForExecution: pe.cost = pe.cost.Add(cost) for every executed instruction, from the zero cost
   (Currency.Add panics on overflow) *)
Fixpoint exec_cost (acc : MD.cost) (costs : list MD.cost) : res MD.cost :=
  match costs with
  | [] => Ok acc
  | c :: t => do a <- MD.cost_add acc c; exec_cost a t
  end.

Definition sum_storage (costs : list MD.cost) : N := fold_right (fun c a => MD.cStorage c + a) 0 costs.
Definition sum_collateral (costs : list MD.cost) : N := fold_right (fun c a => MD.cCollateral c + a) 0 costs.
(* the whole price of the instructions: what ResourceCost.Total() returns as cost *)
Definition sum_price (costs : list MD.cost) : N :=
  fold_right (fun c a => MD.cBase c + MD.cStorage c + MD.cEgress c + MD.cIngress c + a) 0 costs.

(* ResourceCost.Total(): cost = Base.Add(Storage).Add(Egress).Add(Ingress), collateral = Collateral *)
Definition cost_total (c : MD.cost) : res (N * N) :=
  do a <- cadd (MD.cBase c) (MD.cStorage c);
  do b <- cadd a (MD.cEgress c);
  do d <- cadd b (MD.cIngress c);
  Ok (d, MD.cCollateral c).

(* programExecutor.commit with pe.finalize: Revise with the renter's number and values, then
   ValidateProgramRevision(existing, revision, figures); [total = false] is the code
   (pe.cost.Storage, pe.cost.Collateral), [total = true] the seeded change C07-mut7
   (pe.cost.Total()).  The result is the revision the host counter-signs. *)
Definition finalize (total : bool) (cur : rev) (costs : list MD.cost) (num : N) (vs ms : list N) : res rev :=
  do c <- exec_cost MD.cost0 costs;
  do rv <- revise cur num vs ms;
  do fig <- (if total then cost_total c else Ok (MD.cStorage c, MD.cCollateral c));
  do _ <- validate_program cur rv (fst fig) (snd fig);
  Ok rv.

Lemma cost_add_fields : forall a b c, MD.cost_add a b = Ok c ->
  MD.cStorage c = MD.cStorage a + MD.cStorage b /\ MD.cCollateral c = MD.cCollateral a + MD.cCollateral b /\
  MD.cBase c = MD.cBase a + MD.cBase b /\ MD.cEgress c = MD.cEgress a + MD.cEgress b /\
  MD.cIngress c = MD.cIngress a + MD.cIngress b.
Proof.
  intros a b c H. unfold MD.cost_add, cadd, bind in H.
  repeat match type of H with context [if ?x then _ else _] => destruct x; try discriminate end.
  injection H as <-. cbn. repeat split.
Qed.

Lemma exec_cost_fields : forall costs a c, exec_cost a costs = Ok c ->
  MD.cStorage c = MD.cStorage a + sum_storage costs /\ MD.cCollateral c = MD.cCollateral a + sum_collateral costs /\
  MD.cBase c + MD.cStorage c + MD.cEgress c + MD.cIngress c =
    MD.cBase a + MD.cStorage a + MD.cEgress a + MD.cIngress a + sum_price costs.
Proof.
  induction costs as [|x t IH]; intros a c H; cbn [exec_cost] in H.
  - injection H as <-. cbn. lia.
  - destruct (MD.cost_add a x) as [a'| |] eqn:E; try discriminate. cbn [bind] in H.
    destruct (cost_add_fields _ _ _ E) as (E1 & E2 & E3 & E4 & E5).
    destruct (IH _ _ H) as (I1 & I2 & I3). cbn [sum_storage sum_collateral sum_price fold_right].
    fold (sum_storage t) (sum_collateral t) (sum_price t). lia.
Qed.

(* the finalisation the host counter-signs is a life request whose figures are the storage and
   collateral sums of the executed instructions; its burn is bounded by them *)
Lemma finalize_burn_bounded : forall cur costs num vs ms rv, wf cur -> inrange cur ->
  finalize false cur costs num vs ms = Ok rv ->
  decide cur (QProgram rv (sum_storage costs) (sum_collateral costs)) = Ok true /\
  safe_revision cur rv 0 (sum_storage costs + sum_collateral costs) /\
  mh cur <= mh rv + (sum_storage costs + sum_collateral costs) /\
  vr rv = vr cur /\ vh rv = vh cur /\ mr rv = mr cur /\
  rnum rv = num /\ map oval (rvalid rv) = vs /\ map oval (rmissed rv) = ms /\
  wf rv /\ inrange rv.
Proof.
  intros cur costs num vs ms rv W R H. unfold finalize in H.
  destruct (exec_cost MD.cost0 costs) as [c| |] eqn:Ec; try discriminate. cbn [bind] in H.
  destruct (revise cur num vs ms) as [rv'| |] eqn:Er; try discriminate. cbn [bind fst snd] in H.
  destruct (validate_program cur rv' (MD.cStorage c) (MD.cCollateral c)) as [b| |] eqn:Ev; try discriminate.
  cbn [bind] in H. injection H as <-.
  destruct (exec_cost_fields _ _ _ Ec) as (Es & Ek & _). cbn in Es, Ek. rewrite Es, Ek in Ev.
  destruct (validate_program_safe _ _ _ _ _ W R Ev) as (S & _ & _ & _ & Hvr & Hvh & Hmr & W' & R').
  destruct (revise_sound _ _ _ _ _ Er) as (_ & _ & Hn & Hv & Hm & _).
  split; [cbn [decide]; rewrite Ev; reflexivity|]. split; [exact S|].
  split; [apply S|]. repeat split; try assumption; apply W' || apply R'.
Qed.

(* no finalisation request makes the host panic, unless the sums of the executed instructions'
   costs leave the 128-bit range (the budget check in front of payForExecution rules that out:
   each instruction was paid from a budget < 2^128) *)
Lemma finalize_no_panic : forall cur costs num vs ms c, exec_cost MD.cost0 costs = Ok c ->
  finalize false cur costs num vs ms <> Panic.
Proof.
  intros cur costs num vs ms c Ec. unfold finalize. rewrite Ec. cbn [bind].
  pose proof (revise_no_panic cur num vs ms) as Hr.
  destruct (revise cur num vs ms) as [rv| |]; cbn [bind fst snd]; try congruence.
  pose proof (validate_program_no_panic cur rv (MD.cStorage c) (MD.cCollateral c)) as Hv.
  destruct (validate_program cur rv (MD.cStorage c) (MD.cCollateral c)); cbn [bind]; congruence.
Qed.

(* the Total() variant: one AppendSectorRoot-like instruction (base 7, storage 3, collateral 5,
   ingress 11); the renter burns storage + collateral + base + ingress = 26 of the host's missed
   payout, 18 more than the program's storage and collateral *)
Definition fin_cost : MD.cost := {| MD.cBase := 7; MD.cStorage := 3; MD.cCollateral := 5; MD.cEgress := 0; MD.cIngress := 11 |}.
Definition fin_vs : list N := [1000; 500].
Definition fin_ms_exact : list N := [1000; 392; 108].
Definition fin_ms_over : list N := [1000; 374; 126].

Lemma finalize_total_refuted :
  wf m8_c0 /\ inrange m8_c0 /\
  sum_storage [fin_cost] + sum_collateral [fin_cost] = 8 /\ sum_price [fin_cost] + sum_collateral [fin_cost] = 26 /\
  (* the code accepts the exact burn and refuses the over-burn; the variant accepts the over-burn *)
  (exists rv, finalize false m8_c0 [fin_cost] 6 fin_vs fin_ms_exact = Ok rv /\ mh m8_c0 - mh rv = 8) /\
  (exists e, finalize false m8_c0 [fin_cost] 6 fin_vs fin_ms_over = Err e) /\
  (exists rv, finalize true m8_c0 [fin_cost] 6 fin_vs fin_ms_over = Ok rv /\ mh m8_c0 - mh rv = 26 /\
              ~ mh m8_c0 <= mh rv + (sum_storage [fin_cost] + sum_collateral [fin_cost])).
Proof.
  split; [repeat split; repeat constructor|].
  split; [repeat split; repeat constructor|].
  split; [reflexivity|]. split; [reflexivity|].
  split; [eexists; split; vm_compute; reflexivity|].
  split; [eexists; vm_compute; reflexivity|].
  eexists. split; [vm_compute; reflexivity|]. split; [vm_compute; reflexivity|]. vm_compute. intros H. apply H. reflexivity.
Qed.

(** * Correspondence entry point for the signature harness *)
(* one recorded run: the stored revision before and the observed steps; observed: number, valid
   and missed values of the stored revision afterwards and the numbers of the host-signed
   revisions the renter holds, in the order it got them *)
Definition srec := (rev * list slabel)%type.
Definition sobs := (N * list N * list N * list N)%type.

Definition srun_obs (r : srec) : option sobs :=
  match srun code_order (sinit (fst r)) (snd r) with
  | Some st => Some (rnum (sstored st), map oval (rvalid (sstored st)), map oval (rmissed (sstored st)), map rnum (sheld st))
  | None => None
  end.

Definition sobs_eqb (a b : sobs) : bool :=
  let '(n1, v1, m1, h1) := a in let '(n2, v2, m2, h2) := b in
  (n1 =? n2) && list_eqb N.eqb v1 v2 && list_eqb N.eqb m1 m2 && list_eqb N.eqb h1 h2.

Definition scase := (N * list srec * list (option sobs))%type.
Definition scheck (cs : list scase) := fmismatches (map srun_obs) (list_eqb (option_eqb sobs_eqb)) cs.
