(* C07: which host signatures the renter holds, and what a program finalisation may burn (WP-Q7).
   Statements only; every proof is [exact lemma].
   Model: Lifetime/Signed.v over Lifetime/Conc.v / Life.v over Revision/Model.v (= rhp/contracts.go),
   cost records of MDM/Model.v (= core's rhp/v3 ResourceCost).

   A schedule is a list of steps of the sessions i working on one contract:
     SLock i | SRead i | STell i | SDecide i q | SPersist i | SReply i | SFault i | SUnlock i | SCrash
   (STell: the host hands out the stored revision with its signatures — RPCLock, RPCLatestRevision;
   SReply: the host's signature for the request it counter-signed reaches the renter; SFault: the
   persisting call fails, nothing is stored, the handler gives the request up; SCrash: the process
   dies, all sessions and locks are gone, the stored revision stays).
   [srun early (sinit c0) tr = Some st]: the host can perform tr from the stored revision c0 and
   reaches st, where [early q = true] allows the handler of q to reply BEFORE it persists;
   [sheld st] are the host-signed revisions the renter has received, [sstored st] is the revision
   in the store, [slog st] the decided requests in commit order, [ssigned st] the counter-signed ones.
   [code_order] is the code as it is: every handler persists, then replies.
   [reaches r1 r2]: a life run in which every request is accepted leads from r1 to r2, and
   [life_ok r1 r2 _] (c07_life_safe) holds between them. *)
From HostdBase Require Import Base.
From HostdRevision Require Import Model Proofs.
From HostdLifetime Require Import Life Conc Signed.
Local Open Scope N_scope.

(* THE RENTER NEVER HOLDS A HOST SIGNATURE FOR A REVISION THE HOST HAS NOT STORED.
   In every run — any number of sessions, any interleaving, persisting calls failing and the
   process crashing at any point — in which every request the host counter-signed belongs to a
   handler that replies after it has persisted, at every point: every host-signed revision the
   renter holds is the initial revision or the revision of a request accepted in the life run of
   the committed requests (the stored revision or one of its predecessors); any two of them are
   connected by accepted requests, so each is a safe successor (life_ok) of the other one way round;
   two with the same number are the same revision; and the stored revision is reached from each of
   them, i.e. what the host would submit is never worse for it than anything the renter can show. *)
Theorem c07_renter_holds_only_stored_signatures : forall early c0 tr st, wf c0 -> inrange c0 ->
  srun early (sinit c0) tr = Some st -> replies_after_persist early st ->
  exists acc, life c0 (slog st) = Ok (sstored st, acc) /\
    (forall r, In r (sheld st) -> In r (c0 :: map req_rev acc)) /\
    (forall r1 r2, In r1 (sheld st) -> In r2 (sheld st) -> reaches r1 r2 \/ reaches r2 r1) /\
    (forall r1 r2, In r1 (sheld st) -> In r2 (sheld st) -> rnum r1 = rnum r2 -> r1 = r2) /\
    (forall r, In r (sheld st) -> reaches r (sstored st)).
Proof. exact held_ordered. Qed.
Print Assumptions c07_renter_holds_only_stored_signatures.

(* the code as it is (Commit / Credit first, then the response, in rpcWrite, rpcRead,
   rpcSectorRoots, processContractPayment, processFundAccountPayment and programExecutor.commit)
   satisfies the side condition in every run *)
Theorem c07_code_renter_holds_only_stored_signatures : forall c0 tr st, wf c0 -> inrange c0 ->
  srun code_order (sinit c0) tr = Some st ->
  exists acc, life c0 (slog st) = Ok (sstored st, acc) /\
    (forall r, In r (sheld st) -> In r (c0 :: map req_rev acc)) /\
    (forall r1 r2, In r1 (sheld st) -> In r2 (sheld st) -> reaches r1 r2 \/ reaches r2 r1) /\
    (forall r1 r2, In r1 (sheld st) -> In r2 (sheld st) -> rnum r1 = rnum r2 -> r1 = r2) /\
    (forall r, In r (sheld st) -> reaches r (sstored st)).
Proof. exact code_held_ordered. Qed.
Print Assumptions c07_code_renter_holds_only_stored_signatures.

(* whatever the reply order: faults and crashes leave no trace in the store — the stored revision
   is the result of serving the committed requests one after the other (c07_life_safe applies) *)
Theorem c07_signed_serializable : forall early c0 tr st,
  srun early (sinit c0) tr = Some st -> exists acc, life c0 (slog st) = Ok (sstored st, acc).
Proof. exact signed_serializable. Qed.
Print Assumptions c07_signed_serializable.

(* the full statement without the reply order,
     forall early c0 tr st, srun early (sinit c0) tr = Some st -> forall r, In r (sheld st) -> In r (chain),
   is false: with rpcWrite replying before Commit (the seeded change C07-mut8) and one failing
   persist — or one crash — the renter ends up with two different host-signed revisions number 6,
   the first never stored and paying the host 40 more than the one the host has; the code as it is
   cannot perform either schedule *)
Theorem c07_renter_holds_only_stored_signatures_refuted :
  wf m8_c0 /\ inrange m8_c0 /\
  held_view (srun mut8_order (sinit m8_c0) m8_schedule) = Some (6, 510, [(5, 500); (6, 550); (5, 500); (6, 510)]) /\
  (forall st, srun mut8_order (sinit m8_c0) m8_schedule = Some st ->
     In (req_rev m8_qa) (sheld st) /\ In (req_rev m8_qb) (sheld st) /\
     rnum (req_rev m8_qa) = rnum (req_rev m8_qb) /\ req_rev m8_qa <> req_rev m8_qb /\
     forall acc, life m8_c0 (slog st) = Ok (sstored st, acc) -> ~ In (req_rev m8_qa) (m8_c0 :: map req_rev acc)) /\
  held_view (srun mut8_order (sinit m8_c0) m8_schedule_crash) = Some (6, 510, [(6, 550); (6, 510)]) /\
  srun code_order (sinit m8_c0) m8_schedule = None /\
  srun code_order (sinit m8_c0) m8_schedule_crash = None.
Proof. exact early_reply_refuted. Qed.
Print Assumptions c07_renter_holds_only_stored_signatures_refuted.

(* PROGRAM FINALISATION.  [finalize false cur costs num vs ms] is programExecutor.commit: the costs
   of the executed instructions are summed up as payForExecution does, the renter's number and
   values are put on the locked revision (Revise) and ValidateProgramRevision is called with the
   Storage and Collateral components of the sum.  Whatever the renter sends: if the host
   counter-signs, the revision is a life request QProgram whose figures are the sums over the
   executed instructions, the host's missed payout has lost at most Σ storage + Σ collateral of
   them — not the program's price —, nothing else moved, number and values are the renter's. *)
Theorem c07_finalize_burn_bounded_by_storage_and_collateral_of_program :
  forall cur costs num vs ms rv, wf cur -> inrange cur ->
  finalize false cur costs num vs ms = Ok rv ->
  decide cur (QProgram rv (sum_storage costs) (sum_collateral costs)) = Ok true /\
  safe_revision cur rv 0 (sum_storage costs + sum_collateral costs) /\
  mh cur <= mh rv + (sum_storage costs + sum_collateral costs) /\
  vr rv = vr cur /\ vh rv = vh cur /\ mr rv = mr cur /\
  rnum rv = num /\ map oval (rvalid rv) = vs /\ map oval (rmissed rv) = ms /\
  wf rv /\ inrange rv.
Proof. exact finalize_burn_bounded. Qed.
Print Assumptions c07_finalize_burn_bounded_by_storage_and_collateral_of_program.

(* no finalisation request makes the host panic (given the instruction costs summed up without
   overflow, which the budget check in front of every payForExecution ensures) *)
Theorem c07_finalize_no_panic : forall cur costs num vs ms c, exec_cost MD.cost0 costs = Ok c ->
  finalize false cur costs num vs ms <> Panic.
Proof. exact finalize_no_panic. Qed.
Print Assumptions c07_finalize_no_panic.

(* with pe.cost.Total() as the figures (the seeded change C07-mut7) the bound is false: one
   instruction with base 7, storage 3, collateral 5, ingress 11; the variant counter-signs a
   finalisation that burns 26 of the host's missed payout, the code refuses it and accepts 8 *)
Theorem c07_finalize_burn_bounded_by_storage_and_collateral_of_program_refuted :
  wf m8_c0 /\ inrange m8_c0 /\
  sum_storage [fin_cost] + sum_collateral [fin_cost] = 8 /\ sum_price [fin_cost] + sum_collateral [fin_cost] = 26 /\
  (exists rv, finalize false m8_c0 [fin_cost] 6 fin_vs fin_ms_exact = Ok rv /\ mh m8_c0 - mh rv = 8) /\
  (exists e, finalize false m8_c0 [fin_cost] 6 fin_vs fin_ms_over = Err e) /\
  (exists rv, finalize true m8_c0 [fin_cost] 6 fin_vs fin_ms_over = Ok rv /\ mh m8_c0 - mh rv = 26 /\
              ~ mh m8_c0 <= mh rv + (sum_storage [fin_cost] + sum_collateral [fin_cost])).
Proof. exact finalize_total_refuted. Qed.
Print Assumptions c07_finalize_burn_bounded_by_storage_and_collateral_of_program_refuted.

Example c07_signed_nonvacuous :
  held_view (srun code_order (sinit m8_c0) sg_schedule) = Some (8, 525, [(5, 500); (6, 510); (7, 525); (8, 525)]) /\
  wf m8_c0 /\ inrange m8_c0.
Proof. exact signed_ex. Qed.
