(* C07 for concurrent sessions.  Statements only; every proof is [exact lemma].
   Model: Lifetime/Conc.v over Lifetime/Life.v over Revision/Model.v (= rhp/contracts.go).

   Any number of sessions (an RHP2 session, RHP3 streams) work on one contract.  A schedule is a
   list of steps [Lock i | Read i | Decide i q | Persist i | Unlock i] of the sessions i, in any
   order; [crun true (cinit c0) tr = Some st] says the code as it is (Read / Decide / Persist only
   while holding the contract lock, the lock held by at most one session) can perform the schedule
   tr from the stored revision c0 and reaches st; [clog st] are the requests the host decided, in
   commit order, [stored st] is the revision in the store, [signed st] the requests it
   counter-signed.  [crun false] is the variant in which a session may go on after unlocking. *)
From HostdBase Require Import Base.
From HostdRevision Require Import Model Proofs.
From HostdLifetime Require Import Life Conc.
Local Open Scope N_scope.

(* every schedule of every number of sessions is equivalent to serving the decided requests one
   after the other in commit order: the same stored revision, the same accepted requests *)
Theorem c07_conc_serializable : forall c0 tr st,
  crun true (cinit c0) tr = Some st -> exists acc, life c0 (clog st) = Ok (stored st, acc).
Proof. exact conc_serializable. Qed.
Print Assumptions c07_conc_serializable.

(* the accepted requests alone, in commit order, are a life run in which every one is accepted
   and which ends in the stored revision *)
Theorem c07_conc_accepted_run : forall c0 tr st,
  crun true (cinit c0) tr = Some st ->
  life c0 (accepted_of c0 (clog st)) = Ok (stored st, accepted_of c0 (clog st)).
Proof. exact conc_accepted_run. Qed.
Print Assumptions c07_conc_accepted_run.

(* so c07_life_safe applies to concurrent sessions: at every point of every schedule the stored
   revision is well formed, its number has grown with every counter-signature, hashes, window,
   addresses and sums are the initial ones, no renter payout exceeds its initial value, the host's
   valid payout has gained at least the prices and its missed payout lost at most the collateral of
   what it counter-signed *)
Theorem c07_conc_safe : forall c0 tr st, wf c0 -> inrange c0 ->
  crun true (cinit c0) tr = Some st ->
  exists acc, life c0 (clog st) = Ok (stored st, acc) /\ life_ok c0 (stored st) acc.
Proof. exact conc_safe. Qed.
Print Assumptions c07_conc_safe.

(* each single counter-signature, whichever session gives it and whatever the others do meanwhile,
   satisfies the C07 conjunction relative to the revision the host counter-signed and stored last
   (a signature whose revision was not persisted never leaves the host) *)
Theorem c07_conc_signature_safe : forall c0 tr st i q st', wf c0 -> inrange c0 ->
  crun true (cinit c0) tr = Some st ->
  cstep true st (Decide i q) = Some st' -> signed st' = signed st ++ [q] ->
  safe_revision (stored st) (req_rev q) (req_price q) (req_maxburn q) /\
  stored st = last (map req_rev (accepted_of c0 (clog st))) c0.
Proof. exact conc_sign_safe. Qed.
Print Assumptions c07_conc_signature_safe.

(* the full statement without the lock discipline,
     forall c0 tr st, crun false (cinit c0) tr = Some st -> exists acc, life c0 (clog st) = Ok (stored st, acc),
   is false: two payments built on the same revision, each session unlocking right after its read
   (the seeded change C07-mut5), end with a stored revision that pays the host less than the sum
   of what it signed, in the other persisting order with a stored revision number that went back;
   the code as it is cannot perform that schedule *)
Theorem c07_conc_unlocked_refuted :
  wf mut_c0 /\ inrange mut_c0 /\
  final_view (crun false (cinit mut_c0) mut_schedule) = Some (7, 510, 60, [6; 7]) /\
  (forall st, crun false (cinit mut_c0) mut_schedule = Some st ->
     ~ exists acc, life mut_c0 (clog st) = Ok (stored st, acc)) /\
  final_view (crun false (cinit mut_c0) mut_schedule_back) = Some (6, 550, 60, [7; 6]) /\
  crun true (cinit mut_c0) mut_schedule = None.
Proof. exact relaxed_refuted. Qed.
Print Assumptions c07_conc_unlocked_refuted.

(* the replay function of the concurrent session harness is [life] *)
Theorem c07_conc_replay_is_life : forall l cur d c, decisions cur l = Some (d, c) ->
  life cur l = Ok (c, pick d l) /\ length d = length l.
Proof. exact decisions_life. Qed.
Print Assumptions c07_conc_replay_is_life.

Example c07_conc_nonvacuous :
  final_view (crun true (cinit mut_c0) ex_schedule) = Some (8, 530, 30, [6; 7; 8]) /\
  crun true (cinit mut_c0) [Lock 0; Lock 1] = None /\
  wf mut_c0 /\ inrange mut_c0.
Proof. exact conc_ex. Qed.
