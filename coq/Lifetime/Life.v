(* Lifetime/Life.v — the life of one v1 contract as the host sees it: a stored revision and a
   list of renter requests, each decided by one of the validators of rhp/contracts.go
   (Revision/Model.v).  A request that a validator rejects leaves the stored revision alone
   (the handlers return the error before anything is signed or stored); an accepted one
   replaces it.  The C07 theorems are about one decision; the theorems here lift them, by
   induction over the request list, to every point of a contract's life. *)
From HostdBase Require Import Base.
From HostdRevision Require Import Model Proofs.
From Coq Require Import Lia ZifyBool ZifyN ZifyNat.
Local Open Scope N_scope.

Inductive req :=
| QRevision (rv : rev) (payment collateral : N)      (* RHP2 read / write / sector roots *)
| QProgram  (rv : rev) (storage collateral : N)      (* RHP3 program finalisation *)
| QPayment  (rv : rev) (payment : N).                (* RHP3 pay-by-contract / fund account *)

(* what the host must at least gain (valid payout) and may at most lose (missed payout) *)
Definition req_price (q : req) : N :=
  match q with QRevision _ p _ => p | QProgram _ _ _ => 0 | QPayment _ p => p end.
Definition req_maxburn (q : req) : N :=
  match q with QRevision _ _ c => c | QProgram _ s c => s + c | QPayment _ _ => 0 end.
Definition req_rev (q : req) : rev :=
  match q with QRevision r _ _ => r | QProgram r _ _ => r | QPayment r _ => r end.

(* the decision: [Some rv] = counter-signed and stored, [None] = refused *)
Definition decide (cur : rev) (q : req) : res bool :=
  match q with
  | QRevision rv p c => match validate_revision cur rv p c with Ok _ => Ok true | Err _ => Ok false | Panic => Panic end
  | QProgram rv s c => match validate_program cur rv s c with Ok _ => Ok true | Err _ => Ok false | Panic => Panic end
  | QPayment rv p => match validate_payment cur rv p with Ok _ => Ok true | Err _ => Ok false | Panic => Panic end
  end.

(* the stored revision after a list of requests, and the accepted requests in order *)
Fixpoint life (cur : rev) (l : list req) : res (rev * list req) :=
  match l with
  | [] => Ok (cur, [])
  | q :: t =>
      match decide cur q with
      | Ok true => match life (req_rev q) t with Ok (r, acc) => Ok (r, q :: acc) | e => e end
      | Ok false => life cur t
      | Err e => Err e
      | Panic => Panic
      end
  end.

Definition total_price (l : list req) : N := fold_right (fun q a => req_price q + a) 0 l.
Definition total_maxburn (l : list req) : N := fold_right (fun q a => req_maxburn q + a) 0 l.

Lemma decide_accept : forall cur q, wf cur -> inrange cur -> decide cur q = Ok true ->
  safe_revision cur (req_rev q) (req_price q) (req_maxburn q) /\ wf (req_rev q) /\ inrange (req_rev q).
Proof.
  intros cur q W R H. destruct q as [rv p c|rv s c|rv p]; cbn [decide req_rev req_price req_maxburn] in *.
  - destruct (validate_revision cur rv p c) as [[t b]| |] eqn:E; try discriminate.
    apply validate_revision_safe in E; try assumption. tauto.
  - destruct (validate_program cur rv s c) as [b| |] eqn:E; try discriminate.
    apply validate_program_safe in E; try assumption. tauto.
  - destruct (validate_payment cur rv p) as [[]| |] eqn:E; try discriminate.
    apply validate_payment_safe in E; try assumption. tauto.
Qed.

Lemma decide_no_panic : forall cur q, decide cur q <> Panic.
Proof.
  intros cur q. destruct q as [rv p c|rv s c|rv p]; cbn [decide].
  - pose proof (validate_revision_no_panic cur rv p c). destruct (validate_revision cur rv p c); congruence.
  - pose proof (validate_program_no_panic cur rv s c). destruct (validate_program cur rv s c); congruence.
  - pose proof (validate_payment_no_panic cur rv p). destruct (validate_payment cur rv p); congruence.
Qed.

Lemma decide_no_err : forall cur q e, decide cur q <> Err e.
Proof.
  intros cur q e. destruct q as [rv p c|rv s c|rv p]; cbn [decide];
  match goal with |- context [match ?x with _ => _ end] => destruct x end; congruence.
Qed.

(* no request list, of any length or content, makes the host panic or fail *)
Lemma life_total : forall l cur, exists r acc, life cur l = Ok (r, acc).
Proof.
  induction l as [|q t IH]; intros cur; cbn [life]; [eauto|].
  destruct (decide cur q) as [[|]|e|] eqn:D.
  - destruct (IH (req_rev q)) as (r & acc & E). rewrite E. eauto.
  - apply IH.
  - exfalso. eapply decide_no_err; eauto.
  - exfalso. eapply decide_no_panic; eauto.
Qed.

(* what holds between the revision a contract started with and the one stored after any list
   of requests: [acc] are the accepted ones *)
Record life_ok (c0 c : rev) (acc : list req) : Prop := {
  lo_wf      : wf c;
  lo_range   : inrange c;
  lo_num     : rnum c0 + N.of_nat (length acc) <= rnum c;
  lo_uh      : ruh c = ruh c0;
  lo_uc      : ruc c = ruc c0;
  lo_ws      : rws c = rws c0;
  lo_we      : rwe c = rwe c0;
  lo_vaddr   : map oaddr (rvalid c) = map oaddr (rvalid c0);
  lo_maddr   : map oaddr (rmissed c) = map oaddr (rmissed c0);
  lo_vsum    : sumv (rvalid c) = sumv (rvalid c0);
  lo_msum    : sumv (rmissed c) = sumv (rmissed c0);
  lo_vr      : vr c <= vr c0;
  lo_mr      : mr c <= mr c0;
  lo_vh      : vh c0 + total_price acc <= vh c;
  lo_mh      : mh c0 <= mh c + total_maxburn acc
}.

Lemma life_sound : forall l c0 c acc, wf c0 -> inrange c0 -> life c0 l = Ok (c, acc) -> life_ok c0 c acc.
Proof.
  induction l as [|q t IH]; intros c0 c acc W R H; cbn [life] in H.
  - injection H as <- <-. constructor; cbn [length total_price total_maxburn fold_right]; try reflexivity; try assumption; lia.
  - destruct (decide c0 q) as [[|]|e|] eqn:D; try discriminate.
    + destruct (life (req_rev q) t) as [[r a]| |] eqn:L; try discriminate. injection H as <- <-.
      destruct (decide_accept _ _ W R D) as (S & W' & R').
      specialize (IH _ _ _ W' R' L). destruct IH.
      destruct S as (Sn & Suh & Suc & Sws & Swe & _ & _ & Sva & Sma & Svs & Sms & Svr & Smr & Svh & Smh).
      constructor; unfold total_price, total_maxburn in *; cbn [length fold_right]; try assumption; try congruence; try lia.
    + eapply IH; eauto.
Qed.

Lemma last_cons_default : forall (A : Type) (l : list A) (x d : A), last (x :: l) d = last l x.
Proof. induction l as [|y l IH]; intros x d; [reflexivity|]. change (last (x :: y :: l) d) with (last (y :: l) d). rewrite (IH y d), (IH y x). reflexivity. Qed.

(* refused requests change nothing: the stored revision is always the last accepted one *)
Lemma life_last_accepted : forall l c0 c acc, life c0 l = Ok (c, acc) ->
  c = last (map req_rev acc) c0.
Proof.
  induction l as [|q t IH]; intros c0 c acc H; cbn [life] in H.
  - injection H as <- <-. reflexivity.
  - destruct (decide c0 q) as [[|]|e|] eqn:D; try discriminate.
    + destruct (life (req_rev q) t) as [[r a]| |] eqn:L; try discriminate. injection H as <- <-.
      specialize (IH _ _ _ L). cbn [map]. rewrite last_cons_default. exact IH.
    + eauto.
Qed.

(* a contract whose revision number reached the maximum (cleared / locked) accepts nothing more *)
Lemma life_after_max : forall l c0 c acc, wf c0 -> inrange c0 -> rnum c0 = max64 ->
  (forall q, In q l -> rnum (req_rev q) <= max64) ->
  life c0 l = Ok (c, acc) -> c = c0 /\ acc = [].
Proof.
  induction l as [|q t IH]; intros c0 c acc W R M B H; cbn [life] in H.
  - injection H as <- <-. auto.
  - destruct (decide c0 q) as [[|]|e|] eqn:D; try discriminate.
    + destruct (decide_accept _ _ W R D) as ((Sn & _) & _ & _).
      specialize (B q (or_introl eq_refl)). lia.
    + eapply IH; eauto. intros q' Hq. apply B. right. exact Hq.
Qed.

(** non-vacuity: a concrete life with two accepted and one refused request *)
Definition c0_ex : rev := R 1 0 4194304 1 100 200 [O 1 1000; O 2 500] [O 1 1000; O 2 400; O 0 100] 1 5.
Definition l_ex : list req :=
  [ QRevision (R 1 0 4194304 1 100 200 [O 1 990; O 2 510] [O 1 990; O 2 395; O 0 115] 1 6) 10 5;
    QPayment  (R 1 0 4194304 1 100 200 [O 1 2000; O 2 510] [O 1 990; O 2 395; O 0 115] 1 7) 10;
    QPayment  (R 1 0 4194304 1 100 200 [O 1 970; O 2 530] [O 1 970; O 2 415; O 0 115] 1 9) 20 ].

Lemma life_ex : exists c acc, life c0_ex l_ex = Ok (c, acc) /\ length acc = 2%nat /\ rnum c = 9 /\ vh c = 530 /\
  wf c0_ex /\ inrange c0_ex.
Proof.
  eexists. eexists. split; [vm_compute; reflexivity|].
  repeat split; repeat (first [reflexivity | constructor]).
Qed.
