(* Lifetime/Conc.v — several RPC sessions over ONE stored revision.

   Life.v decides a list of requests one after the other.  The host, however, serves every renter
   connection in its own goroutine: an RHP2 session and any number of RHP3 streams may work on the
   same contract at the same time.  What makes the sequential reading right is the contract lock
   (host/contracts/lock.go, taken by every revising handler of rhp/v2 and rhp/v3 before it reads the
   stored revision and released after it has persisted): this file models the handlers at that
   grain and proves that every schedule is a [life] run.

   One session i goes through
       Lock i          Manager.Lock: only when nobody holds the lock
       Read i          the handler takes the stored revision as [current]
       Decide i q      Revise + Validate* of rhp/contracts.go on [current]; a refused request is
                       answered with an error and leaves nothing behind; an accepted one is
                       counter-signed (the signature exists from here on)
       Persist i       the counter-signed revision is written (ContractUpdater.Commit / Credit /
                       RenewContract); the session goes on with it as [current] (RHP2: s.contract)
       Unlock i        Manager.Unlock: from any point (a handler may fail and return at any time)
   in any order and any number of times, interleaved with the steps of all other sessions.

   [strict = true] is the code as it is: Read / Decide / Persist require the lock.  [strict =
   false] lets a session keep working after it has unlocked (the seeded change C07-mut5: "only the
   snapshot needs the lock"); it is kept to show that the lock is what the theorem rests on.

   The second part is the correspondence entry point for the concurrent session harness
   (harness/overlay/rhp/v3/verif_c07_conc_test.go): the requests the host decided, in commit
   order, are replayed through [life]. *)
From HostdBase Require Import Base.
From HostdRevision Require Import Model Proofs.
From HostdLifetime Require Import Life.
From Coq Require Import Lia ZifyBool ZifyN ZifyNat Arith.
Local Open Scope N_scope.

(** * Sessions *)
Inductive sst :=
| SIdle                          (* not working on the contract *)
| SLocked                        (* holds the lock, has not read yet *)
| SGot (cur : rev)               (* has a current revision *)
| SSigned (cur : rev) (q : req). (* has counter-signed q against cur, not yet persisted *)

Inductive label :=
| Lock (i : nat) | Read (i : nat) | Decide (i : nat) (q : req) | Persist (i : nat) | Unlock (i : nat).

Record cstate := mkCS {
  stored : rev;                 (* the revision in the store *)
  holder : option nat;          (* who holds the contract lock *)
  sess   : nat -> sst;
  signed : list req;            (* every request the host counter-signed, in signing order *)
  clog   : list req             (* every request the host decided, refused ones at their decision,
                                   accepted ones when they were persisted: the commit order *)
}.

Definition cinit (c0 : rev) : cstate := mkCS c0 None (fun _ => SIdle) [] [].

Definition upd (f : nat -> sst) (i : nat) (s : sst) : nat -> sst :=
  fun j => if Nat.eqb j i then s else f j.

Definition holds (st : cstate) (i : nat) : bool :=
  match holder st with Some j => Nat.eqb j i | None => false end.

(* may session i touch the contract? *)
Definition may (strict : bool) (st : cstate) (i : nat) : bool := negb strict || holds st i.

Definition cstep (strict : bool) (st : cstate) (l : label) : option cstate :=
  match l with
  | Lock i =>
      match holder st, sess st i with
      | None, SIdle => Some (mkCS (stored st) (Some i) (upd (sess st) i SLocked) (signed st) (clog st))
      | _, _ => None
      end
  | Read i =>
      match sess st i with
      | SLocked => if may strict st i
                   then Some (mkCS (stored st) (holder st) (upd (sess st) i (SGot (stored st))) (signed st) (clog st))
                   else None
      | _ => None
      end
  | Decide i q =>
      match sess st i with
      | SGot cur =>
          if may strict st i then
            match decide cur q with
            | Ok true => Some (mkCS (stored st) (holder st) (upd (sess st) i (SSigned cur q)) (signed st ++ [q]) (clog st))
            | Ok false => Some (mkCS (stored st) (holder st) (sess st) (signed st) (clog st ++ [q]))
            | _ => None
            end
          else None
      | _ => None
      end
  | Persist i =>
      match sess st i with
      | SSigned cur q =>
          if may strict st i
          then Some (mkCS (req_rev q) (holder st) (upd (sess st) i (SGot (req_rev q))) (signed st) (clog st ++ [q]))
          else None
      | _ => None
      end
  | Unlock i =>
      if holds st i then
        (* the strict handler is done with the contract; the relaxed one keeps what it has *)
        Some (mkCS (stored st) None (if strict then upd (sess st) i SIdle else sess st) (signed st) (clog st))
      else None
  end.

Fixpoint crun (strict : bool) (st : cstate) (tr : list label) : option cstate :=
  match tr with
  | [] => Some st
  | l :: t => match cstep strict st l with Some st' => crun strict st' t | None => None end
  end.

(** * The invariant of the strict system *)
(* [life c0 (clog st)] ends in the stored revision; only the holder is not idle; what the holder
   knows as current is the stored revision; what it has signed was accepted against the stored
   revision *)
Definition sess_ok (st : cstate) : Prop :=
  forall j, match sess st j with
            | SIdle => True
            | SLocked => holder st = Some j
            | SGot cur => holder st = Some j /\ cur = stored st
            | SSigned cur q => holder st = Some j /\ cur = stored st /\ decide cur q = Ok true
            end.

Definition accepted_of (c0 : rev) (l : list req) : list req :=
  match life c0 l with Ok (_, acc) => acc | _ => [] end.

Record cinv (c0 : rev) (st : cstate) : Prop := {
  ci_life : exists acc, life c0 (clog st) = Ok (stored st, acc);
  ci_sess : sess_ok st
}.

Lemma life_app : forall l1 l2 c0 c1 a1,
  life c0 l1 = Ok (c1, a1) ->
  life c0 (l1 ++ l2) = match life c1 l2 with Ok (c2, a2) => Ok (c2, a1 ++ a2) | e => e end.
Proof.
  induction l1 as [|q t IH]; intros l2 c0 c1 a1 H; cbn [life app] in *.
  - injection H as <- <-. destruct (life c0 l2) as [[c2 a2]| |]; reflexivity.
  - destruct (decide c0 q) as [[|]|e|] eqn:D; try discriminate.
    + destruct (life (req_rev q) t) as [[r a]| |] eqn:L; try discriminate. injection H as <- <-.
      rewrite (IH l2 _ _ _ L). destruct (life r l2) as [[c2 a2]| |]; reflexivity.
    + apply IH. exact H.
Qed.

Lemma upd_same : forall f i s, upd f i s i = s.
Proof. intros. unfold upd. rewrite Nat.eqb_refl. reflexivity. Qed.
Lemma upd_other : forall f i s j, j <> i -> upd f i s j = f j.
Proof. intros f i s j H. unfold upd. destruct (Nat.eqb j i) eqn:E; [apply Nat.eqb_eq in E; congruence|reflexivity]. Qed.

Lemma holds_true : forall st i, holds st i = true -> holder st = Some i.
Proof. intros st i H. unfold holds in H. destruct (holder st) as [j|]; [apply Nat.eqb_eq in H; subst; reflexivity|discriminate]. Qed.

Lemma may_strict : forall st i, may true st i = true -> holder st = Some i.
Proof. intros st i H. unfold may in H. cbn in H. apply holds_true. exact H. Qed.

(* every other session is idle while i holds the lock *)
Lemma others_idle : forall st i j, sess_ok st -> holder st = Some i -> j <> i -> sess st j = SIdle.
Proof.
  intros st i j S H N. specialize (S j). destruct (sess st j) as [| |cur|cur q]; try reflexivity.
  - congruence.
  - destruct S as [S _]. congruence.
  - destruct S as [S _]. congruence.
Qed.

Lemma cstep_inv : forall c0 st l st', cinv c0 st -> cstep true st l = Some st' -> cinv c0 st'.
Proof.
  intros c0 st l st' [[acc L] S] H. destruct l as [i|i|i q|i|i]; cbn [cstep] in H.
  - (* Lock *)
    destruct (holder st) eqn:Hh; try discriminate. destruct (sess st i) eqn:Si; try discriminate.
    injection H as <-. split; cbn; [eauto|].
    intros j. cbn. destruct (Nat.eq_dec j i) as [->|N].
    + rewrite upd_same. reflexivity.
    + rewrite upd_other by exact N. specialize (S j). destruct (sess st j); try exact I; try (destruct S; congruence); congruence.
  - (* Read *)
    destruct (sess st i) eqn:Si; try discriminate. destruct (may true st i) eqn:M; try discriminate.
    injection H as <-. apply may_strict in M. split; cbn; [eauto|].
    intros j. cbn. destruct (Nat.eq_dec j i) as [->|N].
    + rewrite upd_same. auto.
    + rewrite upd_other by exact N. rewrite (others_idle st i j S M N). exact I.
  - (* Decide *)
    destruct (sess st i) as [| |cur|] eqn:Si; try discriminate. destruct (may true st i) eqn:M; try discriminate.
    apply may_strict in M. pose proof (S i) as Sii. rewrite Si in Sii. destruct Sii as [_ Ec]. subst cur.
    destruct (decide (stored st) q) as [[|]|e|] eqn:D; try discriminate; injection H as <-.
    + split; cbn; [eauto|]. intros j. cbn. destruct (Nat.eq_dec j i) as [->|N].
      * rewrite upd_same. auto.
      * rewrite upd_other by exact N. rewrite (others_idle st i j S M N). exact I.
    + split; cbn.
      * exists acc. rewrite (life_app _ [q] _ _ _ L). cbn [life]. rewrite D. rewrite app_nil_r. reflexivity.
      * exact S.
  - (* Persist *)
    destruct (sess st i) as [| | |cur q] eqn:Si; try discriminate. destruct (may true st i) eqn:M; try discriminate.
    injection H as <-. apply may_strict in M. pose proof (S i) as Sii. rewrite Si in Sii. destruct Sii as (_ & Ec & D). subst cur.
    split; cbn.
    + exists (acc ++ [q]). rewrite (life_app _ [q] _ _ _ L). cbn [life]. rewrite D. reflexivity.
    + intros j. cbn. destruct (Nat.eq_dec j i) as [->|N].
      * rewrite upd_same. auto.
      * rewrite upd_other by exact N. rewrite (others_idle st i j S M N). exact I.
  - (* Unlock *)
    destruct (holds st i) eqn:Hh; try discriminate. injection H as <-. apply holds_true in Hh.
    split; cbn; [eauto|]. intros j. cbn. destruct (Nat.eq_dec j i) as [->|N].
    + rewrite upd_same. exact I.
    + rewrite upd_other by exact N. rewrite (others_idle st i j S Hh N). exact I.
Qed.

Lemma cinit_inv : forall c0, cinv c0 (cinit c0).
Proof. intros c0. split; cbn; [exists []; reflexivity|intros j; exact I]. Qed.

Lemma crun_inv : forall c0 tr st st', cinv c0 st -> crun true st tr = Some st' -> cinv c0 st'.
Proof.
  intros c0 tr. induction tr as [|l t IH]; intros st st' I H; cbn [crun] in H.
  - injection H as <-. exact I.
  - destruct (cstep true st l) as [st1|] eqn:E; try discriminate.
    eapply IH; [eapply cstep_inv; eauto|exact H].
Qed.

(* every schedule of any number of sessions is a [life] run of the decided requests in commit
   order, ending in the stored revision *)
Lemma conc_serializable : forall c0 tr st,
  crun true (cinit c0) tr = Some st -> exists acc, life c0 (clog st) = Ok (stored st, acc).
Proof. intros c0 tr st H. exact (ci_life _ _ (crun_inv c0 tr _ _ (cinit_inv c0) H)). Qed.

(* refused requests can be left out: the accepted requests alone, in commit order, are a [life]
   run in which every request is accepted and which ends in the same stored revision *)
Lemma life_accepted_only : forall l c0 c acc, life c0 l = Ok (c, acc) -> life c0 acc = Ok (c, acc).
Proof.
  induction l as [|q t IH]; intros c0 c acc H; cbn [life] in H.
  - injection H as <- <-. reflexivity.
  - destruct (decide c0 q) as [[|]|e|] eqn:D; try discriminate.
    + destruct (life (req_rev q) t) as [[r a]| |] eqn:L; try discriminate. injection H as <- <-.
      cbn [life]. rewrite D. rewrite (IH _ _ _ L). reflexivity.
    + eapply IH; eauto.
Qed.

Lemma conc_accepted_run : forall c0 tr st,
  crun true (cinit c0) tr = Some st ->
  life c0 (accepted_of c0 (clog st)) = Ok (stored st, accepted_of c0 (clog st)).
Proof.
  intros c0 tr st H. destruct (conc_serializable _ _ _ H) as [acc L].
  unfold accepted_of. rewrite L. eapply life_accepted_only; eauto.
Qed.

(* hence everything Life.v proves holds at every point of every schedule *)
Lemma conc_safe : forall c0 tr st, wf c0 -> inrange c0 ->
  crun true (cinit c0) tr = Some st -> exists acc, life c0 (clog st) = Ok (stored st, acc) /\ life_ok c0 (stored st) acc.
Proof.
  intros c0 tr st W R H. destruct (conc_serializable _ _ _ H) as [acc L].
  exists acc. split; [exact L|]. eapply life_sound; eauto.
Qed.

(* whenever the host counter-signs, the revision is a safe successor of the stored revision, which
   is the last one it counter-signed before (or the initial one) *)
Lemma conc_sign_safe : forall c0 tr st i q st', wf c0 -> inrange c0 ->
  crun true (cinit c0) tr = Some st ->
  cstep true st (Decide i q) = Some st' -> signed st' = signed st ++ [q] ->
  safe_revision (stored st) (req_rev q) (req_price q) (req_maxburn q) /\
  stored st = last (map req_rev (accepted_of c0 (clog st))) c0.
Proof.
  intros c0 tr st i q st' W R H E Sg.
  pose proof (crun_inv c0 tr _ _ (cinit_inv c0) H) as [[acc L] S].
  assert (LO : life_ok c0 (stored st) acc) by (eapply life_sound; eauto).
  cbn [cstep] in E. destruct (sess st i) as [| |cur|] eqn:Si; try discriminate.
  destruct (may true st i) eqn:M; try discriminate.
  pose proof (S i) as Sii. rewrite Si in Sii. destruct Sii as [_ Ec]. subst cur.
  destruct (decide (stored st) q) as [[|]|e|] eqn:D; try discriminate.
  - split.
    + destruct (decide_accept _ _ (lo_wf _ _ _ LO) (lo_range _ _ _ LO) D) as [Sf _]. exact Sf.
    + unfold accepted_of. rewrite L. eapply life_last_accepted; eauto.
  - injection E as <-. cbn in Sg. exfalso.
    assert (Hl : length (signed st) = length (signed st ++ [q])) by (rewrite <- Sg; reflexivity).
    rewrite app_length in Hl. cbn in Hl. lia.
Qed.

(** * Without the lock discipline the statement is false *)
(* the seeded change C07-mut5: both payment handlers unlock right after reading.  Two payments
   built on the same revision 5: qa (revision 6) pays 50, qb (revision 7) pays 10.  Session 0 reads,
   unlocks and signs qa; session 1 reads the same stored revision, unlocks and signs qb; both
   persist.  The host has signed and stored revision 7, which pays it 40 less than revision 6 it
   signed a moment before; persisted in the other order the stored revision number goes back. *)
Definition mut_c0 : rev := R 1 0 4194304 1 100 200 [O 1 1000; O 2 500] [O 1 1000; O 2 400; O 0 100] 1 5.
Definition mut_qa : req := QPayment (R 1 0 4194304 1 100 200 [O 1 950; O 2 550] [O 1 950; O 2 450; O 0 100] 1 6) 50.
Definition mut_qb : req := QPayment (R 1 0 4194304 1 100 200 [O 1 990; O 2 510] [O 1 990; O 2 410; O 0 100] 1 7) 10.
Definition mut_schedule : list label :=
  [Lock 0; Read 0; Unlock 0; Decide 0 mut_qa;
   Lock 1; Read 1; Unlock 1; Decide 1 mut_qb;
   Persist 0; Persist 1].
Definition mut_schedule_back : list label :=
  [Lock 0; Read 0; Unlock 0; Decide 0 mut_qa;
   Lock 1; Read 1; Unlock 1; Decide 1 mut_qb;
   Persist 1; Persist 0].

Definition final_view (o : option cstate) : option (N * N * N * list N) :=
  match o with
  | Some st => Some (rnum (stored st), vh (stored st), total_price (signed st), map (fun q => rnum (req_rev q)) (clog st))
  | None => None
  end.

Lemma relaxed_refuted :
  wf mut_c0 /\ inrange mut_c0 /\
  (* the relaxed system accepts the schedule: both signed, revision 7 stored, host payout 510
     although the prices of what it signed add up to 60 over the initial 500 *)
  final_view (crun false (cinit mut_c0) mut_schedule) = Some (7, 510, 60, [6; 7]) /\
  (* no life run explains it *)
  (forall st, crun false (cinit mut_c0) mut_schedule = Some st ->
     ~ exists acc, life mut_c0 (clog st) = Ok (stored st, acc)) /\
  (* the other persisting order: the stored revision number goes back from 7 to 6 *)
  final_view (crun false (cinit mut_c0) mut_schedule_back) = Some (6, 550, 60, [7; 6]) /\
  (* the code as it is refuses the schedule: session 0 may not decide after it has unlocked *)
  crun true (cinit mut_c0) mut_schedule = None.
Proof.
  split; [repeat split; repeat constructor|].
  split; [repeat split; repeat constructor|].
  split; [vm_compute; reflexivity|].
  split.
  - intros st H [acc L]. vm_compute in H. injection H as <-. vm_compute in L. discriminate L.
  - split; vm_compute; reflexivity.
Qed.

(** * Non-vacuity: a strict schedule of three sessions *)
(* session 0 and 1 are asked for the lock in turn; 1 pays first, then 0 is decided against what 1
   left (a stale proposal built on revision 5 is refused, an honest one accepted), session 2
   locks and gives up *)
Definition ex_q1 : req := QPayment (R 1 0 4194304 1 100 200 [O 1 990; O 2 510] [O 1 990; O 2 410; O 0 100] 1 6) 10.
Definition ex_q0_stale : req := QPayment (R 1 0 4194304 1 100 200 [O 1 995; O 2 505] [O 1 995; O 2 405; O 0 100] 1 7) 5.
Definition ex_q0 : req := QRevision (R 1 0 4194304 1 100 200 [O 1 970; O 2 530] [O 1 970; O 2 405; O 0 125] 1 8) 20 5.
Definition ex_schedule : list label :=
  [Lock 1; Read 1; Decide 1 ex_q1; Persist 1; Unlock 1;
   Lock 0; Read 0; Decide 0 ex_q0_stale; Decide 0 ex_q0; Persist 0; Unlock 0;
   Lock 2; Unlock 2].

Lemma conc_ex :
  final_view (crun true (cinit mut_c0) ex_schedule) = Some (8, 530, 30, [6; 7; 8]) /\
  (* a session cannot get the lock while another holds it *)
  crun true (cinit mut_c0) [Lock 0; Lock 1] = None /\
  wf mut_c0 /\ inrange mut_c0.
Proof.
  split; [vm_compute; reflexivity|]. split; [vm_compute; reflexivity|].
  split; repeat split; repeat constructor.
Qed.

(** * Correspondence entry point for the concurrent session harness *)
(* one recorded run: the stored revision before, the requests the host decided in commit order;
   observed: which were counter-signed, and number / valid values / missed values of the stored
   revision afterwards *)
Definition lrun := (rev * list req)%type.
Definition lobs := (list bool * N * list N * list N)%type.

Fixpoint decisions (cur : rev) (l : list req) : option (list bool * rev) :=
  match l with
  | [] => Some ([], cur)
  | q :: t =>
      match decide cur q with
      | Ok true => match decisions (req_rev q) t with Some (d, c) => Some (true :: d, c) | None => None end
      | Ok false => match decisions cur t with Some (d, c) => Some (false :: d, c) | None => None end
      | _ => None
      end
  end.

Definition life_obs (r : lrun) : option lobs :=
  match decisions (fst r) (snd r) with
  | Some (d, c) => Some (d, rnum c, map oval (rvalid c), map oval (rmissed c))
  | None => None
  end.

(* [decisions] is [life]: same final revision, and the requests marked true are the accepted ones *)
Fixpoint pick {A} (d : list bool) (l : list A) : list A :=
  match d, l with
  | true :: d', x :: l' => x :: pick d' l'
  | false :: d', _ :: l' => pick d' l'
  | _, _ => []
  end.

Lemma decisions_life : forall l cur d c, decisions cur l = Some (d, c) ->
  life cur l = Ok (c, pick d l) /\ length d = length l.
Proof.
  induction l as [|q t IH]; intros cur d c H; cbn [decisions life] in *.
  - injection H as <- <-. split; reflexivity.
  - destruct (decide cur q) as [[|]|e|] eqn:D; try discriminate.
    + destruct (decisions (req_rev q) t) as [[d' c']|] eqn:E; try discriminate. injection H as <- <-.
      destruct (IH _ _ _ E) as [L Len]. rewrite L. cbn [pick length]. split; [reflexivity|lia].
    + destruct (decisions cur t) as [[d' c']|] eqn:E; try discriminate. injection H as <- <-.
      destruct (IH _ _ _ E) as [L Len]. rewrite L. cbn [pick length]. split; [reflexivity|lia].
Qed.

Definition lobs_eqb (a b : lobs) : bool :=
  let '(d1, n1, v1, m1) := a in let '(d2, n2, v2, m2) := b in
  list_eqb Bool.eqb d1 d2 && (n1 =? n2) && list_eqb N.eqb v1 v2 && list_eqb N.eqb m1 m2.

Definition lcase := (N * list lrun * list (option lobs))%type.
Definition lcheck (cs : list lcase) := fmismatches (map life_obs) (list_eqb (option_eqb lobs_eqb)) cs.
