(* C07, lifted to the whole life of a contract.  Statements only; every proof is [exact lemma].
   Model: Lifetime/Life.v over Revision/Model.v (= rhp/contracts.go).

   [life c0 l = Ok (c, acc)]: starting from the stored revision c0, the renter sends the requests
   l (each a proposed revision for RHP2 read/write/sector-roots, RHP3 program finalisation or RHP3
   payment, with the price and collateral figures the host computed); c is the revision the host
   holds afterwards and acc the requests it counter-signed, in order. *)
From HostdBase Require Import Base.
From HostdRevision Require Import Model Proofs.
From HostdLifetime Require Import Life.
Local Open Scope N_scope.

(* for every request list — any length, any shapes, any values — the host neither panics nor
   errors out: each request is either counter-signed or refused *)
Theorem c07_life_total : forall l cur, exists r acc, life cur l = Ok (r, acc).
Proof. exact life_total. Qed.
Print Assumptions c07_life_total.

(* at every point of a contract's life: the stored revision is well formed; its number has
   strictly increased with every counter-signature; unlock hash/conditions, proof window, output
   counts, addresses and both payout sums are those the contract started with; no renter payout
   ever exceeds its initial value; the host's valid payout has gained at least the sum of the
   prices of everything it counter-signed, and its missed payout has lost at most the sum of the
   collateral (+ storage revenue for programs) it agreed to put at risk *)
Theorem c07_life_safe : forall l c0 c acc,
  wf c0 -> inrange c0 -> life c0 l = Ok (c, acc) -> life_ok c0 c acc.
Proof. exact life_sound. Qed.
Print Assumptions c07_life_safe.

(* refused requests leave no trace: the stored revision is the last counter-signed one *)
Theorem c07_life_refused_changes_nothing : forall l c0 c acc,
  life c0 l = Ok (c, acc) -> c = last (map req_rev acc) c0.
Proof. exact life_last_accepted. Qed.
Print Assumptions c07_life_refused_changes_nothing.

(* a cleared / locked contract (revision number 2^64-1) is never revised again *)
Theorem c07_life_locked_is_final : forall l c0 c acc,
  wf c0 -> inrange c0 -> rnum c0 = max64 ->
  (forall q, In q l -> rnum (req_rev q) <= max64) ->
  life c0 l = Ok (c, acc) -> c = c0 /\ acc = [].
Proof. exact life_after_max. Qed.
Print Assumptions c07_life_locked_is_final.

Example c07_life_nonvacuous : exists c acc, life c0_ex l_ex = Ok (c, acc) /\ length acc = 2%nat /\ rnum c = 9 /\ vh c = 530 /\
  wf c0_ex /\ inrange c0_ex.
Proof. exact life_ex. Qed.
