(* Lifetime/Renew.v — WP-L7: renewals and clearing revisions inside the life of a contract.

   [Life.v] is one contract and the revising RPCs; here a request may also be a renewal
   (rhp/v2/rpc.go rpcRenewAndClearContract, rhp/v3/rpc.go handleRPCRenew), and the state is the
   CHAIN of contracts a renter has formed by renewing: contract k was renewed into contract k+1.

   What the handlers do, in the model's words (the decision part of both handlers is the model
   of C12, Formation/Model.v [renew2]/[renew3], imported — not restated):
     - Manager.Lock (host/contracts/lock.go, isGoodForModification) / session.ContractRevisable
       refuse a contract whose stored revision number is the maximum, before anything else: [xstep];
     - the clearing revision is built from the renter's values (RHP2, [clearing_revision]) or taken
       from the renter's transaction (RHP3) and must pass ValidateClearingRevision; the renewal
       contract must pass renewalBaseCosts + validateContractRenewal: [renew_handler];
     - the signed renewal transaction goes through chain.AddPoolTransactions, i.e. core's consensus
       validation; of validateFileContracts the model has the one rule C07 depends on — the valid
       and the missed outputs of a file contract have the same sum — [pool_rule] (tied by directed
       harness cases: a renewal that passes the host's validators with unequal renter payouts is
       refused by the real node); everything else that can still fail (funding by the wallet, the
       renter's signatures, the rest of the pool validation, Revisable, Manager.RenewContract's
       sanity checks, the store) is the oracle bit [rw_tail] set by the harness: true for a request
       it built honestly, false where it provoked such a failure;
     - Manager.RenewContract stores the clearing revision for the predecessor and
       InitialRevision(renewal transaction) for the successor in one store transaction.
   A refused request changes nothing.

   State: per contract a history record [hist] — the revision it started with, the revising
   requests counter-signed for it, the revision that was stored when it was cleared, and the
   stored revision.  Only [h_cur] is read by the decisions; the other fields are the bookkeeping
   the theorems talk about. *)
From HostdBase Require Import Base.
From HostdRevision Require Import Model Proofs.
From HostdFormation Require Model Proofs.
From HostdLifetime Require Import Life Conc.
From Coq Require Import Lia ZifyBool ZifyN ZifyNat Arith.
Local Open Scope N_scope.

Module FM := HostdFormation.Model.
Module FP := HostdFormation.Proofs.

(** * Requests *)

Inductive renewal :=
| Renew2 (vals : list N) (rn : rev) (uhexp height require : N) (s : FM.settings2)
    (* RHP2: FinalValidProofValues, the renewal contract, and what the handler reads of its
       surroundings (Formation/Model.v renew2) *)
| Renew3 (accepting : bool) (clr rn : rev) (uhexp wallet require : N) (pt : FM.ptable).
    (* RHP3: the clearing revision and the renewal contract of the renter's transaction
       (Formation/Model.v renew3) *)

Record rnw := mkRnw {
  rw_req   : renewal;
  rw_other : N;        (* id of the successor's ParentID (rother of its initial revision) *)
  rw_uc    : N;        (* id of contractUnlockConditions(hostKey, renterKey).UnlockHash() *)
  rw_tail  : bool      (* funding, signatures, rest of the pool validation, RenewContract succeed *)
}.

Definition renewal_rn (r : renewal) : rev :=
  match r with Renew2 _ rn _ _ _ _ => rn | Renew3 _ _ rn _ _ _ _ => rn end.

(* the decision part of the handler: Formation's model of it *)
Definition renew_handler (cur : rev) (r : renewal) : res FM.outv :=
  match r with
  | Renew2 vals rn uh h rq s => FM.renew2 cur vals rn uh h rq s
  | Renew3 a clr rn uh w rq pt => FM.renew3 a cur clr rn uh w rq pt
  end.

(* the clearing revision the handler signs and hands to RenewContract *)
Definition renew_clearing (cur : rev) (r : renewal) : res rev :=
  match r with
  | Renew2 vals _ _ _ _ _ => clearing_revision cur vals
  | Renew3 _ clr _ _ _ _ _ => Ok clr
  end.

(* the payment the clearing revision must at least make: min(renter payout, BaseRPCPrice) in
   RHP2, nothing in RHP3 *)
Definition renew_payment (cur : rev) (r : renewal) : N :=
  match r with
  | Renew2 _ _ _ _ _ s => N.min (vr cur) (FM.s_baserpc s)
  | Renew3 _ _ _ _ _ _ _ => 0
  end.

(* core consensus, validateFileContracts: "valid payout that does not equal missed payout" *)
Definition pool_rule (fc : rev) : bool := sumv (rvalid fc) =? sumv (rmissed fc).

(* [Some (clearing revision, initial revision of the successor)] = renewed, [None] = refused *)
Definition renew_decide (cur : rev) (r : rnw) : res (option (rev * rev)) :=
  match renew_handler cur (rw_req r) with
  | Panic => Panic
  | Err _ => Ok None
  | Ok _ =>
      let rn := renewal_rn (rw_req r) in
      if negb (pool_rule rn) then Ok None else
      if negb (rw_tail r) then Ok None else
      match renew_clearing cur (rw_req r) with
      | Ok clr => Ok (Some (clr, initial_revision rn (rw_other r) (rw_uc r)))
      | Err _ => Ok None
      | Panic => Panic
      end
  end.

Inductive xreq :=
| XRev (i : nat) (q : req)          (* a revising RPC for contract i of the chain *)
| XRenew (i : nat) (r : rnw).       (* a renewal of contract i *)

Definition xreq_idx (x : xreq) : nat := match x with XRev i _ => i | XRenew i _ => i end.

(** * State and step *)

Record hist := mkH {
  h_init : rev;          (* the revision the contract started with *)
  h_acc  : list req;     (* the revising requests counter-signed for it, in order *)
  h_pre  : option rev;   (* once renewed: the revision that was stored when it was cleared *)
  h_cur  : rev           (* the stored revision *)
}.
Definition fresh (c : rev) : hist := mkH c [] None c.

Definition set_at {A} (i : nat) (x : A) (l : list A) : list A := firstn i l ++ x :: skipn (S i) l.

Definition xstep (st : list hist) (x : xreq) : res (list hist * bool) :=
  match nth_error st (xreq_idx x) with
  | None => Ok (st, false)                               (* Lock: no such contract *)
  | Some h =>
      let cur := h_cur h in
      if rnum cur =? max64 then Ok (st, false) else      (* Lock / ContractRevisable *)
      match x with
      | XRev i q =>
          match decide cur q with
          | Ok true => Ok (set_at i (mkH (h_init h) (h_acc h ++ [q]) (h_pre h) (req_rev q)) st, true)
          | Ok false => Ok (st, false)
          | Err e => Err e
          | Panic => Panic
          end
      | XRenew i r =>
          match renew_decide cur r with
          | Ok (Some (clr, ini)) =>
              Ok (set_at i (mkH (h_init h) (h_acc h) (Some cur) clr) st ++ [fresh ini], true)
          | Ok None => Ok (st, false)
          | Err e => Err e
          | Panic => Panic
          end
      end
  end.

(* the chain after a list of requests, and the accepted ones in order *)
Fixpoint xlife (st : list hist) (l : list xreq) : res (list hist * list xreq) :=
  match l with
  | [] => Ok (st, [])
  | x :: t =>
      match xstep st x with
      | Ok (st', true) => match xlife st' t with Ok (s, acc) => Ok (s, x :: acc) | e => e end
      | Ok (st', false) => xlife st' t
      | Err e => Err e
      | Panic => Panic
      end
  end.

(** * What Go's types give: Currency is 128 bit.  (Nothing is assumed about revising requests.) *)
Definition renewal_typed (r : renewal) : Prop :=
  match r with
  | Renew2 vals rn _ _ _ _ => Forall (fun v => v < two128) vals /\ inrange rn
  | Renew3 _ clr rn _ _ _ _ => inrange clr /\ inrange rn
  end.
Definition xreq_typed (x : xreq) : Prop :=
  match x with XRev _ _ => True | XRenew _ r => renewal_typed (rw_req r) end.

(** * The invariant *)

(* a contract that can still be revised: an all-accepted life run leads from its first revision
   to the stored one *)
Definition live_ok (h : hist) : Prop :=
  h_pre h = None /\ wf (h_init h) /\ inrange (h_init h) /\
  life (h_init h) (h_acc h) = Ok (h_cur h, h_acc h).

(* a renewed contract: such a run leads to the revision [p] it was cleared from, and the stored
   revision is a clearing revision of [p] *)
Definition done_ok (h : hist) : Prop :=
  exists p pay, h_pre h = Some p /\ wf (h_init h) /\ inrange (h_init h) /\
  life (h_init h) (h_acc h) = Ok (p, h_acc h) /\
  cleared p (h_cur h) pay /\ inrange (h_cur h).

Definition chain_ok (st : list hist) : Prop :=
  exists pre last, st = pre ++ [last] /\ Forall done_ok pre /\ live_ok last.

(** * list helpers *)
Lemma set_at_last : forall (A : Type) (pre : list A) (a x : A), set_at (length pre) x (pre ++ [a]) = pre ++ [x].
Proof.
  intros A pre a x. unfold set_at.
  rewrite firstn_app, firstn_all, Nat.sub_diag. cbn [firstn]. rewrite app_nil_r.
  rewrite skipn_app. replace (S (length pre) - length pre)%nat with 1%nat by lia.
  rewrite skipn_all2 by lia. reflexivity.
Qed.

Lemma nth_error_snoc : forall (A : Type) (pre : list A) (a : A) i h,
  nth_error (pre ++ [a]) i = Some h ->
  ((i < length pre)%nat /\ nth_error pre i = Some h) \/ (i = length pre /\ h = a).
Proof.
  intros A pre a i h H. destruct (Nat.lt_ge_cases i (length pre)) as [L|L].
  - left. rewrite nth_error_app1 in H by assumption. auto.
  - right. rewrite nth_error_app2 in H by assumption.
    destruct (i - length pre)%nat as [|k] eqn:E; cbn in H.
    + injection H as <-. split; [lia|reflexivity].
    + destruct k; discriminate.
Qed.

Lemma life_snoc_acc : forall c0 l c acc q, life c0 l = Ok (c, acc) -> decide c q = Ok true ->
  life c0 (l ++ [q]) = Ok (req_rev q, acc ++ [q]).
Proof. intros c0 l c acc q L D. rewrite (life_app _ [q] _ _ _ L). cbn [life]. rewrite D. reflexivity. Qed.

(** * facts about the renewal decision *)

Lemma cleared_max : forall p c pay, cleared p c pay -> rnum c = max64.
Proof. intros p c pay H. unfold cleared in H. tauto. Qed.

(* what an accepted handler decision contains *)
Lemma renew_handler_inv : forall cur r o,
  inrange cur -> renewal_typed r -> renew_handler cur r = Ok o ->
  exists clr toHost, renew_clearing cur r = Ok clr /\ inrange clr /\
    validate_clearing cur clr (renew_payment cur r) = Ok toHost /\
    (forall other uc, shape23 (initial_revision (renewal_rn r) other uc)).
Proof.
  intros cur r o Rc T H. destruct r as [vals rn uh h rq s|a clr rn uh w rq pt];
    cbn [renew_handler renew_clearing renew_payment renewal_rn renewal_typed] in *.
  - destruct T as [Tv Tn]. unfold FM.renew2, bad in H.
    step H. step H. step H. step H.
    destruct (clearing_revision cur vals) as [clr| |] eqn:Ec; cbn [bind] in H; try discriminate.
    destruct (valid_renter cur) as [evr| |] eqn:Er; cbn [bind] in H; try discriminate.
    destruct (validate_clearing cur clr (if evr <? FM.s_baserpc s then evr else FM.s_baserpc s)) as [fp| |] eqn:Ef;
      cbn [bind] in H; try discriminate.
    destruct (FM.base_costs (FM.s_price s) (FM.s_storage s) (FM.s_coll s) cur rn) as [[br bc]| |] eqn:Eb;
      cbn [bind fst snd] in H; try discriminate.
    destruct (FM.validate_renewal2 cur rn uh br bc h s) as [x| |] eqn:Ev; cbn [bind] in H; try discriminate.
    apply acc_ok in Er as [-> _]. fold (vr cur) in Ef.
    pose proof (clearing_revision_sound _ _ _ Ec) as (_ & _ & _ & _ & Hm & Hv & _).
    assert (Rclr : inrange clr).
    { unfold inrange. rewrite Hm. rewrite <- Hv in Tv. apply FP.forall_vals_inrange in Tv. split; assumption. }
    replace (if vr cur <? FM.s_baserpc s then vr cur else FM.s_baserpc s) with (N.min (vr cur) (FM.s_baserpc s)) in Ef
      by (destruct (vr cur <? FM.s_baserpc s) eqn:Cm; lia).
    exists clr, fp. split; [reflexivity|]. split; [assumption|]. split; [assumption|].
    intros other uc. eapply FP.renewal2_establishes_shape; eauto.
  - destruct T as [Tc Tn]. unfold FM.renew3, bad in H.
    step H. step H.
    destruct (validate_clearing cur clr 0) as [fp| |] eqn:Ef; cbn [bind] in H; try discriminate.
    destruct (FM.base_costs (FM.p_renewcost pt) (FM.p_writestore pt) (FM.p_collcost pt) cur rn) as [[br bc]| |] eqn:Eb;
      cbn [bind fst snd] in H; try discriminate.
    destruct (FM.validate_renewal3 cur rn uh w br bc pt) as [x| |] eqn:Ev; cbn [bind] in H; try discriminate.
    exists clr, fp. split; [reflexivity|]. split; [assumption|]. split; [assumption|].
    intros other uc. eapply FP.renewal3_establishes_shape; eauto.
Qed.

(* ... without any typing assumption: the clearing revision has the maximum number *)
Lemma renew_handler_max : forall cur r o clr,
  renew_handler cur r = Ok o -> renew_clearing cur r = Ok clr -> rnum clr = max64.
Proof.
  intros cur r o clr H Hc. destruct r as [vals rn uh h rq s|a clr' rn uh w rq pt];
    cbn [renew_handler renew_clearing] in *.
  - apply clearing_revision_sound in Hc. tauto.
  - injection Hc as ->. unfold FM.renew3, bad in H. step H. step H.
    destruct (validate_clearing cur clr 0) as [fp| |] eqn:Ef; cbn [bind] in H; try discriminate.
    unfold validate_clearing, bad in Ef.
    step Ef. step Ef. step Ef. step Ef. step Ef. step Ef. step Ef. step Ef. lia.
Qed.

Lemma renew_handler_no_panic : forall cur r,
  (1 <= length (rvalid cur))%nat -> renewal_typed r -> renew_handler cur r <> Panic.
Proof.
  intros cur r L T. destruct r as [vals rn uh h rq s|a clr rn uh w rq pt]; cbn [renew_handler renewal_typed] in *.
  - apply FP.renew2_no_panic; assumption.
  - apply FP.renew3_no_panic; tauto.
Qed.

Lemma initial_inrange : forall rn other uc, inrange rn -> inrange (initial_revision rn other uc).
Proof. intros rn other uc H. exact H. Qed.

(* an accepted renewal, taken apart *)
Lemma renew_decide_some : forall cur r clr ini,
  inrange cur -> renewal_typed (rw_req r) ->
  renew_decide cur r = Ok (Some (clr, ini)) ->
  renew_clearing cur (rw_req r) = Ok clr /\
  ini = initial_revision (renewal_rn (rw_req r)) (rw_other r) (rw_uc r) /\
  cleared cur clr (renew_payment cur (rw_req r)) /\ inrange clr /\
  wf ini /\ inrange ini /\ rw_tail r = true /\ pool_rule (renewal_rn (rw_req r)) = true /\
  exists o, renew_handler cur (rw_req r) = Ok o.
Proof.
  intros cur r clr ini Rc T H. unfold renew_decide in H.
  destruct (renew_handler cur (rw_req r)) as [o| |] eqn:Eh; try discriminate.
  destruct (pool_rule (renewal_rn (rw_req r))) eqn:Ep; cbn [negb] in H; [|discriminate].
  destruct (rw_tail r) eqn:Et; cbn [negb] in H; [|discriminate].
  destruct (renew_handler_inv _ _ _ Rc T Eh) as (clr' & toHost & Ec & Rclr & Ev & Sh).
  rewrite Ec in H. injection H as <- <-.
  apply validate_clearing_sound in Ev as (Cl & _); [|assumption|assumption].
  assert (Rrn : inrange (renewal_rn (rw_req r))).
  { destruct (rw_req r); cbn [renewal_typed renewal_rn] in *; tauto. }
  split; [exact Ec|]. split; [reflexivity|]. split; [assumption|]. split; [assumption|].
  split; [split; [apply Sh|apply N.eqb_eq; exact Ep]|].
  split; [exact Rrn|]. split; [reflexivity|]. split; [reflexivity|]. eexists; reflexivity.
Qed.

Lemma renew_decide_total : forall cur r,
  (1 <= length (rvalid cur))%nat -> renewal_typed (rw_req r) ->
  exists o, renew_decide cur r = Ok o.
Proof.
  intros cur r L T. unfold renew_decide.
  pose proof (renew_handler_no_panic cur (rw_req r) L T) as NP.
  destruct (renew_handler cur (rw_req r)) as [o| |] eqn:Eh; [|eauto|congruence].
  destruct (pool_rule _); cbn [negb]; [|eauto].
  destruct (rw_tail r); cbn [negb]; [|eauto].
  destruct (rw_req r) as [vals rn uh h rq s|a clr rn uh w rq pt]; cbn [renew_clearing renew_handler] in *.
  - pose proof (clearing_revision_no_panic cur vals).
    destruct (clearing_revision cur vals); eauto. congruence.
  - eauto.
Qed.

(** * one step keeps the invariant *)

Lemma live_cur : forall h, live_ok h -> wf (h_cur h) /\ inrange (h_cur h).
Proof.
  intros h (_ & W & R & L). pose proof (life_sound _ _ _ _ W R L) as S. destruct S. split; assumption.
Qed.

Lemma xstep_inv : forall st x, chain_ok st -> xreq_typed x ->
  exists st' b, xstep st x = Ok (st', b) /\ chain_ok st' /\ (b = false -> st' = st).
Proof.
  intros st x (pre & last & -> & Fp & Ll) T. unfold xstep.
  destruct (nth_error (pre ++ [last]) (xreq_idx x)) as [h|] eqn:En.
  2:{ exists (pre ++ [last]), false. split; [reflexivity|]. split; [exists pre, last; auto|auto]. }
  assert (Same : chain_ok (pre ++ [last])) by (exists pre, last; auto).
  apply nth_error_snoc in En as [[Li En]|[Ei ->]].
  - (* a renewed contract: its stored revision has the maximum number *)
    apply nth_error_In in En. rewrite Forall_forall in Fp. destruct (Fp _ En) as (p & pay & _ & _ & _ & _ & Cl & _).
    apply cleared_max in Cl. cbn zeta. rewrite Cl, N.eqb_refl.
    exists (pre ++ [last]), false. auto.
  - cbn zeta. destruct (rnum (h_cur last) =? max64) eqn:Em.
    { exists (pre ++ [last]), false. auto. }
    destruct (live_cur _ Ll) as [Wc Rc]. destruct Ll as (Hp & Wi & Ri & Lf).
    destruct x as [i q|i r]; cbn [xreq_idx] in Ei; subst i.
    + destruct (decide (h_cur last) q) as [[|]|e|] eqn:D.
      * rewrite set_at_last. eexists. exists true. split; [reflexivity|]. split; [|discriminate].
        eexists pre, _. split; [reflexivity|]. split; [assumption|].
        unfold live_ok; cbn [h_pre h_init h_acc h_cur].
        split; [assumption|]. split; [assumption|]. split; [assumption|].
        eapply life_snoc_acc; eassumption.
      * exists (pre ++ [last]), false. auto.
      * exfalso. eapply decide_no_err; eauto.
      * exfalso. eapply decide_no_panic; eauto.
    + cbn [xreq_typed] in T.
      assert (L1 : (1 <= length (rvalid (h_cur last)))%nat) by (destruct Wc as [[Lv _] _]; lia).
      destruct (renew_decide_total (h_cur last) r L1 T) as [[[clr ini]|] Ed]; rewrite Ed.
      * rewrite set_at_last. eexists. exists true. split; [reflexivity|]. split; [|discriminate].
        destruct (renew_decide_some _ _ _ _ Rc T Ed) as (_ & _ & Cl & Rclr & Wn & Rn & _).
        exists (pre ++ [mkH (h_init last) (h_acc last) (Some (h_cur last)) clr]), (fresh ini).
        split; [reflexivity|]. split.
        -- apply Forall_app. split; [assumption|]. constructor; [|constructor].
           exists (h_cur last), (renew_payment (h_cur last) (rw_req r)). cbn [h_pre h_init h_acc h_cur].
           split; [reflexivity|]. do 4 (split; [assumption|]). assumption.
        -- unfold live_ok, fresh; cbn [h_pre h_init h_acc h_cur life].
           split; [reflexivity|]. split; [assumption|]. split; [assumption|]. reflexivity.
      * exists (pre ++ [last]), false. auto.
Qed.

Lemma fresh_ok : forall c0, wf c0 -> inrange c0 -> chain_ok [fresh c0].
Proof.
  intros c0 W R. exists [], (fresh c0). split; [reflexivity|]. split; [constructor|].
  unfold live_ok, fresh; cbn [h_pre h_init h_acc h_cur life].
  split; [reflexivity|]. split; [assumption|]. split; [assumption|]. reflexivity.
Qed.

(* every request list, of any length and content, over a chain of any length: the host neither
   panics nor errors out, and the invariant holds afterwards *)
Lemma xlife_inv : forall l st, chain_ok st -> Forall xreq_typed l ->
  exists st' acc, xlife st l = Ok (st', acc) /\ chain_ok st'.
Proof.
  induction l as [|x t IH]; intros st C T; cbn [xlife]; [eauto|].
  inversion T as [|? ? Tx Tt]; subst.
  destruct (xstep_inv st x C Tx) as (st1 & b & E & C1 & _). rewrite E.
  destruct (IH st1 C1 Tt) as (st' & acc & E' & C'). rewrite E'.
  destruct b; eauto.
Qed.

(** * the per-contract statement *)

(* what the invariant says about each contract of the chain, in the words of Life.v *)
Definition contract_ok (h : hist) : Prop :=
  wf (h_init h) /\ inrange (h_init h) /\
  match h_pre h with
  | None => life (h_init h) (h_acc h) = Ok (h_cur h, h_acc h) /\ life_ok (h_init h) (h_cur h) (h_acc h)
  | Some p => life (h_init h) (h_acc h) = Ok (p, h_acc h) /\ life_ok (h_init h) p (h_acc h) /\
              (exists pay, cleared p (h_cur h) pay) /\ rnum (h_cur h) = max64
  end.

Lemma chain_contracts : forall st, chain_ok st ->
  Forall contract_ok st /\
  exists pre last, st = pre ++ [last] /\ h_pre last = None /\ Forall (fun h => h_pre h <> None) pre.
Proof.
  intros st (pre & last & -> & Fp & Ll). split.
  - apply Forall_app. split.
    + eapply Forall_impl; [|exact Fp]. intros h (p & pay & Hp & W & R & L & Cl & _).
      unfold contract_ok. rewrite Hp. split; [assumption|]. split; [assumption|]. split; [assumption|].
      split; [eapply life_sound; eauto|]. split; [eauto|]. eapply cleared_max; eauto.
    + constructor; [|constructor]. destruct Ll as (Hp & W & R & L).
      unfold contract_ok. rewrite Hp. split; [assumption|]. split; [assumption|]. split; [assumption|].
      eapply life_sound; eauto.
  - exists pre, last. split; [reflexivity|]. split; [apply Ll|].
    eapply Forall_impl; [|exact Fp]. intros h (p & pay & Hp & _). congruence.
Qed.

Lemma chain_safe : forall l c0 st acc, wf c0 -> inrange c0 -> Forall xreq_typed l ->
  xlife [fresh c0] l = Ok (st, acc) ->
  Forall contract_ok st /\
  exists pre last, st = pre ++ [last] /\ h_pre last = None /\ Forall (fun h => h_pre h <> None) pre.
Proof.
  intros l c0 st acc W R T H.
  destruct (xlife_inv l _ (fresh_ok c0 W R) T) as (st' & acc' & E & C).
  rewrite E in H. injection H as <- <-. apply chain_contracts. exact C.
Qed.

Lemma chain_total : forall l c0, wf c0 -> inrange c0 -> Forall xreq_typed l ->
  exists st acc, xlife [fresh c0] l = Ok (st, acc).
Proof.
  intros l c0 W R T. destruct (xlife_inv l _ (fresh_ok c0 W R) T) as (st & acc & E & _). eauto.
Qed.

Lemma chain_reachable_ok : forall l c0 st acc, wf c0 -> inrange c0 -> Forall xreq_typed l ->
  xlife [fresh c0] l = Ok (st, acc) -> chain_ok st.
Proof.
  intros l c0 st acc W R T H.
  destruct (xlife_inv l _ (fresh_ok c0 W R) T) as (st' & acc' & E & C).
  rewrite E in H. injection H as <- <-. exact C.
Qed.

(** * every single counter-signature *)

(* the host side of an accepted renewal contract, from the validators alone (no window
   arithmetic, hence no no-wrap assumption): what the host can lose when it misses the proof goes
   to the void output, never to the renter; with the pool's rule the renter's payout is the same
   both ways *)
Lemma renewal_host_side : forall cur r o, inrange (renewal_rn r) -> renew_handler cur r = Ok o ->
  let rn := renewal_rn r in mh rn <= vh rn /\ mvoid rn = vh rn - mh rn.
Proof.
  intros cur r o Rn H. cbn zeta.
  pose proof (inrange_vals _ Rn) as (_ & Rvh & _ & Rmh & Rvoid).
  destruct r as [vals rn uh h rq s|a clr rn uh w rq pt]; cbn [renew_handler renewal_rn] in *.
  - unfold FM.renew2, bad in H. step H. step H. step H. step H.
    destruct (clearing_revision cur vals) as [clr| |]; cbn [bind] in H; try discriminate.
    destruct (valid_renter cur) as [evr| |]; cbn [bind] in H; try discriminate.
    match type of H with context [validate_clearing ?a ?b ?c] => destruct (validate_clearing a b c) as [fp| |]; cbn [bind] in H; try discriminate end.
    destruct (FM.base_costs (FM.s_price s) (FM.s_storage s) (FM.s_coll s) cur rn) as [[br bc]| |]; cbn [bind fst snd] in H; try discriminate.
    destruct (FM.validate_renewal2 cur rn uh br bc h s) as [x| |] eqn:Ev; cbn [bind] in H; try discriminate.
    clear H. unfold FM.validate_renewal2, bad in Ev.
    destruct (FM.renewal_std cur rn uh h (FM.s_window s) (FM.s_maxdur s) (FM.s_address s)) as [[]| |] eqn:Es; cbn [bind] in Ev; try discriminate.
    destruct (FP.renewal_std_shape _ _ _ _ _ _ _ 0 0 Es) as [[Lv Lm] _].
    destruct (FP.nth_out_eval (rmissed rn) 2) as (o3 & E3 & A3 & V3); [lia|].
    rewrite E3, (valid_host_eval rn), (missed_host_eval rn) in Ev by lia; cbn [bind] in Ev.
    step Ev. step Ev. step Ev. step Ev.
    apply csub_u_false in S0 as [? ->]; [|assumption].
    fold (mvoid rn) in V3. split; lia.
  - unfold FM.renew3, bad in H. step H. step H.
    destruct (validate_clearing cur clr 0) as [fp| |]; cbn [bind] in H; try discriminate.
    destruct (FM.base_costs (FM.p_renewcost pt) (FM.p_writestore pt) (FM.p_collcost pt) cur rn) as [[br bc]| |]; cbn [bind fst snd] in H; try discriminate.
    destruct (FM.validate_renewal3 cur rn uh w br bc pt) as [x| |] eqn:Ev; cbn [bind] in H; try discriminate.
    clear H. unfold FM.validate_renewal3, bad in Ev.
    destruct (FM.renewal_std cur rn uh (FM.p_height pt) (FM.p_window pt) (FM.p_maxdur pt) w) as [[]| |] eqn:Es; cbn [bind] in Ev; try discriminate.
    destruct (FP.renewal_std_shape _ _ _ _ _ _ _ 0 0 Es) as [[Lv Lm] _].
    destruct (FP.nth_out_eval (rmissed rn) 2) as (o3 & E3 & A3 & V3); [lia|].
    rewrite E3, (valid_host_eval rn), (missed_host_eval rn) in Ev by lia; cbn [bind] in Ev.
    step Ev. step Ev. step Ev. step Ev.
    apply csub_u_false in S0 as [? ->]; [|assumption].
    fold (mvoid rn) in V3. split; lia.
Qed.

Lemma renew_keeps_data : forall cur r o, renew_handler cur r = Ok o ->
  rsize (renewal_rn r) = rsize cur /\ rroot (renewal_rn r) = rroot cur.
Proof.
  intros cur r o H. destruct r as [vals rn uh h rq s|a clr rn uh w rq pt]; cbn [renew_handler renewal_rn] in *.
  - unfold FM.renew2, bad in H. step H. step H. step H. step H.
    destruct (clearing_revision cur vals) as [clr| |]; cbn [bind] in H; try discriminate.
    destruct (valid_renter cur) as [evr| |]; cbn [bind] in H; try discriminate.
    match type of H with context [validate_clearing ?a ?b ?c] => destruct (validate_clearing a b c) as [fp| |]; cbn [bind] in H; try discriminate end.
    destruct (FM.base_costs (FM.s_price s) (FM.s_storage s) (FM.s_coll s) cur rn) as [[br bc]| |]; cbn [bind fst snd] in H; try discriminate.
    destruct (FM.validate_renewal2 cur rn uh br bc h s) as [x| |] eqn:Ev; cbn [bind] in H; try discriminate.
    unfold FM.validate_renewal2 in Ev.
    destruct (FM.renewal_std cur rn uh h (FM.s_window s) (FM.s_maxdur s) (FM.s_address s)) as [[]| |] eqn:Es; cbn [bind] in Ev; try discriminate.
    unfold FM.renewal_std, bad in Es. step Es. step Es. step Es. split; lia.
  - unfold FM.renew3, bad in H. step H. step H.
    destruct (validate_clearing cur clr 0) as [fp| |]; cbn [bind] in H; try discriminate.
    destruct (FM.base_costs (FM.p_renewcost pt) (FM.p_writestore pt) (FM.p_collcost pt) cur rn) as [[br bc]| |]; cbn [bind fst snd] in H; try discriminate.
    destruct (FM.validate_renewal3 cur rn uh w br bc pt) as [x| |] eqn:Ev; cbn [bind] in H; try discriminate.
    unfold FM.validate_renewal3 in Ev.
    destruct (FM.renewal_std cur rn uh (FM.p_height pt) (FM.p_window pt) (FM.p_maxdur pt) w) as [[]| |] eqn:Es; cbn [bind] in Ev; try discriminate.
    unfold FM.renewal_std, bad in Es. step Es. step Es. step Es. split; lia.
Qed.

(* what one accepted request is, relative to the chain it was decided on *)
Definition step_safe (st : list hist) (x : xreq) (st' : list hist) : Prop :=
  exists pre last, st = pre ++ [last] /\ xreq_idx x = length pre /\
  wf (h_cur last) /\ inrange (h_cur last) /\ rnum (h_cur last) <> max64 /\
  match x with
  | XRev _ q =>
      (* a revising RPC: the C07 conjunction relative to the stored revision *)
      safe_revision (h_cur last) (req_rev q) (req_price q) (req_maxburn q) /\
      st' = pre ++ [mkH (h_init last) (h_acc last ++ [q]) None (req_rev q)]
  | XRenew _ r =>
      let rn := renewal_rn (rw_req r) in
      let ini := initial_revision rn (rw_other r) (rw_uc r) in
      exists clr,
      (* the clearing revision *)
      renew_clearing (h_cur last) (rw_req r) = Ok clr /\
      cleared (h_cur last) clr (renew_payment (h_cur last) (rw_req r)) /\
      (* nothing is created in the predecessor: what the host gains the renter gives up *)
      vh clr - vh (h_cur last) = vr (h_cur last) - vr clr /\
      (* predecessor final, successor starts from the validated renewal contract *)
      st' = pre ++ [mkH (h_init last) (h_acc last) (Some (h_cur last)) clr; fresh ini] /\
      wf ini /\ inrange ini /\ rnum ini = 1 /\
      rvalid ini = rvalid rn /\ rmissed ini = rmissed rn /\
      rsize ini = rsize (h_cur last) /\ rroot ini = rroot (h_cur last) /\
      (* host side of the successor: the difference between its two payouts is burnt, the
         renter's payout does not depend on the outcome *)
      mh ini <= vh ini /\ mvoid ini = vh ini - mh ini /\ vr ini = mr ini /\
      pool_rule rn = true /\ rw_tail r = true /\
      exists o, renew_handler (h_cur last) (rw_req r) = Ok o
  end.

Lemma xstep_safe : forall st x st', chain_ok st -> xreq_typed x ->
  xstep st x = Ok (st', true) -> step_safe st x st'.
Proof.
  intros st x st' (pre & last & -> & Fp & Ll) T H. unfold xstep in H.
  destruct (nth_error (pre ++ [last]) (xreq_idx x)) as [h|] eqn:En; [|discriminate].
  apply nth_error_snoc in En as [[Li En]|[Ei ->]].
  - apply nth_error_In in En. rewrite Forall_forall in Fp. destruct (Fp _ En) as (p & pay & _ & _ & _ & _ & Cl & _).
    apply cleared_max in Cl. cbn zeta in H. rewrite Cl, N.eqb_refl in H. discriminate.
  - cbn zeta in H. destruct (rnum (h_cur last) =? max64) eqn:Em; [discriminate|].
    apply N.eqb_neq in Em.
    destruct (live_cur _ Ll) as [Wc Rc]. destruct Ll as (Hp & Wi & Ri & Lf).
    exists pre, last. split; [reflexivity|]. split; [assumption|].
    split; [assumption|]. split; [assumption|]. split; [assumption|].
    destruct x as [i q|i r]; cbn [xreq_idx] in Ei; subst i.
    + destruct (decide (h_cur last) q) as [[|]|e|] eqn:D; try discriminate.
      rewrite set_at_last in H. injection H as <-. rewrite Hp.
      destruct (decide_accept _ _ Wc Rc D) as (S & _). split; [exact S|reflexivity].
    + cbn [xreq_typed] in T.
      destruct (renew_decide (h_cur last) r) as [[[clr ini]|]|e|] eqn:Ed; try discriminate.
      rewrite set_at_last in H. injection H as <-.
      destruct (renew_decide_some _ _ _ _ Rc T Ed) as (Ec & -> & Cl & Rclr & Wn & Rn & Et & Ep & o & Eh).
      cbn zeta. exists clr.
      assert (Rrn : inrange (renewal_rn (rw_req r))).
      { destruct (rw_req r); cbn [renewal_typed renewal_rn] in *; tauto. }
      destruct (renewal_host_side _ _ _ Rrn Eh) as [Hmh Hvoid].
      destruct (renew_keeps_data _ _ _ Eh) as [Hs Hr].
      (* the predecessor: host gain = renter loss *)
      assert (Hgain : vh clr - vh (h_cur last) = vr (h_cur last) - vr clr).
      { unfold cleared in Cl. destruct Cl as (_ & _ & _ & _ & _ & _ & _ & _ & Lf2 & Lc2 & _ & Hsum & Hvr & Hvh).
        rewrite (shape2_sum _ Lf2), (shape2_sum _ Lc2) in Hsum.
        fold (vr clr) (vh clr) (vr (h_cur last)) (vh (h_cur last)) in Hsum. lia. }
      (* the successor: equal sums + host side give equal renter payouts *)
      assert (Hrr : vr (initial_revision (renewal_rn (rw_req r)) (rw_other r) (rw_uc r)) =
                    mr (initial_revision (renewal_rn (rw_req r)) (rw_other r) (rw_uc r))).
      { destruct Wn as [[Lv Lm] Hsum]. rewrite (shape2_sum _ Lv), (shape3_sum _ Lm) in Hsum.
        unfold vr, mr, vh, mh, mvoid in *. cbn [initial_revision rvalid rmissed] in *. lia. }
      rewrite <- app_assoc. cbn [app].
      split; [exact Ec|]. split; [exact Cl|]. split; [exact Hgain|]. split; [reflexivity|].
      split; [exact Wn|]. split; [exact Rn|]. split; [reflexivity|]. split; [reflexivity|]. split; [reflexivity|].
      split; [exact Hs|]. split; [exact Hr|]. split; [exact Hmh|]. split; [exact Hvoid|]. split; [exact Hrr|].
      split; [exact Ep|]. split; [exact Et|]. eexists; exact Eh.
Qed.

(* the same at any point of any run *)
Lemma chain_step_safe : forall l1 c0 st a1 x st', wf c0 -> inrange c0 -> Forall xreq_typed l1 -> xreq_typed x ->
  xlife [fresh c0] l1 = Ok (st, a1) -> xstep st x = Ok (st', true) -> step_safe st x st'.
Proof.
  intros l1 c0 st a1 x st' W R T Tx H Hx.
  eapply xstep_safe; eauto. eapply chain_reachable_ok; eauto.
Qed.

(** * the figures of a renewal (from C12's lemmas about the same handler models) *)
Definition renewal_nowrap (r : renewal) : Prop :=
  match r with
  | Renew2 _ _ _ h _ s => FP.nowrap h (FM.s_window s) (FM.s_maxdur s)
  | Renew3 _ _ _ _ _ _ pt => FP.nowrap (FM.p_height pt) (FM.p_window pt) (FM.p_maxdur pt)
  end.
Definition renewal_maxcoll (r : renewal) : N :=
  match r with Renew2 _ _ _ _ _ s => FM.s_maxcoll s | Renew3 _ _ _ _ _ _ pt => FM.p_maxcoll pt end.

(* the two contracts are settled separately.  Predecessor: the clearing usage the handler records
   is the host's gain in the clearing revision.  Successor: the host's first valid payout is the
   collateral the host itself funds ([locked], the figure handed to wallet.FundTransaction and
   RenewContract, at most MaxCollateral) plus what the handler records as revenue (contract price
   + base storage revenue of the renewed data): nothing of it comes from the predecessor *)
Lemma renewal_value : forall cur r o, inrange cur -> renewal_typed r -> renewal_nowrap r ->
  renew_handler cur r = Ok o ->
  exists locked cu ru clr, o = FM.ORenew locked cu ru /\ renew_clearing cur r = Ok clr /\
    FM.u_rpc cu = vh clr - vh cur /\ FM.u_storage cu = 0 /\ FM.u_risked cu = 0 /\
    vh (renewal_rn r) = locked + FM.u_rpc ru + FM.u_storage ru /\
    locked <= renewal_maxcoll r /\
    FM.u_risked ru <= vh (renewal_rn r) - mh (renewal_rn r).
Proof.
  intros cur r o Rc T W H. destruct r as [vals rn uh h rq s|a clr rn uh w rq pt];
    cbn [renew_handler renew_clearing renewal_typed renewal_nowrap renewal_maxcoll renewal_rn] in *.
  - destruct T as [Tv Tn].
    destruct (FP.renew2_sound _ _ _ _ _ _ _ _ W Tn Rc Tv H)
      as (locked & cu & ru & clr & -> & _ & _ & _ & _ & Ec & _ & -> & _ & _ & _ & _ & _ & _ & _ & Hl & _ & _ & _ & _ & -> & Hv).
    exists locked. eexists. eexists. exists clr. split; [reflexivity|]. split; [exact Ec|].
    unfold FP.mkU in *; cbn [FM.u_rpc FM.u_storage FM.u_risked] in *. repeat split; try assumption; try lia.
  - destruct T as [Tc Tn].
    destruct (FP.renew3_sound _ _ _ _ _ _ _ _ _ W Tn Rc Tc H)
      as (locked & cu & ru & -> & _ & _ & _ & -> & _ & _ & _ & _ & _ & _ & _ & Hl & _ & _ & _ & _ & -> & Hv).
    exists locked. eexists. eexists. exists clr. split; [reflexivity|]. split; [reflexivity|].
    unfold FP.mkU in *; cbn [FM.u_rpc FM.u_storage FM.u_risked] in *. repeat split; try assumption; try lia.
Qed.

(** * finality: no assumption on shapes, values or numbers at all *)

(* every contract but the last one of the chain is at the maximum revision number *)
Definition sealed (st : list hist) : Prop :=
  forall i h, nth_error st i = Some h -> (S i < length st)%nat -> rnum (h_cur h) = max64.

Lemma set_at_length : forall (A : Type) (l : list A) i x, (i < length l)%nat -> length (set_at i x l) = length l.
Proof.
  intros A l i x L. unfold set_at. rewrite app_length. cbn [length]. rewrite firstn_length, skipn_length. lia.
Qed.

Lemma set_at_nth_other : forall (A : Type) (l : list A) i j x, (i < length l)%nat -> j <> i ->
  nth_error (set_at i x l) j = nth_error l j.
Proof.
  intros A l. induction l as [|a l IH]; intros i j x L N; cbn [length] in L; [lia|].
  destruct i as [|i].
  - destruct j as [|j]; [congruence|]. reflexivity.
  - change (set_at (S i) x (a :: l)) with (a :: set_at i x l).
    destruct j as [|j]; [reflexivity|]. cbn [nth_error]. apply IH; lia.
Qed.

Lemma set_at_nth_same : forall (A : Type) (l : list A) i x, (i < length l)%nat -> nth_error (set_at i x l) i = Some x.
Proof.
  intros A l i x L. unfold set_at. rewrite nth_error_app2 by (rewrite firstn_length; lia).
  rewrite firstn_length. replace (i - Nat.min i (length l))%nat with 0%nat by lia. reflexivity.
Qed.

(* one step: accepted requests address the last contract; the contracts before it stay as they
   are; the chain stays sealed *)
Lemma xstep_sealed : forall st x st' b, sealed st -> xstep st x = Ok (st', b) ->
  sealed st' /\ (length st <= length st')%nat /\
  (forall j, (S j < length st)%nat -> nth_error st' j = nth_error st j) /\
  (b = true -> S (xreq_idx x) = length st) /\ (b = false -> st' = st).
Proof.
  intros st x st' b Se H. unfold xstep in H.
  assert (Triv : sealed st /\ (length st <= length st)%nat /\
    (forall j, (S j < length st)%nat -> nth_error st j = nth_error st j) /\
    (false = true -> S (xreq_idx x) = length st) /\ (false = false -> st = st)).
  { repeat split; auto; discriminate. }
  destruct (nth_error st (xreq_idx x)) as [h|] eqn:En; [|injection H as <- <-; exact Triv].
  cbn zeta in H. destruct (rnum (h_cur h) =? max64) eqn:Em; [injection H as <- <-; exact Triv|].
  apply N.eqb_neq in Em.
  assert (Li : (xreq_idx x < length st)%nat) by (apply nth_error_Some; congruence).
  assert (Last : S (xreq_idx x) = length st).
  { destruct (Nat.eq_dec (S (xreq_idx x)) (length st)) as [?|Ne]; [assumption|].
    exfalso. apply Em. eapply Se; eauto. lia. }
  destruct x as [i q|i r]; cbn [xreq_idx] in *.
  - destruct (decide (h_cur h) q) as [[|]|e|]; try discriminate; [|injection H as <- <-; exact Triv].
    injection H as <- <-. split; [|split; [|split; [|split]]].
    + intros j h' Hn Lj. rewrite set_at_length in Lj by assumption.
      rewrite set_at_nth_other in Hn by lia. eapply Se; eauto.
    + rewrite set_at_length by assumption. lia.
    + intros j Lj. apply set_at_nth_other; lia.
    + auto.
    + discriminate.
  - destruct (renew_decide (h_cur h) r) as [[[clr ini]|]|e|] eqn:Ed; try discriminate; [|injection H as <- <-; exact Triv].
    injection H as <- <-.
    assert (Hmax : rnum clr = max64).
    { unfold renew_decide in Ed.
      destruct (renew_handler (h_cur h) (rw_req r)) as [o| |] eqn:Eh; try discriminate.
      destruct (pool_rule _); cbn [negb] in Ed; [|discriminate].
      destruct (rw_tail r); cbn [negb] in Ed; [|discriminate].
      destruct (renew_clearing (h_cur h) (rw_req r)) as [c| |] eqn:Ec; try discriminate.
      injection Ed as <- _. eapply renew_handler_max; eauto. }
    split; [|split; [|split; [|split]]].
    + intros j h' Hn Lj. rewrite app_length, set_at_length in Lj by assumption. cbn [length] in Lj.
      rewrite nth_error_app1 in Hn by (rewrite set_at_length by assumption; lia).
      destruct (Nat.eq_dec j i) as [->|Nj].
      * rewrite set_at_nth_same in Hn by assumption. injection Hn as <-. exact Hmax.
      * rewrite set_at_nth_other in Hn by assumption. eapply Se; eauto. lia.
    + rewrite app_length, set_at_length by assumption. lia.
    + intros j Lj. rewrite nth_error_app1 by (rewrite set_at_length by assumption; lia).
      apply set_at_nth_other; lia.
    + auto.
    + discriminate.
Qed.

(* whatever is sent afterwards — any requests, of any shape, to any contract of the chain: the
   contracts that were renewed keep their stored (clearing) revision and nothing is ever
   counter-signed for them again *)
Lemma xlife_final : forall l st st' acc, sealed st -> xlife st l = Ok (st', acc) ->
  sealed st' /\ (length st <= length st')%nat /\
  (forall j, (S j < length st)%nat -> nth_error st' j = nth_error st j) /\
  Forall (fun x => (length st <= S (xreq_idx x))%nat) acc.
Proof.
  induction l as [|x t IH]; intros st st' acc Se H; cbn [xlife] in H.
  - injection H as <- <-. repeat split; auto.
  - destruct (xstep st x) as [[st1 b]|e|] eqn:Ex; try discriminate.
    destruct (xstep_sealed _ _ _ _ Se Ex) as (Se1 & Len1 & Keep1 & Acc1 & _).
    destruct b.
    + destruct (xlife st1 t) as [[s a]| |] eqn:El; try discriminate. injection H as <- <-.
      destruct (IH _ _ _ Se1 El) as (Se' & Len' & Keep' & Acc').
      split; [assumption|]. split; [lia|]. split.
      * intros j Lj. rewrite Keep' by lia. apply Keep1; assumption.
      * constructor; [specialize (Acc1 eq_refl); lia|].
        eapply Forall_impl; [|exact Acc']. cbn. intros; lia.
    + destruct (IH _ _ _ Se1 H) as (Se' & Len' & Keep' & Acc').
      split; [assumption|]. split; [lia|]. split.
      * intros j Lj. rewrite Keep' by lia. apply Keep1; assumption.
      * eapply Forall_impl; [|exact Acc']. cbn. intros; lia.
Qed.

Lemma sealed_one : forall h, sealed [h].
Proof. intros h i h' Hn L. cbn [length] in L. lia. Qed.

(* from the first contract on: at every point of every run, all contracts but the last are at the
   maximum number; split at any point, the later part of the run leaves the earlier contracts
   alone *)
Lemma chain_final : forall l1 l2 c0 st1 a1 st2 a2,
  xlife [fresh c0] l1 = Ok (st1, a1) -> xlife st1 l2 = Ok (st2, a2) ->
  sealed st1 /\
  (forall j, (S j < length st1)%nat -> nth_error st2 j = nth_error st1 j) /\
  Forall (fun x => (length st1 <= S (xreq_idx x))%nat) a2.
Proof.
  intros l1 l2 c0 st1 a1 st2 a2 H1 H2.
  destruct (xlife_final _ _ _ _ (sealed_one _) H1) as (Se1 & _).
  destruct (xlife_final _ _ _ _ Se1 H2) as (_ & _ & Keep & Acc). auto.
Qed.

(* the validators agree with the lock: even a handler that did not look at the stored number
   first would sign nothing for a contract at the maximum number, as long as revision numbers are
   uint64 (Life.v [life_after_max] is this statement for a whole request list) *)
Lemma decide_max_refused : forall cur q, rnum cur = max64 -> rnum (req_rev q) <= max64 ->
  decide cur q <> Ok true.
Proof.
  intros cur q M B D.
  assert (V : validate_std cur (req_rev q) = Ok tt).
  { destruct q as [rv p c|rv s c|rv p]; cbn [decide req_rev] in *.
    - unfold validate_revision in D. destruct (validate_std cur rv) as [[]| |]; cbn [bind] in D; try discriminate; reflexivity.
    - unfold validate_program in D. destruct (validate_std cur rv) as [[]| |]; cbn [bind] in D; try discriminate; reflexivity.
    - unfold validate_payment in D. destruct (validate_std cur rv) as [[]| |]; cbn [bind] in D; try discriminate; reflexivity. }
  eapply cleared_is_final; eauto.
Qed.

(** * refused requests leave no trace *)
Lemma xstep_refused : forall st x st', xstep st x = Ok (st', false) -> st' = st.
Proof.
  intros st x st' H. unfold xstep in H.
  destruct (nth_error st (xreq_idx x)) as [h|]; [|injection H as <-; reflexivity].
  cbn zeta in H. destruct (rnum (h_cur h) =? max64); [injection H as <-; reflexivity|].
  destruct x as [i q|i r].
  - destruct (decide (h_cur h) q) as [[|]|e|]; try discriminate. injection H as <-; reflexivity.
  - destruct (renew_decide (h_cur h) r) as [[[clr ini]|]|e|]; try discriminate. injection H as <-; reflexivity.
Qed.

Lemma xlife_accepted_only : forall l st st' acc, xlife st l = Ok (st', acc) -> xlife st acc = Ok (st', acc).
Proof.
  induction l as [|x t IH]; intros st st' acc H; cbn [xlife] in H.
  - injection H as <- <-. reflexivity.
  - destruct (xstep st x) as [[st1 b]|e|] eqn:Ex; try discriminate. destruct b.
    + destruct (xlife st1 t) as [[s a]| |] eqn:El; try discriminate. injection H as <- <-.
      cbn [xlife]. rewrite Ex. rewrite (IH _ _ _ El). reflexivity.
    + apply xstep_refused in Ex. subst st1. eauto.
Qed.

(** * the consensus rule is needed: the host's validators alone do not give equal sums *)
(* [renew_decide] without the pool's rule *)
Definition renew_decide_nopool (cur : rev) (r : rnw) : res (option (rev * rev)) :=
  match renew_handler cur (rw_req r) with
  | Panic => Panic
  | Err _ => Ok None
  | Ok _ =>
      if negb (rw_tail r) then Ok None else
      match renew_clearing cur (rw_req r) with
      | Ok clr => Ok (Some (clr, initial_revision (renewal_rn (rw_req r)) (rw_other r) (rw_uc r)))
      | Err _ => Ok None
      | Panic => Panic
      end
  end.

(** * correspondence entry point *)
Inductive xop := XStart (c0 : rev) | XDo (x : xreq).
Definition xobs := option (bool * list rev).

Definition xstep_obs (st : list hist) (o : xop) : list hist * xobs :=
  match o with
  | XStart c0 => ([fresh c0], Some (true, [c0]))
  | XDo x =>
      match xstep st x with
      | Ok (st', b) => (st', Some (b, map h_cur st'))
      | _ => (st, None)
      end
  end.

Definition xobs_eqb (a b : xobs) : bool :=
  option_eqb (fun x y => Bool.eqb (fst x) (fst y) && list_eqb rev_eqb (snd x) (snd y)) a b.

Definition xcase := (N * list (xop * xobs))%type.
Definition xcheck (cs : list xcase) := mismatches ([] : list hist) xstep_obs xobs_eqb cs.

(** * non-vacuity: a chain of three contracts *)
Definition xc0 : rev := FP.ex_existing.
Definition xrv1 : rev := R 0 1 4194304 1 1256 1400 [O 1 2990; O 5 910] [O 1 2990; O 5 810; O 0 100] 9 8.
Definition xini2 : rev := initial_revision FP.ex_rn2 0 1.
Definition xrv2 : rev := R 0 1 4194304 1 1300 1500 [O 1 6995; O 5 838864905] [O 1 6995; O 5 3955; O 0 838860950] 1 2.
Definition xclr2 : rev := R 0 1 0 0 1300 1500 [O 1 6995; O 5 838864905] [O 1 6995; O 5 838864905] 1 max64.
Definition xrn3 : rev := R 0 0 4194304 1 1400 1600 [O 1 7000; O 5 838864907] [O 1 7000; O 5 4050; O 0 838860857] 1 0.
Definition xrv3 : rev := R 0 1 4194304 1 1400 1600 [O 1 6993; O 5 838864914] [O 1 6993; O 5 4057; O 0 838860857] 1 2.
Definition xrenew_a : rnw := mkRnw (Renew2 [2980; 920] FP.ex_rn2 1 1000 100000 FP.ex_s2) 0 1 true.
Definition xrenew_b : rnw := mkRnw (Renew3 true xclr2 xrn3 1 5 100000 FP.ex_pt) 0 1 true.
Definition xl_ex : list xreq :=
  [ XRev 0 (QPayment xrv1 10);                 (* accepted *)
    XRenew 0 (mkRnw (Renew2 [2980; 920] FP.ex_rn2 1 1000 100000 FP.ex_s2) 0 1 false);
                                               (* the pool / the store refuses: nothing changes *)
    XRenew 0 xrenew_a;                         (* RHP2 renewal: contract 0 cleared, contract 1 starts *)
    XRev 0 (QPayment xrv1 10);                 (* the predecessor is final *)
    XRev 1 (QPayment xrv2 5);                  (* the successor is revised on its initial revision *)
    XRenew 0 xrenew_a;                         (* no second renewal of the predecessor *)
    XRenew 1 xrenew_b;                         (* RHP3 renewal: contract 2 starts *)
    XRev 1 (QPayment xrv2 5);
    XRev 2 (QPayment xrv3 7);
    XRev 5 (QPayment xrv3 7) ].                (* no such contract *)

Lemma xchain_ex : exists st acc, xlife [fresh xc0] xl_ex = Ok (st, acc) /\
  map (fun h => rnum (h_cur h)) st = [max64; max64; 2] /\
  map (fun h => length (h_acc h)) st = [1; 1; 1]%nat /\
  acc = [XRev 0 (QPayment xrv1 10); XRenew 0 xrenew_a; XRev 1 (QPayment xrv2 5); XRenew 1 xrenew_b; XRev 2 (QPayment xrv3 7)] /\
  wf xc0 /\ inrange xc0 /\ Forall xreq_typed xl_ex.
Proof.
  eexists. eexists. split; [vm_compute; reflexivity|].
  split; [reflexivity|]. split; [reflexivity|]. split; [reflexivity|].
  split; [repeat split; reflexivity|].
  split; [split; repeat (first [reflexivity | constructor])|].
  repeat (first [reflexivity | constructor]).
Qed.

(** * the handlers' own validators do not look at the renter's outputs of the renewal contract: without
   the pool's rule a successor would start with unequal sums, and its first counter-signed
   revision would change the missed sum *)
Definition xrn_bad : rev := R 0 0 4194304 1 1300 1500 [O 1 7000; O 5 838864900] [O 1 6000; O 5 3950; O 0 838860950] 1 0.
Definition xrenew_bad : rnw := mkRnw (Renew2 [2980; 920] xrn_bad 1 1000 100000 FP.ex_s2) 0 1 true.
Definition xq_bad : req := QRevision (R 0 1 4194304 1 1300 1500 [O 1 6000; O 5 838865900] [O 1 6000; O 5 3950; O 0 838861950] 1 2) 1000 0.

Lemma nopool_refuted : exists cur r clr ini q,
  wf cur /\ inrange cur /\ renewal_typed (rw_req r) /\
  renew_decide_nopool cur r = Ok (Some (clr, ini)) /\
  sumv (rvalid ini) <> sumv (rmissed ini) /\
  decide ini q = Ok true /\ sumv (rmissed (req_rev q)) <> sumv (rmissed ini) /\
  (* the handler as it is refuses this renewal *)
  renew_decide cur r = Ok None.
Proof.
  exists xrv1, xrenew_bad. eexists. eexists. exists xq_bad.
  split; [repeat split; reflexivity|].
  split; [split; repeat (first [reflexivity | constructor])|].
  split; [split; [|split]; repeat (first [reflexivity | constructor])|].
  split; [vm_compute; reflexivity|].
  split; [vm_compute; discriminate|].
  split; [vm_compute; reflexivity|].
  split; [vm_compute; discriminate|].
  vm_compute; reflexivity.
Qed.
