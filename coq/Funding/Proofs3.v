(* Funding/Proofs3.v — histories: the invariant holds after every operation sequence; the
   property-level lemmas of C11 (statements collected in Props_C11.v) *)
From Coq Require Import Lia ZifyBool ZifyN ZifyNat.
From HostdBase Require Import Base.
From HostdFunding Require Import Model Lib Proofs Proofs2.

Local Open Scope N_scope.
Set Implicit Arguments.

Definition w4 (u : usage4) : N := rRpc u + rStorage u + rEgress u + rIngress u + rFunding u + rRisked u.

(* what the store's callers guarantee:
   - contracts are created without account funding (rhp2/rhp3/rhp4 formation and renewal usage
     has no AccountFunding component);
   - RHP4CreditAccounts is called with usage.AccountFunding = sum of the deposits
     (rhp4.ReviseForFundAccounts / ReviseForReplenish);
   - usage fields are Currency values (< 2^128). *)
Definition wf_op (o : op) : Prop :=
  match o with
  | AddC1 _ u | AddC2 _ u => cFunding u = 0
  | Fund2 _ deps u => rFunding u = asum deps
  | Debit1 _ u => wfq u
  | Debit2 _ u => wfq (q_of_usage4 u)
  | _ => True
  end.
(* the value an operation tries to put into the contract rows *)
Definition att (o : op) : N :=
  match o with
  | AddC1 _ u | AddC2 _ u => cw1 u
  | Fund1 _ _ cost amt => cost + amt
  | Fund2 _ _ u => w4 u
  | _ => 0
  end.

Lemma headroom1 : forall B s c x, Inv B s -> B < two128 -> alookup c (con1 s) = Some x -> headroom x.
Proof.
  intros B s c x I HB L. pose proof (cw1_le_cw _ _ L). pose proof (i_bound I).
  unfold headroom. unfold cw1 in H. split; lia.
Qed.
Lemma headroom2 : forall B s c x, Inv B s -> B < two128 -> alookup c (con2 s) = Some x -> headroom x.
Proof.
  intros B s c x I HB L. pose proof (cw1_le_cw _ _ L). pose proof (i_bound I).
  unfold headroom. unfold cw1 in H. split; lia.
Qed.

Lemma cadd_inv : forall x y z, cadd x y = Ok z -> z = x + y.
Proof. unfold cadd; intros x y z. destruct (x + y <? two128); intros H; [injection H; auto | discriminate]. Qed.

Lemma total6_ok : forall u t, total6 u = Ok t -> t = tot6 u.
Proof.
  intros u t. unfold total6, bind.
  destruct (cadd (qRpc u) (qStorage u)) as [a| |] eqn:E1; try discriminate.
  destruct (cadd a (qEgress u)) as [b| |] eqn:E2; try discriminate.
  destruct (cadd b (qIngress u)) as [c| |] eqn:E3; try discriminate.
  destruct (cadd c (qRegR u)) as [d| |] eqn:E4; try discriminate.
  intros E5. apply cadd_inv in E1, E2, E3, E4, E5. unfold tot6. lia.
Qed.
Lemma total6_small : forall u, tot6 u < two128 -> total6 u = Ok (tot6 u).
Proof.
  intros u H. unfold total6, bind, tot6 in *.
  rewrite (@cadd_ok (qRpc u) (qStorage u)) by lia.
  rewrite (@cadd_ok (qRpc u + qStorage u) (qEgress u)) by lia.
  rewrite (@cadd_ok (qRpc u + qStorage u + qEgress u) (qIngress u)) by lia.
  rewrite (@cadd_ok (qRpc u + qStorage u + qEgress u + qIngress u) (qRegR u)) by lia.
  rewrite cadd_ok by lia. f_equal. lia.
Qed.
Lemma cost4_ok : forall u t, cost4 u = Ok t -> t = rRpc u + rStorage u + rEgress u + rIngress u + rFunding u.
Proof.
  intros u t. unfold cost4, bind.
  destruct (cadd (rRpc u) (rStorage u)) as [a| |] eqn:E1; try discriminate.
  destruct (cadd a (rEgress u)) as [b| |] eqn:E2; try discriminate.
  destruct (cadd b (rIngress u)) as [c| |] eqn:E3; try discriminate.
  intros E4. apply cadd_inv in E1, E2, E3, E4. lia.
Qed.
Lemma cost4_small : forall u, rRpc u + rStorage u + rEgress u + rIngress u + rFunding u < two128 ->
  cost4 u = Ok (rRpc u + rStorage u + rEgress u + rIngress u + rFunding u).
Proof.
  intros u H. unfold cost4, bind.
  rewrite (@cadd_ok (rRpc u) (rStorage u)) by lia.
  rewrite (@cadd_ok (rRpc u + rStorage u) (rEgress u)) by lia.
  rewrite (@cadd_ok (rRpc u + rStorage u + rEgress u) (rIngress u)) by lia.
  rewrite cadd_ok by lia. reflexivity.
Qed.

(** * What a debit does (either protocol version) *)
Definition same_or_moved (t t' : list (N * cusage)) : Prop :=
  forall c, match alookup c t, alookup c t' with
            | Some x, Some x' => moved_into x x' | None, None => True | _, _ => False end.

Lemma same_refl : forall t, same_or_moved t t.
Proof. intros t c. destruct (alookup c t); [apply moved_refl | exact I]. Qed.

(* Debit1: result characterised *)
Lemma debit1_spec : forall B s a u, Inv B s -> B < two128 -> wfq u ->
  let r := step s (Debit1 a u) in
  (snd r <> OPanic \/ two128 <= tot6 u) /\
  ((fst r = s /\ snd r <> ODone) \/
   (snd r = ODone /\ tot6 u <= getv a (accts s) /\
    exists u' rows' t', fst r = set_f1 s (aset a (getv a (accts s) - tot6 u) (accts s)) (aset a rows' (fund1 s)) t' /\
      Inv B (fst r) /\ same_or_moved (con1 s) t' /\
      crev t' + tot6 u' = crev (con1 s) + tot6 u /\
      tot6 u' = tot6 u - asum (inner a (fund1 s)) /\
      asum rows' + (tot6 u - tot6 u') = asum (inner a (fund1 s)))).
Proof.
  intros B s a u I HB Hu r. subst r. cbn [step]. unfold finish, bind.
  destruct (total6 u) as [amount| |] eqn:T.
  - apply total6_ok in T. subst amount.
    destruct (alookup a (accts s)) as [bal|] eqn:L; [|split; [left; cbn; discriminate | left; split; [reflexivity | cbn; discriminate]]].
    destruct (bal <? tot6 u) eqn:C; [split; [left; cbn; discriminate | left; split; [reflexivity | cbn; discriminate]]|].
    rewrite csub_ok by lia.
    destruct (@debit_table (fund1 s) (con1 s) a u (i_v1 I) Hu (fun c x => @headroom1 B s c x I HB))
      as (u'&rows'&t'&E&G1&G2&G3&G4&G5&G6).
    rewrite E. cbn [fst snd]. split; [left; discriminate|]. right.
    assert (Hb : getv a (accts s) = bal) by (unfold getv; rewrite L; reflexivity).
    split; [reflexivity|]. split; [lia|].
    exists u', rows', t'. rewrite Hb. split; [reflexivity|].
    split; [|repeat split; assumption].
    constructor; cbn [set_f1 fund1 con1 fund2 con2]; [exact G1 | exact (i_v2 I) | pose proof (i_bound I); lia].
  - exfalso. unfold total6, bind in T. repeat match type of T with context [cadd ?x ?y] => destruct (cadd x y) eqn:?; try discriminate end;
      match goal with H : cadd _ _ = Err _ |- _ => unfold cadd in H; destruct (_ <? _); discriminate end.
  - split; [|left; split; [reflexivity | cbn; discriminate]].
    right. destruct (tot6 u <? two128) eqn:C; [|lia]. rewrite total6_small in T by lia. discriminate.
Qed.

Definition cost_of (u : usage4) : N := rRpc u + rStorage u + rEgress u + rIngress u + rFunding u.

Lemma debit2_spec : forall B s a u, Inv B s -> B < two128 -> wfq (q_of_usage4 u) ->
  let r := step s (Debit2 a u) in
  (snd r <> OPanic \/ two128 <= cost_of u) /\
  ((fst r = s /\ snd r <> ODone) \/
   (snd r = ODone /\ cost_of u <= getv a (accts s) /\
    exists u' rows' t', fst r = set_f2 s (aset a (getv a (accts s) - cost_of u) (accts s)) (aset a rows' (fund2 s)) t' /\
      Inv B (fst r) /\ same_or_moved (con2 s) t' /\
      crev t' + tot6 u' = crev (con2 s) + tot6 (q_of_usage4 u) /\
      tot6 u' = tot6 (q_of_usage4 u) - asum (inner a (fund2 s)) /\
      asum rows' + (tot6 (q_of_usage4 u) - tot6 u') = asum (inner a (fund2 s)))).
Proof.
  intros B s a u I HB Hu r. subst r. cbn [step]. unfold finish, bind.
  destruct (alookup a (accts s)) as [bal|] eqn:L; [|split; [left; cbn; discriminate | left; split; [reflexivity | cbn; discriminate]]].
  destruct (cost4 u) as [amount| |] eqn:T.
  - apply cost4_ok in T. fold (cost_of u) in T. subst amount.
    destruct (bal <? cost_of u) eqn:C; [split; [left; cbn; discriminate | left; split; [reflexivity | cbn; discriminate]]|].
    destruct (@debit_table (fund2 s) (con2 s) a (q_of_usage4 u) (i_v2 I) Hu (fun c x => @headroom2 B s c x I HB))
      as (u'&rows'&t'&E&G1&G2&G3&G4&G5&G6).
    rewrite E. cbn [fst snd]. split; [left; discriminate|]. right.
    assert (Hb : getv a (accts s) = bal) by (unfold getv; rewrite L; reflexivity).
    split; [reflexivity|]. split; [lia|].
    exists u', rows', t'. rewrite Hb. split; [reflexivity|].
    split; [|repeat split; assumption].
    constructor; cbn [set_f2 fund1 con1 fund2 con2]; [exact (i_v1 I) | exact G1 | pose proof (i_bound I); lia].
  - exfalso. unfold cost4, bind in T. repeat match type of T with context [cadd ?x ?y] => destruct (cadd x y) eqn:?; try discriminate end;
      match goal with H : cadd _ _ = Err _ |- _ => unfold cadd in H; destruct (_ <? _); discriminate end.
  - split; [|left; split; [reflexivity | cbn; discriminate]].
    right. destruct (cost_of u <? two128) eqn:C; [|lia]. unfold cost_of in C. rewrite cost4_small in T by lia. discriminate.
Qed.

(** * Preservation *)
Theorem inv_step : forall B s o, Inv B s -> wf_op o -> B + att o < two128 ->
  Inv (B + att o) (fst (step s o)).
Proof.
  intros B s o I W HB.
  assert (I' : Inv (B + att o) s) by (apply (Inv_mono I); lia).
  destruct o; cbn [att wf_op] in *; try exact I'.
  - (* AddC1 *) cbn [step]. destruct (alookup c (con1 s)) eqn:L; [exact I'|]. cbn [fst].
    constructor; cbn [set_f1 fund1 con1 fund2 con2].
    + exact (@TInv_add _ _ c u (i_v1 I) L W).
    + exact (i_v2 I).
    + rewrite cw_aset_new by assumption. pose proof (i_bound I). lia.
  - (* AddC2 *) cbn [step]. destruct (alookup c (con2 s)) eqn:L; [exact I'|]. cbn [fst].
    constructor; cbn [set_f2 fund1 con1 fund2 con2].
    + exact (i_v1 I).
    + exact (@TInv_add _ _ c u (i_v2 I) L W).
    + rewrite cw_aset_new by assumption. pose proof (i_bound I). lia.
  - (* Fund1 *) cbn [step]. unfold finish, bind.
    destruct (cadd (getv a (accts s)) amt) as [nb| |]; try exact I'.
    destruct (alookup c (con1 s)) as [x|] eqn:L; [|exact I'].
    destruct (cuadd x _) as [x'| |] eqn:E; try exact I'. apply cuadd_inv in E.
    cbn [cRpc cStorage cIngress cEgress cRegR cRegW cFunding cRisked] in E.
    destruct (cadd (getv c (inner a (fund1 s))) amt) as [na| |] eqn:E2; try exact I'.
    apply cadd_inv in E2. subst na. cbn [fst].
    constructor; cbn [set_f1 fund1 con1 fund2 con2].
    + apply (@TInv_upsert _ _ c a amt x x' (i_v1 I) L). subst x'. cbn [cFunding]. reflexivity.
    + exact (i_v2 I).
    + pose proof (cw_aset c x' (con1 s) L) as Hc. pose proof (i_bound I).
      assert (cw1 x' = cw1 x + cost + amt) by (subst x'; unfold cw1, rev; cbn [cRpc cStorage cIngress cEgress cRegR cRegW cFunding cRisked]; lia).
      lia.
  - (* Fund2 *) cbn [step]. unfold finish, bind.
    destruct (alookup c (con2 s)) as [x|] eqn:L; [|exact I'].
    destruct (deposits2 c (accts s) (fund2 s) [] deps) as [[[ac f] bals]| |] eqn:D; try exact I'.
    destruct (cuadd x (of_usage4 u)) as [x'| |] eqn:E; try exact I'. apply cuadd_inv in E.
    unfold of_usage4 in E. cbn [cRpc cStorage cIngress cEgress cRegR cRegW cFunding cRisked] in E.
    cbn [fst]. destruct (@deposits2_spec c deps _ _ _ _ _ _ D (t_outer (i_v2 I)) (t_inner (i_v2 I))) as (R1&R2&R3&_).
    constructor; cbn [set_f2 fund1 con1 fund2 con2].
    + exact (i_v1 I).
    + constructor; try assumption.
      * intros c' y. rewrite alookup_aset, R3. destruct (c' =? c) eqn:Ec.
        -- apply N.eqb_eq in Ec; subst c'. intros H; injection H as <-. subst x'. cbn [cFunding].
           rewrite (t_fund (i_v2 I) _ L), W. reflexivity.
        -- intros H. rewrite (t_fund (i_v2 I) _ H). lia.
      * intros c'. rewrite alookup_aset, R3. destruct (c' =? c); [discriminate|].
        intros H. rewrite (t_refs (i_v2 I) _ H). reflexivity.
    + pose proof (cw_aset c x' (con2 s) L) as Hc. pose proof (i_bound I).
      assert (cw1 x' = cw1 x + w4 u) by (subst x'; unfold cw1, rev, w4; cbn [cRpc cStorage cIngress cEgress cRegR cRegW cFunding cRisked]; lia).
      lia.
  - (* Debit1 *) rewrite N.add_0_r in *.
    destruct (@debit1_spec B s a u I HB W) as [_ [[E _]|(_&_&u'&rows'&t'&_&I2&_)]]; [rewrite E; exact I | exact I2].
  - (* Debit2 *) rewrite N.add_0_r in *.
    destruct (@debit2_spec B s a u I HB W) as [_ [[E _]|(_&_&u'&rows'&t'&_&I2&_)]]; [rewrite E; exact I | exact I2].
  - (* Recalc *) rewrite (@recalc_identity s (i_v1 I)). exact I'.
Qed.

Definition runs (s : state) (l : list op) : state := fold_left (fun s o => fst (step s o)) l s.
Fixpoint atts (l : list op) : N := match l with [] => 0 | o :: t => att o + atts t end.

Theorem inv_runs : forall l B s, Inv B s -> Forall wf_op l -> B + atts l < two128 ->
  Inv (B + atts l) (runs s l).
Proof.
  induction l as [|o t IH]; intros B s I W HB; cbn [runs fold_left atts] in *.
  - rewrite N.add_0_r. exact I.
  - inversion W as [|? ? Wo Wt]; subst.
    replace (B + (att o + atts t)) with ((B + att o) + atts t) by lia.
    apply IH; [apply inv_step; try assumption; lia | assumption | lia].
Qed.

Theorem reachable_inv : forall l, Forall wf_op l -> atts l < two128 -> Inv (atts l) (runs init l).
Proof. intros l W HB. apply (@inv_runs l 0 init Inv_init W). lia. Qed.

(** * Property-level statements *)
(* unspent funding of every contract = sum of its per-account funding records, in every history *)
Theorem unspent_is_sum_of_records : forall l, Forall wf_op l -> atts l < two128 ->
  (forall c x, alookup c (con1 (runs init l)) = Some x -> cFunding x = fsum c (fund1 (runs init l))) /\
  (forall c x, alookup c (con2 (runs init l)) = Some x -> cFunding x = fsum c (fund2 (runs init l))) /\
  (forall c, alookup c (con1 (runs init l)) = None -> fsum c (fund1 (runs init l)) = 0) /\
  (forall c, alookup c (con2 (runs init l)) = None -> fsum c (fund2 (runs init l)) = 0).
Proof.
  intros l W HB. pose proof (reachable_inv W HB) as I.
  refine (conj _ (conj _ (conj _ _))).
  - exact (t_fund (i_v1 I)).
  - exact (t_fund (i_v2 I)).
  - exact (t_refs (i_v1 I)).
  - exact (t_refs (i_v2 I)).
Qed.

(* per funding contract: a debit moves value from unspent funding into the revenue categories,
   nothing is lost or created; contracts of the other version are untouched *)
Theorem debit1_conserves : forall B s a u, Inv B s -> B < two128 -> wfq u ->
  same_or_moved (con1 s) (con1 (fst (step s (Debit1 a u)))) /\
  con2 (fst (step s (Debit1 a u))) = con2 s /\ fund2 (fst (step s (Debit1 a u))) = fund2 s.
Proof.
  intros B s a u I HB Hu.
  destruct (@debit1_spec B s a u I HB Hu) as [_ [[E _]|(_&_&u'&rows'&t'&E&_&G&_)]]; rewrite E.
  - split; [apply same_refl | split; reflexivity].
  - cbn [set_f1 con1 con2 fund2]. split; [exact G | split; reflexivity].
Qed.

Theorem debit2_conserves : forall B s a u, Inv B s -> B < two128 -> wfq (q_of_usage4 u) ->
  same_or_moved (con2 s) (con2 (fst (step s (Debit2 a u)))) /\
  con1 (fst (step s (Debit2 a u))) = con1 s /\ fund1 (fst (step s (Debit2 a u))) = fund1 s.
Proof.
  intros B s a u I HB Hu.
  destruct (@debit2_spec B s a u I HB Hu) as [_ [[E _]|(_&_&u'&rows'&t'&E&_&G&_)]]; rewrite E.
  - split; [apply same_refl | split; reflexivity].
  - cbn [set_f2 con1 con2 fund1]. split; [exact G | split; reflexivity].
Qed.

(* nothing goes negative: no Currency.Sub (or Add) in a debit ever panics *)
Theorem debit_never_panics : forall B s a, Inv B s -> B < two128 ->
  (forall u, wfq u -> tot6 u < two128 -> snd (step s (Debit1 a u)) <> OPanic) /\
  (forall u, wfq (q_of_usage4 u) -> cost_of u < two128 -> snd (step s (Debit2 a u)) <> OPanic).
Proof.
  intros B s a I HB. split; intros u Hu Hs.
  - destruct (@debit1_spec B s a u I HB Hu) as [[H|H] _]; [exact H | lia].
  - destruct (@debit2_spec B s a u I HB Hu) as [[H|H] _]; [exact H | lia].
Qed.

(* total moved: what is attributed is the debit, capped by the account's funding records *)
Theorem debit1_moved : forall B s a u s', Inv B s -> B < two128 -> wfq u ->
  step s (Debit1 a u) = (s', ODone) ->
  crev (con1 s') = crev (con1 s) + N.min (tot6 u) (asum (inner a (fund1 s))) /\
  asum (inner a (fund1 s')) + N.min (tot6 u) (asum (inner a (fund1 s))) = asum (inner a (fund1 s)) /\
  getv a (accts s') + tot6 u = getv a (accts s).
Proof.
  intros B s a u s' I HB Hu H.
  destruct (@debit1_spec B s a u I HB Hu) as [_ [[_ E]|(_&Hle&u'&rows'&t'&E&_&_&G4&G5&G6)]]; rewrite H in *; cbn [fst snd] in *.
  - contradiction.
  - subst s'. cbn [set_f1 con1 fund1 accts]. rewrite inner_aset, N.eqb_refl, getv_aset, N.eqb_refl. repeat split; lia.
Qed.

Theorem debit2_moved : forall B s a u s', Inv B s -> B < two128 -> wfq (q_of_usage4 u) ->
  step s (Debit2 a u) = (s', ODone) ->
  crev (con2 s') = crev (con2 s) + N.min (tot6 (q_of_usage4 u)) (asum (inner a (fund2 s))) /\
  asum (inner a (fund2 s')) + N.min (tot6 (q_of_usage4 u)) (asum (inner a (fund2 s))) = asum (inner a (fund2 s)) /\
  getv a (accts s') + cost_of u = getv a (accts s).
Proof.
  intros B s a u s' I HB Hu H.
  destruct (@debit2_spec B s a u I HB Hu) as [_ [[_ E]|(_&Hle&u'&rows'&t'&E&_&_&G4&G5&G6)]]; rewrite H in *; cbn [fst snd] in *.
  - contradiction.
  - subst s'. cbn [set_f2 con2 fund2 accts]. rewrite inner_aset, N.eqb_refl, getv_aset, N.eqb_refl. repeat split; lia.
Qed.

(** * "The balance came entirely from contracts of that protocol version" *)
(* backed v s a: the account's balance is covered by its version-v funding records *)
Definition backed1 (s : state) (a : N) : Prop := getv a (accts s) <= asum (inner a (fund1 s)).
Definition backed2 (s : state) (a : N) : Prop := getv a (accts s) <= asum (inner a (fund2 s)).

(* no deposit into a through the other version *)
Definition no_v2_deposit (a : N) (o : op) : Prop :=
  match o with Fund2 _ deps _ => amt_for a deps = 0 | _ => True end.
Definition no_v1_deposit (a : N) (o : op) : Prop :=
  match o with Fund1 _ a' _ amt => a' <> a \/ amt = 0 | _ => True end.

Lemma inner_other : forall a a' l f, a' <> a -> inner a' (aset a l f) = inner a' f.
Proof. intros. rewrite inner_aset. destruct (a' =? a) eqn:E; [apply N.eqb_eq in E; contradiction | reflexivity]. Qed.

Lemma backed1_step : forall B s o a, Inv B s -> wf_op o -> B + att o < two128 ->
  no_v2_deposit a o -> backed1 s a -> backed1 (fst (step s o)) a.
Proof.
  intros B s o a I W HB Hno Hb. unfold backed1 in *.
  destruct o; cbn [att wf_op no_v2_deposit] in *; try exact Hb.
  - cbn [step]. destruct (alookup c (con1 s)); exact Hb.
  - cbn [step]. destruct (alookup c (con2 s)); exact Hb.
  - (* Fund1 *) cbn [step]. unfold finish, bind.
    destruct (cadd (getv a0 (accts s)) amt) as [nb| |] eqn:E0; try exact Hb. apply cadd_inv in E0.
    destruct (alookup c (con1 s)) as [x|]; [|exact Hb].
    destruct (cuadd x _) as [x'| |]; try exact Hb.
    destruct (cadd (getv c (inner a0 (fund1 s))) amt) as [na| |] eqn:E2; try exact Hb. apply cadd_inv in E2.
    cbn [fst set_f1 accts fund1]. rewrite getv_aset, inner_aset. destruct (a =? a0) eqn:E; [|exact Hb].
    apply N.eqb_eq in E; subst a0 nb na.
    pose proof (asum_aset c (getv c (inner a (fund1 s)) + amt) (inner a (fund1 s))). lia.
  - (* Fund2 *) cbn [step]. unfold finish, bind.
    destruct (alookup c (con2 s)) as [x|]; [|exact Hb].
    destruct (deposits2 c (accts s) (fund2 s) [] deps) as [[[ac f] bals]| |] eqn:D; try exact Hb.
    destruct (cuadd x (of_usage4 u)) as [x'| |]; try exact Hb.
    cbn [fst set_f2 accts fund1].
    destruct (@deposits2_spec c deps _ _ _ _ _ _ D (t_outer (i_v2 I)) (t_inner (i_v2 I))) as (_&_&_&R4&_).
    rewrite R4, Hno. lia.
  - (* Debit1 *) rewrite N.add_0_r in *.
    destruct (@debit1_spec B s a0 u I HB W) as [_ [[E _]|(_&Hle&u'&rows'&t'&E&_&_&G4&G5&G6)]]; rewrite E; [exact Hb|].
    cbn [set_f1 accts fund1]. rewrite getv_aset, inner_aset. destruct (a =? a0) eqn:Ea; [|exact Hb].
    apply N.eqb_eq in Ea; subst a0. lia.
  - (* Debit2 *) rewrite N.add_0_r in *.
    destruct (@debit2_spec B s a0 u I HB W) as [_ [[E _]|(_&Hle&u'&rows'&t'&E&_&_&G4&G5&G6)]]; rewrite E; [exact Hb|].
    cbn [set_f2 accts fund1]. rewrite getv_aset. destruct (a =? a0) eqn:Ea; [|exact Hb].
    apply N.eqb_eq in Ea; subst a0. lia.
  - (* Recalc *) rewrite (@recalc_identity s (i_v1 I)). exact Hb.
Qed.

Lemma backed2_step : forall B s o a, Inv B s -> wf_op o -> B + att o < two128 ->
  no_v1_deposit a o -> backed2 s a -> backed2 (fst (step s o)) a.
Proof.
  intros B s o a I W HB Hno Hb. unfold backed2 in *.
  destruct o; cbn [att wf_op no_v1_deposit] in *; try exact Hb.
  - cbn [step]. destruct (alookup c (con1 s)); exact Hb.
  - cbn [step]. destruct (alookup c (con2 s)); exact Hb.
  - (* Fund1 *) cbn [step]. unfold finish, bind.
    destruct (cadd (getv a0 (accts s)) amt) as [nb| |] eqn:E0; try exact Hb. apply cadd_inv in E0.
    destruct (alookup c (con1 s)) as [x|]; [|exact Hb].
    destruct (cuadd x _) as [x'| |]; try exact Hb.
    destruct (cadd (getv c (inner a0 (fund1 s))) amt) as [na| |]; try exact Hb.
    cbn [fst set_f1 accts fund2]. rewrite getv_aset. destruct (a =? a0) eqn:E; [|exact Hb].
    apply N.eqb_eq in E; subst a0 nb. destruct Hno as [Hno|Hno]; [contradiction | lia].
  - (* Fund2 *) cbn [step]. unfold finish, bind.
    destruct (alookup c (con2 s)) as [x|]; [|exact Hb].
    destruct (deposits2 c (accts s) (fund2 s) [] deps) as [[[ac f] bals]| |] eqn:D; try exact Hb.
    destruct (cuadd x (of_usage4 u)) as [x'| |]; try exact Hb.
    cbn [fst set_f2 accts fund2].
    destruct (@deposits2_spec c deps _ _ _ _ _ _ D (t_outer (i_v2 I)) (t_inner (i_v2 I))) as (_&_&_&R4&R5).
    rewrite R4, R5. lia.
  - (* Debit1 *) rewrite N.add_0_r in *.
    destruct (@debit1_spec B s a0 u I HB W) as [_ [[E _]|(_&Hle&u'&rows'&t'&E&_&_&G4&G5&G6)]]; rewrite E; [exact Hb|].
    cbn [set_f1 accts fund2]. rewrite getv_aset. destruct (a =? a0) eqn:Ea; [|exact Hb].
    apply N.eqb_eq in Ea; subst a0. lia.
  - (* Debit2 *) rewrite N.add_0_r in *.
    destruct (@debit2_spec B s a0 u I HB W) as [_ [[E _]|(_&Hle&u'&rows'&t'&E&_&_&G4&G5&G6)]]; rewrite E; [exact Hb|].
    cbn [set_f2 accts fund2]. rewrite getv_aset, inner_aset. destruct (a =? a0) eqn:Ea; [|exact Hb].
    apply N.eqb_eq in Ea; subst a0.
    assert (tot6 (q_of_usage4 u) <= cost_of u) by (unfold tot6, cost_of, q_of_usage4; cbn; lia). lia.
  - (* Recalc *) rewrite (@recalc_identity s (i_v1 I)). exact Hb.
Qed.

Theorem backed_runs : forall l B s a, Inv B s -> Forall wf_op l -> B + atts l < two128 ->
  (Forall (no_v2_deposit a) l -> backed1 s a -> backed1 (runs s l) a) /\
  (Forall (no_v1_deposit a) l -> backed2 s a -> backed2 (runs s l) a).
Proof.
  induction l as [|o t IH]; intros B s a I W HB; cbn [runs fold_left atts] in *; [tauto|].
  inversion W as [|? ? Wo Wt]; subst.
  assert (I' : Inv (B + att o) (fst (step s o))) by (apply inv_step; try assumption; lia).
  destruct (IH (B + att o) (fst (step s o)) a I' Wt ltac:(lia)) as [IH1 IH2].
  split; intros Hf Hb; inversion Hf as [|? ? Ho Ht]; subst.
  - apply IH1; [assumption|]. apply (@backed1_step B s o a); try assumption; lia.
  - apply IH2; [assumption|]. apply (@backed2_step B s o a); try assumption; lia.
Qed.

(* "The total moved equals the debit whenever the account's balance came entirely from contracts
   of that protocol version" *)
Theorem moved_equals_debit_v1 : forall l a u s', Forall wf_op l -> atts l < two128 -> wfq u ->
  Forall (no_v2_deposit a) l ->
  step (runs init l) (Debit1 a u) = (s', ODone) ->
  crev (con1 s') = crev (con1 (runs init l)) + tot6 u.
Proof.
  intros l a u s' W HB Hu Hno H.
  pose proof (reachable_inv W HB) as I.
  destruct (@backed_runs l 0 init a Inv_init W ltac:(lia)) as [Hb _].
  specialize (Hb Hno ltac:(unfold backed1; cbn; lia)). unfold backed1 in Hb.
  destruct (@debit1_moved _ _ a u s' I HB Hu H) as (M1&_&M3). rewrite M1. f_equal. lia.
Qed.

Theorem moved_equals_debit_v2 : forall l a u s', Forall wf_op l -> atts l < two128 -> wfq (q_of_usage4 u) ->
  Forall (no_v1_deposit a) l -> rFunding u = 0 ->
  step (runs init l) (Debit2 a u) = (s', ODone) ->
  crev (con2 s') = crev (con2 (runs init l)) + cost_of u.
Proof.
  intros l a u s' W HB Hu Hno Hf H.
  pose proof (reachable_inv W HB) as I.
  destruct (@backed_runs l 0 init a Inv_init W ltac:(lia)) as [_ Hb].
  specialize (Hb Hno ltac:(unfold backed2; cbn; lia)). unfold backed2 in Hb.
  destruct (@debit2_moved _ _ a u s' I HB Hu H) as (M1&_&M3). rewrite M1. f_equal.
  assert (tot6 (q_of_usage4 u) = cost_of u) by (unfold tot6, cost_of, q_of_usage4; cbn; lia). lia.
Qed.

(* a refused debit changes nothing *)
Lemma failed_debit_unchanged : forall s a s' e,
  (forall u, step s (Debit1 a u) = (s', OErr e) -> s' = s) /\
  (forall u, step s (Debit2 a u) = (s', OErr e) -> s' = s).
Proof.
  intros s a s' e. split; intros u; cbn [step]; unfold finish;
    match goal with |- (match ?R with _ => _ end) = _ -> _ => destruct R as [[s1 o1]| |] eqn:E end;
    try (intros H; injection H; auto; fail); try discriminate.
  - intros H; injection H as <- ->. exfalso. unfold bind in E.
    destruct (total6 u); try discriminate. destruct (alookup a (accts s)); try discriminate.
    destruct (_ <? _); try discriminate. destruct (csub _ _); try discriminate.
    destruct (distribute _ _ _ _) as [[[? ?] ?]| |]; discriminate.
  - intros H; injection H as <- ->. exfalso. unfold bind in E.
    destruct (alookup a (accts s)); try discriminate. destruct (cost4 u); try discriminate.
    destruct (_ <? _); try discriminate.
    destruct (distribute _ _ _ _) as [[[? ?] ?]| |]; discriminate.
Qed.

(** * A concrete history (non-vacuity of the hypotheses) *)
Definition z : cusage := {| cRpc := 0; cStorage := 0; cIngress := 0; cEgress := 0; cRegR := 0; cRegW := 0; cFunding := 0; cRisked := 0 |}.
Definition c11_demo : list op :=
  [AddC1 1 z; AddC1 2 z; AddC2 1 z; Fund1 1 0 1 5; Fund1 2 0 1 5;
   Fund2 1 [(1, 4)] {| rRpc := 0; rStorage := 0; rEgress := 0; rIngress := 0; rFunding := 4; rRisked := 0 |};
   Debit1 0 {| qStorage := 2; qIngress := 0; qEgress := 0; qRegR := 3; qRegW := 2; qRpc := 0 |}].

Lemma c11_demo_ok :
  Forall wf_op c11_demo /\ atts c11_demo < two128 /\ Forall (no_v2_deposit 0) c11_demo /\
  crev (con1 (runs init c11_demo)) = 9 /\
  option_map cFunding (alookup 1 (con1 (runs init c11_demo))) = Some 0 /\
  option_map cFunding (alookup 2 (con1 (runs init c11_demo))) = Some 3 /\
  option_map cRegW (alookup 2 (con1 (runs init c11_demo))) = Some 2 /\
  inner 0 (fund1 (runs init c11_demo)) = [(2, 3)] /\ getv 0 (accts (runs init c11_demo)) = 3.
Proof.
  split.
  { unfold c11_demo. repeat (apply Forall_cons; [cbn [wf_op z cFunding rFunding asum]; try reflexivity; try exact I|]); try apply Forall_nil.
    unfold wfq; cbn [qStorage qIngress qEgress qRegR qRegW qRpc]. unfold two128. repeat split; reflexivity. }
  split; [vm_compute; reflexivity|].
  split.
  { unfold c11_demo. repeat (apply Forall_cons; [cbn [no_v2_deposit amt_for]; try reflexivity; try exact I|]). apply Forall_nil. }
  repeat split; vm_compute; reflexivity.
Qed.
