(* Funding/Proofs2.v — the funding-table invariant and its preservation by every store operation *)
From Coq Require Import Lia ZifyBool ZifyN ZifyNat.
From HostdBase Require Import Base.
From HostdFunding Require Import Model Lib Proofs.

Local Open Scope N_scope.
Set Implicit Arguments.

(** * One funding table with its contract table *)
Record TInv (f : list (N * list (N * N))) (t : list (N * cusage)) : Prop := {
  (* the contract's unspent account funding is the sum of its per-account funding records *)
  t_fund : forall c x, alookup c t = Some x -> cFunding x = fsum c f;
  (* records only reference existing contracts *)
  t_refs : forall c, alookup c t = None -> fsum c f = 0;
  t_outer : nodupk f;
  t_inner : forall a, nodupk (inner a f)
}.

Record Inv (B : N) (s : state) : Prop := {
  i_v1 : TInv (fund1 s) (con1 s);
  i_v2 : TInv (fund2 s) (con2 s);
  i_bound : cw (con1 s) + cw (con2 s) <= B
}.

Lemma TInv_nil : TInv [] [].
Proof. constructor; intros; try reflexivity; try discriminate; constructor. Qed.

Lemma Inv_init : Inv 0 init.
Proof. constructor; cbn; [exact TInv_nil | exact TInv_nil | lia]. Qed.

Lemma Inv_mono : forall B B' s, Inv B s -> B <= B' -> Inv B' s.
Proof. intros B B' s [] H. constructor; try assumption. lia. Qed.

Lemma cuadd_inv : forall x y z, cuadd x y = Ok z ->
  z = {| cRpc := cRpc x + cRpc y; cStorage := cStorage x + cStorage y; cIngress := cIngress x + cIngress y;
         cEgress := cEgress x + cEgress y; cRegR := cRegR x + cRegR y; cRegW := cRegW x + cRegW y;
         cFunding := cFunding x + cFunding y; cRisked := cRisked x + cRisked y |}.
Proof.
  intros x y z. unfold cuadd, bind, cadd.
  destruct (cRpc x + cRpc y <? two128); [|discriminate].
  destruct (cStorage x + cStorage y <? two128); [|discriminate].
  destruct (cIngress x + cIngress y <? two128); [|discriminate].
  destruct (cEgress x + cEgress y <? two128); [|discriminate].
  destruct (cRegR x + cRegR y <? two128); [|discriminate].
  destruct (cRegW x + cRegW y <? two128); [|discriminate].
  destruct (cFunding x + cFunding y <? two128); [|discriminate].
  destruct (cRisked x + cRisked y <? two128); [|discriminate].
  intros H; injection H as <-. reflexivity.
Qed.

Lemma fsum_upsert : forall c c' a amt f,
  fsum c' (aset a (aset c (getv c (inner a f) + amt) (inner a f)) f)
  = fsum c' f + (if c' =? c then amt else 0).
Proof.
  intros. pose proof (fsum_aset c' a (aset c (getv c (inner a f) + amt) (inner a f)) f) as H.
  pose proof (inner_le_fsum c' a f). rewrite getv_aset in H.
  destruct (c' =? c) eqn:E; [apply N.eqb_eq in E; subst c'|]; lia.
Qed.

Lemma TInv_add : forall f t c u, TInv f t -> alookup c t = None -> cFunding u = 0 -> TInv f (aset c u t).
Proof.
  intros f t c u [] Hn Hu. constructor; try assumption.
  - intros c' x. rewrite alookup_aset. destruct (c' =? c) eqn:E.
    + apply N.eqb_eq in E; subst c'. intros H; injection H as <-. rewrite (t_refs0 _ Hn). exact Hu.
    + apply t_fund0.
  - intros c'. rewrite alookup_aset. destruct (c' =? c); [discriminate | apply t_refs0].
Qed.

Lemma TInv_upsert : forall f t c a amt x x', TInv f t -> alookup c t = Some x ->
  cFunding x' = cFunding x + amt ->
  TInv (aset a (aset c (getv c (inner a f) + amt) (inner a f)) f) (aset c x' t).
Proof.
  intros f t c a amt x x' [] Hc Hx. constructor.
  - intros c' y. rewrite alookup_aset, fsum_upsert. destruct (c' =? c) eqn:E.
    + apply N.eqb_eq in E; subst c'. intros H; injection H as <-. rewrite Hx, (t_fund0 _ _ Hc). reflexivity.
    + intros H. rewrite (t_fund0 _ _ H). lia.
  - intros c'. rewrite alookup_aset, fsum_upsert. destruct (c' =? c); [discriminate|].
    intros H. rewrite (t_refs0 _ H). reflexivity.
  - apply nodupk_aset; assumption.
  - intros a'. rewrite inner_aset. destruct (a' =? a); [apply nodupk_aset; apply t_inner0 | apply t_inner0].
Qed.

(* the usage columns can be bumped without touching the funding column *)
Lemma TInv_usage : forall f t c x x', TInv f t -> alookup c t = Some x -> cFunding x' = cFunding x ->
  TInv f (aset c x' t).
Proof.
  intros f t c x x' [] Hc Hx. constructor; try assumption.
  - intros c' y. rewrite alookup_aset. destruct (c' =? c) eqn:E.
    + apply N.eqb_eq in E; subst c'. intros H; injection H as <-. rewrite Hx. exact (t_fund0 _ _ Hc).
    + apply t_fund0.
  - intros c'. rewrite alookup_aset. destruct (c' =? c); [discriminate | apply t_refs0].
Qed.

(** * A debit on one table *)
Lemma debit_table : forall f t a u, TInv f t -> wfq u ->
  (forall c x, alookup c t = Some x -> headroom x) ->
  exists u' rows' t', distribute (nonzero (inner a f)) u (inner a f) t = Ok (u', rows', t') /\
    TInv (aset a rows' f) t' /\
    (forall c, match alookup c t, alookup c t' with
               | Some x, Some x' => moved_into x x' | None, None => True | _, _ => False end) /\
    crev t' + tot6 u' = crev t + tot6 u /\
    tot6 u' = tot6 u - asum (inner a f) /\
    asum rows' + (tot6 u - tot6 u') = asum (inner a f) /\
    cw t' = cw t.
Proof.
  intros f t a u [] Hu Hhead.
  set (rows := inner a f).
  set (oth := fun c => fsum c f - getv c rows).
  destruct (@distribute_spec oth (nonzero rows) u rows t) as (u'&rows'&t'&E&G1&G2&G3&G4&G5&G6&G7&G8&G9).
  - exact (nodupk_nonzero _ (t_inner0 a)).
  - exact (t_inner0 a).
  - exact Hu.
  - intros c amt Hin. destruct (in_nonzero _ _ _ Hin) as [Hin' Hnz].
    pose proof (in_alookup _ _ _ _ (t_inner0 a) Hin') as L. fold rows in L.
    assert (Hg : getv c rows = amt) by (unfold getv; rewrite L; reflexivity).
    split; [exact Hg|]. intros Hnone. pose proof (t_refs0 _ Hnone). pose proof (inner_le_fsum c a f). fold rows in H0. lia.
  - intros c x L. split; [|exact (Hhead _ _ L)].
    rewrite (t_fund0 _ _ L). subst oth. cbn beta. pose proof (inner_le_fsum c a f). fold rows in H. lia.
  - exists u', rows', t'. split; [exact E|]. rewrite asum_nonzero in G7.
    split; [|repeat split; assumption].
    constructor.
    + intros c x' L. destruct (G2 _ _ L) as [Hf _]. rewrite Hf. subst oth. cbn beta.
      pose proof (fsum_aset c a rows' f). pose proof (inner_le_fsum c a f). fold rows in H, H0. lia.
    + intros c L. specialize (G3 c). rewrite L in G3. destruct (alookup c t) eqn:L0; [contradiction|].
      pose proof (t_refs0 _ L0). pose proof (inner_le_fsum c a f). fold rows in H0.
      pose proof (fsum_aset c a rows' f). fold rows in H1. specialize (G4 c). lia.
    + apply nodupk_aset; assumption.
    + intros a'. rewrite inner_aset. destruct (a' =? a); [exact G1 | apply t_inner0].
Qed.

(** * The deposit loop of RHP4CreditAccounts *)
Fixpoint amt_for (x : N) (l : list (N * N)) : N :=
  match l with [] => 0 | (k, v) :: t => (if k =? x then v else 0) + amt_for x t end.

Lemma deposits2_spec : forall c deps ac f bals ac' f' bals',
  deposits2 c ac f bals deps = Ok (ac', f', bals') ->
  nodupk f -> (forall a, nodupk (inner a f)) ->
  nodupk f' /\ (forall a, nodupk (inner a f')) /\
  (forall c', fsum c' f' = fsum c' f + (if c' =? c then asum deps else 0)) /\
  (forall a, getv a ac' = getv a ac + amt_for a deps) /\
  (forall a, asum (inner a f') = asum (inner a f) + amt_for a deps).
Proof.
  intros c. induction deps as [|[a amt] t IH]; intros ac f bals ac' f' bals' H Ho Hi; cbn [deposits2] in H.
  - injection H as <- <- <-. cbn [asum amt_for]. repeat split; try assumption; intros; try lia.
    destruct (c' =? c); lia.
  - unfold bind in H. destruct (cadd (getv a ac) amt) as [nb| |] eqn:E1; try discriminate.
    destruct (cadd (getv c (inner a f)) amt) as [na| |] eqn:E2; try discriminate.
    assert (nb = getv a ac + amt) by (unfold cadd in E1; destruct (_ <? _); [injection E1; auto | discriminate]).
    assert (na = getv c (inner a f) + amt) by (unfold cadd in E2; destruct (_ <? _); [injection E2; auto | discriminate]).
    subst nb na.
    destruct (IH _ _ _ _ _ _ H) as (R1&R2&R3&R4&R5).
    + apply nodupk_aset; assumption.
    + intros a'. rewrite inner_aset. destruct (a' =? a); [apply nodupk_aset; apply Hi | apply Hi].
    + cbn [asum amt_for]. refine (conj R1 (conj R2 (conj _ (conj _ _)))).
      * intros c'. rewrite R3, fsum_upsert. destruct (c' =? c); lia.
      * intros x. rewrite R4, getv_aset. destruct (x =? a) eqn:E; destruct (a =? x) eqn:E'; try lia.
        apply N.eqb_eq in E; subst x. lia.
      * intros x. rewrite R5, inner_aset. destruct (x =? a) eqn:E; destruct (a =? x) eqn:E'; try lia.
        apply N.eqb_eq in E; subst x.
        pose proof (asum_aset c (getv c (inner a f) + amt) (inner a f)). lia.
Qed.

(** * recalcContractAccountFunding is the identity on a consistent table *)
Fixpoint rsum (c : N) (rows : list (N * N * N)) : N :=
  match rows with [] => 0 | (c0, _, amt) :: t => (if c0 =? c then amt else 0) + rsum c t end.

Lemma rsum_app : forall c r1 r2, rsum c (r1 ++ r2) = rsum c r1 + rsum c r2.
Proof. induction r1 as [|[[c0 a0] v0] t IH]; intros; cbn [app rsum]; [lia | rewrite IH; lia]. Qed.

Lemma rsum_inner : forall c a l, nodupk l -> rsum c (map (fun ca => (fst ca, a, snd ca)) l) = getv c l.
Proof.
  unfold nodupk, getv. induction l as [|[c0 v0] t IH]; cbn [map fst snd rsum alookup]; intros H; [reflexivity|].
  inversion H as [|? ? Hn Hd]; subst. rewrite (IH Hd). destruct (c0 =? c) eqn:E.
  - apply N.eqb_eq in E; subst c0. rewrite N.eqb_refl.
    destruct (alookup c t) eqn:L; [exfalso; apply Hn; exact (alookup_in _ _ _ _ L) | lia].
  - rewrite N.eqb_sym, E. lia.
Qed.

Lemma rsum_rows_of : forall c f, nodupk f -> (forall a, nodupk (inner a f)) -> rsum c (rows_of f) = fsum c f.
Proof.
  unfold rows_of. induction f as [|[a l] t IH]; intros Ho Hi; cbn [flat_map fsum fst snd]; [reflexivity|].
  rewrite rsum_app. unfold nodupk in Ho. cbn [map fst] in Ho. inversion Ho as [|? ? Hn Hd]; subst.
  rewrite rsum_inner.
  - rewrite IH; [reflexivity | exact Hd |].
    intros a'. specialize (Hi a'). unfold inner in *. cbn [alookup] in Hi. destruct (a' =? a) eqn:E; [|exact Hi].
    apply N.eqb_eq in E; subst a'. destruct (alookup a t) eqn:L; [|constructor].
    exfalso. apply Hn. exact (alookup_in _ _ _ _ L).
  - specialize (Hi a). unfold inner in Hi. cbn [alookup] in Hi. rewrite N.eqb_refl in Hi. exact Hi.
Qed.

Lemma recalc_sums_spec : forall rows m m', recalc_sums rows m = Ok m' -> nodupk m ->
  nodupk m' /\ (forall c, getv c m' = getv c m + rsum c rows) /\
  (forall c, alookup c m' = None -> alookup c m = None).
Proof.
  induction rows as [|[[c0 a0] v0] t IH]; intros m m' H Hm; cbn [recalc_sums rsum] in *.
  - injection H as <-. repeat split; try assumption; intros; try lia; assumption.
  - unfold bind in H. destruct (cadd (getv c0 m) v0) as [v| |] eqn:E; try discriminate.
    assert (v = getv c0 m + v0) by (unfold cadd in E; destruct (_ <? _); [injection E; auto | discriminate]). subst v.
    destruct (IH _ _ H (nodupk_aset _ _ _ _ Hm)) as (R1&R2&R3). refine (conj R1 (conj _ _)).
    + intros c. rewrite R2, getv_aset. destruct (c =? c0) eqn:E1; destruct (c0 =? c) eqn:E2; try lia.
      apply N.eqb_eq in E1; subst. lia.
    + intros c L. specialize (R3 c L). rewrite alookup_aset in R3. destruct (c =? c0); [discriminate | exact R3].
Qed.

Lemma recalc_apply_id : forall f m t, (forall c x, alookup c t = Some x -> cFunding x = fsum c f) ->
  (forall c v, In (c, v) m -> v = fsum c f) ->
  forall t', recalc_apply m t = Ok t' -> t' = t.
Proof.
  intros f. induction m as [|[c v] r IH]; intros t Ht Hm t' H; cbn [recalc_apply] in H.
  - injection H; auto.
  - destruct (alookup c t) as [x|] eqn:L; [|discriminate].
    assert (Ev : with_funding x v = x).
    { rewrite (Hm c v (or_introl eq_refl)), <- (Ht _ _ L). destruct x; reflexivity. }
    rewrite Ev, (aset_same _ _ _ _ L) in H. apply (IH t Ht); [|exact H].
    intros c' v' Hin. exact (Hm c' v' (or_intror Hin)).
Qed.

Lemma in_getv : forall (m : list (N * N)) c v, nodupk m -> In (c, v) m -> getv c m = v.
Proof. intros m c v Hm Hin. unfold getv. rewrite (in_alookup _ _ _ _ Hm Hin). reflexivity. Qed.

Lemma recalc_identity : forall s, TInv (fund1 s) (con1 s) -> fst (step s Recalc) = s.
Proof.
  intros s []. cbn [step]. unfold finish, bind.
  destruct (recalc_sums (rows_of (fund1 s)) []) as [m| |] eqn:E; try reflexivity.
  destruct (@recalc_sums_spec _ _ _ E) as (R1&R2&_); [constructor|].
  destruct (recalc_apply m (con1 s)) as [t'| |] eqn:E2; try reflexivity.
  assert (t' = con1 s).
  { apply (@recalc_apply_id (fund1 s) m (con1 s)); try assumption.
    intros c v Hin. rewrite <- (in_getv _ _ R1 Hin), R2. unfold getv at 1. cbn [alookup].
    rewrite rsum_rows_of by assumption. lia. }
  subst t'. cbn [fst]. destruct s; reflexivity.
Qed.
