(* Funding/Proofs.v — the pure distribution (distributeFunds, one source, the loop) *)
From Coq Require Import Lia ZifyBool ZifyN ZifyNat.
From HostdBase Require Import Base.
From HostdFunding Require Import Model Lib.

Local Open Scope N_scope.
Set Implicit Arguments.

Lemma cadd_ok : forall x y, x + y < two128 -> cadd x y = Ok (x + y).
Proof. intros. unfold cadd. destruct (x + y <? two128) eqn:E; [reflexivity | lia]. Qed.
Lemma csub_ok : forall x y, y <= x -> csub x y = Ok (x - y).
Proof. intros. unfold csub. destruct (y <=? x) eqn:E; [reflexivity | lia]. Qed.

Definition tot6 (q : usage6) : N := qStorage q + qIngress q + qEgress q + qRegR q + qRegW q + qRpc q.
(* a usage vector of Currency values *)
Definition wfq (q : usage6) : Prop :=
  qStorage q < two128 /\ qIngress q < two128 /\ qEgress q < two128 /\
  qRegR q < two128 /\ qRegW q < two128 /\ qRpc q < two128.
(* the six revenue columns of a contract *)
Definition rev (x : cusage) : N := cRpc x + cStorage x + cIngress x + cEgress x + cRegR x + cRegW x.

(** * distributeFunds *)
Lemma dfunds_spec : forall u rem, u < two128 ->
  dfunds u 0 rem = Ok (u - N.min u rem, N.min u rem, rem - N.min u rem).
Proof.
  intros u rem Hu. unfold dfunds.
  destruct ((rem =? 0) || (u =? 0)) eqn:Z.
  - assert (N.min u rem = 0) by lia. rewrite H, !N.sub_0_r. reflexivity.
  - destruct (rem <? u) eqn:C.
    + assert (E : N.min u rem = rem) by lia. rewrite E. unfold bind.
      rewrite !csub_ok by lia. rewrite cadd_ok by lia. reflexivity.
    + assert (E : N.min u rem = u) by lia. rewrite E. unfold bind.
      rewrite !csub_ok by lia. rewrite cadd_ok by lia. reflexivity.
Qed.

(** * One funding source *)
Lemma dist_spec : forall u amt, wfq u ->
  exists u' add rem, dist u amt = Ok (u', add, rem) /\
    qStorage u' + qStorage add = qStorage u /\ qIngress u' + qIngress add = qIngress u /\
    qEgress u' + qEgress add = qEgress u /\ qRegR u' + qRegR add = qRegR u /\
    qRegW u' + qRegW add = qRegW u /\ qRpc u' + qRpc add = qRpc u /\
    tot6 add + rem = amt /\ tot6 add = N.min (tot6 u) amt /\ wfq u'.
Proof.
  intros [s i e rr rw r] amt (H1&H2&H3&H4&H5&H6). cbn [qStorage qIngress qEgress qRegR qRegW qRpc] in *.
  unfold dist, bind. cbn [qStorage qIngress qEgress qRegR qRegW qRpc].
  rewrite (dfunds_spec _ H1). set (m1 := amt - N.min s amt).
  rewrite (dfunds_spec _ H2). set (m2 := m1 - N.min i m1).
  rewrite (dfunds_spec _ H3). set (m3 := m2 - N.min e m2).
  rewrite (dfunds_spec _ H4). set (m4 := m3 - N.min rr m3).
  rewrite (dfunds_spec _ H5). set (m5 := m4 - N.min rw m4).
  rewrite (dfunds_spec _ H6).
  eexists _, _, _. split; [reflexivity|].
  unfold tot6, wfq; cbn [qStorage qIngress qEgress qRegR qRegW qRpc]. subst m1 m2 m3 m4 m5.
  repeat split; lia.
Qed.

(** * Contract usage columns *)
(* every stored column is a Currency, and the contract's funding + revenue fits too *)
Definition headroom (x : cusage) : Prop := cFunding x + rev x < two128 /\ cRisked x < two128.

Lemma cuadd_ok : forall x y,
  cRpc x + cRpc y < two128 -> cStorage x + cStorage y < two128 -> cIngress x + cIngress y < two128 ->
  cEgress x + cEgress y < two128 -> cRegR x + cRegR y < two128 -> cRegW x + cRegW y < two128 ->
  cFunding x + cFunding y < two128 -> cRisked x + cRisked y < two128 ->
  cuadd x y = Ok {| cRpc := cRpc x + cRpc y; cStorage := cStorage x + cStorage y; cIngress := cIngress x + cIngress y;
                    cEgress := cEgress x + cEgress y; cRegR := cRegR x + cRegR y; cRegW := cRegW x + cRegW y;
                    cFunding := cFunding x + cFunding y; cRisked := cRisked x + cRisked y |}.
Proof. intros. unfold cuadd, bind. rewrite !cadd_ok by assumption. reflexivity. Qed.

(* what a debit may do to a contract row: move value from unspent funding into revenue *)
Definition moved_into (x x' : cusage) : Prop :=
  cFunding x' + rev x' = cFunding x + rev x /\ cFunding x' <= cFunding x /\ cRisked x' = cRisked x /\
  cRpc x <= cRpc x' /\ cStorage x <= cStorage x' /\ cIngress x <= cIngress x' /\ cEgress x <= cEgress x' /\
  cRegR x <= cRegR x' /\ cRegW x <= cRegW x'.

Lemma moved_refl : forall x, moved_into x x.
Proof. intros. unfold moved_into. repeat split; lia. Qed.
Lemma moved_trans : forall x y z, moved_into x y -> moved_into y z -> moved_into x z.
Proof. unfold moved_into. intros x y z H1 H2. repeat split; lia. Qed.
Lemma moved_headroom : forall x y, moved_into x y -> headroom x -> headroom y.
Proof. unfold moved_into, headroom. intros x y H1 H2. split; lia. Qed.

(* total revenue over a contract table *)
Fixpoint crev (t : list (N * cusage)) : N :=
  match t with [] => 0 | (_, x) :: r => rev x + crev r end.
Lemma crev_aset : forall c x' t x, alookup c t = Some x -> crev (aset c x' t) + rev x = crev t + rev x'.
Proof.
  induction t as [|[c0 x0] r IH]; intros x; cbn [alookup aset crev]; [discriminate|].
  destruct (c =? c0) eqn:E; cbn [crev].
  - intros H; injection H as ->. lia.
  - intros H. specialize (IH _ H). lia.
Qed.

(* everything a contract row holds: unspent funding + revenue + risked collateral *)
Definition cw1 (x : cusage) : N := cFunding x + rev x + cRisked x.
Fixpoint cw (t : list (N * cusage)) : N :=
  match t with [] => 0 | (_, x) :: r => cw1 x + cw r end.
Lemma cw_aset : forall c x' t x, alookup c t = Some x -> cw (aset c x' t) + cw1 x = cw t + cw1 x'.
Proof.
  induction t as [|[c0 x0] r IH]; intros x; cbn [alookup aset cw]; [discriminate|].
  destruct (c =? c0) eqn:E; cbn [cw].
  - intros H; injection H as ->. lia.
  - intros H. specialize (IH _ H). lia.
Qed.
Lemma cw_aset_new : forall c x' t, alookup c t = None -> cw (aset c x' t) = cw t + cw1 x'.
Proof.
  induction t as [|[c0 x0] r IH]; cbn [alookup aset cw]; [lia|].
  destruct (c =? c0) eqn:E; [discriminate|]. cbn [cw]. intros H. rewrite (IH H). lia.
Qed.
Lemma cw1_le_cw : forall c t x, alookup c t = Some x -> cw1 x <= cw t.
Proof.
  induction t as [|[c0 x0] r IH]; intros x; cbn [alookup cw]; [discriminate|].
  destruct (c =? c0); [intros H; injection H as ->; lia | intros H; specialize (IH _ H); lia].
Qed.
Lemma moved_cw1 : forall x y, moved_into x y -> cw1 y = cw1 x.
Proof. unfold moved_into, cw1. intros x y H. lia. Qed.

(** * The loop *)
(* [oth c]: what the other accounts' records contribute to contract c (constant during the loop) *)
Lemma distribute_spec : forall (oth : N -> N) snap u rows ctab,
  NoDup (map fst snap) -> nodupk rows -> wfq u ->
  (forall c amt, In (c, amt) snap -> getv c rows = amt /\ alookup c ctab <> None) ->
  (forall c x, alookup c ctab = Some x -> cFunding x = oth c + getv c rows /\ headroom x) ->
  exists u' rows' ctab', distribute snap u rows ctab = Ok (u', rows', ctab') /\
    nodupk rows' /\
    (forall c x', alookup c ctab' = Some x' -> cFunding x' = oth c + getv c rows' /\ headroom x') /\
    (forall c, match alookup c ctab, alookup c ctab' with
               | Some x, Some x' => moved_into x x'
               | None, None => True
               | _, _ => False
               end) /\
    (forall c, getv c rows' <= getv c rows) /\
    (forall c, ~ In c (map fst snap) -> getv c rows' = getv c rows) /\
    crev ctab' + tot6 u' = crev ctab + tot6 u /\
    tot6 u' = tot6 u - asum snap /\
    asum rows' + (tot6 u - tot6 u') = asum rows /\
    cw ctab' = cw ctab.
Proof.
  intros oth. induction snap as [|[c amt] t IH]; intros u rows ctab Hnd Hrows Hu Hsnap Hinv.
  - cbn [distribute asum]. exists u, rows, ctab. split; [reflexivity|]. split; [assumption|]. split; [assumption|].
    split; [intros c; destruct (alookup c ctab); [apply moved_refl | exact I]|].
    repeat split; intros; lia.
  - cbn [distribute]. cbn [map fst] in Hnd. inversion Hnd as [|? ? Hnotin Hnd']; subst.
    destruct (Hsnap c amt (or_introl eq_refl)) as [Hget Hsome].
    destruct (dist_spec amt Hu) as (u1&add&rem&E&F1&F2&F3&F4&F5&F6&Ftot&Fmin&Hu1).
    unfold bind at 1. rewrite E.
    destruct (alookup c ctab) as [x|] eqn:Lc; [|contradiction].
    destruct (Hinv c x Lc) as [Hfund [Hhead Hrisk]].
    unfold bind. rewrite (@csub_ok amt rem) by lia. rewrite (@csub_ok (cFunding x) (amt - rem)) by lia.
    assert (Hadd : tot6 add = amt - rem) by lia.
    unfold tot6 in Hadd, Ftot. unfold rev in Hhead.
    rewrite cuadd_ok by (unfold with_funding, of_usage6;
      cbn [cRpc cStorage cIngress cEgress cRegR cRegW cFunding cRisked]; lia).
    unfold with_funding, of_usage6; cbn [cRpc cStorage cIngress cEgress cRegR cRegW cFunding cRisked].
    match goal with |- context [aset c ?X ctab] => set (x' := X) end.
    set (rows1 := if rem =? 0 then aremove c rows else aset c rem rows).
    assert (Hrows1 : nodupk rows1) by (subst rows1; destruct (rem =? 0); [apply nodupk_aremove | apply nodupk_aset]; assumption).
    assert (Hg1 : forall k, getv k rows1 = if k =? c then rem else getv k rows).
    { intros k. subst rows1. destruct (rem =? 0) eqn:Z.
      - rewrite getv_aremove by assumption. destruct (k =? c); [lia | reflexivity].
      - apply getv_aset. }
    assert (Hmv : moved_into x x').
    { subst x'. unfold moved_into, rev. cbn [cRpc cStorage cIngress cEgress cRegR cRegW cFunding cRisked]. repeat split; lia. }
    destruct (IH u1 rows1 (aset c x' ctab) Hnd' Hrows1 Hu1) as (u'&rows'&ctab'&E2&G1&G2&G3&G4&G5&G6&G7&G8&G9).
    { intros c2 amt2 Hin. destruct (Hsnap c2 amt2 (or_intror Hin)) as [Hg Hs].
      assert (c2 <> c) by (intros ->; apply Hnotin; change c with (fst (c, amt2)); apply in_map; exact Hin).
      rewrite Hg1, alookup_aset. destruct (c2 =? c) eqn:Ec; [apply N.eqb_eq in Ec; contradiction|]. split; assumption. }
    { intros c2 x2. rewrite alookup_aset, Hg1. destruct (c2 =? c) eqn:Ec.
      - apply N.eqb_eq in Ec; subst c2. intros H; injection H as <-. split.
        + subst x'. cbn [cFunding]. lia.
        + exact (moved_headroom Hmv (conj Hhead Hrisk)).
      - exact (Hinv c2 x2). }
    exists u', rows', ctab'. split; [exact E2|]. split; [exact G1|]. split; [exact G2|].
    split.
    { intros k. specialize (G3 k). rewrite alookup_aset in G3. destruct (k =? c) eqn:Ek.
      - apply N.eqb_eq in Ek; subst k. rewrite Lc. destruct (alookup c ctab'); [exact (moved_trans Hmv G3) | contradiction].
      - exact G3. }
    split.
    { intros k. specialize (G4 k). rewrite Hg1 in G4. destruct (k =? c) eqn:Ek; [apply N.eqb_eq in Ek; subst k|]; lia. }
    split.
    { intros k Hk. cbn [map fst In] in Hk. rewrite G5 by tauto. rewrite Hg1.
      destruct (k =? c) eqn:Ek; [apply N.eqb_eq in Ek; subst k; tauto | reflexivity]. }
    pose proof (crev_aset c x' ctab Lc) as Hcr.
    pose proof (cw_aset c x' ctab Lc) as Hcw. pose proof (moved_cw1 Hmv) as Hcw1.
    assert (Hrx : rev x' = rev x + (amt - rem)).
    { subst x'. unfold rev. cbn [cRpc cStorage cIngress cEgress cRegR cRegW]. lia. }
    assert (Htu : tot6 u1 + (amt - rem) = tot6 u) by (unfold tot6; lia).
    assert (Has : asum rows1 + (amt - rem) = asum rows).
    { subst rows1. destruct (rem =? 0) eqn:Z.
      - pose proof (asum_aremove c rows). lia.
      - pose proof (asum_aset c rem rows). lia. }
    cbn [asum]. unfold tot6 in *. repeat split; lia.
Qed.
