(* Funding/Lib.v — association-list lemmas used by the funding proofs *)
From Coq Require Import Lia ZifyBool ZifyN ZifyNat.
From HostdBase Require Import Base.
From HostdFunding Require Import Model.

Local Open Scope N_scope.

Fixpoint asum (l : list (N * N)) : N :=
  match l with [] => 0 | (_, v) :: t => v + asum t end.

Lemma alookup_aset : forall V (k k' : N) (v : V) l,
  alookup k' (aset k v l) = if k' =? k then Some v else alookup k' l.
Proof.
  induction l as [|[k0 v0] t IH]; cbn [aset alookup].
  - destruct (k' =? k); reflexivity.
  - destruct (k =? k0) eqn:E; cbn [alookup].
    + apply N.eqb_eq in E; subst k0. destruct (k' =? k); reflexivity.
    + destruct (k' =? k0) eqn:E2.
      * apply N.eqb_eq in E2; subst k0.
        destruct (k' =? k) eqn:E3; [apply N.eqb_eq in E3; subst; rewrite N.eqb_refl in E; discriminate | reflexivity].
      * exact IH.
Qed.

Lemma alookup_aset_same : forall V (k : N) (v : V) l, alookup k (aset k v l) = Some v.
Proof. intros. rewrite alookup_aset, N.eqb_refl. reflexivity. Qed.

Lemma alookup_aset_other : forall V (k k' : N) (v : V) l, k' <> k -> alookup k' (aset k v l) = alookup k' l.
Proof. intros. rewrite alookup_aset. destruct (k' =? k) eqn:E; [apply N.eqb_eq in E; contradiction | reflexivity]. Qed.

Lemma asum_aset : forall k v l, asum (aset k v l) + getv k l = asum l + v.
Proof.
  unfold getv. induction l as [|[k0 v0] t IH]; cbn [aset asum alookup].
  - lia.
  - destruct (k =? k0) eqn:E; cbn [asum]; lia.
Qed.

Lemma getv_le_asum : forall k l, getv k l <= asum l.
Proof.
  unfold getv. induction l as [|[k0 v0] t IH]; cbn [asum alookup]; [lia|].
  destruct (k =? k0); lia.
Qed.

Lemma length_aset : forall V (k : N) (v : V) l,
  length (aset k v l) = match alookup k l with Some _ => length l | None => S (length l) end.
Proof.
  induction l as [|[k0 v0] t IH]; cbn [aset alookup length]; [reflexivity|].
  destruct (k =? k0); cbn [length]; [reflexivity|]. rewrite IH. destruct (alookup k t); reflexivity.
Qed.

(* keys without duplicates *)
Definition nodupk {V} (l : list (N * V)) : Prop := NoDup (map fst l).

Lemma alookup_none_notin : forall V (k : N) (l : list (N * V)), alookup k l = None -> ~ In k (map fst l).
Proof.
  induction l as [|[k0 v0] t IH]; cbn [alookup map fst In]; [tauto|].
  destruct (k =? k0) eqn:E; [discriminate|]. intros H [H1|H1]; [subst; rewrite N.eqb_refl in E; discriminate | exact (IH H H1)].
Qed.

Lemma in_keys_aset : forall V (k x : N) (v : V) l, In x (map fst (aset k v l)) -> x = k \/ In x (map fst l).
Proof.
  induction l as [|[k0 v0] t IH]; cbn [aset map fst In].
  - intros [H|[]]; auto.
  - destruct (k =? k0) eqn:E; cbn [map fst In].
    + apply N.eqb_eq in E; subst. tauto.
    + intros [H|H]; [tauto|]. destruct (IH H); tauto.
Qed.

Lemma nodupk_aset : forall V (k : N) (v : V) l, nodupk l -> nodupk (aset k v l).
Proof.
  unfold nodupk. induction l as [|[k0 v0] t IH]; cbn [aset map fst]; intros H.
  - constructor; [tauto | constructor].
  - inversion H as [|? ? Hn Hd]; subst. destruct (k =? k0) eqn:E; cbn [map fst].
    + apply N.eqb_eq in E; subst. constructor; assumption.
    + constructor; [|exact (IH Hd)]. intros Hin. destruct (in_keys_aset _ _ _ _ _ Hin) as [->|Hin']; [rewrite N.eqb_refl in E; discriminate | contradiction].
Qed.

Lemma in_keys_aremove : forall V (k x : N) (l : list (N * V)), In x (map fst (aremove k l)) -> In x (map fst l).
Proof.
  induction l as [|[k0 v0] t IH]; cbn [aremove map fst In]; [tauto|].
  destruct (k =? k0); cbn [map fst In]; [tauto|]. intros [H|H]; [tauto | right; exact (IH H)].
Qed.

Lemma nodupk_aremove : forall V (k : N) (l : list (N * V)), nodupk l -> nodupk (aremove k l).
Proof.
  unfold nodupk. induction l as [|[k0 v0] t IH]; cbn [aremove map fst]; intros H; [constructor|].
  inversion H as [|? ? Hn Hd]; subst. destruct (k =? k0); cbn [map fst]; [assumption|].
  constructor; [|exact (IH Hd)]. intros Hin. apply Hn. exact (in_keys_aremove _ _ _ _ Hin).
Qed.

Lemma alookup_in : forall V (k : N) (v : V) l, alookup k l = Some v -> In k (map fst l).
Proof.
  induction l as [|[k0 v0] t IH]; cbn [alookup map fst In]; [discriminate|].
  destruct (k =? k0) eqn:E; [apply N.eqb_eq in E; subst; tauto | intros H; right; exact (IH H)].
Qed.

Lemma alookup_aremove : forall V (k k' : N) (l : list (N * V)), nodupk l ->
  alookup k' (aremove k l) = if k' =? k then None else alookup k' l.
Proof.
  unfold nodupk. induction l as [|[k0 v0] t IH]; cbn [aremove alookup map fst]; intros H.
  - destruct (k' =? k); reflexivity.
  - inversion H as [|? ? Hn Hd]; subst. destruct (k =? k0) eqn:E.
    + apply N.eqb_eq in E; subst k0. destruct (k' =? k) eqn:E2; [|reflexivity].
      apply N.eqb_eq in E2; subst k'. destruct (alookup k t) eqn:L; [|reflexivity].
      exfalso; apply Hn; exact (alookup_in _ _ _ _ L).
    + cbn [alookup]. destruct (k' =? k0) eqn:E2.
      * apply N.eqb_eq in E2; subst k0. destruct (k' =? k) eqn:E3; [apply N.eqb_eq in E3; subst; rewrite N.eqb_refl in E; discriminate | reflexivity].
      * exact (IH Hd).
Qed.


Lemma getv_aset : forall k v x l, getv x (aset k v l) = if x =? k then v else getv x l.
Proof. intros. unfold getv. rewrite alookup_aset. destruct (x =? k); reflexivity. Qed.

Lemma getv_aremove : forall k x l, nodupk l -> getv x (aremove k l) = if x =? k then 0 else getv x l.
Proof. intros. unfold getv. rewrite alookup_aremove by assumption. destruct (x =? k); reflexivity. Qed.

Lemma asum_aremove : forall k l, asum (aremove k l) + getv k l = asum l.
Proof.
  unfold getv. induction l as [|[k0 v0] t IH]; cbn [aremove asum alookup]; [lia|].
  destruct (k =? k0) eqn:E; cbn [asum]; lia.
Qed.

Lemma in_alookup : forall V (k : N) (v : V) l, nodupk l -> In (k, v) l -> alookup k l = Some v.
Proof.
  unfold nodupk. induction l as [|[k0 v0] t IH]; cbn [map fst alookup In]; intros H Hin; [contradiction|].
  inversion H as [|? ? Hn Hd]; subst. destruct Hin as [E|Hin].
  - injection E as -> ->. rewrite N.eqb_refl. reflexivity.
  - destruct (k =? k0) eqn:E; [|exact (IH Hd Hin)].
    apply N.eqb_eq in E; subst k0. exfalso. apply Hn. change k with (fst (k, v)). apply in_map. exact Hin.
Qed.

Lemma aset_same : forall V (k : N) (v : V) l, alookup k l = Some v -> aset k v l = l.
Proof.
  induction l as [|[k0 v0] t IH]; cbn [alookup aset]; [discriminate|].
  destruct (k =? k0) eqn:E.
  - intros H; injection H as ->. apply N.eqb_eq in E; subst. reflexivity.
  - intros H. rewrite (IH H). reflexivity.
Qed.

(* the non-zero rows of a duplicate-free row list are duplicate-free *)
Lemma nodupk_nonzero : forall l, nodupk l -> nodupk (nonzero l).
Proof.
  unfold nodupk, nonzero. induction l as [|[k v] t IH]; cbn [filter map fst]; intros H; [constructor|].
  inversion H as [|? ? Hn Hd]; subst. cbn [snd]. destruct (negb (v =? 0)); cbn [map fst]; [|exact (IH Hd)].
  constructor; [|exact (IH Hd)]. intros Hin. apply Hn.
  clear - Hin. induction t as [|[k1 v1] t IH]; cbn [filter map fst In] in *; [contradiction|].
  cbn [snd] in Hin. destruct (negb (v1 =? 0)); cbn [map fst In] in Hin; [destruct Hin; [left; assumption | right; auto] | right; auto].
Qed.

Lemma in_nonzero : forall l k v, In (k, v) (nonzero l) -> In (k, v) l /\ v <> 0.
Proof.
  unfold nonzero. intros l k v H. apply filter_In in H as [H1 H2]. cbn [snd] in H2. split; [assumption | lia].
Qed.

Lemma asum_nonzero : forall l, asum (nonzero l) = asum l.
Proof.
  unfold nonzero. induction l as [|[k v] t IH]; cbn [filter asum snd]; [reflexivity|].
  destruct (v =? 0) eqn:E; cbn [negb asum]; lia.
Qed.

(** * Sums over a funding table: contract c's records across all accounts *)
Fixpoint fsum (c : N) (f : list (N * list (N * N))) : N :=
  match f with [] => 0 | (_, l) :: t => getv c l + fsum c t end.

Lemma fsum_aset : forall c a l f, fsum c (aset a l f) + getv c (inner a f) = fsum c f + getv c l.
Proof.
  unfold inner. induction f as [|[a0 l0] t IH]; cbn [aset fsum alookup].
  - unfold getv at 2. cbn. lia.
  - destruct (a =? a0) eqn:E; cbn [fsum]; lia.
Qed.

Lemma inner_le_fsum : forall c a f, getv c (inner a f) <= fsum c f.
Proof.
  unfold inner. induction f as [|[a0 l0] t IH]; cbn [fsum alookup]; [unfold getv; cbn; lia|].
  destruct (a =? a0); lia.
Qed.

Lemma inner_aset : forall a a' l f, inner a' (aset a l f) = if a' =? a then l else inner a' f.
Proof. intros. unfold inner. rewrite alookup_aset. destruct (a' =? a); reflexivity. Qed.

(* the account's records *)
Lemma getv_le_asum' : forall k l, getv k l <= asum l.
Proof. exact getv_le_asum. Qed.
