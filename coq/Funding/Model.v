(* Funding/Model.v — attribution of account spending to the funding contracts:
     persist/sqlite/accounts.go  CreditAccountWithContract (+ incrementContractAccountFunding),
                                 RHP4CreditAccounts (funding upsert), DebitAccount,
                                 RHP4DebitAccount, distributeRHP3AccountUsage,
                                 distributeRHP4AccountUsage, contractFunding/contractV2Funding,
                                 setContractAccountFunding, setContractRemainingFunds,
                                 AccountFunding
     persist/sqlite/contracts.go incrementContractUsage / incrementV2ContractUsage (the usage
                                 columns of contracts / contracts_v2), AddContract/AddV2Contract
     persist/sqlite/recalc.go    recalcContractAccountFunding
   as in /repo HEAD (incl. fix cb8ed00: v1 registry columns are persisted).
   Not modelled: contract status and the revenue metrics it selects (C05), the accountBalance /
   activeAccounts metrics (C04, Ledger/Model.v); neither can make these transactions fail.
   The funding tables are kept per account in rowid order (the order the distribute loops
   iterate in: a full scan of contract_(v2_)account_funding WHERE account_id=?).  No proofs here. *)
From HostdBase Require Import Base.

(* a usage vector in the order distributeFunds is applied:
   storage, ingress, egress, registry read, registry write, rpc.
   distributeRHP4AccountUsage is the same loop without the two registry calls, i.e. with
   registry read = registry write = 0 (distributeFunds returns at once on a zero usage). *)
Record usage6 := { qStorage : N; qIngress : N; qEgress : N; qRegR : N; qRegW : N; qRpc : N }.
Definition q0 : usage6 := {| qStorage := 0; qIngress := 0; qEgress := 0; qRegR := 0; qRegW := 0; qRpc := 0 |}.

(* the usage columns of a contracts / contracts_v2 row (v2 has no registry columns: always 0) *)
Record cusage := { cRpc : N; cStorage : N; cIngress : N; cEgress : N; cRegR : N; cRegW : N;
                   cFunding : N; cRisked : N }.

(* proto4.Usage *)
Record usage4 := { rRpc : N; rStorage : N; rEgress : N; rIngress : N; rFunding : N; rRisked : N }.

Record state := {
  accts : list (N * N);                    (* accounts: key -> balance *)
  con1 : list (N * cusage);                (* contracts *)
  con2 : list (N * cusage);                (* contracts_v2 *)
  fund1 : list (N * list (N * N));         (* contract_account_funding: account -> (contract -> amount) *)
  fund2 : list (N * list (N * N))          (* contract_v2_account_funding *)
}.
Definition init : state := {| accts := []; con1 := []; con2 := []; fund1 := []; fund2 := [] |}.

Inductive op :=
| AddC1 (c : N) (u : cusage)               (* Store.AddContract(…, initialUsage, …) *)
| AddC2 (c : N) (u : cusage)               (* Store.AddV2Contract *)
| Fund1 (c a cost amt : N)                 (* Store.CreditAccountWithContract *)
| Fund2 (c : N) (deps : list (N * N)) (u : usage4)   (* Store.RHP4CreditAccounts *)
| Debit1 (a : N) (u : usage6)              (* Store.DebitAccount (accounts.Usage) *)
| Debit2 (a : N) (u : usage4)              (* Store.RHP4DebitAccount *)
| Recalc                                   (* Store.RecalcContractAccountFunding (v1 only) *)
| Funding1 (a : N)                         (* Store.AccountFunding(a) *)
| Rows1 | Rows2                            (* read-only SQL over the funding tables *)
| Contract1 (c : N) | Contract2 (c : N)    (* Store.Contract(c).Usage / Store.V2Contract(c).Usage *)
| Balance (a : N).

Inductive obs :=
| ODone
| OErr (e : err)
| OPanic
| OBals (l : list N)
| OBal (n : N)
| OSources (l : list (N * N))              (* (contract, amount) *)
| ORows (l : list (N * N * N))             (* (contract, account, amount) *)
| OUsage (u : cusage).

Definition getv (k : N) (l : list (N * N)) : N := match alookup k l with Some v => v | None => 0 end.
Definition inner (a : N) (f : list (N * list (N * N))) : list (N * N) :=
  match alookup a f with Some l => l | None => [] end.

(* contracts.Usage.Add / proto4.Usage.Add on the stored columns *)
Definition cuadd (x y : cusage) : res cusage :=
  do r <- cadd (cRpc x) (cRpc y);
  do s <- cadd (cStorage x) (cStorage y);
  do i <- cadd (cIngress x) (cIngress y);
  do e <- cadd (cEgress x) (cEgress y);
  do rr <- cadd (cRegR x) (cRegR y);
  do rw <- cadd (cRegW x) (cRegW y);
  do f <- cadd (cFunding x) (cFunding y);
  do k <- cadd (cRisked x) (cRisked y);
  Ok {| cRpc := r; cStorage := s; cIngress := i; cEgress := e; cRegR := rr; cRegW := rw;
        cFunding := f; cRisked := k |}.

Definition with_funding (x : cusage) (f : N) : cusage :=
  {| cRpc := cRpc x; cStorage := cStorage x; cIngress := cIngress x; cEgress := cEgress x;
     cRegR := cRegR x; cRegW := cRegW x; cFunding := f; cRisked := cRisked x |}.

Definition of_usage6 (q : usage6) : cusage :=
  {| cRpc := qRpc q; cStorage := qStorage q; cIngress := qIngress q; cEgress := qEgress q;
     cRegR := qRegR q; cRegW := qRegW q; cFunding := 0; cRisked := 0 |}.
Definition of_usage4 (u : usage4) : cusage :=
  {| cRpc := rRpc u; cStorage := rStorage u; cIngress := rIngress u; cEgress := rEgress u;
     cRegR := 0; cRegW := 0; cFunding := rFunding u; cRisked := rRisked u |}.

(* the distributeFunds closure: (usage, additional, remainder) *)
Definition dfunds (u add rem : N) : res (N * N * N) :=
  if (rem =? 0)%N || (u =? 0)%N then Ok (u, add, rem)
  else
    let v := if (rem <? u)%N then rem else u in
    do u' <- csub u v;
    do rem' <- csub rem v;
    do add' <- cadd add v;
    Ok (u', add', rem').

(* one funding source of [amt]: six distributeFunds calls sharing the remainder *)
Definition dist (u : usage6) (amt : N) : res (usage6 * usage6 * N) :=
  do r1 <- dfunds (qStorage u) 0 amt; let '(u1, a1, m1) := r1 in
  do r2 <- dfunds (qIngress u) 0 m1;  let '(u2, a2, m2) := r2 in
  do r3 <- dfunds (qEgress u) 0 m2;   let '(u3, a3, m3) := r3 in
  do r4 <- dfunds (qRegR u) 0 m3;     let '(u4, a4, m4) := r4 in
  do r5 <- dfunds (qRegW u) 0 m4;     let '(u5, a5, m5) := r5 in
  do r6 <- dfunds (qRpc u) 0 m5;      let '(u6, a6, m6) := r6 in
  Ok ({| qStorage := u1; qIngress := u2; qEgress := u3; qRegR := u4; qRegW := u5; qRpc := u6 |},
      {| qStorage := a1; qIngress := a2; qEgress := a3; qRegR := a4; qRegW := a5; qRpc := a6 |},
      m6).

(* the loop of distributeRHP3AccountUsage / distributeRHP4AccountUsage over the snapshot [snap]
   of the account's non-zero funding rows; [rows] = the account's rows, [ctab] = the contract table *)
Fixpoint distribute (snap : list (N * N)) (u : usage6) (rows : list (N * N)) (ctab : list (N * cusage))
  : res (usage6 * list (N * N) * list (N * cusage)) :=
  match snap with
  | [] => Ok (u, rows, ctab)
  | (c, amt) :: t =>
      do r <- dist u amt; let '(u', add, rem) := r in
      (* setContractAccountFunding / DELETE-or-UPDATE of the funding row *)
      let rows' := if (rem =? 0)%N then aremove c rows else aset c rem rows in
      match alookup c ctab with
      | None => Err EOther
      | Some x =>
          do spent <- csub amt rem;                       (* f.Amount.Sub(remainder) *)
          do unspent <- csub (cFunding x) spent;          (* AccountFunding.Sub(…) *)
          do x' <- cuadd (with_funding x unspent) (of_usage6 add);
          distribute t u' rows' (aset c x' ctab)
      end
  end.

Definition nonzero (l : list (N * N)) : list (N * N) := filter (fun kv => negb (snd kv =? 0)%N) l.

(* accounts.Usage.Total(): rpc + storage + egress + ingress + registry read + registry write *)
Definition total6 (q : usage6) : res N :=
  do a <- cadd (qRpc q) (qStorage q); do b <- cadd a (qEgress q); do c <- cadd b (qIngress q);
  do d <- cadd c (qRegR q); cadd d (qRegW q).
(* proto4.Usage.RenterCost(): rpc + storage + egress + ingress + account funding *)
Definition cost4 (u : usage4) : res N :=
  do a <- cadd (rRpc u) (rStorage u); do b <- cadd a (rEgress u); do c <- cadd b (rIngress u);
  cadd c (rFunding u).
Definition q_of_usage4 (u : usage4) : usage6 :=
  {| qStorage := rStorage u; qIngress := rIngress u; qEgress := rEgress u; qRegR := 0; qRegW := 0; qRpc := rRpc u |}.

Definition set_f1 (s : state) (ac : list (N * N)) (f : list (N * list (N * N))) (c : list (N * cusage)) : state :=
  {| accts := ac; con1 := c; con2 := con2 s; fund1 := f; fund2 := fund2 s |}.
Definition set_f2 (s : state) (ac : list (N * N)) (f : list (N * list (N * N))) (c : list (N * cusage)) : state :=
  {| accts := ac; con1 := con1 s; con2 := c; fund1 := fund1 s; fund2 := f |}.

(* the deposit loop of RHP4CreditAccounts: balance and funding-row upsert per deposit *)
Fixpoint deposits2 (c : N) (ac : list (N * N)) (f : list (N * list (N * N))) (bals : list N) (deps : list (N * N))
  : res (list (N * N) * list (N * list (N * N)) * list N) :=
  match deps with
  | [] => Ok (ac, f, bals)
  | (a, amt) :: t =>
      do nb <- cadd (getv a ac) amt;
      do na <- cadd (getv c (inner a f)) amt;
      deposits2 c (aset a nb ac) (aset a (aset c na (inner a f)) f) (bals ++ [nb]) t
  end.

(* recalcContractAccountFunding: every contract that has funding rows gets their sum *)
Definition rows_of (f : list (N * list (N * N))) : list (N * N * N) :=
  flat_map (fun al => map (fun ca => (fst ca, fst al, snd ca)) (snd al)) f.
Fixpoint recalc_sums (rows : list (N * N * N)) (m : list (N * N)) : res (list (N * N)) :=
  match rows with
  | [] => Ok m
  | (c, _, amt) :: t => do v <- cadd (getv c m) amt; recalc_sums t (aset c v m)
  end.
Fixpoint recalc_apply (m : list (N * N)) (ctab : list (N * cusage)) : res (list (N * cusage)) :=
  match m with
  | [] => Ok ctab
  | (c, v) :: t =>
      match alookup c ctab with
      | None => Err EOther                     (* rowsAffected != 1 *)
      | Some x => recalc_apply t (aset c (with_funding x v) ctab)
      end
  end.

Definition finish (s : state) (r : res (state * obs)) : state * obs :=
  match r with Ok x => x | Err e => (s, OErr e) | Panic => (s, OPanic) end.

Definition step (s : state) (o : op) : state * obs :=
  match o with
  | AddC1 c u =>
      match alookup c (con1 s) with
      | Some _ => (s, OErr EOther)             (* UNIQUE(contract_id) *)
      | None => (set_f1 s (accts s) (fund1 s) (aset c u (con1 s)), ODone)
      end
  | AddC2 c u =>
      match alookup c (con2 s) with
      | Some _ => (s, OErr EOther)
      | None => (set_f2 s (accts s) (fund2 s) (aset c u (con2 s)), ODone)
      end
  | Fund1 c a cost amt =>
      finish s (
        do nb <- cadd (getv a (accts s)) amt;
        match alookup c (con1 s) with
        | None => Err EOther                   (* reviseContract: no such contract *)
        | Some x =>
            do x' <- cuadd x {| cRpc := cost; cStorage := 0; cIngress := 0; cEgress := 0; cRegR := 0;
                                cRegW := 0; cFunding := amt; cRisked := 0 |};
            do na <- cadd (getv c (inner a (fund1 s))) amt;
            Ok (set_f1 s (aset a nb (accts s)) (aset a (aset c na (inner a (fund1 s))) (fund1 s))
                       (aset c x' (con1 s)), ODone)
        end)
  | Fund2 c deps u =>
      finish s (
        match alookup c (con2 s) with
        | None => Err EOther
        | Some _ =>
            do r <- deposits2 c (accts s) (fund2 s) [] deps; let '(ac, f, bals) := r in
            match alookup c (con2 s) with
            | None => Err EOther
            | Some x => do x' <- cuadd x (of_usage4 u);
                        Ok (set_f2 s ac f (aset c x' (con2 s)), OBals bals)
            end
        end)
  | Debit1 a u =>
      finish s (
        do amount <- total6 u;
        match alookup a (accts s) with
        | None => Err EOther
        | Some bal =>
            if (bal <? amount)%N then Err EOther else
            do nb <- csub bal amount;
            do r <- distribute (nonzero (inner a (fund1 s))) u (inner a (fund1 s)) (con1 s);
            let '(_, rows, ctab) := r in
            Ok (set_f1 s (aset a nb (accts s))
                  (aset a rows (fund1 s))
                  ctab, ODone)
        end)
  | Debit2 a u =>
      finish s (
        match alookup a (accts s) with
        | None => Err EInsufficient
        | Some bal =>
            do amount <- cost4 u;
            if (bal <? amount)%N then Err EInsufficient else
            do r <- distribute (nonzero (inner a (fund2 s))) (q_of_usage4 u) (inner a (fund2 s)) (con2 s);
            let '(_, rows, ctab) := r in
            Ok (set_f2 s (aset a (bal - amount)%N (accts s))
                  (aset a rows (fund2 s))
                  ctab, ODone)
        end)
  | Recalc =>
      finish s (
        do m <- recalc_sums (rows_of (fund1 s)) [];
        do ctab <- recalc_apply m (con1 s);
        Ok (set_f1 s (accts s) (fund1 s) ctab, ODone))
  | Funding1 a => (s, OSources (inner a (fund1 s)))
  | Rows1 => (s, ORows (rows_of (fund1 s)))
  | Rows2 => (s, ORows (rows_of (fund2 s)))
  | Contract1 c => (s, match alookup c (con1 s) with Some x => OUsage x | None => OErr ENotFound end)
  | Contract2 c => (s, match alookup c (con2 s) with Some x => OUsage x | None => OErr ENotFound end)
  | Balance a => (s, OBal (getv a (accts s)))
  end.

Definition cusage_eqb (x y : cusage) : bool :=
  ((cRpc x =? cRpc y) && (cStorage x =? cStorage y) && (cIngress x =? cIngress y) && (cEgress x =? cEgress y)
   && (cRegR x =? cRegR y) && (cRegW x =? cRegW y) && (cFunding x =? cFunding y) && (cRisked x =? cRisked y))%N.

(* listings are compared as finite sets (row order is not part of the property) *)
Definition pair_eqb (x y : N * N) : bool := ((fst x =? fst y) && (snd x =? snd y))%N.
Definition triple_eqb (x y : N * N * N) : bool := pair_eqb (fst x) (fst y) && (snd x =? snd y)%N.
Definition sub {A} (eqb : A -> A -> bool) (l1 l2 : list A) : bool := forallb (fun x => existsb (eqb x) l2) l1.
Definition set_eqb {A} (eqb : A -> A -> bool) (l1 l2 : list A) : bool :=
  sub eqb l1 l2 && sub eqb l2 l1 && (length l1 =? length l2)%nat.

Definition obs_eqb (a b : obs) : bool :=
  match a, b with
  | ODone, ODone => true
  | OErr e, OErr f => err_eqb e f
  | OPanic, OPanic => true
  | OBals x, OBals y => list_eqb N.eqb x y
  | OBal x, OBal y => (x =? y)%N
  | OSources x, OSources y => set_eqb pair_eqb x y
  | ORows x, ORows y => set_eqb triple_eqb x y
  | OUsage x, OUsage y => cusage_eqb x y
  | _, _ => false
  end.

Definition case := (N * list (op * obs))%type.
Definition check (cs : list case) := mismatches init step obs_eqb cs.
