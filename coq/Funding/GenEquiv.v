(* Funding/GenEquiv.v — the definitions tools/go2coq regenerates from the current source of
   persist/sqlite/accounts.go (gen/DistGen.v: the distributeFunds closure and its calls at the head of
   the loop bodies of distributeRHP3AccountUsage / distributeRHP4AccountUsage, executed symbolically)
   are the hand model's [dist] (Model.v): what one funding row takes from the usage, what it adds to
   its contract, what remains of it — for all inputs, overflow and underflow panics included.
   The proof goes call by call: each joined block of the generated term is matched with the next
   [dfunds] of the hand model (whatever order the translator lists the three results in), by
   splitting the tests and checked operations of that block only. *)
From Coq Require Import Bool Lia ZifyBool ZifyN.
From HostdBase Require Import Base.
From HostdFunding Require Import Model DistGen.
Local Open Scope N_scope.

Definition map_res {A B} (p : A -> B) (r : res A) : res B :=
  match r with Ok a => Ok (p a) | Err e => Err e | Panic => Panic end.

Lemma step {A A' B} (p : A' -> A) (x : res A) (y : res A') (f : A -> res B) (g : A' -> res B) :
  x = map_res p y -> (forall a', f (p a') = g a') -> bind x f = bind y g.
Proof. intros -> H. destruct y; cbn; auto. Qed.

(* the six orders a block can list (usage, additional, remainder) in *)
Definition p123 (t : N * N * N) : N * N * N := let '(a, b, c) := t in (a, b, c).
Definition p132 (t : N * N * N) : N * N * N := let '(a, b, c) := t in (a, c, b).
Definition p213 (t : N * N * N) : N * N * N := let '(a, b, c) := t in (b, a, c).
Definition p231 (t : N * N * N) : N * N * N := let '(a, b, c) := t in (b, c, a).
Definition p312 (t : N * N * N) : N * N * N := let '(a, b, c) := t in (c, a, b).
Definition p321 (t : N * N * N) : N * N * N := let '(a, b, c) := t in (c, b, a).

Ltac block_eq :=
  unfold dfunds, map_res, bind;
  repeat match goal with
  | |- context [if ?c then _ else _] =>
      lazymatch c with
      | (_ || _)%bool => fail
      | (_ && _)%bool => fail
      | context [if _ then _ else _] => fail
      | _ => destruct c eqn:?; cbn
      end
  | |- context [match ?x with Ok _ => _ | Err _ => _ | Panic => _ end] =>
      lazymatch x with
      | context [match _ with Ok _ => _ | Err _ => _ | Panic => _ end] => fail
      | _ => destruct x; cbn
      end
  end; first [ reflexivity | exfalso; lia ].

Ltac one_step p :=
  apply (step p); [ solve [block_eq] | let a := fresh "a" in intros [[? ?] ?]; cbn [p123 p132 p213 p231 p312 p321] ].

Ltac next_step :=
  first [ one_step p123 | one_step p132 | one_step p213 | one_step p231 | one_step p312 | one_step p321 ].

Lemma dfunds_zero : forall a m, dfunds 0 a m = Ok (0, a, m).
Proof. intros. unfold dfunds. rewrite orb_true_r. reflexivity. Qed.

Lemma rhp3_row_eq : forall u amount, distributeRHP3AccountUsage_row u amount = dist u amount.
Proof.
  intros u amount. unfold distributeRHP3AccountUsage_row, dist.
  repeat next_step. reflexivity.
Qed.

(* distributeRHP4AccountUsage has no registry usage: the same loop with registry read = write = 0 *)
Lemma rhp4_row_eq : forall u amount, qRegR u = 0 -> qRegW u = 0 ->
  distributeRHP4AccountUsage_row u amount = dist u amount.
Proof.
  intros u amount Hr Hw. unfold distributeRHP4AccountUsage_row, dist. rewrite Hr, Hw.
  repeat (rewrite ?dfunds_zero; cbn [bind]; try next_step). rewrite ?dfunds_zero; cbn [bind].
  destruct u; cbn in *; subst; reflexivity.
Qed.

Lemma rhp4_row_of_usage4 : forall (u : usage4) amount,
  distributeRHP4AccountUsage_row (q_of_usage4 u) amount = dist (q_of_usage4 u) amount.
Proof. intros. apply rhp4_row_eq; reflexivity. Qed.

(** * the statement of C11 about one funding source, for the generated definitions *)
From HostdFunding Require Import Lib Proofs.

Lemma rhp3_row_spec : forall u amt, wfq u ->
  exists u' add rem, distributeRHP3AccountUsage_row u amt = Ok (u', add, rem) /\
    qStorage u' + qStorage add = qStorage u /\ qIngress u' + qIngress add = qIngress u /\
    qEgress u' + qEgress add = qEgress u /\ qRegR u' + qRegR add = qRegR u /\
    qRegW u' + qRegW add = qRegW u /\ qRpc u' + qRpc add = qRpc u /\
    tot6 add + rem = amt /\ tot6 add = N.min (tot6 u) amt /\ wfq u'.
Proof. intros u amt H. rewrite rhp3_row_eq. apply dist_spec; exact H. Qed.

Lemma rhp4_row_spec : forall (u : usage4) amt, wfq (q_of_usage4 u) ->
  exists u' add rem, distributeRHP4AccountUsage_row (q_of_usage4 u) amt = Ok (u', add, rem) /\
    qStorage u' + qStorage add = rStorage u /\ qIngress u' + qIngress add = rIngress u /\
    qEgress u' + qEgress add = rEgress u /\ qRpc u' + qRpc add = rRpc u /\
    qRegR add = 0 /\ qRegW add = 0 /\
    tot6 add + rem = amt /\ tot6 add = N.min (tot6 (q_of_usage4 u)) amt /\ wfq u'.
Proof.
  intros u amt H. rewrite rhp4_row_of_usage4.
  destruct (@dist_spec (q_of_usage4 u) amt H) as (u' & add & rem & E & H1 & H2 & H3 & H4 & H5 & H6 & H7 & H8 & H9).
  exists u', add, rem. cbn [q_of_usage4 qStorage qIngress qEgress qRegR qRegW qRpc] in *.
  refine (conj E (conj H1 (conj H2 (conj H3 (conj H6 (conj _ (conj _ (conj H7 (conj H8 H9))))))))); lia.
Qed.

Definition gen_demo_u : usage6 := {| qStorage := 5; qIngress := 2; qEgress := 0; qRegR := 1; qRegW := 4; qRpc := 3 |}.
Lemma gen_demo_ok :
  distributeRHP3AccountUsage_row gen_demo_u 9
    = Ok ({| qStorage := 0; qIngress := 0; qEgress := 0; qRegR := 0; qRegW := 3; qRpc := 3 |},
          {| qStorage := 5; qIngress := 2; qEgress := 0; qRegR := 1; qRegW := 1; qRpc := 0 |}, 0) /\
  distributeRHP4AccountUsage_row (q_of_usage4 {| rRpc := 3; rStorage := 5; rEgress := 1; rIngress := 2; rFunding := 0; rRisked := 0 |}) 20
    = Ok ({| qStorage := 0; qIngress := 0; qEgress := 0; qRegR := 0; qRegW := 0; qRpc := 0 |},
          {| qStorage := 5; qIngress := 2; qEgress := 1; qRegR := 0; qRegW := 0; qRpc := 3 |}, 9) /\
  wfq gen_demo_u.
Proof. vm_compute. repeat split; reflexivity. Qed.
